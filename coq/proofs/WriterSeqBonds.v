(* C02, read_write_graph, tree-bond clause at the level of the reader's parser (extension round 3).
   The tree of the traversal is kept with the atom numbers (itree); its erasure is the C03 tree of WriterSeqTree.  By structural
   induction over the tree, on SmilesAst.den (explicit parent addressing): every atom gets the number of its position in the
   pre-order, and for every tree edge parent - child the parsed bond list contains the bond (position of child, position of
   parent, value), the value being the order carried by the bond token, or `4 if both aromatic else 1` when nothing / a direction
   mark is written.  With flatten_ser and C03's read_spell_denote this is a statement about Parser.parse on the reader tokens of
   the token list of ANY traversal: positions are positions in the written atom order, edges are the TBond entries. *)
From Coq Require Import ZArith List Bool Lia Ascii.
From Model Require Import PyBase Graph Writer Tokenize Parser SmilesAst.
From Proofs Require Import WriterWfFlatten WriterWfTree WriterWfFlatten2 WriterSeqFlatten WriterSeqTree DenoteProofs ParserProofs TokenizeProofs.
Import ListNotations.
Open Scope Z_scope.

(* ------------------------------------------------------------------------------------------------ the machine: what a step keeps *)
Definition SInv (s : pstate) : Prop :=
  List.length (ps_atoms s) = List.length (ps_types s) /\ ps_n s = Z.of_nat (List.length (ps_types s)).

Definition bondish (t : token) : bool := zmem (fst t) [1; 4; 9; 10; 12; 6].

Lemma step_bondish strong s t s' : bondish t = true -> step strong s t = Ok s' ->
  ps_atoms s' = ps_atoms s /\ ps_types s' = ps_types s /\ ps_n s' = ps_n s /\ exists e, ps_bonds s' = ps_bonds s ++ e.
Proof.
  destruct t as [ty v]. unfold bondish, step. cbn [fst]. intros Hk H.
  assert (E2 : (ty =? 2) = false) by (destruct (ty =? 2) eqn:E; [exfalso; zcontra | reflexivity]).
  assert (E3 : (ty =? 3) = false) by (destruct (ty =? 3) eqn:E; [exfalso; zcontra | reflexivity]).
  rewrite E2, E3 in H.
  destruct (zmem ty [1; 4; 9; 10; 12]) eqn:Eb.
  { destruct (ps_prev s); [discriminate|]. destruct (ps_atoms s) eqn:Ea; [discriminate|]. inversion H. cbn.
    repeat split; try assumption. exists []. rewrite app_nil_r. reflexivity. }
  assert (E6 : (ty =? 6) = true).
  { clear - Hk Eb. cbn [zmem existsb] in *. destruct (ty =? 1), (ty =? 4), (ty =? 9), (ty =? 10), (ty =? 12), (ty =? 6); cbn in *; try reflexivity; discriminate. }
  rewrite E6 in H.
  destruct (match ps_prev s with Some (pt, _) => pt =? 4 | None => false end); [discriminate|].
  destruct v; try discriminate. destruct (zget (ps_cycles s) z) as [[[a ob] ind]|].
  - destruct (close_bond strong s a ob) as [[[[b sb] lg] x]|]; [|discriminate].
    destruct (od_set (ps_order s) a ind (Some (ps_last s))); [|discriminate]. inversion H. cbn.
    repeat split. eexists. reflexivity.
  - inversion H. cbn. repeat split. exists []. rewrite app_nil_r. reflexivity.
Qed.

Lemma loop_bondish strong : forall ts s s', forallb bondish ts = true -> loop strong s ts = Ok s' ->
  ps_atoms s' = ps_atoms s /\ ps_types s' = ps_types s /\ ps_n s' = ps_n s /\ exists e, ps_bonds s' = ps_bonds s ++ e.
Proof.
  induction ts as [|t ts IH]; intros s s' Hk H; cbn [loop forallb] in *.
  - inversion H. repeat split. exists []. rewrite app_nil_r. reflexivity.
  - apply andb_prop in Hk. destruct Hk as [K1 K2]. destruct (step strong s t) as [s1|] eqn:E; [|discriminate].
    destruct (step_bondish _ _ _ _ K1 E) as [A [B [C [e1 D]]]]. destruct (IH _ _ K2 H) as [A' [B' [C' [e2 D']]]].
    repeat split; try congruence. exists (e1 ++ e2). rewrite D', D, app_assoc. reflexivity.
Qed.

Lemma bondish_opt_bond b : bond_ok b = true -> forallb bondish (opt_bond b) = true.
Proof.
  destruct b as [[ty v]|]; [|reflexivity]. cbn [bond_ok opt_bond forallb]. unfold bondish. cbn [fst]. intros H.
  rewrite andb_true_r. clear - H. cbn [zmem existsb] in *.
  destruct (ty =? 1), (ty =? 4), (ty =? 9), (ty =? 10), (ty =? 12), (ty =? 6); cbn in *; try reflexivity; discriminate.
Qed.

Lemma bondish_rings rs : forallb (fun r : option token * Z => bond_ok (fst r)) rs = true -> forallb bondish (ring_tokens rs) = true.
Proof.
  induction rs as [|[b k] rs IH]; intros H; [reflexivity|]. cbn [forallb fst] in H. apply andb_prop in H. destruct H as [H1 H2].
  unfold ring_tokens. cbn [flat_map fst snd]. fold (ring_tokens rs). rewrite !forallb_app, (bondish_opt_bond b H1), (IH H2). reflexivity.
Qed.

(* the value of the bond between a new atom of type tyc and the atom of type typ it is attached to *)
Definition bval (b : option token) (tyc typ : Z) : option payload :=
  match b with
  | None => Some (arom_or_single tyc typ)
  | Some (bt, bv) => if bt =? 9 then Some (arom_or_single tyc typ) else if zmem bt [1; 10; 12] then Some bv else None
  end.
Definition tree_bond (b : option token) (n p tyc typ : Z) : list (Z * Z * payload) :=
  match bval b tyc typ with Some v => [(n, p, v)] | None => [] end.

(* attaching an atom to an existing atom `parent` *)
Lemma attach_bonds strong s parent b ty a s1 tp :
  SInv s -> ps_atoms s <> [] -> bond_ok b = true -> zmem ty [0; 8] = true ->
  0 <= parent -> nth_error (ps_types s) (Z.to_nat parent) = Some tp ->
  op_at strong s parent (opt_bond b ++ [(ty, PAtom a)]) = Ok s1 ->
  SInv s1 /\ ps_atoms s1 <> [] /\ ps_types s1 = ps_types s ++ [ty] /\ ps_bonds s1 = ps_bonds s ++ tree_bond b (ps_n s) parent ty tp.
Proof.
  intros [I1 I2] Ha Hb Hty Hp Htp H.
  destruct s as [atoms types bonds order n last stack cycles satoms sbonds prev lg].
  cbn [ps_atoms ps_types ps_bonds ps_n] in *.
  destruct atoms as [|a0 ar]; [contradiction|].
  assert (Hlt : (parent <? 0) = false) by (apply Z.ltb_ge; exact Hp).
  assert (Hty2 : ty = 0 \/ ty = 8).
  { clear - Hty. cbn [zmem existsb] in Hty. destruct (ty =? 0) eqn:E0; [left; apply Z.eqb_eq; exact E0|].
    destruct (ty =? 8) eqn:E8; [right; apply Z.eqb_eq; exact E8 | discriminate]. }
  unfold op_at, at_node in H. cbn [ps_atoms ps_types ps_bonds ps_order ps_n ps_cycles ps_satoms ps_sbonds ps_log] in H.
  destruct b as [[bt bv]|]; cbn [opt_bond app loop] in H.
  - (* a bond token, then the atom *)
    assert (Hbk : zmem bt [1; 4; 9; 10; 12] = true) by exact Hb.
    assert (E2 : (bt =? 2) = false) by (destruct (bt =? 2) eqn:E; [exfalso; zcontra | reflexivity]).
    assert (E3 : (bt =? 3) = false) by (destruct (bt =? 3) eqn:E; [exfalso; zcontra | reflexivity]).
    unfold step at 1 in H. rewrite E2, E3, Hbk in H. cbn [ps_prev ps_atoms set_prev] in H.
    cbn [ps_atoms ps_types ps_bonds ps_order ps_n ps_last ps_stack ps_cycles ps_satoms ps_sbonds ps_prev ps_log] in H.
    unfold step, type_at, set_prev in H.
    cbn [ps_atoms ps_types ps_bonds ps_order ps_n ps_last ps_stack ps_cycles ps_satoms ps_sbonds ps_prev ps_log] in H.
    rewrite Hlt, Htp in H. unfold tree_bond, bval.
    destruct (bt =? 9) eqn:E9; [destruct (as_bool bv) as [bvv|]|destruct (zmem bt [1; 10; 12]) eqn:Em];
    (destruct Hty2 as [-> | ->]; cbn [Z.eqb zmem existsb orb Pos.eqb] in H; cbv beta iota in H; try discriminate;
     inversion H; subst; unfold SInv; cbn;
     repeat split; try discriminate; try (rewrite ?app_nil_r; reflexivity); try (rewrite ?app_length; cbn [length] in *; lia)).
  - unfold step, type_at in H.
    cbn [ps_atoms ps_types ps_bonds ps_order ps_n ps_last ps_stack ps_cycles ps_satoms ps_sbonds ps_prev ps_log] in H.
    rewrite Hlt, Htp in H. unfold tree_bond, bval.
    destruct Hty2 as [-> | ->]; cbn [Z.eqb zmem existsb orb Pos.eqb] in H;
    (inversion H; subst; unfold SInv; cbn; repeat split; try discriminate; try (rewrite ?app_length; cbn [length] in *; lia)).
Qed.

Lemma nth_error_app_l {A} (l l' : list A) i x : nth_error l i = Some x -> nth_error (l ++ l') i = Some x.
Proof. intros H. rewrite nth_error_app1; [exact H|]. apply nth_error_Some. rewrite H. discriminate. Qed.
Lemma nth_error_app_r {A} (l l' : list A) i x : nth_error l' i = Some x -> nth_error (l ++ l') (List.length l + i) = Some x.
Proof. intros H. rewrite nth_error_app2 by lia. replace (List.length l + i - List.length l)%nat with i by lia. exact H. Qed.

Lemma n_shift s sm (l : list Z) (f : Z -> Z) : SInv s -> SInv sm -> ps_types sm = ps_types s ++ map f l ->
  ps_n sm = ps_n s + Z.of_nat (List.length l).
Proof. intros [_ A] [_ B] T. rewrite B, A, T, app_length, map_length. lia. Qed.

(* ------------------------------------------------------------------------------------------------ trees with atom numbers *)
Section Bonds.
  Variable aty : Z -> Z.
  Variable atk : Z -> atomtok.
  Variable rings : Z -> list (option token * Z).
  Variable bnd : Z -> Z -> option token.
  Hypothesis Haty : forall n, zmem (aty n) [0; 8] = true.
  Hypothesis Hrings : forall n, forallb (fun r : option token * Z => bond_ok (fst r)) (rings n) = true.
  Hypothesis Hbnd : forall p c, bond_ok (bnd p c) = true.

  Inductive itree := INode (n : Z) (kids : list itree).
  Definition iroot (t : itree) : Z := match t with INode n _ => n end.
  Fixpoint erase (t : itree) : tree :=
    match t with INode n ks => Node (aty n) (atk n) (rings n) (map (fun k => (bnd n (iroot k), erase k)) ks) end.
  Definition ekids (n : Z) (ks : list itree) : list (option token * tree) := map (fun k => (bnd n (iroot k), erase k)) ks.
  (* atoms in pre-order (= written order), tree edges (parent, child) *)
  Fixpoint ipre (t : itree) : list Z := match t with INode n ks => n :: flat_map ipre ks end.
  Fixpoint ipairs (t : itree) : list (Z * Z) := match t with INode n ks => flat_map (fun k => (n, iroot k) :: ipairs k) ks end.

  Section ItreeInd.
    Variable Q : itree -> Prop.
    Hypothesis H : forall n ks, Forall Q ks -> Q (INode n ks).
    Fixpoint itree_ind' (t : itree) : Q t :=
      match t with
      | INode n ks => H n ks ((fix go (l : list itree) : Forall Q l :=
                                 match l with [] => Forall_nil _ | k :: r => Forall_cons k (itree_ind' k) (go r) end) ks)
      end.
  End ItreeInd.

  Lemma ipre_head t : nth_error (ipre t) 0 = Some (iroot t).
  Proof. destruct t. reflexivity. Qed.

  (* the bond of the tree edge p - c is in `bonds`, at the positions of p and c in `pre` counted from `base` *)
  Definition edge_ok (bonds : list (Z * Z * payload)) (base : Z) (pre : list Z) (p c : Z) : Prop :=
    exists i j, nth_error pre i = Some p /\ nth_error pre j = Some c /\
      incl (tree_bond (bnd p c) (base + Z.of_nat j) (base + Z.of_nat i) (aty c) (aty p)) bonds.

  Lemma edge_ok_ext bonds e base pre p c : edge_ok bonds base pre p c -> edge_ok (bonds ++ e) base pre p c.
  Proof. intros [i [j [A [B C]]]]. exists i, j. repeat split; try assumption. intros x Hx. apply in_or_app. left. apply C, Hx. Qed.
  Lemma edge_ok_left bonds base pre more p c : edge_ok bonds base pre p c -> edge_ok bonds base (pre ++ more) p c.
  Proof. intros [i [j [A [B C]]]]. exists i, j. repeat split; [apply nth_error_app_l, A | apply nth_error_app_l, B | exact C]. Qed.
  Lemma edge_ok_right bonds base front pre p c :
    edge_ok bonds (base + Z.of_nat (List.length front)) pre p c -> edge_ok bonds base (front ++ pre) p c.
  Proof.
    intros [i [j [A [B C]]]]. exists (List.length front + i)%nat, (List.length front + j)%nat.
    repeat split; [apply nth_error_app_r, A | apply nth_error_app_r, B |].
    replace (base + Z.of_nat (List.length front + j)) with (base + Z.of_nat (List.length front) + Z.of_nat j) by lia.
    replace (base + Z.of_nat (List.length front + i)) with (base + Z.of_nat (List.length front) + Z.of_nat i) by lia. exact C.
  Qed.

  Definition P (it : itree) : Prop := forall strong parent b s s' tp,
    SInv s -> ps_atoms s <> [] -> bond_ok b = true -> 0 <= parent -> nth_error (ps_types s) (Z.to_nat parent) = Some tp ->
    den strong (erase it) parent b s = Ok s' ->
    SInv s' /\ ps_atoms s' <> [] /\ ps_types s' = ps_types s ++ map aty (ipre it) /\ (exists e, ps_bonds s' = ps_bonds s ++ e) /\
    incl (tree_bond b (ps_n s) parent (aty (iroot it)) tp) (ps_bonds s') /\
    forall p c, In (p, c) (ipairs it) -> edge_ok (ps_bonds s') (ps_n s) (ipre it) p c.

  Lemma kids_bonds strong n me : forall ks, Forall P ks -> forall s s',
    SInv s -> ps_atoms s <> [] -> 0 <= me -> nth_error (ps_types s) (Z.to_nat me) = Some (aty n) ->
    den_kids strong me (ekids n ks) s = Ok s' ->
    SInv s' /\ ps_atoms s' <> [] /\ ps_types s' = ps_types s ++ map aty (flat_map ipre ks) /\ (exists e, ps_bonds s' = ps_bonds s ++ e) /\
    (forall k, In k ks -> exists j, nth_error (flat_map ipre ks) j = Some (iroot k) /\
        incl (tree_bond (bnd n (iroot k)) (ps_n s + Z.of_nat j) me (aty (iroot k)) (aty n)) (ps_bonds s')) /\
    (forall p c, In (p, c) (flat_map ipairs ks) -> edge_ok (ps_bonds s') (ps_n s) (flat_map ipre ks) p c).
  Proof.
    induction ks as [|k r IH]; intros HF s s' HS HA Hme Hty H.
    - cbn in H. inversion H; subst. split; [exact HS|]. split; [exact HA|]. split; [cbn; rewrite app_nil_r; reflexivity|].
      split; [exists []; rewrite app_nil_r; reflexivity|]. split; [intros k []|intros p c []].
    - inversion HF as [|? ? Pk Pr]; subst. cbn [ekids map den_kids] in H. fold (ekids n r) in H.
      destruct (den strong (erase k) me (bnd n (iroot k)) s) as [sm|] eqn:E; [|discriminate].
      destruct (Pk strong me (bnd n (iroot k)) s sm (aty n) HS HA (Hbnd _ _) Hme Hty E) as [Sm [Am [Tm [[e1 Bm] [Em Pm]]]]].
      assert (Hty' : nth_error (ps_types sm) (Z.to_nat me) = Some (aty n)) by (rewrite Tm; apply nth_error_app_l, Hty).
      destruct (IH Pr sm s' Sm Am Hme Hty' H) as [S' [A' [T' [[e2 B'] [K' P']]]]].
      pose proof (n_shift s sm (ipre k) aty HS Sm Tm) as Hn.
      split; [exact S'|]. split; [exact A'|].
      split; [rewrite T', Tm; cbn [flat_map]; rewrite map_app, app_assoc; reflexivity|].
      split; [exists (e1 ++ e2); rewrite B', Bm, app_assoc; reflexivity|].
      split.
      + intros k0 [<- | Hk0].
        * exists 0%nat. split; [cbn [flat_map]; apply nth_error_app_l, ipre_head|].
          replace (ps_n s + Z.of_nat 0) with (ps_n s) by lia. rewrite B'. intros x Hx. apply in_or_app. left. apply Em, Hx.
        * destruct (K' k0 Hk0) as [j [J1 J2]]. exists (List.length (ipre k) + j)%nat.
          split; [cbn [flat_map]; apply nth_error_app_r, J1|].
          replace (ps_n s + Z.of_nat (List.length (ipre k) + j)) with (ps_n sm + Z.of_nat j) by lia. exact J2.
      + intros p c Hpc. cbn [flat_map] in Hpc. apply in_app_or in Hpc. cbn [flat_map]. destruct Hpc as [Hpc | Hpc].
        * apply edge_ok_left. rewrite B'. apply edge_ok_ext. apply Pm, Hpc.
        * apply edge_ok_right. rewrite <- Hn. apply P', Hpc.
  Qed.

  Lemma at_node_fields s p : ps_atoms (at_node s p) = ps_atoms s /\ ps_types (at_node s p) = ps_types s /\
    ps_n (at_node s p) = ps_n s /\ ps_bonds (at_node s p) = ps_bonds s.
  Proof. destruct s. repeat split. Qed.

  (* what follows the attachment of atom n (number me): its ring digits, then its children *)
  Lemma node_rest strong n ks : Forall P ks -> forall s1 s' me,
    SInv s1 -> ps_atoms s1 <> [] -> 0 <= me -> ps_n s1 = me + 1 -> nth_error (ps_types s1) (Z.to_nat me) = Some (aty n) ->
    match op_at strong s1 me (ring_tokens (rings n)) with Err e => Err e | Ok s2 => den_kids strong me (ekids n ks) s2 end = Ok s' ->
    SInv s' /\ ps_atoms s' <> [] /\ ps_types s' = ps_types s1 ++ map aty (flat_map ipre ks) /\ (exists e, ps_bonds s' = ps_bonds s1 ++ e) /\
    forall p c, In (p, c) (ipairs (INode n ks)) -> edge_ok (ps_bonds s') me (n :: flat_map ipre ks) p c.
  Proof.
    intros HF s1 s' me S1 A1 Hme Hn Hty H.
    destruct (op_at strong s1 me (ring_tokens (rings n))) as [s2|] eqn:E2; [|discriminate].
    unfold op_at in E2. destruct (loop_bondish strong _ _ _ (bondish_rings _ (Hrings n)) E2) as [Ra [Rt [Rn [e Rb]]]].
    destruct (at_node_fields s1 me) as [Fa [Ft [Fn Fb]]]. rewrite Fa in Ra. rewrite Ft in Rt. rewrite Fn in Rn. rewrite Fb in Rb.
    assert (S2 : SInv s2) by (unfold SInv in *; rewrite Ra, Rt, Rn; exact S1).
    assert (A2 : ps_atoms s2 <> []) by (rewrite Ra; exact A1).
    assert (Hty2 : nth_error (ps_types s2) (Z.to_nat me) = Some (aty n)) by (rewrite Rt; exact Hty).
    destruct (kids_bonds strong n me ks HF s2 s' S2 A2 Hme Hty2 H) as [S' [A' [T' [[e' B'] [K' P']]]]].
    split; [exact S'|]. split; [exact A'|]. split; [rewrite T', Rt; reflexivity|].
    split; [exists (e ++ e'); rewrite B', Rb, app_assoc; reflexivity|].
    intros p c Hpc. cbn [ipairs] in Hpc. apply in_flat_map in Hpc. destruct Hpc as [k [Hk Hpc]].
    assert (N2 : ps_n s2 = me + Z.of_nat (List.length [n])) by (cbn; lia).
    destruct Hpc as [Hpc | Hpc].
    - inversion Hpc; subst p c. destruct (K' k Hk) as [j [J1 J2]].
      exists 0%nat, (S j). split; [reflexivity|]. split; [exact J1|].
      replace (me + Z.of_nat (S j)) with (ps_n s2 + Z.of_nat j) by (rewrite N2; cbn [List.length]; lia).
      replace (me + Z.of_nat 0) with me by lia. exact J2.
    - change (n :: flat_map ipre ks) with ([n] ++ flat_map ipre ks). apply edge_ok_right. rewrite <- N2. apply P'.
      apply in_flat_map. exists k. split; assumption.
  Qed.

  Lemma erase_node n ks : erase (INode n ks) = Node (aty n) (atk n) (rings n) (ekids n ks).
  Proof. reflexivity. Qed.

  Theorem den_tree_bonds : forall it, P it.
  Proof.
    apply itree_ind'. intros n ks HF strong parent b s s' tp HS HA Hb Hp Htp H.
    rewrite erase_node, den_node in H.
    destruct (op_at strong s parent (opt_bond b ++ [(aty n, PAtom (atk n))])) as [s1|] eqn:E1; [|discriminate].
    destruct (attach_bonds strong s parent b (aty n) (atk n) s1 tp HS HA Hb (Haty n) Hp Htp E1) as [S1 [A1 [T1 B1]]].
    assert (Hme : 0 <= ps_n s) by (destruct HS as [_ ->]; lia).
    assert (Hn1 : ps_n s1 = ps_n s + 1).
    { destruct HS as [_ X]. destruct S1 as [_ Y]. rewrite Y, T1, app_length, X. cbn [List.length]. lia. }
    assert (Hty1 : nth_error (ps_types s1) (Z.to_nat (ps_n s)) = Some (aty n)).
    { destruct HS as [_ X]. rewrite X, Nat2Z.id, T1. rewrite nth_error_app2 by lia. rewrite Nat.sub_diag. reflexivity. }
    destruct (node_rest strong n ks HF s1 s' (ps_n s) S1 A1 Hme Hn1 Hty1 H) as [S' [A' [T' [[e B'] P']]]].
    split; [exact S'|]. split; [exact A'|].
    split; [rewrite T', T1, <- app_assoc; reflexivity|].
    split; [eexists; rewrite B', B1, <- app_assoc; reflexivity|].
    split; [|exact P'].
    rewrite B', B1. intros x Hx. apply in_or_app. left. apply in_or_app. right. exact Hx.
  Qed.
End Bonds.

(* ------------------------------------------------------------------------------------------------ the whole tree *)
Section Whole.
  Variable aty : Z -> Z.
  Variable atk : Z -> atomtok.
  Variable rings : Z -> list (option token * Z).
  Variable bnd : Z -> Z -> option token.
  Hypothesis Haty : forall n, zmem (aty n) [0; 8] = true.
  Hypothesis Hrings : forall n, forallb (fun r : option token * Z => bond_ok (fst r)) (rings n) = true.
  Hypothesis Hbnd : forall p c, bond_ok (bnd p c) = true.

  Notation erase := (erase aty atk rings bnd).
  Notation ekids := (ekids aty atk rings bnd).
  Notation edge_ok := (edge_ok aty bnd).

  Lemma root_attach strong ty a s1 : zmem ty [0; 8] = true -> op_at strong p_init 0 (opt_bond None ++ [(ty, PAtom a)]) = Ok s1 ->
    SInv s1 /\ ps_atoms s1 <> [] /\ ps_types s1 = [ty] /\ ps_bonds s1 = [] /\ ps_n s1 = 1.
  Proof.
    intros Hty H.
    assert (Hty2 : ty = 0 \/ ty = 8).
    { clear - Hty. cbn [zmem existsb] in Hty. destruct (ty =? 0) eqn:E0; [left; apply Z.eqb_eq; exact E0|].
      destruct (ty =? 8) eqn:E8; [right; apply Z.eqb_eq; exact E8 | discriminate]. }
    destruct Hty2 as [-> | ->]; cbn in H; inversion H; subst; unfold SInv; cbn; repeat split; discriminate.
  Qed.

  (* the denotation of a tree: every tree edge is a parsed bond between the pre-order positions of its ends *)
  Theorem denote_tree_bonds : forall it strong rec, denote strong (erase it) = Ok rec ->
    forall p c, In (p, c) (ipairs it) -> edge_ok (p_bonds rec) 0 (ipre it) p c.
  Proof.
    intros [n ks] strong rec H p c Hpc. unfold denote in H. rewrite erase_node, den_node in H. cbn [ps_n p_init] in H.
    destruct (op_at strong p_init 0 (opt_bond None ++ [(aty n, PAtom (atk n))])) as [s1|] eqn:E1; [|discriminate].
    destruct (root_attach strong _ _ s1 (Haty n) E1) as [S1 [A1 [T1 [B1 N1]]]].
    match type of H with match ?X with _ => _ end = _ => destruct X as [s|] eqn:E end; [|discriminate].
    assert (HF : Forall (P aty atk rings bnd) ks) by (apply Forall_forall; intros k _; apply den_tree_bonds; assumption).
    assert (Hty : nth_error (ps_types s1) (Z.to_nat 0) = Some (aty n)) by (rewrite T1; reflexivity).
    destruct (node_rest aty atk rings bnd Hrings Hbnd strong n ks HF s1 s 0 S1 A1 (Z.le_refl 0) N1 Hty E) as [_ [_ [_ [_ PP]]]].
    assert (Hb : p_bonds rec = ps_bonds s).
    { unfold finish in H. destruct (ps_stack (at_node s 0)); [|discriminate]. destruct (ps_cycles (at_node s 0)); [|discriminate].
      destruct (ps_prev (at_node s 0)); [discriminate|]. inversion H. cbn [p_bonds]. destruct s; reflexivity. }
    rewrite Hb. apply PP, Hpc.
  Qed.

  (* ---- the tree of a traversal, with the atom numbers *)
  Variable edges : list (Z * list Z).
  Scheme Ser_mutb := Induction for Ser Sort Prop
  with SerSides_mutb := Induction for SerSides Sort Prop.

  Notation ctoks := (ctoks aty atk rings bnd).
  Definition epairs (n : Z) (ks : list itree) : list (Z * Z) := flat_map (fun k => (n, iroot k) :: ipairs k) ks.

  Lemma ekids_app n a b : ekids n (a ++ b) = ekids n a ++ ekids n b.
  Proof. unfold WriterSeqBonds.ekids. apply map_app. Qed.

  Theorem ser_itree : forall n l, Ser edges n l ->
    exists ks, map iroot ks = kids_of edges n /\ wf_kids (ekids n ks) = true /\ spell_kids (ekids n ks) = ctoks l /\
               atoms_of l = flat_map ipre ks /\ pairs_of l = epairs n ks.
  Proof.
    apply (Ser_mutb edges
      (fun n l _ => exists ks, map iroot ks = kids_of edges n /\ wf_kids (ekids n ks) = true /\ spell_kids (ekids n ks) = ctoks l /\
                               atoms_of l = flat_map ipre ks /\ pairs_of l = epairs n ks)
      (fun n front ls _ => exists ks, map iroot ks = front /\ wf_kids (ekids n ks) = true /\
                                      (forall rest, rest <> [] -> spell_kids (ekids n ks ++ rest) = ctoks ls ++ spell_kids rest) /\
                                      atoms_of ls = flat_map ipre ks /\ pairs_of ls = epairs n ks)).
    - intros n Hn. exists []. unfold kids_of. rewrite Hn. repeat split.
    - intros n children front last ls ll Hn Hch _ [kf [Mf [Wf [Sf [Af Pf]]]]] _ [kl [Ml [Wl [Sl [Al Pl]]]]].
      set (tl := INode last kl).
      exists (kf ++ [tl]). unfold kids_of. rewrite Hn, Hch. split; [|split; [|split; [|split]]].
      + rewrite map_app, Mf. reflexivity.
      + rewrite ekids_app, wf_kids_app, Wf. unfold tl. cbn [WriterSeqBonds.ekids map wf_kids andb iroot]. rewrite Hbnd.
        rewrite erase_node, wf_node, Haty, Hrings, Wl. reflexivity.
      + rewrite ekids_app. change (ekids n [tl]) with [(bnd n last, erase tl)].
        rewrite (Sf [(bnd n last, erase tl)]) by discriminate. rewrite !ctoks_app. f_equal.
        cbn [spell_kids]. unfold tl. rewrite erase_node, spell_node, Sl. cbn [WriterSeqTree.ctoks flat_map ctok app].
        rewrite ?app_nil_r. rewrite <- ?app_assoc. cbn [app]. reflexivity.
      + rewrite !atoms_of_app, flat_map_app. unfold tl. cbn [atoms_of app flat_map ipre]. rewrite Af, Al, app_nil_r. reflexivity.
      + rewrite !pairs_of_app. unfold epairs. rewrite flat_map_app. unfold tl. cbn [pairs_of app flat_map ipairs iroot].
        fold (epairs n kf). fold (epairs last kl). rewrite Pf, Pl, app_nil_r. reflexivity.
    - intros n. exists []. repeat split. 
    - intros n c front lc l _ [kc [Mc [Wc [Sc [Ac Pc]]]]] _ [kf [Mf [Wf [Sf [Af Pf]]]]].
      set (tc := INode c kc).
      exists (tc :: kf). split; [|split; [|split; [|split]]].
      + unfold tc. cbn [map iroot]. rewrite Mf. reflexivity.
      + unfold tc. cbn [WriterSeqBonds.ekids map wf_kids iroot]. fold (ekids n kf). rewrite Hbnd, Wf.
        rewrite erase_node, wf_node, Haty, Hrings, Wc. reflexivity.
      + intros rest Hr. unfold tc. cbn [WriterSeqBonds.ekids map iroot app]. fold (ekids n kf).
        rewrite spell_kids_front by (destruct kf; [exact Hr | discriminate]).
        rewrite (Sf rest Hr). rewrite erase_node, spell_node, Sc. unfold WriterSeqTree.ctoks. cbn [flat_map ctok]. rewrite !flat_map_app. cbn [flat_map ctok app].
        rewrite ?app_nil_r. rewrite <- ?app_assoc. cbn [app]. rewrite <- ?app_assoc. cbn [app]. reflexivity.
      + rewrite !atoms_of_app. unfold tc. cbn [atoms_of app flat_map ipre]. rewrite ?atoms_of_app. cbn [atoms_of app]. rewrite Af, Ac, app_nil_r. reflexivity.
      + rewrite !pairs_of_app. unfold epairs. unfold tc. cbn [pairs_of app flat_map ipairs iroot]. rewrite ?pairs_of_app. cbn [pairs_of app].
        fold (epairs n kf). fold (epairs c kc). rewrite Pf, Pc, app_nil_r. reflexivity.
  Qed.
End Whole.

(* read_write_graph, tree-bond clause: for the token list of ANY traversal, whenever the reader's parser accepts its reader tokens,
   every tree edge parent - child written (TBond) is a bond of the parsed record between the positions of child and parent in the
   written atom order, with the value of the written bond token (or aromatic / single by the atom types when nothing or a
   direction mark is written; no bond for the dot) *)
Theorem written_tree_bonds_parsed : forall g t smi aty atk rings bnd strong rec,
  (forall n, zmem (aty n) [0; 8] = true) -> (forall n, forallb (fun r : option token * Z => bond_ok (fst r)) (rings n) = true) ->
  (forall p c, bond_ok (bnd p c) = true) ->
  flatten g t = Ok smi -> parse (ctoks aty atk rings bnd smi) strong = Ok rec ->
  forall p c, In (p, c) (pairs_of smi) ->
    exists i j, nth_error (atoms_of smi) i = Some p /\ nth_error (atoms_of smi) j = Some c /\
      incl (tree_bond (bnd p c) (Z.of_nat j) (Z.of_nat i) (aty c) (aty p)) (p_bonds rec).
Proof.
  intros g t smi aty atk rings bnd strong rec H1 H2 H3 Hf Hp p c Hpc.
  destruct (flatten_ser g t smi Hf) as [l [S ->]].
  destruct (ser_itree aty atk rings bnd H1 H2 H3 _ _ _ S) as [ks [Mk [Wk [Sk [Ak Pk]]]]].
  set (it := INode (tr_start t) ks).
  assert (Hsp : spell (erase aty atk rings bnd it) = ctoks aty atk rings bnd (TAtom (tr_start t) :: l)).
  { unfold it. rewrite erase_node, spell_node, Sk. cbn [ctoks flat_map ctok]. rewrite <- ?app_assoc. cbn [app]. reflexivity. }
  assert (Hwf : wf_tree (erase aty atk rings bnd it) = true).
  { unfold it. rewrite erase_node, wf_node, H1, H2, Wk. reflexivity. }
  rewrite <- Hsp, (read_spell_denote strong _ Hwf) in Hp.
  assert (Hin : In (p, c) (ipairs it)) by (cbn [pairs_of] in Hpc; rewrite Pk in Hpc; exact Hpc).
  destruct (denote_tree_bonds aty atk rings bnd H1 H2 H3 it strong rec Hp p c Hin) as [i [j [A [B C]]]].
  exists i, j. cbn [atoms_of]. rewrite Ak. repeat split; assumption.
Qed.

(* with the duplicate-freeness of the written atoms (flatten_nodup): at THE positions of parent and child *)
Theorem written_tree_bonds_parsed_at : forall g w tb o all st t smi aty atk rings bnd strong rec,
  (forall n, zmem (aty n) [0; 8] = true) -> (forall n, forallb (fun r : option token * Z => bond_ok (fst r)) (rings n) = true) ->
  (forall p c, bond_ok (bnd p c) = true) ->
  traverse g w tb o all st = Ok t -> flatten g t = Ok smi -> parse (ctoks aty atk rings bnd smi) strong = Ok rec ->
  forall p c i j, In (p, c) (pairs_of smi) -> nth_error (atoms_of smi) i = Some p -> nth_error (atoms_of smi) j = Some c ->
    incl (tree_bond (bnd p c) (Z.of_nat j) (Z.of_nat i) (aty c) (aty p)) (p_bonds rec).
Proof.
  intros g w tb o all st t smi aty atk rings bnd strong rec H1 H2 H3 Ht Hf Hp p c i j Hpc Hi Hj.
  destruct (written_tree_bonds_parsed g t smi aty atk rings bnd strong rec H1 H2 H3 Hf Hp p c Hpc) as [i' [j' [A [B C]]]].
  pose proof (flatten_nodup g w tb o all st t smi Ht Hf) as ND.
  assert (Ei : i' = i).
  { apply (proj1 (NoDup_nth_error _) ND); [apply nth_error_Some; rewrite A; discriminate | congruence]. }
  assert (Ej : j' = j).
  { apply (proj1 (NoDup_nth_error _) ND); [apply nth_error_Some; rewrite B; discriminate | congruence]. }
  subst. exact C.
Qed.

(* non-vacuity: C(=O)(N)c - a tree with a double bond, an unmarked single bond and an unmarked bond to an aromatic atom *)
Example tree_bonds_example :
  let aty := fun n => if n =? 4 then 8 else 0 in
  let atk := fun n : Z => simple_atom (String.String "C"%char String.EmptyString) in
  let rings := fun _ : Z => @nil (option token * Z) in
  let bnd := fun p c : Z => if c =? 2 then Some (1, PInt 2) else None in
  let it := INode 1 [INode 2 []; INode 3 []; INode 4 []] in
  ipairs it = [(1, 2); (1, 3); (1, 4)] /\ ipre it = [1; 2; 3; 4] /\
  exists rec, denote true (erase aty atk rings bnd it) = Ok rec /\
              p_bonds rec = [(1, 0, PInt 2); (2, 0, PInt 1); (3, 0, PInt 1)].
Proof. cbv zeta. split; [reflexivity|]. split; [reflexivity|]. eexists. split; vm_compute; reflexivity. Qed.
