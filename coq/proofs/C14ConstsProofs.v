(* C14 round 3: the constants and statement shapes the hand-written models copy from the source, regenerated on every run
   (Gen.C14Consts, tools/gen_c14consts.py), are the ones the models use.  Each lemma names the model function it ties. *)
From Coq Require Import ZArith List String Bool.
From Model Require Import PyBase Graph PeriodicTable Standardize StandardizeNeutral.
From Gen Require Import Elements StdRules C14Consts.
Import ListNotations.
Open Scope Z_scope.

(* __standardize: `if a.charge > 4` *)
Lemma src_afix_bad_charge mp e fx g hs n a :
  zget mp (af_atom e) = Some n -> atom_of g n = Some a ->
  afix_loop mp (e :: fx) g hs =
    if a_chg a + af_delta e >? src_charge_limit then AfBad g (add_set n hs)
    else afix_loop mp fx (upd_atom g n (set_chg_rad (a_chg a + af_delta e) (af_rad e))) (add_set n hs).
Proof. intros H1 H2. cbn [afix_loop]. rewrite H1, H2. reflexivity. Qed.
(* table obligation (ii) uses the same bound *)
Lemma src_range_bound r : range_ok r =
  forallb (fun e => match patom_of r (af_atom e) with
                    | Some a => match pa_chg a with
                                | Some c => (- src_charge_limit <=? c + af_delta e) && (c + af_delta e <=? src_charge_limit)
                                | None => true
                                end
                    | None => false
                    end) (r_afix r).
Proof. reflexivity. Qed.

(* implicify_hydrogens: `atom == H and (atom.isotope is None or atom.isotope == 1)`, `b == 1`, `b != 8` *)
Lemma src_is_protium a :
  is_protium a = (a_num a =? src_atomic_number_h) && match a_iso a with None => true | Some i => i =? src_protium_isotope end.
Proof. reflexivity. Qed.
Lemma src_scan_special g n m b rest d : b_ord b = src_special_order -> scan_h_bonds g n ((m, b) :: rest) d = scan_h_bonds g n rest d.
Proof. intros H. cbn [scan_h_bonds]. rewrite H. reflexivity. Qed.
Lemma src_scan_covalent g n m b rest d am : b_ord b = src_covalent_order -> atom_of g m = Some am ->
  scan_h_bonds g n ((m, b) :: rest) d = scan_h_bonds g n rest (if a_num am =? src_atomic_number_h then d else dl_append d m n).
Proof. intros H Ha. cbn [scan_h_bonds]. rewrite H, Ha. reflexivity. Qed.

(* explicify_hydrogens: max(atoms) + 1, _H(implicit_hydrogens=0), Bond(1) *)
Lemma src_explicify_shape g ns : to_add (m_atoms g) = Ok ns -> ns <> [] ->
  explicify g = Ok (add_hs g ns (zmax (ids g) + src_new_atom_offset)).
Proof. intros H Hne. unfold explicify. rewrite H. destruct ns; [contradiction|reflexivity]. Qed.
Lemma src_new_hydrogen : h_atom = mkAtom src_atomic_number_h None 0 false (Some src_new_h_implicit) None /\ single = mkBond src_new_bond_order None.
Proof. split; reflexivity. Qed.

(* standardize_charges: atoms[...]._charge = 0; atoms[...]._charge = 1 *)
Lemma src_charged_patch g d u : charged_patch g d u = upd_atom (upd_atom g d (set_chg src_discharged_value)) u (set_chg src_charged_value).
Proof. reflexivity. Qed.

(* fix_resonance: atoms[m]._charge -= 1; atoms[n]._charge += 1 *)
Lemma src_charge_path g n p am an : atom_of g (path_end n p) = Some am -> atom_of g n = Some an ->
  apply_charge_path g n p =
    apply_orders (upd_atom (upd_atom g (path_end n p) (fun a => set_chg (a_chg a + src_resonance_exit_step) a)) n
                           (fun a => set_chg (a_chg a + src_resonance_entry_step) a)) p.
Proof. intros H1 H2. unfold apply_charge_path. rewrite H1, H2. reflexivity. Qed.

(* _neutralize: donors `-= 1`, acceptors `+= 1` on _implicit_hydrogens and _charge *)
Lemma src_move_protons g minus plus : move_protons g minus plus = shift_all src_acceptor_step (shift_all src_donor_step g minus) plus.
Proof. reflexivity. Qed.

(* the attributes the four __eq__ methods of the query atoms read, in source order, are the tests Model.StandardizeMatch.atom_match
   makes: element (list), charge, radical [, isotope: never set in the rule tables, the dump fails closed on it], neighbors,
   hybridization, ring_sizes, implicit_hydrogens, heteroatoms; AnyMetal: is_forming_single_bonds / noble gas, neighbors, hybridization *)
Lemma src_query_shapes :
  src_eq_AnyMetal = ["is_forming_single_bonds"; "neighbors"; "hybridization"]%string /\
  src_eq_AnyElement = ["charge"; "is_radical"; "neighbors"; "hybridization"; "ring_sizes"; "implicit_hydrogens"; "heteroatoms"]%string /\
  src_eq_ListElement = ["atomic_number"; "charge"; "is_radical"; "neighbors"; "hybridization"; "ring_sizes"; "implicit_hydrogens"; "heteroatoms"]%string /\
  src_eq_QueryElement = ["atomic_number"; "charge"; "is_radical"; "isotope"; "neighbors"; "hybridization"; "ring_sizes"; "implicit_hydrogens"; "heteroatoms"]%string.
Proof. repeat split; reflexivity. Qed.
