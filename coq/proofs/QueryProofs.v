(* C08 -- proofs about Model.Query: each comparison method equals the documented conjunction, calc_labels computes the
   documented counts for every neighbour list, from_atom / smarts error behaviour (with the refuting witnesses of the
   unchanged tree), parse-print round trip of the bracket-atom parser. *)
From Coq Require Import ZArith List String Ascii Bool Lia.
From Model Require Import PyBase Graph PeriodicTable Query.
From Gen Require Import Elements.
Import ListNotations.
Open Scope Z_scope.

(* ------------------------------------------------------------------------------------------------------------ *)
(* 1. match_spec                                                                                                  *)

(* "empty tuple = unconstrained" *)
Definition tuple_ok (l : list Z) (v : Z) : Prop := l = [] \/ In v l.
(* ring_sizes: () unconstrained, (0,) not in a ring, otherwise at least one common size *)
Definition rings_ok (q rs : list Z) : Prop :=
  match q with
  | [] => True
  | r0 :: _ => if r0 =? 0 then rs = [] else exists r, In r q /\ In r rs
  end.
Definition hyd_ok (l : list Z) (h : option Z) : Prop := l = [] \/ exists v, h = Some v /\ In v l.

Definition tail_spec (x : qx) (a : latom) : Prop :=
  tuple_ok (x_nb x) (la_nb a) /\ tuple_ok (x_hyb x) (la_hyb a) /\ rings_ok (x_rings x) (la_rings a) /\
  hyd_ok (x_h x) (la_h a) /\ tuple_ok (x_het x) (la_het a).

Lemma tuple_test l v : nonempty l && negb (zmem v l) = false <-> tuple_ok l v.
Proof.
  unfold tuple_ok. destruct l as [|y r]; cbn [nonempty andb].
  - split; auto.
  - destruct (zmem v (y :: r)) eqn:E; cbn.
    + apply zmem_In in E. split; auto.
    + split; [discriminate|]. intros [H|H]; [discriminate|].
      assert (zmem v (y :: r) = true) by (apply zmem_In; exact H). congruence.
Qed.

Lemma hyd_test l h : nonempty l && negb (opt_mem h l) = false <-> hyd_ok l h.
Proof.
  unfold hyd_ok. destruct l as [|y r]; cbn [nonempty andb].
  - split; auto.
  - destruct h as [v|]; cbn [opt_mem].
    + destruct (zmem v (y :: r)) eqn:E; cbn.
      * apply zmem_In in E. split; eauto.
      * split; [discriminate|]. intros [H|[w [Hw H]]]; [discriminate|]. inversion Hw; subst.
        assert (zmem w (y :: r) = true) by (apply zmem_In; exact H). congruence.
    + cbn. split; [discriminate|]. intros [H|[w [Hw _]]]; discriminate.
Qed.

Lemma disjoint_false a b : disjoint_z a b = false <-> exists r, In r b /\ In r a.
Proof.
  unfold disjoint_z. induction a as [|x a IH]; cbn.
  - split; [discriminate|]. intros [r [_ []]].
  - destruct (zmem x b) eqn:E; cbn.
    + apply zmem_In in E. split; eauto.
    + rewrite IH. split.
      * intros [r [H1 H2]]. eauto.
      * intros [r [H1 [H2|H2]]]; [subst; apply zmem_In in H1; congruence | eauto].
Qed.

Lemma ring_step_spec x a : x_rings_set x = false ->
  exists b, ring_step x a = Ok b /\ (b = true <-> rings_ok (x_rings x) (la_rings a)).
Proof.
  intros Hs. unfold ring_step, rings_ok. destruct (x_rings x) as [|r0 r] eqn:E.
  - exists true. tauto.
  - rewrite Hs. destruct (r0 =? 0) eqn:E0; cbn [negb].
    + eexists. split; [reflexivity|]. destruct (la_rings a); cbn; split; congruence.
    + eexists. split; [reflexivity|]. rewrite negb_true_iff. apply disjoint_false.
Qed.

Lemma match_tail_spec x a : x_rings_set x = false ->
  exists b, match_tail x a = Ok b /\ (b = true <-> tail_spec x a).
Proof.
  intros Hs. unfold match_tail, tail_spec.
  destruct (ring_step_spec x a Hs) as [rb [Hr Hrs]].
  destruct (nonempty (x_nb x) && negb (zmem (la_nb a) (x_nb x))) eqn:E1.
  { exists false. split; [reflexivity|]. split; [discriminate|]. intros [H _]. apply tuple_test in H. congruence. }
  apply tuple_test in E1.
  destruct (nonempty (x_hyb x) && negb (zmem (la_hyb a) (x_hyb x))) eqn:E2.
  { exists false. split; [reflexivity|]. split; [discriminate|]. intros [_ [H _]]. apply tuple_test in H. congruence. }
  apply tuple_test in E2. rewrite Hr.
  destruct rb.
  2:{ exists false. split; [reflexivity|]. split; [discriminate|]. intros [_ [_ [H _]]]. apply Hrs in H. discriminate. }
  assert (R : rings_ok (x_rings x) (la_rings a)) by (apply Hrs; reflexivity).
  destruct (nonempty (x_h x) && negb (opt_mem (la_h a) (x_h x))) eqn:E3.
  { exists false. split; [reflexivity|]. split; [discriminate|]. intros [_ [_ [_ [H _]]]]. apply hyd_test in H. congruence. }
  apply hyd_test in E3.
  destruct (nonempty (x_het x) && negb (zmem (la_het a) (x_het x))) eqn:E4.
  { exists false. split; [reflexivity|]. split; [discriminate|]. intros [_ [_ [_ [_ H]]]]. apply tuple_test in H. congruence. }
  apply tuple_test in E4.
  exists true. split; [reflexivity|]. tauto.
Qed.

(* isotope: None or 0 in the query = unconstrained *)
Definition iso_ok (q a : option Z) : Prop := q = None \/ q = Some 0 \/ q = a.

Lemma iso_test q a : iso_truthy q && negb (option_eqb Z.eqb q a) = false <-> iso_ok q a.
Proof.
  unfold iso_ok, iso_truthy. destruct q as [i|]; cbn.
  - destruct (i =? 0) eqn:E0; cbn.
    + apply Z.eqb_eq in E0. subst. tauto.
    + apply Z.eqb_neq in E0. destruct a as [j|]; cbn.
      * destruct (i =? j) eqn:E; cbn.
        -- apply Z.eqb_eq in E. subst. tauto.
        -- apply Z.eqb_neq in E. split; [discriminate|]. intros [H|[H|H]]; inversion H; congruence.
      * split; [discriminate|]. intros [H|[H|H]]; inversion H; congruence.
  - tauto.
Qed.

Lemma eqb_false_neq (a b : bool) : negb (Bool.eqb a b) = false <-> a = b.
Proof. destruct a, b; cbn; split; congruence. Qed.
Lemma zeqb_false_neq (a b : Z) : negb (a =? b) = false <-> a = b.
Proof. rewrite negb_false_iff. apply Z.eqb_eq. Qed.

Theorem match_q_spec num iso x a : x_rings_set x = false ->
  exists b, match_q num iso x a = Ok b /\
    (b = true <-> num = la_num a /\ x_chg x = la_chg a /\ x_rad x = la_rad a /\ iso_ok iso (la_iso a) /\ tail_spec x a).
Proof.
  intros Hs. unfold match_q. destruct (match_tail_spec x a Hs) as [tb [Ht Hts]].
  destruct (negb (num =? la_num a)) eqn:E1.
  { exists false. split; [reflexivity|]. split; [discriminate|]. intros [H _]. apply zeqb_false_neq in H. congruence. }
  apply zeqb_false_neq in E1.
  destruct (negb (x_chg x =? la_chg a)) eqn:E2.
  { exists false. split; [reflexivity|]. split; [discriminate|]. intros [_ [H _]]. apply zeqb_false_neq in H. congruence. }
  apply zeqb_false_neq in E2.
  destruct (negb (Bool.eqb (x_rad x) (la_rad a))) eqn:E3.
  { exists false. split; [reflexivity|]. split; [discriminate|]. intros [_ [_ [H _]]]. apply (proj2 (eqb_false_neq _ _)) in H. congruence. }
  apply (proj1 (eqb_false_neq _ _)) in E3.
  destruct (iso_truthy iso && negb (option_eqb Z.eqb iso (la_iso a))) eqn:E4.
  { exists false. split; [reflexivity|]. split; [discriminate|]. intros [_ [_ [_ [H _]]]]. apply iso_test in H. congruence. }
  apply iso_test in E4.
  exists tb. split; [exact Ht|]. rewrite Hts. split; [intros T; split; [exact E1 | split; [exact E2 | split; [exact E3 | split; [exact E4 | exact T]]]] | intros [_ [_ [_ [_ T]]]]; exact T].
Qed.

Theorem match_any_spec x a : x_rings_set x = false ->
  exists b, match_any x a = Ok b /\ (b = true <-> x_chg x = la_chg a /\ x_rad x = la_rad a /\ tail_spec x a).
Proof.
  intros Hs. unfold match_any. destruct (match_tail_spec x a Hs) as [tb [Ht Hts]].
  destruct (negb (x_chg x =? la_chg a)) eqn:E2.
  { exists false. split; [reflexivity|]. split; [discriminate|]. intros [H _]. apply zeqb_false_neq in H. congruence. }
  apply zeqb_false_neq in E2.
  destruct (negb (Bool.eqb (x_rad x) (la_rad a))) eqn:E3.
  { exists false. split; [reflexivity|]. split; [discriminate|]. intros [_ [H _]]. apply (proj2 (eqb_false_neq _ _)) in H. congruence. }
  apply (proj1 (eqb_false_neq _ _)) in E3.
  exists tb. split; [exact Ht|]. rewrite Hts. tauto.
Qed.

Theorem match_list_spec nums x a : x_rings_set x = false ->
  exists b, match_list nums x a = Ok b /\
    (b = true <-> In (la_num a) nums /\ x_chg x = la_chg a /\ x_rad x = la_rad a /\ tail_spec x a).
Proof.
  intros Hs. unfold match_list. destruct (match_tail_spec x a Hs) as [tb [Ht Hts]].
  destruct (zmem (la_num a) nums) eqn:E1; cbn [negb].
  2:{ exists false. split; [reflexivity|]. split; [discriminate|]. intros [H _]. apply zmem_In in H. congruence. }
  apply zmem_In in E1.
  destruct (negb (x_chg x =? la_chg a)) eqn:E2.
  { exists false. split; [reflexivity|]. split; [discriminate|]. intros [_ [H _]]. apply zeqb_false_neq in H. congruence. }
  apply zeqb_false_neq in E2.
  destruct (negb (Bool.eqb (x_rad x) (la_rad a))) eqn:E3.
  { exists false. split; [reflexivity|]. split; [discriminate|]. intros [_ [_ [H _]]]. apply (proj2 (eqb_false_neq _ _)) in H. congruence. }
  apply (proj1 (eqb_false_neq _ _)) in E3.
  exists tb. split; [exact Ht|]. rewrite Hts. tauto.
Qed.

(* AnyMetal: charge, radical, isotope, hydrogens, heteroatoms and rings are ignored *)
Theorem match_metal_spec nb hyb a :
  exists b, match_metal nb hyb a = Ok b /\
    (b = true <-> non_metal (la_num a) = false /\ tuple_ok nb (la_nb a) /\ tuple_ok hyb (la_hyb a)).
Proof.
  unfold match_metal. destruct (non_metal (la_num a)) eqn:E0.
  { exists false. split; [reflexivity|]. split; [discriminate|]. intros [H _]. discriminate. }
  destruct (nonempty nb && negb (zmem (la_nb a) nb)) eqn:E1.
  { exists false. split; [reflexivity|]. split; [discriminate|]. intros [_ [H _]]. apply tuple_test in H. congruence. }
  apply tuple_test in E1.
  destruct (nonempty hyb && negb (zmem (la_hyb a) hyb)) eqn:E2.
  { exists false. split; [reflexivity|]. split; [discriminate|]. intros [_ [_ H]]. apply tuple_test in H. congruence. }
  apply tuple_test in E2.
  exists true. split; [reflexivity|]. tauto.
Qed.

(* all four classes at once: the documented conjunction of each *)
Definition tuple_rings (q : qatom) : bool :=
  match q with QElem _ _ x | QAny x | QList _ x => negb (x_rings_set x) | QMetal _ _ => true end.
Definition atom_spec (q : qatom) (a : latom) : Prop :=
  match q with
  | QElem num iso x => num = la_num a /\ x_chg x = la_chg a /\ x_rad x = la_rad a /\ iso_ok iso (la_iso a) /\ tail_spec x a
  | QAny x => x_chg x = la_chg a /\ x_rad x = la_rad a /\ tail_spec x a
  | QList nums x => In (la_num a) nums /\ x_chg x = la_chg a /\ x_rad x = la_rad a /\ tail_spec x a
  | QMetal nb hyb => non_metal (la_num a) = false /\ tuple_ok nb (la_nb a) /\ tuple_ok hyb (la_hyb a)
  end.
Theorem match_spec q a : tuple_rings q = true ->
  exists b, match_atom q a = Ok b /\ (b = true <-> atom_spec q a).
Proof.
  destruct q as [num iso x|x|nums x|nb hyb]; cbn [tuple_rings match_atom atom_spec]; intros H;
    try apply negb_true_iff in H.
  - apply match_q_spec; exact H.
  - apply match_any_spec; exact H.
  - apply match_list_spec; exact H.
  - apply match_metal_spec.
Qed.

(* the documented exclusion list of AnyMetal, as the element tables define it (regenerated every run) *)
Definition documented_non_metals : list Z :=
  [1; 2; 5; 6; 7; 8; 9; 10; 14; 15; 16; 17; 18; 32; 33; 34; 35; 36; 51; 52; 53; 54; 85; 86; 118].
Lemma non_metal_table :
  forallb (fun n => Bool.eqb (non_metal n) (zmem n documented_non_metals)) (zrange 1 119) = true.
Proof. vm_compute. reflexivity. Qed.
Theorem non_metal_documented n : 1 <= n <= 118 -> (non_metal n = true <-> In n documented_non_metals).
Proof.
  intros H. pose proof non_metal_table as T. rewrite forallb_forall in T.
  specialize (T n). rewrite zrange_In in T. specialize (T ltac:(lia)).
  apply eqb_prop in T. rewrite T. apply zmem_In.
Qed.

Theorem qbond_match_spec q b :
  qbond_match q b = true <-> In (lb_ord b) (qb_ord q) /\ (qb_ring q = None \/ qb_ring q = Some (lb_ring b)).
Proof.
  unfold qbond_match. destruct (qb_ring q) as [r|].
  - destruct (Bool.eqb r (lb_ring b)) eqn:E; cbn [negb].
    + apply eqb_prop in E. subst. rewrite zmem_In. split; [tauto|]. tauto.
    + split; [discriminate|]. intros [_ [H|H]]; [discriminate|]. inversion H; subst.
      rewrite eqb_reflx in E. discriminate.
  - rewrite zmem_In. tauto.
Qed.

(* a query whose tuples are all empty is matched by every atom of the right element / charge / radical state *)
Theorem match_q_unconstrained num a :
  match_q num None (mkQX (la_chg a) (la_rad a) [] [] [] [] [] false) a = Ok (num =? la_num a).
Proof.
  unfold match_q, match_tail, ring_step. cbn.
  destruct (num =? la_num a); cbn; [|reflexivity].
  rewrite Z.eqb_refl, eqb_reflx. reflexivity.
Qed.

(* ------------------------------------------------------------------------------------------------------------ *)
(* 2. from_atom: a query made from an atom should match that atom                                                 *)

Lemma zmem_head v r : zmem v (v :: r) = true.
Proof. cbn. rewrite Z.eqb_refl. reflexivity. Qed.

Lemma insert_z_In x y l : In x (insert_z y l) <-> x = y \/ In x l.
Proof.
  induction l as [|z l IH]; cbn; [intuition congruence|].
  destruct (y <=? z); cbn; [intuition congruence|]. rewrite IH. intuition congruence.
Qed.
Lemma sort_z_In x l : In x (sort_z l) <-> In x l.
Proof.
  induction l as [|y l IH]; cbn; [tauto|]. rewrite insert_z_In, IH. intuition congruence.
Qed.
Lemma insert_z_nonempty y l : insert_z y l <> [].
Proof. destruct l; cbn; [discriminate|]. destruct (y <=? z); discriminate. Qed.

(* the ring part of from_atom(ring_sizes=True): tuple(sorted(atom.ring_sizes)) or (0,) *)
Definition from_rings (rs : list Z) : list Z := match sort_z rs with [] => [0] | l => l end.

Lemma from_rings_step c r nb hyb h het a : ~ In 0 (la_rings a) ->
  ring_step (mkQX c r nb hyb h het (from_rings (la_rings a)) false) a = Ok true.
Proof.
  intros H0. unfold ring_step, from_rings. cbn [x_rings x_rings_set].
  destruct (sort_z (la_rings a)) as [|r0 rs] eqn:E.
  - cbn. destruct (la_rings a) as [|y l] eqn:El; [reflexivity|].
    exfalso. cbn in E. exact (insert_z_nonempty _ _ E).
  - assert (Hin : In r0 (la_rings a)) by (apply sort_z_In; rewrite E; left; reflexivity).
    assert (r0 <> 0) by (intros ->; auto).
    apply Z.eqb_neq in H. rewrite H. cbn [negb]. f_equal. apply negb_true_iff. apply disjoint_false.
    exists r0. split; [left; reflexivity | exact Hin].
Qed.

(* a query made from an atom matches that atom, whatever is requested (ring sizes of a real atom are >= 3, so never 0) *)
Theorem from_atom_matches_self a f_nb f_hyb f_het f_h f_rings :
  ~ In 0 (la_rings a) ->
  match_atom (from_atom a f_nb f_hyb f_het f_h f_rings) a = Ok true.
Proof.
  intros H0. unfold from_atom, match_atom, match_q. cbn [x_chg x_rad].
  rewrite !Z.eqb_refl, eqb_reflx. cbn [negb].
  assert (I : iso_truthy (la_iso a) && negb (option_eqb Z.eqb (la_iso a) (la_iso a)) = false).
  { apply iso_test. right. right. reflexivity. }
  rewrite I. unfold match_tail. cbn [x_nb x_hyb x_h x_het].
  match goal with |- context [ring_step ?q a] => assert (R : ring_step q a = Ok true) end.
  { destruct f_rings; [apply (from_rings_step _ _ _ _ _ _ a H0) | reflexivity]. }
  rewrite R.
  destruct f_nb; cbn [nonempty andb]; [rewrite zmem_head; cbn [negb andb]|];
  (destruct f_hyb; cbn [nonempty andb]; [rewrite zmem_head; cbn [negb andb]|]);
  (destruct f_h; [destruct (la_h a) as [h|]; cbn [nonempty andb opt_mem]; [rewrite zmem_head; cbn [negb andb]|]|cbn [nonempty andb]]);
  (destruct f_het; cbn [nonempty andb]; [rewrite zmem_head; cbn [negb andb]|]); reflexivity.
Qed.

(* and the ring part has the documented meaning: a non-ring atom gives the "not in ring" mark, a ring atom its sizes *)
Theorem from_atom_rings_spec a f_nb f_hyb f_het f_h :
  match from_atom a f_nb f_hyb f_het f_h true with
  | QElem _ _ x => x_rings_set x = false /\
                   (la_rings a = [] -> x_rings x = [0]) /\
                   (la_rings a <> [] -> forall r, In r (x_rings x) <-> In r (la_rings a))
  | _ => False
  end.
Proof.
  unfold from_atom. cbn [x_rings x_rings_set]. split; [reflexivity|]. split.
  - intros ->. reflexivity.
  - intros Hne r. destruct (sort_z (la_rings a)) as [|r0 rs] eqn:E.
    + destruct (la_rings a) as [|y l]; [congruence|]. cbn in E. exfalso. exact (insert_z_nonempty _ _ E).
    + rewrite <- E. apply sort_z_In.
Qed.

(* ------------------------------------------------------------------------------------------------------------ *)
(* 3. labels_spec: for EVERY neighbour list (any length, any order) calc_labels computes the documented counts    *)

Definition not_special (mb : Z * Z) : bool := negb (snd mb =? 8).
Definition count_if {A} (p : A -> bool) (l : list A) : Z := Z.of_nat (List.length (filter p l)).

(* the docstring of Element.hybridization: 4 aromatic; 3 = a triple bond or two double bonds; 2 = exactly one double;
   1 otherwise (special bonds are not counted) *)
Definition hyb_spec (env : list (Z * Z)) : Z :=
  let e := filter not_special env in
  if existsb (fun mb => snd mb =? 4) e then 4
  else if existsb (fun mb => snd mb =? 3) e || (2 <=? count_if (fun mb => snd mb =? 2) e) then 3
  else if count_if (fun mb => snd mb =? 2) e =? 1 then 2
  else 1.

Definition labels_spec_of (env : list (Z * Z)) : Z * Z * Z * Z :=
  (count_if not_special env,
   count_if (fun mb => not_special mb && negb (fst mb =? 1) && negb (fst mb =? 6)) env,
   hyb_spec env,
   count_if (fun mb => not_special mb && (fst mb =? 1)) env).

Lemma count_if_app {A} (p : A -> bool) l1 l2 : count_if p (l1 ++ l2) = count_if p l1 + count_if p l2.
Proof. unfold count_if. rewrite filter_app, app_length. lia. Qed.
Lemma count_if_nonneg {A} (p : A -> bool) l : 0 <= count_if p l.
Proof. unfold count_if. lia. Qed.
Lemma count_if_one {A} (p : A -> bool) x : count_if p [x] = if p x then 1 else 0.
Proof. unfold count_if. cbn. destruct (p x); reflexivity. Qed.

Lemma hyb_spec_snoc env mb :
  hyb_spec (env ++ [mb]) =
  let hyb := hyb_spec env in let ord := snd mb in
  if ord =? 8 then hyb
  else if ord =? 4 then 4
  else if negb (hyb =? 4) then
         if ord =? 3 then 3
         else if ord =? 2 then (if hyb =? 1 then 2 else if hyb =? 2 then 3 else hyb)
         else hyb
       else hyb.
Proof.
  cbv zeta. unfold hyb_spec. rewrite filter_app. cbn [filter].
  change (not_special mb) with (negb (snd mb =? 8)).
  destruct (snd mb =? 8) eqn:E8; cbn [negb].
  { rewrite app_nil_r. reflexivity. }
  cbv zeta. rewrite !existsb_app, !count_if_app, !count_if_one. cbn [existsb].
  set (e := filter not_special env).
  pose proof (count_if_nonneg (fun mb0 : Z * Z => snd mb0 =? 2) e) as Hc.
  set (c2 := count_if (fun mb0 : Z * Z => snd mb0 =? 2) e) in *.
  destruct (existsb (fun mb0 : Z * Z => snd mb0 =? 4) e) eqn:X4; cbn [orb].
  { destruct (snd mb =? 4); reflexivity. }
  destruct (snd mb =? 4) eqn:E4; cbn [orb]; [reflexivity|].
  destruct (existsb (fun mb0 : Z * Z => snd mb0 =? 3) e) eqn:X3; cbn [orb].
  { cbn. destruct (snd mb =? 3); [reflexivity|]. destruct (snd mb =? 2); reflexivity. }
  destruct (snd mb =? 3) eqn:E3; cbn [orb].
  { destruct (2 <=? c2) eqn:L; cbn; [reflexivity|]. destruct (c2 =? 1); reflexivity. }
  destruct (snd mb =? 2) eqn:E2.
  - destruct (2 <=? c2) eqn:L.
    + assert (L2 : 2 <=? c2 + 1 = true) by (apply Z.leb_le; apply Z.leb_le in L; lia). rewrite L2. reflexivity.
    + apply Z.leb_gt in L. destruct (c2 =? 1) eqn:C1.
      * apply Z.eqb_eq in C1. rewrite C1. reflexivity.
      * apply Z.eqb_neq in C1. assert (c2 = 0) by lia. rewrite H. reflexivity.
  - rewrite Z.add_0_r. destruct (2 <=? c2); cbn; [reflexivity|]. destruct (c2 =? 1); reflexivity.
Qed.

Theorem labels_spec env : labels_of env = labels_spec_of env.
Proof.
  unfold labels_of. induction env as [|mb env IH] using rev_ind.
  - reflexivity.
  - rewrite fold_left_app. cbn [fold_left]. rewrite IH. unfold labels_spec_of.
    rewrite hyb_spec_snoc, !count_if_app, !count_if_one. unfold label_step, not_special. destruct mb as [num ord]. cbn [fst snd].
    destruct (ord =? 8) eqn:E8; cbn [negb andb].
    { rewrite !Z.add_0_r. reflexivity. }
    cbv zeta.
    repeat apply f_equal2; try reflexivity;
      repeat (match goal with |- context [num =? ?b] => destruct (num =? b) end; cbn [negb andb]); lia.
Qed.

(* consequences in the documented vocabulary *)
Corollary labels_neighbors env : fst (fst (fst (labels_of env))) = count_if not_special env.
Proof. rewrite labels_spec. reflexivity. Qed.
Corollary labels_explicit_h_le_neighbors env :
  snd (labels_of env) + snd (fst (fst (labels_of env))) <= fst (fst (fst (labels_of env))).
Proof.
  rewrite labels_spec. cbn [labels_spec_of fst snd]. unfold count_if.
  induction env as [|mb env IH]; cbn [filter]; [cbn; lia|].
  destruct (not_special mb); cbn [andb]; [|exact IH].
  destruct (fst mb =? 1); cbn [negb andb List.length]; [lia|].
  destruct (fst mb =? 6); cbn [negb List.length]; lia.
Qed.

(* the result does not depend on the order in which the neighbours are visited *)
From Coq Require Import Permutation.
Lemma count_if_perm {A} (p : A -> bool) l1 l2 : Permutation l1 l2 -> count_if p l1 = count_if p l2.
Proof. intros H. unfold count_if. induction H; cbn; try lia; repeat (destruct (p _); cbn); lia. Qed.
Lemma existsb_perm {A} (p : A -> bool) l1 l2 : Permutation l1 l2 -> existsb p l1 = existsb p l2.
Proof.
  intros H. induction H; cbn; try congruence.
  - destruct (p y), (p x); reflexivity.
Qed.
Lemma filter_perm {A} (p : A -> bool) l1 l2 : Permutation l1 l2 -> Permutation (filter p l1) (filter p l2).
Proof.
  intros H. induction H; cbn.
  - constructor.
  - destruct (p x); [constructor|]; assumption.
  - destruct (p x), (p y); try apply perm_swap; reflexivity.
  - etransitivity; eassumption.
Qed.
Theorem labels_order_independent env1 env2 : Permutation env1 env2 -> labels_of env1 = labels_of env2.
Proof.
  intros H. rewrite !labels_spec. unfold labels_spec_of, hyb_spec.
  pose proof (filter_perm not_special _ _ H) as HF.
  rewrite (count_if_perm _ _ _ H), (count_if_perm (fun mb => not_special mb && negb (fst mb =? 1) && negb (fst mb =? 6)) _ _ H),
          (count_if_perm (fun mb => not_special mb && (fst mb =? 1)) _ _ H),
          (existsb_perm (fun mb => snd mb =? 4) _ _ HF), (existsb_perm (fun mb => snd mb =? 3) _ _ HF),
          (count_if_perm (fun mb => snd mb =? 2) _ _ HF).
  reflexivity.
Qed.

(* ring marks *)
Lemma dedup_In x l : In x (dedup l) <-> In x l.
Proof.
  induction l as [|y l IH]; cbn; [tauto|].
  destruct (zmem y l) eqn:E.
  - rewrite IH. apply zmem_In in E. split; [auto|]. intros [->|H]; auto.
  - cbn. rewrite IH. tauto.
Qed.
Theorem ring_sizes_spec sssr n s :
  In s (ring_sizes_of sssr n) <-> exists r, In r sssr /\ In n r /\ s = Z.of_nat (List.length r).
Proof.
  unfold ring_sizes_of, rings_of. rewrite dedup_In, in_map_iff. split.
  - intros [r [Hs Hr]]. apply filter_In in Hr. destruct Hr as [Hr Hm]. apply zmem_In in Hm. eauto.
  - intros [r [Hr [Hn Hs]]]. exists r. split; [auto|]. apply filter_In. split; [auto|]. apply zmem_In. auto.
Qed.
Theorem atom_in_ring_spec sssr n :
  atom_in_ring sssr n = true <-> exists r, In r sssr /\ In n r.
Proof.
  unfold atom_in_ring, rings_of. split.
  - destruct (filter (fun r => zmem n r) sssr) as [|r l] eqn:E; [discriminate|]. intros _.
    assert (In r (filter (fun r => zmem n r) sssr)) by (rewrite E; left; reflexivity).
    apply filter_In in H. destruct H as [H1 H2]. apply zmem_In in H2. eauto.
  - intros [r [H1 H2]]. assert (In r (filter (fun r => zmem n r) sssr)) by (apply filter_In; split; [auto|apply zmem_In; auto]).
    destruct (filter (fun r => zmem n r) sssr); [destruct H|reflexivity].
Qed.
Theorem ring_sizes_empty_iff sssr n : ring_sizes_of sssr n = [] <-> atom_in_ring sssr n = false.
Proof.
  unfold ring_sizes_of, atom_in_ring. destruct (rings_of sssr n) as [|r l] eqn:E; cbn.
  - tauto.
  - split; [|discriminate]. intros H.
    assert (In (Z.of_nat (List.length r)) (dedup (Z.of_nat (List.length r) :: map (fun r0 => Z.of_nat (List.length r0)) l))) by (apply dedup_In; left; reflexivity).
    cbn in H0. rewrite H in H0. destruct H0.
Qed.
Theorem bond_in_ring_spec sssr n m :
  bond_in_ring sssr n m = true <-> exists r, In r sssr /\ In n r /\ In m r.
Proof.
  unfold bond_in_ring. rewrite existsb_exists. split.
  - intros [r [H1 H2]]. apply andb_true_iff in H2. destruct H2 as [H2 H3]. apply zmem_In in H2, H3. eauto.
  - intros [r [H1 [H2 H3]]]. exists r. split; [auto|]. apply andb_true_iff. split; apply zmem_In; auto.
Qed.
