(* C01, extension: the re-ordering law for tetrahedra with THREE listed neighbours (implicit hydrogen, or an explicit hydrogen that
   is passed in the arrangement), and the string theorem for molecules whose labelled atoms are tetrahedra of either kind. *)
From Coq Require Import ZArith List String Bool Lia Permutation.
From Model Require Import PyBase PyHash Graph Morgan Stereo Writer.
From Proofs Require Import MorganProofs WriterInvProofs WriterStereoExt StereoProofs BfsExt BfsExt2 TraverseOrderExt InsertionOrderExt
  InsertionOrderExt2 StereoOrderExt.
Import ListNotations.
Open Scope Z_scope.

(* ---- znth on a duplicate-free list is injective; index in a re-ordered list ---- *)
Lemma znth_inj_nodup (l : list Z) i j : NoDup l -> 0 <= i < Z.of_nat (List.length l) -> 0 <= j < Z.of_nat (List.length l) ->
  znth l i 0 = znth l j 0 -> i = j.
Proof.
  intros Hn Hi Hj. unfold znth. destruct (i <? 0) eqn:E1; [lia|]. destruct (j <? 0) eqn:E2; [lia|]. intros E.
  assert (Z.to_nat i = Z.to_nat j) by (apply (proj1 (NoDup_nth l 0) Hn); [lia | lia | exact E]). lia.
Qed.

Lemma index_of_sel_gen (order q : list Z) x : NoDup order -> (forall t, In t q -> 0 <= t < Z.of_nat (List.length order)) ->
  index_of (sel order q) x = match index_of order x with Some i => index_of q i | None => None end.
Proof.
  intros Hnd Hr. destruct (index_of order x) as [i|] eqn:E.
  - unfold index_of in E. destruct (index_from_spec x order 0 i E) as [Hi Hz]. replace (i - 0) with i in Hz by lia. subst x.
    unfold sel, index_of.
    apply (index_from_map_inj (fun t => znth order t 0) (zrange 0 (Z.of_nat (List.length order))) q i).
    + intros u v Hu Hv. apply zrange_In in Hu. apply zrange_In in Hv. apply znth_inj_nodup; assumption.
    + intros z Hz. apply zrange_In. apply Hr. exact Hz.
    + apply zrange_In. lia.
  - unfold index_of in *. apply index_from_none in E.
    destruct (index_from x (sel order q) 0) as [i|] eqn:E2; [|reflexivity]. exfalso. apply E.
    destruct (index_from_spec x (sel order q) 0 i E2) as [Hi Hz]. subst x. replace (i - 0) with i by lia.
    assert (In (znth (sel order q) i 0) (sel order q)) as Hin by (apply znth_In; lia).
    unfold sel in Hin at 2. apply in_map_iff in Hin. destruct Hin as [t [<- Ht]]. apply znth_In. apply Hr. exact Ht.
Qed.

Definition range3 : list Z := [0; 1; 2].
Definition th_reindex3_ok : bool :=
  forallb (fun q => in_perms perms4 (q ++ [3]) && forallb (fun i => forallb (fun j => forallb (fun k =>
    match index_of q i, index_of q j, index_of q k with
    | Some i', Some j', Some k' =>
        match th_lookup i' j' k', th_lookup i j k with
        | Some b', Some b => Bool.eqb b' (xorb b (odd_perm (q ++ [3])))
        | None, None => true
        | _, _ => false
        end
    | _, _, _ => false
    end) range3) range3) range3) perms3.
Lemma th_reindex3_ok_true : th_reindex3_ok = true.
Proof. vm_compute. reflexivity. Qed.

Lemma perms3_ext q : In q perms3 -> In (q ++ [3]) perms4.
Proof.
  intros Hq. pose proof th_reindex3_ok_true as H. unfold th_reindex3_ok in H. rewrite forallb_forall in H. specialize (H q Hq).
  apply andb_prop in H. destruct H as [H _]. apply in_perms_In. exact H.
Qed.

Lemma th_reindex3 q i j k sg : In q perms3 -> In i range3 -> In j range3 -> In k range3 ->
  exists i' j' k', index_of q i = Some i' /\ index_of q j = Some j' /\ index_of q k = Some k' /\
    lookup_xor (xorb sg (odd_perm (q ++ [3]))) (th_lookup i' j' k') = lookup_xor sg (th_lookup i j k).
Proof.
  intros Hq Hi Hj Hk. pose proof th_reindex3_ok_true as H. unfold th_reindex3_ok in H.
  rewrite forallb_forall in H. specialize (H q Hq). apply andb_prop in H. destruct H as [_ H].
  rewrite forallb_forall in H. specialize (H i Hi). rewrite forallb_forall in H. specialize (H j Hj).
  rewrite forallb_forall in H. specialize (H k Hk).
  destruct (index_of q i) as [i'|]; [|discriminate]. destruct (index_of q j) as [j'|]; [|discriminate].
  destruct (index_of q k) as [k'|]; [|discriminate]. exists i', j', k'. repeat split.
  destruct (th_lookup i' j' k') as [b'|]; destruct (th_lookup i j k) as [b|]; try discriminate; [|reflexivity].
  apply eqb_prop in H. subst b'. destruct b, sg, (odd_perm (q ++ [3])); reflexivity.
Qed.

(* the common tail of _translate_tetrahedron_sign once the reference order is fixed *)
Definition th_tail (o env : list Z) (sg : bool) : pyres bool :=
  match map (index_of o) (firstn 3 env) with
  | [Some x; Some y; Some z] => lookup_xor sg (th_lookup x y z)
  | _ => Err ValueError
  end.
Lemma translate_th_tail isH order env sg :
  translate_th isH order env sg =
  match (let ne := Z.of_nat (List.length env) in
         if Z.of_nat (List.length order) =? 3 then
           if ne =? 4 then match find isH env with Some h => Ok (order ++ [h]) | None => Err KeyError end
           else if ne =? 3 then Ok order else Err ValueError
         else if (ne =? 3) || (ne =? 4) then Ok order else Err ValueError) with
  | Ok o => th_tail o env sg
  | Err e => Err e
  end.
Proof.
  unfold translate_th, th_tail. destruct (Z.of_nat (List.length order) =? 3); cbv zeta.
  - destruct (Z.of_nat (List.length env) =? 4); [destruct (find isH env); reflexivity|].
    destruct (Z.of_nat (List.length env) =? 3); reflexivity.
  - destruct ((Z.of_nat (List.length env) =? 3) || (Z.of_nat (List.length env) =? 4)); reflexivity.
Qed.

Section Reorder3.
  Variable isH : Z -> bool.
  Variable a b c : Z.
  Hypothesis Hnd : NoDup [a; b; c].
  Hypothesis HnH : isH a = false /\ isH b = false /\ isH c = false.
  Let order := [a; b; c].

  Lemma th_tail4 h q4 env sg : NoDup [a; b; c; h] -> In q4 perms4 -> Z.of_nat (List.length env) = 4 ->
    th_tail (sel [a; b; c; h] q4) env (xorb sg (odd_perm q4)) = th_tail [a; b; c; h] env sg.
  Proof.
    intros Hn4 Hq He. pose proof (translate_th_reorder_any isH a b c h Hn4 q4 env sg Hq) as H.
    rewrite !translate_th_tail in H. destruct (perms4_range q4 Hq) as [Hlen _].
    assert (List.length (sel [a; b; c; h] q4) = 4%nat) as Hl by (unfold sel; rewrite map_length; exact Hlen).
    rewrite Hl, He in H. cbn in H. exact H.
  Qed.

  Theorem translate_th_reorder_any3 q env sg : In q perms3 ->
    translate_th isH (sel order q) env (xorb sg (odd_perm (q ++ [3]))) = translate_th isH order env sg.
  Proof.
    intros Hq. destruct (perms3_range q Hq) as [Hlen Hr]. rewrite !translate_th_tail.
    assert (List.length (sel order q) = 3%nat) as -> by (unfold sel; rewrite map_length; exact Hlen).
    cbn [List.length order]. change (Z.of_nat 3 =? 3) with true. cbv iota zeta.
    destruct (Z.of_nat (List.length env) =? 4) eqn:E4.
    - (* explicit hydrogen in the arrangement: reduce to four listed neighbours *)
      destruct (find isH env) as [h|] eqn:Eh; [|reflexivity]. apply find_some in Eh. destruct Eh as [_ Hh].
      assert (NoDup [a; b; c; h]) as Hn4.
      { change [a; b; c; h] with ([a; b; c] ++ [h]). apply nodup_app; [exact Hnd | constructor; [intros [] | constructor] |].
        intros x Hx [<-|[]]. destruct HnH as [Ha [Hb Hc]]. cbn in Hx. destruct Hx as [<-|[<-|[<-|[]]]]; congruence. }
      assert (sel order q ++ [h] = sel [a; b; c; h] (q ++ [3])) as ->.
      { unfold sel. rewrite map_app. cbn [map]. apply (f_equal (fun l => l ++ [h])).
        apply map_ext_in. intros t Ht. specialize (Hr t Ht). unfold order.
        assert (t = 0 \/ t = 1 \/ t = 2) as [->|[->| ->]] by lia; reflexivity. }
      apply Z.eqb_eq in E4. apply th_tail4; [exact Hn4 | apply perms3_ext; exact Hq | exact E4].
    - destruct (Z.of_nat (List.length env) =? 3); [|reflexivity].
      unfold th_tail.
      assert (forall t, In t q -> 0 <= t < Z.of_nat (List.length order)) as Hr' by (intros t Ht; specialize (Hr t Ht); cbn; lia).
      destruct (firstn 3 env) as [|x [|y [|z [|t r]]]]; cbn [map]; try reflexivity; rewrite ?(index_of_sel_gen order q _ Hnd Hr').
      + destruct (index_of order x) as [i|]; repeat (match goal with |- context [index_of q ?u] => destruct (index_of q u) end); reflexivity.
      + destruct (index_of order x) as [i|]; destruct (index_of order y) as [j|];
          repeat (match goal with |- context [index_of q ?u] => destruct (index_of q u) end); reflexivity.
      + destruct (index_of order x) as [i|] eqn:Ex; [|reflexivity].
        destruct (index_of order y) as [j|] eqn:Ey; [|destruct (index_of q i); reflexivity].
        destruct (index_of order z) as [k|] eqn:Ez; [|destruct (index_of q i); [destruct (index_of q j)|]; reflexivity].
        assert (forall u v, index_of order u = Some v -> In v range3) as Hrg.
        { intros u v Hu. unfold index_of in Hu. destruct (index_from_spec u order 0 v Hu) as [Hv _]. cbn in Hv. unfold range3.
          assert (v = 0 \/ v = 1 \/ v = 2) as [->|[->| ->]] by lia; cbn; auto. }
        destruct (th_reindex3 q i j k sg Hq (Hrg x i Ex) (Hrg y j Ey) (Hrg z k Ez)) as [i' [j' [k' [-> [-> [-> H]]]]]]. exact H.
      + destruct (index_of order x) as [i|]; destruct (index_of order y) as [j|]; destruct (index_of order z) as [k|]; destruct (index_of order t) as [l|];
          repeat (match goal with |- context [index_of q ?u] => destruct (index_of q u) end); reflexivity.
  Qed.
End Reorder3.

(* every labelled atom is a tetrahedron with four, or with three (non-hydrogen) listed neighbours, whose registry entry in g' lists
   the renamed neighbours in another order and whose sign was re-expressed by the parity of that re-ordering *)
Definition stereo_atoms_reordered2 (g g' : mol) (s : Z -> Z) (tabs tabs' : stabs) : Prop :=
  forall n a a', atom_of g n = Some a -> atom_of g' (s n) = Some a' ->
    (a_stereo a = None /\ a_stereo a' = None) \/
    (exists sg aa bb cc dd q, a_stereo a = Some sg /\ zget (t_allene_term tabs) n = None /\ zget (t_allene_term tabs') (s n) = None /\
       zget (t_tetra tabs) n = Some [aa; bb; cc; dd] /\ NoDup [aa; bb; cc; dd] /\ In q perms4 /\
       zget (t_tetra tabs') (s n) = Some (map s (sel [aa; bb; cc; dd] q)) /\ a_stereo a' = Some (xorb sg (odd_perm q)) /\ a_h a' = a_h a) \/
    (exists sg aa bb cc q, a_stereo a = Some sg /\ zget (t_allene_term tabs) n = None /\ zget (t_allene_term tabs') (s n) = None /\
       zget (t_tetra tabs) n = Some [aa; bb; cc] /\ NoDup [aa; bb; cc] /\ (is_H g aa = false /\ is_H g bb = false /\ is_H g cc = false) /\
       In q perms3 /\ zget (t_tetra tabs') (s n) = Some (map s (sel [aa; bb; cc] q)) /\
       a_stereo a' = Some (xorb sg (odd_perm (q ++ [3]))) /\ a_h a' = a_h a).

Section TetrahedralMarks2.
  Variable g g' : mol.
  Variable s : Z -> Z.
  Variable o : opts.
  Variable tabs tabs' : stabs.
  Hypothesis s_inj : forall x y, s x = s y -> x = y.
  Hypothesis HisH : forall x, is_H g' (s x) = is_H g x.
  Hypothesis Hre : stereo_atoms_reordered2 g g' s tabs tabs'.

  Lemma stereo_mark_reordered2 n a a' adj : atom_of g n = Some a -> atom_of g' (s n) = Some a' ->
    stereo_mark g' o tabs' (s n) (ren_vis s adj) a' = stereo_mark g o tabs n adj a.
  Proof.
    intros Ha Ha'. destruct (Hre n a a' Ha Ha') as [[H1 H2]|[[sg [aa [bb [cc [dd [q [H1 [H2 [H3 [H4 [H5 [H6 [H7 [H8 H9]]]]]]]]]]]]]]|
                                                    [sg [aa [bb [cc [q [H1 [H2 [H3 [H4 [H5 [HH [H6 [H7 [H8 H9]]]]]]]]]]]]]]]].
    - unfold stereo_mark. rewrite H1, H2. reflexivity.
    - unfold stereo_mark. rewrite H1, H8. destruct (negb (o_stereo o)); [reflexivity|].
      rewrite H2, H3, H4, H7. unfold ren_vis at 1. rewrite (zget_renG s s_inj (map s)). fold (ren_vis s adj).
      destruct (zget adj n) as [env|]; cbn [option_map]; [|reflexivity].
      rewrite (translate_th_ren s s_inj (is_H g) (is_H g') HisH), (translate_th_reorder_any (is_H g) aa bb cc dd H5 q env sg H6).
      rewrite H9, (first_key_ren s s_inj). reflexivity.
    - unfold stereo_mark. rewrite H1, H8. destruct (negb (o_stereo o)); [reflexivity|].
      rewrite H2, H3, H4, H7. unfold ren_vis at 1. rewrite (zget_renG s s_inj (map s)). fold (ren_vis s adj).
      destruct (zget adj n) as [env|]; cbn [option_map]; [|reflexivity].
      rewrite (translate_th_ren s s_inj (is_H g) (is_H g') HisH), (translate_th_reorder_any3 (is_H g) aa bb cc H5 HH q env sg H6).
      rewrite H9, (first_key_ren s s_inj). reflexivity.
  Qed.
End TetrahedralMarks2.

(* DESIGN appendix A smiles_invariant_discrete with tetrahedral marks (centres with four listed neighbours, or three plus an implicit
   or explicit hydrogen) under ANY renumbering and ANY insertion order.  _partial: no allene and no cis/trans labels *)
Theorem smiles_invariant_discrete_tetrahedral_insertion_order2 (g g' : mol) (s w w' tb tb' : Z -> Z) (o : opts) (tabs tabs' : stabs) :
  wf_mol (strip g) = true -> wf_mol (strip g') = true -> (forall x y, s x = s y -> x = y) ->
  mol_perm (ren_mol s (strip g)) (strip g') -> inj_on (ids g) w -> (forall n, In n (ids g) -> w' (s n) = w n) -> o_mapping o = false ->
  stereo_atoms_reordered2 g g' s tabs tabs' -> stereo_bond_atoms g = [] -> stereo_bond_atoms g' = [] ->
  smiles_text g' w' tb' o tabs' = map_order s (smiles_text g w tb o tabs).
Proof.
  intros Hwf Hwf' Hs Hp Hw Hr Hmp Hre Hb Hb'.
  apply (smiles_text_atom_stereo_perm g g' s w w' tb tb' o tabs tabs' Hwf Hwf' Hs Hp Hw Hr Hmp); try assumption.
  intros n a a' adj Ha Ha'. apply (stereo_mark_reordered2 g g' s o tabs tabs' Hs); try assumption.
  intros x. unfold is_H. pose proof (atoms_agree g g' s Hwf Hs Hp x) as H.
  destruct (atom_of g' (s x)) as [p|]; destruct (atom_of g x) as [r|]; cbn [option_map] in H; try discriminate; [|reflexivity].
  injection H as H _. rewrite H. reflexivity.
Qed.

(* non-vacuity: 1-aminoethanol C[C@H](N)O (implicit hydrogen on the centre) renumbered n -> 10 - n, the neighbours of the centre
   re-inserted in the order N, C, O (first two exchanged): the stored sign flips, the string is the same *)
Definition exh_g : mol := exs_g.
Definition exh_g' : mol :=
  mkMol [(6, mkAtom 8 None 0 false (Some 1) None); (8, mkAtom 6 None 0 false (Some 1) (Some false));
         (7, mkAtom 7 None 0 false (Some 2) None); (9, mkAtom 6 None 0 false (Some 3) None)]
        [(6, [(8, exs_b)]); (8, [(7, exs_b); (9, exs_b); (6, exs_b)]); (7, [(8, exs_b)]); (9, [(8, exs_b)])].
Definition exh_tabs' : stabs := mkStabs [(8, [7; 9; 6])] [] [] [] [] [] [].
Definition exh_q : list Z := [1; 0; 2].

Lemma exh_reordered : stereo_atoms_reordered2 exh_g exh_g' ext_s exs_tabs exh_tabs'.
Proof.
  intros n a a' Ha Ha'. unfold atom_of, exh_g, exs_g in Ha. cbn [m_atoms zget] in Ha.
  destruct (Z.eqb_spec n 1) as [->|N1]; [left; injection Ha as <-; vm_compute in Ha'; injection Ha' as <-; split; reflexivity|].
  destruct (Z.eqb_spec n 2) as [->|N2].
  - right. right. injection Ha as <-. vm_compute in Ha'. injection Ha' as <-.
    exists true, 1, 3, 4, exh_q.
    split; [reflexivity|]. split; [reflexivity|]. split; [reflexivity|]. split; [reflexivity|].
    split; [repeat constructor; cbn; intuition lia|]. split; [repeat split; reflexivity|]. split; [vm_compute; tauto|].
    split; [vm_compute; reflexivity|]. split; reflexivity.
  - left. destruct (Z.eqb_spec n 3) as [->|N3]; [injection Ha as <-; vm_compute in Ha'; injection Ha' as <-; split; reflexivity|].
    destruct (Z.eqb_spec n 4) as [->|N4]; [injection Ha as <-; vm_compute in Ha'; injection Ha' as <-; split; reflexivity|].
    discriminate.
Qed.

Theorem tetrahedral_h_insertion_order_example :
  wf_mol (strip exh_g) = true /\ wf_mol (strip exh_g') = true /\ (forall x y, ext_s x = ext_s y -> x = y) /\
  mol_perm (ren_mol ext_s (strip exh_g)) (strip exh_g') /\ inj_on (ids exh_g) exq_w /\ (forall n, In n (ids exh_g) -> exq_w' (ext_s n) = exq_w n) /\
  stereo_atoms_reordered2 exh_g exh_g' ext_s exs_tabs exh_tabs' /\ stereo_bond_atoms exh_g = [] /\ stereo_bond_atoms exh_g' = [] /\
  smiles_text exh_g exq_w (fun n => n) default_opts exs_tabs = Ok ("C[C@H](N)O"%string, [1; 2; 3; 4]) /\
  smiles_text exh_g' exq_w' (fun n => n) default_opts exh_tabs' = Ok ("C[C@H](N)O"%string, [9; 8; 7; 6]).
Proof.
  split; [vm_compute; reflexivity|]. split; [vm_compute; reflexivity|]. split; [intros x y; unfold ext_s; lia|].
  split.
  { split.
    - cbn [ren_mol strip exh_g exs_g exh_g' m_atoms map fst snd ext_s strip_atom a_num a_iso a_chg a_rad a_h].
      change (10 - 1) with 9. change (10 - 2) with 8. change (10 - 3) with 7. change (10 - 4) with 6.
      apply (Permutation_cons_app [(6, mkAtom 8 None 0 false (Some 1) None); (8, mkAtom 6 None 0 false (Some 1) None); (7, mkAtom 7 None 0 false (Some 2) None)] []).
      apply (Permutation_cons_app [(6, mkAtom 8 None 0 false (Some 1) None)] [(7, mkAtom 7 None 0 false (Some 2) None)]).
      apply perm_swap.
    - set (sb := mkBond 1 None).
      exists [(9, [(8, sb)]); (8, [(7, sb); (9, sb); (6, sb)]); (7, [(8, sb)]); (6, [(8, sb)])]. split.
      + cbn [ren_mol ren_adj strip exh_g exs_g m_adj map fst snd ext_s strip_bond exs_b b_ord]. fold sb.
        change (10 - 1) with 9. change (10 - 2) with 8. change (10 - 3) with 7. change (10 - 4) with 6.
        repeat constructor; cbn [fst snd]; try apply Permutation_refl; try apply perm_swap.
      + cbn [strip exh_g' m_adj map fst snd strip_bond exs_b b_ord]. fold sb.
        apply (Permutation_cons_app [(6, [(8, sb)]); (8, [(7, sb); (9, sb); (6, sb)]); (7, [(8, sb)])] []).
        apply (Permutation_cons_app [(6, [(8, sb)])] [(7, [(8, sb)])]). apply perm_swap. }
  split; [intros x y _ _ H; exact H|].
  split; [intros n Hn; cbn in Hn; intuition (subst; vm_compute; reflexivity)|].
  split; [exact exh_reordered|]. repeat split; vm_compute; reflexivity.
Qed.
