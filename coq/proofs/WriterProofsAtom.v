(* C02, layer 1: bracket atoms.  Whatever _format_atom writes between [ and ] is parsed by _atom_parse (atom_re as the
   explicit matcher of Model.Writer) back into the fields it was written from.
   The matcher is first split into stages (convertible to the original: atom_parse2_eq is proved by reflexivity), each stage gets
   a lemma for an arbitrary continuation, and the stages are composed for every combination of components. *)
From Coq Require Import ZArith List String Ascii Bool Lia.
From Model Require Import PyBase Graph PeriodicTable Stereo Writer.
From Gen Require Import Elements SmilesTables.
From Proofs Require Import WriterProofs.
Import ListNotations.
Open Scope Z_scope.

Ltac ascii_cases c := destruct c as [[|] [|] [|] [|] [|] [|] [|] [|]].

(* ------------------------------------------------------------------------------------------------ stages *)
Definition iso_stage (l : list ascii) : option Z * list ascii :=
  match l with
  | c :: r => if in_range c "1" "9" then let '(d, rest) := take_digits 2 r in (Some (int_of_digits (c :: d)), rest)
              else (None, l)
  | [] => (None, l)
  end.
Definition el_stage (c : ascii) (r : list ascii) : list ascii * list ascii :=
  match r with
  | c2 :: r2 => if elem_second c2 then ([c; c2], r2) else ([c], r)
  | [] => ([c], r)
  end.
Definition st_stage (l2 : list ascii) : option bool * list ascii :=
  match l2 with
  | "@"%char :: "@"%char :: r3 => (Some false, r3)
  | "@"%char :: r3 => (Some true, r3)
  | _ => (None, l2)
  end.
Definition h_stage (l3 : list ascii) : Z * list ascii :=
  match l3 with
  | "H"%char :: r4 =>
      match r4 with
      | d :: r5 => if in_range d "1" "4" then (digit_val d, r5) else (1, r4)
      | [] => (1, r4)
      end
  | _ => (0, l3)
  end.
Definition chg_stage (l4 : list ascii) : option (list ascii) * list ascii :=
  match l4 with
  | s :: r5 =>
      if Ascii.eqb s "+"%char || Ascii.eqb s "-"%char then
        match r5 with
        | d :: r6 => if in_range d "1" "4" || Ascii.eqb d "+"%char || Ascii.eqb d "-"%char
                     then (Some [s; d], r6) else (Some [s], r5)
        | [] => (Some [s], r5)
        end
      else (None, l4)
  | [] => (None, l4)
  end.
Definition map_stage (l5 : list ascii) : option (option Z) :=
  match l5 with
  | ":"%char :: r6 =>
      let '(d, rest) := take_digits (List.length r6) r6 in
      match d, rest with
      | _ :: _, [] => Some (Some (int_of_digits d))
      | _, _ => None
      end
  | [] => Some None
  | _ => None
  end.
Definition finish (iso : option Z) (el : list ascii) (st : option bool) (h : Z) (chg : option (list ascii))
                  (mapping : option Z) : pyres parsed :=
  match (match chg with
         | None => Some 0
         | Some cs => sget1 charge_dict (string_of_list_ascii cs)
         end) with
  | None => Err IncorrectSmiles
  | Some charge =>
      let element := string_of_list_ascii el in
      if smem element aromatic_bracket_symbols
      then Ok (mkParsed 8 (capitalize element) iso mapping charge h st)
      else Ok (mkParsed 0 element iso mapping charge h st)
  end.

Definition atom_parse2 (l : list ascii) : pyres parsed :=
  let '(iso, l1) := iso_stage l in
  match l1 with
  | c :: r =>
      if negb (elem_first c) then Err IncorrectSmiles else
      let '(el, l2) := el_stage c r in
      let '(st, l3) := st_stage l2 in
      let '(h, l4) := h_stage l3 in
      let '(chg, l5) := chg_stage l4 in
      match map_stage l5 with
      | None => Err IncorrectSmiles
      | Some mapping => finish iso el st h chg mapping
      end
  | [] => Err IncorrectSmiles
  end.

Lemma atom_parse2_eq : forall l, atom_parse_chars l = atom_parse2 l.
Proof. intros l. reflexivity. Qed.

(* ------------------------------------------------------------------------------------------------ heads *)
(* "the next character, if any, is not in the class P" *)
Definition hd_not (P : ascii -> bool) (l : list ascii) : bool :=
  match l with [] => true | c :: _ => negb (P c) end.
(* "the next character, if any, is one of the characters of cls" *)
Definition starts_in (cls : string) (l : list ascii) : bool :=
  match l with [] => true | c :: _ => char_in c cls end.

Lemma starts_in_hd_not cls P l :
  (forall c, char_in c cls = true -> P c = false) -> starts_in cls l = true -> hd_not P l = true.
Proof.
  intros H Hs. destruct l as [|c r]; [reflexivity|]. cbn in *. rewrite (H c Hs). reflexivity.
Qed.

Lemma starts_in_weaken a b l :
  (forall c, char_in c a = true -> char_in c b = true) -> starts_in a l = true -> starts_in b l = true.
Proof. intros H Hs. destruct l as [|c r]; [reflexivity|]. cbn in *. apply H. exact Hs. Qed.

(* character-class facts, each by inspection of the 256 characters *)
Lemma cls_tail_not_digit c : char_in c "@H+-:" = true -> is_digit c = false.
Proof. ascii_cases c; vm_compute; intros H; try reflexivity; discriminate H. Qed.
Lemma cls_tail_not_second c : char_in c "@H+-:" = true -> elem_second c = false.
Proof. ascii_cases c; vm_compute; intros H; try reflexivity; discriminate H. Qed.
Lemma cls_h_not_at c : char_in c "H+-:" = true -> Ascii.eqb c "@" = false.
Proof. ascii_cases c; vm_compute; intros H; try reflexivity; discriminate H. Qed.
Lemma cls_c_not_H c : char_in c "+-:" = true -> Ascii.eqb c "H" = false.
Proof. ascii_cases c; vm_compute; intros H; try reflexivity; discriminate H. Qed.
Lemma cls_c_not_14 c : char_in c "+-:" = true -> in_range c "1" "4" = false.
Proof. ascii_cases c; vm_compute; intros H; try reflexivity; discriminate H. Qed.
Lemma cls_m_not_sign c : char_in c ":" = true -> (Ascii.eqb c "+" || Ascii.eqb c "-") = false.
Proof. ascii_cases c; vm_compute; intros H; try reflexivity; discriminate H. Qed.
Lemma cls_m_not_chg2 c : char_in c ":" = true -> (in_range c "1" "4" || Ascii.eqb c "+" || Ascii.eqb c "-") = false.
Proof. ascii_cases c; vm_compute; intros H; try reflexivity; discriminate H. Qed.
Lemma first_not_19 c : elem_first c = true -> in_range c "1" "9" = false.
Proof. ascii_cases c; vm_compute; intros H; try reflexivity; discriminate H. Qed.
Lemma first_not_digit c : elem_first c = true -> is_digit c = false.
Proof. ascii_cases c; vm_compute; intros H; try reflexivity; discriminate H. Qed.
Lemma sub_h_tail c : char_in c "H+-:" = true -> char_in c "@H+-:" = true.
Proof. ascii_cases c; vm_compute; intros H; try reflexivity; discriminate H. Qed.
Lemma sub_c_h c : char_in c "+-:" = true -> char_in c "H+-:" = true.
Proof. ascii_cases c; vm_compute; intros H; try reflexivity; discriminate H. Qed.
Lemma sub_m_c c : char_in c ":" = true -> char_in c "+-:" = true.
Proof. ascii_cases c; vm_compute; intros H; try reflexivity; discriminate H. Qed.

(* ------------------------------------------------------------------------------------------------ stage lemmas *)
Lemma take_digits_all : forall d k l, forallb is_digit d = true -> (List.length d <= k)%nat -> hd_not is_digit l = true ->
  take_digits k (d ++ l) = (d, l).
Proof.
  induction d as [|a d IH]; intros k l Hd Hk Hl.
  - cbn [app]. destruct k; [destruct l; reflexivity|]. destruct l as [|x r]; [reflexivity|].
    cbn in Hl. cbn [take_digits]. destruct (is_digit x); [discriminate|reflexivity].
  - cbn in Hd. apply andb_true_iff in Hd. destruct Hd as [Ha Hd]. destruct k; [cbn in Hk; lia|].
    cbn [app take_digits]. rewrite Ha. rewrite IH; [reflexivity | exact Hd | cbn in Hk; lia | exact Hl].
Qed.

Lemma iso_stage_some c d l :
  in_range c "1" "9" = true -> forallb is_digit d = true -> (List.length d <= 2)%nat -> hd_not is_digit l = true ->
  iso_stage (c :: d ++ l) = (Some (int_of_digits (c :: d)), l).
Proof. intros Hc Hd Hk Hl. unfold iso_stage. rewrite Hc. rewrite take_digits_all by assumption. reflexivity. Qed.

Lemma iso_stage_none l : hd_not (fun c => in_range c "1" "9") l = true -> iso_stage l = (None, l).
Proof.
  destruct l as [|c r]; [reflexivity|]. cbn [hd_not]. intros H. unfold iso_stage.
  destruct (in_range c "1" "9"); [discriminate|reflexivity].
Qed.

Lemma el_stage_two c c2 r : elem_second c2 = true -> el_stage c (c2 :: r) = ([c; c2], r).
Proof. intros H. unfold el_stage. rewrite H. reflexivity. Qed.
Lemma el_stage_one c r : hd_not elem_second r = true -> el_stage c r = ([c], r).
Proof.
  destruct r as [|x r]; [reflexivity|]. cbn [hd_not]. intros H. unfold el_stage.
  destruct (elem_second x); [discriminate|reflexivity].
Qed.

Lemma st_stage_none r : hd_not (fun c => Ascii.eqb c "@") r = true -> st_stage r = (None, r).
Proof.
  destruct r as [|c r]; [reflexivity|]. cbn [hd_not]. ascii_cases c; vm_compute; intros H; try reflexivity; discriminate H.
Qed.
Lemma st_stage_one r : hd_not (fun c => Ascii.eqb c "@") r = true -> st_stage ("@"%char :: r) = (Some true, r).
Proof.
  destruct r as [|c r]; [reflexivity|]. cbn [hd_not]. ascii_cases c; vm_compute; intros H; try reflexivity; discriminate H.
Qed.
Lemma st_stage_two r : st_stage ("@"%char :: "@"%char :: r) = (Some false, r).
Proof. reflexivity. Qed.

Lemma h_stage_none r : hd_not (fun c => Ascii.eqb c "H") r = true -> h_stage r = (0, r).
Proof.
  destruct r as [|c r]; [reflexivity|]. cbn [hd_not]. ascii_cases c; vm_compute; intros H; try reflexivity; discriminate H.
Qed.
Lemma h_stage_one r : hd_not (fun c => in_range c "1" "4") r = true -> h_stage ("H"%char :: r) = (1, r).
Proof.
  destruct r as [|c r]; [reflexivity|]. cbn [hd_not]. intros H. unfold h_stage.
  destruct (in_range c "1" "4"); [discriminate|reflexivity].
Qed.
Lemma h_stage_n d r : in_range d "1" "4" = true -> h_stage ("H"%char :: d :: r) = (digit_val d, r).
Proof. intros H. unfold h_stage. rewrite H. reflexivity. Qed.

Lemma chg_stage_none r : hd_not (fun c => Ascii.eqb c "+" || Ascii.eqb c "-") r = true -> chg_stage r = (None, r).
Proof.
  destruct r as [|c r]; [reflexivity|]. cbn [hd_not]. intros H. unfold chg_stage.
  destruct (Ascii.eqb c "+" || Ascii.eqb c "-"); [discriminate|reflexivity].
Qed.
Lemma chg_stage_one s r : (Ascii.eqb s "+" || Ascii.eqb s "-") = true ->
  hd_not (fun d => in_range d "1" "4" || Ascii.eqb d "+" || Ascii.eqb d "-") r = true ->
  chg_stage (s :: r) = (Some [s], r).
Proof.
  intros Hs H. unfold chg_stage. rewrite Hs. destruct r as [|d r]; [reflexivity|]. cbn [hd_not] in H.
  destruct (in_range d "1" "4" || Ascii.eqb d "+" || Ascii.eqb d "-"); [discriminate|reflexivity].
Qed.
Lemma chg_stage_two s d r : (Ascii.eqb s "+" || Ascii.eqb s "-") = true ->
  (in_range d "1" "4" || Ascii.eqb d "+" || Ascii.eqb d "-") = true ->
  chg_stage (s :: d :: r) = (Some [s; d], r).
Proof. intros Hs Hd. unfold chg_stage. rewrite Hs, Hd. reflexivity. Qed.

Lemma map_stage_none : map_stage [] = Some None.
Proof. reflexivity. Qed.
Lemma map_stage_some d : forallb is_digit d = true -> (1 <= List.length d)%nat ->
  map_stage (":"%char :: d) = Some (Some (int_of_digits d)).
Proof.
  intros Hd Hk. unfold map_stage.
  assert (H : take_digits (List.length d) d = (d, [])).
  { rewrite <- (app_nil_r d) at 2. apply take_digits_all; [exact Hd | lia | reflexivity]. }
  rewrite H. destruct d; [cbn in Hk; lia | reflexivity].
Qed.

(* ------------------------------------------------------------------------------------------------ components *)
(* what the six groups of atom_re may consist of, and the value each denotes *)
Inductive iso_comp : list ascii -> option Z -> Prop :=
| IsoNone : iso_comp [] None
| IsoSome c d : in_range c "1" "9" = true -> forallb is_digit d = true -> (List.length d <= 2)%nat ->
                iso_comp (c :: d) (Some (int_of_digits (c :: d))).
Inductive sym_comp : list ascii -> Prop :=
| SymOne c : elem_first c = true -> sym_comp [c]
| SymTwo c c2 : elem_first c = true -> elem_second c2 = true -> sym_comp [c; c2].
Inductive st_comp : list ascii -> option bool -> Prop :=
| StNone : st_comp [] None
| StOne : st_comp ["@"%char] (Some true)
| StTwo : st_comp ["@"%char; "@"%char] (Some false).
Inductive h_comp : list ascii -> Z -> Prop :=
| HNone : h_comp [] 0
| HOne : h_comp ["H"%char] 1
| HN d : in_range d "1" "4" = true -> h_comp ["H"%char; d] (digit_val d).
(* a charge spelling of charge_str (the writer) with the charge charge_dict (the reader) gives it *)
Inductive chg_comp : list ascii -> Z -> Prop :=
| ChgNone : chg_comp [] 0
| ChgSome c s : c <> 0 -> zget charge_str c = Some s -> chg_comp (list_ascii_of_string s) c.
Inductive map_comp : list ascii -> option Z -> Prop :=
| MapNone : map_comp [] None
| MapSome d : forallb is_digit d = true -> (1 <= List.length d)%nat ->
              map_comp (":"%char :: d) (Some (int_of_digits d)).

Definition parsed_of (symL : list ascii) (iso : option Z) (st : option bool) (h chg : Z) (mp : option Z) : parsed :=
  let element := string_of_list_ascii symL in
  if smem element aromatic_bracket_symbols
  then mkParsed 8 (capitalize element) iso mp chg h st
  else mkParsed 0 element iso mp chg h st.

Lemma map_comp_starts l mp : map_comp l mp -> starts_in ":" l = true.
Proof. intros H. destruct H; reflexivity. Qed.

(* the charge component: one of eight concrete strings; what stage and table lookup give *)
Lemma chg_comp_cases l c : chg_comp l c ->
  (l = [] /\ c = 0) \/
  (exists s, l = [s] /\ (Ascii.eqb s "+" || Ascii.eqb s "-") = true /\ sget1 charge_dict (string_of_list_ascii [s]) = Some c) \/
  (exists s d, l = [s; d] /\ (Ascii.eqb s "+" || Ascii.eqb s "-") = true /\
               (in_range d "1" "4" || Ascii.eqb d "+" || Ascii.eqb d "-") = true /\
               sget1 charge_dict (string_of_list_ascii [s; d]) = Some c).
Proof.
  intros H. destruct H as [|c s Hc Hs]; [left; split; reflexivity|]. right.
  (* charge_str is a concrete table: go through its entries *)
  unfold charge_str in Hs. cbn [zget] in Hs.
  repeat match type of Hs with
  | (if ?x =? ?k then _ else _) = _ =>
      let E := fresh "E" in destruct (x =? k) eqn:E;
      [ apply Z.eqb_eq in E; inversion Hs; subst; clear Hs | ]
  end;
  try discriminate;
  try (exfalso; apply Hc; reflexivity);
  try (left; eexists; repeat split; vm_compute; reflexivity);
  try (right; do 2 eexists; repeat split; vm_compute; reflexivity).
Qed.

Lemma chg_comp_starts l c : chg_comp l c -> l = [] \/ starts_in "+-" l = true.
Proof.
  intros H. apply chg_comp_cases in H. destruct H as [[-> _] | [[s [-> [Hs _]]] | [s [d [-> [Hs _]]]]]]; [left; reflexivity | right | right];
    cbn; revert Hs; ascii_cases s; vm_compute; intros Hs; try reflexivity; discriminate Hs.
Qed.

(* ------------------------------------------------------------------------------------------------ composition *)
Lemma tail_after_chg chgL chg mapL mp : chg_comp chgL chg -> map_comp mapL mp -> starts_in "+-:" (chgL ++ mapL) = true.
Proof.
  intros Hc Hm. destruct (chg_comp_starts _ _ Hc) as [-> | Hs].
  - cbn [app]. apply (starts_in_weaken ":"); [exact sub_m_c | exact (map_comp_starts _ _ Hm)].
  - destruct chgL as [|x r]; [cbn [app]; apply (starts_in_weaken ":"); [exact sub_m_c | exact (map_comp_starts _ _ Hm)]|].
    cbn in *. revert Hs. ascii_cases x; vm_compute; intros Hs; try reflexivity; discriminate Hs.
Qed.

Lemma tail_after_h hL h chgL chg mapL mp : h_comp hL h -> chg_comp chgL chg -> map_comp mapL mp ->
  starts_in "H+-:" (hL ++ chgL ++ mapL) = true.
Proof.
  intros Hh Hc Hm. destruct Hh; try reflexivity.
  cbn [app]. apply (starts_in_weaken "+-:"); [exact sub_c_h | exact (tail_after_chg _ _ _ _ Hc Hm)].
Qed.

Lemma tail_after_st stL st hL h chgL chg mapL mp : st_comp stL st -> h_comp hL h -> chg_comp chgL chg -> map_comp mapL mp ->
  starts_in "@H+-:" (stL ++ hL ++ chgL ++ mapL) = true.
Proof.
  intros Hs Hh Hc Hm. destruct Hs; try reflexivity.
  cbn [app]. apply (starts_in_weaken "H+-:"); [exact sub_h_tail | exact (tail_after_h _ _ _ _ _ _ Hh Hc Hm)].
Qed.

Lemma finish_eq iso el st h chg mp c :
  (match chg with None => Some 0 | Some cs => sget1 charge_dict (string_of_list_ascii cs) end) = Some c ->
  finish iso el st h chg mp = Ok (parsed_of el iso st h c mp).
Proof.
  intros H. unfold finish, parsed_of. rewrite H. cbv zeta.
  destruct (smem (string_of_list_ascii el) aromatic_bracket_symbols); reflexivity.
Qed.

(* the last two stages and the table lookups *)
Lemma parse_chg_map symL iso st h chgL chg mapL mp : chg_comp chgL chg -> map_comp mapL mp ->
  (let '(c, l5) := chg_stage (chgL ++ mapL) in
   match map_stage l5 with
   | None => Err IncorrectSmiles
   | Some mapping => finish iso symL st h c mapping
   end) = Ok (parsed_of symL iso st h chg mp).
Proof.
  intros Hc Hm.
  assert (Hmap : map_stage mapL = Some mp).
  { destruct Hm; [reflexivity | apply map_stage_some; assumption]. }
  pose proof (map_comp_starts _ _ Hm) as Hms.
  apply chg_comp_cases in Hc. destruct Hc as [[-> ->] | [[s [-> [Hs Hd]]] | [s [d [-> [Hs [Hd Hl]]]]]]]; cbn [app].
  - rewrite chg_stage_none by (apply (starts_in_hd_not ":"); [exact cls_m_not_sign | exact Hms]).
    rewrite Hmap. apply finish_eq. reflexivity.
  - rewrite chg_stage_one; [| exact Hs | apply (starts_in_hd_not ":"); [exact cls_m_not_chg2 | exact Hms]].
    rewrite Hmap. apply finish_eq. exact Hd.
  - rewrite chg_stage_two by assumption. rewrite Hmap. apply finish_eq. exact Hl.
Qed.

Theorem parse_components : forall isoL iso symL stL st hL h chgL chg mapL mp,
  iso_comp isoL iso -> sym_comp symL -> st_comp stL st -> h_comp hL h -> chg_comp chgL chg -> map_comp mapL mp ->
  atom_parse_chars (isoL ++ symL ++ stL ++ hL ++ chgL ++ mapL) = Ok (parsed_of symL iso st h chg mp).
Proof.
  intros isoL iso symL stL st hL h chgL chg mapL mp Hi Hy Hs Hh Hc Hm.
  rewrite atom_parse2_eq. unfold atom_parse2.
  pose proof (tail_after_st _ _ _ _ _ _ _ _ Hs Hh Hc Hm) as T1.
  pose proof (tail_after_h _ _ _ _ _ _ Hh Hc Hm) as T2.
  pose proof (tail_after_chg _ _ _ _ Hc Hm) as T3.
  (* isotope *)
  assert (Hiso : iso_stage (isoL ++ symL ++ stL ++ hL ++ chgL ++ mapL) = (iso, symL ++ stL ++ hL ++ chgL ++ mapL)).
  { destruct Hi as [|c d Hc1 Hd Hk].
    - cbn [app]. apply iso_stage_none. destruct Hy as [c Hf | c c2 Hf _]; cbn; rewrite (first_not_19 _ Hf); reflexivity.
    - cbn [app]. apply iso_stage_some; try assumption.
      destruct Hy as [x Hf | x c2 Hf _]; cbn; rewrite (first_not_digit _ Hf); reflexivity. }
  rewrite Hiso.
  (* element *)
  assert (Hel : exists c r, symL ++ stL ++ hL ++ chgL ++ mapL = c :: r /\ elem_first c = true /\
                            el_stage c r = (symL, stL ++ hL ++ chgL ++ mapL)).
  { destruct Hy as [c Hf | c c2 Hf Hs2].
    - exists c, (stL ++ hL ++ chgL ++ mapL). repeat split; [exact Hf|].
      apply el_stage_one. apply (starts_in_hd_not "@H+-:"); [exact cls_tail_not_second | exact T1].
    - exists c, (c2 :: stL ++ hL ++ chgL ++ mapL). repeat split; [exact Hf|]. apply el_stage_two. exact Hs2. }
  destruct Hel as [c [r [Hcr [Hf Hel]]]]. rewrite Hcr. rewrite Hf. cbn [negb]. rewrite Hel.
  (* stereo *)
  assert (Hst : st_stage (stL ++ hL ++ chgL ++ mapL) = (st, hL ++ chgL ++ mapL)).
  { assert (Hn : hd_not (fun c => Ascii.eqb c "@") (hL ++ chgL ++ mapL) = true)
      by (apply (starts_in_hd_not "H+-:"); [exact cls_h_not_at | exact T2]).
    destruct Hs; cbn [app]; [apply st_stage_none | apply st_stage_one | apply st_stage_two]; exact Hn. }
  rewrite Hst.
  (* hydrogens *)
  assert (Hhs : h_stage (hL ++ chgL ++ mapL) = (h, chgL ++ mapL)).
  { destruct Hh as [| | d Hd]; cbn [app].
    - apply h_stage_none. apply (starts_in_hd_not "+-:"); [exact cls_c_not_H | exact T3].
    - apply h_stage_one. apply (starts_in_hd_not "+-:"); [exact cls_c_not_14 | exact T3].
    - apply h_stage_n. exact Hd. }
  rewrite Hhs.
  (* charge, map, tables *)
  apply (parse_chg_map symL iso st h chgL chg mapL mp Hc Hm).
Qed.

(* ------------------------------------------------------------------------------------------------ the writer's side *)
Lemma list_ascii_app a b : list_ascii_of_string (a ++ b) = (list_ascii_of_string a ++ list_ascii_of_string b)%list.
Proof. induction a as [|c a IH]; cbn; [reflexivity | rewrite IH; reflexivity]. Qed.

(* isotopes 1..999 and atom maps 0..9999 as str() writes them *)
Definition iso_chars_ok (i : Z) : bool :=
  match list_ascii_of_string (str_Z i) with
  | c :: d => in_range c "1" "9" && forallb is_digit d && Nat.leb (List.length d) 2 && (int_of_digits (c :: d) =? i)
  | [] => false
  end.
Lemma iso_chars_sweep : forallb iso_chars_ok (zrange 1 1000) = true.
Proof. vm_compute. reflexivity. Qed.

Definition map_chars_ok (n : Z) : bool :=
  let d := list_ascii_of_string (str_Z n) in
  forallb is_digit d && Nat.leb 1 (List.length d) && Nat.leb (List.length d) 4 && (int_of_digits d =? n).
Lemma map_chars_sweep : forallb map_chars_ok (zrange 0 10000) = true.
Proof. vm_compute. reflexivity. Qed.

Lemma iso_comp_str i : 1 <= i <= 999 -> iso_comp (list_ascii_of_string (str_Z i)) (Some i).
Proof.
  intros Hi. pose proof iso_chars_sweep as H. rewrite forallb_forall in H.
  assert (Hin : In i (zrange 1 1000)) by (apply zrange_In; lia).
  specialize (H i Hin). unfold iso_chars_ok in H.
  destruct (list_ascii_of_string (str_Z i)) as [|c d]; [discriminate|].
  apply andb_true_iff in H. destruct H as [H H0]. apply andb_true_iff in H. destruct H as [H H1].
  apply andb_true_iff in H. destruct H as [H H2].
  apply Z.eqb_eq in H0. rewrite <- H0. apply IsoSome; try assumption. apply Nat.leb_le. assumption.
Qed.

Lemma map_comp_str n : 0 <= n <= 9999 ->
  map_comp (list_ascii_of_string (String ":"%char (str_Z n))) (Some n).
Proof.
  intros Hn. pose proof map_chars_sweep as H. rewrite forallb_forall in H.
  assert (Hin : In n (zrange 0 10000)) by (apply zrange_In; lia).
  specialize (H n Hin). unfold map_chars_ok in H. cbn [list_ascii_of_string].
  set (d := list_ascii_of_string (str_Z n)) in *. cbv zeta in H.
  apply andb_true_iff in H. destruct H as [H H0]. apply andb_true_iff in H. destruct H as [H H1].
  apply andb_true_iff in H. destruct H as [H H2].
  apply Z.eqb_eq in H0. rewrite <- H0. apply MapSome; [assumption|].
  apply Nat.leb_le in H2. lia.
Qed.

(* hydrogen counts 0..4 as h_str writes them *)
Lemma h_comp_str x : 0 <= x <= 4 -> h_comp (list_ascii_of_string (h_str (Some x))) x.
Proof.
  intros Hx. assert (Hc : x = 0 \/ x = 1 \/ x = 2 \/ x = 3 \/ x = 4) by lia.
  destruct Hc as [-> | [-> | [-> | [-> | ->]]]].
  - apply HNone.
  - apply HOne.
  - apply (HN "2"%char). reflexivity.
  - apply (HN "3"%char). reflexivity.
  - apply (HN "4"%char). reflexivity.
Qed.

(* element symbols *)
Definition sym_chars_ok (s : string) : bool :=
  match list_ascii_of_string s with
  | [c] => elem_first c
  | [c; c2] => elem_first c && elem_second c2
  | _ => false
  end.
Definition elem_sym_ok (e : elem) : bool :=
  sym_chars_ok (e_sym e) && negb (smem (e_sym e) aromatic_bracket_symbols) &&
  (if smem (lower_string (e_sym e)) aromatic_bracket_symbols
   then sym_chars_ok (lower_string (e_sym e)) && String.eqb (capitalize (lower_string (e_sym e))) (e_sym e)
   else true).
Lemma elem_sym_sweep : forallb elem_sym_ok elements = true.
Proof. vm_compute. reflexivity. Qed.

Lemma sym_comp_of s : sym_chars_ok s = true -> sym_comp (list_ascii_of_string s).
Proof.
  unfold sym_chars_ok. destruct (list_ascii_of_string s) as [|c [|c2 [|]]]; try discriminate.
  - intros H. apply SymOne. exact H.
  - intros H. apply andb_true_iff in H. destruct H. apply SymTwo; assumption.
Qed.

Lemma sapp_assoc (a b c : string) : ((a ++ b) ++ c)%string = (a ++ (b ++ c))%string.
Proof. induction a as [|x a IH]; cbn; [reflexivity | rewrite IH; reflexivity]. Qed.

Lemma string_of_list_of_string s : string_of_list_ascii (list_ascii_of_string s) = s.
Proof. induction s as [|c s IH]; cbn; [reflexivity | rewrite IH; reflexivity]. Qed.

(* the fields of a bracket atom, as values *)
Definition iso_str (iso : option Z) : string :=
  match iso with Some i => if i =? 0 then EmptyString else str_Z i | None => EmptyString end.
Definition iso_val (iso : option Z) : option Z :=
  match iso with Some i => if i =? 0 then None else Some i | None => None end.
Definition st_str (st : option bool) : string :=
  match st with None => EmptyString | Some true => "@"%string | Some false => "@@"%string end.
Definition h_val (h : option Z) : Z := match h with Some x => x | None => 0 end.
Definition chg_str (c : Z) : string := if c =? 0 then EmptyString else match zget charge_str c with Some s => s | None => EmptyString end.
Definition map_str (mp : option Z) : string := match mp with Some n => String ":"%char (str_Z n) | None => EmptyString end.

Definition atom_body (iso : option Z) (sym : string) (st : option bool) (h : option Z) (chg : Z) (mp : option Z) : string :=
  scat [iso_str iso; sym; st_str st; h_str h; chg_str chg; map_str mp].

Definition iso_in_range (iso : option Z) : Prop := match iso with Some i => 0 <= i <= 999 | None => True end.
Definition h_in_range (h : option Z) : Prop := match h with Some x => 0 <= x <= 4 | None => True end.
Definition map_in_range (mp : option Z) : Prop := match mp with Some n => 0 <= n <= 9999 | None => True end.

(* every combination of fields in the ranges the reader's pattern allows, for every element symbol (upper case, or the
   lower-case aromatic form of one of the nine aromatic symbols): the body is parsed back into the same fields *)
Theorem atom_body_roundtrip : forall e (arom : bool) iso st h chg mp,
  In e elements -> (arom = true -> smem (lower_string (e_sym e)) aromatic_bracket_symbols = true) ->
  iso_in_range iso -> h_in_range h -> -4 <= chg <= 4 -> map_in_range mp ->
  atom_parse (atom_body iso (if arom then lower_string (e_sym e) else e_sym e) st h chg mp) =
  Ok (mkParsed (if arom then 8 else 0) (e_sym e) (iso_val iso) mp chg (h_val h) st).
Proof.
  intros e arom iso st h chg mp He Ha Hi Hh Hc Hm.
  pose proof elem_sym_sweep as Hsw. rewrite forallb_forall in Hsw. specialize (Hsw e He).
  unfold elem_sym_ok in Hsw. apply andb_true_iff in Hsw. destruct Hsw as [Hsw Hlow].
  apply andb_true_iff in Hsw. destruct Hsw as [Hup Hnar]. apply negb_true_iff in Hnar.
  unfold atom_parse, atom_body, scat. cbn [String.concat].
  repeat rewrite list_ascii_app. cbn [list_ascii_of_string app].
  set (sym := if arom then lower_string (e_sym e) else e_sym e).
  assert (Hiso : iso_comp (list_ascii_of_string (iso_str iso)) (iso_val iso)).
  { destruct iso as [i|]; [|apply IsoNone]. cbn in Hi. unfold iso_str, iso_val.
    destruct (i =? 0) eqn:E; [apply IsoNone|]. apply Z.eqb_neq in E. apply iso_comp_str. lia. }
  assert (Hsym : sym_comp (list_ascii_of_string sym) /\
                 parsed_of (list_ascii_of_string sym) (iso_val iso) st (h_val h) chg mp =
                 mkParsed (if arom then 8 else 0) (e_sym e) (iso_val iso) mp chg (h_val h) st).
  { unfold sym, parsed_of. rewrite string_of_list_of_string. destruct arom.
    - specialize (Ha eq_refl). rewrite Ha in Hlow. apply andb_true_iff in Hlow. destruct Hlow as [Hl Hcap].
      split; [apply sym_comp_of; exact Hl|]. rewrite Ha. apply String.eqb_eq in Hcap. rewrite Hcap. reflexivity.
    - split; [apply sym_comp_of; exact Hup|]. rewrite Hnar. reflexivity. }
  destruct Hsym as [Hsym Hres].
  assert (Hst : st_comp (list_ascii_of_string (st_str st)) st).
  { destruct st as [[|]|]; [apply StOne | apply StTwo | apply StNone]. }
  assert (Hhc : h_comp (list_ascii_of_string (h_str h)) (h_val h)).
  { destruct h as [x|]; [apply h_comp_str; exact Hh | apply HNone]. }
  assert (Hcc : chg_comp (list_ascii_of_string (chg_str chg)) chg).
  { unfold chg_str. destruct (chg =? 0) eqn:E; [apply Z.eqb_eq in E; subst; apply ChgNone|].
    apply Z.eqb_neq in E. destruct (charge_tables_agree chg Hc E) as [s [Hs _]]. rewrite Hs. apply ChgSome; assumption. }
  assert (Hmc : map_comp (list_ascii_of_string (map_str mp)) mp).
  { destruct mp as [n|]; [apply map_comp_str; exact Hm | apply MapNone]. }
  rewrite <- Hres.
  apply (parse_components _ _ _ _ _ _ _ _ _ _ _ Hiso Hsym Hst Hhc Hcc Hmc).
Qed.

(* ---- _format_atom: the token it writes in brackets is such a body, built from the atom's own fields ---- *)
Definition mark_val (s : string) : option (option bool) :=
  if String.eqb s "" then Some None else if String.eqb s "@" then Some (Some true)
  else if String.eqb s "@@" then Some (Some false) else None.

Lemma stereo_mark_values g o tabs n adj a s : stereo_mark g o tabs n adj a = Ok s ->
  s = EmptyString \/ s = "@"%string \/ s = "@@"%string.
Proof.
  unfold stereo_mark. intros H.
  repeat match type of H with
  | Ok _ = Ok _ => inversion H; clear H
  | Err _ = Ok _ => discriminate H
  | (match ?x with _ => _ end) = _ => destruct x
  | (if ?x then _ else _) = _ => destruct x
  | (let '(_, _) := ?x in _) = _ => destruct x
  end; subst;
  repeat match goal with |- context [if ?b then _ else _] => destruct b end; auto.
Qed.

Definition st_of_mark (s : string) : option bool :=
  if String.eqb s "@" then Some true else if String.eqb s "@@" then Some false else None.

(* the statement for the writer: when atom_fields decides to write atom n in brackets, the text between the brackets is
   parsed back into: the element of the atom (aromatic form iff it was written in lower case), its isotope, its charge
   (0 with !z), its hydrogen count (0 when undetermined), the stereo mark written, and its number as atom map with `m`.
   Hypotheses = the ranges of the reader's pattern; [arom_ok] excludes the recorded defect (lower-case spelling of an
   element the reader has no aromatic symbol for), [n <= 9999] the other one. *)
Theorem atom_token_roundtrip : forall g o tabs n adj a f e,
  atom_of g n = Some a -> atom_fields g o tabs n adj = Ok f -> af_br f = true ->
  In e elements -> from_number (a_num a) = Some e ->
  (o_aromatic o = true -> hybridization g n = 4 -> smem (lower_string (e_sym e)) aromatic_bracket_symbols = true) ->
  iso_in_range (a_iso a) -> h_in_range (a_h a) -> (o_mapping o = true -> 0 <= n <= 9999) ->
  spell_atom f = scat ["["%string; scat [af_iso f; af_sym f; af_st f; af_h f; af_chg f; af_map f]; "]"%string] /\
  atom_parse (scat [af_iso f; af_sym f; af_st f; af_h f; af_chg f; af_map f]) =
  Ok (mkParsed (if o_aromatic o && (hybridization g n =? 4) then 8 else 0) (e_sym e) (iso_val (a_iso a))
               (if o_mapping o then Some n else None)
               (if o_charges o then a_chg a else 0)
               (if String.eqb (af_h f) "" then 0 else h_val (a_h a))
               (st_of_mark (af_st f))).
Proof.
  intros g o tabs n adj a f e Ha Hf Hbr He Hnum Harom Hiso Hh Hmap.
  unfold atom_fields in Hf. rewrite Ha in Hf. unfold symbol_of_num in Hf. rewrite Hnum in Hf. cbn [option_map] in Hf.
  destruct (stereo_mark g o tabs n adj a) as [st|] eqn:Est; [|discriminate].
  pose proof (stereo_mark_values _ _ _ _ _ _ _ Est) as Hst.
  set (chgr := if negb (a_chg a =? 0) && o_charges o
               then match zget charge_str (a_chg a) with Some s => Ok s | None => Err KeyError end
               else Ok EmptyString) in Hf.
  destruct chgr as [chg|] eqn:Echg; [|discriminate]. subst chgr.
  inversion Hf as [Hf']. clear Hf. subst f. cbn [af_br af_iso af_sym af_st af_h af_chg af_map] in *.
  split.
  { unfold spell_atom. cbn [af_br af_iso af_sym af_st af_h af_chg af_map]. rewrite Hbr.
    unfold scat. cbn [String.concat]. cbn [String.append]. repeat rewrite sapp_assoc. reflexivity. }
  (* the charge written *)
  set (cv := if o_charges o then a_chg a else 0).
  assert (Hchg : chg = chg_str cv /\ -4 <= cv <= 4).
  { unfold cv, chg_str. destruct (a_chg a =? 0) eqn:E0; cbn [negb andb] in Echg.
    - inversion Echg. apply Z.eqb_eq in E0. rewrite E0. destruct (o_charges o); cbn; split; try reflexivity; lia.
    - destruct (o_charges o); cbn [andb] in Echg.
      + rewrite E0. destruct (zget charge_str (a_chg a)) as [s|] eqn:Es; [|discriminate]. inversion Echg. split; [reflexivity|].
        (* the keys of charge_str *)
        unfold charge_str in Es. cbn [zget] in Es.
        repeat match type of Es with
        | (if ?x =? ?k then _ else _) = _ => let E := fresh "E" in destruct (x =? k) eqn:E; [apply Z.eqb_eq in E; lia|]
        end. discriminate.
      + inversion Echg. cbn. split; [reflexivity | lia]. }
  destruct Hchg as [Hchg Hcr]. subst chg.
  (* the hydrogens written: h_str (a_h a) or nothing *)
  set (hw := snd _) in *.
  assert (Hhw : hw = h_str (if String.eqb hw "" then None else a_h a) /\
                h_in_range (if String.eqb hw "" then None else a_h a)).
  { unfold hw.
    repeat match goal with |- context [if ?c then (true, ?x) else _] => destruct c; cbn [snd] end;
    try (split; [|cbn; exact I]; reflexivity);
    (destruct (String.eqb (h_str (a_h a)) "") eqn:E; [apply String.eqb_eq in E; rewrite E; split; [reflexivity | exact I] | split; [reflexivity | exact Hh]]). }
  destruct Hhw as [Hhw Hhr].
  (* the mapping *)
  set (mp := if o_mapping o then Some n else None).
  assert (Hmp : (if o_mapping o then String ":"%char (str_Z n) else EmptyString) = map_str mp /\ map_in_range mp).
  { unfold mp. destruct (o_mapping o); cbn; split; try reflexivity; auto. }
  destruct Hmp as [Hmp Hmr]. rewrite Hmp.
  (* the stereo mark *)
  assert (Hstv : st = st_str (st_of_mark st)).
  { destruct Hst as [-> | [-> | ->]]; reflexivity. }
  rewrite Hstv at 1. rewrite Hhw at 1.
  (* symbol *)
  set (ar := o_aromatic o && (hybridization g n =? 4)).
  assert (Har : ar = true -> smem (lower_string (e_sym e)) aromatic_bracket_symbols = true).
  { unfold ar. intros H. apply andb_true_iff in H. destruct H as [H1 H2]. apply Z.eqb_eq in H2. apply Harom; assumption. }
  pose proof (atom_body_roundtrip e ar (a_iso a) (st_of_mark st) (if String.eqb hw "" then None else a_h a) cv mp
                He Har Hiso Hhr Hcr Hmr) as R.
  unfold atom_body in R. unfold iso_str in R.
  replace (h_val (if String.eqb hw "" then None else a_h a)) with (if String.eqb hw "" then 0 else h_val (a_h a)) in R
    by (destruct (String.eqb hw ""); reflexivity).
  exact R.
Qed.

(* the two recorded defects, as facts about the reader's matcher *)
Definition foreign_lower (e : elem) : bool :=
  match atom_parse (lower_string (e_sym e)) with
  | Ok p => match from_symbol (p_elem p) with None => true | Some _ => false end
  | Err _ => false
  end.
Lemma aromatic_foreign_symbol_unreadable :
  exists e p, In e elements /\ atom_parse (lower_string (e_sym e)) = Ok p /\ from_symbol (p_elem p) = None.
Proof.
  assert (H : existsb foreign_lower elements = true) by (vm_compute; reflexivity).
  apply existsb_exists in H. destruct H as [e [He Hf]]. unfold foreign_lower in Hf.
  destruct (atom_parse (lower_string (e_sym e))) as [p|] eqn:E; [|discriminate].
  destruct (from_symbol (p_elem p)) eqn:E2; [discriminate|].
  exists e, p. repeat split; assumption.
Qed.

(* since fix 6e5bd93 the atom-map group takes any number of digits *)
Lemma atom_map_long : atom_parse "CH3:10000" = Ok (mkParsed 0 "C" None (Some 10000) 0 3 None) /\
                      atom_parse "CH3:123456789012" = Ok (mkParsed 0 "C" None (Some 123456789012) 0 3 None).
Proof. split; vm_compute; reflexivity. Qed.

(* non-vacuity: a bracket atom with every field set, written by the model and parsed back *)
Lemma atom_token_example :
  let g := mkMol [(7, mkAtom 6 (Some 13) (-1) false (Some 2) None)] [(7, [])] in
  atom_fields g (opts_of_spec "m") no_stabs 7 [(7, [])] =
    Ok (mkAF true "13" "C" "" "H2" "-" ":7") /\
  atom_parse "13CH2-:7" = Ok (mkParsed 0 "C" (Some 13) (Some 7) (-1) 2 None).
Proof. split; vm_compute; reflexivity. Qed.
