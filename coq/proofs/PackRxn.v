(* C10: reaction packs.  ReactionContainer.pack concatenates the molecule packs behind a 4-byte header; unpack walks them
   using the consumed length every molecule unpack reports, then splits the roles by the three counts. *)
From Coq Require Import ZArith List Bool Lia ZifyBool.
From Model Require Import PyBase Pack PackSpec.
From Proofs Require Import PackBits PackRoundtrip PackRoundtripGraph PackRoundtripMol PackProofs.
Import ListNotations.
Open Scope Z_scope.

Lemma skipn_prefix {A} (pre l : list A) : skipn (Z.to_nat (Z.of_nat (length pre))) (pre ++ l) = l.
Proof. rewrite Nat2Z.id, skipn_app, skipn_all, Nat.sub_diag. reflexivity. Qed.

Definition unpacked_full (m : pmol) : unpacked := unpacked_of m (Z.of_nat (length (pack_layout m))).

Lemma rxn_unpack_mols_spec : forall ms pre suf, Forall (fun m => pack_ok m = true) ms ->
  rxn_unpack_mols (length ms) (pre ++ concat (map pack_layout ms) ++ suf) (Z.of_nat (length pre))
  = Ok (map unpacked_full ms).
Proof.
  induction ms as [|m r IH]; intros pre suf H; [reflexivity|].
  inversion H as [|? ? Hm Hr]; subst.
  cbn [length rxn_unpack_mols map concat]. rewrite skipn_prefix. rewrite <- app_assoc.
  rewrite (unpack_layout m _ Hm). unfold unpack_expected. cbn [up_size].
  replace (Z.of_nat (length pre) + Z.of_nat (length (pack_layout m))) with (Z.of_nat (length (pre ++ pack_layout m)))
    by (rewrite app_length; lia).
  rewrite (app_assoc pre). rewrite IH by exact Hr. reflexivity.
Qed.

Lemma packs_are_layouts : forall ms ps, Forall (fun m => pack_ok m = true) ms -> map pack ms = map (@Ok _) ps ->
  ps = map pack_layout ms.
Proof.
  induction ms as [|m r IH]; intros [|p ps] H E; cbn [map] in *; try discriminate; [reflexivity|].
  inversion H as [|? ? Hm Hr]; subst. injection E as E1 E2. rewrite (pack_blocks m Hm) in E1. injection E1 as E1.
  subst p. f_equal. apply IH; assumption.
Qed.

Lemma unpacked_full_size m : pack_ok m = true -> unpacked_full m = unpacked_of m (pack_size m).
Proof. intros H. unfold unpacked_full. rewrite (pack_size_layout m H). reflexivity. Qed.

Lemma map_unpacked_full ms : Forall (fun m => pack_ok m = true) ms ->
  map unpacked_full ms = map (fun m => unpacked_of m (pack_size m)) ms.
Proof.
  induction 1 as [|m r Hm Hr IH]; [reflexivity|]. cbn [map]. rewrite IH, (unpacked_full_size m Hm). reflexivity.
Qed.

(* REACTION ROUND TRIP for ALL role sizes 0..255 (empty sides included): packing the molecule packs of the three roles
   and unpacking returns, role by role and in order, what the molecule level unpack returns for each molecule *)
Theorem rxn_roundtrip (rs ags ps : list pmol) (prs pas pps : list (list Z)) :
  Forall (fun m => pack_ok m = true) rs -> Forall (fun m => pack_ok m = true) ags -> Forall (fun m => pack_ok m = true) ps ->
  map pack rs = map (@Ok _) prs -> map pack ags = map (@Ok _) pas -> map pack ps = map (@Ok _) pps ->
  (length rs <= 255)%nat -> (length ags <= 255)%nat -> (length ps <= 255)%nat ->
  exists bytes, rxn_pack prs pas pps = Ok bytes /\
    rxn_unpack bytes = Ok (map (fun m => unpacked_of m (pack_size m)) rs, map (fun m => unpacked_of m (pack_size m)) ags,
                           map (fun m => unpacked_of m (pack_size m)) ps).
Proof.
  intros Hr Ha Hp Er Ea Ep Lr La Lp.
  apply (packs_are_layouts _ _ Hr) in Er. apply (packs_are_layouts _ _ Ha) in Ea. apply (packs_are_layouts _ _ Hp) in Ep.
  subst prs pas pps. unfold rxn_pack. rewrite !map_length.
  destruct ((255 <? Z.of_nat (length rs)) || (255 <? Z.of_nat (length ags)) || (255 <? Z.of_nat (length ps))) eqn:E; [lia|].
  eexists. split; [reflexivity|].
  set (hdr := [1; Z.of_nat (length rs); Z.of_nat (length ags); Z.of_nat (length ps)]).
  unfold rxn_unpack.
  change (getb (hdr ++ _) 0) with (Some 1). change (getb (hdr ++ _) 1) with (Some (Z.of_nat (length rs))).
  change (getb (hdr ++ _) 2) with (Some (Z.of_nat (length ags))). change (getb (hdr ++ _) 3) with (Some (Z.of_nat (length ps))).
  cbn [Z.eqb Pos.eqb negb].
  assert (Hall : Forall (fun m => pack_ok m = true) (rs ++ ags ++ ps)) by (rewrite !Forall_app; auto).
  pose proof (rxn_unpack_mols_spec (rs ++ ags ++ ps) hdr [] Hall) as W.
  rewrite !map_app, !concat_app, app_nil_r in W. rewrite !app_length in W.
  replace (Z.to_nat (Z.of_nat (length rs) + Z.of_nat (length ags) + Z.of_nat (length ps)))
    with (length rs + (length ags + length ps))%nat by lia.
  change (Z.of_nat (length hdr)) with 4 in W. rewrite W.
  rewrite <- (map_length unpacked_full rs) at 1. rewrite <- (map_length unpacked_full ags) at 1.
  rewrite <- (map_length unpacked_full ps) at 1. rewrite rxn_split_correct.
  rewrite !map_unpacked_full by assumption. reflexivity.
Qed.

(* bytearray((1, r, a, p)) raises ValueError when a role has more than 255 molecules *)
Theorem rxn_pack_limit prs pas pps : (255 < length prs \/ 255 < length pas \/ 255 < length pps)%nat ->
  rxn_pack prs pas pps = Err ValueError.
Proof.
  intros H. unfold rxn_pack.
  destruct ((255 <? Z.of_nat (length prs)) || (255 <? Z.of_nat (length pas)) || (255 <? Z.of_nat (length pps))) eqn:E; [reflexivity | lia].
Qed.
