(* C17, second extension round (2): morgan_hash_smiles / morgan_smiles_hash.  What the dictionaries hold; the ball of
   augmented_substructure is the set of atoms within r bonds; and: IF the canonical string of a substructure does not depend
   on the atom numbering (the C01 property), THEN morgan_hash_smiles / morgan_smiles_hash do not either (literally equal
   dictionaries).  The known finding of C17 on morgan_hash_smiles is therefore exactly the gap of C01. *)
From Coq Require Import String ZArith List Bool Lia Permutation.
From Model Require Import PyBase Graph PyHash Fingerprint LinearSmiles MorganSmiles.
From Proofs Require Import FingerprintProofs MorganNbhd LinearSmilesProofs.
Import ListNotations.
Open Scope Z_scope.

(* ---- the ball ---- *)
Lemma dedup_z_acc_In seen l x : In x (dedup_z_acc seen l) <-> In x l /\ ~ In x seen.
Proof.
  revert seen. induction l as [|y r IH]; intro seen; cbn [dedup_z_acc]; [cbn; tauto|].
  destruct (zmem y seen) eqn:E.
  - apply zmem_In in E. rewrite IH. cbn [In]. split; [tauto|]. intros [[->|H] Hn]; [contradiction | tauto].
  - assert (Hn : ~ In y seen) by (intro H; apply zmem_In in H; congruence).
    cbn [In]. rewrite IH. cbn [In]. split.
    + intros [->|[H1 H2]]; [tauto|]. split; [tauto|]. intro H. apply H2. right. exact H.
    + intros [[->|H1] H2]; [left; reflexivity|]. destruct (Z.eq_dec y x) as [->|Hne]; [left; reflexivity|].
      right. split; [exact H1|]. intros [H|H]; [contradiction | contradiction].
Qed.

Lemma expand_In g l x : In x (expand g l) <-> In x l \/ exists y, In y l /\ edge g y x.
Proof.
  unfold expand. rewrite dedup_z_acc_In, in_app_iff, in_flat_map. unfold edge. cbn. tauto.
Qed.

Lemma within_prepend g a b k x : edge g a b -> within g b k x -> within g a (S k) x.
Proof.
  intros He H. induction H as [|k x y _ IH Hxy|k x _ IH].
  - apply (within_step g a 0 a b); [constructor | exact He].
  - apply (within_step g a (S k) x y); assumption.
  - apply within_mono. exact IH.
Qed.

Lemma within_first g a k : forall x, within g a (S k) x -> exists b, (b = a \/ edge g a b) /\ within g b k x.
Proof.
  induction k as [|k IH]; intros x H; inversion H; subst.
  - match goal with Hw : within g a 0 _ |- _ => inversion Hw; subst end. exists x. split; [right; assumption | constructor].
  - match goal with Hw : within g a 0 _ |- _ => inversion Hw; subst end. exists x. split; [left; reflexivity | constructor].
  - match goal with Hw : within g a (S k) ?z, He : edge g ?z x |- _ => destruct (IH z Hw) as [b [Hb Hwb]]; exists b; split; [exact Hb|];
      apply (within_step g b k z x); assumption end.
  - match goal with Hw : within g a (S k) x |- _ => destruct (IH x Hw) as [b [Hb Hwb]]; exists b; split; [exact Hb | apply within_mono; exact Hwb] end.
Qed.

Lemma ball_from_within g r : forall l x, In x (ball_from g r l) <-> exists a, In a l /\ within g a r x.
Proof.
  induction r as [|r IH]; intros l x; cbn [ball_from].
  - split; [intro H; exists x; split; [exact H | constructor]|]. intros [a [Ha Hw]]. inversion Hw; subst. exact Ha.
  - rewrite IH. split.
    + intros [b [Hb Hw]]. apply expand_In in Hb. destruct Hb as [Hb|[y [Hy He]]].
      * exists b. split; [exact Hb | apply within_mono; exact Hw].
      * exists y. split; [exact Hy | apply (within_prepend g y b); assumption].
    + intros [a [Ha Hw]]. destruct (within_first g a r x Hw) as [b [[->|He] Hwb]].
      * exists a. split; [apply expand_In; left; exact Ha | exact Hwb].
      * exists b. split; [apply expand_In; right; exists a; auto | exact Hwb].
Qed.

(* the atom set of augmented_substructure((a,), r): the atoms reachable from a by at most r bonds *)
Theorem ball_within g a r x : In x (ball g a r) <-> within g a r x.
Proof.
  unfold ball. rewrite ball_from_within. split; [intros [b [[<-|[]] H]]; exact H | intro H; exists a; cbn; auto].
Qed.

(* ---- what the dictionaries hold ---- *)
Lemma sdict_of_get pairs k str : In str (sget (sdict_of pairs) k) <-> In (k, str) pairs.
Proof.
  unfold sdict_of.
  assert (G : forall d, In str (sget (fold_left (fun d kv => sdict_add d (fst kv) (snd kv)) pairs d) k) <->
                        In str (sget d k) \/ In (k, str) pairs).
  { induction pairs as [|[k0 s0] r IH]; intro d; cbn [fold_left]; [cbn; tauto|].
    rewrite IH, sget_add. cbn [fst snd In]. split.
    - intros [[H|[-> ->]]|H]; auto.
    - intros [H|[H|H]]; auto. inversion H; subst. auto. }
  rewrite G. cbn. tauto.
Qed.

Lemma combine_seq_map {A} (f : nat -> A) n : forall a, combine (seq a n) (map f (seq a n)) = map (fun r => (r, f r)) (seq a n).
Proof. induction n as [|n IH]; intro a; cbn; [reflexivity|]. rewrite IH. reflexivity. Qed.

(* key k holds the canonical string of the radius-r neighbourhood of every atom a whose identifier after r rounds is k,
   for the requested rounds r = min_radius-1 .. max_radius-1 *)
Theorem morgan_hash_smiles_get (h : list Z -> Z) (cs : mol -> list Z -> string) g lo hi :
  match morgan_hash_smiles h cs g lo hi with
  | Err e => e = OtherError /\ (lo < 1 \/ hi < lo)
  | Ok d => 1 <= lo <= hi /\ forall k str,
      In str (sget d k) <->
      exists r a, (Z.to_nat (lo - 1) <= r < Z.to_nat hi)%nat /\ In (a, k) (morgan_level h g r) /\ str = cs g (ball g a r)
  end.
Proof.
  unfold morgan_hash_smiles. rewrite morgan_hash_dict_levels.
  destruct (lo <? 1) eqn:E1; [cbn; split; [reflexivity | apply Z.ltb_lt in E1; lia]|].
  destruct (hi <? lo) eqn:E2; [cbn; split; [reflexivity | apply Z.ltb_lt in E2; lia]|].
  cbn [orb]. apply Z.ltb_ge in E1, E2. split; [lia|]. intros k str. rewrite sdict_of_get.
  unfold mhs_pairs. rewrite map_length, seq_length, combine_seq_map, in_flat_map. split.
  - intros [[r d] [Hrd Hin]]. apply in_map_iff in Hrd. destruct Hrd as [r0 [E Hr]]. inversion E; subst. clear E.
    apply in_seq in Hr. cbn [fst snd] in Hin. unfold mhs_level in Hin. apply in_map_iff in Hin.
    destruct Hin as [[a v] [E Ha]]. cbn [fst snd] in E. inversion E; subst. exists r, a. split; [lia|]. split; [exact Ha | reflexivity].
  - intros [r [a (Hr & Ha & ->)]]. exists (r, morgan_level h g r). split.
    + apply in_map_iff. exists r. split; [reflexivity|]. apply in_seq. lia.
    + cbn [fst snd]. unfold mhs_level. apply in_map_iff. exists (a, k). split; [reflexivity | exact Ha].
Qed.

(* morgan_smiles_hash is the transposed dictionary *)
Lemma strget_append d s k s' x : In x (strget (strdict_append d s k) s') <-> In x (strget d s') \/ (s' = s /\ x = k).
Proof.
  induction d as [|[s0 ks] r IH]; cbn [strdict_append strget].
  - destruct (String.eqb s' s) eqn:E.
    + apply String.eqb_eq in E. subst. cbn. intuition.
    + apply String.eqb_neq in E. cbn. intuition.
  - destruct (String.eqb s s0) eqn:E.
    + apply String.eqb_eq in E. subst s0. cbn [strget]. destruct (String.eqb s' s) eqn:E'.
      * apply String.eqb_eq in E'. subst s'. rewrite in_app_iff. cbn. intuition.
      * apply String.eqb_neq in E'. intuition.
    + cbn [strget]. destruct (String.eqb s' s0) eqn:E'.
      * apply String.eqb_eq in E'. subst s0. apply String.eqb_neq in E. split; [tauto|]. intros [H|[H _]]; [exact H | congruence].
      * exact IH.
Qed.

Theorem smiles_hash_of_get d s k : In k (strget (smiles_hash_of d) s) <-> exists vs, In (k, vs) d /\ In s vs.
Proof.
  unfold smiles_hash_of.
  assert (G : forall out, In k (strget (fold_left (fun out ksl => fold_left (fun out s0 => strdict_append out s0 (fst ksl)) (snd ksl) out) d out) s) <->
                          In k (strget out s) \/ exists vs, In (k, vs) d /\ In s vs).
  { induction d as [|[k0 vs0] r IH]; intro out; cbn [fold_left].
    - split; [tauto|]. intros [H|[vs [[] _]]]. exact H.
    - rewrite IH. cbn [fst snd].
      assert (F : forall l out0, In k (strget (fold_left (fun out1 s0 => strdict_append out1 s0 k0) l out0) s) <->
                                 In k (strget out0 s) \/ (In s l /\ k = k0)).
      { induction l as [|s1 l IHl]; intro out0; cbn [fold_left]; [cbn; tauto|].
        rewrite IHl, strget_append. cbn [In]. intuition; subst; auto. }
      rewrite F. split.
      + intros [[H|[H ->]]|[vs [H1 H2]]]; [left; exact H | right; exists vs0; cbn; auto | right; exists vs; cbn; auto].
      + intros [H|[vs [[E|H1] H2]]]; [tauto | inversion E; subst; tauto | right; exists vs; auto]. }
  rewrite G. cbn. tauto.
Qed.

(* ---- renumbering ---- *)
Definition cs_numbering_independent (cs : mol -> list Z -> string) : Prop :=
  forall (s : Z -> Z), (forall x y, s x = s y -> x = y) -> forall g S S',
    (forall x, In x S' <-> In x (map s S)) -> cs (rename_mol s g) S' = cs g S.

Section SmilesRename.
  Variable s : Z -> Z.
  Hypothesis s_inj : forall x y, s x = s y -> x = y.

  Lemma expand_rename g l l' : (forall x, In x l' <-> In x (map s l)) ->
    forall x, In x (expand (rename_mol s g) l') <-> In x (map s (expand g l)).
  Proof.
    intros H x. rewrite expand_In, in_map_iff. split.
    - intros [Hx|[y' [Hy He]]].
      + apply H in Hx. apply in_map_iff in Hx. destruct Hx as [z [<- Hz]]. exists z. split; [reflexivity | apply expand_In; auto].
      + apply H in Hy. apply in_map_iff in Hy. destruct Hy as [y [<- Hy]].
        unfold edge in He. rewrite (nbr_ids_rename s s_inj) in He. apply in_map_iff in He. destruct He as [z [<- Hz]].
        exists z. split; [reflexivity|]. apply expand_In. right. exists y. auto.
    - intros [z [<- Hz]]. apply expand_In in Hz. destruct Hz as [Hz|[y [Hy He]]].
      + left. apply H. apply in_map. exact Hz.
      + right. exists (s y). split; [apply H; apply in_map; exact Hy|]. apply (edge_rename s s_inj). exact He.
  Qed.

  Lemma ball_from_rename g r : forall l l', (forall x, In x l' <-> In x (map s l)) ->
    forall x, In x (ball_from (rename_mol s g) r l') <-> In x (map s (ball_from g r l)).
  Proof.
    induction r as [|r IH]; intros l l' H x; cbn [ball_from]; [apply H|].
    apply IH. apply expand_rename. exact H.
  Qed.

  Lemma ball_rename g a r x : In x (ball (rename_mol s g) (s a) r) <-> In x (map s (ball g a r)).
  Proof. unfold ball. apply ball_from_rename. intro y. cbn. tauto. Qed.

  Variable h : list Z -> Z.
  Variable cs : mol -> list Z -> string.
  Hypothesis Hcs : cs_numbering_independent cs.

  Lemma mhs_level_rename g r d :
    mhs_level cs (rename_mol s g) r (map (fun e => (s (fst e), snd e)) d) = mhs_level cs g r d.
  Proof.
    unfold mhs_level. rewrite map_map. apply map_ext. intros [a v]. cbn [fst snd]. f_equal.
    apply (Hcs s s_inj). intro x. apply ball_rename.
  Qed.

  Lemma combine_map_r {A B C} (f : B -> C) (l : list A) : forall l', combine l (map f l') = map (fun p => (fst p, f (snd p))) (combine l l').
  Proof. induction l as [|a l IH]; intros [|b l']; cbn; try reflexivity. rewrite IH. reflexivity. Qed.

  (* IF the canonical string is numbering independent THEN the dictionary of the renumbered molecule is the same dictionary *)
  Theorem morgan_hash_smiles_rename g lo hi :
    morgan_hash_smiles h cs (rename_mol s g) lo hi = morgan_hash_smiles h cs g lo hi.
  Proof.
    unfold morgan_hash_smiles. rewrite (morgan_hash_dict_rename h s s_inj).
    destruct (morgan_hash_dict h g lo hi) as [ds|e]; [|reflexivity]. do 2 f_equal.
    unfold mhs_pairs. rewrite map_length, combine_map_r.
    generalize (combine (seq (Z.to_nat (lo - 1)) (length ds)) ds). intro l.
    induction l as [|[r d] l IH]; cbn [map flat_map fst snd]; [reflexivity|].
    rewrite IH, mhs_level_rename. reflexivity.
  Qed.

  Theorem morgan_smiles_hash_rename g lo hi :
    morgan_smiles_hash h cs (rename_mol s g) lo hi = morgan_smiles_hash h cs g lo hi.
  Proof. unfold morgan_smiles_hash. rewrite morgan_hash_smiles_rename. reflexivity. Qed.
End SmilesRename.

(* ---- the witness of the known finding: cis-1,3-cyclobutanediol O[C@H]1C[C@@H](O)C1 and the renumbering 3>4>5>6>3, with the
        canonical strings observed on chython for the two numberings (they differ on the whole molecule: C01's gap) ---- *)
Definition cb_molA : mol := (mkMol [(1, (mkAtom 8 None 0 false (Some 1) None)); (2, (mkAtom 6 None 0 false (Some 1) (Some false))); (3, (mkAtom 6 None 0 false (Some 2) None)); (4, (mkAtom 6 None 0 false (Some 1) (Some false))); (5, (mkAtom 8 None 0 false (Some 1) None)); (6, (mkAtom 6 None 0 false (Some 2) None))] [(1, [(2, (mkBond 1 None))]); (2, [(1, (mkBond 1 None)); (3, (mkBond 1 None)); (6, (mkBond 1 None))]); (3, [(2, (mkBond 1 None)); (4, (mkBond 1 None))]); (4, [(3, (mkBond 1 None)); (5, (mkBond 1 None)); (6, (mkBond 1 None))]); (5, [(4, (mkBond 1 None))]); (6, [(4, (mkBond 1 None)); (2, (mkBond 1 None))])]).
Definition cb_tA : list (list Z * string) := [([1], "O"%string); ([2], "C"%string); ([3], "C"%string); ([4], "C"%string); ([5], "O"%string); ([6], "C"%string); ([1; 2], "CO"%string); ([1; 2; 3; 6], "CC(C)O"%string); ([2; 3; 4], "CCC"%string); ([3; 4; 5; 6], "CC(C)O"%string); ([4; 5], "CO"%string); ([2; 4; 6], "CCC"%string); ([1; 2; 3; 4; 6], "C1CCC1O"%string); ([1; 2; 3; 4; 5; 6], "C1[C@@H](C[C@@H]1O)O"%string); ([2; 3; 4; 5; 6], "C1CCC1O"%string)].
Definition cb_dA : list (Z * list string) := [(3311492739671872531, ["O"%string]); ((-3850700631077715909), ["C"%string]); ((-5079278463555148377), ["CO"%string]); ((-713217080876991613), ["CC(C)O"%string]); ((-5102392395324981228), ["CCC"%string]); ((-8856737390814531826), ["CC(C)O"%string]); ((-889583055491099060), ["C1CCC1O"%string]); ((-4893879860986087186), ["C1[C@@H](C[C@@H]1O)O"%string])].
Definition cb_molB : mol := (mkMol [(1, (mkAtom 8 None 0 false (Some 1) None)); (2, (mkAtom 6 None 0 false (Some 1) (Some false))); (4, (mkAtom 6 None 0 false (Some 2) None)); (5, (mkAtom 6 None 0 false (Some 1) (Some false))); (6, (mkAtom 8 None 0 false (Some 1) None)); (3, (mkAtom 6 None 0 false (Some 2) None))] [(1, [(2, (mkBond 1 None))]); (2, [(1, (mkBond 1 None)); (4, (mkBond 1 None)); (3, (mkBond 1 None))]); (4, [(2, (mkBond 1 None)); (5, (mkBond 1 None))]); (5, [(4, (mkBond 1 None)); (6, (mkBond 1 None)); (3, (mkBond 1 None))]); (6, [(5, (mkBond 1 None))]); (3, [(5, (mkBond 1 None)); (2, (mkBond 1 None))])]).
Definition cb_tB : list (list Z * string) := [([1], "O"%string); ([2], "C"%string); ([4], "C"%string); ([5], "C"%string); ([6], "O"%string); ([3], "C"%string); ([1; 2], "CO"%string); ([1; 2; 3; 4], "CC(C)O"%string); ([2; 4; 5], "CCC"%string); ([3; 4; 5; 6], "CC(C)O"%string); ([5; 6], "CO"%string); ([2; 3; 5], "CCC"%string); ([1; 2; 3; 4; 5], "C1CCC1O"%string); ([1; 2; 3; 4; 5; 6], "C1[C@H](C[C@H]1O)O"%string); ([2; 3; 4; 5; 6], "C1CCC1O"%string)].
Definition cb_dB : list (Z * list string) := [(3311492739671872531, ["O"%string]); ((-3850700631077715909), ["C"%string]); ((-5079278463555148377), ["CO"%string]); ((-713217080876991613), ["CC(C)O"%string]); ((-5102392395324981228), ["CCC"%string]); ((-8856737390814531826), ["CC(C)O"%string]); ((-889583055491099060), ["C1CCC1O"%string]); ((-4893879860986087186), ["C1[C@H](C[C@H]1O)O"%string])].

Definition cb_s (x : Z) : Z := if x =? 3 then 4 else if x =? 4 then 5 else if x =? 5 then 6 else if x =? 6 then 3 else x.
Definition cs_obs (g : mol) (S : list Z) : string :=
  if mol_eqb g cb_molA then cs_lookup cb_tA (set_z S) else cs_lookup cb_tB (set_z S).

Lemma cb_s_inj x y : cb_s x = cb_s y -> x = y.
Proof.
  unfold cb_s. destruct (x =? 3) eqn:X3, (x =? 4) eqn:X4, (x =? 5) eqn:X5, (x =? 6) eqn:X6,
    (y =? 3) eqn:Y3, (y =? 4) eqn:Y4, (y =? 5) eqn:Y5, (y =? 6) eqn:Y6; rewrite ?Z.eqb_eq, ?Z.eqb_neq in *; lia.
Qed.

Lemma morgan_hash_smiles_witness :
  rename_mol cb_s cb_molA = cb_molB /\ wf_mol cb_molA = true /\
  morgan_hash_smiles hash_ztuple cs_obs cb_molA 1 3 = Ok cb_dA /\
  morgan_hash_smiles hash_ztuple cs_obs cb_molB 1 3 = Ok cb_dB /\
  cb_dA <> cb_dB /\ map fst cb_dA = map fst cb_dB /\
  ~ cs_numbering_independent cs_obs /\
  cs_numbering_independent (fun _ _ => "*"%string).
Proof.
  assert (E : rename_mol cb_s cb_molA = cb_molB) by (vm_compute; reflexivity).
  split; [exact E|]. split; [vm_compute; reflexivity|]. split; [vm_compute; reflexivity|]. split; [vm_compute; reflexivity|].
  split; [vm_compute; discriminate|]. split; [vm_compute; reflexivity|]. split.
  - intro H. specialize (H cb_s cb_s_inj cb_molA [1; 2; 3; 4; 5; 6] [1; 2; 3; 4; 5; 6]).
    rewrite E in H. assert (P : forall x, In x [1; 2; 3; 4; 5; 6] <-> In x (map cb_s [1; 2; 3; 4; 5; 6])) by (intro x; vm_compute; tauto).
    specialize (H P). vm_compute in H. discriminate.
  - intros s _ g S S' _. reflexivity.
Qed.
