(* C09 -- the yield block of the .pyx loop, regenerated statement by statement from chython/algorithms/_isomorphism.pyx by
   tools/gen_isoyield.py on every run (Gen.IsoYield.g_yield: a fresh dict, one store per earlier query atom, the store for the popped
   atom), builds exactly mask_mapping of the model - the dictionary that the equivalence theorems compare with the reference one -
   whenever the numbers of the query atoms are distinct (they are dict keys of the query). *)
From Coq Require Import ZArith List Bool Lia.
From Model Require Import PyBase IsoBits IsoBitsPyx IsoBitsDict.
From Gen Require Import IsoYield.
From Proofs Require Import IsoDescendTie.
Import ListNotations.
Open Scope Z_scope.

Lemma zrange_from_snoc : forall k s, zrange_from s (S k) = zrange_from s k ++ [s + Z.of_nat k].
Proof.
  induction k as [|k IH]; intros s; [cbn; f_equal; lia|].
  change (zrange_from s (S (S k))) with (s :: zrange_from (s + 1) (S k)). rewrite IH. cbn [zrange_from app]. do 3 f_equal. lia.
Qed.

Lemma dset_absent : forall m k v, zmem k (map fst m) = false -> dset m k v = m ++ [(k, v)].
Proof.
  induction m as [|[k' v'] m IH]; intros k v H; [reflexivity|].
  cbn [map fst zmem existsb] in H. apply orb_false_iff in H. destruct H as [H1 H2].
  cbn [dset app]. rewrite H1. f_equal. apply IH. exact H2.
Qed.

Lemma combine_snoc {A B} (a : list A) (b : list B) x y : List.length a = List.length b ->
  combine (a ++ [x]) (b ++ [y]) = combine a b ++ [(x, y)].
Proof.
  revert b. induction a as [|a0 a IH]; intros [|b0 b] H; try discriminate; [reflexivity|].
  cbn [app combine]. f_equal. apply IH. cbn in H. lia.
Qed.

Lemma map_fst_combine {A B} (a : list A) (b : list B) : List.length a = List.length b -> map fst (combine a b) = a.
Proof.
  revert b. induction a as [|a0 a IH]; intros [|b0 b] H; try discriminate; [reflexivity|].
  cbn [combine map fst]. f_equal. apply IH. cbn in H. lia.
Qed.

Lemma firstn_S_snoc {A} (d : A) : forall l k, (k < List.length l)%nat -> firstn (S k) l = firstn k l ++ [nth k l d].
Proof.
  induction l as [|x r IH]; intros k H; [cbn in H; lia|].
  destruct k as [|k]; [reflexivity|]. change (firstn (S (S k)) (x :: r)) with (x :: firstn (S k) r).
  rewrite IH by (cbn in H; lia). reflexivity.
Qed.

Lemma zmem_false_notin x l : ~ In x l -> zmem x l = false.
Proof.
  intros H. unfold zmem. destruct (existsb (Z.eqb x) l) eqn:E; [|reflexivity].
  apply existsb_exists in E. destruct E as [y [Hy Hxy]]. apply Z.eqb_eq in Hxy. subst y. contradiction.
Qed.

Section Yield.
  Variables (qu : query_t) (mo : molecule_t) (parr : list Z).
  Let keys := map qa_mapping (qu_atoms qu).
  Let val (i : Z) := ma_mapping (m_atom mo i).
  Let F := fun (mapping : list (Z * Z)) (i : Z) => dset mapping (qa_mapping (q_atom qu i)) (ma_mapping (m_atom mo (aget parr i 0))).

  Lemma key_nth d : (d < List.length (qu_atoms qu))%nat -> qa_mapping (q_atom qu (Z.of_nat d)) = nth d keys 0.
  Proof.
    intros H. unfold q_atom, keys. rewrite znth_of_nat.
    rewrite <- (map_nth qa_mapping). reflexivity.
  Qed.

  Lemma yield_prefix : forall d, (d <= List.length (qu_atoms qu))%nat -> (d <= List.length parr)%nat -> NoDup (firstn d keys) ->
    fold_left F (zrange_from 0 d) [] = combine (firstn d keys) (map val (firstn d parr)).
  Proof.
    induction d as [|d IH]; intros H1 H2 Hn; [reflexivity|].
    assert (Hk : (d < List.length keys)%nat) by (unfold keys; rewrite map_length; lia).
    rewrite (firstn_S_snoc 0 keys d Hk) in Hn |- *.
    rewrite zrange_from_snoc, fold_left_app. cbn [fold_left]. rewrite Z.add_0_l.
    apply NoDup_remove in Hn. rewrite app_nil_r in Hn. destruct Hn as [Hn Hnotin].
    rewrite IH by (try lia; exact Hn). unfold F at 1.
    rewrite (firstn_S_snoc 0 parr d) by lia. rewrite map_app. cbn [map].
    assert (HL : List.length (firstn d keys) = List.length (map val (firstn d parr))).
    { rewrite map_length, !firstn_length. lia. }
    rewrite combine_snoc by exact HL.
    rewrite key_nth by lia. unfold aget. rewrite znth_of_nat.
    apply dset_absent. rewrite map_fst_combine by exact HL. apply zmem_false_notin. exact Hnotin.
  Qed.
End Yield.

Theorem g_yield_is_model qu mo parr path depth n :
  firstn depth parr = firstn depth path -> (depth <= List.length parr)%nat -> (depth <= List.length path)%nat ->
  (depth < List.length (qu_atoms qu))%nat ->
  NoDup (firstn (S depth) (map qa_mapping (qu_atoms qu))) ->
  g_yield qu mo parr (Z.of_nat depth) n = mask_mapping qu mo (firstn depth path ++ [n]).
Proof.
  intros Hp H1 H1' H2 Hn. unfold g_yield, mask_mapping.
  assert (Hk : (depth < List.length (map qa_mapping (qu_atoms qu)))%nat) by (rewrite map_length; lia).
  rewrite (firstn_S_snoc 0 _ depth Hk) in Hn. apply NoDup_remove in Hn. rewrite app_nil_r in Hn. destruct Hn as [Hn Hnotin].
  unfold zrange. rewrite Z.sub_0_r, Nat2Z.id.
  rewrite (yield_prefix qu mo parr depth) by (try lia; exact Hn).
  assert (HL : List.length (firstn depth (map qa_mapping (qu_atoms qu))) =
               List.length (map (fun i => ma_mapping (m_atom mo i)) (firstn depth parr))).
  { rewrite map_length, !firstn_length. lia. }
  rewrite dset_absent.
  2:{ rewrite map_fst_combine by exact HL. apply zmem_false_notin. rewrite key_nth by lia. exact Hnotin. }
  rewrite key_nth by lia. rewrite <- combine_snoc by exact HL.
  rewrite <- (firstn_S_snoc 0 _ depth Hk). rewrite Hp. rewrite map_app. cbn [map].
  (* combine truncates the keys to the length of the path *)
  set (ks := map qa_mapping (qu_atoms qu)) in *. set (vs := map (fun i => ma_mapping (m_atom mo i)) (firstn depth path) ++ [ma_mapping (m_atom mo n)]).
  assert (Hv : List.length vs = S depth).
  { unfold vs. rewrite app_length, map_length, firstn_length. cbn [List.length]. lia. }
  clearbody ks vs. clear - Hv Hk. revert ks vs Hv Hk. induction depth as [|d IH]; intros ks vs Hv Hk.
  - destruct ks as [|k ks]; [cbn in Hk; lia|]. destruct vs as [|v [|v' vs]]; try discriminate. destruct ks; reflexivity.
  - destruct ks as [|k ks]; [cbn in Hk; lia|]. destruct vs as [|v vs]; [discriminate|].
    change (firstn (S (S d)) (k :: ks)) with (k :: firstn (S d) ks). cbn [combine]. f_equal. apply IH; cbn in Hv, Hk; lia.
Qed.

(* non-vacuity: query atoms numbered 5, 3, 9 matched to the atoms at positions 2, 0, 1 of a molecule numbered 10, 20, 30 *)
Example g_yield_example :
  let qu := mkQueryT [mkQA b4zero 0 0 0 0 5; mkQA b4zero 0 0 0 0 3; mkQA b4zero 1 0 0 0 9] [] in
  let mo := mkMolT [mkMA b4zero 0 0 10; mkMA b4zero 0 0 20; mkMA b4zero 0 0 30] [] in
  g_yield qu mo [2; 0] 2 1 = [(5, 30); (3, 10); (9, 20)] /\ mask_mapping qu mo [2; 0; 1] = [(5, 30); (3, 10); (9, 20)].
Proof. vm_compute. split; reflexivity. Qed.
