(* C06 -- extension round 3: the ring marks mean what they say.  For a ring list accepted by the checker:
   an atom is marked in_ring  <->  it lies on a simple cycle of the graph;
   a bond's two ends share a ring of the list  <->  the bond lies on a simple cycle  <->  it is not a bridge
   (its ends stay connected when it is deleted). *)
From Coq Require Import ZArith List Bool Lia Permutation Sorted.
From Model Require Import PyBase Graph Rings RingsFilter RingsGen RingsGenSpec.
From Proofs Require Import RingsProofs RingsMcb RingsRank RingsExt RingsDim RingsFund RingsMin RingsHorton RingsFilterProofs RingsGenProofs.
Import ListNotations.
Open Scope Z_scope.

Lemma sel_parity_witness sel : forall rs e, sel_parity sel rs e = true -> exists r, In r rs /\ ring_has_edge r e = true.
Proof.
  induction sel as [|s sel IH]; intros [|r rs] e H; cbn [sel_parity] in H; try discriminate.
  destruct (s && ring_has_edge r e) eqn:E.
  - apply andb_prop in E. exists r. split; [left; reflexivity | tauto].
  - rewrite xorb_false_l in H. destruct (IH rs e H) as [r0 [H1 H2]]. exists r0. split; [right; exact H1 | exact H2].
Qed.

Lemma adjacent_ne g a b : gwf g -> In b (gnbrs g a) -> a <> b.
Proof. intros W H. apply (proj1 (gwf_gnbrs g)) in W. destruct W as [_ Wg]. destruct (Wg a (adjacent_key g a b H)) as [_ X]. destruct (X b H) as [Ne _]. congruence. Qed.

(* every bond of a cycle of the graph lies in some ring of an accepted list *)
Lemma accepted_covers_cycle_bond g rs c a b : is_cycle_basis g rs = true -> is_cycle g c -> In (a, b) (ring_pairs c) ->
  exists r, In r rs /\ In a r /\ In b r /\ ring_has_edge r (norm_edge (a, b)) = true.
Proof.
  intros H C Hab. pose proof (basis_checker_sound g rs H) as [W _]. destruct (basis_spans g rs c H C) as [sel [L S]].
  pose proof C as [_ [_ A]]. destruct (A a b Hab) as [A1 _]. pose proof (adjacent_ne g a b W A1) as Ne.
  assert (He : In (norm_edge (a, b)) (edges g)) by (apply (ring_edges_in_graph g c W C (a, b) Hab)).
  assert (T : ring_has_edge c (norm_edge (a, b)) = true) by (apply (ring_has_edge_spec c a b Ne); left; exact Hab).
  rewrite (S _ He) in T. destruct (sel_parity_witness sel rs _ T) as [r [Hr Er]]. exists r. split; [exact Hr|].
  pose proof Er as Er'. apply (ring_has_edge_spec r a b Ne) in Er'. destruct Er' as [X|X]; apply In_ring_pairs_In in X; tauto.
Qed.

(* ---- atoms ---- *)
Theorem atom_mark_on_cycle g rs v : is_cycle_basis g rs = true ->
  (atom_in_ring rs v = true <-> exists c, is_cycle g c /\ In v c).
Proof.
  intros H. pose proof (basis_checker_sound g rs H) as [W [C _]]. rewrite Forall_forall in C. rewrite atom_in_ring_spec. split.
  - intros [r [Hr Hv]]. exists r. split; [apply C; exact Hr | exact Hv].
  - intros [c [Cc Hv]]. pose proof Cc as [L [N _]]. destruct (cycle_two_neighbours c v N L Hv) as [p [q [_ [_ Hq]]]].
    destruct (accepted_covers_cycle_bond g rs c v q H Cc Hq) as [r [Hr [Iv _]]]. exists r. tauto.
Qed.

(* ---- bonds: on a cycle <-> not a bridge ---- *)
Lemma walk_reach g p : p <> [] -> (forall a b, In (a, b) (seq_pairs p) -> In b (gnbrs g a)) -> reach g (hd 0 p) (last p 0).
Proof.
  induction p as [|x p IH] using rev_ind; intros NE Wk; [congruence|]. rewrite last_last. destruct p as [|h t]; [cbn; constructor|].
  cbn [app hd]. assert (R : reach g h (last (h :: t) 0)).
  { change h with (hd 0 (h :: t)). apply IH; [discriminate|]. intros a b Hab. apply Wk. apply seq_pairs_app_l. exact Hab. }
  apply (reach_step g h (last (h :: t) 0) x R). apply Wk. assert (NEt : h :: t <> []) by discriminate.
  destruct (exists_last NEt) as [l' [z E]]. rewrite E, last_last, <- app_assoc. cbn [app]. apply seq_pairs_mid.
Qed.

(* a duplicate-free walk from a to b with at least three atoms does not use the bond a-b *)
Lemma path_avoids_bond g a b p : gwf g -> In b (gnbrs g a) -> NoDup p -> (3 <= length p)%nat -> hd 0 p = a -> last p 0 = b ->
  (forall x y, In (x, y) (seq_pairs p) -> In y (gnbrs g x)) -> reach (del_edge g a b) a b.
Proof.
  intros W Hab N L Ha Hb Wk. rewrite <- Ha at 2. rewrite <- Hb at 2. apply walk_reach; [destruct p; [cbn in L; lia | discriminate]|].
  intros x y Hxy. apply (de_In g a b W Hab). split; [apply Wk; exact Hxy|].
  apply seq_pairs_split in Hxy. destruct Hxy as [l1 [l2 E]]. subst p. split.
  - intros [Ex Ey]. subst x y. (* a is the head, b the last: the walk would be [a; b] *)
    destruct l1 as [|h l1']; [|cbn in Ha; subst h; apply NoDup_remove_2 in N; apply N; left; reflexivity].
    destruct l2 as [|z l2']; [cbn in L; lia|]. cbn [app] in Hb, N. change (last (a :: b :: z :: l2') 0) with (last (b :: z :: l2') 0) in Hb.
    inversion N as [|? ? _ N1]; subst. inversion N1 as [|? ? Nb _]; subst. apply Nb. rewrite <- Hb at 1. change (last (b :: z :: l2') 0) with (last (z :: l2') 0).
    assert (NE : z :: l2' <> []) by discriminate. destruct (exists_last NE) as [l' [w Ew]]. rewrite Ew, last_last. apply in_or_app. right. left. reflexivity.
  - intros [Ex Ey]. subst x y. (* b then a consecutively: a would not be the head or would repeat *)
    destruct l1 as [|h l1'].
    + cbn in Ha. subst b. apply (adjacent_ne g a a W Hab). reflexivity.
    + cbn in Ha. subst h. cbn [app] in N. inversion N as [|? ? Na _]; subst. apply Na. apply in_or_app. right. right. left. reflexivity.
Qed.

Lemma reach_ext g h u v : (forall x y, In y (gnbrs g x) <-> In y (gnbrs h x)) -> reach g u v -> reach h u v.
Proof. intros E R. induction R as [|u p q R IH Hq]; [constructor|]. apply (reach_step h u p q IH). apply E. exact Hq. Qed.

(* both ends in one cycle of the graph: the bond is not a bridge *)
Lemma ring_connects g r a b : gwf g -> is_cycle g r -> In a r -> In b r -> In b (gnbrs g a) -> reach (del_edge g a b) a b.
Proof.
  intros W C Ia Ib Hab. pose proof (adjacent_ne g a b W Hab) as Ne.
  (* rotate the ring so that it starts with a *)
  destruct (in_split a r Ia) as [l1 [l2 E]]. subst r. assert (C' : is_cycle g ((a :: l2) ++ l1)) by (apply is_cycle_rotation; exact C).
  assert (Ib' : In b (l2 ++ l1)).
  { apply in_app_or in Ib. apply in_or_app. destruct Ib as [Ib|[Ib|Ib]]; [right; exact Ib | congruence | left; exact Ib]. }
  cbn [app] in C'. set (t := l2 ++ l1) in *. destruct (in_split b t Ib') as [x [y Et]].
  destruct C' as [L [N A]].
  destruct x as [|x0 x'].
  - (* a and b are neighbours in the ring: go round the other way, b ... a *)
    cbn [app] in Et. assert (RP : ring_pairs (a :: t) = seq_pairs ((a :: t) ++ [a])) by reflexivity.
    apply (reach_sym (del_edge g a b) b a (de_wf g a b W Hab)).
    assert (Wk : forall u v, In (u, v) (seq_pairs (b :: y ++ [a])) -> In v (gnbrs g u)).
    { intros u v H. apply (A u v). rewrite RP, Et. cbn [app]. change (a :: b :: y ++ [a]) with ([a] ++ (b :: y ++ [a])). apply seq_pairs_app_r. exact H. }
    assert (R : reach (del_edge g b a) b a).
    { apply (path_avoids_bond g b a (b :: y ++ [a]) W (gwf_sym g a b W Hab)); [| | reflexivity | | exact Wk].
      - rewrite Et in N. apply (Permutation_NoDup (l := a :: b :: y)); [|exact N]. apply Permutation_trans with (b :: a :: y); [apply perm_swap|].
        apply perm_skip. apply Permutation_cons_append.
      - rewrite Et in L. cbn [length] in L |- *. rewrite app_length. cbn. lia.
      - change (b :: y ++ [a]) with ((b :: y) ++ [a]). apply last_last. }
    assert (Eq : del_edge g b a = del_edge g a b \/ forall u v, In v (gnbrs (del_edge g b a) u) <-> In v (gnbrs (del_edge g a b) u)).
    { right. intros u v. rewrite (de_In g b a W (gwf_sym g a b W Hab)), (de_In g a b W Hab). tauto. }
    destruct Eq as [Eq|Eq]; [rewrite <- Eq; exact R|]. apply (reach_ext _ _ b a Eq R).
  - (* b further along: a ... b along the ring *)
    assert (Wk : forall u v, In (u, v) (seq_pairs (a :: (x0 :: x') ++ [b])) -> In v (gnbrs g u)).
    { intros u v H. apply (A u v). unfold ring_pairs. rewrite Et. replace ((a :: (x0 :: x') ++ b :: y) ++ [a]) with ((a :: (x0 :: x') ++ [b]) ++ (y ++ [a])) by (cbn; rewrite <- !app_assoc; reflexivity).
      destruct (y ++ [a]) eqn:Ey; [destruct y; discriminate|]. rewrite <- Ey. apply seq_pairs_app_l. exact H. }
    apply (path_avoids_bond g a b (a :: (x0 :: x') ++ [b]) W Hab); [| | reflexivity | | exact Wk].
    + rewrite Et in N. replace (a :: (x0 :: x') ++ b :: y) with ((a :: (x0 :: x') ++ [b]) ++ y) in N by (cbn; rewrite <- app_assoc; reflexivity). apply NoDup_app_inv in N. tauto.
    + cbn [length]. rewrite app_length. cbn. lia.
    + change (a :: (x0 :: x') ++ [b]) with ((a :: x0 :: x') ++ [b]). apply last_last.
Qed.

Theorem bond_on_cycle_iff_not_bridge g a b : gwf g -> In b (gnbrs g a) ->
  ((exists c, is_cycle g c /\ ring_has_edge c (norm_edge (a, b)) = true) <-> reach (del_edge g a b) a b).
Proof.
  intros W Hab. pose proof (adjacent_ne g a b W Hab) as Ne. split.
  - intros [c [C E]]. apply (ring_has_edge_spec c a b Ne) in E. assert (Iab : In a c /\ In b c) by (destruct E as [E|E]; apply In_ring_pairs_In in E; tauto).
    apply (ring_connects g c a b W C (proj1 Iab) (proj2 Iab) Hab).
  - intros R. pose proof (de_wf g a b W Hab) as W'. assert (Ka : In a (keys (del_edge g a b))) by (rewrite (de_keys g a b); apply (adjacent_key g a b Hab)).
    apply (sp_tree_zget _ a b W' Ka) in R. destruct R as [p Z0]. destruct (closing_cycle g a b p W Hab Z0) as [C E]. exists p. split; [exact C | exact E].
Qed.

Theorem bond_mark_on_cycle g rs a b : is_cycle_basis g rs = true -> In b (gnbrs g a) ->
  (bond_in_ring rs a b = true <-> exists c, is_cycle g c /\ ring_has_edge c (norm_edge (a, b)) = true).
Proof.
  intros H Hab. pose proof (basis_checker_sound g rs H) as [W [C _]]. rewrite Forall_forall in C. pose proof (adjacent_ne g a b W Hab) as Ne. rewrite bond_in_ring_spec. split.
  - intros [r [Hr [Ia Ib]]]. apply (bond_on_cycle_iff_not_bridge g a b W Hab). apply (ring_connects g r a b W (C r Hr) Ia Ib Hab).
  - intros [c [Cc E]]. apply (ring_has_edge_spec c a b Ne) in E. destruct E as [E|E].
    + destruct (accepted_covers_cycle_bond g rs c a b H Cc E) as [r [Hr [Ia [Ib _]]]]. exists r. tauto.
    + destruct (accepted_covers_cycle_bond g rs c b a H Cc E) as [r [Hr [Ib [Ia _]]]]. exists r. tauto.
Qed.

Corollary bond_mark_not_bridge g rs a b : is_cycle_basis g rs = true -> In b (gnbrs g a) ->
  (bond_in_ring rs a b = true <-> reach (del_edge g a b) a b).
Proof. intros H Hab. pose proof (basis_checker_sound g rs H) as [W _]. rewrite (bond_mark_on_cycle g rs a b H Hab). apply (bond_on_cycle_iff_not_bridge g a b W Hab). Qed.

(* ---- the marks calc_labels stores on the bonds of a molecule ---- *)
Lemma gnbrs_not_special m n : gnbrs (graph_of_not_special m) n = keys (filter (fun mb => negb (b_ord (snd mb) =? 8)) (nbrs m n)).
Proof.
  unfold gnbrs, graph_of_not_special, nbrs. induction (m_adj m) as [|[k l] t IH]; [reflexivity|]. cbn [map fst snd zget].
  destruct (n =? k); [reflexivity | exact IH].
Qed.

Theorem bond_label_meaning m rs n k bd : is_cycle_basis (graph_of_not_special m) rs = true -> In (k, bd) (nbrs m n) ->
  (bond_label rs n (k, bd) = true <-> b_ord bd <> 8 /\ reach (del_edge (graph_of_not_special m) n k) n k).
Proof.
  intros H Hb. rewrite bond_label_spec. cbn [fst snd]. split.
  - intros [N8 Ex]. split; [exact N8|]. apply (bond_mark_not_bridge _ rs n k H).
    + rewrite gnbrs_not_special. unfold keys. apply in_map_iff. exists (k, bd). split; [reflexivity|]. apply filter_In. split; [exact Hb|]. cbn [snd]. apply negb_true_iff, Z.eqb_neq. exact N8.
    + apply bond_in_ring_spec. exact Ex.
  - intros [N8 R]. split; [exact N8|]. apply bond_in_ring_spec. apply (bond_mark_not_bridge _ rs n k H); [|exact R].
    rewrite gnbrs_not_special. unfold keys. apply in_map_iff. exists (k, bd). split; [reflexivity|]. apply filter_In. split; [exact Hb|]. cbn [snd]. apply negb_true_iff, Z.eqb_neq. exact N8.
Qed.

(* non-vacuity: in the two fused six-rings with a tail, the tail bond 8-11 is a bridge and unmarked, the fusion bond 3-8 is marked *)
Example ex_marks :
  is_cycle_basis ex_graph [[1;2;3;4;5;6]; [3;4;5;6;7;8]] = true /\
  bond_in_ring [[1;2;3;4;5;6]; [3;4;5;6;7;8]] 8 11 = false /\ bond_in_ring [[1;2;3;4;5;6]; [3;4;5;6;7;8]] 3 8 = true /\
  atom_in_ring [[1;2;3;4;5;6]; [3;4;5;6;7;8]] 11 = false /\ atom_in_ring [[1;2;3;4;5;6]; [3;4;5;6;7;8]] 7 = true /\
  zmem 11 (component_of (del_edge ex_graph 8 11) 8) = false /\ zmem 8 (component_of (del_edge ex_graph 3 8) 3) = true.
Proof. vm_compute. repeat split. Qed.
