(* C20 round 4: the stereo registry model (Model.RdkitRegistry: is_tetrahedron, stereogenic_entry, stereogenic_tetrahedrons_of) IS the
   loop bodies of MoleculeStereo.tetrahedrons / stereogenic_tetrahedrons as translated statement by statement from
   chython/algorithms/stereo.py on every run (Gen.RdkitRegistryBody, tools/gen_rdkit_registry.py).  In particular the hand model's
   shortcut "all bond orders are 1, so the sum of the orders is the number of neighbours" is proved here. *)
From Coq Require Import ZArith List Bool Lia.
From Model Require Import PyBase Graph PeriodicTable RdkitRegistry.
From Gen Require Import RdkitRegistryBody.
Import ListNotations.
Open Scope Z_scope.

Lemma forallb_map_snd {A B} (f : B -> bool) (l : list (A * B)) : forallb f (map snd l) = forallb (fun p => f (snd p)) l.
Proof. induction l as [|x r IH]; simpl; [reflexivity|]. rewrite IH. reflexivity. Qed.

Lemma zsum_all_one (l : list (Z * bond)) :
  forallb (fun p => b_ord (snd p) =? 1) l = true -> zsum (map (fun b => b_ord b) (map snd l)) = Z.of_nat (List.length l).
Proof.
  induction l as [|x r IH]; intros H; [reflexivity|].
  cbn [forallb] in H. apply andb_true_iff in H as [H1 H2]. apply Z.eqb_eq in H1.
  cbn [map zsum fold_right List.length]. fold (zsum (map (fun b => b_ord b) (map snd r))). rewrite (IH H2), H1. lia.
Qed.

Lemma existsb_negb {A} (f : A -> bool) l : existsb (fun x => negb (f x)) l = negb (forallb f l).
Proof. induction l as [|x r IH]; simpl; [reflexivity|]. rewrite IH. destruct (f x); reflexivity. Qed.

(* one iteration of `for n, atom in self.atoms()` of MoleculeStereo.tetrahedrons: is n appended? *)
Theorem tie_is_tetrahedron : forall g n,
  is_tetrahedron g n = match atom_of g n with Some a => g_tetra_step g n a | None => false end.
Proof.
  intros g n. unfold is_tetrahedron, g_tetra_step. destruct (atom_of g n) as [a|]; [|reflexivity]. cbv zeta.
  rewrite forallb_map_snd.
  destruct ((a_num a =? 6) && (a_chg a =? 0) && negb (a_rad a)); [|reflexivity]. cbn [andb].
  destruct (forallb (fun p => b_ord (snd p) =? 1) (nbrs g n)) eqn:E; [|reflexivity]. cbn [andb].
  rewrite (zsum_all_one _ E). destruct (4 <? Z.of_nat (List.length (nbrs g n))); reflexivity.
Qed.

(* one iteration of `for n in self.tetrahedrons` of MoleculeStereo.stereogenic_tetrahedrons: the entry stored for n *)
Theorem tie_stereogenic_entry : forall g n,
  stereogenic_entry g n = if is_tetrahedron g n then g_stereogenic_step g n else None.
Proof.
  intros g n. unfold stereogenic_entry, g_stereogenic_step. destruct (is_tetrahedron g n); [|reflexivity]. cbv zeta.
  fold (nbr_ids g n). rewrite existsb_negb. destruct (forallb (single_former g) (nbr_ids g n)); reflexivity.
Qed.

(* the whole dictionary: the second loop runs over the atoms the first loop appended, in the order of self.atoms() *)
Theorem tie_stereogenic_tetrahedrons : forall g,
  stereogenic_tetrahedrons_of g =
  flat_map (fun n => match g_stereogenic_step g n with Some e => [(n, e)] | None => [] end)
           (filter (fun n => match atom_of g n with Some a => g_tetra_step g n a | None => false end) (ids g)).
Proof.
  intros g. unfold stereogenic_tetrahedrons_of. induction (ids g) as [|n r IH]; [reflexivity|].
  cbn [flat_map filter]. rewrite IH, tie_stereogenic_entry, tie_is_tetrahedron.
  destruct (match atom_of g n with Some a => g_tetra_step g n a | None => false end); reflexivity.
Qed.

(* non-vacuity: C(N)(C)(C)[H] is a stereogenic entry without the hydrogen; a five-valent carbon and a carbon bonded to a metal are not *)
Example registry_examples :
  let sb := mkBond 1 None in
  let g := mkMol [(3, mkAtom 7 None 0 false (Some 2) None); (7, mkAtom 6 None 0 false (Some 0) None);
                  (9, mkAtom 6 None 0 false (Some 3) None); (4, mkAtom 6 None 0 false (Some 3) None);
                  (5, mkAtom 1 None 0 false (Some 0) None)]
                 [(3, [(7, sb)]); (7, [(3, sb); (9, sb); (4, sb); (5, sb)]); (9, [(7, sb)]); (4, [(7, sb)]); (5, [(7, sb)])] in
  match atom_of g 7 with Some a => g_tetra_step g 7 a | None => false end = true /\
  g_stereogenic_step g 7 = Some [3; 9; 4] /\
  match atom_of g 3 with Some a => g_tetra_step g 3 a | None => true end = false.
Proof. vm_compute. repeat split. Qed.
