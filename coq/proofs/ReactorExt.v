(* C16 (extension): proofs about coq/model/ReactorStage.v -- the loops around _patcher *)
From Coq Require Import ZArith List Bool Lia Permutation.
From Model Require Import PyBase Graph Reactor ReactorStage.
From Proofs Require Import ReactorProofs.
Import ListNotations.
Open Scope Z_scope.

(* ---------- generators ---------- *)
Lemma gen_map_spec {A B} (f : A -> pyres B) : forall l ys e, gen_map f l = (ys, e) ->
  Forall2 (fun x y => f x = Ok y) (firstn (length ys) l) ys /\
  match e with
  | None => length ys = length l
  | Some ex => exists x, nth_error l (length ys) = Some x /\ f x = Err ex
  end.
Proof.
  induction l as [|x l IH]; intros ys e H; cbn [gen_map] in H.
  - inversion H; subst. split; [constructor|reflexivity].
  - destruct (f x) as [y|ex] eqn:Ef.
    + destruct (gen_map f l) as [ys' e'] eqn:Eg. inversion H; subst ys e. clear H.
      destruct (IH ys' e' eq_refl) as [IH1 IH2]. split.
      * cbn [length firstn]. constructor; assumption.
      * destruct e' as [ex|]; cbn [length].
        -- destruct IH2 as (x0 & Hx0 & Hf). exists x0. split; assumption.
        -- lia.
    + inversion H; subst. split; [constructor|]. exists x. split; [reflexivity|exact Ef].
Qed.

(* when every call succeeds the generator yields the image of the whole list, in order *)
Lemma gen_map_total {A B} (f : A -> pyres B) : forall l,
  (forall x, In x l -> exists y, f x = Ok y) ->
  exists ys, gen_map f l = (ys, None) /\ Forall2 (fun x y => f x = Ok y) l ys.
Proof.
  induction l as [|x l IH]; intros H; cbn [gen_map].
  - exists []. split; [reflexivity|constructor].
  - destruct (H x (or_introl eq_refl)) as [y Ey]. rewrite Ey.
    destruct (IH (fun z Hz => H z (or_intror Hz))) as (ys & E & F). rewrite E.
    exists (y :: ys). split; [reflexivity|constructor; assumption].
Qed.

Lemma Forall2_length' {A B} (R : A -> B -> Prop) l l' : Forall2 R l l' -> length l = length l'.
Proof. induction 1; cbn; congruence. Qed.

(* ====================================================================================================
   Transformer.__call__: one product per match, in the order of the matches
   ==================================================================================================== *)


Lemma real_match_patched to_del tpl g mp :
  wf_mol g = true -> (forall x, In x (ids g) -> 0 < x) -> ids g <> [] -> wf_template tpl = true ->
  real_match to_del tpl g mp -> exists new, patched to_del tpl g mp new.
Proof.
  intros Hwf Hpos Hne Hwt (H1 & H2 & H3).
  destruct (template_application_total g mp to_del tpl Hwf Hpos Hne Hwt H1 H2 H3) as (new & mp' & E).
  exists new, mp'. exact E.
Qed.

Theorem transformer_call_image : forall to_del tpl matches g,
  wf_mol g = true -> (forall x, In x (ids g) -> 0 < x) -> ids g <> [] -> wf_template tpl = true ->
  (forall mp, In mp matches -> real_match to_del tpl g mp) ->
  exists prods, transformer_call to_del tpl matches g = (prods, None) /\
                Forall2 (patched to_del tpl g) matches prods /\ length prods = length matches.
Proof.
  intros to_del tpl matches g Hwf Hpos Hne Hwt Hreal. unfold transformer_call.
  set (f := fun mp => match patcher_with get_deleted g mp to_del tpl with Ok (new, _) => Ok new | Err e => Err e end).
  destruct (gen_map_total f matches) as (ys & E & F).
  { intros mp Hmp. destruct (real_match_patched to_del tpl g mp Hwf Hpos Hne Hwt (Hreal mp Hmp)) as (new & mp' & Ep).
    exists new. unfold f. rewrite Ep. reflexivity. }
  exists ys. split; [exact E|]. split; [|symmetry; eapply Forall2_length'; exact F].
  clear E. induction F as [|mp y l l' Hy F IH]; constructor.
  - unfold f in Hy. unfold patched. destruct (patcher_with get_deleted g mp to_del tpl) as [[new mp']|]; [|discriminate].
    inversion Hy; subst. exists mp'. reflexivity.
  - apply IH. intros mp0 H0. apply Hreal. right. exact H0.
Qed.

(* without any hypothesis: what is yielded is the image of a prefix of the match list; the generator stops at the first
   match on which _patcher raises, with that exception *)
Theorem transformer_call_prefix : forall to_del tpl matches g prods e,
  transformer_call to_del tpl matches g = (prods, e) ->
  Forall2 (patched to_del tpl g) (firstn (length prods) matches) prods /\
  (e = None -> length prods = length matches).
Proof.
  intros to_del tpl matches g prods e H. unfold transformer_call in H.
  destruct (gen_map_spec _ _ _ _ H) as [F Hl]. split.
  - clear H Hl. induction F as [|mp y l l' Hy F IH]; constructor; [|exact IH].
    unfold patched. destruct (patcher_with get_deleted g mp to_del tpl) as [[new mp']|]; [|discriminate].
    inversion Hy; subst. exists mp'. reflexivity.
  - intros ->. exact Hl.
Qed.

(* ====================================================================================================
   de-duplication by the key (str(r)) : one reaction per distinct key, first occurrences, in order
   ==================================================================================================== *)
Section Dedupe.
  Variables (K : Type) (key_eqb : K -> K -> bool) (key : cand -> K).
  Hypothesis key_eqb_spec : forall a b, key_eqb a b = true <-> a = b.

  Lemma existsb_key k seen : existsb (key_eqb k) seen = true <-> In k seen.
  Proof.
    rewrite existsb_exists. split.
    - intros (x & Hx & E). apply key_eqb_spec in E. subst. exact Hx.
    - intros H. exists k. split; [exact H|]. apply key_eqb_spec. reflexivity.
  Qed.

  Lemma dedupe_spec : forall l seen,
    (* nothing already seen, nothing twice *)
    (forall c, In c (dedupe K key_eqb key seen l) -> In c l /\ ~ In (key c) seen) /\
    NoDup (map key (dedupe K key_eqb key seen l)) /\
    (* every candidate's key is represented, unless it was seen before *)
    (forall c, In c l -> In (key c) seen \/ In (key c) (map key (dedupe K key_eqb key seen l))).
  Proof.
    induction l as [|c l IH]; intros seen; cbn [dedupe].
    - split; [intros c []|]. split; [constructor|intros c []].
    - destruct (existsb (key_eqb (key c)) seen) eqn:E.
      + apply existsb_key in E. destruct (IH seen) as (I1 & I2 & I3). split; [|split].
        * intros c0 H0. destruct (I1 c0 H0). split; [right; assumption|assumption].
        * exact I2.
        * intros c0 [<-|H0]; [left; exact E|apply I3; exact H0].
      + assert (Hn : ~ In (key c) seen) by (intros H; apply existsb_key in H; congruence).
        destruct (IH (key c :: seen)) as (I1 & I2 & I3). split; [|split].
        * intros c0 [<-|H0]; [split; [left; reflexivity|exact Hn]|].
          destruct (I1 c0 H0) as [Hin Hk]. split; [right; exact Hin|]. intros Hs. apply Hk. right. exact Hs.
        * cbn [map]. constructor; [|exact I2]. intros Hin. apply in_map_iff in Hin. destruct Hin as (c0 & Ek & H0).
          destruct (I1 c0 H0) as [_ Hk]. apply Hk. left. symmetry. exact Ek.
        * intros c0 [<-|H0]; [right; left; reflexivity|].
          destruct (I3 c0 H0) as [[Ek|Hs]|Hr]; [right; left; exact Ek|left; exact Hs|right; right; exact Hr].
  Qed.

  (* the yielded list is a sub-list of the candidates in their order: the first candidate of each key *)
  Lemma dedupe_first : forall l seen c, In c (dedupe K key_eqb key seen l) ->
    exists l1 l2, l = l1 ++ c :: l2 /\ forall c', In c' l1 -> key c' <> key c.
  Proof.
    induction l as [|c0 l IH]; intros seen c H; cbn [dedupe] in H; [destruct H|].
    destruct (existsb (key_eqb (key c0)) seen) eqn:E.
    - destruct (IH seen c H) as (l1 & l2 & -> & Hl1). exists (c0 :: l1), l2. split; [reflexivity|].
      intros c' [<-|H']; [|apply Hl1; exact H'].
      apply existsb_key in E. intros Ek. rewrite Ek in E.
      destruct (dedupe_spec (l1 ++ c :: l2) seen) as (I1 & _ & _). apply (proj2 (I1 c H)). exact E.
    - destruct H as [<-|H].
      + exists [], l. split; [reflexivity|intros c' []].
      + destruct (IH (key c0 :: seen) c H) as (l1 & l2 & -> & Hl1). exists (c0 :: l1), l2. split; [reflexivity|].
        intros c' [<-|H']; [|apply Hl1; exact H'].
        intros Ek. destruct (dedupe_spec (l1 ++ c :: l2) (key c0 :: seen)) as (I1 & _ & _).
        apply (proj2 (I1 c H)). left. exact Ek.
  Qed.
End Dedupe.

(* ====================================================================================================
   Graph.remap and the collision remap of one stage
   ==================================================================================================== *)
Lemma ids_remap_mol mp g : ids (remap_mol mp g) = remap_ids mp (ids g).
Proof. unfold ids, remap_mol, remap_ids, keys, mget. cbn [m_atoms]. rewrite !map_map. reflexivity. Qed.

Lemma NoDup_nodup_z l : NoDup l -> nodup_z l = true.
Proof.
  induction 1 as [|x l Hx Hnd IH]; cbn [nodup_z]; [reflexivity|].
  rewrite IH, andb_true_r. apply negb_true_iff. apply zmem_false. exact Hx.
Qed.

Lemma zip_count_values : forall c s v, In v (map snd (zip_count c s)) -> s <= v.
Proof.
  induction c as [|x c IH]; intros s v; cbn [zip_count map snd]; [intros []|].
  intros [<-|H]; [lia|]. apply IH in H. lia.
Qed.

Lemma zip_count_values_NoDup : forall c s, NoDup (map snd (zip_count c s)).
Proof.
  induction c as [|x c IH]; intros s; cbn [zip_count map snd]; constructor.
  - intros H. apply zip_count_values in H. lia.
  - apply IH.
Qed.

Lemma remap_check_zip g c start : (forall x, In x (ids g) -> x < start) -> remap_check (zip_count c start) g = true.
Proof.
  intros Hlt. unfold remap_check. rewrite (NoDup_nodup_z _ (zip_count_values_NoDup c start)). cbn [andb].
  apply forallb_forall. intros n Hn. apply orb_true_iff. right. apply negb_true_iff. apply zmem_false.
  intros Hv. apply zip_count_values in Hv. specialize (Hlt n Hn). lia.
Qed.

(* renumbering the colliding atoms c (any enumeration of structure /\ atoms) from beyond both maxima *)
Lemma remap_collisions_gen structure atoms c a b :
  NoDup structure -> (forall x, In x c <-> In x structure /\ In x atoms) ->
  (forall x, In x atoms -> x <= a) -> (forall x, In x structure -> x <= b) ->
  let s' := remap_ids (zip_count c (Z.max a b + 1)) structure in
  length s' = length structure /\ NoDup s' /\ (forall x, In x s' -> ~ In x atoms) /\
  (forall i d, ~ In (nth i structure d) atoms -> nth i s' d = nth i structure d).
Proof.
  intros Hnd Hc Ha Hb. set (mp := zip_count c (Z.max a b + 1)).
  set (f := fun n => match zget mp n with Some m => m | None => n end).
  assert (Hsome : forall n m, zget mp n = Some m -> In n structure /\ In n atoms /\ Z.max a b + 1 <= m /\
                                                    forall n', zget mp n' = Some m -> n' = n).
  { intros n m Hg. destruct (zip_count_get _ _ _ _ Hg) as (Hin & Hs & Hu). apply Hc in Hin. tauto. }
  assert (Hnone : forall n, In n structure -> zget mp n = None -> ~ In n atoms).
  { intros n Hn Hg Hat. apply zget_None_key in Hg. apply Hg. unfold mp. rewrite zip_count_keys. apply Hc. tauto. }
  cbn zeta. unfold remap_ids. fold mp. fold f. split; [apply map_length|]. split; [|split].
  - apply NoDup_map_inj_on; [|exact Hnd]. intros x y Hx Hy. unfold f.
    destruct (zget mp x) as [mx|] eqn:Ex, (zget mp y) as [my|] eqn:Ey; intros E; subst.
    + symmetry. apply (Hsome _ _ Ex). exact Ey.
    + destruct (Hsome _ _ Ex) as (_ & _ & Hs & _). specialize (Hb _ Hy). lia.
    + destruct (Hsome _ _ Ey) as (_ & _ & Hs & _). specialize (Hb _ Hx). lia.
    + reflexivity.
  - intros x Hx. apply in_map_iff in Hx. destruct Hx as (n & <- & Hn). unfold f.
    destruct (zget mp n) as [m|] eqn:E.
    + intros Hat. destruct (Hsome _ _ E) as (_ & _ & Hs & _). specialize (Ha _ Hat). lia.
    + apply Hnone; assumption.
  - intros i d Hi. destruct (Nat.lt_ge_cases i (length structure)) as [Hlt|Hge].
    + rewrite (nth_indep _ d (f d)) by (rewrite map_length; exact Hlt). rewrite map_nth. unfold f.
      destruct (zget mp (nth i structure d)) as [m|] eqn:E; [|reflexivity].
      exfalso. apply Hi. apply (Hsome _ _ E).
    + rewrite !nth_overflow; [reflexivity|exact Hge|rewrite map_length; exact Hge].
Qed.

Lemma zmax0_ge l x : In x l -> x <= zmax0 l.
Proof.
  intros Hx. unfold zmax0. destruct (zmax_list l) as [a|] eqn:Ea.
  - apply (zmax_list_spec _ _ Ea). exact Hx.
  - destruct l; [destruct Hx|discriminate].
Qed.

Section StageOne.
  Variables (to_del : list Z) (tpl : template) (cord : list Z -> list Z).
  (* any iteration order of the set `collision` *)
  Hypothesis Hcord : forall l x, In x (cord l) <-> In x l.

  (* the product of one stage has unique numbers, none of them used by the molecules that take no part; atoms that did
     not collide keep their number (position by position) *)
  Theorem stage_one_numbers : forall united ignored mp out,
    stage_one to_del tpl cord united ignored mp = Ok out ->
    wf_mol united = true -> (forall x, In x (ids united) -> 0 < x) ->
    exists new, patched to_del tpl united mp new /\
      length (ids out) = length (ids new) /\ NoDup (ids out) /\ (forall x, In x (ids out) -> ~ In x ignored) /\
      (forall i d, ~ In (nth i (ids new) d) ignored -> nth i (ids out) d = nth i (ids new) d).
  Proof.
    intros united ignored mp out H Hwf Hpos. unfold stage_one in H.
    destruct (patcher_with get_deleted united mp to_del tpl) as [[new mp']|] eqn:Ep; [|discriminate].
    exists new. split; [exists mp'; exact Ep|].
    assert (Hnd : NoDup (ids new)).
    { unfold patcher_with in Ep. destruct (get_deleted (graph_of united) mp to_del) as [del|]; [|discriminate].
      apply (patcher_frame _ _ _ _ _ _ Ep Hwf Hpos). }
    destruct (zinter (ids new) ignored) as [|c0 crest] eqn:Ei.
    - inversion H; subst out. split; [reflexivity|]. split; [exact Hnd|]. split; [|reflexivity].
      intros x Hx Hi. assert (Hin : In x (zinter (ids new) ignored)) by (apply zinter_In; split; assumption).
      rewrite Ei in Hin. destruct Hin.
    - destruct (zmax_list (ids new)) as [b|] eqn:Eb; [|discriminate].
      unfold remap_res in H.
      destruct (remap_check (zip_count (cord (c0 :: crest)) (Z.max (zmax0 ignored) b + 1)) new); [|discriminate].
      inversion H; subst out. rewrite ids_remap_mol.
      apply (remap_collisions_gen (ids new) ignored (cord (c0 :: crest)) (zmax0 ignored) b Hnd).
      + intros x. rewrite Hcord, <- Ei. apply zinter_In.
      + intros x Hx. apply zmax0_ge. exact Hx.
      + apply (zmax_list_spec _ _ Eb).
  Qed.

  (* on a real match nothing in the stage raises (in particular Graph.remap never refuses the collision mapping) *)
  Theorem stage_one_total : forall united ignored mp,
    wf_mol united = true -> (forall x, In x (ids united) -> 0 < x) -> ids united <> [] -> wf_template tpl = true ->
    real_match to_del tpl united mp ->
    exists out, stage_one to_del tpl cord united ignored mp = Ok out.
  Proof.
    intros united ignored mp Hwf Hpos Hne Hwt Hreal. unfold stage_one.
    destruct (real_match_patched to_del tpl united mp Hwf Hpos Hne Hwt Hreal) as (new & mp' & Ep). rewrite Ep.
    destruct (zinter (ids new) ignored) as [|c0 crest] eqn:Ei; [eexists; reflexivity|].
    destruct (zmax_list (ids new)) as [b|] eqn:Eb.
    - unfold remap_res. rewrite remap_check_zip; [eexists; reflexivity|].
      intros x Hx. pose proof (proj2 (zmax_list_spec _ _ Eb) x Hx). lia.
    - exfalso. assert (Hin : In c0 (zinter (ids new) ignored)) by (rewrite Ei; left; reflexivity).
      apply zinter_In in Hin. destruct (ids new); [destruct (proj1 Hin)|discriminate].
  Qed.
End StageOne.

(* ====================================================================================================
   Graph.union of molecules that share no atom number: concatenation, well-formed
   ==================================================================================================== *)
Lemma zset_absent {V} (d : list (Z * V)) k v : ~ In k (keys d) -> zset d k v = d ++ [(k, v)].
Proof.
  induction d as [|[k' v'] d IH]; cbn; intros H; [reflexivity|].
  destruct (Z.eqb_spec k k') as [->|Hne]; [exfalso; apply H; left; reflexivity|].
  f_equal. apply IH. intros Hi. apply H. right. exact Hi.
Qed.

Lemma dict_update_disjoint {V} : forall (e d : list (Z * V)),
  NoDup (keys e) -> (forall k, In k (keys e) -> ~ In k (keys d)) -> dict_update d e = d ++ e.
Proof.
  unfold dict_update. induction e as [|[k v] e IH]; intros d Hnd Hdis; cbn [fold_left fst snd]; [rewrite app_nil_r; reflexivity|].
  cbn [keys map fst] in Hnd. inversion Hnd as [|? ? Hk Hnd']; subst.
  rewrite zset_absent by (apply Hdis; left; reflexivity).
  rewrite IH; [rewrite <- app_assoc; reflexivity|exact Hnd'|].
  intros k' Hk' Hin. unfold keys in Hin. rewrite map_app in Hin. apply in_app_or in Hin. destruct Hin as [Hin|[<-|[]]].
  - apply (Hdis k'); [right; exact Hk'|exact Hin].
  - contradiction.
Qed.

Lemma list_eqb_Z_refl l : list_eqb Z.eqb l l = true.
Proof. induction l as [|x l IH]; cbn; [reflexivity|]. rewrite Z.eqb_refl, IH. reflexivity. Qed.

Lemma zget_app_l {V} (d e : list (Z * V)) k : In k (keys d) -> zget (d ++ e) k = zget d k.
Proof.
  induction d as [|[k' v] d IH]; cbn; [intros []|]. destruct (Z.eqb_spec k k'); [reflexivity|].
  intros [E|H]; [congruence|apply IH; exact H].
Qed.

Lemma zget_app_r {V} (d e : list (Z * V)) k : ~ In k (keys d) -> zget (d ++ e) k = zget e k.
Proof.
  induction d as [|[k' v] d IH]; cbn; [reflexivity|]. intros H.
  destruct (Z.eqb_spec k k') as [->|Hne]; [exfalso; apply H; left; reflexivity|].
  apply IH. intros Hi. apply H. right. exact Hi.
Qed.

Lemma NoDup_app_intro {A} (l l' : list A) : NoDup l -> NoDup l' -> (forall x, In x l -> ~ In x l') -> NoDup (l ++ l').
Proof.
  induction 1 as [|x l Hx Hnd IH]; intros Hl' Hdis; cbn; [exact Hl'|]. constructor.
  - intros Hin. apply in_app_or in Hin. destruct Hin as [Hin|Hin]; [contradiction|]. apply (Hdis x); [left; reflexivity|exact Hin].
  - apply IH; [exact Hl'|]. intros y Hy. apply Hdis. right. exact Hy.
Qed.

Definition app_mol (a b : mol) : mol := mkMol (m_atoms a ++ m_atoms b) (m_adj a ++ m_adj b).

Lemma wf_app_mol a b : wf_mol a = true -> wf_mol b = true -> (forall x, In x (ids a) -> ~ In x (ids b)) ->
  wf_mol (app_mol a b) = true.
Proof.
  intros Ha Hb Hdis.
  destruct (wf_mol_facts a Ha) as (Hnda & Hka & _). destruct (wf_mol_facts b Hb) as (Hndb & Hkb & _).
  assert (Hids : ids (app_mol a b) = ids a ++ ids b) by (unfold ids, app_mol, keys; cbn; apply map_app).
  unfold wf_mol in *. apply andb_prop in Ha. destruct Ha as [_ Ca]. apply andb_prop in Hb. destruct Hb as [_ Cb].
  apply andb_true_intro. split; [apply andb_true_intro; split|].
  - cbn [m_atoms m_adj app_mol]. unfold keys. rewrite !map_app. fold (keys (m_atoms a)) (keys (m_atoms b)) (keys (m_adj a)) (keys (m_adj b)).
    rewrite Hka, Hkb. apply list_eqb_Z_refl.
  - apply NoDup_nodup_z. rewrite Hids. apply NoDup_app_intro; assumption.
  - cbn [m_adj app_mol]. rewrite forallb_app. apply andb_true_intro.
    rewrite forallb_forall in Ca, Cb. split; apply forallb_forall; intros [n l] Hin.
    + specialize (Ca (n, l) Hin). cbn [fst snd] in *. apply andb_prop in Ca. destruct Ca as [C1 C2].
      apply andb_true_intro. split; [exact C1|]. rewrite forallb_forall in C2. apply forallb_forall. intros [m bd] Hm.
      specialize (C2 (m, bd) Hm). cbn [fst snd] in *. apply andb_prop in C2. destruct C2 as [C2 C3]. apply andb_prop in C2. destruct C2 as [C2 C2'].
      apply andb_true_intro. split; [apply andb_true_intro; split; [exact C2|]|].
      * apply zmem_In. rewrite Hids. apply in_or_app. left. apply zmem_In. exact C2'.
      * unfold bond_of, nbrs in *. cbn [m_adj app_mol]. rewrite zget_app_l; [exact C3|].
        rewrite Hka. apply zmem_In. exact C2'.
    + specialize (Cb (n, l) Hin). cbn [fst snd] in *. apply andb_prop in Cb. destruct Cb as [C1 C2].
      apply andb_true_intro. split; [exact C1|]. rewrite forallb_forall in C2. apply forallb_forall. intros [m bd] Hm.
      specialize (C2 (m, bd) Hm). cbn [fst snd] in *. apply andb_prop in C2. destruct C2 as [C2 C3]. apply andb_prop in C2. destruct C2 as [C2 C2'].
      apply andb_true_intro. split; [apply andb_true_intro; split; [exact C2|]|].
      * apply zmem_In. rewrite Hids. apply in_or_app. right. apply zmem_In. exact C2'.
      * unfold bond_of, nbrs in *. cbn [m_adj app_mol]. rewrite zget_app_r; [exact C3|].
        rewrite Hka. intros Hi. apply (Hdis m Hi). apply zmem_In. exact C2'.
Qed.

Lemma zinter_nil a b : (forall x, In x a -> ~ In x b) -> zinter a b = [].
Proof.
  intros H. destruct (zinter a b) as [|x r] eqn:E; [reflexivity|]. exfalso.
  assert (Hx : In x (zinter a b)) by (rewrite E; left; reflexivity). apply zinter_In in Hx. exact (H x (proj1 Hx) (proj2 Hx)).
Qed.

Lemma union_mol_disjoint a b : wf_mol a = true -> wf_mol b = true -> (forall x, In x (ids a) -> ~ In x (ids b)) ->
  union_mol a b = Ok (app_mol a b).
Proof.
  intros Ha Hb Hdis. destruct (wf_mol_facts a Ha) as (Hnda & Hka & _). destruct (wf_mol_facts b Hb) as (Hndb & Hkb & _).
  unfold union_mol. rewrite (zinter_nil _ _ Hdis). unfold app_mol. f_equal. f_equal.
  - apply dict_update_disjoint; [exact Hndb|]. intros k Hk Hi. exact (Hdis k Hi Hk).
  - apply dict_update_disjoint; [rewrite Hkb; exact Hndb|]. rewrite Hka, Hkb. intros k Hk Hi. exact (Hdis k Hi Hk).
Qed.

Lemma ids_app_mol a b : ids (app_mol a b) = ids a ++ ids b.
Proof. unfold ids, app_mol, keys. cbn. apply map_app. Qed.

Lemma union_fold_disjoint : forall r u,
  wf_mol u = true -> Forall (fun m => wf_mol m = true) r ->
  (forall b, In b r -> forall x, In x (ids u) -> ~ In x (ids b)) -> all_disjoint (map ids r) ->
  exists u', fold_left (fun acc b => match acc with Ok u => union_mol u b | Err e => Err e end) r (Ok u) = Ok u' /\
             wf_mol u' = true /\ ids u' = ids u ++ flat_map ids r.
Proof.
  induction r as [|b r IH]; intros u Hu Hr Hdis Had; cbn [fold_left flat_map].
  - exists u. rewrite app_nil_r. auto.
  - inversion Hr as [|? ? Hb Hr']; subst. cbn [map all_disjoint] in Had. destruct Had as [Hbd Had].
    rewrite (union_mol_disjoint u b Hu Hb (Hdis b (or_introl eq_refl))).
    destruct (IH (app_mol u b)) as (u' & E & Hwf & Hids).
    + apply wf_app_mol; [exact Hu|exact Hb|apply Hdis; left; reflexivity].
    + exact Hr'.
    + intros c Hc x Hx. rewrite ids_app_mol in Hx. apply in_app_or in Hx. destruct Hx as [Hx|Hx].
      * apply (Hdis c (or_intror Hc) x Hx).
      * apply (Hbd (ids c)); [apply in_map; exact Hc|exact Hx].
    + exact Had.
    + exists u'. split; [exact E|]. split; [exact Hwf|]. rewrite Hids, ids_app_mol, <- app_assoc. reflexivity.
Qed.

(* reduce(or_, chosen) of well-formed molecules that share no number: their concatenation *)
Theorem union_all_disjoint : forall chosen,
  chosen <> [] -> Forall (fun m => wf_mol m = true) chosen -> all_disjoint (map ids chosen) ->
  exists u, union_all chosen = Ok u /\ wf_mol u = true /\ ids u = flat_map ids chosen.
Proof.
  intros [|a r] Hne Hwf Had; [congruence|]. unfold union_all.
  inversion Hwf as [|? ? Ha Hr]; subst. cbn [map all_disjoint] in Had. destruct Had as [Hd Had].
  destruct (union_fold_disjoint r a Ha Hr) as (u & E & Hu & Hids); [|exact Had|].
  - intros b Hb x Hx. apply (Hd (ids b)); [apply in_map; exact Hb|exact Hx].
  - exists u. split; [exact E|]. split; [exact Hu|exact Hids].
Qed.

(* ---------- itertools.permutations ---------- *)
Lemma remove_nth_In {A} : forall i (l : list A) x, In x (remove_nth i l) -> In x l.
Proof.
  induction i as [|i IH]; intros [|y l] x; cbn; auto. intros [<-|H]; [left; reflexivity|right; apply IH; exact H].
Qed.

Lemma remove_nth_NoDup {A} : forall i (l : list A), NoDup l -> NoDup (remove_nth i l).
Proof.
  induction i as [|i IH]; intros [|y l] H; cbn; try constructor.
  - inversion H; assumption.
  - inversion H as [|? ? Hy Hl]; subst. intros Hin. apply Hy. eapply remove_nth_In. exact Hin.
  - inversion H; subst. apply IH. assumption.
Qed.

Lemma remove_nth_not_In {A} : forall i (l : list A) x, NoDup l -> nth_error l i = Some x -> ~ In x (remove_nth i l).
Proof.
  induction i as [|i IH]; intros [|y l] x Hnd E; cbn in *; try discriminate.
  - inversion E; subst. inversion Hnd; assumption.
  - inversion Hnd as [|? ? Hy Hl]; subst. intros [->|Hin].
    + apply Hy. eapply nth_error_In. exact E.
    + exact (IH l x Hl E Hin).
Qed.

Lemma perms_k_spec {A} : forall k (l p : list A), NoDup l -> In p (perms_k k l) -> NoDup p /\ incl p l /\ length p = k.
Proof.
  induction k as [|k IH]; intros l p Hnd Hp; cbn [perms_k] in Hp.
  - destruct Hp as [<-|[]]. split; [constructor|]. split; [intros x []|reflexivity].
  - apply in_flat_map in Hp. destruct Hp as (i & _ & Hp).
    destruct (nth_error l i) as [x|] eqn:Ex; [|destruct Hp].
    apply in_map_iff in Hp. destruct Hp as (p' & <- & Hp').
    destruct (IH _ _ (remove_nth_NoDup i l Hnd) Hp') as (N & I & L). split; [|split].
    + constructor; [|exact N]. intros Hin. apply (remove_nth_not_In i l x Hnd Ex). apply I. exact Hin.
    + intros y [<-|Hy]; [eapply nth_error_In; exact Ex|]. eapply remove_nth_In. apply I. exact Hy.
    + cbn. congruence.
Qed.

Lemma nat_mem_In i l : nat_mem i l = true <-> In i l.
Proof.
  unfold nat_mem. rewrite existsb_exists. split.
  - intros (x & Hx & E). apply Nat.eqb_eq in E. subst. exact Hx.
  - intros H. exists i. split; [exact H|apply Nat.eqb_refl].
Qed.

Lemma others_spec n chosen i : In i (others n chosen) <-> (i < n)%nat /\ ~ In i chosen.
Proof.
  unfold others. rewrite filter_In, in_seq, negb_true_iff. split.
  - intros [H1 H2]. split; [lia|]. intros Hi. apply nat_mem_In in Hi. congruence.
  - intros [H1 H2]. split; [lia|]. destruct (nat_mem i chosen) eqn:E; [|reflexivity]. apply nat_mem_In in E. contradiction.
Qed.

Lemma others_NoDup n chosen : NoDup (others n chosen).
Proof. unfold others. apply NoDup_filter. apply seq_NoDup. Qed.

(* ---------- picking reactants by position ---------- *)

Lemma all_disjoint_nth : forall (L : list (list Z)) i j, all_disjoint L -> (i < j)%nat -> (j < length L)%nat ->
  forall x, In x (nth i L []) -> ~ In x (nth j L []).
Proof.
  induction L as [|a r IH]; intros i j Had Hij Hj x; cbn [length] in Hj; [lia|].
  cbn [all_disjoint] in Had. destruct Had as [Ha Had].
  destruct j as [|j]; [lia|]. destruct i as [|i]; cbn [nth].
  - apply Ha. apply nth_In. lia.
  - apply IH; [exact Had|lia|lia].
Qed.

Lemma all_disjoint_nth_ne (L : list (list Z)) i j : all_disjoint L -> i <> j -> (i < length L)%nat -> (j < length L)%nat ->
  forall x, In x (nth i L []) -> ~ In x (nth j L []).
Proof.
  intros Had Hne Hi Hj x Hx Hy. destruct (Nat.lt_ge_cases i j) as [H|H].
  - exact (all_disjoint_nth L i j Had H Hj x Hx Hy).
  - assert (H' : (j < i)%nat) by lia. exact (all_disjoint_nth L j i Had H' Hi x Hy Hx).
Qed.

Lemma ids_nth S i : ids (nth i S empty_mol) = nth i (map ids S) [].
Proof. change (@nil Z) with (ids empty_mol). rewrite map_nth. reflexivity. Qed.

Lemma in_flat_pick S idx x : In x (flat_map ids (pick S empty_mol idx)) <-> exists i, In i idx /\ In x (ids (nth i S empty_mol)).
Proof.
  unfold pick. rewrite in_flat_map. split.
  - intros (m & Hm & Hx). apply in_map_iff in Hm. destruct Hm as (i & <- & Hi). exists i. auto.
  - intros (i & Hi & Hx). exists (nth i S empty_mol). split; [apply in_map_iff; exists i; split; [reflexivity|exact Hi]|exact Hx].
Qed.

Section Pick.
  Variable S : list mol.
  Hypothesis Hgood : good S.

  Lemma good_nth i : (i < length S)%nat ->
    wf_mol (nth i S empty_mol) = true /\ (forall x, In x (ids (nth i S empty_mol)) -> 0 < x) /\ NoDup (ids (nth i S empty_mol)).
  Proof.
    intros Hi. destruct Hgood as [HF _]. rewrite Forall_forall in HF.
    destruct (HF (nth i S empty_mol) (nth_In _ _ Hi)) as [Hw Hp]. split; [exact Hw|]. split; [exact Hp|].
    apply (wf_mol_facts _ Hw).
  Qed.

  Lemma pick_disjoint idx1 idx2 : (forall i, In i idx1 -> (i < length S)%nat) -> (forall i, In i idx2 -> (i < length S)%nat) ->
    (forall i, In i idx1 -> ~ In i idx2) ->
    forall x, In x (flat_map ids (pick S empty_mol idx1)) -> ~ In x (flat_map ids (pick S empty_mol idx2)).
  Proof.
    intros H1 H2 Hd x Hx Hy. apply in_flat_pick in Hx. apply in_flat_pick in Hy.
    destruct Hx as (i & Hi & Hxi). destruct Hy as (j & Hj & Hxj).
    rewrite ids_nth in Hxi, Hxj.
    refine (all_disjoint_nth_ne (map ids S) i j (proj2 Hgood) _ _ _ x Hxi Hxj).
    - intros ->. exact (Hd j Hi Hj).
    - rewrite map_length. auto.
    - rewrite map_length. auto.
  Qed.

  Lemma pick_props : forall idx, (forall i, In i idx -> (i < length S)%nat) -> NoDup idx ->
    Forall (fun m => wf_mol m = true) (pick S empty_mol idx) /\
    all_disjoint (map ids (pick S empty_mol idx)) /\
    NoDup (flat_map ids (pick S empty_mol idx)) /\
    (forall x, In x (flat_map ids (pick S empty_mol idx)) -> 0 < x).
  Proof.
    induction idx as [|i idx IH]; intros Hr Hnd; cbn [pick map flat_map all_disjoint].
    - split; [constructor|]. split; [exact I|]. split; [constructor|intros x []].
    - inversion Hnd as [|? ? Hi Hnd']; subst.
      destruct (IH (fun j Hj => Hr j (or_intror Hj)) Hnd') as (I1 & I2 & I3 & I4).
      destruct (good_nth i (Hr i (or_introl eq_refl))) as (G1 & G2 & G3).
      assert (Hdis : forall x, In x (ids (nth i S empty_mol)) -> ~ In x (flat_map ids (pick S empty_mol idx))).
      { intros x Hx. apply (pick_disjoint [i] idx).
        - intros j [<-|[]]. apply Hr. left. reflexivity.
        - intros j Hj. apply Hr. right. exact Hj.
        - intros j [<-|[]]. exact Hi.
        - cbn. rewrite app_nil_r. exact Hx. }
      split; [constructor; assumption|]. split; [split; [|exact I2]|]. 2: split.
      + intros b Hb x Hx Hxb. apply (Hdis x Hx). fold (pick S empty_mol idx) in Hb.
        apply in_map_iff in Hb. destruct Hb as (m & <- & Hm). apply in_flat_map. exists m. split; assumption.
      + apply NoDup_app_intro; assumption.
      + intros x Hx. apply in_app_or in Hx. destruct Hx as [Hx|Hx]; [apply G2; exact Hx|apply I4; exact Hx].
  Qed.
End Pick.

(* ====================================================================================================
   Reactor.__call__ (one_shot): what is yielded
   ==================================================================================================== *)
Lemma number_from_In {A} : forall (l : list A) s k x, In (k, x) (number_from s l) -> (s <= k)%nat /\ nth_error l (k - s) = Some x.
Proof.
  induction l as [|y l IH]; intros s k x H; cbn [number_from] in H; [destruct H|].
  destruct H as [E|H].
  - inversion E; subst. split; [lia|]. rewrite Nat.sub_diag. reflexivity.
  - destruct (IH _ _ _ H) as [Hs Hn]. split; [lia|]. replace (k - s)%nat with (S (k - S s)) by lia. exact Hn.
Qed.

Lemma number_from_nth {A} : forall (l : list A) s k x, nth_error l k = Some x -> In ((s + k)%nat, x) (number_from s l).
Proof.
  induction l as [|y l IH]; intros s k x H; [destruct k; discriminate|].
  destruct k as [|k]; cbn in H.
  - inversion H; subst. left. rewrite Nat.add_0_r. reflexivity.
  - right. replace (s + S k)%nat with (S s + k)%nat by lia. apply IH. exact H.
Qed.

Lemma Forall2_firstn_nth {A B} (R : A -> B -> Prop) : forall ys l, Forall2 R (firstn (length ys) l) ys ->
  forall k y, nth_error ys k = Some y -> exists x, nth_error l k = Some x /\ R x y.
Proof.
  induction ys as [|y0 ys IH]; intros l F k y Hk; [destruct k; discriminate|].
  destruct l as [|x0 l]; cbn [length firstn] in F; [inversion F|]. inversion F as [|? ? ? ? HR F']; subst.
  destruct k as [|k]; cbn in Hk |- *.
  - inversion Hk; subst. exists x0. auto.
  - apply IH; assumption.
Qed.

Section OneShot.
  Variables (to_del : list Z) (tpl : template).
  Variable matcher : list nat -> list (list (Z * Z)).
  Variable cord : list Z -> list Z.
  Variable splitf : mol -> list mol.
  Variable K : Type.
  Variable key_eqb : K -> K -> bool.
  Variable key : cand -> K.
  Hypothesis Hcord : forall l x, In x (cord l) <-> In x l.
  (* split() distributes the atoms of the product over its parts *)
  Hypothesis Hsplit : forall m, Permutation (flat_map ids (splitf m)) (ids m).
  Hypothesis key_eqb_spec : forall a b, key_eqb a b = true <-> a = b.

  Local Notation stage_fact := (stage_fact to_del tpl matcher cord splitf).

  Lemma stage_cands_fact S chosen cs e :
    stage_cands to_del tpl matcher cord splitf S chosen = (cs, e) -> forall c, In c cs -> c_chosen c = chosen /\ stage_fact S c.
  Proof.
    unfold stage_cands. intros H c Hc.
    destruct (single_stage to_del tpl cord splitf (matcher chosen) (pick S empty_mol chosen)
                (flat_map ids (pick S empty_mol (others (length S) chosen)))) as [news e'] eqn:Es.
    inversion H; subst cs e. clear H.
    apply in_map_iff in Hc. destruct Hc as ([k parts] & <- & Hk). cbn [fst snd c_chosen]. split; [reflexivity|].
    apply number_from_In in Hk. destruct Hk as [_ Hk]. rewrite Nat.sub_0_r in Hk.
    unfold single_stage in Es. destruct (matcher chosen) as [|m0 mr] eqn:Em.
    { inversion Es; subst. destruct k; discriminate. }
    destruct (union_all (pick S empty_mol chosen)) as [united|] eqn:Eu.
    2:{ inversion Es; subst. destruct k; discriminate. }
    destruct (gen_map_spec _ _ _ _ Es) as [F _].
    destruct (Forall2_firstn_nth _ _ _ F k parts Hk) as (mp & Hmp & Hf).
    destruct (stage_one to_del tpl cord united (flat_map ids (pick S empty_mol (others (length S) chosen))) mp) as [out|] eqn:Eo; [|discriminate].
    inversion Hf; subst parts.
    unfold stage_fact. cbn [c_chosen c_match c_products c_reactants]. rewrite Em.
    exists united, mp, out. auto.
  Qed.

  Lemma all_cands_In S : forall choices cs e,
    all_cands to_del tpl matcher cord splitf S choices = (cs, e) ->
    forall c, In c cs -> In (c_chosen c) choices /\ stage_fact S c.
  Proof.
    induction choices as [|ch choices IH]; intros cs e H c Hc; cbn [all_cands] in H.
    - inversion H; subst. destruct Hc.
    - destruct (stage_cands to_del tpl matcher cord splitf S ch) as [cs1 [e1|]] eqn:E1.
      + inversion H; subst. destruct (stage_cands_fact S ch _ _ E1 c Hc) as [<- Hf]. split; [left; reflexivity|exact Hf].
      + destruct (all_cands to_del tpl matcher cord splitf S choices) as [cs2 e2] eqn:E2. inversion H; subst.
        apply in_app_or in Hc. destruct Hc as [Hc|Hc].
        * destruct (stage_cands_fact S ch _ _ E1 c Hc) as [<- Hf]. split; [left; reflexivity|exact Hf].
        * destruct (IH cs2 e eq_refl c Hc) as [Hin Hf]. split; [right; exact Hin|exact Hf].
  Qed.

  (* the products of a candidate (patched product, split, plus the molecules that took no part) share no atom number *)
  Lemma stage_fact_numbers S c : good S -> NoDup (c_chosen c) -> c_chosen c <> [] ->
    (forall i, In i (c_chosen c) -> (i < length S)%nat) -> stage_fact S c -> NoDup (flat_map ids (c_products c)).
  Proof.
    intros Hgood Hnd Hne Hr (united & mp & out & Eu & _ & Eo & Ep & _).
    set (chosen := c_chosen c) in *. set (ign := pick S empty_mol (others (length S) chosen)) in *.
    destruct (pick_props S Hgood chosen Hr Hnd) as (P1 & P2 & P3 & P4).
    destruct (union_all_disjoint (pick S empty_mol chosen)) as (u & Eu' & Hwf & Hids); [|exact P1|exact P2|].
    { unfold pick. destruct chosen; [congruence|discriminate]. }
    rewrite Eu in Eu'. inversion Eu'; subst u.
    destruct (stage_one_numbers to_del tpl cord Hcord united (flat_map ids ign) mp out Eo Hwf) as (new & _ & _ & N1 & N2 & _).
    { intros x Hx. rewrite Hids in Hx. apply P4. exact Hx. }
    destruct (pick_props S Hgood (others (length S) chosen)) as (_ & _ & Q3 & _).
    { intros i Hi. apply others_spec in Hi. tauto. }
    { apply others_NoDup. }
    rewrite Ep, flat_map_app. apply NoDup_app_intro.
    - eapply Permutation_NoDup; [apply Permutation_sym; apply Hsplit|exact N1].
    - exact Q3.
    - intros x Hx. apply N2. eapply Permutation_in; [apply Hsplit|exact Hx].
  Qed.

  Theorem one_shot_sound : forall S k cs e,
    one_shot to_del tpl matcher cord splitf K key_eqb key S k = (cs, e) -> good S -> (0 < k)%nat ->
    (* one reaction per distinct key *)
    NoDup (map key cs) /\
    forall c, In c cs ->
      (* it comes from a choice of k different reactants and one match of that choice, through the stage *)
      NoDup (c_chosen c) /\ length (c_chosen c) = k /\ (forall i, In i (c_chosen c) -> (i < length S)%nat) /\
      stage_fact S c /\
      (* and its products, spectators included, share no atom number *)
      NoDup (flat_map ids (c_products c)).
  Proof.
    intros S k cs e H Hgood Hk. unfold one_shot in H.
    destruct (all_cands to_del tpl matcher cord splitf S (perms_k k (seq 0 (length S)))) as [cs0 e0] eqn:Ea.
    inversion H; subst cs e. clear H.
    destruct (dedupe_spec K key_eqb key key_eqb_spec cs0 []) as (D1 & D2 & _).
    split; [exact D2|]. intros c Hc. destruct (D1 c Hc) as [Hin _].
    destruct (all_cands_In S _ _ _ Ea c Hin) as [Hch Hf].
    destruct (perms_k_spec k (seq 0 (length S)) (c_chosen c) (seq_NoDup _ _) Hch) as (N & I & L).
    assert (Hr : forall i, In i (c_chosen c) -> (i < length S)%nat) by (intros i Hi; apply I in Hi; apply in_seq in Hi; lia).
    split; [exact N|]. split; [exact L|]. split; [exact Hr|]. split; [exact Hf|].
    apply (stage_fact_numbers S c Hgood N); [|exact Hr|exact Hf].
    intros E. rewrite E in L. cbn in L. lia.
  Qed.
End OneShot.

Lemma Forall2_nth_l {A B} (R : A -> B -> Prop) : forall l ys, Forall2 R l ys ->
  forall j x, nth_error l j = Some x -> exists y, nth_error ys j = Some y /\ R x y.
Proof.
  induction 1 as [|x0 y0 l ys HR F IH]; intros j x Hj; [destruct j; discriminate|].
  destruct j as [|j]; cbn in Hj |- *.
  - inversion Hj; subst. exists y0. auto.
  - apply IH. exact Hj.
Qed.

Section OneShotComplete.
  Variables (to_del : list Z) (tpl : template).
  Variable matcher : list nat -> list (list (Z * Z)).
  Variable cord : list Z -> list Z.
  Variable splitf : mol -> list mol.
  Variable K : Type.
  Variable key_eqb : K -> K -> bool.
  Variable key : cand -> K.
  Hypothesis key_eqb_spec : forall a b, key_eqb a b = true <-> a = b.
  Variable S : list mol.
  Hypothesis Hgood : good S.
  Hypothesis Hatoms : Forall (fun m => ids m <> []) S.
  Hypothesis Hwt : wf_template tpl = true.

  Local Notation real_matcher := (real_matcher to_del tpl matcher S).

  Lemma stage_cands_total chosen :
    NoDup chosen -> chosen <> [] -> (forall i, In i chosen -> (i < length S)%nat) -> real_matcher [chosen] ->
    exists cs, stage_cands to_del tpl matcher cord splitf S chosen = (cs, None) /\
      length cs = length (matcher chosen) /\
      forall j mp, nth_error (matcher chosen) j = Some mp -> exists c, In c cs /\ c_chosen c = chosen /\ c_match c = j.
  Proof.
    intros Hnd Hne Hr Hreal. unfold stage_cands, single_stage.
    destruct (matcher chosen) as [|m0 mr] eqn:Em.
    { exists []. split; [reflexivity|]. split; [reflexivity|]. intros j mp Hj. destruct j; discriminate. }
    destruct (pick_props S Hgood chosen Hr Hnd) as (P1 & P2 & _ & P4).
    destruct (union_all_disjoint (pick S empty_mol chosen)) as (u & Eu & Hwf & Hids); [|exact P1|exact P2|].
    { unfold pick. destruct chosen; [congruence|discriminate]. }
    rewrite Eu.
    assert (Hune : ids u <> []).
    { rewrite Hids. destruct chosen as [|i0 rest]; [congruence|]. cbn [pick map flat_map].
      rewrite Forall_forall in Hatoms. specialize (Hatoms (nth i0 S empty_mol) (nth_In _ _ (Hr i0 (or_introl eq_refl)))).
      destruct (ids (nth i0 S empty_mol)); [congruence|discriminate]. }
    set (ignored := flat_map ids (pick S empty_mol (others (length S) chosen))).
    set (f := fun mp => match stage_one to_del tpl cord u ignored mp with Ok new => Ok (splitf new) | Err e => Err e end).
    destruct (gen_map_total f (m0 :: mr)) as (news & Eg & F).
    { intros mp Hmp. destruct (stage_one_total to_del tpl cord u ignored mp Hwf) as [out Eo];
        [intros x Hx; rewrite Hids in Hx; apply P4; exact Hx|exact Hune|exact Hwt| |].
      - apply (Hreal chosen u (or_introl eq_refl) Eu). rewrite Em. exact Hmp.
      - exists (splitf out). unfold f. rewrite Eo. reflexivity. }
    fold ignored. fold f. rewrite Eg. eexists. split; [reflexivity|]. split.
    - rewrite map_length. assert (Hl : forall (l : list (list mol)) s, length (number_from s l) = length l)
        by (induction l; intros; cbn; [reflexivity|f_equal; auto]).
      rewrite Hl. symmetry. eapply Forall2_length'. exact F.
    - intros j mp Hj. destruct (Forall2_nth_l _ _ _ F j mp Hj) as (parts & Hp & _).
      pose proof (number_from_nth news 0 j parts Hp) as Hin. cbn [Nat.add] in Hin.
      eexists. split; [apply in_map; exact Hin|]. cbn. split; reflexivity.
  Qed.

  Lemma all_cands_total : forall choices,
    (forall ch, In ch choices -> NoDup ch /\ ch <> [] /\ forall i, In i ch -> (i < length S)%nat) -> real_matcher choices ->
    exists cs, all_cands to_del tpl matcher cord splitf S choices = (cs, None) /\
      forall chosen j mp, In chosen choices -> nth_error (matcher chosen) j = Some mp ->
        exists c, In c cs /\ c_chosen c = chosen /\ c_match c = j.
  Proof.
    induction choices as [|ch choices IH]; intros Hch Hreal; cbn [all_cands].
    - exists []. split; [reflexivity|]. intros chosen j mp [].
    - destruct (Hch ch (or_introl eq_refl)) as (N & Ne & R).
      destruct (stage_cands_total ch N Ne R) as (cs1 & E1 & _ & H1).
      { intros chosen united [<-|[]] Eu. apply (Hreal ch united (or_introl eq_refl) Eu). }
      rewrite E1.
      destruct IH as (cs2 & E2 & H2).
      { intros c Hc. apply Hch. right. exact Hc. }
      { intros chosen united Hin. apply Hreal. right. exact Hin. }
      rewrite E2. exists (cs1 ++ cs2). split; [reflexivity|].
      intros chosen j mp [<-|Hin] Hj.
      + destruct (H1 j mp Hj) as (c & Hc & A & B). exists c. split; [apply in_or_app; left; exact Hc|auto].
      + destruct (H2 chosen j mp Hin Hj) as (c & Hc & A & B). exists c. split; [apply in_or_app; right; exact Hc|auto].
  Qed.

  (* when the matcher returns real matches nothing raises, every (choice, match) pair gives a candidate, and the key of
     every candidate is among the keys of what is yielded: the yielded list is the image of the match lists, one
     representative per key *)
  Theorem one_shot_complete : forall k, (0 < k)%nat -> real_matcher (perms_k k (seq 0 (length S))) ->
    exists cs, one_shot to_del tpl matcher cord splitf K key_eqb key S k = (cs, None) /\
      forall chosen j mp, In chosen (perms_k k (seq 0 (length S))) -> nth_error (matcher chosen) j = Some mp ->
        exists c, c_chosen c = chosen /\ c_match c = j /\ stage_fact to_del tpl matcher cord splitf S c /\ In (key c) (map key cs).
  Proof.
    intros k Hk Hreal. unfold one_shot.
    destruct (all_cands_total (perms_k k (seq 0 (length S)))) as (cs0 & Ea & Hall); [|exact Hreal|].
    { intros ch Hch. destruct (perms_k_spec k _ ch (seq_NoDup _ _) Hch) as (N & I & L). split; [exact N|]. split.
      - intros E. rewrite E in L. cbn in L. lia.
      - intros i Hi. apply I in Hi. apply in_seq in Hi. lia. }
    rewrite Ea. eexists. split; [reflexivity|].
    intros chosen j mp Hin Hj. destruct (Hall chosen j mp Hin Hj) as (c & Hc & A & B).
    exists c. split; [exact A|]. split; [exact B|]. split.
    - apply (all_cands_In to_del tpl matcher cord splitf S _ _ _ Ea c Hc).
    - destruct (dedupe_spec K key_eqb key key_eqb_spec cs0 []) as (_ & _ & D3). destruct (D3 c Hc) as [[]|H]. exact H.
  Qed.
End OneShotComplete.

(* ---------- non-vacuity: acetaldehyde + ammonia + a spectator methane; the new atom collides with the spectator ---------- *)
Definition os_S : list mol :=
  [mkMol [(1, mkAtom 6 None 0 false (Some 3) None); (2, mkAtom 6 None 0 false (Some 1) None); (3, mkAtom 8 None 0 false (Some 0) None)]
         [(1, [(2, mkBond 1 None)]); (2, [(1, mkBond 1 None); (3, mkBond 2 None)]); (3, [(2, mkBond 2 None)])];
   mkMol [(4, mkAtom 7 None 0 false (Some 3) None)] [(4, [])];
   mkMol [(5, mkAtom 6 None 0 false (Some 4) None)] [(5, [])]].
(* [C:1]=[O:2].[N:3] >> [A:1](-[A:2])-[A:3]-[C:7] *)
Definition os_tpl : template :=
  mkTpl [(1, RAny 0 false); (2, RAny 0 false); (3, RAny 0 false); (7, RElem 6 None 0 false None)]
        [(1, [(2, mkBond 1 None); (3, mkBond 1 None)]); (2, [(1, mkBond 1 None)]); (3, [(1, mkBond 1 None); (7, mkBond 1 None)]); (7, [(3, mkBond 1 None)])].
Definition os_matcher (chosen : list nat) : list (list (Z * Z)) :=
  if nat_list_eqb chosen [0%nat; 1%nat] then [[(1, 2); (2, 3); (3, 4)]] else [].

Example one_shot_example :
  good os_S /\ Forall (fun m => ids m <> []) os_S /\ wf_template os_tpl = true /\
  ReactorStage.real_matcher [] os_tpl os_matcher os_S (perms_k 2 (seq 0 (length os_S))) /\
  map cand_sig (fst (one_shot [] os_tpl os_matcher (fun l => l) (fun m => [m]) Z Z.eqb (fun c => Z.of_nat (c_match c)) os_S 2))
    = [([0%nat; 1%nat], 0%nat, [1; 2; 3; 4; 5; 6])].
Proof.
  split.
  { split.
    - repeat constructor; try (vm_compute; reflexivity); intros x Hx; vm_compute in Hx;
        repeat (destruct Hx as [<-|Hx]; [reflexivity|]); destruct Hx.
    - cbn. repeat split; intros b Hb x Hx; cbn in *; intuition (subst; cbn in *; intuition discriminate). }
  split; [repeat constructor; discriminate|]. split; [vm_compute; reflexivity|]. split.
  - intros chosen united Hin Eu mp Hmp. unfold os_matcher in Hmp.
    destruct (nat_list_eqb chosen [0%nat; 1%nat]) eqn:E; [|destruct Hmp].
    assert (chosen = [0%nat; 1%nat]).
    { vm_compute in Hin. repeat (destruct Hin as [<-|Hin]; [first [reflexivity|vm_compute in E; discriminate]|]). destruct Hin. }
    subst chosen. vm_compute in Eu. inversion Eu; subst united. destruct Hmp as [<-|[]].
    split; [intros p []|]. split.
    + intros n chg rad Hin'. vm_compute in Hin'.
      destruct Hin' as [E'|[E'|[E'|[E'|[]]]]]; inversion E'; subst; eexists; vm_compute; reflexivity.
    + intros n m Hn. vm_compute in Hn.
      destruct Hn as [<-|[<-|[<-|[<-|[]]]]]; vm_compute; intros E'; inversion E'; subst; auto 10.
  - vm_compute. reflexivity.
Qed.
