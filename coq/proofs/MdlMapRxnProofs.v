(* C11: postprocess_parsed_reaction (model coq/model/MdlMapRxn.v).  What a written reaction carries -- non-zero numbers, distinct inside
   each role, the agents sharing none with reactants / products -- comes back unchanged, molecule by molecule, with no log entry. *)
From Coq Require Import ZArith List String Ascii Bool Lia.
From Model Require Import PyBase Mdl MdlMap MdlMapRxn.
From Proofs Require Import MdlMapProofs.
Import ListNotations.
Open Scope Z_scope.
Local Notation length := List.length.
Local Notation concat := List.concat.

(* ---- phase 1 on distinct non-zero numbers ---- *)
Lemma m1_fold_written ig ms : forall U O l, NoDup ms -> Forall (fun m => m <> 0) ms -> (forall x, In x ms -> ~ In x U) ->
  foldM (m1_step ig) (map Some ms) (mk_m1 U O l) = Ok (mk_m1 (rev ms ++ U) (O ++ ms) l).
Proof.
  induction ms as [|m ms IH]; intros U O l Hnd Hnz HU; [cbn; rewrite app_nil_r; reflexivity|].
  inversion Hnd as [|? ? Hm Hnd']; subst. inversion Hnz as [|? ? Hz Hnz']; subst.
  cbn [map foldM]. unfold m1_step at 1. cbn [map_val m1_used m1_out m1_log].
  replace (m =? 0) with false by (symmetry; apply Z.eqb_neq; exact Hz).
  rewrite zmem_false by (apply HU; left; reflexivity). cbn [bind].
  rewrite IH; [| exact Hnd' | exact Hnz' |].
  - cbn [rev]. rewrite <- !app_assoc. reflexivity.
  - intros x Hx [E | Hin]; [subst x; contradiction | apply (HU x (or_intror Hx) Hin)].
Qed.
Lemma m1_molecule_written ig ms : NoDup ms -> Forall (fun m => m <> 0) ms -> m1_molecule ig (map Some ms) = Ok (ms, 0%nat).
Proof.
  intros Hnd Hnz. unfold m1_molecule. rewrite m1_fold_written by (try assumption; intros x _ H; exact H). reflexivity.
Qed.
Lemma NoDup_app_l {A} (l m : list A) : NoDup (l ++ m) -> NoDup l.
Proof. induction l as [|x l IH]; [constructor|]. cbn. intros H. inversion H; subst. constructor; [rewrite in_app_iff in *; tauto | auto]. Qed.
Lemma NoDup_app_r {A} (l m : list A) : NoDup (l ++ m) -> NoDup m.
Proof. induction l as [|x l IH]; [auto|]. cbn. intros H. inversion H; subst. auto. Qed.
Lemma m1_role_written_acc ig mols : forall F L, NoDup (concat mols) -> Forall (fun m => m <> 0) (concat mols) ->
  foldM (fun acc ms => do r <- m1_molecule ig ms; Ok (fst acc ++ fst r, snd acc ++ [snd r])) (map (map Some) mols) (F, L)
  = Ok (F ++ concat mols, L ++ repeat 0%nat (length mols)).
Proof.
  induction mols as [|ms mols IH]; intros F L Hnd Hnz; [cbn; rewrite !app_nil_r; reflexivity|].
  cbn [concat] in Hnd, Hnz. apply Forall_app in Hnz. destruct Hnz as [Hz1 Hz2].
  cbn [map foldM]. rewrite m1_molecule_written by (try assumption; eapply NoDup_app_l; eassumption). cbn [bind fst snd].
  rewrite IH by (try assumption; eapply NoDup_app_r; eassumption).
  cbn [concat length repeat]. rewrite <- !app_assoc. reflexivity.
Qed.
Lemma m1_role_written ig mols : NoDup (concat mols) -> Forall (fun m => m <> 0) (concat mols) ->
  m1_role ig (map (map Some) mols) = Ok (concat mols, repeat 0%nat (length mols)).
Proof. intros. unfold m1_role. rewrite m1_role_written_acc by assumption. reflexivity. Qed.

(* ---- phase 2 ---- *)
Lemma ppr_role_written ig s l tmp : NoDup tmp -> Forall (fun m => m <> 0) tmp -> ppr_role ig s l tmp = Ok (tmp, s, l).
Proof.
  intros Hnd Hnz. unfold ppr_role. rewrite pp_fold_written by (try assumption; intros x _ H; exact H). reflexivity.
Qed.

(* ---- phase 3 ---- *)
Lemma ppr_reagents_disjoint ig rc pr rg s l : (forall x, In x rg -> ~ In x (rc ++ pr)) -> ppr_reagents ig rc pr rg s l = Ok (rg, s, l).
Proof.
  intros H. unfold ppr_reagents.
  replace (existsb (fun x => zmem x rc || zmem x pr) rg) with false; [reflexivity|].
  symmetry. apply not_true_is_false. intros E. apply existsb_exists in E. destruct E as [x [Hx E]].
  apply (H x Hx). rewrite in_app_iff. apply orb_true_iff in E. destruct E as [E | E]; apply zmem_In in E; tauto.
Qed.

(* ---- phase 5 ---- *)
Lemma split_sizes_concat {X} (mols : list (list X)) : split_sizes (map (@length _) mols) (concat mols) = mols.
Proof.
  induction mols as [|m mols IH]; [reflexivity|]. cbn [map split_sizes concat].
  rewrite firstn_app, Nat.sub_diag, firstn_all, firstn_O, app_nil_r.
  rewrite skipn_app, Nat.sub_diag, skipn_all, skipn_O. cbn [app]. rewrite IH. reflexivity.
Qed.
Lemma map_map_length {X} (mols : list (list X)) : map (@length _) (map (map Some) mols) = map (@length _) mols.
Proof. rewrite map_map. apply map_ext. intros. apply map_length. Qed.

(* the record of a written reaction: numbers unchanged, role by role and molecule by molecule; nothing logged; for both settings of `ignore` *)
Theorem pp_reaction_written ig R P G :
  NoDup (concat R) -> NoDup (concat P) -> NoDup (concat G) ->
  Forall (fun m => m <> 0) (concat R) -> Forall (fun m => m <> 0) (concat P) -> Forall (fun m => m <> 0) (concat G) ->
  (forall x, In x (concat G) -> ~ In x (concat R ++ concat P)) ->
  pp_reaction false ig (map (map Some) R) (map (map Some) P) (map (map Some) G)
  = Ok (mk_pprr R P G 0%nat (repeat 0%nat (length R) ++ repeat 0%nat (length P) ++ repeat 0%nat (length G))).
Proof.
  intros NR NP NG ZR ZP ZG HD. unfold pp_reaction.
  rewrite !m1_role_written by assumption. cbn [bind fst snd].
  rewrite (ppr_role_written ig _ _ (concat R)) by assumption. cbn [bind].
  rewrite (ppr_role_written ig _ _ (concat P)) by assumption. cbn [bind].
  rewrite (ppr_role_written ig _ _ (concat G)) by assumption. cbn [bind].
  rewrite ppr_reagents_disjoint by assumption. cbn [bind shift_down fold_left].
  rewrite !map_map_length, !split_sizes_concat. reflexivity.
Qed.

(* non-vacuity: CCO + CC(=O)O -> ester + water over H2SO4-like agent numbered apart *)
Example pp_reaction_written_instance :
  pp_reaction false true [[Some 1; Some 2; Some 3]; [Some 4; Some 5; Some 6; Some 7]] [[Some 4; Some 5; Some 6; Some 3; Some 2; Some 1]; [Some 7]] [[Some 12; Some 9]]
  = Ok (mk_pprr [[1; 2; 3]; [4; 5; 6; 7]] [[4; 5; 6; 3; 2; 1]; [7]] [[12; 9]] 0%nat [0; 0; 0; 0; 0]%nat).
Proof. vm_compute. reflexivity. Qed.
