(* C08 -- canonical bracket bodies are admissible atoms of the denotation theorems: for every record p of the documented subset the
   spelling spell_query p is non-empty, bracket-free and parses back to p, so a pattern whose bracket atoms are spelled from
   records denotes exactly those records (query_roundtrip composed with the tree / ring / multi-component denotations). *)
From Coq Require Import ZArith List String Ascii Bool Lia.
From Gen Require Import Elements TokenTables SmartsTables.
From Model Require Import PyBase Graph PeriodicTable Tokenize Smarts Query SmartsFull.
From Proofs Require Import SmartsRoundtrip SmartsDenote SmartsDenoteText SmartsTree SmartsTreeText.
Import ListNotations.
Open Scope Z_scope.

Definition nb (c : ascii) : bool := negb (Ascii.eqb c "[" || Ascii.eqb c "]").
Lemma digit_nb c : Query.is_digit c = true -> nb c = true.
Proof. destruct c as [[] [] [] [] [] [] [] []]; vm_compute; intros; try reflexivity; discriminate. Qed.
Lemma alpha_nb c : is_alpha c = true -> nb c = true.
Proof. destruct c as [[] [] [] [] [] [] [] []]; vm_compute; intros; try reflexivity; discriminate. Qed.

Lemma nat_nb n : 0 <= n -> forallb nb (spell_nat n) = true.
Proof. intros H. destruct (spell_nat_spec n H) as [S1 _]. eapply forallb_imp; [|exact S1]. apply digit_nb. Qed.

Lemma join_nb sep xs : nb sep = true -> Forall (fun x => forallb nb x = true) xs -> forallb nb (join sep xs) = true.
Proof.
  intros Hs H. induction H as [|x r Hx Hr IH]; [reflexivity|]. destruct r as [|y r'].
  - exact Hx.
  - change (join sep (x :: y :: r')) with (x ++ sep :: join sep (y :: r'))%list. rewrite forallb_app, Hx. cbn [forallb andb]. rewrite Hs. exact IH.
Qed.

Lemma elt_nb e : elt_ok e -> forallb nb (spell_elt e) = true.
Proof.
  destruct e as [n|s]; cbn [elt_ok spell_elt].
  - intros H. cbn [forallb]. rewrite nat_nb by exact H. reflexivity.
  - intros [_ Ha]. eapply forallb_imp; [|exact Ha]. apply alpha_nb.
Qed.

Lemma prim_nb t vs : nb t = true -> Forall (fun v => 0 <= v) vs -> forallb nb (spell_prim t vs) = true.
Proof.
  intros Ht Hv. unfold spell_prim. apply join_nb; [reflexivity|]. apply Forall_map. eapply Forall_impl; [|exact Hv].
  intros v H. cbn [forallb]. rewrite Ht, nat_nb by exact H. reflexivity.
Qed.

Lemma flat_nb ps : Forall (fun x => forallb nb x = true) ps -> forallb nb (flat_map (fun s => ";"%char :: s) ps) = true.
Proof. intros H. induction H as [|x r Hx Hr IH]; [reflexivity|]. cbn [flat_map forallb app]. rewrite forallb_app, Hx, IH. reflexivity. Qed.

Lemma prims_nb p : canonical p -> Forall (fun x => forallb nb x = true) (prims_of p).
Proof.
  intros [_ [_ [_ [_ [_ [C1 [C2 [C3 [C4 C5]]]]]]]]]. unfold prims_of, opt_prim.
  assert (S : forall t vs, In t ["D"; "h"; "r"; "x"; "z"]%char -> vals_ok vs -> forallb nb (spell_prim t vs) = true).
  { intros t vs Ht [_ Hv]. apply prim_nb; [|exact Hv]. cbn in Ht. destruct Ht as [<-|[<-|[<-|[<-|[<-|[]]]]]]; reflexivity. }
  apply Forall_app. split.
  { destruct (p_nb p); [constructor; [apply S; [cbn; tauto | exact C1]|constructor]|constructor]. }
  apply Forall_app. split.
  { destruct (p_h p); [constructor; [apply S; [cbn; tauto | exact C2]|constructor]|constructor]. }
  apply Forall_app. split.
  { destruct (p_rings p) as [[v|l]|]; [constructor; [reflexivity|constructor] | constructor; [apply S; [cbn; tauto | exact C4]|constructor] | constructor]. }
  apply Forall_app. split.
  { destruct (p_het p); [constructor; [apply S; [cbn; tauto | exact C3]|constructor]|constructor]. }
  apply Forall_app. split.
  { destruct (p_hyb p) as [[v|l]|]; [constructor; [reflexivity|constructor] | constructor; [apply S; [cbn; tauto | exact C5]|constructor] | constructor]. }
  destruct (p_masked p); [constructor; [reflexivity|constructor]|constructor].
Qed.

(* the spelling of a canonical record: bracket-free, non-empty, and parsed back to the record *)
Theorem canonical_body_ok p : canonical p -> body_ok (spell_query p) p.
Proof.
  intros Hc. pose proof (query_roundtrip p Hc) as RT. pose proof (prims_nb p Hc) as PN.
  destruct Hc as [C_iso [C_chg [C_map [C_ne [C_els _]]]]].
  split; [|split; [|exact RT]].
  - unfold nobr. change (forallb nb (spell_query p) = true).
    change (spell_query p) with (iso_text (p_isotope p) ++ join "," (map spell_elt (p_element p)) ++ st_text (p_stereo p) ++
                                 chg_text (p_charge p) ++ flat_map (fun s => ";"%char :: s) (prims_of p) ++ map_text (p_mapping p))%list.
    rewrite !forallb_app. repeat (apply andb_true_iff; split).
    + destruct (p_isotope p) as [i|]; [apply nat_nb; exact C_iso | reflexivity].
    + apply join_nb; [reflexivity|]. apply Forall_map. eapply Forall_impl; [|exact C_els]. intros e He. apply elt_nb. exact He.
    + destruct (p_stereo p) as [[]|]; reflexivity.
    + destruct (p_charge p) as [c|]; [|reflexivity]. cbn in C_chg. destruct C_chg as [<-|[<-|[<-|[<-|[<-|[<-|[<-|[<-|[]]]]]]]]]; reflexivity.
    + apply flat_nb. exact PN.
    + destruct (p_mapping p) as [m|]; [|reflexivity]. cbn [map_text forallb]. rewrite nat_nb by lia. reflexivity.
  - destruct (elements_facts (p_element p) C_ne C_els) as [_ [_ [_ [c0 [r0 [E4 _]]]]]].
    change (spell_query p) with (iso_text (p_isotope p) ++ join "," (map spell_elt (p_element p)) ++ st_text (p_stereo p) ++
                                 chg_text (p_charge p) ++ flat_map (fun s => ";"%char :: s) (prims_of p) ++ map_text (p_mapping p))%list.
    rewrite E4. destruct (iso_text (p_isotope p)); discriminate.
Qed.

(* hence: a bracket atom spelled from a canonical record is an admissible atom of every denotation theorem *)
Corollary canonical_atom_ok p : canonical p -> atom_ok (TBr (spell_query p)) p.
Proof. exact (canonical_body_ok p). Qed.

(* the one-atom pattern: smarts('[' + spell(p) + ']') builds exactly the atom of the record, for EVERY canonical record whose
   class accepts its keywords *)
Theorem canonical_single_atom p q : canonical p -> build_atom p = Ok q ->
  smarts_full (string_of_list_ascii (bracket (spell_query p))) = Ok ([atom_result p q], []).
Proof.
  intros Hc Hb.
  pose proof (tree_text_denotation (TNode (TBr (spell_query p)) p TNil) [q]) as D.
  cbn [text_tree atom_text text_forest to_tree to_forest atoms_tree atoms_forest kids_of bonds_forest map combine fst snd] in D.
  rewrite app_nil_r in D. apply D.
  - split; [apply canonical_body_ok; exact Hc | exact I].
  - constructor; [exact Hb | constructor].
  - unfold explicit_maps. cbn [flat_map]. rewrite app_nil_r. destruct (p_mapping p); repeat constructor; intros [].
  - constructor.
Qed.
