(* C11: the V3000 writer / reader field round trip (Model.Mdl: write_mol_v3000, parse_mol_v3000).
   Part A  the tokenizer emol.split on space-joined plain tokens; the continuation-joining loop on written lines
   Part B  per-line codecs: atom line, bond lines (plain / wedged), counts line
   Part C  the block theorem  v3000_fields_roundtrip  and a concrete, non-trivial instance *)
From Coq Require Import ZArith List String Ascii Bool Lia.
From Model Require Import PyBase Mdl.
From Gen Require Import MdlTables.
From Proofs Require Import MdlProofs MdlV2000.
Import ListNotations.
Open Scope Z_scope.
Local Notation length := List.length.
Local Notation concat := List.concat.

(* ================================================================================================ *)
(** * Part A: tokenizer and line joining *)

(** ** plain tokens: non-empty, no space, no opening parenthesis, no double quote *)
Definition tokc (c : ascii) : bool := negb (Ascii.eqb c sp || Ascii.eqb c "("%char || Ascii.eqb c """"%char).
Definition plain (t : str) : Prop := t <> [] /\ Forall (fun c => tokc c = true) t.

Lemma tokc_elim c : tokc c = true ->
  Ascii.eqb c "("%char = false /\ Ascii.eqb c """"%char = false /\ Ascii.eqb c sp = false.
Proof.
  unfold tokc. intros H. apply negb_true_iff in H. apply orb_false_elim in H. destruct H as [H H3].
  apply orb_false_elim in H. destruct H as [H1 H2]. auto.
Qed.

(* the characters of one plain token are pushed on tmp *)
Lemma split3_aux_tok tok : forall rest collect tmp, Forall (fun c => tokc c = true) tok ->
  split3_aux (tok ++ rest) collect tmp None = split3_aux rest collect (rev tok ++ tmp) None.
Proof.
  induction tok as [|c tok IH]; intros rest collect tmp H; [reflexivity|].
  inversion H as [|? ? Hc Ht]; subst. destruct (tokc_elim c Hc) as [H1 [H2 H3]].
  cbn [app split3_aux]. rewrite H1, H2, H3. rewrite IH by exact Ht. cbn [rev]. rewrite <- app_assoc. reflexivity.
Qed.

(* a space after a non-empty token closes it *)
Lemma split3_aux_sp rest collect tmp : tmp <> [] ->
  split3_aux (sp :: rest) collect tmp None = split3_aux rest (collect ++ [rev tmp]) [] None.
Proof. intros H. destruct tmp; [contradiction | reflexivity]. Qed.

(* end of the string *)
Lemma split3_aux_end collect tmp : tmp <> [] -> split3_aux [] collect tmp None = collect ++ [rev tmp].
Proof. intros H. destruct tmp; [contradiction | reflexivity]. Qed.

Lemma rev_nonempty {A} (l : list A) : l <> [] -> rev l <> [].
Proof. intros H E. apply H. rewrite <- (rev_involutive l), E. reflexivity. Qed.

Lemma join_cons2 sep x y r : join sep (x :: y :: r) = x ++ sep ++ join sep (y :: r).
Proof. reflexivity. Qed.

Lemma split3_aux_join toks : forall collect, Forall plain toks ->
  split3_aux (join [sp] toks) collect [] None = collect ++ toks.
Proof.
  induction toks as [|x toks IH]; intros collect H.
  - cbn [join split3_aux]. rewrite app_nil_r. reflexivity.
  - inversion H as [|? ? [Hne Hx] Ht]; subst. destruct toks as [|y toks].
    + cbn [join]. rewrite <- (app_nil_r x) at 1. rewrite split3_aux_tok by exact Hx. rewrite app_nil_r.
      rewrite split3_aux_end by (apply rev_nonempty; exact Hne). rewrite rev_involutive. reflexivity.
    + rewrite join_cons2. cbn [app]. rewrite split3_aux_tok by exact Hx. rewrite app_nil_r.
      rewrite split3_aux_sp by (apply rev_nonempty; exact Hne). rewrite rev_involutive.
      rewrite IH by exact Ht. rewrite <- app_assoc. reflexivity.
Qed.

Theorem split3_join toks : Forall plain toks -> split3 (join [sp] toks) = toks.
Proof. intros H. unfold split3. rewrite split3_aux_join by exact H. reflexivity. Qed.

(** ** plain-ness of what the writer prints *)
Lemma num_char_tokc c : num_char c -> tokc c = true.
Proof.
  intros [H | ->]; [|reflexivity]. apply is_digit_cases in H. cbn in H.
  repeat (destruct H as [<- | H]; [reflexivity|]). contradiction.
Qed.
Lemma plain_zstr n : plain (zstr n).
Proof. split; [apply zstr_nonempty|]. eapply Forall_impl; [|apply zstr_chars]. intros c. apply num_char_tokc. Qed.
Lemma plain_app p t : Forall (fun c => tokc c = true) p -> plain t -> plain (p ++ t).
Proof.
  intros Hp [Hne Ht]. split; [|apply Forall_app; split; assumption].
  intros E. apply app_eq_nil in E. destruct E as [_ E]. contradiction.
Qed.

(** ** the continuation-joining loop on written lines *)
Definition pfx : str := L "M  V30 ".

Definition head_ok (p : str) : Prop := exists c p', p = c :: p' /\ is_space c = false.
Definition tail_ok (q : str) : Prop := exists q' d, q = q' ++ [d] /\ is_space d = false /\ Ascii.eqb "-"%char d = false.
(* a line body: no blank at either end, last character not '-' *)
Definition body_ok (s : str) : Prop := head_ok s /\ tail_ok s.

Lemma endswith_snoc2 a b s c d : endswith [a; b] (s ++ [c; d]) = Ascii.eqb b d && (Ascii.eqb a c && true).
Proof. unfold endswith. rewrite rev_app_distr. reflexivity. Qed.

Lemma body_ok_edges s : body_ok s -> edges_ok is_space s.
Proof.
  intros [[c [p' [E Hc]]] [q' [d [E' [Hd _]]]]]. subst s. unfold edges_ok. split; [exact Hc|].
  rewrite E', last_last. exact Hd.
Qed.

Lemma v3_join_step body r : body_ok body -> v3_join (add_nl (pfx ++ body) :: r) [] = body :: v3_join r [].
Proof.
  intros Hb. pose proof (body_ok_edges body Hb) as He. destruct Hb as [_ [q' [d [E [Hd Hm]]]]].
  cbn [v3_join].
  assert (Hend : endswith [("-")%char; nl] (add_nl (pfx ++ body)) = false).
  { subst body. unfold add_nl. rewrite app_assoc, <- app_assoc. cbn [app]. rewrite endswith_snoc2, Hm. apply andb_false_r. }
  rewrite Hend.
  assert (Hskip : skipn 7 (add_nl (pfx ++ body)) = body ++ [nl]).
  { unfold add_nl. rewrite <- app_assoc. apply skipn_app_exact. reflexivity. }
  rewrite Hskip. f_equal.
  pose proof (strip_by_core is_space [] body [nl] (Forall_nil _) ltac:(repeat constructor) He) as S.
  exact S.
Qed.

Lemma v3_join_bodies bodies rest : Forall body_ok bodies ->
  v3_join (map (fun b => add_nl (pfx ++ b)) bodies ++ rest) [] = bodies ++ v3_join rest [].
Proof.
  induction 1 as [|b bodies Hb _ IH]; [reflexivity|]. cbn [map app]. rewrite v3_join_step by exact Hb. rewrite IH. reflexivity.
Qed.

Corollary v3_join_written bodies : Forall body_ok bodies ->
  v3_join (map add_nl (map (fun b => L "M  V30 " ++ b) bodies)) [] = bodies.
Proof.
  intros H. rewrite map_map. rewrite <- (app_nil_r (map _ bodies)). change (L "M  V30 ") with pfx.
  rewrite v3_join_bodies by exact H. apply app_nil_r.
Qed.

Lemma v3_join_m_end : v3_join [add_nl (L "M  END")] [] = [[]].
Proof. vm_compute. reflexivity. Qed.

(** ** shape of bodies *)
Lemma head_ok_app p q : head_ok p -> head_ok (p ++ q).
Proof. intros [c [p' [-> H]]]. exists c, (p' ++ q). split; [reflexivity | exact H]. Qed.
Lemma tail_ok_app p q : tail_ok q -> tail_ok (p ++ q).
Proof. intros [q' [d [-> H]]]. exists (p ++ q'), d. split; [apply app_assoc | exact H]. Qed.

Lemma head_ok_zstr n : head_ok (zstr n).
Proof.
  pose proof (zstr_nonempty n) as Hne. pose proof (zstr_chars n) as Hc. destruct (zstr n) as [|c r]; [contradiction|].
  exists c, r. split; [reflexivity|]. inversion Hc; subst. apply num_char_not_space. assumption.
Qed.
Lemma digit_not_minus d : is_digit d -> Ascii.eqb "-"%char d = false.
Proof.
  intros H. apply is_digit_cases in H. cbn in H. repeat (destruct H as [<- | H]; [reflexivity|]). contradiction.
Qed.
Lemma tail_ok_digits s : s <> [] -> Forall is_digit s -> tail_ok s.
Proof.
  intros Hne Hd. destruct (exists_last Hne) as [q' [d E]]. exists q', d. split; [exact E|].
  rewrite E in Hd. apply Forall_app in Hd. destruct Hd as [_ Hd]. inversion Hd; subst.
  split; [apply is_digit_not_space | apply digit_not_minus]; assumption.
Qed.
Lemma tail_ok_zstr n : tail_ok (zstr n).
Proof.
  unfold zstr. destruct (n <? 0) eqn:E.
  - apply Z.ltb_lt in E. change (("-")%char :: nat_digits (- n)) with ([("-")%char] ++ nat_digits (- n)).
    apply tail_ok_app. apply tail_ok_digits; [apply nat_digits_nonempty | apply nat_digits_digits; lia].
  - apply Z.ltb_ge in E. apply tail_ok_digits; [apply nat_digits_nonempty | apply nat_digits_digits; lia].
Qed.

Lemma head_ok_join sep t r : head_ok t -> head_ok (join sep (t :: r)).
Proof. intros H. destruct r; [exact H|]. rewrite join_cons2. apply head_ok_app. exact H. Qed.
Lemma tail_ok_join_all sep r : forall t, Forall tail_ok (t :: r) -> tail_ok (join sep (t :: r)).
Proof.
  induction r as [|y r IH]; intros t H; inversion H; subst; [assumption|].
  rewrite join_cons2. apply tail_ok_app, tail_ok_app. apply IH. assumption.
Qed.
Lemma tail_ok_join sep pre t r : Forall tail_ok (t :: r) -> tail_ok (join sep (pre ++ t :: r)).
Proof.
  intros H. induction pre as [|x pre IH]; [apply tail_ok_join_all; exact H|].
  cbn [app]. destruct (pre ++ t :: r) as [|y l] eqn:E; [destruct pre; discriminate|].
  rewrite join_cons2. apply tail_ok_app, tail_ok_app. exact IH.
Qed.

(* ================================================================================================ *)
(** * Part B: per-line codecs (on bodies, i.e. after v3_join) *)

(** ** a. atom line *)
Definition atom_kvs (a : watom) : list str :=
  (if wa_chg a =? 0 then [] else [L "CHG=" ++ zstr (wa_chg a)]) ++
  (if wa_rad a then [L "RAD=2"] else []) ++
  (if iso_truthy (wa_iso a) then [L "MASS=" ++ zstr (iso_val (wa_iso a))] else []).
Definition atom_toks (mapping : bool) (n : Z) (a : watom) : list str :=
  [zstr n; wa_sym a; wa_x a; wa_y a; wa_z a; zstr (if mapping then wa_num a else 0)] ++ atom_kvs a.
Definition atom_body (mapping : bool) (n : Z) (a : watom) : str := join [sp] (atom_toks mapping n a).

Lemma v3_atom_line_body mapping n a : v3_atom_line mapping n a = pfx ++ atom_body mapping n a.
Proof.
  unfold v3_atom_line, atom_body, atom_toks, atom_kvs. cbv zeta. f_equal.
  destruct (wa_chg a =? 0), (wa_rad a), (iso_truthy (wa_iso a)); cbn [app join]; rewrite ?app_nil_r; reflexivity.
Qed.

Lemma atom_kvs_tail a : Forall tail_ok (atom_kvs a).
Proof.
  unfold atom_kvs. repeat (apply Forall_app; split).
  - destruct (wa_chg a =? 0); constructor; [apply tail_ok_app, tail_ok_zstr | constructor].
  - destruct (wa_rad a); constructor; [|constructor]. exists (L "RAD="), "2"%char. repeat split.
  - destruct (iso_truthy (wa_iso a)); constructor; [apply tail_ok_app, tail_ok_zstr | constructor].
Qed.
Lemma atom_body_ok mapping n a : body_ok (atom_body mapping n a).
Proof.
  unfold atom_body, atom_toks. split.
  - apply head_ok_join, head_ok_zstr.
  - change ([zstr n; wa_sym a; wa_x a; wa_y a; wa_z a; zstr (if mapping then wa_num a else 0)] ++ atom_kvs a)
      with ([zstr n; wa_sym a; wa_x a; wa_y a; wa_z a] ++ zstr (if mapping then wa_num a else 0) :: atom_kvs a).
    apply tail_ok_join. constructor; [apply tail_ok_zstr | apply atom_kvs_tail].
Qed.

Record wf3_watom (a : watom) (fx fy fz : fval) : Prop := {
  wf3_px : plain (wa_x a);
  wf3_py : plain (wa_y a);
  wf3_pz : plain (wa_z a);
  wf3_fx : py_float (wa_x a) = Ok fx;
  wf3_fy : py_float (wa_y a) = Ok fy;
  wf3_fz : py_float (wa_z a) = Ok fz;
  wf3_sym : plain (wa_sym a);
  wf3_sym_list : startswith (L "[") (wa_sym a) || startswith (L "NOT") (wa_sym a) = false;   (* atom lists *)
  wf3_sym_star : str_eqb (wa_sym a) (L "*") = false;
  wf3_sym_r : str_eqb (wa_sym a) (L "R#") = false;
  wf3_sym_d : str_eqb (wa_sym a) (L "D") = false }.
Definition wf3_atom (a : watom) (f : fval * fval * fval) : Prop := wf3_watom a (fst (fst f)) (snd (fst f)) (snd f).

Lemma atom_kvs_plain a : Forall plain (atom_kvs a).
Proof.
  unfold atom_kvs. repeat (apply Forall_app; split).
  - destruct (wa_chg a =? 0); constructor; [|constructor]. apply plain_app; [repeat constructor | apply plain_zstr].
  - destruct (wa_rad a); constructor; [|constructor]. split; [discriminate | repeat constructor].
  - destruct (iso_truthy (wa_iso a)); constructor; [|constructor]. apply plain_app; [repeat constructor | apply plain_zstr].
Qed.
Lemma atom_toks_plain mapping n a fx fy fz : wf3_watom a fx fy fz -> Forall plain (atom_toks mapping n a).
Proof.
  intros W. destruct W. unfold atom_toks. apply Forall_app. split; [|apply atom_kvs_plain].
  repeat constructor; try assumption; try (apply plain_zstr; fail); try (destruct wf3_sym0; assumption);
    try (destruct wf3_px0; assumption); try (destruct wf3_py0; assumption); try (destruct wf3_pz0; assumption).
Qed.

(* the key=value loop of one atom line *)
Definition kv_step (icr : option Z * Z * bool) (kv : str) : pyres (option Z * Z * bool) :=
  let '(i, c, r) := icr in
  match split1 "="%char kv with
  | None => Err ValueError
  | Some (k, v) =>
    if str_eqb k (L "CHG") then (do c' <- py_int v; Ok (i, c', r))
    else if str_eqb k (L "MASS") then (do i' <- py_int v; Ok (Some i', c, r))
    else if str_eqb k (L "RAD") then Ok (i, c, true)
    else Ok icr
  end.

Lemma v3_parse_atom_eq st line : v3_parse_atom st line =
  match split3 line with
  | n :: a :: x :: y :: z :: m :: kvs =>
    if startswith (L "[") a || startswith (L "NOT") a then Err ValueError
    else if str_eqb a (L "*") then Ok (mk_v3a (v3_atoms st) (v3_map st) (v3_stars st ++ [n]))
    else if str_eqb a (L "R#") then Err ValueError
    else
      do icr <- foldM kv_step kvs (None, 0, false);
      let '(i, c, r) := icr in
      do ai <- (if str_eqb a (L "D") then (if iso_truthy i then Err ValueError else Ok (L "H", Some 2)) else Ok (a, i));
      let '(a, i) := ai in
      do fx <- py_float x; do fy <- py_float y; do fz <- py_float z; do pm <- py_int m;
      Ok (mk_v3a (v3_atoms st ++ [mk_patom a c i pm fx fy fz None r None])
                 (v3_map st ++ [(n, Z.of_nat (length (v3_atoms st)))]) (v3_stars st))
  | _ => Err ValueError
  end.
Proof. reflexivity. Qed.

Lemma kv_step_chg i c r v : kv_step (i, c, r) (L "CHG=" ++ zstr v) = Ok (i, v, r).
Proof.
  unfold kv_step. change (split1 "="%char (L "CHG=" ++ zstr v)) with (Some (L "CHG", zstr v)).
  change (str_eqb (L "CHG") (L "CHG")) with true. cbv iota. rewrite py_int_zstr. reflexivity.
Qed.
Lemma kv_step_mass i c r v : kv_step (i, c, r) (L "MASS=" ++ zstr v) = Ok (Some v, c, r).
Proof.
  unfold kv_step. change (split1 "="%char (L "MASS=" ++ zstr v)) with (Some (L "MASS", zstr v)).
  change (str_eqb (L "MASS") (L "CHG")) with false. change (str_eqb (L "MASS") (L "MASS")) with true.
  cbv iota. rewrite py_int_zstr. reflexivity.
Qed.
Lemma kv_step_rad i c r : kv_step (i, c, r) (L "RAD=2") = Ok (i, c, true).
Proof. reflexivity. Qed.

Lemma foldM_opt {A S} (f : S -> A -> pyres S) (b : bool) x more s s' :
  (b = true -> f s x = Ok s') -> (b = false -> s' = s) ->
  foldM f ((if b then [x] else []) ++ more) s = foldM f more s'.
Proof.
  destruct b; intros H1 H2; cbn [app foldM].
  - rewrite H1 by reflexivity. reflexivity.
  - rewrite H2 by reflexivity. reflexivity.
Qed.

Lemma atom_kvs_fold a :
  foldM kv_step (atom_kvs a) (None, 0, false) = Ok (if iso_truthy (wa_iso a) then wa_iso a else None, wa_chg a, wa_rad a).
Proof.
  unfold atom_kvs.
  replace (if wa_chg a =? 0 then [] else [L "CHG=" ++ zstr (wa_chg a)])
    with (if negb (wa_chg a =? 0) then [L "CHG=" ++ zstr (wa_chg a)] else []) by (destruct (wa_chg a =? 0); reflexivity).
  rewrite (foldM_opt kv_step _ _ _ _ (None, wa_chg a, false)).
  2:{ intros _. apply kv_step_chg. }
  2:{ intros E. apply negb_false_iff, Z.eqb_eq in E. rewrite E. reflexivity. }
  rewrite (foldM_opt kv_step _ _ _ _ (None, wa_chg a, wa_rad a)).
  2:{ intros E. rewrite E. apply kv_step_rad. }
  2:{ intros E. rewrite E. reflexivity. }
  rewrite <- (app_nil_r (if iso_truthy (wa_iso a) then _ else _)).
  rewrite (foldM_opt kv_step _ _ _ _ (if iso_truthy (wa_iso a) then wa_iso a else None, wa_chg a, wa_rad a)).
  - reflexivity.
  - intros E. rewrite E. rewrite kv_step_mass. destruct (wa_iso a); [reflexivity | discriminate].
  - intros E. rewrite E. reflexivity.
Qed.

Theorem v3_atom_roundtrip mapping n a fx fy fz st : wf3_watom a fx fy fz ->
  v3_parse_atom st (atom_body mapping n a) =
  Ok (mk_v3a (v3_atoms st ++ [mk_patom (wa_sym a) (wa_chg a) (if iso_truthy (wa_iso a) then wa_iso a else None)
                                       (if mapping then wa_num a else 0) fx fy fz None (wa_rad a) None])
             (v3_map st ++ [(zstr n, Z.of_nat (length (v3_atoms st)))]) (v3_stars st)).
Proof.
  intros W. rewrite v3_parse_atom_eq. unfold atom_body.
  rewrite split3_join by (eapply atom_toks_plain; exact W).
  destruct W. unfold atom_toks. cbn [app]. rewrite wf3_sym_list0, wf3_sym_star0, wf3_sym_r0.
  rewrite atom_kvs_fold. cbn [bind]. rewrite wf3_sym_d0. cbn [bind].
  rewrite wf3_fx0, wf3_fy0, wf3_fz0, py_int_zstr. cbn [bind]. reflexivity.
Qed.

(* the written line itself: joined to its body, then parsed *)
Corollary v3_atom_line_roundtrip mapping n a fx fy fz st r : wf3_watom a fx fy fz ->
  v3_join (add_nl (v3_atom_line mapping n a) :: r) [] = atom_body mapping n a :: v3_join r [] /\
  v3_parse_atom st (atom_body mapping n a) =
  Ok (mk_v3a (v3_atoms st ++ [mk_patom (wa_sym a) (wa_chg a) (if iso_truthy (wa_iso a) then wa_iso a else None)
                                       (if mapping then wa_num a else 0) fx fy fz None (wa_rad a) None])
             (v3_map st ++ [(zstr n, Z.of_nat (length (v3_atoms st)))]) (v3_stars st)).
Proof.
  intros W. split; [|apply v3_atom_roundtrip; exact W].
  rewrite v3_atom_line_body. apply v3_join_step. apply atom_body_ok.
Qed.

(** ** b. the atom map: keys are str(1) .. str(N) *)
Lemma zstr_inj a b : zstr a = zstr b -> a = b.
Proof.
  intros E. pose proof (py_int_zstr a) as Ha. rewrite E, py_int_zstr in Ha. inversion Ha. reflexivity.
Qed.

Lemma sassoc_last_notin {V} (vs : list V) n : forall s a, a < s ->
  sassoc_last (combine (map zstr (zrange_from s n)) vs) (zstr a) = None.
Proof.
  revert vs. induction n as [|n IH]; intros vs s a H; [reflexivity|]. destruct vs as [|v vs]; [reflexivity|].
  cbn [zrange_from map combine sassoc_last]. rewrite IH by lia.
  rewrite str_eqb_neq; [reflexivity|]. intros E. apply zstr_inj in E. lia.
Qed.
Lemma sassoc_last_range n : forall s t a, s <= a < s + Z.of_nat n ->
  sassoc_last (combine (map zstr (zrange_from s n)) (zrange_from t n)) (zstr a) = Some (a - s + t).
Proof.
  induction n as [|n IH]; intros s t a H; [cbn in H; lia|].
  cbn [zrange_from map combine sassoc_last]. rewrite Nat2Z.inj_succ in H.
  destruct (Z.eq_dec a s) as [->|Hne].
  - rewrite sassoc_last_notin by lia. rewrite str_eqb_refl. f_equal. lia.
  - rewrite IH by lia. f_equal. lia.
Qed.

(* the state after the atom block of a molecule with N atoms *)
Definition atom_map (n : nat) : list (str * Z) := combine (map zstr (zrange_from 1 n)) (zrange_from 0 n).
Lemma atom_map_get n a : 1 <= a <= Z.of_nat n -> sassoc_last (atom_map n) (zstr a) = Some (a - 1).
Proof. intros H. unfold atom_map. rewrite sassoc_last_range by lia. f_equal. lia. Qed.

(** ** c. bond lines *)
Definition bond_body (i o a b : Z) (kvs : list str) : str := join [sp] ([zstr i; zstr o; zstr a; zstr b] ++ kvs).

Lemma v3_bond_line_plain i o a b : v3_bond_line i o a b [] = pfx ++ bond_body i o a b [].
Proof. unfold v3_bond_line, bond_body. cbn [app join]. rewrite app_nil_r. reflexivity. Qed.
Lemma v3_bond_line_cfg i o a b c : v3_bond_line i o a b (L " CFG=" ++ c) = pfx ++ bond_body i o a b [L "CFG=" ++ c].
Proof. reflexivity. Qed.

Lemma bond_body_ok i o a b kvs : Forall tail_ok kvs -> body_ok (bond_body i o a b kvs).
Proof.
  intros H. unfold bond_body. split.
  - apply head_ok_join, head_ok_zstr.
  - change ([zstr i; zstr o; zstr a; zstr b] ++ kvs) with ([zstr i; zstr o; zstr a] ++ zstr b :: kvs).
    apply tail_ok_join. constructor; [apply tail_ok_zstr | exact H].
Qed.

Definition cfg_stereo (ia ib : Z) (kvs : list str) : list (Z * Z * Z) :=
  match kvs with
  | [kv] => if str_eqb kv (L "CFG=1") then [(ia, ib, 1)] else if str_eqb kv (L "CFG=3") then [(ia, ib, -1)] else []
  | _ => []
  end.

Theorem v3_bond_roundtrip ats st i o a b kvs ia ib :
  v3_stars ats = [] -> 0 <= o <= 8 ->
  sassoc_last (v3_map ats) (zstr a) = Some ia -> sassoc_last (v3_map ats) (zstr b) = Some ib ->
  kvs = [] \/ kvs = [L "CFG=1"] \/ kvs = [L "CFG=3"] ->
  v3_parse_bond ats st (bond_body i o a b kvs) =
  Ok (mk_v3b (v3_bonds st ++ [(ia, ib, o)]) (v3_stereo st ++ cfg_stereo ia ib kvs) (v3_log st)).
Proof.
  intros Hs Ho Ha Hb Hk. unfold v3_parse_bond, bond_body.
  rewrite split3_join.
  2:{ apply Forall_app. split; [repeat constructor; apply plain_zstr|].
      destruct Hk as [->|[->| ->]]; repeat constructor; discriminate. }
  cbn [app]. rewrite Hs. unfold str_mem. cbn [existsb andb]. cbv iota.
  rewrite py_int_zstr. cbn [bind].
  replace ((o =? 9) || (o =? 10)) with false by (symmetry; apply orb_false_intro; apply Z.eqb_neq; lia).
  unfold amap. rewrite Ha, Hb. cbn [of_opt bind]. cbv iota beta.
  destruct Hk as [->|[->| ->]].
  - cbn [foldM bind cfg_stereo]. rewrite !app_nil_r. reflexivity.
  - cbn [foldM]. change (split_char "="%char (L "CFG=1")) with [L "CFG"; L "1"]. cbv iota beta.
    change (str_eqb (L "CFG") (L "CFG")) with true. change (str_eqb (L "1") (L "1")) with true. cbv iota.
    cbn [of_opt bind]. rewrite app_nil_r. reflexivity.
  - cbn [foldM]. change (split_char "="%char (L "CFG=3")) with [L "CFG"; L "3"]. cbv iota beta.
    change (str_eqb (L "CFG") (L "CFG")) with true. change (str_eqb (L "3") (L "1")) with false.
    change (str_eqb (L "3") (L "3")) with true. cbv iota.
    cbn [of_opt bind]. rewrite app_nil_r. reflexivity.
Qed.

Corollary v3_bond_roundtrip_plain ats st i o a b ia ib :
  v3_stars ats = [] -> 0 <= o <= 8 ->
  sassoc_last (v3_map ats) (zstr a) = Some ia -> sassoc_last (v3_map ats) (zstr b) = Some ib ->
  v3_parse_bond ats st (bond_body i o a b []) = Ok (mk_v3b (v3_bonds st ++ [(ia, ib, o)]) (v3_stereo st) (v3_log st)).
Proof. intros. rewrite (v3_bond_roundtrip ats st i o a b [] ia ib); auto. cbn [cfg_stereo]. rewrite app_nil_r. reflexivity. Qed.
Corollary v3_bond_roundtrip_up ats st i o a b ia ib :
  v3_stars ats = [] -> 0 <= o <= 8 ->
  sassoc_last (v3_map ats) (zstr a) = Some ia -> sassoc_last (v3_map ats) (zstr b) = Some ib ->
  v3_parse_bond ats st (bond_body i o a b [L "CFG=1"]) =
  Ok (mk_v3b (v3_bonds st ++ [(ia, ib, o)]) (v3_stereo st ++ [(ia, ib, 1)]) (v3_log st)).
Proof. intros. rewrite (v3_bond_roundtrip ats st i o a b [L "CFG=1"] ia ib); auto. Qed.
Corollary v3_bond_roundtrip_down ats st i o a b ia ib :
  v3_stars ats = [] -> 0 <= o <= 8 ->
  sassoc_last (v3_map ats) (zstr a) = Some ia -> sassoc_last (v3_map ats) (zstr b) = Some ib ->
  v3_parse_bond ats st (bond_body i o a b [L "CFG=3"]) =
  Ok (mk_v3b (v3_bonds st ++ [(ia, ib, o)]) (v3_stereo st ++ [(ia, ib, -1)]) (v3_log st)).
Proof. intros. rewrite (v3_bond_roundtrip ats st i o a b [L "CFG=3"] ia ib); auto. Qed.

(** ** d. counts line: `M  V30 COUNTS na nb 0 0 0` read by data[1][13:].split() *)
Lemma split_ws_aux_tok tok : forall rest cur, Forall (fun c => is_space c = false) tok ->
  split_ws_aux (tok ++ rest) cur = split_ws_aux rest (rev tok ++ cur).
Proof.
  induction tok as [|c tok IH]; intros rest cur H; [reflexivity|]. inversion H as [|? ? Hc Ht]; subst.
  cbn [app split_ws_aux]. rewrite Hc. rewrite IH by exact Ht. cbn [rev]. rewrite <- app_assoc. reflexivity.
Qed.
Lemma split_ws_aux_sp rest cur : cur <> [] -> split_ws_aux (sp :: rest) cur = rev cur :: split_ws_aux rest [].
Proof. intros H. destruct cur; [contradiction | reflexivity]. Qed.

Lemma zstr_no_space n : Forall (fun c => is_space c = false) (zstr n).
Proof. eapply Forall_impl; [|apply zstr_chars]. intros c. apply num_char_not_space. Qed.

Definition v3_counts_line (na nb : Z) : str := L "M  V30 COUNTS " ++ zstr na ++ [sp] ++ zstr nb ++ L " 0 0 0".

Lemma v3_counts_roundtrip na nb :
  split_ws (slice_from 13 (add_nl (v3_counts_line na nb))) = [zstr na; zstr nb; L "0"; L "0"; L "0"].
Proof.
  unfold v3_counts_line, add_nl, slice_from. rewrite <- !app_assoc.
  change (skipn 13 (L "M  V30 COUNTS " ++ zstr na ++ [sp] ++ zstr nb ++ L " 0 0 0" ++ [nl]))
    with (sp :: zstr na ++ sp :: zstr nb ++ L " 0 0 0" ++ [nl]).
  unfold split_ws. change (split_ws_aux (sp :: ?r) []) with (split_ws_aux r []).
  rewrite split_ws_aux_tok by apply zstr_no_space. rewrite app_nil_r.
  rewrite split_ws_aux_sp by (apply rev_nonempty, zstr_nonempty). rewrite rev_involutive. f_equal.
  rewrite split_ws_aux_tok by apply zstr_no_space. rewrite app_nil_r.
  change (L " 0 0 0" ++ [nl]) with (sp :: L "0 0 0" ++ [nl]).
  rewrite split_ws_aux_sp by (apply rev_nonempty, zstr_nonempty). rewrite rev_involutive. f_equal.
Qed.

(* ================================================================================================ *)
(** * Part C: the block round trip *)

(** ** atom block *)
Lemma atoms_block mapping atoms fs : Forall2 wf3_atom atoms fs -> forall s pre pmap stars,
  foldM v3_parse_atom (map (fun na => atom_body mapping (fst na) (snd na)) (enum_from s atoms)) (mk_v3a pre pmap stars) =
  Ok (mk_v3a (pre ++ map2 (expected_atom mapping) atoms fs)
             (pmap ++ combine (map zstr (zrange_from s (length atoms))) (zrange_from (Z.of_nat (length pre)) (length atoms)))
             stars).
Proof.
  induction 1 as [|a f atoms fs W _ IH]; intros s pre pmap stars.
  - cbn [enum_from length zrange_from combine map foldM map2]. rewrite !app_nil_r. reflexivity.
  - unfold enum_from. cbn [length zrange_from combine map foldM fst snd].
    rewrite (v3_atom_roundtrip mapping s a _ _ _ _ W). cbn [bind v3_atoms v3_map v3_stars].
    fold (enum_from (s + 1) atoms). rewrite IH. rewrite app_length. cbn [length map2]. rewrite <- !app_assoc. cbn [app].
    replace (Z.of_nat (length pre + 1)) with (Z.of_nat (length pre) + 1) by lia. reflexivity.
Qed.

Lemma map_snd_enum {A} (l : list A) : forall s, map snd (enum_from s l) = l.
Proof.
  unfold enum_from. induction l as [|x l IH]; intros s; [reflexivity|]. cbn [length zrange_from combine map snd]. rewrite IH. reflexivity.
Qed.
Lemma enum_from_length {A} (l : list A) s : length (enum_from s l) = length l.
Proof. rewrite <- (map_length snd), map_snd_enum. reflexivity. Qed.
Lemma enum_from_in {A} (l : list A) s i x : In (i, x) (enum_from s l) -> In x l.
Proof. unfold enum_from. apply in_combine_r. Qed.

(** ** bond block *)
Definition wedge_body (atoms : list watom) (bonds : list (Z * Z * Z)) (iw : Z * (Z * Z * Z)) : str :=
  let '(i, (n, m, s)) := iw in
  bond_body i (ord bonds n m) (pos atoms n) (pos atoms m) [L "CFG=" ++ (if s =? 1 then L "1" else L "3")].
Definition plain_body (atoms : list watom) (ib : Z * (Z * Z * Z)) : str :=
  let '(i, (n, m, o)) := ib in bond_body i o (pos atoms n) (pos atoms m) [].

Lemma wedge_order atoms bonds w : Forall (bond_ok atoms) bonds -> wedge_ok atoms bonds w ->
  bond_order bonds (fst (fst w)) (snd (fst w)) = Ok (ord bonds (fst (fst w)) (snd (fst w))) /\
  0 <= ord bonds (fst (fst w)) (snd (fst w)) <= 8.
Proof.
  intros Hb [_ [_ [o Ho]]]. unfold ord. rewrite Ho. split; [reflexivity|].
  destruct (bond_order_in _ _ _ _ Ho) as [a [b Hin]]. rewrite Forall_forall in Hb. apply Hb in Hin. destruct Hin as [_ [_ H]]. exact H.
Qed.

Lemma v3_wedge_line_body atoms bonds iw :
  NoDup (map wa_num atoms) -> Forall (bond_ok atoms) bonds -> wedge_ok atoms bonds (snd iw) ->
  v3_wedge_line (index_map atoms) bonds iw = Ok (pfx ++ wedge_body atoms bonds iw).
Proof.
  intros Hnd Hb Hw. destruct (wedge_order atoms bonds _ Hb Hw) as [Ho _]. destruct Hw as [Hn [Hm _]].
  destruct iw as [i [[n m] s]]. cbn [fst snd] in *.
  destruct (idx_pos atoms n Hnd Hn) as [Ei _]. destruct (idx_pos atoms m Hnd Hm) as [Ej _].
  unfold v3_wedge_line, wedge_body. rewrite Ho, Ei, Ej. cbn [bind]. rewrite v3_bond_line_cfg. reflexivity.
Qed.
Lemma v3_plain_line_body atoms ib :
  NoDup (map wa_num atoms) -> bond_ok atoms (snd ib) ->
  v3_plain_line (index_map atoms) ib = Ok (pfx ++ plain_body atoms ib).
Proof.
  intros Hnd [Hn [Hm _]]. destruct ib as [i [[n m] o]]. cbn [fst snd] in *.
  destruct (idx_pos atoms n Hnd Hn) as [Ei _]. destruct (idx_pos atoms m Hnd Hm) as [Ej _].
  unfold v3_plain_line, plain_body. rewrite Ei, Ej. cbn [bind]. rewrite v3_bond_line_plain. reflexivity.
Qed.

Lemma wedge_body_ok atoms bonds iw : body_ok (wedge_body atoms bonds iw).
Proof.
  destruct iw as [i [[n m] s]]. unfold wedge_body. apply bond_body_ok. constructor; [|constructor].
  destruct (s =? 1); [exists (L "CFG="), "1"%char | exists (L "CFG="), "3"%char]; repeat split.
Qed.
Lemma plain_body_ok atoms ib : body_ok (plain_body atoms ib).
Proof. destruct ib as [i [[n m] o]]. unfold plain_body. apply bond_body_ok. constructor. Qed.

Section BondBlock.
  Variables (atoms : list watom) (bonds : list (Z * Z * Z)) (ats : v3atoms).
  Hypothesis Hnd : NoDup (map wa_num atoms).
  Hypothesis Hb : Forall (bond_ok atoms) bonds.
  Hypothesis Hstars : v3_stars ats = [].
  Hypothesis Hmap : v3_map ats = atom_map (length atoms).

  Lemma amap_pos n : In n (map wa_num atoms) -> sassoc_last (v3_map ats) (zstr (pos atoms n)) = Some (pos atoms n - 1).
  Proof. intros Hn. rewrite Hmap. apply atom_map_get. apply (idx_pos atoms n Hnd Hn). Qed.

  Lemma wedge_roundtrip st iw : wedge_ok atoms bonds (snd iw) ->
    v3_parse_bond ats st (wedge_body atoms bonds iw) =
    Ok (mk_v3b (v3_bonds st ++ [exp_wedge_bond atoms bonds (snd iw)]) (v3_stereo st ++ [exp_wedge_stereo atoms (snd iw)]) (v3_log st)).
  Proof.
    intros Hw. destruct (wedge_order atoms bonds _ Hb Hw) as [_ Ho]. destruct Hw as [Hn [Hm _]].
    destruct iw as [i [[n m] s]]. cbn [fst snd] in *. unfold wedge_body, exp_wedge_bond, exp_wedge_stereo. cbn [fst snd].
    rewrite (v3_bond_roundtrip ats st i _ _ _ _ (pos atoms n - 1) (pos atoms m - 1)); try assumption; try (apply amap_pos; assumption).
    - destruct (s =? 1); reflexivity.
    - destruct (s =? 1); [right; left | right; right]; reflexivity.
  Qed.

  Lemma plain_roundtrip st ib : bond_ok atoms (snd ib) ->
    v3_parse_bond ats st (plain_body atoms ib) =
    Ok (mk_v3b (v3_bonds st ++ [exp_plain_bond atoms (snd ib)]) (v3_stereo st) (v3_log st)).
  Proof.
    intros [Hn [Hm Ho]]. destruct ib as [i [[n m] o]]. cbn [fst snd] in *. unfold plain_body, exp_plain_bond. cbn [fst snd].
    rewrite (v3_bond_roundtrip ats st i _ _ _ _ (pos atoms n - 1) (pos atoms m - 1)); try assumption; try (apply amap_pos; assumption).
    - cbn [cfg_stereo]. rewrite app_nil_r. reflexivity.
    - left. reflexivity.
  Qed.

  Lemma wedge_block iws : Forall (fun iw => wedge_ok atoms bonds (snd iw)) iws -> forall st,
    foldM (v3_parse_bond ats) (map (wedge_body atoms bonds) iws) st =
    Ok (mk_v3b (v3_bonds st ++ map (exp_wedge_bond atoms bonds) (map snd iws))
               (v3_stereo st ++ map (exp_wedge_stereo atoms) (map snd iws)) (v3_log st)).
  Proof.
    induction 1 as [|iw iws Hw _ IH]; intros st.
    - cbn [map foldM]. rewrite !app_nil_r. destruct st; reflexivity.
    - cbn [map foldM]. rewrite wedge_roundtrip by exact Hw. cbn [bind]. rewrite IH.
      cbn [v3_bonds v3_stereo v3_log]. rewrite <- !app_assoc. reflexivity.
  Qed.

  Lemma plain_block ibs : Forall (fun ib => bond_ok atoms (snd ib)) ibs -> forall st,
    foldM (v3_parse_bond ats) (map (plain_body atoms) ibs) st =
    Ok (mk_v3b (v3_bonds st ++ map (exp_plain_bond atoms) (map snd ibs)) (v3_stereo st) (v3_log st)).
  Proof.
    induction 1 as [|ib ibs Hw _ IH]; intros st.
    - cbn [map foldM]. rewrite !app_nil_r. destruct st; reflexivity.
    - cbn [map foldM]. rewrite plain_roundtrip by exact Hw. cbn [bind]. rewrite IH.
      cbn [v3_bonds v3_stereo v3_log]. rewrite <- !app_assoc. reflexivity.
  Qed.
End BondBlock.

(** ** the parser on a CTAB whose joined lines are atom bodies, END ATOM, BEGIN BOND, bond bodies, END BOND, END CTAB, "" *)
Lemma firstn_app_exact {A} (a r : list A) n : length a = n -> firstn n (a ++ r) = a.
Proof. intros H. subst n. rewrite firstn_app, Nat.sub_diag, firstn_all. cbn [firstn]. apply app_nil_r. Qed.

Lemma v3_sgroup_tail ats atoms log :
  foldM (v3_sgroup_line ats) [L "END CTAB"; []] (atoms, log, 0%nat) = Ok (atoms, log, 2%nat).
Proof. reflexivity. Qed.

Lemma parse_ctab_structured title l0 l1 l2 rest AB BB na nb ats bs :
  split_ws (slice_from 13 l1) = [zstr (Z.of_nat na); zstr (Z.of_nat nb); L "0"; L "0"; L "0"] -> na <> 0%nat ->
  v3_join rest [] = AB ++ [L "END ATOM"; L "BEGIN BOND"] ++ BB ++ [L "END BOND"; L "END CTAB"; []] ->
  length AB = na -> length BB = nb ->
  foldM v3_parse_atom AB (mk_v3a [] [] []) = Ok ats ->
  foldM (v3_parse_bond ats) BB (mk_v3b [] [] []) = Ok bs ->
  parse_ctab_v3000 title (l0 :: l1 :: l2 :: rest) =
  Ok (mk_parsed3 (mk_parsed title (v3_atoms ats) (v3_bonds bs) (v3_stereo bs) (v3_log bs)) []).
Proof.
  intros Hc Hna Hj HAB HBB Hat Hbs.
  unfold parse_ctab_v3000. cbn [nth_error of_opt bind]. rewrite Hc. rewrite !py_int_zstr. cbn [bind].
  replace (Z.of_nat na =? 0) with false by (symmetry; apply Z.eqb_neq; lia).
  replace ((Z.of_nat na <? 0) || (Z.of_nat nb <? 0)) with false
    by (symmetry; apply orb_false_intro; apply Z.ltb_ge; lia).
  cbn [fold_left]. change (split1 "="%char (L "0")) with (@None (str * str)). cbv iota zeta beta.
  rewrite !Nat2Z.id. cbn [skipn]. rewrite Hj.
  rewrite (firstn_app_exact AB _ na HAB). rewrite Hat. cbn [bind].
  replace (AB ++ [L "END ATOM"; L "BEGIN BOND"] ++ BB ++ [L "END BOND"; L "END CTAB"; []])
    with ((AB ++ [L "END ATOM"; L "BEGIN BOND"]) ++ BB ++ [L "END BOND"; L "END CTAB"; []])
    by (rewrite <- app_assoc; reflexivity).
  rewrite (lslice_mid (AB ++ [L "END ATOM"; L "BEGIN BOND"]) BB _ (2 + na) nb)
    by (try assumption; rewrite app_length, HAB; cbn [length]; lia).
  rewrite Hbs. cbn [bind].
  replace ((AB ++ [L "END ATOM"; L "BEGIN BOND"]) ++ BB ++ [L "END BOND"; L "END CTAB"; []])
    with (((AB ++ [L "END ATOM"; L "BEGIN BOND"]) ++ BB ++ [L "END BOND"]) ++ [L "END CTAB"; []])
    by (rewrite <- !app_assoc; reflexivity).
  rewrite (skipn_app_exact _ [L "END CTAB"; []] (3 + na + nb))
    by (rewrite !app_length, HAB, HBB; cbn [length]; lia).
  rewrite v3_sgroup_tail. cbn [bind]. reflexivity.
Qed.

Lemma fixed_bodies_ok : Forall body_ok [L "END ATOM"; L "BEGIN BOND"; L "END BOND"; L "END CTAB"].
Proof.
  repeat constructor.
  - exists "E"%char, (L "ND ATOM"). repeat split.
  - exists (L "END ATO"), "M"%char. repeat split.
  - exists "B"%char, (L "EGIN BOND"). repeat split.
  - exists (L "BEGIN BON"), "D"%char. repeat split.
  - exists "E"%char, (L "ND BOND"). repeat split.
  - exists (L "END BON"), "D"%char. repeat split.
  - exists "E"%char, (L "ND CTAB"). repeat split.
  - exists (L "END CTA"), "B"%char. repeat split.
Qed.

Theorem v3000_fields_roundtrip mapping g fs :
  Forall2 wf3_atom (wm_atoms g) fs ->
  wm_atoms g <> [] ->
  NoDup (map wa_num (wm_atoms g)) ->
  Forall (bond_ok (wm_atoms g)) (wm_bonds g) ->
  Forall (wedge_ok (wm_atoms g) (wm_bonds g)) (wm_wedge g) ->
  (length (wm_wedge g) + length (plain_bonds g) = length (wm_bonds g))%nat ->
  exists lines, write_mol_v3000 mapping g = Ok lines /\
    parse_mol_v3000 (map add_nl lines) =
    Ok (mk_parsed3
          (mk_parsed (title_of (wm_name g))
                     (map2 (expected_atom mapping) (wm_atoms g) fs)
                     (map (exp_wedge_bond (wm_atoms g) (wm_bonds g)) (wm_wedge g) ++ map (exp_plain_bond (wm_atoms g)) (plain_bonds g))
                     (map (exp_wedge_stereo (wm_atoms g)) (wm_wedge g))
                     [])
          []).
Proof.
  intros Hwf Hne Hnd Hb Hw Hcnt.
  set (AB := map (fun na => atom_body mapping (fst na) (snd na)) (enum_from 1 (wm_atoms g))).
  set (WB := map (wedge_body (wm_atoms g) (wm_bonds g)) (enum_from 1 (wm_wedge g))).
  set (PB := map (plain_body (wm_atoms g)) (enum_from (1 + Z.of_nat (length (wm_wedge g))) (plain_bonds g))).
  assert (Hpl : Forall (bond_ok (wm_atoms g)) (plain_bonds g)).
  { apply Forall_forall. intros b Hin. unfold plain_bonds in Hin. apply filter_In in Hin. destruct Hin as [Hin _].
    rewrite Forall_forall in Hb. apply Hb. exact Hin. }
  assert (Hwe : forall s, Forall (fun iw => wedge_ok (wm_atoms g) (wm_bonds g) (snd iw)) (enum_from s (wm_wedge g))).
  { intros s. apply Forall_forall. intros [i w] Hin. cbn [snd]. rewrite Forall_forall in Hw. apply Hw. eapply enum_from_in. exact Hin. }
  assert (Hpe : forall s, Forall (fun ib => bond_ok (wm_atoms g) (snd ib)) (enum_from s (plain_bonds g))).
  { intros s. apply Forall_forall. intros [i w] Hin. cbn [snd]. rewrite Forall_forall in Hpl. apply Hpl. eapply enum_from_in. exact Hin. }
  assert (Hal : map (fun na => v3_atom_line mapping (fst na) (snd na)) (enum_from 1 (wm_atoms g)) = map (fun b => pfx ++ b) AB).
  { subst AB. rewrite map_map. apply map_ext. intros na. apply v3_atom_line_body. }
  assert (Hwl : mapM (v3_wedge_line (index_map (wm_atoms g)) (wm_bonds g)) (enum_from 1 (wm_wedge g)) = Ok (map (fun b => pfx ++ b) WB)).
  { subst WB. rewrite map_map. apply mapM_ok_map. eapply Forall_impl; [|apply Hwe]. intros iw H. apply v3_wedge_line_body; assumption. }
  assert (Hbl : mapM (v3_plain_line (index_map (wm_atoms g))) (enum_from (1 + Z.of_nat (length (wm_wedge g))) (plain_bonds g)) =
                Ok (map (fun b => pfx ++ b) PB)).
  { subst PB. rewrite map_map. apply mapM_ok_map. eapply Forall_impl; [|apply Hpe]. intros ib H. apply v3_plain_line_body; assumption. }
  unfold write_mol_v3000, write_ctab_v3000. cbv zeta. rewrite Hal, Hwl, Hbl. cbn [bind].
  eexists. split; [reflexivity|].
  set (na := length (wm_atoms g)). set (nb := length (wm_bonds g)).
  match goal with |- parse_mol_v3000 ?x = _ => replace x
    with (add_nl (wm_name g) :: add_nl [] :: add_nl [] :: add_nl (L "  0  0  0     0  0            999 V3000") ::
          add_nl (L "M  V30 BEGIN CTAB") :: add_nl (v3_counts_line (Z.of_nat na) (Z.of_nat nb)) :: add_nl (L "M  V30 BEGIN ATOM") ::
          (map (fun b => add_nl (pfx ++ b)) (AB ++ [L "END ATOM"; L "BEGIN BOND"] ++ (WB ++ PB) ++ [L "END BOND"; L "END CTAB"]) ++
           [add_nl (L "M  END")])) end.
  2:{ unfold v3_header. rewrite !map_app, !map_map, <- !app_assoc. reflexivity. }
  unfold parse_mol_v3000. cbn [nth_error of_opt bind skipn]. rewrite title_add_nl.
  rewrite (parse_ctab_structured _ _ _ _ _ AB (WB ++ PB) na nb
             (mk_v3a (map2 (expected_atom mapping) (wm_atoms g) fs) (atom_map na) [])
             (mk_v3b (map (exp_wedge_bond (wm_atoms g) (wm_bonds g)) (wm_wedge g) ++ map (exp_plain_bond (wm_atoms g)) (plain_bonds g))
                     (map (exp_wedge_stereo (wm_atoms g)) (wm_wedge g)) [])).
  - reflexivity.
  - apply v3_counts_roundtrip.
  - subst na. intros E. apply length_zero_iff_nil in E. contradiction.
  - rewrite v3_join_bodies, v3_join_m_end.
    + rewrite <- !app_assoc. reflexivity.
    + pose proof fixed_bodies_ok as F. inversion F as [|? ? F1 F']; subst. inversion F' as [|? ? F2 F'']; subst.
      apply Forall_app. split.
      { subst AB. apply Forall_forall. intros b Hin. apply in_map_iff in Hin. destruct Hin as [x [<- _]]. apply atom_body_ok. }
      constructor; [exact F1|]. constructor; [exact F2|]. apply Forall_app. split; [|exact F''].
      apply Forall_app. split.
      { subst WB. apply Forall_forall. intros b Hin. apply in_map_iff in Hin. destruct Hin as [x [<- _]]. apply wedge_body_ok. }
      { subst PB. apply Forall_forall. intros b Hin. apply in_map_iff in Hin. destruct Hin as [x [<- _]]. apply plain_body_ok. }
  - subst AB. rewrite map_length, enum_from_length. reflexivity.
  - subst WB PB. rewrite app_length, !map_length, !enum_from_length. exact Hcnt.
  - subst AB. rewrite (atoms_block mapping _ _ Hwf 1 [] [] []). reflexivity.
  - subst WB PB. rewrite foldM_app.
    match goal with |- context [v3_parse_bond ?a] => set (ats := a) end.
    rewrite (wedge_block (wm_atoms g) (wm_bonds g) ats Hnd Hb eq_refl eq_refl _ (Hwe 1)). cbn [bind].
    rewrite (plain_block (wm_atoms g) ats Hnd eq_refl eq_refl _ (Hpe _)).
    cbn [v3_bonds v3_stereo v3_log app]. rewrite !map_snd_enum. reflexivity.
Qed.

(** ** a concrete instance: the hypotheses are satisfiable by a molecule with charged atoms (positive and negative),
       an isotope, a radical, a wedged bond, an order-8 bond, a 3D z coordinate and atom numbers that are not their positions *)
Definition ex3_mol : wmol :=
  mk_wmol (L " test mol ")
    [ mk_watom 7 (L "C") (L "0.0000") (L "1.2500") (L "0") 4 None false;
      mk_watom 3 (L "Cl") (L "-1.5000") (L "0.0000") (L "0") (-1) (Some 37) false;
      mk_watom 12 (L "N") (L "1.5000") (L "-0.7500") (L "0.2500") 0 None true;
      mk_watom 5 (L "O") (L "2.5000") (L "0.0000") (L "0") (-2) (Some 18) true ]
    [ (7, 3, -1); (12, 5, 1) ]
    [ (3, 7, 1); (12, 3, 8); (5, 12, 2); (5, 7, 4) ].
Definition ex3_fs : list (fval * fval * fval) :=
  [ (FDec 0 (-4), FDec 12500 (-4), FDec 0 0);
    (FDec (-15000) (-4), FDec 0 (-4), FDec 0 0);
    (FDec 15000 (-4), FDec (-7500) (-4), FDec 2500 (-4));
    (FDec 25000 (-4), FDec 0 (-4), FDec 0 0) ].
Definition ex3_parsed : parsed3 :=
  mk_parsed3
    (mk_parsed (Some (L "test mol"))
      [ mk_patom (L "C") 4 None 7 (FDec 0 (-4)) (FDec 12500 (-4)) (FDec 0 0) None false None;
        mk_patom (L "Cl") (-1) (Some 37) 3 (FDec (-15000) (-4)) (FDec 0 (-4)) (FDec 0 0) None false None;
        mk_patom (L "N") 0 None 12 (FDec 15000 (-4)) (FDec (-7500) (-4)) (FDec 2500 (-4)) None true None;
        mk_patom (L "O") (-2) (Some 18) 5 (FDec 25000 (-4)) (FDec 0 (-4)) (FDec 0 0) None true None ]
      [(0, 1, 1); (2, 3, 2); (2, 1, 8); (3, 0, 4)] [(0, 1, -1); (2, 3, 1)] (@nil str))
    [].

Lemma plain_closed t : (match t with [] => false | _ => forallb tokc t end) = true -> plain t.
Proof.
  destruct t as [|c r]; [discriminate|]. intros H. split; [discriminate|]. apply Forall_forall. rewrite forallb_forall in H. exact H.
Qed.

Lemma ex3_hypotheses :
  Forall2 wf3_atom (wm_atoms ex3_mol) ex3_fs /\ wm_atoms ex3_mol <> [] /\
  NoDup (map wa_num (wm_atoms ex3_mol)) /\
  Forall (bond_ok (wm_atoms ex3_mol)) (wm_bonds ex3_mol) /\
  Forall (wedge_ok (wm_atoms ex3_mol) (wm_bonds ex3_mol)) (wm_wedge ex3_mol) /\
  (length (wm_wedge ex3_mol) + length (plain_bonds ex3_mol) = length (wm_bonds ex3_mol))%nat.
Proof.
  split; [|split; [|split; [|split; [|split]]]].
  - unfold ex3_mol, ex3_fs. cbn [wm_atoms].
    repeat (apply Forall2_cons || apply Forall2_nil);
      (constructor; cbn [fst snd wa_x wa_y wa_z wa_sym]; try (apply plain_closed); vm_compute; reflexivity).
  - discriminate.
  - cbn. repeat (apply NoDup_cons || apply NoDup_nil); cbn; lia.
  - unfold bond_ok. repeat (apply Forall_cons || apply Forall_nil); cbn; lia.
  - unfold wedge_ok. repeat (apply Forall_cons || apply Forall_nil); cbn [fst snd];
      (split; [cbn; lia|]; split; [cbn; lia|]; eexists; vm_compute; reflexivity).
  - vm_compute. reflexivity.
Qed.

Example ex3_roundtrip :
  exists lines, write_mol_v3000 true ex3_mol = Ok lines /\ parse_mol_v3000 (map add_nl lines) = Ok ex3_parsed.
Proof.
  destruct ex3_hypotheses as [H1 [H2 [H3 [H4 [H5 H6]]]]].
  destruct (v3000_fields_roundtrip true ex3_mol ex3_fs H1 H2 H3 H4 H5 H6) as [lines [Hw Hp]].
  exists lines. split; [exact Hw|]. rewrite Hp. vm_compute. reflexivity.
Qed.

(* the same by direct evaluation of the two models, and the text that is written *)
Example ex3_roundtrip_computed :
  match write_mol_v3000 true ex3_mol with Ok l => parse_mol_v3000 (map add_nl l) | Err e => Err e end = Ok ex3_parsed.
Proof. vm_compute. reflexivity. Qed.

Example ex3_written :
  write_mol_v3000 true ex3_mol =
  Ok [ L " test mol "; []; []; L "  0  0  0     0  0            999 V3000";
       L "M  V30 BEGIN CTAB";
       L "M  V30 COUNTS 4 4 0 0 0";
       L "M  V30 BEGIN ATOM";
       L "M  V30 1 C 0.0000 1.2500 0 7 CHG=4";
       L "M  V30 2 Cl -1.5000 0.0000 0 3 CHG=-1 MASS=37";
       L "M  V30 3 N 1.5000 -0.7500 0.2500 12 RAD=2";
       L "M  V30 4 O 2.5000 0.0000 0 5 CHG=-2 RAD=2 MASS=18";
       L "M  V30 END ATOM";
       L "M  V30 BEGIN BOND";
       L "M  V30 1 1 1 2 CFG=3";
       L "M  V30 2 2 3 4 CFG=1";
       L "M  V30 3 8 3 2";
       L "M  V30 4 4 4 1";
       L "M  V30 END BOND";
       L "M  V30 END CTAB";
       L "M  END" ].
Proof. vm_compute. reflexivity. Qed.

Print Assumptions split3_join.
Print Assumptions v3_atom_roundtrip.
Print Assumptions v3_bond_roundtrip.
Print Assumptions v3000_fields_roundtrip.
Print Assumptions ex3_roundtrip.
