(* C08 -- TIE BY TRANSLATION of QueryElement.from_atom: the function generated statement by statement from the source
   (Gen.FromAtomBody, tools/gen_fromatom.py) never raises on an attached atom and writes exactly the slots of the hand-written
   Query.from_atom, for EVERY labelled atom and EVERY combination of the flags; the stereo slot is the atom's mark iff asked. *)
From Coq Require Import ZArith List Bool.
From Gen Require Import FromAtomBody.
From Model Require Import PyBase Query.
Import ListNotations.
Open Scope Z_scope.

(* the query atom a slot record stands for (a tuple in _ring_sizes: from_atom stores tuple(sorted(..)), fix e7bbf46) *)
Definition gq_qatom (g : gquery) : qatom :=
  QElem (gq_num g) (gq_iso g)
    (mkQX (gq_charge g) (gq_is_radical g) (gq_neighbors g) (gq_hybridization g) (gq_implicit_hydrogens g) (gq_heteroatoms g) (gq_ring_sizes g) false).

Theorem g_from_atom_eq a st f_nb f_hyb f_het f_h f_rings f_st :
  exists g, g_from_atom a st f_nb f_hyb f_het f_h f_rings f_st = Ok g /\
            gq_qatom g = from_atom a f_nb f_hyb f_het f_h f_rings /\ gq_stereo g = (if f_st then st else None).
Proof.
  unfold g_from_atom, from_atom, isinstance_Element. cbn [negb].
  destruct f_nb, f_hyb, f_het, f_h, f_rings, f_st, (la_h a) as [h|]; cbn [andb negb g_is_none];
    (eexists; split; [reflexivity|]; split; [|reflexivity]; unfold gq_qatom, g_or; cbn; try reflexivity; destruct (sort_z (la_rings a)); reflexivity).
Qed.

Lemma g_from_atom_example :
  let a := mkLA 6 (Some 13) (-1) false 3 2 (Some 0) 1 [6; 5] in
  option_map gq_qatom (match g_from_atom a (Some true) true true true true true true with Ok g => Some g | Err _ => None end) =
    Some (QElem 6 (Some 13) (mkQX (-1) false [3] [2] [0] [1] [5; 6] false)) /\
  option_map gq_stereo (match g_from_atom a (Some true) false false false false false true with Ok g => Some g | Err _ => None end) = Some (Some true) /\
  option_map gq_qatom (match g_from_atom (mkLA 8 None 0 false 1 1 None 0 []) None false false false true true false with Ok g => Some g | Err _ => None end) =
    Some (QElem 8 None (mkQX 0 false [] [] [] [] [0] false)).
Proof. vm_compute. repeat split; reflexivity. Qed.
