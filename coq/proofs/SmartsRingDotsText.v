(* C08 -- the full text grammar of the denotation theorems:
     pattern := tree ( "." tree )*
     tree    := atom ( bond closure )* ( "(" bond tree ")" )* ( bond tree )?
   with bracket and unbracketed atoms, documented bond spellings, closure numbers 1-9 and %10 .. %99. *)
From Coq Require Import ZArith List String Ascii Bool Lia.
From Gen Require Import Elements TokenTables SmartsTables.
From Model Require Import PyBase Graph PeriodicTable Tokenize Smarts Query SmartsFull.
From Model Require Parser.
From Proofs Require Import QueryProofs SmartsProofs SmartsDenote SmartsDenoteText SmartsTree SmartsTreeText SmartsRing SmartsRingText
                           SmartsDotsText SmartsRingDots.
Import ListNotations.
Open Scope Z_scope.

Fixpoint text_xcomps (ts : list xtree) : list ascii :=
  match ts with [] => [] | t :: r => ("."%char :: text_xtree t ++ text_xcomps r)%list end.
Fixpoint raw_xcomps (ts : list xtree) : list token :=
  match ts with [] => [] | t :: r => ((4, PNone) :: raw_xtree t ++ raw_xcomps r)%list end.

Lemma xcomps_text_loop ts : forall st rest, aft st -> Forall xok_tree ts ->
  exists st', aft st' /\ flushed st' = (rev (raw_xcomps ts) ++ flushed st)%list /\
              tok_loop tok_step st (text_xcomps ts ++ rest) = tok_loop tok_step st' rest.
Proof.
  induction ts as [|t r IH]; intros st rest Hs Hok.
  - exists st. split; [exact Hs|]. split; reflexivity.
  - inversion Hok as [|? ? Ht Hr]; subst. cbn [text_xcomps raw_xcomps app]. rewrite (dot_loop st _ Hs). rewrite <- app_assoc.
    destruct (proj1 xtext_loop t (mkT (Some 4) PdNone ((4, PNone) :: flushed st)) (text_xcomps r ++ rest)
                ltac:(right; split; [reflexivity | cbn; tauto]) Ht) as [s1 [A1 [F1 E1]]]. rewrite E1.
    destruct (IH s1 rest A1 Hr) as [s2 [A2 [F2 E2]]]. exists s2. split; [exact A2|]. split; [|exact E2].
    rewrite F2, F1. cbn [flushed truthy t_pend t_toks rev]. rewrite !rev_app_distr. rewrite <- !app_assoc. reflexivity.
Qed.

Definition text_xpattern (t : xtree) (ts : list xtree) : list ascii := (text_xtree t ++ text_xcomps ts)%list.

Lemma tokenize_xpattern t ts : xok_tree t -> Forall xok_tree ts ->
  tokenize_raw (string_of_list_ascii (text_xpattern t ts)) = Ok (raw_xtree t ++ raw_xcomps ts)%list.
Proof.
  intros Hok Hts. unfold tokenize_raw, tokenize_raw_with, text_xpattern. rewrite list_ascii_of_string_of_list_ascii.
  destruct (proj1 xtext_loop t t_init (text_xcomps ts) ltac:(right; split; [reflexivity | cbn; tauto]) Hok) as [s1 [A1 [F1 E1]]]. rewrite E1.
  destruct (xcomps_text_loop ts s1 [] A1 Hts) as [st [A [F E]]]. rewrite <- (app_nil_r (text_xcomps ts)), E. cbn [tok_loop].
  cbn [flushed truthy t_init t_pend t_toks] in F1. rewrite app_nil_r in F1.
  unfold tok_finish.
  assert (T : tt_is st 5 = false /\ tt_is st 7 = false /\ tt_is st 11 = false /\ tt_is st 12 = false).
  { destruct st as [ty pd toks]. unfold aft, pendCB in A. cbn [t_type t_pend In] in A.
    repeat match goal with H : _ \/ _ |- _ => destruct H | H : _ /\ _ |- _ => destruct H | H : False |- _ => destruct H end; subst;
      repeat split; reflexivity. }
  destruct T as [-> [-> [-> ->]]]. rewrite F, F1, rev_app_distr, !rev_involutive. reflexivity.
Qed.

Lemma split_xcomps ts : Forall xok_tree ts ->
  split_tokens (raw_xcomps ts) = Ok (tok_rcomps (map to_rtree ts), atoms_rcomps (map to_rtree ts)).
Proof.
  induction ts as [|t r IH]; intros H; [reflexivity|]. inversion H as [|? ? Ht Hr]; subst. cbn [raw_xcomps map tok_rcomps atoms_rcomps].
  pose proof (proj1 split_xtree t (raw_xcomps r) _ _ Ht (IH Hr)) as S.
  etransitivity; [exact (split_step (4, PNone) _ _ _ (STok (4, PNone)) eq_refl S)|]. reflexivity.
Qed.

(* the denotation theorem of the full grammar *)
Theorem full_text_denotation t ts qs bonds :
  xok_tree t -> Forall xok_tree ts -> den_pattern (to_rtree t) (map to_rtree ts) = Some ([], bonds) ->
  Forall2 (fun p q => build_atom p = Ok q) (atoms_rpattern (to_rtree t) (map to_rtree ts)) qs ->
  NoDup (explicit_maps (atoms_rpattern (to_rtree t) (map to_rtree ts))) ->
  distinct_pairs [] bonds -> Forall payload_valid bonds ->
  smarts_full (string_of_list_ascii (text_xpattern t ts)) =
  Ok (map (fun pq => atom_result (fst pq) (snd pq)) (combine (atoms_rpattern (to_rtree t) (map to_rtree ts)) qs), map to_sbond bonds).
Proof.
  intros Hok Hts Hd Hat Hnd Hdp Hv. unfold smarts_full.
  assert (Es : String.eqb (string_of_list_ascii (text_xpattern t ts)) "" = false).
  { destruct t as [[body|u] p cls f]; [reflexivity | destruct u; reflexivity]. }
  rewrite Es, (tokenize_xpattern t ts Hok Hts).
  pose proof (proj1 split_xtree t (raw_xcomps ts) _ _ Hok (split_xcomps ts Hts)) as S. rewrite S.
  apply rpattern_denotation; try assumption.
  - apply (proj1 to_rtree_ok); exact Hok.
  - apply Forall_map. eapply Forall_impl; [|exact Hts]. intros x Hx. apply (proj1 to_rtree_ok); exact Hx.
Qed.

(* non-vacuity: a ring closed across a dot, a branch, bracket and unbracketed atoms *)
Theorem full_text_example :
  let t1 := XNode (TBr (s2l "C;D2")) (qp "C;D2") [(BNone, CD D1)] (XBranch (BCore (CSym Bdouble) None) (XNode (TSym UO) (simple_query "O") [] XNil) XNil) in
  let t2 := XNode (TSym UN) (simple_query "N") [(BCore (CSym Bsingle) None, CD D1)] (XNext BNone (XNode (TSym Uc) (simple_query "C") [] XNil)) in
  xok_tree t1 /\ xok_tree t2 /\ string_of_list_ascii (text_xpattern t1 [t2]) = "[C;D2]1(=O).N-1c"%string /\
  den_pattern (to_rtree t1) [to_rtree t2] = Some ([], [(1, 0, PInt 2); (2, 0, PInt 1); (3, 2, PInt 1)]) /\
  smarts_full "[C;D2]1(=O).N-1c" =
  Ok ([(QElem 6 None (mkQX 0 false [2] [] [] [] [] false), None); (QElem 8 None (mkQX 0 false [] [] [] [] [] false), None);
       (QElem 7 None (mkQX 0 false [] [] [] [] [] false), None); (QElem 6 None (mkQX 0 false [] [] [] [] [] false), None)],
      [mkSB 1 0 (mkQB [2] None) None; mkSB 2 0 (mkQB [1] None) None; mkSB 3 2 (mkQB [1] None) None]).
Proof.
  cbv zeta. split; [|split; [|split; [vm_compute; reflexivity | split; vm_compute; reflexivity]]].
  - cbn. repeat split; try exact I; try reflexivity; try discriminate; repeat (first [apply Forall_nil | apply Forall_cons]); try exact I;
      vm_compute; reflexivity.
  - cbn. repeat split; try exact I; try reflexivity; repeat (first [apply Forall_nil | apply Forall_cons]); exact I.
Qed.
