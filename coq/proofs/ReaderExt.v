(* Extension of ReaderProofs: mapping_numbers for reactions IN FULL (postprocess_parsed_reaction): reagent re-numbering and the
   remap=True squeeze. *)
From Coq Require Import ZArith List String Ascii Bool Lia.
From Model Require Import PyBase Tokenize Parser Reader.
From Proofs Require Import TokenizeProofs ParserProofs ReaderProofs.
Import ListNotations.
Open Scope Z_scope.

(* ------------------------------------------------------------------------------------------------ the reagent re-numbering *)
Definition refresh (common g1 : list Z) (acc : list Z * Z) : list Z * Z :=
  fold_left (fun (a : list Z * Z) x => if zmem x common then (fst a ++ [snd a], snd a + 1) else (fst a ++ [x], snd a)) g1 acc.

Lemma NoDup_mid {A} (a : list A) x r : NoDup (a ++ x :: r) <-> NoDup ((a ++ [x]) ++ r).
Proof. rewrite <- app_assoc. reflexivity. Qed.

Lemma refresh_spec common g1 : forall acc n g2 n4,
  refresh common g1 (acc, n) = (g2, n4) -> NoDup (acc ++ g1) -> (forall x, In x (acc ++ g1) -> x < n) ->
  NoDup g2 /\ n <= n4 /\ (forall y, In y g2 -> In y acc \/ (In y g1 /\ zmem y common = false) \/ n <= y < n4).
Proof.
  unfold refresh. induction g1 as [|x r IH]; intros acc n g2 n4 H ND Hlt; cbn [fold_left fst snd] in H.
  - inversion H; subst. rewrite app_nil_r in ND. split; [exact ND|]. split; [lia|]. intros y Hy. left. exact Hy.
  - destruct (zmem x common) eqn:Ex.
    + assert (ND' : NoDup ((acc ++ [n]) ++ r)).
      { apply NoDup_mid. apply NoDup_remove_1 in ND as ND1. 
        assert (Hn : ~ In n (acc ++ r)).
        { intros Hin. assert (n < n); [|lia]. apply Hlt. apply in_app_or in Hin. apply in_or_app. destruct Hin; [left | right; right]; assumption. }
        clear - ND1 Hn. induction acc as [|a acc IHa]; cbn in *.
        - constructor; assumption.
        - inversion ND1; subst. constructor.
          + intros Hin. apply in_app_or in Hin. destruct Hin as [Hin | [<- | Hin]]; [apply H1; apply in_or_app; left; exact Hin | apply Hn; left; reflexivity | apply H1; apply in_or_app; right; exact Hin].
          + apply IHa; [assumption | intros Hin; apply Hn; right; exact Hin]. }
      destruct (IH (acc ++ [n]) (n + 1) g2 n4 H ND') as [I1 [I2 I3]].
      { intros y Hy. rewrite <- app_assoc in Hy. apply in_app_or in Hy. destruct Hy as [Hy | [<- | Hy]]; [|lia|].
        - assert (y < n) by (apply Hlt; apply in_or_app; left; exact Hy). lia.
        - assert (y < n) by (apply Hlt; apply in_or_app; right; right; exact Hy). lia. }
      split; [exact I1|]. split; [lia|]. intros y Hy. destruct (I3 y Hy) as [J | [[J1 J2] | J]].
      * apply in_app_or in J. destruct J as [J | [<- | []]]; [left; exact J | right; right; lia].
      * right. left. split; [right; exact J1 | exact J2].
      * right. right. lia.
    + assert (ND' : NoDup ((acc ++ [x]) ++ r)) by (apply NoDup_mid; exact ND).
      destruct (IH (acc ++ [x]) n g2 n4 H ND') as [I1 [I2 I3]].
      { intros y Hy. apply Hlt. rewrite <- app_assoc in Hy. exact Hy. }
      split; [exact I1|]. split; [exact I2|]. intros y Hy. destruct (I3 y Hy) as [J | [[J1 J2] | J]].
      * apply in_app_or in J. destruct J as [J | [<- | []]]; [left; exact J | right; left; split; [left; reflexivity | exact Ex]].
      * right. left. split; [right; exact J1 | exact J2].
      * right. right. exact J.
Qed.

(* ------------------------------------------------------------------------------------------------ remap=False, in full *)
Definition keeps_maps (maps out : list Z) : Prop :=
  forall i m, nth_error maps i = Some m -> m <> 0 -> ~ In m (firstn i maps) -> nth_error out i = Some m.

(* postprocess_parsed_reaction(remap=False): one number per atom; within the reactants, within the products and within the
   reagents all numbers are pairwise distinct; no reagent number occurs among reactants or products; on the reactant and on the
   product side the first atom carrying a map keeps it (so mapped atoms of the two sides correspond) *)
Theorem mapping_numbers_reaction ignore rs ps gs mR mP mG :
  pp_reaction false ignore rs ps gs = Ok (mR, mP, mG) ->
  List.length (List.concat mR) = List.length (List.concat rs) /\ List.length (List.concat mP) = List.length (List.concat ps) /\
  List.length (List.concat mG) = List.length (List.concat gs) /\
  NoDup (List.concat mR) /\ NoDup (List.concat mP) /\ NoDup (List.concat mG) /\
  (forall x, In x (List.concat mG) -> ~ In x (List.concat mR) /\ ~ In x (List.concat mP)) /\
  keeps_maps (List.concat rs) (List.concat mR) /\ keeps_maps (List.concat ps) (List.concat mP).
Proof.
  unfold pp_reaction. destruct (negb _); [discriminate|].
  set (start := _ + 1).
  assert (Hs : forall m, (In m (List.concat rs) \/ In m (List.concat ps)) \/ In m (List.concat gs) -> m < start).
  { intros m Hm. unfold start.
    pose proof (zmax_list_ge (List.concat rs) 0) as [_ A]. pose proof (zmax_list_ge (List.concat ps) 0) as [_ B].
    pose proof (zmax_list_ge (List.concat gs) 0) as [_ C].
    destruct Hm as [[Hm | Hm] | Hm]; [specialize (A m Hm) | specialize (B m Hm) | specialize (C m Hm)]; lia. }
  destruct (number_loop ignore (List.concat rs) start []) as [[r1 n1]|e] eqn:E1; [|discriminate].
  destruct (number_loop_spec ignore _ start [] r1 n1 (fun m Hm => Hs m (or_introl (or_introl Hm))) (fun u Hu => match Hu with end) E1)
    as [R1 [R2 [R3 [R4 _]]]].
  pose proof (number_loop_good ignore (List.concat rs) start []) as L1. rewrite E1 in L1. cbn in L1.
  destruct (number_loop ignore (List.concat ps) n1 []) as [[p1 n2]|e] eqn:E2; [|discriminate].
  destruct (number_loop_spec ignore _ n1 [] p1 n2 (fun m Hm => ltac:(specialize (Hs m (or_introl (or_intror Hm))); lia))
              (fun u Hu => match Hu with end) E2) as [P1 [P2 [P3 [P4 _]]]].
  pose proof (number_loop_good ignore (List.concat ps) n1 []) as L2. rewrite E2 in L2. cbn in L2.
  destruct (number_loop ignore (List.concat gs) n2 []) as [[g1 n3]|e] eqn:E3; [|discriminate].
  destruct (number_loop_spec ignore _ n2 [] g1 n3 (fun m Hm => ltac:(specialize (Hs m (or_intror Hm)); lia))
              (fun u Hu => match Hu with end) E3) as [G1 [G2 [G3 _]]].
  pose proof (number_loop_good ignore (List.concat gs) n2 []) as L3. rewrite E3 in L3. cbn in L3.
  assert (K : forall (g2 : list Z), List.length g2 = List.length g1 -> NoDup g2 ->
     (forall x, In x g2 -> ~ In x r1 /\ ~ In x p1) ->
     Ok (chunk r1 (map (@List.length Z) rs), chunk p1 (map (@List.length Z) ps), chunk g2 (map (@List.length Z) gs)) = Ok (mR, mP, mG) ->
     List.length (List.concat mR) = List.length (List.concat rs) /\ List.length (List.concat mP) = List.length (List.concat ps) /\
     List.length (List.concat mG) = List.length (List.concat gs) /\
     NoDup (List.concat mR) /\ NoDup (List.concat mP) /\ NoDup (List.concat mG) /\
     (forall x, In x (List.concat mG) -> ~ In x (List.concat mR) /\ ~ In x (List.concat mP)) /\
     keeps_maps (List.concat rs) (List.concat mR) /\ keeps_maps (List.concat ps) (List.concat mP)).
  { intros g2 Hg N2 D2 H. inversion H; subst. rewrite !concat_chunk by lia.
    repeat split; try assumption; try lia; try (apply D2; assumption).
    - intros i m A B C. apply R4; try assumption. intros [].
    - intros i m A B C. apply P4; try assumption. intros []. }
  assert (Low : forall x, In x r1 \/ In x p1 -> x < n3).
  { intros x [Hx | Hx]; [destruct (R3 x Hx) | destruct (P3 x Hx)]; lia. }
  destruct g1 as [|x0 g1'] eqn:Eg.
  { apply (K []); [reflexivity | constructor | intros x []]. }
  rewrite <- Eg in *. clear Eg x0 g1'.
  destruct (filter (fun x => zmem x r1 || zmem x p1) g1) as [|y cm] eqn:Ec.
  { apply (K g1); [reflexivity | exact G2|]. intros x Hx.
    assert (F : (zmem x r1 || zmem x p1) = false).
    { destruct (zmem x r1 || zmem x p1) eqn:E; [|reflexivity].
      assert (In x (filter (fun x => zmem x r1 || zmem x p1) g1)) by (apply filter_In; split; assumption). rewrite Ec in H. destruct H. }
    apply orb_false_iff in F. destruct F as [F1 F2].
    split; intros Hin; apply zmem_In in Hin; congruence. }
  destruct (negb ignore); [discriminate|].
  fold (refresh (y :: cm) g1 ([], n3)).
  destruct (refresh (y :: cm) g1 ([], n3)) as [g2 n4] eqn:Ef.
  pose proof (refresh_length (y :: cm) g1 ([], n3)) as L. fold (refresh (y :: cm) g1 ([], n3)) in L. rewrite Ef in L. cbn [fst List.length] in L.
  destruct (refresh_spec (y :: cm) g1 [] n3 g2 n4 Ef G2) as [F1 [F2 F3]].
  { intros x Hx. destruct (G3 x Hx). lia. }
  apply (K g2); [lia | exact F1|].
  intros x Hx. destruct (F3 x Hx) as [[] | [[J1 J2] | J]].
  - rewrite <- Ec in J2.
    assert (F : (zmem x r1 || zmem x p1) = false).
    { destruct (zmem x r1 || zmem x p1) eqn:E; [|reflexivity].
      assert (Hin : In x (filter (fun x => zmem x r1 || zmem x p1) g1)) by (apply filter_In; split; assumption).
      apply zmem_In in Hin. congruence. }
    apply orb_false_iff in F. destruct F as [F4 F5]. split; intros Hin; apply zmem_In in Hin; congruence.
  - split; intros Hin; [specialize (Low x (or_introl Hin)) | specialize (Low x (or_intror Hin))]; lia.
Qed.

(* ------------------------------------------------------------------------------------------------ the remap=True squeeze *)
(* what `for j in lose: x if x < j else x - 1` does to one number *)
Definition sqz (lose : list Z) (x : Z) : Z := fold_left (fun v j => if v <? j then v else v - 1) lose x.

Lemma squeeze_map lose : forall l,
  fold_left (fun acc j => map (fun x => if x <? j then x else x - 1) acc) lose l = map (sqz lose) l.
Proof.
  induction lose as [|j r IH]; intros l; cbn [fold_left]; [unfold sqz; cbn; rewrite map_id; reflexivity|].
  rewrite IH, map_map. reflexivity.
Qed.

(* strictly descending *)
Fixpoint desc (l : list Z) : Prop := match l with [] => True | j :: r => (forall k, In k r -> k < j) /\ desc r end.
Fixpoint asc (l : list Z) : Prop := match l with [] => True | j :: r => (forall k, In k r -> j < k) /\ asc r end.

Lemma asc_zrange_from n : forall s, asc (zrange_from s n).
Proof. induction n; intros s; cbn; [exact I|]. split; [intros k Hk; apply zrange_from_In in Hk; lia | apply IHn]. Qed.
Lemma asc_filter f l : asc l -> asc (filter f l).
Proof.
  induction l as [|x r IH]; cbn; [tauto|]. intros [H1 H2]. destruct (f x); cbn; [split|]; try (apply IH; exact H2).
  intros k Hk. apply filter_In in Hk. apply H1. tauto.
Qed.
Lemma desc_snoc l x : desc l -> (forall k, In k l -> x < k) -> desc (l ++ [x]).
Proof.
  induction l as [|y r IH]; cbn; intros H1 H2; [split; [intros k [] | exact I]|].
  destruct H1 as [A B]. split.
  - intros k Hk. apply in_app_or in Hk. destruct Hk as [Hk | [<- | []]]; [apply A; exact Hk | apply H2; left; reflexivity].
  - apply IH; [exact B | intros k Hk; apply H2; right; exact Hk].
Qed.
Lemma desc_rev l : asc l -> desc (rev l).
Proof.
  induction l as [|x r IH]; cbn; [tauto|]. intros [H1 H2]. apply desc_snoc; [apply IH; exact H2|].
  intros k Hk. apply in_rev in Hk. apply H1. exact Hk.
Qed.

(* the squeeze is strictly monotone on numbers that are not squeezed out, never goes below 1 and never increases *)
Lemma sqz_mono lose : desc lose -> forall x y, ~ In x lose -> ~ In y lose -> x < y -> sqz lose x < sqz lose y.
Proof.
  unfold sqz. induction lose as [|j r IH]; intros D x y Hx Hy Hlt; cbn [fold_left]; [exact Hlt|].
  destruct D as [D1 D2].
  assert (Nx : x <> j) by (intros ->; apply Hx; left; reflexivity). assert (Ny : y <> j) by (intros ->; apply Hy; left; reflexivity).
  apply IH; [exact D2 | | |].
  - destruct (x <? j) eqn:E; [intros Hin; apply Hx; right; exact Hin|]. apply Z.ltb_ge in E. intros Hin. specialize (D1 _ Hin). lia.
  - destruct (y <? j) eqn:E; [intros Hin; apply Hy; right; exact Hin|]. apply Z.ltb_ge in E. intros Hin. specialize (D1 _ Hin). lia.
  - destruct (x <? j) eqn:E1, (y <? j) eqn:E2; try apply Z.ltb_lt in E1; try apply Z.ltb_lt in E2; try apply Z.ltb_ge in E1; try apply Z.ltb_ge in E2; lia.
Qed.

Lemma sqz_bounds lose : desc lose -> (forall j, In j lose -> 1 <= j) -> forall x, ~ In x lose -> 1 <= x -> 1 <= sqz lose x <= x.
Proof.
  unfold sqz. induction lose as [|j r IH]; intros D Hj x Hx H1; cbn [fold_left]; [lia|].
  destruct D as [D1 D2].
  assert (Nx : x <> j) by (intros ->; apply Hx; left; reflexivity). assert (J1 : 1 <= j) by (apply Hj; left; reflexivity).
  destruct (x <? j) eqn:E.
  - apply IH; [exact D2 | intros k Hk; apply Hj; right; exact Hk | intros Hin; apply Hx; right; exact Hin | exact H1].
  - apply Z.ltb_ge in E.
    destruct (IH D2 (fun k Hk => Hj k (or_intror Hk)) (x - 1)) as [B1 B2]; [intros Hin; specialize (D1 _ Hin); lia | lia | lia].
Qed.

(* postprocess_parsed_reaction(remap=True) = the remap=False numbering followed, number by number, by one function `sq` that
   is strictly monotone on the numbers in use (so every distinctness, disjointness and equality between the three roles is
   preserved), maps them into 1.. and never increases a number *)
Theorem mapping_numbers_reaction_remap ignore rs ps gs mR' mP' mG' :
  pp_reaction true ignore rs ps gs = Ok (mR', mP', mG') ->
  exists mR mP mG sq,
    pp_reaction false ignore rs ps gs = Ok (mR, mP, mG) /\
    List.concat mR' = map sq (List.concat mR) /\ List.concat mP' = map sq (List.concat mP) /\ List.concat mG' = map sq (List.concat mG) /\
    (forall x y, In x (List.concat mR ++ List.concat mP ++ List.concat mG) -> In y (List.concat mR ++ List.concat mP ++ List.concat mG) ->
                 x < y -> sq x < sq y) /\
    (forall x, In x (List.concat mR ++ List.concat mP ++ List.concat mG) -> 1 <= x -> 1 <= sq x <= x).
Proof.
  unfold pp_reaction. destruct (negb _); [discriminate|].
  set (start := _ + 1).
  pose proof (number_loop_good ignore (List.concat rs) start []) as L1.
  destruct (number_loop ignore (List.concat rs) start []) as [[r1 n1]|e]; [|discriminate]. cbn in L1.
  pose proof (number_loop_good ignore (List.concat ps) n1 []) as L2.
  destruct (number_loop ignore (List.concat ps) n1 []) as [[p1 n2]|e]; [|discriminate]. cbn in L2.
  pose proof (number_loop_good ignore (List.concat gs) n2 []) as L3.
  destruct (number_loop ignore (List.concat gs) n2 []) as [[g1 n3]|e]; [|discriminate]. cbn in L3.
  assert (K : forall (g2 : list Z) (n4 : Z), List.length g2 = List.length g1 ->
     Ok (chunk (fold_left (fun acc j => map (fun x => if x <? j then x else x - 1) acc)
                  (rev (filter (fun x => negb (zmem x r1 || zmem x p1 || zmem x g2)) (zrange 1 n4))) r1) (map (@List.length Z) rs),
         chunk (fold_left (fun acc j => map (fun x => if x <? j then x else x - 1) acc)
                  (rev (filter (fun x => negb (zmem x r1 || zmem x p1 || zmem x g2)) (zrange 1 n4))) p1) (map (@List.length Z) ps),
         chunk (fold_left (fun acc j => map (fun x => if x <? j then x else x - 1) acc)
                  (rev (filter (fun x => negb (zmem x r1 || zmem x p1 || zmem x g2)) (zrange 1 n4))) g2) (map (@List.length Z) gs))
       = Ok (mR', mP', mG') ->
     exists mR mP mG sq,
       Ok (chunk r1 (map (@List.length Z) rs), chunk p1 (map (@List.length Z) ps), chunk g2 (map (@List.length Z) gs)) = Ok (mR, mP, mG) /\
       List.concat mR' = map sq (List.concat mR) /\ List.concat mP' = map sq (List.concat mP) /\ List.concat mG' = map sq (List.concat mG) /\
       (forall x y, In x (List.concat mR ++ List.concat mP ++ List.concat mG) -> In y (List.concat mR ++ List.concat mP ++ List.concat mG) ->
                    x < y -> sq x < sq y) /\
       (forall x, In x (List.concat mR ++ List.concat mP ++ List.concat mG) -> 1 <= x -> 1 <= sq x <= x)).
  { intros g2 n4 Hg H. inversion H; subst. clear H.
    set (lose := rev (filter (fun x => negb (zmem x r1 || zmem x p1 || zmem x g2)) (zrange 1 n4))).
    assert (D : desc lose) by (apply desc_rev, asc_filter; unfold zrange; apply asc_zrange_from).
    assert (NL : forall x, In x (r1 ++ p1 ++ g2) -> ~ In x lose).
    { intros x Hx Hin. unfold lose in Hin. apply in_rev in Hin. apply filter_In in Hin. destruct Hin as [_ Hin].
      apply negb_true_iff in Hin. apply orb_false_iff in Hin. destruct Hin as [Hin H3]. apply orb_false_iff in Hin. destruct Hin as [H1 H2].
      apply in_app_or in Hx. destruct Hx as [Hx | Hx]; [apply zmem_In in Hx; congruence|].
      apply in_app_or in Hx. destruct Hx as [Hx | Hx]; apply zmem_In in Hx; congruence. }
    assert (J1 : forall j, In j lose -> 1 <= j).
    { intros j Hin. unfold lose in Hin. apply in_rev in Hin. apply filter_In in Hin. destruct Hin as [Hin _]. apply zrange_In in Hin. lia. }
    exists (chunk r1 (map (@List.length Z) rs)), (chunk p1 (map (@List.length Z) ps)), (chunk g2 (map (@List.length Z) gs)), (sqz lose).
    rewrite !squeeze_map. rewrite !concat_chunk by (rewrite ?map_length; lia).
    split; [reflexivity|]. split; [reflexivity|]. split; [reflexivity|]. split; [reflexivity|]. split.
    - intros x y Hx Hy Hlt. apply sqz_mono; [exact D | apply NL; exact Hx | apply NL; exact Hy | exact Hlt].
    - intros x Hx H1. apply sqz_bounds; [exact D | exact J1 | apply NL; exact Hx | exact H1]. }
  destruct g1 as [|x0 g1'] eqn:Eg; [intros H; apply (K [] n3 eq_refl H)|]. rewrite <- Eg in *. clear Eg x0 g1'.
  destruct (filter (fun x => zmem x r1 || zmem x p1) g1) as [|y cm] eqn:Ec; [intros H; apply (K g1 n3 eq_refl H)|].
  destruct (negb ignore); [discriminate|].
  fold (refresh (y :: cm) g1 ([], n3)).
  pose proof (refresh_length (y :: cm) g1 ([], n3)) as L. fold (refresh (y :: cm) g1 ([], n3)) in L.
  destruct (refresh (y :: cm) g1 ([], n3)) as [g2 n4] eqn:Ef. cbn [fst List.length] in L.
  intros H. apply (K g2 n4); [lia | exact H].
Qed.

Example mapping_numbers_reaction_example :
  pp_reaction false true [[1; 0]; [7]] [[7; 1]] [[1; 0; 3]] = Ok ([[1; 8]; [7]], [[7; 1]], [[10; 9; 3]]) /\
  pp_reaction true true [[1; 0]; [7]] [[7; 1]] [[1; 0; 3]] = Ok ([[1; 4]; [3]], [[3; 1]], [[6; 5; 2]]).
Proof. split; vm_compute; reflexivity. Qed.
