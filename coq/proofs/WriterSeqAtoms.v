(* C02, read_write_graph, atoms clause at the level of the reader's parser: whenever Parser.parse accepts the reader tokens of a
   written token list, the atom list of the parsed record is the list of the written atoms IN WRITTEN ORDER, each with the
   dictionary of its token (stereo mark moved to stereo_atoms as the parser does). *)
From Coq Require Import ZArith List Bool Lia.
From Model Require Import PyBase Graph Writer Tokenize Parser SmilesAst.
From Proofs Require Import WriterWfFlatten WriterWfTree WriterSeqFlatten WriterSeqTree.
Import ListNotations.
Open Scope Z_scope.

Definition strip_stereo (a : atomtok) : atomtok := mkAt (at_el a) (at_iso a) (at_map a) (at_chg a) (at_h a) None.
Definition atom_part (t : token) : list atomtok :=
  let '(ty, v) := t in
  if zmem ty [2; 3; 1; 4; 9; 10; 12; 6] then [] else match v with PAtom a => [strip_stereo a] | _ => [] end.

Lemma step_atoms strong s t s' : step strong s t = Ok s' -> ps_atoms s' = ps_atoms s ++ atom_part t.
Proof.
  destruct t as [ty v]. unfold step, atom_part. intros H.
  destruct (ty =? 2) eqn:E2.
  { apply Z.eqb_eq in E2. subst ty. cbn. rewrite app_nil_r.
    destruct (ps_prev s) as [[pt pv]|]; [destruct (negb (pt =? 4)); [discriminate|]|]; inversion H; reflexivity. }
  destruct (ty =? 3) eqn:E3.
  { apply Z.eqb_eq in E3. subst ty. cbn. rewrite app_nil_r.
    destruct (ps_prev s); [discriminate|]. destruct (ps_stack s); [discriminate|]. inversion H. reflexivity. }
  destruct (zmem ty [1; 4; 9; 10; 12]) eqn:Eb.
  { assert (Hm : zmem ty [2; 3; 1; 4; 9; 10; 12; 6] = true).
    { clear - Eb. cbn [zmem existsb] in *; destruct (ty =? 2), (ty =? 3), (ty =? 1), (ty =? 4), (ty =? 9), (ty =? 10), (ty =? 12), (ty =? 6); cbn in *; try reflexivity; try discriminate. }
    rewrite Hm, app_nil_r. destruct (ps_prev s); [discriminate|]. destruct (ps_atoms s) eqn:Ea; [discriminate|]. inversion H. cbn. exact Ea. }
  destruct (ty =? 6) eqn:E6.
  { assert (Hm : zmem ty [2; 3; 1; 4; 9; 10; 12; 6] = true).
    { apply Z.eqb_eq in E6. subst ty. reflexivity. }
    rewrite Hm, app_nil_r.
    destruct (match ps_prev s with Some (pt, _) => pt =? 4 | None => false end); [discriminate|].
    destruct v; try discriminate. destruct (zget (ps_cycles s) z) as [[[a ob] ind]|].
    - destruct (close_bond strong s a ob) as [[[[b sb] lg] x]|]; [|discriminate].
      destruct (od_set (ps_order s) a ind (Some (ps_last s))); [|discriminate]. inversion H. reflexivity.
    - inversion H. reflexivity. }
  assert (Hm : zmem ty [2; 3; 1; 4; 9; 10; 12; 6] = false).
  { clear - E2 E3 Eb E6. cbn [zmem existsb] in *; destruct (ty =? 2), (ty =? 3), (ty =? 1), (ty =? 4), (ty =? 9), (ty =? 10), (ty =? 12), (ty =? 6); cbn in *; try reflexivity; try discriminate. }
  rewrite Hm.
  match type of H with (match ?X with _ => _ end) = _ => destruct X as [[[bonds order] sb]|]; [|discriminate] end.
  destruct v; try discriminate. inversion H. reflexivity.
Qed.

Lemma loop_atoms strong : forall ts s s', loop strong s ts = Ok s' -> ps_atoms s' = ps_atoms s ++ flat_map atom_part ts.
Proof.
  induction ts as [|t ts IH]; intros s s' H; cbn [loop flat_map] in *.
  - inversion H. rewrite app_nil_r. reflexivity.
  - destruct (step strong s t) as [s1|] eqn:E; [|discriminate]. rewrite (IH _ _ H), (step_atoms _ _ _ _ E), app_assoc. reflexivity.
Qed.

Theorem parse_atoms ts strong rec : parse ts strong = Ok rec -> p_atoms rec = flat_map atom_part ts.
Proof.
  unfold parse. destruct (guard ts); [|discriminate]. destruct (loop strong p_init ts) as [s|] eqn:E; [|discriminate].
  intros H. unfold finish in H. destruct (ps_stack s); [|discriminate]. destruct (ps_cycles s); [|discriminate].
  destruct (ps_prev s); [discriminate|]. inversion H. cbn [p_atoms]. rewrite (loop_atoms _ _ _ _ E). reflexivity.
Qed.

(* the reader tokens of a flattened list: its atoms, in order *)
Section Atoms.
  Variable aty : Z -> Z.
  Variable atk : Z -> atomtok.
  Variable rings : Z -> list (option token * Z).
  Variable bnd : Z -> Z -> option token.
  Hypothesis Haty : forall n, zmem (aty n) [0; 8] = true.
  Hypothesis Hrings : forall n, forallb (fun r : option token * Z => bond_ok (fst r)) (rings n) = true.
  Hypothesis Hbnd : forall p c, bond_ok (bnd p c) = true.

  Lemma bond_ok_part b : bond_ok b = true -> flat_map atom_part (opt_bond b) = [].
  Proof.
    destruct b as [[ty v]|]; [|reflexivity]. cbn [bond_ok opt_bond flat_map atom_part]. intros H.
    assert (Hm : zmem ty [2; 3; 1; 4; 9; 10; 12; 6] = true).
    { clear - H. cbn [zmem existsb] in *; destruct (ty =? 2), (ty =? 3), (ty =? 1), (ty =? 4), (ty =? 9), (ty =? 10), (ty =? 12), (ty =? 6); cbn in *; try reflexivity; try discriminate. }
    rewrite Hm. reflexivity.
  Qed.

  Lemma ring_part rs : forallb (fun r : option token * Z => bond_ok (fst r)) rs = true -> flat_map atom_part (ring_tokens rs) = [].
  Proof.
    induction rs as [|[b k] rs IH]; intros H; [reflexivity|]. cbn [forallb fst] in H. apply andb_true_iff in H. destruct H as [H1 H2].
    unfold ring_tokens in *. cbn [flat_map fst snd]. rewrite !flat_map_app. rewrite (bond_ok_part b H1). cbn [flat_map atom_part app]. apply IH. exact H2.
  Qed.

  Lemma ctoks_atoms smi : flat_map atom_part (ctoks aty atk rings bnd smi) = map (fun n => strip_stereo (atk n)) (atoms_of smi).
  Proof.
    induction smi as [|t smi IH]; [reflexivity|].
    change (ctoks aty atk rings bnd (t :: smi)) with (ctok aty atk rings bnd t ++ ctoks aty atk rings bnd smi).
    rewrite flat_map_app, IH.
    destruct t as [n| | |p c]; cbn [ctok atoms_of map].
    - cbn [flat_map]. rewrite (ring_part _ (Hrings n)). cbn [atom_part app].
      assert (Hm : zmem (aty n) [2; 3; 1; 4; 9; 10; 12; 6] = false).
      { pose proof (Haty n) as H. revert H. generalize (aty n). intros ty H. clear - H. cbn [zmem existsb] in *.
        destruct (ty =? 0) eqn:E0; [apply Z.eqb_eq in E0; subst; reflexivity|]. destruct (ty =? 8) eqn:E8; [apply Z.eqb_eq in E8; subst; reflexivity | discriminate]. }
      rewrite Hm. rewrite app_nil_r. reflexivity.
    - reflexivity.
    - reflexivity.
    - rewrite (bond_ok_part _ (Hbnd p c)). reflexivity.
  Qed.

  (* read_write_graph, atoms clause: the parsed atom list is the written atom list in written order *)
  Theorem written_atoms_parsed : forall smi strong rec,
    parse (ctoks aty atk rings bnd smi) strong = Ok rec -> p_atoms rec = map (fun n => strip_stereo (atk n)) (atoms_of smi).
  Proof. intros smi strong rec H. rewrite (parse_atoms _ _ _ H). apply ctoks_atoms. Qed.
End Atoms.
