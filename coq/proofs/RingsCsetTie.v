(* C06 -- round 4: TIE BY TRANSLATION of _c_set (second half of coq/gen/RingsPidBody.v, regenerated from
   chython/algorithms/rings.py:_c_set by tools/gen_ringspid.py).  The hand-written model functions cset_row / cset_rows /
   rings_of_entry / c_set of coq/model/RingsGen.v are equal, for all arguments, to the translated ones. *)
From Coq Require Import ZArith List Bool Lia.
From Model Require Import PyBase Graph Rings RingsGen.
From Gen Require Import RingsPidBody.
Import ListNotations.
Open Scope Z_scope.

Lemma flat_map_ext_eq {A B} (f g : A -> list B) : (forall a, f a = g a) -> forall l, flat_map f l = flat_map g l.
Proof. intros H l. induction l as [|x l IH]; [reflexivity|]. cbn [flat_map]. rewrite H, IH. reflexivity. Qed.

(* which (c_num, p1ij, p2ij) entries a pair (i, j) contributes: the chain  len(p1ij) == 1 (not p2ij: nothing) | not p2ij | else *)
Lemma cset_j_translated : forall p2 d seen i row, flat_map (gen_cset_j p2 d seen i) row = cset_row p2 d seen i row.
Proof.
  intros p2 d seen i row. unfold cset_row. apply flat_map_ext_eq. intros [j c]. unfold gen_cset_j. cbn [fst snd].
  destruct (zmem j seen); [reflexivity|].
  destruct (d3vals c) as [|a [|b t]]; destruct (d3vals (lookup2 p2 i j)) as [|x y]; reflexivity.
Qed.

Lemma cset_rows_translated : forall p1 p2 d seen, gen_cset_rows p1 p2 d seen = cset_rows p1 p2 d seen.
Proof.
  induction p1 as [|[i row] t IH]; intros p2 d seen; [reflexivity|]. cbn [gen_cset_rows cset_rows].
  rewrite cset_j_translated, IH. reflexivity.
Qed.

Lemma odd_mod2 : forall n, negb (n mod 2 =? 0) = Z.odd n.
Proof. intro n. rewrite Zmod_odd. destruct (Z.odd n); reflexivity. Qed.

(* the parity test c_num % 2, the two loop nests and the duplicate filter of the second loop *)
Lemma rings_of_entry_translated : forall e, gen_rings_of_entry e = rings_of_entry e.
Proof. intros [[c_num p1ij] p2o]. unfold gen_rings_of_entry, rings_of_entry. rewrite odd_mod2. reflexivity. Qed.

Theorem c_set_translated : forall pids, gen_c_set pids = c_set pids.
Proof.
  intros [[p1 p2] d]. unfold gen_c_set, c_set. rewrite cset_rows_translated.
  f_equal. apply map_ext. apply rings_of_entry_translated.
Qed.

(* non-vacuity: the tables of a triangle give the triangle (once per pair of atoms; the selection phase drops duplicates) *)
Example c_set_translated_example :
  gen_c_set (gen_make_pid [[1; 2]; [1; 3]; [2; 3]]) = Ok [[1; 2; 3]; [1; 2; 3]; [1; 2; 3]].
Proof. vm_compute. reflexivity. Qed.
