(* C10: round trip of MoleculeContainer.pack / unpack on one Graph.mol, the registry computed by the model on both sides.
   New here: the registered paths of the DECODED molecule (bond labels not yet attached) are those of the original
   (the registry construction does not look at bond stereo labels), and the decoded object is the original molecule. *)
From Coq Require Import ZArith List Bool Lia ZifyBool.
From Model Require Import PyBase Graph StereoRegistry Pack PackSpec PackApi PackStereo PackStereoSpec PackMol.
From Proofs Require Import PackBits PackRoundtrip PackRoundtripGraph PackRoundtripMol PackApiProofs PackStereoProofs
                           PackStereoDisjoint PackApiRegistry StereoRegistryDisjoint.
Import ListNotations.
Open Scope Z_scope.

(* ------------------------------------------------------------------------------------------------ *)
(* erasing the bond labels *)

Definition erase_bond (mb : Z * bond) : Z * bond := (fst mb, mkBond (b_ord (snd mb)) None).
Definition erase (g : mol) : mol := mkMol (m_atoms g) (map (fun e => (fst e, map erase_bond (snd e))) (m_adj g)).

Lemma zget_map_snd {V W} (f : V -> W) (d : list (Z * V)) k :
  zget (map (fun e => (fst e, f (snd e))) d) k = option_map f (zget d k).
Proof. induction d as [|[k' v] d IH]; [reflexivity|]. cbn [map zget fst snd]. destruct (k =? k'); [reflexivity | exact IH]. Qed.

Lemma nbrs_erase g n : nbrs (erase g) n = map erase_bond (nbrs g n).
Proof. unfold nbrs, erase. cbn [m_adj]. rewrite zget_map_snd. destruct (zget (m_adj g) n); reflexivity. Qed.

Lemma anum_erase g n : anum (erase g) n = anum g n.
Proof. reflexivity. Qed.

Lemma existsb_map {A B} (f : A -> B) p l : existsb p (map f l) = existsb (fun x => p (f x)) l.
Proof. induction l as [|x l IH]; [reflexivity|]. cbn [map existsb]. rewrite IH. reflexivity. Qed.

Lemma filter_map_comm {A B} (f : A -> B) p l : filter p (map f l) = map f (filter (fun x => p (f x)) l).
Proof. induction l as [|x l IH]; [reflexivity|]. cbn [map filter]. destruct (p (f x)); cbn [map]; rewrite IH; reflexivity. Qed.

Lemma zlen_map {A B} (f : A -> B) l : zlen (map f l) = zlen l.
Proof. unfold zlen. rewrite map_length. reflexivity. Qed.

Lemma dbl_adj_erase fd g : dbl_adj fd (erase g) = dbl_adj fd g.
Proof.
  unfold dbl_adj. cbn [m_atoms erase]. apply flat_map_ext. intros na. destruct (fd (a_num (snd na))); [|reflexivity].
  rewrite nbrs_erase, filter_map_comm, map_map. reflexivity.
Qed.

Lemma walk_erase g : forall fuel adj terms n m rpath, walk fuel (erase g) adj terms n m rpath = walk fuel g adj terms n m rpath.
Proof.
  induction fuel as [|k IH]; intros adj terms n m rpath; cbn [walk]; [reflexivity|].
  rewrite nbrs_erase, zlen_map. destruct (zmem m terms); [reflexivity|]. destruct (2 <? zlen (nbrs g m)); [reflexivity|].
  destruct (zdiscard n (aget adj m)); [reflexivity | apply IH].
Qed.

Lemma cum_loop_erase g : forall fuel adj terms acc, cum_loop fuel (erase g) adj terms acc = cum_loop fuel g adj terms acc.
Proof.
  induction fuel as [|k IH]; intros adj terms acc; destruct terms as [|n terms']; cbn [cum_loop]; try reflexivity.
  destruct (aget adj n) as [|m rest]; [reflexivity|]. rewrite walk_erase. cbn [m_atoms erase].
  destruct (walk (S (length (m_atoms g))) g (aset adj n rest) terms' n m [m; n]) as [[[adj' terms''] out]|]; [apply IH | reflexivity].
Qed.

Lemma cumulenes_erase fd g : cumulenes fd (erase g) = cumulenes fd g.
Proof. unfold cumulenes. rewrite dbl_adj_erase. apply cum_loop_erase. Qed.

Lemma sg_cum_entry_erase fs g p : sg_cum_entry fs (erase g) p = sg_cum_entry fs g p.
Proof.
  unfold sg_cum_entry, end_blocked, end_more_double, end_crowded, end_subst, is_h.
  destruct p as [|t1 [|n1 r]]; try reflexivity. destruct (rev (t1 :: n1 :: r)) as [|t2 [|m1 r']]; try reflexivity.
  rewrite !nbrs_erase, !existsb_map, !filter_map_comm, !zlen_map, !map_map. reflexivity.
Qed.

Lemma reg_paths_erase g : reg_paths (erase g) = reg_paths g.
Proof.
  unfold reg_paths. rewrite cumulenes_erase. destruct (cumulenes el_double g) as [ps|]; [|reflexivity].
  f_equal. f_equal. unfold sg_cumulenes_of. apply flat_map_ext. intros p. apply sg_cum_entry_erase.
Qed.

(* ------------------------------------------------------------------------------------------------ *)
(* the adjacency of a well-formed molecule is indexed by its atoms *)

Lemma list_eqb_Z_eq' (a b : list Z) : list_eqb Z.eqb a b = true -> a = b.
Proof. apply list_eqb_Z_eq. Qed.

Lemma adj_canonical g : wf_mol g = true -> m_adj g = map (fun na => (fst na, nbrs g (fst na))) (m_atoms g).
Proof.
  intros W. assert (Hk : keys (m_atoms g) = keys (m_adj g)).
  { unfold wf_mol in W. apply andb_prop in W. destruct W as [W _]. apply andb_prop in W. destruct W as [W _]. apply list_eqb_Z_eq'. exact W. }
  destruct (wf_parts g W) as [Hnd _]. unfold ids in Hnd. rewrite Hk in Hnd.
  assert (E1 : m_adj g = map (fun kv => (fst kv, nbrs g (fst kv))) (m_adj g)).
  { rewrite <- (map_id (m_adj g)) at 1. apply map_ext_in. intros [k v] Hin. cbn [fst]. unfold nbrs.
    rewrite (In_zget_NoDup (m_adj g) k v Hnd Hin). reflexivity. }
  rewrite E1 at 1. clear E1.
  transitivity (map (fun n => (n, nbrs g n)) (keys (m_adj g))); [unfold keys; rewrite map_map; reflexivity|].
  rewrite <- Hk. unfold keys. rewrite map_map. reflexivity.
Qed.

Lemma bond_nbr_inv mb : bond_of_nbr (nbr_of_bond mb) = mb.
Proof. destruct mb as [m [o l]]. reflexivity. Qed.

Lemma atoms_back g xyf :
  map (fun u => (ua_n u, mkAtom (ua_an u) (ua_iso u) (ua_chg u) (ua_rad u) (ua_h u) (ua_stereo u))) (map uatom_of (atoms_of_mol g xyf)) = m_atoms g.
Proof.
  unfold atoms_of_mol. rewrite !map_map. rewrite <- (map_id (m_atoms g)) at 2. apply map_ext. intros [n [num iso chg rad h st]]. reflexivity.
Qed.

(* the decoded object with the labels attached is the original molecule *)
Lemma mol_back g xyf : wf_mol g = true ->
  mol_of_unpacked (map uatom_of (atoms_of_mol g xyf)) (ladj_of_atoms (atoms_of_mol g xyf)) = g.
Proof.
  intros W. unfold mol_of_unpacked. rewrite atoms_back.
  assert (Ea : map (fun e => (fst e, map bond_of_nbr (snd e))) (ladj_of_atoms (atoms_of_mol g xyf)) = m_adj g).
  { rewrite (adj_canonical g W). unfold ladj_of_atoms, atoms_of_mol. rewrite !map_map. apply map_ext. intros na. cbn [fst snd pa_n pa_nbrs].
    f_equal. rewrite map_map. rewrite <- (map_id (nbrs g (fst na))) at 2. apply map_ext. intros mb. apply bond_nbr_inv. }
  rewrite Ea. destruct g; reflexivity.
Qed.

(* the decoded object before the labels are attached is the original molecule without bond labels *)
Lemma mol_back_erased g xyf : wf_mol g = true ->
  mol_of_unpacked (map uatom_of (atoms_of_mol g xyf)) (relabel (fun _ _ => None) (atoms_of_mol g xyf)) = erase g.
Proof.
  intros W. unfold mol_of_unpacked, erase. rewrite atoms_back. f_equal.
  rewrite (adj_canonical g W) at 1. unfold relabel, atoms_of_mol. rewrite !map_map. apply map_ext. intros na. cbn [fst snd pa_n pa_nbrs].
  f_equal. rewrite !map_map. apply map_ext. intros [m [o l]]. reflexivity.
Qed.

(* ------------------------------------------------------------------------------------------------ *)

Lemma xy_back g xyf : map ua_xy (map uatom_of (atoms_of_mol g xyf)) = map xyf (ids g).
Proof. unfold atoms_of_mol, ids, keys. rewrite !map_map. reflexivity. Qed.

(* ------------------------------------------------------------------------------------------------ *)
(* both directions of a bond carry the same label: implied by wf_mol *)

Definition patom_of (g : mol) (xyf : Z -> list Z) (na : Z * atom) : patom :=
  let a := snd na in
  mkPAtom (fst na) (a_num a) (a_iso a) (a_stereo a) (a_h a) (a_chg a) (a_rad a) (xyf (fst na)) (map nbr_of_bond (nbrs g (fst na))).

Lemma find_patom (F : Z * atom -> patom) (HF : forall na, pa_n (F na) = fst na) : forall (d : list (Z * atom)) m am,
  NoDup (keys d) -> In (m, am) d -> find (fun b => pa_n b =? m) (map F d) = Some (F (m, am)).
Proof.
  induction d as [|[k v] d IH]; intros m am Hnd Hin; [contradiction|]. cbn [map find]. rewrite HF. cbn [fst].
  cbn [keys map fst] in Hnd. inversion Hnd as [|? ? Hni Hnd']; subst. destruct Hin as [Hin|Hin].
  - injection Hin as ? ?. subst. rewrite Z.eqb_refl. reflexivity.
  - destruct (k =? m) eqn:E.
    + apply Z.eqb_eq in E. subst k. exfalso. apply Hni. apply (in_map fst) in Hin. exact Hin.
    + apply IH; assumption.
Qed.

Lemma zget_map_nbr (l : list (Z * bond)) k :
  zget (map nbr_of_bond l) k = option_map (fun bd => (b_ord bd, b_stereo bd)) (zget l k).
Proof. induction l as [|[m bd] l IH]; [reflexivity|]. cbn [map nbr_of_bond zget fst snd]. destruct (k =? m); [reflexivity | exact IH]. Qed.

Theorem wf_labels_sym g xyf : wf_mol g = true -> labels_sym_b (atoms_of_mol g xyf) = true.
Proof.
  intros W. pose proof W as W0. unfold wf_mol in W0. apply andb_prop in W0. destruct W0 as [W0 W3]. apply andb_prop in W0. destruct W0 as [_ W2].
  apply nodup_z_NoDup in W2. rewrite forallb_forall in W3.
  unfold labels_sym_b. apply forallb_forall. intros a Ha. unfold atoms_of_mol in Ha. apply in_map_iff in Ha. destruct Ha as [[n at_] [Ea Hna]].
  subst a. cbn [pa_nbrs pa_n fst snd]. apply forallb_forall. intros x Hx. apply in_map_iff in Hx. destruct Hx as [[m b] [Ex Hmb]]. subst x.
  cbn [nb_m nb_st nbr_of_bond fst snd].
  specialize (W3 (n, nbrs g n) (nbrs_entry g n m b Hmb)). cbn [fst snd] in W3. apply andb_prop in W3. destruct W3 as [_ W3].
  rewrite forallb_forall in W3. specialize (W3 (m, b) Hmb). cbn [fst snd] in W3.
  apply andb_prop in W3. destruct W3 as [W3 Wb]. apply andb_prop in W3. destruct W3 as [_ Wm].
  apply zmem_In in Wm. unfold ids, keys in Wm. apply in_map_iff in Wm. destruct Wm as [[m' am] [Em Hin]]. cbn [fst] in Em. subst m'.
  unfold find_atom.
  change (atoms_of_mol g xyf) with (map (patom_of g xyf) (m_atoms g)).
  rewrite (find_patom (patom_of g xyf) (fun na => eq_refl) (m_atoms g) m am W2 Hin). unfold patom_of. cbn [pa_nbrs pa_n fst snd].
  rewrite zget_map_nbr. unfold bond_of in Wb. destruct (zget (nbrs g m) n) as [b'|]; [|discriminate]. cbn [option_map].
  unfold bond_eqb in Wb. apply andb_prop in Wb. destruct Wb as [_ Wb].
  destruct (b_stereo b) as [[|]|], (b_stereo b') as [[|]|]; cbn in *; congruence.
Qed.

(* ROUND TRIP of MoleculeContainer.pack / unpack on one molecule object: for every well formed molecule within the format
   limits whose labelled bonds are registered, pack succeeds and unpack of the bytes (followed by anything) returns THE
   SAME molecule -- atoms in order with element, isotope, charge, radical flag, hydrogens, atom stereo; neighbour tables
   in order with bond orders and cis/trans labels --, the coordinate bytes of the atoms in order, and the pack length.
   The registry (cumulene paths) is computed by the model on the packed molecule and again on the decoded one. *)
Theorem mc_roundtrip g xyf suf : mc_ok g xyf = true ->
  exists bytes, mc_pack g xyf = Ok bytes /\
    mc_unpack (bytes ++ suf) = Ok (g, map xyf (ids g), Z.of_nat (length bytes)).
Proof.
  unfold mc_ok. intros H. apply andb_prop in H. destruct H as [W H].
  destruct (reg_paths g) as [paths|] eqn:Er; [|discriminate].
  apply andb_prop in H. destruct H as [H Hl]. apply andb_prop in H. destruct H as [Hne Hp].
  pose proof (wf_labels_sym g xyf W) as Hs.
  set (atoms := atoms_of_mol g xyf) in *.
  assert (Hne' : pm_atoms (api_pmol atoms paths) <> []).
  { cbn [pm_atoms api_pmol]. unfold atoms, atoms_of_mol. destruct (m_atoms g); [discriminate Hne | discriminate]. }
  unfold reg_paths in Er. destruct (cumulenes el_double g) as [ps|] eqn:Ec; [|discriminate]. injection Er as Er.
  pose proof (api_roundtrip_registry el_single el_double g ps atoms suf W Ec) as R. cbv zeta in R. rewrite Er in R.
  destruct (R Hp Hs Hl) as [bytes [Hpk Hup]]. clear R.
  exists bytes. split.
  - unfold mc_pack, reg_paths. rewrite Ec, Er. fold atoms. rewrite (mol_pack_within_limits _ Hp Hne'). exact Hpk.
  - unfold api_pack in Hpk. rewrite (pack_blocks _ Hp) in Hpk. injection Hpk as Hpk. subst bytes.
    unfold api_unpack in Hup. unfold mc_unpack.
    destruct (getb (pack_layout (api_pmol atoms paths) ++ suf) 0) as [v|]; [|discriminate].
    destruct (negb ((v =? 0) || (v =? 2))); [discriminate|].
    rewrite (unpack_layout _ suf Hp) in *. unfold unpack_expected in *. cbn [up_atoms up_ct up_size pm_atoms pm_terminals api_pmol] in *.
    change (mkUnpacked (map uatom_of atoms) (map adj_entry atoms) (fwd_ct (terminals_of paths) (mol_fwd [] atoms))
                       (Z.of_nat (length (pack_layout (api_pmol atoms paths)))))
      with (unpacked_of (api_pmol atoms paths) (Z.of_nat (length (pack_layout (api_pmol atoms paths))))) in *.
    rewrite ladj_of_unpacked_of in *. cbn [pm_atoms api_pmol] in *.
    unfold atoms at 1 2. rewrite (mol_back_erased g xyf W). rewrite reg_paths_erase. unfold reg_paths. rewrite Ec, Er.
    fold atoms.
    destruct (reattach (centers_of paths) (fwd_ct (terminals_of paths) (mol_fwd [] atoms)) (relabel (fun _ _ => None) atoms)) as [adj|]; [|discriminate].
    injection Hup as Hup. subst adj. unfold atoms. rewrite (mol_back g xyf W), xy_back. reflexivity.
Qed.

(* non-vacuity, evaluated: a cumulene with a labelled central bond, an isotope, a charged radical with unknown hydrogens *)
Lemma mc_roundtrip_example :
  mc_ok ex_mol ex_xy = true /\ reg_paths ex_mol = Ok [[2; 4; 5; 6]] /\
  match mc_pack ex_mol ex_xy with
  | Ok b => match mc_unpack b with Ok (g, xy, sz) => mol_eqb g ex_mol && (sz =? 104) && (Z.of_nat (length b) =? 104) | Err _ => false end
  | Err _ => false
  end = true.
Proof. vm_compute. repeat split; reflexivity. Qed.

