(* C13 -- MoleculeContainer.substructure as a whole (guards and their exception class, the selection in the order of self, the fields of
   the new object, atom.copy(hydrogens=not recalculate_hydrogens), the translated bond loops, the final fix_structure / fix_stereo),
   translated from /repo's source, equals the hand-written substructure_g of Model.Cache that substructure, __and__, __sub__,
   augmented_substructure and split go through - on every molecule whose _atoms and rows are dicts. *)
From Coq Require Import ZArith List Bool Lia.
From Model Require Import PyBase Cache.
From Gen Require Import CacheOps.
From Proofs Require Import CacheProofs CacheWf CacheCopy CacheCoh CacheWorld CacheUnion CacheOpsTie CacheOpsTie2 CacheOpsTie3.
Import ListNotations.
Open Scope Z_scope.

Lemma existsb_negb {A} (p : A -> bool) l : existsb (fun x => negb (p x)) l = negb (forallb p l).
Proof. induction l as [|x t IH]; simpl; [reflexivity|]. rewrite IH. destruct (p x); reflexivity. Qed.

Theorem gen_substructure_eq : forall rh ats h o, NoDup (keys (o_atoms o)) -> rows_are_dicts (o_adj o) ->
  gen_substructure rh ats h o = substructure_g rh ats h o.
Proof.
  intros rh ats h o Na Hd. unfold gen_substructure, substructure_g. destruct ats as [|a0 t]; [reflexivity|].
  cbn [is_empty]. rewrite existsb_negb. change (forallb (fun x => zmem x (keys (o_atoms o))) (a0 :: t)) with (subset_z (a0 :: t) (keys (o_atoms o))).
  destruct (negb (subset_z (a0 :: t) (keys (o_atoms o)))); [reflexivity|]. cbv zeta.
  set (sel := filter (fun n => zmem n (a0 :: t)) (keys (o_atoms o))).
  rewrite gen_sub_bonds_eq by exact Hd. destruct (sub_rows h o sel) as [[h1 sb]|e]; [|reflexivity]. f_equal.
  assert (dict_of (map (fun n => (n, atom_copy (negb rh) (aget (o_atoms o) n))) sel)
          = map (fun n => (n, match zget (o_atoms o) n with
                              | Some a => mkA (a_core a) (if rh then None else a_hyd a) None
                              | None => mkA (mkCore 0 None 0 false) None None end)) sel) as ->.
  { rewrite dict_of_nodup.
    - apply map_ext. intros n. f_equal. unfold aget, atom_copy. destruct (zget (o_atoms o) n); destruct rh; reflexivity.
    - unfold keys. rewrite map_map. cbn [fst]. rewrite map_id. unfold sel. apply NoDup_filter. exact Na. }
  destruct rh; unfold sub_finish.
  - apply seq_cong; [apply gen_fix_structure_true | reflexivity].
  - apply seq_cong; [apply gen_fix_structure_false | reflexivity].
Qed.

Theorem substructure_is_translated : forall s ats, W s ->
  gen_substructure true ats (s_heap s) (s_cur s) = substructure ats (s_heap s) (s_cur s) /\
  (forall rh, sub_step_g rh ats s = match gen_substructure rh ats (s_heap s) (s_cur s) with
                                    | Err e => (s, Some e)
                                    | Ok (h, o, None) => (mkS h (s_cur s) (o :: s_others s), None)
                                    | Ok (h, _, Some e) => (mkS h (s_cur s) (s_others s), Some e)
                                    end).
Proof.
  intros s ats HW. pose proof (W_cur s HW) as [[Hwf _] _]. pose proof (nd_rows_are_dicts _ (wf_nd _ _ _ Hwf)) as Hd.
  assert (NoDup (keys (o_atoms (s_cur s)))) as Na by (rewrite <- (wf_keys _ _ _ Hwf); apply (wf_nd _ _ _ Hwf)).
  split; [apply gen_substructure_eq; assumption|]. intros rh. unfold sub_step_g. rewrite gen_substructure_eq by assumption. reflexivity.
Qed.

Example gen_substructure_example :
  let s := init [(1, mkCore 6 None 0 false); (2, mkCore 6 None 0 false); (3, mkCore 8 None 0 false)]
                [(1, [(2, 1)]); (2, [(1, 1); (3, 1)]); (3, [(2, 1)])] [] [] in
  match gen_substructure true [3; 2] (s_heap s) (s_cur s) with
  | Ok (_, sub, None) => keys (o_atoms sub) = [2; 3] /\ map (fun nr => (fst nr, keys (snd nr))) (o_adj sub) = [(2, [3]); (3, [2])]
  | _ => False
  end /\
  gen_substructure true [] (s_heap s) (s_cur s) = Err ValueError /\ gen_substructure true [4] (s_heap s) (s_cur s) = Err ValueError.
Proof. vm_compute. repeat split; reflexivity. Qed.
