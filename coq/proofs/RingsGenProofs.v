(* C06 -- second extension round: theorems on the modelled perception.
   (1) When the selection finishes in its FIRST phase (every accepted ring brings an atom that no earlier accepted ring has;
       no candidate had to be fetched back from the hold list), the result is accepted by the checker, provided the
       candidates are simple cycles of the graph and n_sssr is the cyclomatic number.  The side condition "first phase" is
       exact for this proof; the recorded gap families are inputs that need the second (condensed-ring) phase.
   (2) When the path tables are well formed (pid_ok, an executable predicate evaluated per molecule), every candidate of _c_set
       is a simple cycle of the graph and the candidate stream is sorted by size. *)
From Coq Require Import ZArith List Bool Lia Permutation Sorted.
From Model Require Import PyBase Graph Rings RingsFilter RingsGen RingsGenSpec.
From Proofs Require Import RingsProofs RingsMcb RingsRank RingsExt RingsDim RingsFund RingsMin RingsHorton RingsFilterProofs.
Import ListNotations.
Open Scope Z_scope.

(* ---------- a chain of rings, each with an atom that no earlier ring has, is linearly independent ---------- *)
Fixpoint chain_fresh (prev : list Z) (rs : list ring) : Prop :=
  match rs with
  | [] => True
  | r :: t => (exists a, In a r /\ ~ In a prev) /\ chain_fresh (prev ++ r) t
  end.

Lemma chain_fresh_snoc rs : forall prev r, chain_fresh prev (rs ++ [r]) <->
  chain_fresh prev rs /\ exists a, In a r /\ ~ In a (prev ++ concat rs).
Proof.
  induction rs as [|x rs IH]; intros prev r; cbn [app chain_fresh concat].
  - rewrite app_nil_r. tauto.
  - rewrite IH. rewrite <- app_assoc. tauto.
Qed.

Lemma sel_parity_app sel : forall rs s r e, length sel = length rs ->
  sel_parity (sel ++ [s]) (rs ++ [r]) e = xorb (sel_parity sel rs e) (s && ring_has_edge r e).
Proof.
  induction sel as [|x sel IH]; intros [|y rs] s r e L; try discriminate.
  - cbn [app sel_parity]. rewrite xorb_false_r, xorb_false_l. reflexivity.
  - cbn [app sel_parity]. rewrite IH by (cbn in L; lia). rewrite xorb_assoc. reflexivity.
Qed.

Lemma sel_parity_no_atom sel : forall rs a q, (forall r, In r rs -> ~ In a r) -> a <> q -> sel_parity sel rs (norm_edge (a, q)) = false.
Proof.
  induction sel as [|s sel IH]; intros [|r rs] a q H Ne; try reflexivity. cbn [sel_parity].
  assert (F : ring_has_edge r (norm_edge (a, q)) = false).
  { destruct (ring_has_edge r (norm_edge (a, q))) eqn:X; [|reflexivity]. exfalso. apply (ring_has_edge_spec r a q Ne) in X.
    destruct X as [X|X]; apply In_ring_pairs_In in X; apply (H r (or_introl eq_refl)); tauto. }
  rewrite F, andb_false_r, xorb_false_l. apply IH; [intros r0 H0; apply H; right; exact H0 | exact Ne].
Qed.

Lemma chain_independent g rs : gwf g -> Forall (is_cycle g) rs -> chain_fresh [] rs ->
  forall sel, length sel = length rs -> existsb (fun s => s) sel = true -> exists e, In e (edges g) /\ sel_parity sel rs e = true.
Proof.
  intros W. induction rs as [|r rs IH] using rev_ind; intros C F sel L Ex.
  - destruct sel; [discriminate Ex | discriminate L].
  - apply Forall_app in C. destruct C as [C Cr]. inversion Cr as [|? ? Cr0 _]; subst.
    apply chain_fresh_snoc in F. destruct F as [F [a [Ha Na]]]. cbn [app] in Na.
    rewrite app_length in L. cbn [length] in L.
    assert (NE : sel <> []) by (intros X; subst; cbn in L; lia). destruct (exists_last NE) as [sel0 [s E]]. subst sel.
    rewrite app_length in L. cbn [length] in L. assert (L0 : length sel0 = length rs) by lia.
    destruct s.
    + (* the last ring is selected: one of the two ring bonds at its fresh atom *)
      destruct Cr0 as [L3 [Nd Ad]] eqn:EC. destruct (cycle_two_neighbours r a Nd L3 Ha) as [p [q [_ [_ Hq]]]].
      assert (Cyc : is_cycle g r) by (split; [exact L3 | split; assumption]).
      assert (Naq : a <> q).
      { destruct (Ad a q Hq) as [X _]. apply (proj1 (gwf_gnbrs g)) in W. destruct W as [_ Wg]. destruct (Wg a (adjacent_key g a q X)) as [_ H]. destruct (H q X) as [Ne _]. congruence. }
      exists (norm_edge (a, q)). split; [apply (ring_edges_in_graph g r W Cyc (a, q) Hq)|].
      rewrite sel_parity_app by exact L0. rewrite andb_true_l.
      rewrite sel_parity_no_atom; [| |exact Naq].
      * rewrite xorb_false_l. apply (ring_has_edge_spec r a q Naq). left. exact Hq.
      * intros r0 H0 I0. apply Na. apply in_concat. exists r0. tauto.
    + rewrite existsb_app in Ex. cbn in Ex. rewrite !orb_false_r in Ex. destruct (IH C F sel0 L0 Ex) as [e [He Pe]].
      exists e. split; [exact He|]. rewrite sel_parity_app by exact L0. rewrite andb_false_l, xorb_false_r. exact Pe.
Qed.

(* ---------- the first phase of _rings_filter builds such a chain ---------- *)
Lemma subset_z_false c atoms : subset_z c atoms = false -> exists a, In a c /\ ~ In a atoms.
Proof.
  unfold subset_z. induction c as [|x c IH]; [discriminate|]. cbn [forallb]. destruct (zmem x atoms) eqn:E.
  - cbn [andb]. intros H. destruct (IH H) as [a [A1 A2]]. exists a. split; [right; exact A1 | exact A2].
  - intros _. exists x. split; [left; reflexivity|]. intros I. apply zmem_In in I. congruence.
Qed.

Lemma rf_phase1_chain n rings : forall seen sssr hold fin sssr' hold' seen',
  rf_phase1 n rings seen (concat sssr) sssr hold = (fin, sssr', hold', seen') -> chain_fresh [] sssr -> chain_fresh [] sssr'.
Proof.
  induction rings as [|c rest IH]; intros seen sssr hold fin sssr' hold' seen' H F; cbn [rf_phase1] in H.
  - inversion H; subst. exact F.
  - destruct (ring_mem c seen); [apply (IH _ _ _ _ _ _ _ H F)|].
    destruct (subset_z c (concat sssr)) eqn:S; [apply (IH _ _ _ _ _ _ _ H F)|].
    assert (F' : chain_fresh [] (sssr ++ [c])) by (apply chain_fresh_snoc; split; [exact F | apply subset_z_false; exact S]).
    match type of H with context [if ?b then _ else _] => destruct b end; [inversion H; subst; exact F'|].
    replace (concat sssr ++ c) with (concat (sssr ++ [c])) in H by (rewrite concat_app; cbn; rewrite app_nil_r; reflexivity).
    apply (IH _ _ _ _ _ _ _ H F').
Qed.

(* the selection finished in its first phase *)
Definition first_phase (cands : list ring) (n : nat) : Prop :=
  match cands with
  | [] => False
  | c :: rest => n = 1%nat \/ exists sssr hold seen, rf_phase1 n rest [c] c [c] [] = (true, sssr, hold, seen)
  end.

Theorem first_phase_accepted g cands n rs : gwf g -> (forall c, In c cands -> is_cycle g c) -> Z.of_nat n = cyclomatic g ->
  first_phase cands n -> rings_filter cands n = Ok rs -> is_cycle_basis g rs = true.
Proof.
  intros W C N FP H. destruct (rings_filter_result cands n rs H) as [Len Sub].
  assert (Chain : chain_fresh [] rs).
  { unfold rings_filter in H. destruct cands as [|c rest]; [destruct FP|]. destruct (Nat.eqb_spec n 1) as [E1|E1].
    - inversion H; subst. cbn. split; [|exact I]. destruct (C c (or_introl eq_refl)) as [L3 _]. destruct c; [cbn in L3; lia|]. exists z. split; [left; reflexivity | intros []].
    - destruct FP as [FP|[sssr [hold [seen P]]]]; [congruence|]. rewrite P in H. inversion H; subst.
      assert (E0 : c = concat [c]) by (cbn; rewrite app_nil_r; reflexivity). rewrite E0 in P at 2.
      eapply (rf_phase1_chain _ rest [c] [c] [] true _ hold seen); [exact P|]. cbn. split; [|exact I].
      destruct (C c (or_introl eq_refl)) as [L3 _]. destruct c; [cbn in L3; lia|]. exists z. split; [left; reflexivity | intros []]. }
  apply basis_checker_complete.
  - exact W.
  - apply Forall_forall. intros r Hr. apply C. apply Sub. exact Hr.
  - apply chain_independent; [exact W | apply Forall_forall; intros r Hr; apply C; apply Sub; exact Hr | exact Chain].
  - rewrite Len. unfold cyclomatic in N. exact N.
Qed.

(* ---------- rotations and reflections of a simple cycle are simple cycles ---------- *)
Lemma ring_pairs_app x y : x <> [] -> y <> [] ->
  ring_pairs (x ++ y) = seq_pairs x ++ (last x 0, hd 0 y) :: seq_pairs y ++ [(last y 0, hd 0 x)].
Proof.
  intros Nx Ny. destruct x as [|h t] eqn:Ex; [congruence|]. rewrite <- Ex in *. unfold ring_pairs.
  assert (E1 : x ++ y = h :: (t ++ y)) by (rewrite Ex; reflexivity). rewrite E1. rewrite <- E1.
  rewrite <- app_assoc. rewrite seq_pairs_app_ne; [| exact Nx | destruct y; discriminate]. f_equal. f_equal; [destruct y; [congruence | reflexivity]|].
  rewrite seq_pairs_app_ne by (try exact Ny; discriminate). cbn [seq_pairs hd]. rewrite Ex. reflexivity.
Qed.

Lemma is_cycle_rotation g x y : is_cycle g (x ++ y) -> is_cycle g (y ++ x).
Proof.
  intros [L [N A]]. destruct x as [|hx tx] eqn:Ex; [rewrite app_nil_r; split; [exact L | split; assumption]|]. rewrite <- Ex in *.
  destruct y as [|hy ty] eqn:Ey; [rewrite app_nil_r in *; split; [exact L | split; assumption]|]. rewrite <- Ey in *.
  assert (Nx : x <> []) by (rewrite Ex; discriminate). assert (Ny : y <> []) by (rewrite Ey; discriminate).
  split; [rewrite app_length in *; lia|]. split; [apply (Permutation_NoDup (Permutation_app_comm x y) N)|].
  intros a b H. apply A. rewrite (ring_pairs_app y x Ny Nx) in H. rewrite (ring_pairs_app x y Nx Ny).
  apply in_app_or in H. apply in_or_app. destruct H as [H|[H|H]].
  - right. right. apply in_or_app. left. exact H.
  - right. right. apply in_or_app. right. left. exact H.
  - apply in_app_or in H. destruct H as [H|[H|[]]]; [left; exact H | right; left; exact H].
Qed.

Lemma is_cycle_rev g r : gwf g -> is_cycle g r -> is_cycle g (rev r).
Proof.
  intros W [L [N A]]. destruct r as [|h t]; [cbn in L; lia|].
  (* h :: rev t is a rotation of rev (h :: t), and its pairs are the reversed pairs of h :: t *)
  assert (C1 : is_cycle g (h :: rev t)).
  { split; [cbn; rewrite rev_length; cbn in L; lia|]. split.
    - inversion N as [|? ? Nh Nt]; subst. constructor; [intros I; apply Nh; apply in_rev; exact I | apply (Permutation_NoDup (Permutation_rev t) Nt)].
    - intros a b H. unfold ring_pairs in H. change ((h :: rev t) ++ [h]) with (h :: rev t ++ [h]) in H.
      assert (E : h :: rev t ++ [h] = rev ((h :: t) ++ [h])) by (rewrite rev_app_distr; cbn [rev app]; reflexivity).
      rewrite E, seq_pairs_rev in H. apply in_rev in H. apply in_map_iff in H. destruct H as [[c d] [Ec H]]. unfold swap in Ec. cbn in Ec. inversion Ec; subst.
      destruct (A b a H) as [A1 A2]. split; assumption. }
  change (h :: rev t) with ([h] ++ rev t) in C1. apply is_cycle_rotation in C1. cbn [rev]. exact C1.
Qed.

Lemma is_cycle_dihedral g r r' : gwf g -> is_cycle g r -> dihedral r r' -> is_cycle g r'.
Proof.
  intros W C [[x [y [E1 E2]]]|[x [y [E1 E2]]]]; subst.
  - apply is_cycle_rotation. exact C.
  - apply is_cycle_rotation. rewrite <- E1. apply is_cycle_rev; assumption.
Qed.

Lemma canonic_ring_cycle g r r' : gwf g -> is_cycle g r -> canonic_ring r = Ok r' -> is_cycle g r' /\ length r' = length r.
Proof.
  intros W C H. pose proof C as [L [N _]]. destruct (canonic_ring_canonical r N L) as [m [f [E [_ [_ [D [P _]]]]]]].
  rewrite E in H. inversion H; subst r'. split; [apply (is_cycle_dihedral g r _ W C D) | symmetry; apply (Permutation_length P)].
Qed.

(* ---------- two walks from i to j glued into a ring ---------- *)
Definition path_ok (g : graph) (i j : Z) (len : Z) (p : path) : Prop :=
  Z.of_nat (length p) = len /\ hd 0 p = i /\ last p 0 = j /\ forall a b, In (a, b) (seq_pairs p) -> adjacent g a b.

Lemma path_okb_sound g i j len p : path_okb g i j len p = true -> path_ok g i j len p.
Proof.
  unfold path_okb, path_ok, walkb. rewrite !andb_true_iff, !Z.eqb_eq, forallb_forall. intros [[[A B] C] D]. split; [exact A|]. split; [exact B|]. split; [exact C|].
  intros a b H. apply has_edge_adjacent. apply (D (a, b) H).
Qed.

Lemma path_split (p : path) i j : (2 <= length p)%nat -> hd 0 p = i -> last p 0 = j -> exists mid, p = (i :: mid) ++ [j].
Proof.
  intros L H1 H2. destruct p as [|h t]; [cbn in L; lia|]. cbn in H1. subst h. assert (NE : t <> []) by (destruct t; [cbn in L; lia | discriminate]).
  destruct (exists_last NE) as [mid [z E]]. subst t. exists mid. change (last (i :: mid ++ [z]) 0) with (last ((i :: mid) ++ [z]) 0) in H2. rewrite last_last in H2. subst z. reflexivity.
Qed.

Lemma sl_mid_rev_split i mid j : sl_mid_rev ((i :: mid) ++ [j]) = rev mid.
Proof. unfold sl_mid_rev. cbn [app tl]. rewrite removelast_last. reflexivity. Qed.

Lemma glue_cycle g i j l1 l2 c1 c2 : gwf g -> path_ok g i j l1 c1 -> path_ok g i j l2 c2 -> 2 <= l1 -> 2 <= l2 -> 3 <= l1 + l2 - 2 ->
  NoDup (c1 ++ sl_mid_rev c2) -> is_cycle g (c1 ++ sl_mid_rev c2) /\ Z.of_nat (length (c1 ++ sl_mid_rev c2)) = l1 + l2 - 2.
Proof.
  intros W [La [Ha [Ta Wa]]] [Lb [Hb [Tb Wb]]] G1 G2 G3 N.
  destruct (path_split c2 i j) as [mid E2]; [lia | exact Hb | exact Tb|]. subst c2. rewrite sl_mid_rev_split in *.
  assert (Lc : Z.of_nat (length (c1 ++ rev mid)) = l1 + l2 - 2).
  { rewrite app_length, rev_length. rewrite app_length in Lb. cbn [length] in Lb. lia. }
  split; [|exact Lc]. split; [lia|]. split; [exact N|].
  assert (N1 : c1 <> []) by (destruct c1; [cbn in La; lia | discriminate]).
  assert (Hc : hd 0 (c1 ++ rev mid) = i) by (destruct c1; [congruence | exact Ha]).
  intros a b H. unfold ring_pairs in H. destruct (c1 ++ rev mid) as [|h t] eqn:Ec; [destruct H|]. cbn [hd] in Hc. subst h. rewrite <- Ec in H.
  rewrite <- app_assoc in H. change (rev mid ++ [i]) with (rev (i :: mid)) in H.
  rewrite seq_pairs_app_ne in H; [| exact N1 | cbn [rev]; destruct (rev mid); discriminate].
  apply in_app_or in H. destruct H as [H|[H|H]].
  - apply Wa. exact H.
  - inversion H as [[E1 E2]]. rewrite Ta.
    replace (hd 0 (rev mid ++ [i])) with (last (i :: mid) 0) by (change (rev mid ++ [i]) with (rev (i :: mid)); symmetry; apply hd_rev).
    assert (X : In (last (i :: mid) 0, j) (seq_pairs ((i :: mid) ++ [j]))).
    { rewrite seq_pairs_app_ne by discriminate. apply in_or_app. right. left. reflexivity. }
    destruct (Wb _ _ X) as [X1 X2]. split; assumption.
  - rewrite seq_pairs_rev in H. apply in_rev in H. apply in_map_iff in H. destruct H as [[c d] [E H]]. unfold swap in E. cbn in E. inversion E as [[E1 E2]]. subst c d.
    destruct (Wb b a (seq_pairs_app_l (i :: mid) [j] b a H)) as [X1 X2]. split; assumption.
Qed.

(* ---------- what _c_set yields ---------- *)
Lemma map_res_In {A B} (f : A -> pyres B) l : forall rs, map_res f l = Ok rs -> forall r, In r rs -> exists a, In a l /\ f a = Ok r.
Proof.
  induction l as [|a l IH]; intros rs H r Hr; cbn [map_res] in H; [inversion H; subst; destruct Hr|].
  destruct (f a) as [b|e] eqn:Fa; [|discriminate]. destruct (map_res f l) as [rs'|e]; [|discriminate]. inversion H; subst.
  destruct Hr as [Hr|Hr]; [subst; exists a; split; [left; reflexivity | exact Fa]|]. destruct (IH rs' eq_refl r Hr) as [a0 [A1 A2]]. exists a0. split; [right; exact A1 | exact A2].
Qed.

Definition entry_ok (g : graph) (e : cs_entry) : Prop :=
  let '(c_num, p1ij, p2o) := e in
  exists i j d, 1 <= d /\ (forall p, In p p1ij -> path_ok g i j (d + 1) p) /\
    match p2o with
    | None => c_num = 2 * d /\ (d = 1 -> (length p1ij <= 1)%nat)
    | Some p2ij => c_num = 2 * d + 1 /\ forall p, In p p2ij -> path_ok g i j (d + 2) p
    end.

Lemma entry_rings g e rs : gwf g -> entry_ok g e -> rings_of_entry e = Ok rs ->
  forall r, In r rs -> is_cycle g r /\ Z.of_nat (length r) = fst (fst e).
Proof.
  intros W OK H r Hr. destruct e as [[c_num p1ij] p2o]. cbn [fst]. destruct OK as [i [j [d [D1 [P1 P2]]]]]. unfold rings_of_entry in H.
  destruct (map_res_In canonic_ring _ rs H r Hr) as [raw [Hraw Ecan]]. apply filter_In in Hraw. destruct Hraw as [Hraw Nd]. apply nodup_z_NoDup in Nd.
  assert (Raw : is_cycle g raw /\ Z.of_nat (length raw) = c_num).
  { destruct p2o as [p2ij|]; destruct P2 as [Ec P2].
    - assert (Odd : Z.odd c_num = true) by (subst c_num; rewrite Z.add_comm, Z.odd_add_mul_2; reflexivity). rewrite Odd in Hraw.
      apply in_flat_map in Hraw. destruct Hraw as [c1 [H1 Hraw]]. apply in_map_iff in Hraw. destruct Hraw as [c2 [E2 H2]]. subst raw.
      destruct (glue_cycle g i j (d + 1) (d + 2) c1 c2 W (P1 c1 H1) (P2 c2 H2)) as [A B]; [lia | lia | lia | exact Nd|]. split; [exact A | lia].
    - assert (Even : Z.odd c_num = false) by (subst c_num; rewrite Z.mul_comm, Z.odd_mul; cbn; apply andb_false_r). rewrite Even in Hraw.
      apply in_map_iff in Hraw. destruct Hraw as [[c1 c2] [E Hc]]. cbn [fst snd] in E. subst raw.
      assert (D2 : 2 <= d).
      { destruct (Z.eq_dec d 1) as [E1|E1]; [|lia]. exfalso. specialize (P2 E1). destruct p1ij as [|x [|y t]]; [cbn in Hc; destruct Hc | cbn in Hc; destruct Hc | cbn in P2; lia]. }
      assert (H1 : In c1 p1ij) by (apply (in_combine_l _ _ _ _ Hc)).
      assert (H2 : In c2 p1ij) by (apply in_combine_r in Hc; destruct p1ij; [destruct Hc | right; exact Hc]).
      destruct (glue_cycle g i j (d + 1) (d + 1) c1 c2 W (P1 c1 H1) (P1 c2 H2)) as [A B]; [lia | lia | lia | exact Nd|]. split; [exact A | lia]. }
  destruct Raw as [Cr Lr]. destruct (canonic_ring_cycle g raw r W Cr Ecan) as [C L]. split; [exact C | lia].
Qed.

Lemma d3vals_In (c : d3) p : In p (d3vals c) -> exists k, In (k, p) c.
Proof. unfold d3vals. intros H. apply in_map_iff in H. destruct H as [[k q] [E H]]. cbn in E. subst q. exists k. exact H. Qed.

Lemma cset_row_ok g p2 d seen i row : forallb (cell_check g p2 d i) row = true -> forall e, In e (cset_row p2 d seen i row) -> entry_ok g e.
Proof.
  intros H e He. unfold cset_row in He. apply in_flat_map in He. destruct He as [[j cell] [Hj He]]. cbn [fst snd] in He.
  rewrite forallb_forall in H. specialize (H (j, cell) Hj). unfold cell_check in H. cbn [fst snd] in H. rewrite !andb_true_iff in H.
  destruct H as [[[D1 C1] C2] One]. apply Z.leb_le in D1. set (dij := dist_get d i j) in *.
  assert (P1 : forall p, In p (d3vals cell) -> path_ok g i j (dij + 1) p).
  { intros p Hp. destruct (d3vals_In cell p Hp) as [k Hk]. unfold cell_okb in C1. rewrite forallb_forall in C1. apply path_okb_sound. apply (C1 (k, p) Hk). }
  assert (P2 : forall p, In p (d3vals (lookup2 p2 i j)) -> path_ok g i j (dij + 2) p).
  { intros p Hp. destruct (d3vals_In _ p Hp) as [k Hk]. unfold cell_okb in C2. rewrite forallb_forall in C2. apply path_okb_sound. apply (C2 (k, p) Hk). }
  assert (One' : dij = 1 -> (length (d3vals cell) <= 1)%nat).
  { intros E1. apply orb_true_iff in One. destruct One as [One|One]; [apply negb_true_iff, Z.eqb_neq in One; congruence|]. apply Nat.leb_le in One. unfold d3vals. rewrite map_length. exact One. }
  destruct (zmem j seen); [destruct He|].
  destruct (d3vals cell) as [|x [|y t]] eqn:E1; destruct (d3vals (lookup2 p2 i j)) as [|u w] eqn:E2; cbn [In] in He;
    repeat match goal with H : _ \/ _ |- _ => destruct H as [H|H] end; try contradiction; subst e;
    exists i, j, dij; (split; [exact D1|]); (split; [exact P1|]); try (split; [lia | exact One']); try (split; [lia | exact P2]).
Qed.

Lemma cset_rows_ok g p2 d rows : forall seen, forallb (row_check g p2 d) rows = true -> forall e, In e (cset_rows rows p2 d seen) -> entry_ok g e.
Proof.
  induction rows as [|[i row] t IH]; intros seen H e He; [destruct He|]. cbn [forallb] in H. apply andb_prop in H. destruct H as [H1 H2].
  cbn [cset_rows] in He. apply in_app_or in He. destruct He as [He|He]; [apply (cset_row_ok g p2 d _ i row H1 e He) | apply (IH _ H2 e He)].
Qed.

Lemma insert_cs_In e l x : In x (insert_cs e l) <-> x = e \/ In x l.
Proof. induction l as [|y l IH]; cbn; [intuition|]. destruct (fst (fst e) <=? fst (fst y)); cbn; [intuition | rewrite IH; intuition]. Qed.
Lemma sort_cs_In l x : In x (sort_cs l) <-> In x l.
Proof. induction l as [|y l IH]; cbn; [tauto|]. rewrite insert_cs_In, IH. intuition. Qed.

Lemma insert_cs_sorted e l : StronglySorted (fun a b : cs_entry => fst (fst a) <= fst (fst b)) l ->
  StronglySorted (fun a b : cs_entry => fst (fst a) <= fst (fst b)) (insert_cs e l).
Proof.
  induction l as [|x l IH]; intros S; cbn; [constructor; constructor|]. inversion S as [|? ? Sl Hx]; subst.
  destruct (Z.leb_spec (fst (fst e)) (fst (fst x))) as [Le|Gt].
  - constructor; [exact S|]. constructor; [exact Le|]. eapply Forall_impl; [|exact Hx]. intros y Hy. cbn in Hy. lia.
  - constructor; [apply IH; exact Sl|]. apply Forall_forall. intros y Hy. apply insert_cs_In in Hy.
    destruct Hy as [Hy|Hy]; [subst; lia | rewrite Forall_forall in Hx; apply Hx; exact Hy].
Qed.
Lemma sort_cs_sorted l : StronglySorted (fun a b : cs_entry => fst (fst a) <= fst (fst b)) (sort_cs l).
Proof. induction l as [|a l IH]; cbn; [constructor | apply insert_cs_sorted; exact IH]. Qed.

(* the blocks of a sorted entry list, each of constant size, concatenate to a list sorted by size *)
Lemma blocks_sorted g es : gwf g -> StronglySorted (fun a b : cs_entry => fst (fst a) <= fst (fst b)) es -> (forall e, In e es -> entry_ok g e) ->
  forall cs, concat_res (map rings_of_entry es) = Ok cs ->
  (forall r, In r cs -> is_cycle g r /\ exists e, In e es /\ Z.of_nat (length r) = fst (fst e)) /\
  StronglySorted (fun a b : ring => (length a <= length b)%nat) cs.
Proof.
  intros W. induction es as [|e es IH]; intros S OK cs H; cbn [map concat_res] in H.
  - inversion H; subst. split; [intros r [] | constructor].
  - destruct (rings_of_entry e) as [rs|x] eqn:Er; [|discriminate]. destruct (concat_res (map rings_of_entry es)) as [rest|x]; [|discriminate]. inversion H; subst cs.
    inversion S as [|? ? S' He]; subst. destruct (IH S' (fun e0 H0 => OK e0 (or_intror H0)) rest eq_refl) as [A B].
    pose proof (entry_rings g e rs W (OK e (or_introl eq_refl)) Er) as R.
    split.
    + intros r Hr. apply in_app_or in Hr. destruct Hr as [Hr|Hr].
      * destruct (R r Hr) as [C L]. split; [exact C|]. exists e. split; [left; reflexivity | exact L].
      * destruct (A r Hr) as [C [e0 [H0 L]]]. split; [exact C|]. exists e0. split; [right; exact H0 | exact L].
    + assert (G : forall rs0, (forall r, In r rs0 -> In r rs) -> StronglySorted (fun a b : ring => (length a <= length b)%nat) (rs0 ++ rest)).
      { induction rs0 as [|r0 rs0 IH0]; intros Sub; [exact B|]. cbn [app]. constructor; [apply IH0; intros r Hr; apply Sub; right; exact Hr|].
        apply Forall_forall. intros y Hy. destruct (R r0 (Sub r0 (or_introl eq_refl))) as [_ L0]. apply in_app_or in Hy. destruct Hy as [Hy|Hy].
        - destruct (R y (Sub y (or_intror Hy))) as [_ Ly]. lia.
        - destruct (A y Hy) as [_ [e0 [H0 Ly]]]. rewrite Forall_forall in He. specialize (He e0 H0). lia. }
      apply G. intros r Hr. exact Hr.
Qed.

Theorem c_set_cycles_sorted g pids cs : gwf g -> pid_ok g pids = true -> c_set pids = Ok cs ->
  (forall c, In c cs -> is_cycle g c) /\ StronglySorted (fun a b : ring => (length a <= length b)%nat) cs.
Proof.
  intros W OK H. destruct pids as [[p1 p2] d]. unfold pid_ok in OK. unfold c_set in H.
  destruct (blocks_sorted g (sort_cs (cset_rows p1 p2 d [])) W (sort_cs_sorted _)) with (cs := cs) as [A B]; [| exact H |].
  - intros e He. apply (proj1 (sort_cs_In _ _)) in He. apply (cset_rows_ok g p2 d p1 [] OK e He).
  - split; [intros c Hc; apply (A c Hc) | exact B].
Qed.

(* end to end: the modelled perception returns a cycle basis when the path tables are well formed and the selection finishes in
   its first phase *)
Theorem sssr_model_accepted g o sk paths cs rs : gwf g -> 0 < cyclomatic g ->
  skin_graph g = Ok sk -> bfs_paths sk o = Ok paths -> pid_ok g (make_pid paths) = true -> c_set (make_pid paths) = Ok cs ->
  first_phase cs (Z.to_nat (cyclomatic g)) -> sssr_model g o = Ok rs -> is_cycle_basis g rs = true.
Proof.
  intros W Pos Sk Bf OK Cs FP H. unfold sssr_model in H. rewrite (rings_count_ok g W) in H.
  replace (cyclomatic g =? 0) with false in H by (symmetry; apply Z.eqb_neq; lia).
  unfold candidates in H. rewrite Sk, Bf, Cs in H.
  destruct (c_set_cycles_sorted g _ cs W OK Cs) as [Cyc _].
  apply (first_phase_accepted g cs (Z.to_nat (cyclomatic g)) rs W Cyc); [rewrite Z2Nat.id by lia; reflexivity | exact FP | exact H].
Qed.

Lemma first_phase_b_sound cands n : first_phase_b cands n = true -> first_phase cands n.
Proof.
  unfold first_phase_b, first_phase. destruct cands as [|c rest]; [discriminate|]. intros H. apply orb_true_iff in H. destruct H as [H|H].
  - left. apply Nat.eqb_eq. exact H.
  - right. destruct (rf_phase1 n rest [c] c [c] []) as [[[fin sssr] hold] seen]. cbn [fst] in H. subst fin. exists sssr, hold, seen. reflexivity.
Qed.

(* non-vacuity: two fused six-rings; every hypothesis of the end-to-end theorem evaluates to true *)
Example ex_sssr_model :
  let g := [(1,[2;6]);(2,[1;3]);(3,[2;4;8]);(4,[3;5]);(5,[4;6]);(6,[5;1;7]);(7,[6;8]);(8,[7;3])] in
  let o := [[1]; [2; 6]; [5; 7]; [8; 4]] in
  bfs_paths g o = Ok [[1; 6]; [1; 2; 3]; [6; 5; 4]; [3; 4]; [6; 7; 8]; [3; 8]] /\
  pid_ok g (make_pid [[1; 6]; [1; 2; 3]; [6; 5; 4]; [3; 4]; [6; 7; 8]; [3; 8]]) = true /\
  (exists cs, c_set (make_pid [[1; 6]; [1; 2; 3]; [6; 5; 4]; [3; 4]; [6; 7; 8]; [3; 8]]) = Ok cs /\ first_phase_b cs 2 = true) /\
  sssr_model g o = Ok [[1; 2; 3; 4; 5; 6]; [1; 2; 3; 8; 7; 6]] /\
  is_cycle_basis g [[1; 2; 3; 4; 5; 6]; [1; 2; 3; 8; 7; 6]] = true.
Proof.
  cbv zeta. split; [vm_compute; reflexivity|]. split; [vm_compute; reflexivity|]. split; [eexists; split; vm_compute; reflexivity|]. split; vm_compute; reflexivity.
Qed.
