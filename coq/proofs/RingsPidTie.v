(* C06 -- round 4: TIE BY TRANSLATION of _make_pid.
   coq/gen/RingsPidBody.v is regenerated on every check run from the statements of chython/algorithms/rings.py:_make_pid
   (tools/gen_ringspid.py: ast, statement by statement, fail closed).  The lemmas below prove that the hand-written model
   functions of coq/model/RingsGen.v (about which all theorems on the path tables are stated) are EQUAL, for all arguments, to the
   translated ones: a source edit that changes a test of the if / elif chain, the order of its branches, what a branch stores in
   pid1 / pid2 / new_distances, or drops / adds a statement changes the generated function and breaks the named lemma. *)
From Coq Require Import ZArith List Bool Lia.
From Model Require Import PyBase Graph Rings RingsGen.
From Gen Require Import RingsPidBody.
Import ListNotations.
Open Scope Z_scope.

Lemma fold_left_ext_eq {A B} (f g : A -> B -> A) : (forall a b, f a b = g a b) -> forall l a, fold_left f l a = fold_left g l a.
Proof. intros H l. induction l as [|x l IH]; intro a; [reflexivity|]. cbn [fold_left]. rewrite H. apply IH. Qed.

(* first loop: for c in chains *)
Lemma pid_init_step_translated : forall st c, gen_pid_init_step st c = pid_init_step st c.
Proof. intros [[p1 p2] d] c. reflexivity. Qed.

(* body of  for j in pid1: the if / elif chain  ij - ikj == 1 | ij > ikj | ij == ikj | ikj - ij == 1 | else  and its five bodies *)
Lemma pid_j_translated : forall k i dold st j, gen_pid_j k i dold st j = pid_j k i dold st j.
Proof. intros k i dold [[p1 p2] dn] j. reflexivity. Qed.

Lemma pid_i_translated : forall ks k dold st i, gen_pid_i ks k dold st i = pid_i ks k dold st i.
Proof.
  intros ks k dold [[p1 p2] dn] i. unfold gen_pid_i, pid_i. destruct (i =? k); [reflexivity|].
  apply fold_left_ext_eq. intros a b. apply pid_j_translated.
Qed.

Lemma pid_k_translated : forall ks st k, gen_pid_k ks st k = pid_k ks st k.
Proof.
  intros ks [[p1 p2] dold] k. unfold gen_pid_k, pid_k. apply fold_left_ext_eq. intros a b. apply pid_i_translated.
Qed.

(* the whole function *)
Theorem make_pid_translated : forall paths, gen_make_pid paths = make_pid paths.
Proof.
  intro paths. unfold gen_make_pid, make_pid.
  rewrite (fold_left_ext_eq gen_pid_init_step pid_init_step pid_init_step_translated).
  apply fold_left_ext_eq. intros a b. apply pid_k_translated.
Qed.

(* non-vacuity: the translated function computes the tables of a concrete chain set (a triangle 1-2-3 seen from atom 1:
   the two chains 1-2 / 1-3 and the closing chain 2-3), and the branch "a new shortest path" resets pid2 *)
Example make_pid_translated_example :
  gen_make_pid [[1; 2]; [1; 3]; [2; 3]] = make_pid [[1; 2]; [1; 3]; [2; 3]] /\
  fst (fst (gen_make_pid [[1; 2]; [1; 3]; [2; 3]])) <> [].
Proof. split; [apply make_pid_translated|]. vm_compute. discriminate. Qed.

(* the branch taken when the path through k is shorter by two or more EMPTIES the shortest+1 table of (i, j): whatever pid2[i][j]
   held before the round is gone afterwards (this is the statement dropped by a known breaking edit) *)
Lemma new_shortest_resets_pid2 : forall k i j dold p1 p2 dn,
  (j =? k) || (j =? i) = false ->
  dist_get dold i j - (dist_get dold i k + dist_get dold k j) =? 1 = false ->
  dist_get dold i k + dist_get dold k j <? dist_get dold i j = true ->
  snd (fst (gen_pid_j k i dold (p1, p2, dn) j)) = set2 p2 i j [].
Proof.
  intros k i j dold p1 p2 dn H0 H1 H2. unfold gen_pid_j. rewrite H0, H1, H2.
  destruct (compose p1 i k j) as [c p1']. reflexivity.
Qed.
