(* C02, layer 2: the token stream.  Any sequence of tokens of the kinds the writer emits (bare organic / aromatic atoms,
   bracket atoms, bond symbols, direction marks, ring-closure numbers 1..99, parentheses, dots) in which an opening
   parenthesis is not directly followed by a closure number or another parenthesis, written one after the other without
   separators, is split by _tokenize into exactly these tokens.  By induction over the sequence with the tokenizer state
   generalised; the tokenizer never looks at the tokens already produced (frame lemma), so what it does to one token in
   each of the eleven states it can be in between two tokens is a finite computation. *)
From Coq Require Import ZArith List String Ascii Bool Lia.
From Model Require Import PyBase Graph PeriodicTable Stereo Writer.
From Gen Require Import Elements SmilesTables.
From Proofs Require Import WriterProofs.
Import ListNotations.
Open Scope Z_scope.

(* ------------------------------------------------------------------------------------------------ written tokens *)
Inductive wtok :=
| WBare (s : string)          (* an organic-subset symbol written without brackets *)
| WArom (s : string)          (* the lower-case form of B C N O P S; s is the capitalised symbol *)
| WBracket (body : string)    (* [body] *)
| WBond (o : Z)               (* - = # : ~ *)
| WUpDown (up : bool)         (* / \ *)
| WClosure (c : Z)
| WOpen | WClose | WDot.

Definition bond_symbol (o : Z) : string :=
  if o =? 1 then "-" else if o =? 2 then "=" else if o =? 3 then "#" else if o =? 4 then ":" else "~".

Definition spellw (t : wtok) : string :=
  match t with
  | WBare s => s
  | WArom s => lower_string s
  | WBracket body => String "["%char (body ++ "]")
  | WBond o => bond_symbol o
  | WUpDown up => if up then "/" else "\"
  | WClosure c => format_closure c
  | WOpen => "("
  | WClose => ")"
  | WDot => "."
  end%string.

Definition rt_of (t : wtok) : rtok :=
  match t with
  | WBare s => RAtom s
  | WArom s => RArom s
  | WBracket body => RBracket body
  | WBond o => RBond o
  | WUpDown up => RUpDown up
  | WClosure c => RClosure c
  | WOpen => ROpen
  | WClose => RClose
  | WDot => RDot
  end.

Definition arom_bare : list string := ["B"; "C"; "N"; "O"; "P"; "S"]%string.
Definition no_bracket_char (c : ascii) : bool := negb (Ascii.eqb c "[" || Ascii.eqb c "]").

Definition wtok_ok (t : wtok) : bool :=
  match t with
  | WBare s => smem s organic_set
  | WArom s => smem s arom_bare
  | WBracket body => match body with EmptyString => false | _ => forallb no_bracket_char (list_ascii_of_string body) end
  | WBond o => zmem o [1; 2; 3; 4; 8]
  | WClosure c => (heap_lo <=? c) && (c <? heap_hi)
  | _ => true
  end.

(* what may not follow an opening parenthesis: '(1', '(%10', '((' and '()' are rejected by the tokenizer *)
Definition after_open_ok (t : wtok) : bool :=
  match t with WClosure _ | WOpen | WClose => false | _ => true end.

Fixpoint wtoks_ok (prev_open : bool) (ts : list wtok) : bool :=
  match ts with
  | [] => true
  | t :: r => wtok_ok t && (if prev_open then after_open_ok t else true) &&
              wtoks_ok (match t with WOpen => true | _ => false end) r
  end.

Definition spellws (ts : list wtok) : string := scat (map spellw ts).

(* ------------------------------------------------------------------------------------------------ frame lemma *)
Definition pre (p : list rtok) (st : tkst) : tkst := mkTk (tk_type st) (tk_pend st) (p ++ tk_out st).
Definition lift (p : list rtok) (r : pyres tkst) : pyres tkst :=
  match r with Ok st => Ok (pre p st) | Err e => Err e end.

Lemma flush_pre p st : flush (pre p st) = p ++ flush st.
Proof. unfold flush, pre. cbn. destruct (tk_pend st); try reflexivity. apply app_assoc_reverse. Qed.

Lemma tt_is_pre p st k : tt_is (pre p st) k = tt_is st k.
Proof. reflexivity. Qed.

Lemma tk_step_frame p st c : tk_step (pre p st) c = lift p (tk_step st c).
Proof.
  unfold tk_step. repeat rewrite tt_is_pre. repeat rewrite flush_pre.
  cbn [pre tk_pend tk_out tk_type].
  repeat match goal with
  | |- context [if ?b then _ else _] => destruct b
  | |- context [match tk_pend st with _ => _ end] => destruct (tk_pend st)
  | |- context [match ?l with [] => _ | _ :: _ => _ end] => destruct l
  | |- context [match sget1 ?a ?b with _ => _ end] => destruct (sget1 a b)
  end; cbn [lift pre tk_type tk_pend tk_out]; try reflexivity;
  try (rewrite app_assoc_reverse; reflexivity).
Qed.

Lemma tk_loop_frame p l : forall st, tk_loop (pre p st) l = lift p (tk_loop st l).
Proof.
  induction l as [|c l IH]; intros st; cbn [tk_loop]; [reflexivity|].
  rewrite tk_step_frame. destruct (tk_step st c) as [st'|e]; cbn [lift]; [apply IH | reflexivity].
Qed.

Lemma tk_loop_app l1 : forall l2 st,
  tk_loop st (l1 ++ l2) = match tk_loop st l1 with Ok st' => tk_loop st' l2 | Err e => Err e end.
Proof.
  induction l1 as [|c l1 IH]; intros l2 st; cbn [app tk_loop]; [reflexivity|].
  destruct (tk_step st c); [apply IH | reflexivity].
Qed.

(* ------------------------------------------------------------------------------------------------ states between tokens *)
Inductive skind := KInit | K0 | KC | KB | K8 | K1 | K9 | K6 | K2 | K3 | K4.
Definition kinds : list skind := [KInit; K0; KC; KB; K8; K1; K9; K6; K2; K3; K4].

Definition st_of (k : skind) (out : list rtok) : tkst :=
  match k with
  | KInit => mkTk None PNone out
  | K0 => mkTk (Some 0) PNone out
  | KC => mkTk (Some 0) (PFlag "C") out
  | KB => mkTk (Some 0) (PFlag "B") out
  | K8 => mkTk (Some 8) PNone out
  | K1 => mkTk (Some 1) PNone out
  | K9 => mkTk (Some 9) PNone out
  | K6 => mkTk (Some 6) PNone out
  | K2 => mkTk (Some 2) PNone out
  | K3 => mkTk (Some 3) PNone out
  | K4 => mkTk (Some 4) PNone out
  end.

Lemma st_of_pre k p out : st_of k (p ++ out) = pre p (st_of k out).
Proof. destruct k; reflexivity. Qed.

(* the tokens produced so far = the list out plus the pending C / B *)
Definition emitted (k : skind) (out : list rtok) : list rtok := flush (st_of k out).

Definition is_open_kind (k : skind) : bool := match k with K2 => true | _ => false end.

(* the state after a token: the kind, and what is left pending *)
Definition kind_after (t : wtok) : skind :=
  match t with
  | WBare s => if String.eqb s "C" then KC else if String.eqb s "B" then KB else K0
  | WArom _ => K8
  | WBracket _ => K0
  | WBond _ => K1
  | WUpDown _ => K9
  | WClosure _ => K6
  | WOpen => K2
  | WClose => K3
  | WDot => K4
  end.

Definition skind_eqb (a b : skind) : bool :=
  match a, b with
  | KInit, KInit | K0, K0 | KC, KC | KB, KB | K8, K8 | K1, K1 | K9, K9 | K6, K6 | K2, K2 | K3, K3 | K4, K4 => true
  | _, _ => false
  end.

(* one token from one of the eleven states, with nothing produced before: the result is again one of the eleven states,
   and the tokens produced are the pending one (if any) followed by the new one *)
Definition step_ok (k : skind) (t : wtok) : bool :=
  match tk_loop (st_of k []) (list_ascii_of_string (spellw t)) with
  | Ok st' =>
      let k' := kind_after t in
      option_eqb Z.eqb (tk_type st') (tk_type (st_of k' [])) &&
      match tk_pend st', tk_pend (st_of k' []) with
      | PNone, PNone => true
      | PFlag a, PFlag b => Ascii.eqb a b
      | _, _ => false
      end &&
      list_eqb rtok_eqb (flush st') (emitted k [] ++ [rt_of t])
  | Err _ => false
  end.

(* the finitely many tokens that are not bracket atoms *)
Definition simple_tokens : list wtok :=
  map WBare organic_set ++ map WArom arom_bare ++ map WBond [1; 2; 3; 4; 8] ++ [WUpDown true; WUpDown false] ++
  map WClosure (zrange heap_lo heap_hi) ++ [WOpen; WClose; WDot].

Lemma simple_steps :
  forallb (fun k => forallb (fun t => implb (if is_open_kind k then after_open_ok t else true) (step_ok k t)) simple_tokens) kinds = true.
Proof. vm_compute. reflexivity. Qed.

Lemma kinds_all k : In k kinds.
Proof. destruct k; cbn; tauto. Qed.

Lemma simple_tokens_all t : wtok_ok t = true -> (forall b, t <> WBracket b) -> In t simple_tokens.
Proof.
  intros H Hb. unfold simple_tokens. destruct t; cbn [wtok_ok] in H.
  - apply in_or_app. left. apply in_map. unfold smem in H. apply existsb_exists in H. destruct H as [x [Hx He]].
    apply String.eqb_eq in He. subst. exact Hx.
  - apply in_or_app. right. apply in_or_app. left. apply in_map. unfold smem in H. apply existsb_exists in H.
    destruct H as [x [Hx He]]. apply String.eqb_eq in He. subst. exact Hx.
  - exfalso. apply (Hb body). reflexivity.
  - do 2 (apply in_or_app; right). apply in_or_app. left. apply in_map. apply zmem_In. exact H.
  - do 3 (apply in_or_app; right). apply in_or_app. left. destruct up; cbn; tauto.
  - do 4 (apply in_or_app; right). apply in_or_app. left. apply in_map. apply zrange_In.
    apply andb_true_iff in H. destruct H as [H1 H2]. apply Z.leb_le in H1. apply Z.ltb_lt in H2. lia.
  - do 5 (apply in_or_app; right). cbn. tauto.
  - do 5 (apply in_or_app; right). cbn. tauto.
  - do 5 (apply in_or_app; right). cbn. tauto.
Qed.

(* the shape of a state is determined by its type, pending token and output *)
Lemma state_of_parts st k out :
  option_eqb Z.eqb (tk_type st) (tk_type (st_of k [])) = true ->
  match tk_pend st, tk_pend (st_of k []) with
  | PNone, PNone => true
  | PFlag a, PFlag b => Ascii.eqb a b
  | _, _ => false
  end = true ->
  tk_out st = out -> st = st_of k out.
Proof.
  destruct st as [ty pd o]. cbn [tk_type tk_pend tk_out]. intros Ht Hp Ho. subst o.
  destruct k; cbn in *;
    (destruct ty as [z|]; cbn in Ht; try discriminate; try (apply Z.eqb_eq in Ht; subst z));
    destruct pd as [|a|l]; try discriminate; try reflexivity;
    apply Ascii.eqb_eq in Hp; subst a; reflexivity.
Qed.

(* ------------------------------------------------------------------------------------------------ one token, any state *)
Definition token_step (k : skind) (t : wtok) : Prop :=
  forall out, exists out',
    tk_loop (st_of k out) (list_ascii_of_string (spellw t)) = Ok (st_of (kind_after t) out') /\
    emitted (kind_after t) out' = emitted k out ++ [rt_of t].

Lemma emitted_pre k p out : emitted k (p ++ out) = p ++ emitted k out.
Proof. unfold emitted. rewrite st_of_pre. apply flush_pre. Qed.

Lemma simple_token_step k t :
  wtok_ok t = true -> (forall b, t <> WBracket b) -> (is_open_kind k = true -> after_open_ok t = true) -> token_step k t.
Proof.
  intros Hok Hnb Hop out.
  pose proof simple_steps as S. rewrite forallb_forall in S. specialize (S k (kinds_all k)).
  rewrite forallb_forall in S. specialize (S t (simple_tokens_all t Hok Hnb)).
  assert (Hs : step_ok k t = true).
  { destruct (is_open_kind k); [rewrite (Hop eq_refl) in S|]; exact S. }
  clear S. unfold step_ok in Hs.
  destruct (tk_loop (st_of k []) (list_ascii_of_string (spellw t))) as [st'|e] eqn:E; [|discriminate].
  apply andb_true_iff in Hs. destruct Hs as [Hs H3]. apply andb_true_iff in Hs. destruct Hs as [H1 H2].
  pose proof (state_of_parts st' (kind_after t) (tk_out st') H1 H2 eq_refl) as Hst.
  exists (out ++ tk_out st'). split.
  - rewrite <- (app_nil_r out) at 1. rewrite st_of_pre. rewrite tk_loop_frame. rewrite E. cbn [lift].
    rewrite Hst at 1. rewrite <- st_of_pre. reflexivity.
  - rewrite emitted_pre. rewrite <- (app_nil_r out) at 2. rewrite emitted_pre. rewrite <- app_assoc. f_equal.
    apply rtok_list_eqb_eq in H3. unfold emitted at 1. rewrite <- Hst. exact H3.
Qed.

(* bracket atoms: '[' flushes the pending token and opens the buffer, every body character is collected, ']' closes *)
Lemma bracket_body_loop : forall body acc out rest,
  forallb no_bracket_char body = true ->
  tk_loop (mkTk (Some 5) (PBuf acc) out) (body ++ rest) = tk_loop (mkTk (Some 5) (PBuf (acc ++ body)) out) rest.
Proof.
  induction body as [|c body IH]; intros acc out rest Hb; cbn [app].
  - rewrite app_nil_r. reflexivity.
  - cbn in Hb. apply andb_true_iff in Hb. destruct Hb as [Hc Hb].
    unfold no_bracket_char in Hc. apply negb_true_iff in Hc. apply orb_false_iff in Hc. destruct Hc as [Hc1 Hc2].
    cbn [tk_loop]. unfold tk_step at 1. rewrite Hc1, Hc2. cbn [tt_is tk_type tk_pend tk_out]. rewrite Z.eqb_refl.
    rewrite IH by exact Hb. rewrite <- app_assoc. reflexivity.
Qed.

Lemma string_of_list_of_string' s : string_of_list_ascii (list_ascii_of_string s) = s.
Proof. induction s as [|c s IH]; cbn; [reflexivity | rewrite IH; reflexivity]. Qed.

Lemma list_ascii_app' a b : list_ascii_of_string (a ++ b) = (list_ascii_of_string a ++ list_ascii_of_string b)%list.
Proof. induction a as [|c a IH]; cbn; [reflexivity | rewrite IH; reflexivity]. Qed.

Lemma bracket_token_step k body : wtok_ok (WBracket body) = true -> token_step k (WBracket body).
Proof.
  intros Hok out. cbn [wtok_ok] in Hok.
  destruct body as [|c0 body0] eqn:Eb; [discriminate|]. rewrite <- Eb in *.
  assert (Hne : list_ascii_of_string body <> []) by (rewrite Eb; discriminate).
  exists (emitted k out ++ [RBracket body]). split.
  - cbn [spellw kind_after]. cbn [list_ascii_of_string]. rewrite list_ascii_app'. cbn [list_ascii_of_string].
    cbn [tk_loop].
    assert (H1 : tk_step (st_of k out) "[" = Ok (mkTk (Some 5) (PBuf []) (emitted k out))) by (destruct k; reflexivity).
    rewrite H1. rewrite bracket_body_loop by exact Hok. cbn [app tk_loop].
    unfold tk_step. cbn [tt_is tk_type tk_pend tk_out]. cbn.
    destruct (list_ascii_of_string body) as [|c l] eqn:El; [contradiction|].
    assert (Hb : body = String c (string_of_list_ascii l)).
    { rewrite <- (string_of_list_of_string' body). rewrite El. reflexivity. }
    rewrite <- Hb. reflexivity.
  - reflexivity.
Qed.

Lemma token_step_any k t : wtok_ok t = true -> (is_open_kind k = true -> after_open_ok t = true) -> token_step k t.
Proof.
  intros Hok Hop. destruct t; try (apply simple_token_step; [exact Hok | intros b0 Hb; discriminate Hb | exact Hop]).
  apply bracket_token_step. exact Hok.
Qed.

(* ------------------------------------------------------------------------------------------------ the sequence *)
Lemma scat_cons s l : list_ascii_of_string (scat (s :: l)) = (list_ascii_of_string s ++ list_ascii_of_string (scat l))%list.
Proof.
  unfold scat. destruct l as [|x l]; cbn [String.concat].
  - rewrite app_nil_r. reflexivity.
  - rewrite list_ascii_app'. cbn [String.append]. reflexivity.
Qed.

Lemma is_open_kind_after t : is_open_kind (kind_after t) = match t with WOpen => true | _ => false end.
Proof.
  destruct t; try reflexivity. cbn [kind_after].
  destruct (String.eqb s "C"); [reflexivity|]. destruct (String.eqb s "B"); reflexivity.
Qed.

Lemma tokens_loop : forall ts k out,
  wtoks_ok (is_open_kind k) ts = true ->
  exists k' out', tk_loop (st_of k out) (list_ascii_of_string (spellws ts)) = Ok (st_of k' out') /\
                  emitted k' out' = emitted k out ++ map rt_of ts.
Proof.
  induction ts as [|t ts IH]; intros k out Hok.
  - exists k, out. split; [reflexivity|]. cbn [map]. rewrite app_nil_r. reflexivity.
  - cbn [wtoks_ok] in Hok. apply andb_true_iff in Hok. destruct Hok as [Hok Hrest].
    apply andb_true_iff in Hok. destruct Hok as [Ht Hop].
    assert (Hop' : is_open_kind k = true -> after_open_ok t = true) by (intros E; rewrite E in Hop; exact Hop).
    destruct (token_step_any k t Ht Hop' out) as [out1 [H1 E1]].
    rewrite <- is_open_kind_after in Hrest.
    destruct (IH (kind_after t) out1 Hrest) as [k' [out' [H2 E2]]].
    exists k', out'. split.
    + unfold spellws. cbn [map]. rewrite scat_cons. rewrite tk_loop_app. rewrite H1. exact H2.
    + rewrite E2, E1. cbn [map]. rewrite <- app_assoc. reflexivity.
Qed.

Lemma tk_finish_kind k out : tk_finish (st_of k out) = Ok (emitted k out).
Proof. destruct k; reflexivity. Qed.

Theorem tokens_roundtrip : forall ts, wtoks_ok false ts = true -> tokenize (spellws ts) = Ok (map rt_of ts).
Proof.
  intros ts Hok. unfold tokenize, tokenize_chars.
  destruct (tokens_loop ts KInit [] Hok) as [k' [out' [H E]]].
  change (mkTk None PNone []) with (st_of KInit []). rewrite H. rewrite tk_finish_kind. rewrite E. reflexivity.
Qed.

(* the side condition is needed: '(' directly followed by a closure number is rejected *)
Lemma tokens_roundtrip_needs_side_condition :
  tokenize (spellws [WBare "C"; WOpen; WClosure 1; WBare "C"; WClose; WBare "C"; WClosure 1]) = Err IncorrectSmiles.
Proof. vm_compute. reflexivity. Qed.

(* non-vacuity: C(=O)[O-].c1cc[nH]c1%12/C=C\Cl *)
Lemma tokens_roundtrip_example :
  let ts := [WBare "C"; WOpen; WBond 2; WBare "O"; WClose; WBracket "O-"; WDot; WArom "C"; WClosure 1; WArom "C"; WArom "C";
             WBracket "nH"; WArom "C"; WClosure 1; WClosure 12; WUpDown true; WBare "C"; WBond 2; WBare "C"; WUpDown false;
             WBare "Cl"]%string in
  wtoks_ok false ts = true /\ spellws ts = "C(=O)[O-].c1cc[nH]c1%12/C=C\Cl"%string /\
  tokenize "C(=O)[O-].c1cc[nH]c1%12/C=C\Cl" = Ok (map rt_of ts).
Proof. repeat split; vm_compute; reflexivity. Qed.
