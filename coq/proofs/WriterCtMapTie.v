(* C02, round 4: MoleculeSmiles.__ct_map translated statement by statement from chython/algorithms/smiles.py by tools/gen_ctmap.py
   on every run (coq/gen/CtMap.v) against the hand-written Writer.ct_inner / ct_outer / ct_map that every theorem and every
   correspondence case of the writer uses: equal for ALL arguments.  An edit of the source that changes which key is written, which
   member is added to `seen`, the order of the branches or a mark changes the generated term and breaks ct_inner_generated /
   ct_outer_generated. *)
From Coq Require Import ZArith List String Bool.
From Gen Require Import CtMap.
From Model Require Import PyBase Graph Stereo Writer.
Import ListNotations.
Open Scope Z_scope.

Lemma ct_inner_generated : forall g tabs k cs env acc v,
  g_ct_inner g tabs k cs env acc v = ct_inner g tabs k cs env acc v.
Proof.
  intros g tabs k cs env acc v. unfold g_ct_inner, ct_inner.
  destruct acc as [st|e]; [|reflexivity].
  destruct (in_env v env); cbn [negb]; [|reflexivity].
  unfold pm_has. destruct (pget (ct_pm st) (k, v)); [reflexivity|].
  fold (im_truthy st k). destruct (im_truthy st k) as [x|].
  - destruct (pget (ct_pm st) (k, x)) as [s|]; [|reflexivity].
    unfold ct_note, pm_set, im_set, sp_add. cbn [ct_pm ct_im ct_si ct_sp].
    destruct (zget (t_ctc tabs) v); reflexivity.
  - destruct (pair_mem cs (ct_sp st)).
    + destruct (zget (t_ctcp tabs) k) as [o'|]; [|reflexivity].
      destruct (zget (ct_im st) o') as [on|]; [|reflexivity].
      destruct (pget (ct_pm st) (o', on)) as [s|]; [|reflexivity].
      unfold tr_sign. destruct (centre_stereo g tabs k) as [s0|]; [|reflexivity].
      destruct (translate_ct (is_H g) (pget (t_sct tabs) (k, o')) (pget (t_sct tabs) (o', k)) v on s0) as [r|e]; [|reflexivity].
      unfold ct_note, pm_set, im_set, sp_add. cbn [ct_pm ct_im ct_si ct_sp].
      destruct r; cbn [negb]; destruct (zget (t_ctc tabs) v); reflexivity.
    + unfold ct_note, pm_set, im_set, sp_add.
      destruct (zget (t_ctc tabs) v); reflexivity.
Qed.

Lemma fold_left_ext_eq {A B : Type} (f f' : A -> B -> A) (H : forall a b, f a b = f' a b) :
  forall l a, fold_left f l a = fold_left f' l a.
Proof. induction l as [|x l IH]; intro a; cbn; [reflexivity | rewrite H; apply IH]. Qed.

Lemma stereo_bonds_generated : forall g, g_stereo_bonds g = stereo_bond_atoms g.
Proof. reflexivity. Qed.

Lemma ct_outer_generated : forall g tabs acc kv, g_ct_outer g tabs acc kv = ct_outer g tabs acc kv.
Proof.
  intros g tabs acc [k vs]. unfold g_ct_outer, ct_outer. destruct acc as [st|e]; [|reflexivity].
  rewrite stereo_bonds_generated. unfold si_add.
  destruct (zget (t_ctc tabs) k) as [cs|]; [|reflexivity].
  destruct (zmem (fst cs) (stereo_bond_atoms g) && zmem (snd cs) (stereo_bond_atoms g)); [|reflexivity].
  destruct (zget (t_ctt tabs) k) as [tk|]; [|reflexivity].
  destruct (pget (t_sct tabs) tk) as [env|]; [|reflexivity].
  rewrite (fold_left_ext_eq _ _ (ct_inner_generated g tabs k cs env)).
  destruct (fold_left (ct_inner g tabs k cs env) vs (Ok (mkCt (ct_pm st) (ct_im st) (k :: ct_si st) (ct_sp st)))); reflexivity.
Qed.

Theorem ct_map_generated : forall g tabs adj, g_ct_map g tabs adj = ct_map g tabs adj.
Proof.
  intros g tabs adj. unfold g_ct_map, ct_map. rewrite stereo_bonds_generated.
  rewrite (fold_left_ext_eq _ _ (ct_outer_generated g tabs)). reflexivity.
Qed.

(* non-vacuity: F/C=C/C=C/Cl written from F: one left entry, the second double bond follows through the 1,3-diene note *)
Example ct_map_generated_example :
  let g := mkMol [(1, mkAtom 9 None 0 false (Some 0) None); (2, mkAtom 6 None 0 false (Some 1) None);
                  (3, mkAtom 6 None 0 false (Some 1) None); (4, mkAtom 9 None 0 false (Some 0) None)]
                 [(1, [(2, mkBond 1 None)]); (2, [(1, mkBond 1 None); (3, mkBond 2 (Some true))]);
                  (3, [(2, mkBond 2 (Some true)); (4, mkBond 1 None)]); (4, [(3, mkBond 1 None)])] in
  let tabs := mkStabs [] [] [] [((2, 3), (1, 4, None, None))] [(2, (2, 3)); (3, (2, 3))] [(2, (2, 3)); (3, (2, 3))] [(2, 3); (3, 2)] in
  let adj := [(1, [2]); (2, [1; 3]); (3, [2; 4]); (4, [3])] in
  exists cm, g_ct_map g tabs adj = Ok cm /\ cm <> [] /\ ct_map g tabs adj = Ok cm.
Proof. eexists. split; [vm_compute; reflexivity|]. split; [discriminate | vm_compute; reflexivity]. Qed.
