(* C11: RDF record framing WITHOUT the non-empty-record hypothesis.  Since the fix of RDFRead._read_block ("a format line met while
   the buffer is still empty is skipped") an empty record - a $RFMT/$MFMT line directly followed by the next one, or by the end of
   the file - simply disappears: reading a file yields the results of its NON-EMPTY records. *)
From Coq Require Import ZArith List String Ascii Bool Lia.
From Model Require Import PyBase Mdl.
From Gen Require Import MdlTables.
From Proofs Require Import MdlProofs MdlFraming.
Import ListNotations.
Open Scope Z_scope.
Local Notation length := List.length.
Local Notation concat := List.concat.

Section FramingExt.
  Variable A : Type.
  Variable build_mol : parsed3 -> pyres A.
  Variable build_rxn : rparsed -> pyres A.
  Variable buffer_size : nat.

  Definition is_nil {X} (l : list X) : bool := match l with [] => true | _ => false end.
  (* the records that are read: those with at least one line *)
  Definition nonempty_bodies (recs : list (str * list str)) : list (list str) :=
    filter (fun b => negb (is_nil b)) (map snd recs).
  (* drop the leading empty records *)
  Fixpoint skip_empty (recs : list (str * list str)) : list (str * list str) :=
    match recs with
    | (_, []) :: r => skip_empty r
    | _ => recs
    end.

  Lemma skip_empty_length recs : (length (skip_empty recs) <= length recs)%nat.
  Proof. induction recs as [|[f [|l b]] recs IH]; cbn [skip_empty length]; lia. Qed.
  Lemma skip_empty_bodies recs : nonempty_bodies (skip_empty recs) = nonempty_bodies recs.
  Proof.
    unfold nonempty_bodies. induction recs as [|[f [|l b]] recs IH]; cbn [skip_empty map snd filter is_nil negb]; [reflexivity | exact IH | reflexivity].
  Qed.
  Lemma skip_empty_Forall (P : str * list str -> Prop) recs : Forall P recs -> Forall P (skip_empty recs).
  Proof.
    induction recs as [|[f body] recs IH]; intros H; [exact H|].
    destruct body as [|l b]; cbn [skip_empty]; [|exact H]. inversion H; subst. apply IH. assumption.
  Qed.

  (* reading from just after a consumed format line: the empty records that follow are skipped, one counter step each *)
  Lemma rdf_block_skip recs : forall n,
    Forall (fun fb => is_fmt (fst fb) = true) recs -> (n + length recs < buffer_size)%nat ->
    rdf_block buffer_size (rdf_rest recs) n false [] None =
    rdf_block buffer_size (rdf_rest (skip_empty recs)) (n + (length recs - length (skip_empty recs))) false [] None.
  Proof.
    induction recs as [|[f body] recs IH]; intros n Hf Hn.
    - cbn [skip_empty length]. rewrite Nat.sub_diag, Nat.add_0_r. reflexivity.
    - destruct body as [|l body].
      + (* an empty record: what follows its (already consumed) format line is the next format line, or the end of the file *)
        inversion Hf as [|? ? _ Hf']; subst. cbn [skip_empty rdf_rest snd app length] in *.
        destruct recs as [|[f2 b2] recs].
        * cbn [rdf_tail map concat skip_empty length rdf_rest]. reflexivity.
        * inversion Hf' as [|? ? Hf2 _]; subst. cbn [fst] in Hf2.
          unfold rdf_tail at 1. cbn [map concat fst snd app]. fold (rdf_tail recs). cbn [rdf_block].
          destruct (Nat.eqb n buffer_size) eqn:E; [apply Nat.eqb_eq in E; lia|].
          pose proof (is_fmt_not_dtype f2 Hf2) as Hd. unfold is_dtype in Hd. cbn [falsy andb]. rewrite Hd, Hf2.
          change (b2 ++ rdf_tail recs) with (rdf_rest ((f2, b2) :: recs)).
          rewrite IH by (try assumption; cbn [length] in *; lia).
          pose proof (skip_empty_length ((f2, b2) :: recs)) as Hl. f_equal. cbn [length] in *. lia.
      + cbn [skip_empty length]. rewrite Nat.sub_diag, Nat.add_0_r. reflexivity.
  Qed.

  Definition rdf_rec_ok (slack : nat) (fb : str * list str) : Prop :=
    is_fmt (fst fb) = true /\ Forall (fun l => is_fmt l = false) (snd fb) /\ (slack + length (snd fb) < buffer_size)%nat.

  (* one read, positioned just after a consumed format line (tell <> 0: not in drop mode) *)
  Lemma rdf_structure_skip tell recs n0 :
    tell <> 0%nat -> Forall (rdf_rec_ok (n0 + length recs)) recs -> (n0 + length recs < buffer_size)%nat ->
    rdf_block buffer_size (rdf_rest recs) n0 false [] None =
    match skip_empty recs with
    | [] => (Some ([], None), [])
    | (f, body) :: r => (Some (body, mscan body 0 None), rdf_rest r)
    end.
  Proof.
    intros Ht Hr Hn.
    assert (Hf : Forall (fun fb : str * list str => is_fmt (fst fb) = true) recs) by (eapply Forall_impl; [|exact Hr]; intros fb [H _]; exact H).
    rewrite rdf_block_skip by assumption.
    pose proof (skip_empty_length recs) as Hl.
    pose proof (skip_empty_Forall _ _ Hr) as Hr'.
    destruct (skip_empty recs) as [|[f body] r] eqn:E; [reflexivity|].
    inversion Hr' as [|? ? [H1 [H2 H3]] Hr'']; subst. cbn [fst snd] in *.
    assert (Hne : body <> []).
    { clear - E. induction recs as [|[f0 [|l0 b0]] recs IH]; cbn [skip_empty] in E; [discriminate | exact (IH E) | inversion E; subst; discriminate]. }
    cbn [rdf_rest snd].
    rewrite rdf_block_body; [reflexivity | exact H2 | | cbn [length] in *; lia | exact Hne].
    eapply Forall_impl; [|exact Hr'']. intros fb [H _]. exact H.
  Qed.

  Lemma rdf_read_structure_skip tell recs :
    tell <> 0%nat -> Forall (rdf_rec_ok (length recs)) recs -> (length recs < buffer_size)%nat ->
    rdf_read_structure A build_mol build_rxn buffer_size tell (rdf_rest recs) =
    match skip_empty recs with
    | [] => (inr EOFError, [])
    | (f, body) :: r => (rdf_one A build_mol build_rxn body, rdf_rest r)
    end.
  Proof.
    intros Ht Hr Hn. unfold rdf_read_structure.
    replace (Nat.eqb tell 0) with false by (symmetry; apply Nat.eqb_neq; exact Ht).
    rewrite (rdf_structure_skip tell recs 0%nat Ht) by (cbn [Nat.add]; assumption).
    destruct (skip_empty recs) as [|[f body] r] eqn:E; [reflexivity|].
    assert (Hne : body <> []).
    { clear - E. induction recs as [|[f0 [|l0 b0]] recs IH]; cbn [skip_empty] in E; [discriminate | exact (IH E) | inversion E; subst; discriminate]. }
    unfold rdf_one. destruct body as [|l body]; [contradiction|]. cbv zeta.
    destruct (rdf_dispatch A build_mol build_rxn (l :: body)); reflexivity.
  Qed.

  Lemma rdf_rec_ok_weaken a b fb : (b <= a)%nat -> rdf_rec_ok a fb -> rdf_rec_ok b fb.
  Proof. intros H [H1 [H2 H3]]. repeat split; try assumption. lia. Qed.

  Lemma skip_empty_suffix recs : exists pre, recs = pre ++ skip_empty recs.
  Proof.
    induction recs as [|[f [|l b]] recs [pre IH]]; cbn [skip_empty].
    - exists []. reflexivity.
    - exists ((f, []) :: pre). cbn [app]. f_equal. exact IH.
    - exists []. reflexivity.
  Qed.

  Lemma rdf_iter_skip k : forall recs fuel tell,
    (length recs <= k)%nat -> tell <> 0%nat ->
    Forall (rdf_rec_ok (length recs)) recs -> (length recs < buffer_size)%nat -> (length recs < fuel)%nat ->
    rdf_iter A build_mol build_rxn buffer_size fuel tell (rdf_rest recs) =
    collect A (map (rdf_one A build_mol build_rxn) (nonempty_bodies recs)).
  Proof.
    induction k as [|k IH]; intros recs fuel tell Hk Ht Hr Hn Hf.
    - destruct recs; [|cbn [length] in Hk; lia]. destruct fuel as [|fuel]; [lia|].
      cbn [rdf_rest rdf_iter nonempty_bodies map filter collect]. unfold rdf_read_structure.
      replace (Nat.eqb tell 0) with false by (symmetry; apply Nat.eqb_neq; exact Ht). reflexivity.
    - destruct fuel as [|fuel]; [lia|]. cbn [rdf_iter]. rewrite rdf_read_structure_skip by assumption.
      rewrite <- (skip_empty_bodies recs).
      pose proof (skip_empty_length recs) as Hl. pose proof (skip_empty_Forall _ _ Hr) as Hr'.
      destruct (skip_empty recs) as [|[f body] r] eqn:E.
      + reflexivity.
      + assert (Hne : body <> []).
        { clear - E. induction recs as [|[f0 [|l0 b0]] recs IH']; cbn [skip_empty] in E; [discriminate | exact (IH' E) | inversion E; subst; discriminate]. }
        cbn [length] in Hl. inversion Hr' as [|? ? _ Hr'']; subst.
        assert (IH' : rdf_iter A build_mol build_rxn buffer_size fuel (S tell) (rdf_rest r) =
                      collect A (map (rdf_one A build_mol build_rxn) (nonempty_bodies r))).
        { apply IH; try lia. eapply Forall_impl; [|exact Hr'']. intros fb. apply rdf_rec_ok_weaken. lia. }
        unfold nonempty_bodies at 1. cbn [map snd filter]. destruct body as [|l body]; [contradiction|]. cbn [is_nil negb map].
        fold (nonempty_bodies r).
        pose proof (rdf_one_not_eof A build_mol build_rxn (l :: body) Hne) as Hneof.
        destruct (rdf_one A build_mol build_rxn (l :: body)) as [x|[e| |]]; cbn [collect].
        * rewrite IH'. reflexivity.
        * destruct (is_skipped e); [exact IH' | reflexivity].
        * contradiction.
        * reflexivity.
  Qed.

  Lemma rdf_tail_length recs : (length recs <= length (rdf_tail recs))%nat.
  Proof.
    unfold rdf_tail. induction recs as [|[a b] recs IH]; cbn [map concat length fst snd]; [lia|]. rewrite app_length. cbn [length]. lia.
  Qed.

  (* rdf_framing, full: records may be empty; an empty record is skipped, the others yield what their own lines yield.
     The size condition: a record, the header and the number of records together stay below the buffer size (the line counter of
     one read also counts the header lines and the format lines of skipped empty records). *)
  Theorem rdf_framing_full header recs :
    Forall (fun l => is_fmt l = false /\ startswith (L "$RXN") l = false) header ->
    Forall (rdf_rec_ok (S (length header) + length recs)) recs ->
    (S (length header) + length recs < buffer_size)%nat ->
    rdf_read A build_mol build_rxn buffer_size (rdf_file header recs) =
    collect A (map (rdf_one A build_mol build_rxn) (nonempty_bodies recs)).
  Proof.
    intros Hh Hr Hn. unfold rdf_read, rdf_file.
    destruct recs as [|[f body] recs].
    - unfold rdf_tail. cbn [map concat]. rewrite app_nil_r. cbn [rdf_iter nonempty_bodies map filter collect].
      unfold rdf_read_structure. cbn [Nat.eqb].
      assert (E : forall n, rdf_block buffer_size header n true [] None = (Some ([], None), [])).
      { clear - Hh. induction Hh as [|l header [H1 H2] _ IH]; intros n; [reflexivity|]. cbn [rdf_block]. rewrite H2, H1. apply IH. }
      rewrite E. reflexivity.
    - inversion Hr as [|? ? [H1 [H2 H3]] Hr']; subst. cbn [fst snd length] in *.
      unfold rdf_tail. cbn [map concat fst snd]. fold (rdf_tail recs). cbn [app].
      remember (length (header ++ f :: body ++ rdf_tail recs)) as fuel eqn:Efuel. cbn [rdf_iter].
      unfold rdf_read_structure. cbn [Nat.eqb].
      rewrite rdf_block_header by (try assumption; apply is_fmt_not_rxn; exact H1).
      change (body ++ rdf_tail recs) with (rdf_rest ((f, body) :: recs)).
      rewrite (rdf_structure_skip 1 ((f, body) :: recs) (S (0 + length header))); [| lia | | cbn [length]; lia].
      2:{ constructor; [repeat split; try assumption; cbn [length]; lia|]. eapply Forall_impl; [|exact Hr']. intros fb. apply rdf_rec_ok_weaken. cbn [length]. lia. }
      rewrite <- (skip_empty_bodies ((f, body) :: recs)).
      pose proof (skip_empty_length ((f, body) :: recs)) as Hl.
      assert (Hr0 : Forall (rdf_rec_ok (S (length header) + S (length recs))) ((f, body) :: recs)) by (constructor; [repeat split; assumption | exact Hr']).
      pose proof (skip_empty_Forall _ _ Hr0) as Hr''.
      destruct (skip_empty ((f, body) :: recs)) as [|[f' body'] r] eqn:E.
      + reflexivity.
      + assert (Hne : body' <> []).
        { clear - E. revert E. generalize ((f, body) :: recs). intros l E. induction l as [|[f0 [|l0 b0]] l IH']; cbn [skip_empty] in E; [discriminate | exact (IH' E) | inversion E; subst; discriminate]. }
        cbn [length] in Hl. pose proof (Forall_inv_tail Hr'') as Hr3.
        assert (IH' : rdf_iter A build_mol build_rxn buffer_size fuel 1 (rdf_rest r) =
                      collect A (map (rdf_one A build_mol build_rxn) (nonempty_bodies r))).
        { apply (rdf_iter_skip (length r)); try lia.
          - eapply Forall_impl; [|exact Hr3]. intros fb. apply rdf_rec_ok_weaken. lia.
          - subst fuel. rewrite app_length. cbn [length]. rewrite app_length. pose proof (rdf_tail_length recs). lia. }
        unfold nonempty_bodies at 1. cbn [map snd filter]. destruct body' as [|l body']; [contradiction|]. cbn [is_nil negb map app length].
        fold (nonempty_bodies r). cbv zeta.
        destruct (rdf_dispatch A build_mol build_rxn (l :: body')) as [x|e] eqn:Ed.
        * assert (E1 : rdf_one A build_mol build_rxn (l :: body') = inl (x, rdf_read_metadata (if falsy (mscan (l :: body') 0 None) then [] else skipn (match mscan (l :: body') 0 None with Some k => k | None => 0%nat end) (l :: body')))).
          { unfold rdf_one. cbv zeta. rewrite Ed. reflexivity. }
          rewrite E1. cbn [collect]. rewrite IH'. reflexivity.
        * assert (E1 : rdf_one A build_mol build_rxn (l :: body') = inr (Py e)) by (unfold rdf_one; cbv zeta; rewrite Ed; reflexivity).
          rewrite E1. cbn [collect]. destruct (is_skipped e); [exact IH' | reflexivity].
  Qed.
End FramingExt.

(* non-vacuity: the example file of MdlFraming with two empty records inserted (one in the middle, one at the end) *)
Definition ex_rdf_recs_empty : list (str * list str) :=
  match ex_rdf_recs with
  | a :: r => a :: (add_nl (L "$MFMT"), []) :: r ++ [(add_nl (L "$RFMT"), [])]
  | [] => []
  end.
Example rdf_framing_full_example :
  Forall (fun l => is_fmt l = false /\ startswith (L "$RXN") l = false) ex_rdf_header /\
  Forall (rdf_rec_ok 100 (S (length ex_rdf_header) + length ex_rdf_recs_empty)) ex_rdf_recs_empty /\
  (S (length ex_rdf_header) + length ex_rdf_recs_empty < 100)%nat /\
  length (nonempty_bodies ex_rdf_recs_empty) = 3%nat /\ length ex_rdf_recs_empty = 5%nat /\
  rdf_read (option str) ex_build ex_build_rxn 100 (rdf_file ex_rdf_header ex_rdf_recs_empty) =
    ([(Some (L "a"), [(L "k", L "v")]); (Some (L "c"), [(L "k", L "w" ++ [nl] ++ L "MAD value")])], Exhausted).
Proof.
  split; [|split; [|split; [|split; [|split]]]].
  - repeat constructor.
  - unfold rdf_rec_ok. repeat constructor; cbn; lia.
  - cbn. lia.
  - reflexivity.
  - reflexivity.
  - vm_compute. reflexivity.
Qed.
