(* C18: the method bodies of chython/periodictable/base/element.py as translated from the source (Gen.ElemCode, regenerated
   on every run by tools/gen_elemcode.py) are the hand model of Model.PeriodicTable, for every input; and the clauses of C18
   about construction, validation, mass and lookups, stated on the translated code. *)
From Coq Require Import ZArith List String Bool Lia.
From Model Require Import PyBase PeriodicTable.
From Gen Require Import Elements ElemCode.
From Proofs Require Import PeriodicTable.
Import ListNotations.
Open Scope string_scope.
Open Scope Z_scope.

(* ---------------------------------------------------------------------------------------------------------------
   1. the three validating setters: closed forms, all values
   --------------------------------------------------------------------------------------------------------------- *)
Definition bool_int (b : bool) : Z := if b then 1 else 0.

(* isotope: None is stored; an int (a bool counts as the int 0 / 1, as in Python) is stored iff it is a key of
   isotopes_distribution (= the hand model isotope_accepted), else ValueError; anything else TypeError *)
Definition isotope_set_spec (e : elem) (v : pyv) : pyres pyv :=
  match v with
  | VNone => Ok VNone
  | VInt i => if isotope_accepted e i then Ok v else Err ValueError
  | VBool b => if isotope_accepted e (bool_int b) then Ok v else Err ValueError
  | VOther => Err TypeError
  end.

Lemma g_isotope_set_eq : forall e v, g_isotope_set e v = isotope_set_spec e v.
Proof.
  intros e v. unfold g_isotope_set, isotope_set_spec, isotope_accepted.
  destruct v as [|i|b|]; simpl; try reflexivity.
  - destruct (zmem i (keys (e_dist e))); reflexivity.
  - destruct b; simpl; match goal with |- context [zmem ?k ?l] => destruct (zmem k l) end; reflexivity.
Qed.

Definition charge_set_spec (v : pyv) : pyres pyv :=
  match v with
  | VInt c => if (-4 <=? c) && (c <=? 4) then Ok v else Err ValueError
  | VBool _ => Ok v
  | _ => Err TypeError
  end.

Lemma g_charge_set_eq : forall e v, g_charge_set e v = charge_set_spec v.
Proof.
  intros e v. unfold g_charge_set, charge_set_spec. destruct v as [|c|b|]; simpl; try reflexivity.
  - destruct (4 <? c) eqn:A; destruct (c <? -4) eqn:B; destruct (-4 <=? c) eqn:C; destruct (c <=? 4) eqn:D; simpl; try reflexivity;
      exfalso; rewrite ?Z.ltb_lt, ?Z.ltb_ge, ?Z.leb_le, ?Z.leb_gt in *; lia.
  - destruct b; reflexivity.
Qed.

Definition is_radical_set_spec (v : pyv) : pyres pyv := match v with VBool _ => Ok v | _ => Err TypeError end.

Lemma g_is_radical_set_eq : forall e v, g_is_radical_set e v = is_radical_set_spec v.
Proof. intros e v. destruct v; reflexivity. Qed.

(* ---------------------------------------------------------------------------------------------------------------
   2. __init__: sequencing of the three setters, delta_isotope
   --------------------------------------------------------------------------------------------------------------- *)
Definition bind3 (a b c : pyres pyv) : pyres (pyv * pyv * pyv) :=
  match a with
  | Err x => Err x
  | Ok i => match b with Err x => Err x | Ok ch => match c with Err x => Err x | Ok r => Ok (i, ch, r) end end
  end.

Definition init_spec (e : elem) (isotope charge is_radical delta : pyv) : pyres (pyv * pyv * pyv) :=
  match delta with
  | VNone => bind3 (isotope_set_spec e isotope) (charge_set_spec charge) (is_radical_set_spec is_radical)
  | _ => if is_none isotope
         then bind3 (isotope_set_spec e (VInt (e_mdl e + int_of delta))) (charge_set_spec charge) (is_radical_set_spec is_radical)
         else Err OtherError           (* AssertionError *)
  end.

Lemma g_init_eq : forall e i c r d, g_init e i c r d = init_spec e i c r d.
Proof.
  intros e i c r d. unfold g_init, init_spec, bind3.
  rewrite !g_isotope_set_eq, !g_charge_set_eq, !g_is_radical_set_eq.
  destruct d; simpl; try reflexivity; destruct (is_none i); reflexivity.
Qed.

(* every tabulated state is constructible and is stored unchanged; every other int isotope / charge is rejected *)
Lemma init_tabulated : forall e i c r,
  isotope_accepted e i = true -> -4 <= c <= 4 ->
  g_init e (VInt i) (VInt c) (VBool r) VNone = Ok (VInt i, VInt c, VBool r).
Proof.
  intros e i c r Hi Hc. rewrite g_init_eq. unfold init_spec, bind3, isotope_set_spec, charge_set_spec, is_radical_set_spec.
  rewrite Hi. replace ((-4 <=? c) && (c <=? 4)) with true; [reflexivity|].
  symmetry. apply andb_true_intro. split; apply Z.leb_le; lia.
Qed.

Lemma init_no_isotope : forall e c r, -4 <= c <= 4 ->
  g_init e VNone (VInt c) (VBool r) VNone = Ok (VNone, VInt c, VBool r).
Proof.
  intros e c r Hc. rewrite g_init_eq. unfold init_spec, bind3, isotope_set_spec, charge_set_spec, is_radical_set_spec.
  replace ((-4 <=? c) && (c <=? 4)) with true; [reflexivity|].
  symmetry. apply andb_true_intro. split; apply Z.leb_le; lia.
Qed.

Lemma init_rejects : forall e i c r,
  (isotope_accepted e i = false -> g_init e (VInt i) (VInt c) (VBool r) VNone = Err ValueError) /\
  (isotope_accepted e i = true -> ~ (-4 <= c <= 4) -> g_init e (VInt i) (VInt c) (VBool r) VNone = Err ValueError).
Proof.
  intros e i c r. rewrite g_init_eq. unfold init_spec, bind3, isotope_set_spec, charge_set_spec, is_radical_set_spec.
  split.
  - intros H. rewrite H. reflexivity.
  - intros H Hc. rewrite H. replace ((-4 <=? c) && (c <=? 4)) with false; [reflexivity|].
    symmetry. apply andb_false_iff. destruct (Z_le_dec (-4) c); [right; apply Z.leb_gt; lia | left; apply Z.leb_gt; lia].
Qed.

Lemma init_delta : forall e c r d,
  g_init e VNone c r (VInt d) = g_init e (VInt (e_mdl e + d)) c r VNone.
Proof. intros. rewrite !g_init_eq. reflexivity. Qed.

(* ---------------------------------------------------------------------------------------------------------------
   3. atomic_mass
   --------------------------------------------------------------------------------------------------------------- *)
Definition mass_spec (e : elem) (isotope : option Z) : pyres massv :=
  match isotope with
  | None => match avg_mass_e24 e with Some m => Ok (MSum m) | None => Err KeyError end
  | Some i => match zget (e_mass e) i with Some m => Ok (MOne m) | None => Err KeyError end
  end.

Definition to_res (b : option Z) : pyres Z := match b with Some y => Ok y | None => Err KeyError end.

Lemma sum_fold_eq : forall (mass : list (Z * dec)) (l : list (Z * dec)) b,
  fold_left (fun acc kv => match acc with
                           | Err e => Err e
                           | Ok a => match (match py_getitem mass (fst kv) with Ok m => Ok (g_scale (snd kv) * g_scale m) | Err ex => Err ex end)
                                     with Ok t => Ok (a + t) | Err e => Err e end
                           end) l (to_res b) =
  to_res (fold_left (fun acc kv => match acc, zget mass (fst kv) with
                                   | Some a, Some m => Some (a + dec_scale (snd kv) 12 * dec_scale m 12)
                                   | _, _ => None
                                   end) l b).
Proof.
  intros mass l. induction l as [|kv l IH]; intros b; simpl; [reflexivity|].
  rewrite <- IH. f_equal. destruct b as [y|]; simpl; [|reflexivity].
  unfold py_getitem. destruct (zget mass (fst kv)) as [m|]; reflexivity.
Qed.

Lemma g_atomic_mass_eq : forall e iso, g_atomic_mass e iso = mass_spec e iso.
Proof.
  intros e [i|]; unfold g_atomic_mass, mass_spec; simpl.
  - unfold py_getitem. destruct (zget (e_mass e) i); reflexivity.
  - unfold py_sum_items, avg_mass_e24.
    change (@Ok Z 0) with (to_res (Some 0)). rewrite sum_fold_eq.
    match goal with |- context [to_res ?X] => destruct X end; reflexivity.
Qed.

(* mass of every tabulated isotope and the average mass are defined for every element (no KeyError), the average positive *)
Definition mass_defined (e : elem) : bool :=
  forallb (fun i => match g_atomic_mass e (Some i) with Ok (MOne m) => 0 <? fst m | _ => false end) (keys (e_dist e)) &&
  match g_atomic_mass e None with Ok (MSum m) => 0 <? m | _ => false end.
Lemma mass_defined_all : forallb mass_defined elements = true.
Proof. vm_compute. reflexivity. Qed.

Lemma source_mass_defined : forall e, In e elements ->
  (exists m, g_atomic_mass e None = Ok (MSum m) /\ 0 < m) /\
  (forall i, isotope_accepted e i = true -> exists m, g_atomic_mass e (Some i) = Ok (MOne m) /\ 0 < fst m).
Proof.
  intros e He. pose proof (proj1 (forallb_forall _ _) mass_defined_all e He) as H.
  unfold mass_defined in H. apply andb_prop in H. destruct H as [H1 H2]. split.
  - destruct (g_atomic_mass e None) as [[m|m]|]; try discriminate. exists m. split; [reflexivity|apply Z.ltb_lt; exact H2].
  - intros i Hi. unfold isotope_accepted in Hi. apply zmem_In in Hi. rewrite forallb_forall in H1. specialize (H1 i Hi).
    destruct (g_atomic_mass e (Some i)) as [[m|m]|]; try discriminate. exists m. split; [reflexivity|apply Z.ltb_lt; exact H1].
Qed.

(* ---------------------------------------------------------------------------------------------------------------
   4. lookups
   --------------------------------------------------------------------------------------------------------------- *)
Definition from_symbol_spec (s : string) : pyres elem := match from_symbol s with Some e => Ok e | None => Err ValueError end.
Definition from_number_spec (n : Z) : pyres elem := match from_number n with Some e => Ok e | None => Err ValueError end.

Lemma next_filter_find : forall {A} (f : A -> bool) l,
  py_next (filter f l) = match find f l with Some x => Ok x | None => Err StopIteration end.
Proof. intros A f l. induction l as [|x l IH]; simpl; [reflexivity|]. destruct (f x); [reflexivity|exact IH]. Qed.

Lemma g_from_symbol_eq : forall s, g_from_symbol s = from_symbol_spec s.
Proof.
  intros s. unfold g_from_symbol, from_symbol_spec, from_symbol. rewrite next_filter_find.
  destruct (find (fun e => String.eqb (e_sym e) s) elements); reflexivity.
Qed.

(* the number -> class dictionary the first call stores in Element.__class_cache__ *)
Definition number_table : list (Z * elem) := map (fun x => (e_num x, x)) elements.
Definition filled_cache : class_cache := [("elements", number_table)].
(* the states the class cache can be in: empty (fresh interpreter) or filled by an earlier call *)
Definition cache_ok (c : class_cache) : Prop := c = [] \/ c = filled_cache.

Lemma g_from_atomic_number_eq : forall c n, cache_ok c ->
  g_from_atomic_number c n = (from_number_spec n, filled_cache).
Proof.
  Opaque elements.
  intros c n [H|H]; subst; unfold g_from_atomic_number, from_number_spec, from_number, filled_cache, number_table; simpl;
    unfold dictcomp_get; destruct (zget_last (map (fun x => (e_num x, x)) elements) n); reflexivity.
  Transparent elements.
Qed.

(* any history of calls starting in a fresh interpreter: every answer is the model's, whatever was asked before *)
Fixpoint run_lookups (c : class_cache) (ns : list Z) : list (pyres elem) :=
  match ns with
  | [] => []
  | n :: r => let '(res, c') := g_from_atomic_number c n in res :: run_lookups c' r
  end.

Lemma run_lookups_eq : forall ns c, cache_ok c -> run_lookups c ns = map from_number_spec ns.
Proof.
  induction ns as [|n r IH]; intros c Hc; simpl; [reflexivity|].
  rewrite (g_from_atomic_number_eq c n Hc). f_equal. apply IH. right. reflexivity.
Qed.

(* C18 clause 1 on the translated code *)
Lemma source_lookups_inverse_std : forall n c, 1 <= n <= 118 -> cache_ok c ->
  exists e, fst (g_from_atomic_number c n) = Ok e /\ e_num e = n /\ e_sym e = std_symbol n /\
            exists e', g_from_symbol (e_sym e) = Ok e' /\ e_num e' = n /\ e_sym e' = e_sym e.
Proof.
  intros n c Hn Hc. destruct (lookups_inverse_std n Hn) as [e [H1 [H2 [H3 [e' [H4 [H5 H6]]]]]]].
  exists e. rewrite (g_from_atomic_number_eq c n Hc). unfold from_number_spec. rewrite H1. simpl.
  repeat split; try assumption. exists e'. rewrite g_from_symbol_eq. unfold from_symbol_spec. rewrite H4.
  repeat split; assumption.
Qed.

Lemma source_lookups_reject : forall n c, cache_ok c -> ~ (1 <= n <= 118) -> fst (g_from_atomic_number c n) = Err ValueError.
Proof.
  intros n c Hc Hn. rewrite (g_from_atomic_number_eq c n Hc). unfold from_number_spec. simpl.
  destruct (from_number n) as [e|] eqn:E; [|reflexivity]. exfalso. apply Hn.
  (* a hit of the table has its number, and all numbers are in range *)
  unfold from_number in E.
  assert (G : forall (l : list elem) k v, zget_last (map (fun e => (e_num e, e)) l) k = Some v -> In v l /\ e_num v = k).
  { induction l as [|x l IH]; simpl; intros k v H; [discriminate|].
    destruct (zget_last (map (fun e0 => (e_num e0, e0)) l) k) eqn:F.
    - inversion H; subst. destruct (IH k v F). split; [right|]; assumption.
    - destruct (k =? e_num x) eqn:K; [|discriminate]. inversion H; subst. apply Z.eqb_eq in K. split; [left; reflexivity|congruence]. }
  destruct (G elements n e E) as [Hin Hnum].
  destruct table_shape as [_ [_ [_ Hr]]]. rewrite forallb_forall in Hr. specialize (Hr e Hin).
  apply andb_prop in Hr. destruct Hr as [A B]. apply Z.leb_le in A, B. lia.
Qed.

(* non-vacuity / examples on the translated code *)
Lemma source_examples :
  (exists e, g_from_symbol "C" = Ok e /\ e_num e = 6 /\
             g_init e (VInt 14) (VInt (-1)) (VBool true) VNone = Ok (VInt 14, VInt (-1), VBool true) /\
             g_init e (VInt 15) (VInt 0) (VBool false) VNone = Err ValueError /\
             g_init e VNone (VInt 5) (VBool false) VNone = Err ValueError /\
             g_init e VNone (VInt 0) (VBool false) (VInt 1) = Ok (VInt 13, VInt 0, VBool false) /\
             g_init e VOther (VInt 0) (VBool false) VNone = Err TypeError /\
             g_atomic_mass e (Some 13) = Ok (MOne (13003355, 6%nat))) /\
  g_from_symbol "Xx" = Err ValueError /\
  run_lookups [] [8; 0; 6; 119; 8] = map from_number_spec [8; 0; 6; 119; 8].
Proof.
  split; [|split; [vm_compute; reflexivity | apply run_lookups_eq; left; reflexivity]].
  eexists. split; [vm_compute; reflexivity|]. vm_compute. repeat split; reflexivity.
Qed.
