(* C02, layer 2b: from the writer's output to the token stream.  [wtoks_of] recognises each element of the Python list
   `string` the writer produced as one written token (a verified checker: when it succeeds the text is exactly the
   concatenation of these tokens, and when in addition [wtoks_ok] holds, _tokenize splits the text back into them).
   The check evaluates [stream_ok] on every output of the model in the correspondence. *)
From Coq Require Import ZArith List String Ascii Bool Lia.
From Model Require Import PyBase Graph PeriodicTable Stereo Writer.
From Gen Require Import Elements SmilesTables.
From Proofs Require Import WriterProofs WriterProofsTokens.
Import ListNotations.
Open Scope Z_scope.

(* s = body ++ "]" ? *)
Fixpoint strip_last_bracket (s : string) : option string :=
  match s with
  | EmptyString => None
  | String c EmptyString => if Ascii.eqb c "]" then Some EmptyString else None
  | String c r => match strip_last_bracket r with Some b => Some (String c b) | None => None end
  end.

Lemma strip_last_bracket_spec : forall s b, strip_last_bracket s = Some b -> s = (b ++ "]")%string.
Proof.
  induction s as [|c r IH]; intros b H; cbn in H; [discriminate|].
  destruct r as [|c2 r2].
  - destruct (Ascii.eqb c "]") eqn:E; [|discriminate]. apply Ascii.eqb_eq in E. inversion H. subst. reflexivity.
  - destruct (strip_last_bracket (String c2 r2)) as [b'|] eqn:E; [|discriminate]. inversion H. subst.
    cbn. rewrite (IH b' eq_refl). reflexivity.
Qed.

Definition bond_token (s : string) : option (list wtok) :=
  if String.eqb s "" then Some []
  else if String.eqb s "-" then Some [WBond 1]
  else if String.eqb s "=" then Some [WBond 2]
  else if String.eqb s "#" then Some [WBond 3]
  else if String.eqb s ":" then Some [WBond 4]
  else if String.eqb s "~" then Some [WBond 8]
  else if String.eqb s "/" then Some [WUpDown true]
  else if String.eqb s "\" then Some [WUpDown false]
  else None.

Definition atom_token (s : string) : option wtok :=
  match s with
  | String "["%char r => match strip_last_bracket r with Some b => Some (WBracket b) | None => None end
  | _ => if smem s organic_set then Some (WBare s)
         else match find (fun u => String.eqb (lower_string u) s) arom_bare with
              | Some u => Some (WArom u)
              | None => None
              end
  end.

Definition wtok_of_otok (t : otok) : option (list wtok) :=
  match t with
  | OAtom _ s => match atom_token s with Some w => Some [w] | None => None end
  | OBond _ _ s => bond_token s
  | OCBond _ _ s => bond_token s
  | OClosure _ _ c => Some [WClosure c]
  | OOpen => Some [WOpen]
  | OClose => Some [WClose]
  | ODot => Some [WDot]
  end.

Fixpoint wtoks_of (l : list otok) : option (list wtok) :=
  match l with
  | [] => Some []
  | t :: r => match wtok_of_otok t, wtoks_of r with
              | Some a, Some b => Some (a ++ b)
              | _, _ => None
              end
  end.

Definition stream_ok (l : list otok) : bool :=
  match wtoks_of l with Some ts => wtoks_ok false ts | None => false end.

(* ---- recognised tokens spell the same text ---- *)
Lemma sapp_assoc' (a b c : string) : ((a ++ b) ++ c)%string = (a ++ (b ++ c))%string.
Proof. induction a as [|x a IH]; cbn; [reflexivity | rewrite IH; reflexivity]. Qed.

Lemma scat_app (a b : list string) : scat (a ++ b) = (scat a ++ scat b)%string.
Proof.
  unfold scat. induction a as [|x a IH]; [reflexivity|].
  destruct a as [|y a].
  - cbn [app String.concat]. destruct b as [|z b]; cbn [String.concat].
    + clear IH. induction x; cbn; [reflexivity | f_equal; assumption].
    + reflexivity.
  - cbn [app String.concat] in *. rewrite IH. cbn [String.append]. rewrite sapp_assoc'. reflexivity.
Qed.

Lemma bond_token_spell s ts : bond_token s = Some ts -> scat (map spellw ts) = s.
Proof.
  unfold bond_token. intros H.
  repeat match type of H with
  | (if String.eqb s ?k then _ else _) = _ =>
      let E := fresh "E" in destruct (String.eqb s k) eqn:E;
      [apply String.eqb_eq in E; inversion H; subst; reflexivity|]
  end. discriminate.
Qed.

Lemma atom_token_spell s w : atom_token s = Some w -> spellw w = s.
Proof.
  unfold atom_token. intros H.
  assert (Hplain : (if smem s organic_set then Some (WBare s)
                    else match find (fun u => String.eqb (lower_string u) s) arom_bare with
                         | Some u => Some (WArom u) | None => None end) = Some w -> spellw w = s).
  { intros H'. destruct (smem s organic_set); [inversion H'; reflexivity|].
    destruct (find (fun u => String.eqb (lower_string u) s) arom_bare) as [u|] eqn:Ef; [|discriminate].
    inversion H'. subst. apply find_some in Ef. destruct Ef as [_ Ef]. apply String.eqb_eq in Ef. exact Ef. }
  destruct s as [|c r]; [exact (Hplain H)|].
  destruct (Ascii.eqb c "[") eqn:Ec.
  - apply Ascii.eqb_eq in Ec. subst c.
    destruct (strip_last_bracket r) as [b|] eqn:Eb; [|discriminate]. inversion H. subst.
    cbn [spellw]. rewrite (strip_last_bracket_spec r b Eb). reflexivity.
  - apply Hplain. revert H Ec. clear. intros H Ec.
    destruct c as [[|] [|] [|] [|] [|] [|] [|] [|]]; try exact H; discriminate Ec.
Qed.

Lemma wtok_of_otok_spell t ts : wtok_of_otok t = Some ts -> scat (map spellw ts) = spell_otok t.
Proof.
  destruct t; cbn [wtok_of_otok spell_otok]; intros H;
    try (inversion H; subst; reflexivity);
    try (apply bond_token_spell; exact H).
  destruct (atom_token s) as [w|] eqn:E; [|discriminate]. inversion H. subst.
  cbn [map]. unfold scat. cbn [String.concat]. apply atom_token_spell. exact E.
Qed.

Lemma wtoks_of_spell : forall l ts, wtoks_of l = Some ts -> spellws ts = spell l.
Proof.
  induction l as [|t l IH]; intros ts H; cbn [wtoks_of] in H.
  - inversion H. reflexivity.
  - destruct (wtok_of_otok t) as [a|] eqn:Ea; [|discriminate].
    destruct (wtoks_of l) as [b|] eqn:Eb; [|discriminate]. inversion H. subst.
    unfold spellws, spell. rewrite map_app. rewrite scat_app. cbn [map].
    rewrite (wtok_of_otok_spell t a Ea). fold (spellws b). rewrite (IH b eq_refl).
    unfold spell, scat. destruct (map spell_otok l) as [|x r] eqn:El; cbn [String.concat].
    + clear. induction (spell_otok t); cbn; [reflexivity | f_equal; assumption].
    + reflexivity.
Qed.

(* whatever the writer (or anything else) produced: if the checker accepts the list of strings, the text is tokenized into
   exactly the tokens the strings stand for *)
Theorem stream_tokenizes : forall l ts, wtoks_of l = Some ts -> wtoks_ok false ts = true ->
  tokenize (spell l) = Ok (map rt_of ts).
Proof.
  intros l ts H1 H2. rewrite <- (wtoks_of_spell l ts H1). apply tokens_roundtrip. exact H2.
Qed.

(* in terms of the writer: the text of format(mol, spec) before the CX block *)
Theorem writer_text_tokenizes : forall g w tb o tabs out order ts,
  smiles_tokens g w tb o tabs = Ok (Some (out, order)) -> wtoks_of out = Some ts -> wtoks_ok false ts = true ->
  tokenize (spell out) = Ok (map rt_of ts) /\
  (format_cxsmiles g order = None \/ o_cx o = false -> smiles_text g w tb o tabs = Ok (spell out, order)).
Proof.
  intros g w tb o tabs out order ts Hs H1 H2. split; [exact (stream_tokenizes out ts H1 H2)|].
  intros Hc. unfold smiles_text. rewrite Hs. destruct Hc as [Hc | Hc].
  - rewrite Hc. destruct (o_cx o); reflexivity.
  - rewrite Hc. reflexivity.
Qed.

(* non-vacuity: the model's output for an aromatic, charged, two-component molecule is accepted by the checker *)
Definition ex_mol : mol :=
  mkMol [(1, mkAtom 7 None 0 false (Some 1) None); (2, mkAtom 6 None 0 false (Some 1) None); (3, mkAtom 6 None 0 false (Some 1) None);
         (4, mkAtom 6 None 0 false (Some 1) None); (5, mkAtom 6 None 0 false (Some 1) None); (6, mkAtom 11 None 1 false (Some 0) None)]
        [(1, [(2, mkBond 4 None); (5, mkBond 4 None)]); (2, [(1, mkBond 4 None); (3, mkBond 4 None)]);
         (3, [(2, mkBond 4 None); (4, mkBond 4 None)]); (4, [(3, mkBond 4 None); (5, mkBond 4 None)]);
         (5, [(4, mkBond 4 None); (1, mkBond 4 None)]); (6, [])].

Lemma stream_example :
  match smiles_tokens ex_mol (fun n => n) (fun n => n) default_opts no_stabs with
  | Ok (Some (out, order)) => stream_ok out = true /\ spell out = "[nH]1cccc1.[Na+]"%string
  | _ => False
  end.
Proof. vm_compute. split; reflexivity. Qed.
