(* C17 extension round 3: linear_hash_smiles / linear_smiles_hash with the SMILES writer's spelling of an atom and of a bond
   INSIDE the model (Model.LinearSpell) instead of a parameter.  The only remaining input is the CPython iteration order of
   the chain set. *)
From Coq Require Import String ZArith List Bool Lia Permutation.
From Model Require Import PyBase Graph PyHash Fingerprint LinearSmiles MorganSmiles LinearSpell LinearSmilesFull.
From Proofs Require Import FingerprintProofs LinearSmilesProofs LinearSmilesFixed MorganSmilesProofs.
Import ListNotations.
Open Scope Z_scope.

(* ---- the spelling of an atom / a bond does not depend on the numbering ---- *)
Lemma hyb_of_map (s : Z -> Z) l : hyb_of (map (fun mb : Z * bond => (s (fst mb), snd mb)) l) = hyb_of l.
Proof.
  unfold hyb_of. generalize 1. induction l as [|mb l IH]; intro h0; cbn [map fold_left fst snd]; [reflexivity | apply IH].
Qed.
Lemma only_special_map (s : Z -> Z) l : only_special (map (fun mb : Z * bond => (s (fst mb), snd mb)) l) = only_special l.
Proof. unfold only_special. induction l as [|mb l IH]; cbn [map forallb fst snd]; [reflexivity | rewrite IH; reflexivity]. Qed.

Lemma spell_atom_of_map (s : Z -> Z) a l :
  spell_atom_of a (map (fun mb : Z * bond => (s (fst mb), snd mb)) l) = spell_atom_of a l.
Proof. unfold spell_atom_of. rewrite hyb_of_map, only_special_map. reflexivity. Qed.

Section SpellRename.
  Variable s : Z -> Z.
  Hypothesis s_inj : forall x y, s x = s y -> x = y.

  Lemma atom_of_rename g n : atom_of (rename_mol s g) (s n) = atom_of g n.
  Proof. unfold atom_of, rename_mol. cbn [m_atoms]. apply (zget_rename_id s s_inj). Qed.

  Theorem lhs_fa_rename g n : lhs_fa (rename_mol s g) (s n) = lhs_fa g n.
  Proof.
    unfold lhs_fa. rewrite atom_of_rename. destruct (atom_of g n) as [a|]; [|reflexivity].
    rewrite (nbrs_rename s s_inj), spell_atom_of_map. reflexivity.
  Qed.

  Theorem lhs_fb_rename g n m : lhs_fb (rename_mol s g) (s n) (s m) = lhs_fb g n m.
  Proof. unfold lhs_fb, bond_of. rewrite (nbrs_rename s s_inj), (zget_rename_id s s_inj). reflexivity. Qed.
End SpellRename.

(* ---- numbering independence as a property of a function of the molecule (no spelling parameters any more) ---- *)
Definition lhs_model_numbering_independent
    (f : (list Z -> Z) -> mol -> list path -> Z -> list (Z * list string)) : Prop :=
  forall (h : list Z -> Z) (s : Z -> Z) g lo hi nbp chs chs',
    (forall x y, s x = s y -> x = y) -> wf_mol g = true ->
    Permutation chs (chains g lo hi) -> Permutation chs' (chains (rename_mol s g) lo hi) ->
    forall k str, In str (sget (f h g chs nbp) k) <-> In str (sget (f h (rename_mol s g) chs' nbp) k).

(* the repair is numbering independent with chython's own spelling of atoms and bonds ... *)
Theorem linear_hash_smiles_fixed_model_numbering_independent : lhs_model_numbering_independent linear_hash_smiles_fixed_model.
Proof.
  intros h s g lo hi nbp chs chs' Hinj Hwf HP HP' k str. unfold linear_hash_smiles_fixed_model.
  apply (linear_hash_smiles_fixed_numbering_independent (lhs_fa g) (lhs_fa (rename_mol s g)) (lhs_fb g) (lhs_fb (rename_mol s g))
           h s g lo hi nbp chs chs' Hinj Hwf); try assumption.
  - intro x. apply lhs_fa_rename. exact Hinj.
  - intros x y. apply lhs_fb_rename. exact Hinj.
Qed.

(* ... and the code as it is is not: methoxide + hydroxide with their hydrogen counts; the model SPELLS '[O-]' and '[OH-]' *)
Lemma spell_witness :
  lhs_fa w_mol 1 = "C"%string /\ lhs_fa w_mol 2 = "[O-]"%string /\ lhs_fa w_mol 3 = "[OH-]"%string /\
  lhs_fa (rename_mol w_swap w_mol) 2 = "[OH-]"%string /\ lhs_fa (rename_mol w_swap w_mol) 3 = "[O-]"%string /\
  linear_hash_smiles_model hash_ztuple w_mol w_chs 4 =
    [(4844287390989025609, ["C"%string]); (8876755388055710236, ["[O-]"%string]); (-3062347929551842955, ["[O-]"%string])] /\
  linear_hash_smiles_model hash_ztuple (rename_mol w_swap w_mol) w_chs 4 =
    [(4844287390989025609, ["C"%string]); (8876755388055710236, ["[OH-]"%string]); (-3062347929551842955, ["[OH-]"%string])] /\
  linear_smiles_hash_model hash_ztuple w_mol w_chs 4 =
    [("C"%string, [4844287390989025609]); ("[O-]"%string, [8876755388055710236; -3062347929551842955])].
Proof. repeat split; vm_compute; reflexivity. Qed.

Theorem linear_hash_smiles_model_numbering_refuted : ~ lhs_model_numbering_independent linear_hash_smiles_model.
Proof.
  intro H. destruct witness_values as (Hwf & _ & _ & Hc & Hc').
  destruct spell_witness as (_ & _ & _ & _ & _ & E1 & E2 & _).
  specialize (H hash_ztuple w_swap w_mol 1 1 4 w_chs w_chs w_swap_inj Hwf).
  rewrite Hc in H. specialize (H (Permutation_refl _) Hc' 8876755388055710236 "[O-]"%string).
  rewrite E1, E2 in H. cbn in H. destruct H as [H _]. destruct (H (or_introl eq_refl)) as [H'|[]]. discriminate.
Qed.

(* linear_smiles_hash is the transposed dictionary of linear_hash_smiles *)
Theorem linear_smiles_hash_model_get (h : list Z -> Z) g chs nbp s k :
  In k (strget (linear_smiles_hash_model h g chs nbp) s) <-> exists vs, In (k, vs) (linear_hash_smiles_model h g chs nbp) /\ In s vs.
Proof. apply smiles_hash_of_get. Qed.

(* examples of the spelling rules (values of chython) *)
Lemma spell_examples :
  spell_atom_of (mkAtom 7 None 0 false (Some 1) None) [(1, mkBond 4 None); (2, mkBond 4 None)] = Ok "[nH]"%string /\
  spell_atom_of (mkAtom 6 None 0 false (Some 1) None) [(1, mkBond 4 None); (2, mkBond 4 None)] = Ok "c"%string /\
  spell_atom_of (mkAtom 6 (Some 13) 0 false (Some 4) None) [] = Ok "[13CH4]"%string /\
  spell_atom_of (mkAtom 7 None 1 false (Some 4) None) [] = Ok "[NH4+]"%string /\
  spell_atom_of (mkAtom 6 None 0 false (Some 0) None) [] = Ok "[C]"%string /\
  spell_atom_of (mkAtom 29 None 0 false (Some 0) None) [(1, mkBond 8 None)] = Ok "[Cu]"%string /\
  spell_atom_of (mkAtom 6 None 0 true (Some 3) None) [] = Ok "[CH3]"%string /\
  spell_atom_of (mkAtom 15 None 0 false (Some 1) None) [(1, mkBond 2 None); (2, mkBond 1 None); (3, mkBond 1 None)] = Ok "[PH]"%string /\
  spell_atom_of (mkAtom 8 None 5 false (Some 0) None) [] = Err KeyError /\
  map spell_bond_of [1; 2; 3; 4; 8] = [""; "="; "#"; ":"; "~"]%string.
Proof. repeat split; vm_compute; reflexivity. Qed.
