(* The CXSMILES radical loops of smiles() as TRANSLATED from /repo's source on every run (tools/gen_c03rad.py -> Gen.RadicalBody) are the
   hand-written model:
     rxn_table_translated      the atom table of the reaction branch (roles in the order of the chain(...) of the source) is the
                               flattening read_reaction uses: reactants ++ reagents ++ products, the written order;
     rxn_radicals_translated   the translated reaction loop (guard `x not in atom_map`, dict semantics) = set_radicals, for all inputs;
     mol_radicals_translated   the translated molecule loop (guard `x >= len(record['atoms'])`, Python list indexing) = set_radicals
                               for all indices >= 0 (an index is written as a digit string; a negative one would wrap in Python).
   With ReaderRadicals.set_radicals_flags / radicals_written_order: the atom at written position i of the text is marked iff i is one
   of the indices. *)
From Coq Require Import ZArith List Bool Lia String.
Local Open Scope string_scope.
From Model Require Import PyBase Tokenize Parser Reader RadicalPrims.
From Gen Require Import RadicalBody.
From Proofs Require Import ParserProofs.
Import ListNotations.
Open Scope Z_scope.

Theorem rxn_table_translated : forall pR pG pP : list parsed,
  gen_rxn_atom_table (map no_rad pR) (map no_rad pG) (map no_rad pP) = List.concat (map no_rad (pR ++ pG ++ pP)).
Proof. intros. unfold gen_rxn_atom_table. rewrite !map_app. reflexivity. Qed.

Lemma nth_none_len {A} (l : list A) i : nth_error l i = None -> (List.length l <= i)%nat.
Proof. apply nth_error_None. Qed.

Definition hand_step (atoms : list arec) (x : Z) : pyres (list arec) :=
  match (if x <? 0 then None else nth_error atoms (Z.to_nat x)) with
  | None => ISm
  | Some (a, _) => match list_set atoms (Z.to_nat x) (a, true) with Some l => Ok l | None => Err OtherError end
  end.

Lemma set_radicals_hand crash : forall rads atoms,
  set_radicals true crash atoms rads = rfold hand_step atoms rads.
Proof.
  induction rads as [|x r IH]; intros atoms; cbn [rfold set_radicals]; [reflexivity|]. unfold hand_step at 1.
  destruct (if x <? 0 then None else nth_error atoms (Z.to_nat x)) as [[a b]|]; [|reflexivity].
  destruct (list_set atoms (Z.to_nat x) (a, true)); [apply IH | reflexivity].
Qed.

Lemma rfold_ext f g : forall rads atoms, (forall a x, In x rads -> f a x = g a x) -> rfold f atoms rads = rfold g atoms rads.
Proof.
  induction rads as [|x r IH]; intros atoms H; cbn [rfold]; [reflexivity|].
  rewrite (H atoms x (or_introl eq_refl)). destruct (g atoms x); [|reflexivity]. apply IH. intros a0 y Hy. apply H. right. exact Hy.
Qed.

Lemma rxn_step_eq atoms x : gen_rxn_radical_step atoms x = hand_step atoms x.
Proof.
  unfold gen_rxn_radical_step, enum_mark, enum_has, hand_step.
  destruct (x <? 0) eqn:Ex.
  - apply Z.ltb_lt in Ex. assert (0 <=? x = false) as -> by (apply Z.leb_gt; lia). reflexivity.
  - apply Z.ltb_ge in Ex. assert (0 <=? x = true) as -> by (apply Z.leb_le; lia). cbn [andb].
    destruct (nth_error atoms (Z.to_nat x)) as [[a b]|] eqn:En.
    + assert (Hlt : (Z.to_nat x < List.length atoms)%nat) by (apply nth_error_Some; rewrite En; discriminate).
      assert (x <? Z.of_nat (List.length atoms) = true) as -> by (apply Z.ltb_lt; lia). reflexivity.
    + apply nth_none_len in En.
      assert (x <? Z.of_nat (List.length atoms) = false) as -> by (apply Z.ltb_ge; lia). reflexivity.
Qed.

Lemma mol_step_eq atoms x : 0 <= x -> gen_mol_radical_step atoms x = hand_step atoms x.
Proof.
  intros Hx. unfold gen_mol_radical_step, list_mark, hand_step. cbv zeta.
  assert (Hn : x <? 0 = false) by (apply Z.ltb_ge; lia). rewrite !Hn.
  destruct (nth_error atoms (Z.to_nat x)) as [[a b]|] eqn:En.
  - assert (Hlt : (Z.to_nat x < List.length atoms)%nat) by (apply nth_error_Some; rewrite En; discriminate).
    assert (Z.of_nat (List.length atoms) <=? x = false) as -> by (apply Z.leb_gt; lia). reflexivity.
  - apply nth_none_len in En.
    assert (Z.of_nat (List.length atoms) <=? x = true) as -> by (apply Z.leb_le; lia). reflexivity.
Qed.

Theorem rxn_radicals_translated : forall rads atoms,
  rfold gen_rxn_radical_step atoms rads = set_radicals true KeyError atoms rads.
Proof. intros. rewrite set_radicals_hand. apply rfold_ext. intros a x _. apply rxn_step_eq. Qed.

Theorem mol_radicals_translated : forall rads atoms, Forall (fun x => 0 <= x) rads ->
  rfold gen_mol_radical_step atoms rads = set_radicals true IndexError atoms rads.
Proof.
  intros rads atoms H. rewrite set_radicals_hand. apply rfold_ext. intros a x Hx. apply mol_step_eq.
  rewrite Forall_forall in H. apply H. exact Hx.
Qed.

Example radicals_translated_examples :
  rfold gen_mol_radical_step [(simple_atom "C", false); (simple_atom "O", false)] [1] = Ok [(simple_atom "C", false); (simple_atom "O", true)] /\
  rfold gen_mol_radical_step [(simple_atom "C", false); (simple_atom "O", false)] [2] = Err IncorrectSmiles /\
  rfold gen_rxn_radical_step (gen_rxn_atom_table [[(simple_atom "C", false)]] [[(simple_atom "N", false)]] [[(simple_atom "O", false)]]) [1] =
    Ok [(simple_atom "C", false); (simple_atom "N", true); (simple_atom "O", false)] /\
  rfold gen_rxn_radical_step [(simple_atom "C", false)] [1] = Err IncorrectSmiles.
Proof. repeat split; vm_compute; reflexivity. Qed.
