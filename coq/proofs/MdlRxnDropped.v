(* C11: a reaction record in which some molecules have to be DROPPED (empty molecule, or anything the molecule parser rejects with a
   ValueError) is read with every other molecule in the role it has in the file and one log entry per dropped molecule -- wherever the
   dropped molecules stand.  For the parsers' loop as modelled (rxn_loop, with the line search) and the bookkeeping as translated from
   the source (drop_step / src_rxn_drop, proofs/MdlRxnDrop.v).  Since the repair 93f39b0 of parse_rxn_v2000 (the search for the next
   $MOL resumes 5 lines after the title line) this holds for RXN V2000 with EMPTY molecules at any position: the statement the former
   C11_rxn_v2000_empty_molecule_refuted refuted. *)
From Coq Require Import ZArith List String Ascii Bool Lia.
From Model Require Import PyBase Mdl.
From Gen Require Import MdlFn.
From Proofs Require Import MdlProofs MdlV2000 MdlV3000 MdlRxn MdlRxnDrop.
Import ListNotations.
Open Scope Z_scope.
Local Notation length := List.length.
Local Notation concat := List.concat.

(* a block of the record: first line, the other lines, and what the molecule parser makes of it (None: a ValueError) *)
Record ditem := mk_ditem { dit_hd : str; dit_body : list str; dit_out : option parsed3 }.
Definition dit_lines (d : ditem) : list str := dit_hd d :: dit_body d.
Definition nones (l : list ditem) : nat := length (filter (fun d => match dit_out d with None => true | Some _ => false end) l).

Section DLoop.
  Variables (pm : list str -> pyres parsed3) (marker : str) (off1 bias : nat).

  Definition ditem_ok (d : ditem) : Prop :=
    startswith marker (dit_hd d) = true /\
    (off1 + 2 * bias <= S (length (dit_body d)))%nat /\
    Forall (nomark marker) (skipn (off1 + 2 * bias) (dit_lines d)) /\
    forall tail, pm (skipn bias (dit_lines d) ++ tail) = match dit_out d with Some m => Ok m | None => Err ValueError end.

  Lemma rxn_loop_ditems data items : forall ns P J mols rc pc gc lg s tail,
    length ns = length items -> Forall ditem_ok items -> Forall (nomark marker) J -> length P = (s + off1)%nat ->
    data = P ++ J ++ concat (map dit_lines items) ++ tail ->
    exists s' P' J',
      foldM (rxn_loop pm marker off1 (off1 + bias) bias data) ns (mk_rs s mols rc pc gc lg) =
        (let '(mols', rc', pc', gc') := fold_left (drop_step parsed3) (map dit_out items) (mols, rc, pc, gc) in
         Ok (mk_rs s' mols' rc' pc' gc' (lg + nones items))) /\
      length P' = (s' + off1)%nat /\ Forall (nomark marker) J' /\ data = P' ++ J' ++ tail.
  Proof.
    induction items as [|a items IH]; intros ns P J mols rc pc gc lg s tail Hns Hok HJ HP Hdata.
    - destruct ns; [|discriminate Hns]. exists s, P, J. cbn [foldM map fold_left nones filter length]. rewrite Nat.add_0_r.
      cbn [map concat app] in Hdata. auto.
    - destruct ns as [|n ns]; [discriminate Hns|]. cbn [length] in Hns.
      pose proof (Forall_inv Hok) as [Hhd [Hlen [Hnm Hpm]]]. pose proof (Forall_inv_tail Hok) as Hok'.
      set (rest := concat (map dit_lines items) ++ tail).
      assert (Hd : data = P ++ J ++ dit_hd a :: dit_body a ++ rest).
      { rewrite Hdata. cbn [map concat]. unfold dit_lines at 1. subst rest. rewrite <- app_assoc. reflexivity. }
      cbn [foldM]. unfold rxn_loop at 1. cbn [rs_start rs_mols rs_rc rs_pc rs_gc rs_log].
      assert (Hs : skipn (s + off1) data = J ++ dit_hd a :: dit_body a ++ rest).
      { rewrite Hd. apply skipn_app_exact. exact HP. }
      rewrite Hs. rewrite find_line_skip by assumption. cbn [of_opt bind].
      assert (Hst : skipn (s + (off1 + bias) + length J) data = skipn bias (dit_lines a) ++ rest).
      { replace (s + (off1 + bias) + length J)%nat with (length (P ++ J) + bias)%nat by (rewrite app_length; lia).
        rewrite Hd, app_assoc, skipn_app_plus.
        change (dit_hd a :: dit_body a ++ rest) with (dit_lines a ++ rest).
        apply skipn_app_le. unfold dit_lines. cbn [length]. lia. }
      rewrite Hst, Hpm.
      set (K := (off1 + 2 * bias)%nat) in *.
      assert (HK : (K <= length (dit_lines a))%nat) by (unfold dit_lines; cbn [length]; exact Hlen).
      set (snew := (s + (off1 + bias) + length J + bias)%nat).
      assert (C1 : length ns = length items) by lia.
      assert (C4 : length ((P ++ J) ++ firstn K (dit_lines a)) = (snew + off1)%nat).
      { rewrite !app_length, firstn_length_le by exact HK. subst K snew. lia. }
      assert (C5 : data = ((P ++ J) ++ firstn K (dit_lines a)) ++ skipn K (dit_lines a) ++ concat (map dit_lines items) ++ tail).
      { rewrite Hd. change (dit_hd a :: dit_body a ++ rest) with (dit_lines a ++ rest). subst rest.
        rewrite <- (firstn_skipn K (dit_lines a)) at 1. rewrite <- !app_assoc. reflexivity. }
      assert (Fin : forall mols1 rc1 pc1 gc1 lg1,
                 drop_step parsed3 (mols, rc, pc, gc) (dit_out a) = (mols1, rc1, pc1, gc1) ->
                 (lg1 + nones items = lg + nones (a :: items))%nat ->
                 exists s' P' J',
                   foldM (rxn_loop pm marker off1 (off1 + bias) bias data) ns (mk_rs snew mols1 rc1 pc1 gc1 lg1) =
                     (let '(mols', rc', pc', gc') := fold_left (drop_step parsed3) (map dit_out (a :: items)) (mols, rc, pc, gc) in
                      Ok (mk_rs s' mols' rc' pc' gc' (lg + nones (a :: items)))) /\
                   length P' = (s' + off1)%nat /\ Forall (nomark marker) J' /\ data = P' ++ J' ++ tail).
      { intros mols1 rc1 pc1 gc1 lg1 E1 E2.
        destruct (IH ns _ _ mols1 rc1 pc1 gc1 lg1 snew tail C1 Hok' Hnm C4 C5) as [s' [P' [J' [Hf R]]]].
        exists s', P', J'. split; [| exact R]. rewrite Hf. cbn [map fold_left]. rewrite E1, E2. reflexivity. }
      destruct (dit_out a) as [m|] eqn:Eo.
      + cbn [bind]. apply Fin; [reflexivity|]. unfold nones. cbn [filter]. rewrite Eo. reflexivity.
      + cbn [is_value_error bind]. cbn [drop_step] in Fin. unfold src_rxn_drop in Fin.
        assert (En : (S lg + nones items = lg + nones (a :: items))%nat) by (unfold nones; cbn [filter]; rewrite Eo; cbn [length]; lia).
        destruct (Z.of_nat (length mols) <? rc); [apply Fin; [reflexivity | exact En]|].
        destruct (Z.of_nat (length mols) <? pc); apply Fin; (reflexivity || exact En).
  Qed.
End DLoop.

(* ---- RXN V2000 ---- *)
(* a written molecule is such a block; so is an EMPTY molecule block: any three header lines, a counts line whose atom count is 0, and
   one more line (M  END) *)
Definition written2 (mapping : bool) (ls : list str) (g : wmol) (fs : list (fval * fval * fval)) : ditem :=
  mk_ditem (add_nl (L "$MOL")) (map add_nl ls) (Some (expected_mol2 mapping g fs)).
Lemma written2_ok mapping g fs : wf_wmol2 g fs -> exists ls, write_mol_v2000 mapping g = Ok ls /\ ditem_ok pm2 (L "$MOL") 4 1 (written2 mapping ls g fs).
Proof.
  intros W. destruct (mol2_item mapping g fs W) as [ls [Hw [H1 [H2 [H3 H4]]]]]. exists ls. split; [exact Hw|].
  unfold ditem_ok, written2. cbn [dit_hd dit_body dit_out dit_lines]. cbn [it_hd it_body it_m it_lines] in *. auto.
Qed.
Definition empty2 (t1 t2 t3 counts last : str) : ditem := mk_ditem (add_nl (L "$MOL")) [t1; t2; t3; counts; last] None.
Lemma empty2_ok t1 t2 t3 counts last b : py_int (slice 0 3 counts) = Ok 0 -> py_int (slice 3 6 counts) = Ok b ->
  ditem_ok pm2 (L "$MOL") 4 1 (empty2 t1 t2 t3 counts last).
Proof.
  intros H0 H1. unfold ditem_ok, empty2. cbn [dit_hd dit_body dit_out dit_lines]. split; [reflexivity|]. split; [cbn; lia|]. split; [constructor|].
  intros tail. unfold pm2, parse_mol_v2000, dit_lines. cbn [dit_hd dit_body skipn app nth_error of_opt bind].
  rewrite H0. cbn [bind]. rewrite H1. reflexivity.
Qed.

Theorem rxn_v2000_dropped_roles : forall name l2 l3 counts (A P G : list ditem) tail,
  Forall (ditem_ok pm2 (L "$MOL") 4 1) (A ++ P ++ G) -> A ++ P ++ G <> [] -> startswith (L "$MOL") counts = false ->
  py_int (slice 0 3 counts) = Ok (Z.of_nat (length A)) -> py_int (slice 3 6 counts) = Ok (Z.of_nat (length P)) ->
  (match rstrip (slice_from 6 counts) with [] => Ok 0 | t => py_int t end) = Ok (Z.of_nat (length G)) ->
  parse_rxn_v2000 ([add_nl (L "$RXN"); name; l2; l3; counts] ++ concat (map dit_lines (A ++ P ++ G)) ++ tail) =
    Ok (mk_rparsed (somes parsed3 (map dit_out A)) (somes parsed3 (map dit_out P)) (somes parsed3 (map dit_out G))
                   (title_of name) (nones (A ++ P ++ G))).
Proof.
  intros name l2 l3 counts A P G tail Hok Hne Hc C1 C2 C3.
  set (items := A ++ P ++ G) in *. set (a := length A). set (p := length P). set (g := length G).
  assert (Htot : length items = (a + p + g)%nat) by (subst items a p g; rewrite !app_length; lia).
  assert (Hpos : (0 < a + p + g)%nat) by (rewrite <- Htot; destruct items; [contradiction | cbn [length]; lia]).
  match goal with |- parse_rxn_v2000 ?d = _ => set (data := d) end.
  assert (Hdata : data = [add_nl (L "$RXN"); name; l2; l3] ++ [counts] ++ concat (map dit_lines items) ++ tail) by reflexivity.
  unfold parse_rxn_v2000. change (nth_error data 4) with (Some counts). cbn [of_opt bind]. rewrite C1. cbn [bind]. rewrite C2. cbn [bind]. rewrite C3. cbn [bind].
  cbv zeta. fold a p g.
  replace (Z.of_nat g + (Z.of_nat p + Z.of_nat a) =? 0) with false by (symmetry; apply Z.eqb_neq; lia).
  change (nth_error data 1) with (Some name). cbn [of_opt bind].
  replace ((Z.of_nat a <? 0) || (Z.of_nat p + Z.of_nat a <? Z.of_nat a) || (Z.of_nat g + (Z.of_nat p + Z.of_nat a) <? Z.of_nat p + Z.of_nat a)) with false
    by (symmetry; repeat (apply orb_false_intro); apply Z.ltb_ge; lia).
  destruct (rxn_loop_ditems pm2 (L "$MOL") 4 1 data items (nat_range (Z.to_nat (Z.of_nat g + (Z.of_nat p + Z.of_nat a))))
              [add_nl (L "$RXN"); name; l2; l3] [counts] [] (Z.of_nat a) (Z.of_nat p + Z.of_nat a) (Z.of_nat g + (Z.of_nat p + Z.of_nat a)) 0%nat 0%nat tail)
    as [s' [P' [J' [Hf _]]]].
  - unfold nat_range. rewrite seq_length, Htot. lia.
  - exact Hok.
  - constructor; [exact Hc | constructor].
  - reflexivity.
  - exact Hdata.
  - change (fun d => lift2 (parse_mol_v2000 d)) with pm2. change 5%nat with (4 + 1)%nat. rewrite Hf. clear Hf.
    pose proof (rxn_drop_roles parsed3 (map dit_out A) (map dit_out P) (map dit_out G)) as HR. cbv zeta in HR.
    rewrite !map_length in HR. fold a p g in HR.
    subst items. rewrite !map_app.
    replace (Z.of_nat p + Z.of_nat a) with (Z.of_nat a + Z.of_nat p) by lia.
    replace (Z.of_nat g + (Z.of_nat a + Z.of_nat p)) with (Z.of_nat a + Z.of_nat p + Z.of_nat g) by lia.
    destruct (fold_left (drop_step parsed3) (map dit_out A ++ map dit_out P ++ map dit_out G) ([], Z.of_nat a, Z.of_nat a + Z.of_nat p, Z.of_nat a + Z.of_nat p + Z.of_nat g))
      as [[[mols rc] pc] gc].
    destruct HR as [Hm [Hrc [Hpc [Hgc [S1 [S2 S3]]]]]].
    cbn [bind]. unfold rxn_result. cbn [rs_rc rs_pc rs_mols rs_log].
    replace ((rc <? 0) || (pc <? rc)) with false by (symmetry; apply orb_false_intro; apply Z.ltb_ge; lia).
    cbv zeta. rewrite S1, S2, S3. reflexivity.
Qed.

(* non-vacuity, through the theorem: an EMPTY reactant first, then the written 3-atom example molecule as product, then an EMPTY agent *)
Definition ex_empty2 : ditem := empty2 (add_nl []) (add_nl []) (add_nl []) (add_nl (L "  0  0  0  0  0  0            999 V2000")) (add_nl (L "M  END")).
Example rxn_v2000_dropped_example :
  exists ls, write_mol_v2000 true (ex_mol_named (L "p") ex_mol) = Ok ls /\
    parse_rxn_v2000 ([add_nl (L "$RXN"); add_nl (L "t"); add_nl []; add_nl []; add_nl (L "  1  1  1")] ++
                     concat (map dit_lines ([ex_empty2] ++ [written2 true ls (ex_mol_named (L "p") ex_mol) ex_fs] ++ [ex_empty2])) ++ ex_tail)
    = Ok (mk_rparsed [] [expected_mol2 true (ex_mol_named (L "p") ex_mol) ex_fs] [] (Some (L "t")) 2).
Proof.
  destruct (written2_ok true _ _ (ex_wf2 (L "p"))) as [ls [Hw Hi]]. exists ls. split; [exact Hw|].
  assert (He : ditem_ok pm2 (L "$MOL") 4 1 ex_empty2) by (apply (empty2_ok _ _ _ _ _ 0); vm_compute; reflexivity).
  rewrite (rxn_v2000_dropped_roles (add_nl (L "t")) (add_nl []) (add_nl []) (add_nl (L "  1  1  1")) [ex_empty2] [written2 true ls _ ex_fs] [ex_empty2] ex_tail).
  - reflexivity.
  - repeat (constructor; [assumption|]). constructor.
  - discriminate.
  - reflexivity.
  - vm_compute; reflexivity.
  - vm_compute; reflexivity.
  - vm_compute; reflexivity.
Qed.
