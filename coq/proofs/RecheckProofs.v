(* Theorems about Model.Recheck (the hydrogen recheck / radical decision tree of create_molecule), for any molecule, atom and
   switches; calc_implicit / check_implicit / calc_labels_atom are Model.Valence's (C04). *)
From Coq Require Import ZArith List String Ascii Bool Lia.
From Model Require Import PyBase Graph Valence Tokenize Parser Reader Recheck.
Import ListNotations.
Open Scope Z_scope.

Ltac crack H :=
  repeat match type of H with
         | context [match ?x with _ => _ end] => let E := fresh "E" in destruct x eqn:E; try discriminate H
         | context [if ?b then _ else _] => let E := fresh "E" in destruct b eqn:E; try discriminate H
         end.

(* the only exception the decision tree raises itself is the ValueError of the strict mode (ignore=False); every other failure is
   a failure of calc_implicit / calc_labels_atom / check_implicit on that atom (with its own or the tried radical state) *)
Theorem recheck_raises fl g n parsed e : recheck_atom fl g n parsed = Err e ->
  (e = ValueError /\ f_ignore fl = false /\ exists h, parsed = Some h) \/
  (e = KeyError /\ atom_of g n = None) \/
  calc_implicit g n = Err e \/ calc_labels_atom g n = Err e \/
  (exists h, parsed = Some h /\ (check_implicit g n h = Err e \/ check_implicit (with_rad g n true) n h = Err e)).
Proof.
  unfold recheck_atom, bindr. intros H.
  destruct (atom_of g n) as [a|]; [|inversion H; right; left; split; reflexivity].
  destruct parsed as [h|].
  - destruct (f_keep_implicit fl); [discriminate|].
    destruct (calc_implicit g n) as [calc|e1] eqn:Ec; [|inversion H; subst; right; right; left; reflexivity].
    destruct (calc_labels_atom g n) as [lab|e2] eqn:El; [|inversion H; subst; right; right; right; left; reflexivity].
    assert (V : forall (c : option Z) (r : bool), (if f_ignore fl then Ok (mkOut c r false (Some h)) else Err ValueError) = Err e ->
                e = ValueError /\ f_ignore fl = false /\ exists h0, Some h = Some h0).
    { intros c r K. destruct (f_ignore fl); [discriminate|]. inversion K. repeat split. exists h. reflexivity. }
    destruct calc as [c|].
    + destruct (h =? c); [discriminate|]. destruct (l_hybridization lab =? 4).
      * destruct (_ && _); [discriminate|]. left. eapply V. exact H.
      * destruct (check_implicit g n h) as [ok|e3] eqn:E3; [|inversion H; subst; right; right; right; right; exists h; split; [reflexivity | left; assumption]].
        destruct ok; [discriminate|]. destruct (negb (a_rad a)).
        -- destruct (check_implicit (with_rad g n true) n h) as [ok2|e4] eqn:E4;
             [|inversion H; subst; right; right; right; right; exists h; split; [reflexivity | right; assumption]].
           destruct ok2; [discriminate|]. left. eapply V. exact H.
        -- left. eapply V. exact H.
    + destruct (l_hybridization lab =? 4).
      * destruct (_ && _); discriminate.
      * destruct (negb (a_rad a)); [|discriminate].
        destruct (check_implicit (with_rad g n true) n h) as [ok2|e4] eqn:E4;
          [|inversion H; subst; right; right; right; right; exists h; split; [reflexivity | right; assumption]].
        destruct ok2; [discriminate|]. left. eapply V. exact H.
  - destruct (calc_implicit g n) as [calc|e1] eqn:Ec; [discriminate|]. inversion H; subst. right; right; left; reflexivity.
Qed.

(* with ignore=True the recheck never raises by itself *)
Corollary recheck_lenient fl g n parsed : f_ignore fl = true -> recheck_atom fl g n parsed <> Err ValueError \/
  calc_implicit g n = Err ValueError \/ calc_labels_atom g n = Err ValueError \/
  (exists h, check_implicit g n h = Err ValueError \/ check_implicit (with_rad g n true) n h = Err ValueError).
Proof.
  intros Hi. destruct (recheck_atom fl g n parsed) as [o|e] eqn:E; [left; discriminate|].
  destruct (recheck_raises fl g n parsed e E) as [[-> [K _]] | [[-> _] | [K | [K | [h [_ K]]]]]].
  - rewrite Hi in K. discriminate.
  - left. discriminate.
  - destruct e; try (left; discriminate). right. left. exact K.
  - destruct e; try (left; discriminate). right. right. left. exact K.
  - destruct e; try (left; discriminate). right. right. right. exists h. exact K.
Qed.

(* an atom written without a hydrogen count (organic subset): the count is calc_implicit's, nothing else changes *)
Theorem recheck_unwritten fl g n a o : atom_of g n = Some a -> recheck_atom fl g n None = Ok o ->
  calc_implicit g n = Ok (o_h o) /\ o_rad o = a_rad a /\ o_radicalized o = false /\ o_mismatch o = None.
Proof.
  unfold recheck_atom, bindr. intros -> H. destruct (calc_implicit g n) as [c|]; [|discriminate]. inversion H; subst. repeat split.
Qed.

(* keep_implicit: the written count is taken as it is *)
Theorem recheck_keep_implicit fl g n a h : f_keep_implicit fl = true -> atom_of g n = Some a ->
  recheck_atom fl g n (Some h) = Ok (mkOut (Some h) (a_rad a) false None).
Proof. unfold recheck_atom. intros -> ->. reflexivity. Qed.

(* a written count is kept, or reported in chython_implicit_mismatch, or (atom with a CX radical mark and no valence state)
   dropped with the radical kept *)
Theorem recheck_written fl g n a h o : atom_of g n = Some a -> recheck_atom fl g n (Some h) = Ok o ->
  o_h o = Some h \/ o_mismatch o = Some h \/ (o_h o = None /\ a_rad a = true /\ o_rad o = true /\ o_radicalized o = false).
Proof.
  unfold recheck_atom, bindr. intros -> H.
  destruct (f_keep_implicit fl); [inversion H; left; reflexivity|].
  destruct (calc_implicit g n) as [calc|]; [|discriminate]. destruct (calc_labels_atom g n) as [lab|]; [|discriminate].
  destruct calc as [c|].
  - destruct (h =? c) eqn:Eh; [apply Z.eqb_eq in Eh; subst; inversion H; left; reflexivity|].
    destruct (l_hybridization lab =? 4).
    + destruct ((h =? 0) && _ && _ && _ && _) eqn:El.
      * inversion H; subst; cbn. left. repeat (apply andb_prop in El; destruct El as [El ?]). apply Z.eqb_eq in El. subst. reflexivity.
      * destruct (f_ignore fl); [inversion H; right; left; reflexivity | discriminate].
    + destruct (check_implicit g n h) as [[|]|]; try discriminate; [inversion H; left; reflexivity|].
      destruct (negb (a_rad a)).
      * destruct (check_implicit (with_rad g n true) n h) as [[|]|]; try discriminate; [inversion H; left; reflexivity|].
        destruct (f_ignore fl); [inversion H; right; left; reflexivity | discriminate].
      * destruct (f_ignore fl); [inversion H; right; left; reflexivity | discriminate].
  - destruct (l_hybridization lab =? 4).
    + destruct (_ && _); inversion H; left; reflexivity.
    + destruct (negb (a_rad a)) eqn:Er.
      * destruct (check_implicit (with_rad g n true) n h) as [[|]|]; try discriminate; [inversion H; left; reflexivity|].
        destruct (f_ignore fl); [inversion H; right; left; reflexivity | discriminate].
      * inversion H; subst; cbn. right. right. apply negb_false_iff in Er. repeat split; assumption.
Qed.

(* an atom is "radicalized" only if it carried no radical mark, it ends up a radical with the written hydrogen count, and either
   the radical state makes the written count valid (check_implicit), or it is the lone aromatic B / C / N / P atom with two ring
   bonds, no hydrogen and no charge (c[c]c) *)
Theorem recheck_radicalized fl g n a h o : atom_of g n = Some a -> recheck_atom fl g n (Some h) = Ok o -> o_radicalized o = true ->
  a_rad a = false /\ o_rad o = true /\ o_h o = Some h /\ o_mismatch o = None /\
  (check_implicit (with_rad g n true) n h = Ok true \/
   (h = 0 /\ a_chg a = 0 /\ is_bcnp (a_num a) = true /\ non8_count g n = 2 /\
    exists lab, calc_labels_atom g n = Ok lab /\ l_hybridization lab = 4)).
Proof.
  unfold recheck_atom, bindr. intros -> H R.
  destruct (f_keep_implicit fl); [inversion H; subst; discriminate|].
  destruct (calc_implicit g n) as [calc|]; [|discriminate]. destruct (calc_labels_atom g n) as [lab|] eqn:EL; [|discriminate].
  assert (Lone : (h =? 0) && (a_chg a =? 0) && negb (a_rad a) && is_bcnp (a_num a) && (non8_count g n =? 2) = true ->
                 (l_hybridization lab =? 4) = true ->
                 a_rad a = false /\ h = 0 /\ a_chg a = 0 /\ is_bcnp (a_num a) = true /\ non8_count g n = 2 /\ l_hybridization lab = 4).
  { intros K L. repeat (apply andb_prop in K; destruct K as [K ?]).
    apply Z.eqb_eq in K. apply Z.eqb_eq in L. repeat split; try assumption; try (apply Z.eqb_eq; assumption); apply negb_true_iff; assumption. }
  destruct calc as [c|].
  - destruct (h =? c); [inversion H; subst; discriminate|].
    destruct (l_hybridization lab =? 4) eqn:E4.
    + destruct ((h =? 0) && _ && _ && _ && _) eqn:El.
      * inversion H; subst; cbn. destruct (Lone eq_refl eq_refl) as [A [B [C [D [E F]]]]]. subst h.
        repeat split; try assumption. right. repeat split; try assumption. exists lab. split; [reflexivity | exact F].
      * destruct (f_ignore fl); [inversion H; subst; discriminate | discriminate].
    + destruct (check_implicit g n h) as [[|]|]; try discriminate; [inversion H; subst; discriminate|].
      destruct (negb (a_rad a)) eqn:Er.
      * destruct (check_implicit (with_rad g n true) n h) as [[|]|] eqn:E2; try discriminate.
        -- inversion H; subst; cbn. apply negb_true_iff in Er. repeat split; try assumption. left. reflexivity.
        -- destruct (f_ignore fl); [inversion H; subst; discriminate | discriminate].
      * destruct (f_ignore fl); [inversion H; subst; discriminate | discriminate].
  - destruct (l_hybridization lab =? 4) eqn:E4.
    + destruct (negb (f_ignore_aromatic_radicals fl) && _) eqn:El; [|inversion H; subst; discriminate].
      apply andb_prop in El. destruct El as [_ El]. inversion H; subst; cbn.
      destruct (Lone El eq_refl) as [A [B [C [D [E F]]]]]. repeat split; try assumption. right. repeat split; try assumption.
      exists lab. split; [reflexivity | exact F].
    + destruct (negb (a_rad a)) eqn:Er; [|inversion H; subst; discriminate].
      destruct (check_implicit (with_rad g n true) n h) as [[|]|] eqn:E2; try discriminate.
      * inversion H; subst; cbn. apply negb_true_iff in Er. repeat split; try assumption. left. reflexivity.
      * destruct (f_ignore fl); [inversion H; subst; discriminate | discriminate].
Qed.

(* non-vacuity: smiles() texts where each branch of the tree decides *)
Example recheck_examples :
  let fl := mkFlags true false true false in
  show_res (show_fresult true) (read_full fl false "C[CH2]C") = "M 1={C|-|-|0|-|-}[2:1],2={C|-|-|0|2|-}[1:1.3:1],3={C|-|-|0|-|-}[2:1] # 1:3,2:2,3:3"%string /\
  show_res (show_fresult true) (read_full fl false "C[CH]C") = "M 1={C|-|-|0|-|-}[2:1],2={C|-|-|0|1|-}[1:1.3:1],3={C|-|-|0|-|-}[2:1] # 1:3,2:1*r,3:3"%string /\
  show_res (show_fresult true) (read_full fl false "[NH4]") = "M 1={N|-|-|0|4|-}[] # 1:3m4"%string /\
  read_full (mkFlags false false true false) false "[NH4]" = Err ValueError /\
  show_res (show_fresult true) (read_full (mkFlags true false false false) false "c1cc[c]cc1") =
    "M 1={C|-|-|0|-|-}[2:4.6:4],2={C|-|-|0|-|-}[1:4.3:4],3={C|-|-|0|-|-}[2:4.4:4],4={C|-|-|0|0|-}[3:4.5:4],5={C|-|-|0|-|-}[4:4.6:4],6={C|-|-|0|-|-}[5:4.1:4] # 1:1,2:1,3:1,4:0*r,5:1,6:1"%string.
Proof. cbn zeta. repeat split; vm_compute; reflexivity. Qed.
