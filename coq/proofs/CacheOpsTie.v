(* C13 -- the bodies of MoleculeContainer.fix_structure / add_atom / add_bond / delete_atom / delete_bond / __enter__ / __exit__
   (with Graph.add_atom / add_bond inlined), translated statement by statement from /repo's source by tools/gen_cacheops.py into
   coq/gen/CacheOps.v on every run, are EQUAL to the hand-written actions of Model.Cache that every C13 theorem is about.
   A behaviour-changing edit of one of these bodies changes the generated definition and breaks the theorem of that method. *)
From Coq Require Import ZArith List Bool Lia.
From Model Require Import PyBase Cache.
From Gen Require Import CacheOps.
From Proofs Require Import CacheProofs CacheWf.
Import ListNotations.
Open Scope Z_scope.

Lemma seq_cong (a a' b b' : act) :
  (forall h o, a h o = a' h o) -> (forall h o, b h o = b' h o) -> forall h o, (a ;; b) h o = (a' ;; b') h o.
Proof. intros Ha Hb h o. unfold seq. rewrite Ha. destruct (a' h o) as [[h1 o1] [e|]]; auto. Qed.
Lemma seq_cong1 (a a' b b' : act) h o :
  a h o = a' h o -> (forall h o, b h o = b' h o) -> (a ;; b) h o = (a' ;; b') h o.
Proof. intros Ha Hb. unfold seq. rewrite Ha. destruct (a' h o) as [[h1 o1] [e|]]; auto. Qed.
Lemma seq_assoc (a b c : act) h o : ((a ;; b) ;; c) h o = (a ;; (b ;; c)) h o.
Proof. unfold seq. destruct (a h o) as [[h1 o1] [e|]]; reflexivity. Qed.
Lemma zmem_keys_zget {V} (d : list (Z * V)) k : zmem k (keys d) = match zget d k with Some _ => true | None => false end.
Proof.
  induction d as [|[k' v] r IH]; simpl; [reflexivity|]. unfold zmem in *. simpl. destruct (k =? k'); simpl; [reflexivity|exact IH].
Qed.

(* `if not _skip_calculation and self._backup is None: a` with the default _skip_calculation=False *)
Lemma unless_eq (a : act) h o :
  ite (fun _ o => negb false && is_none (o_backup o)) a ok h o = unless_transaction a h o.
Proof. unfold ite, unless_transaction. destruct (o_backup o); reflexivity. Qed.
(* `if self._changed is None: self._changed = {..} else: self._changed.add(..) ..` *)
Lemma mark1_eq n h o :
  ite (fun _ o => is_none (o_changed o)) (changed_assign (Some (set_lit [n]))) (changed_add n) h o = mark_changed [n] h o.
Proof. unfold ite, mark_changed, changed_assign, changed_add. destruct (o_changed o) eqn:E; reflexivity. Qed.
Lemma mark2_eq n m h o :
  ite (fun _ o => is_none (o_changed o)) (changed_assign (Some (set_lit [n; m]))) (changed_add n ;; changed_add m) h o
  = mark_changed [m; n] h o.
Proof.
  unfold ite, mark_changed, changed_assign, seq, changed_add. destruct (o_changed o) eqn:E; simpl; [|reflexivity].
  try rewrite E; reflexivity.
Qed.

(* ---- fix_structure(recalculate_hydrogens) *)
Lemma for_list_calc l : forall h o, for_list (fun n => calc_implicit n) l h o = calc_implicit_all l h o.
Proof. induction l as [|x t IH]; simpl; intros; [reflexivity|]. apply seq_cong; auto. Qed.
Theorem gen_fix_structure_true : forall h o, gen_fix_structure true h o = fix_structure h o.
Proof.
  intros h o. unfold gen_fix_structure, fix_structure. apply seq_cong; [reflexivity|]. intros h1 o1.
  apply seq_cong; [|reflexivity]. intros h2 o2. unfold ite, let_state, changed_or_atoms. rewrite for_list_calc.
  destruct (o_changed o2) as [[|x l]|]; reflexivity.
Qed.
(* recalculate_hydrogens=False: what substructure(.., recalculate_hydrogens=False) / split() run *)
Theorem gen_fix_structure_false : forall h o,
  gen_fix_structure false h o = (calc_labels ;; (fun h o => ok h (set_changed o None))) h o.
Proof. intros h o. unfold gen_fix_structure. apply seq_cong; [reflexivity|]. intros h1 o1. reflexivity. Qed.

(* ---- add_bond (Bond(order) + Graph.add_bond + MoleculeContainer.add_bond) *)
Theorem gen_add_bond_eq : forall n m ord h o, gen_add_bond false n m ord h o = add_bond n m ord h o.
Proof.
  intros n m ord h o. unfold gen_add_bond, add_bond. unfold seq at 1. unfold check_order.
  destruct (valid_order ord); simpl; [|reflexivity].
  unfold ite at 1. destruct (n =? m); [reflexivity|].
  unfold ite at 1. rewrite !zmem_keys_zget.
  destruct (zget (o_adj o) n) as [rn|] eqn:Hn; destruct (zget (o_adj o) m) as [rm|] eqn:Hm; simpl; try reflexivity.
  unfold ite at 1. unfold row at 1. rewrite Hm. destruct (zmem n (keys rm)); [reflexivity|].
  apply seq_cong1; [unfold store_bond, row; rewrite Hn, Hm; reflexivity|]. intros h1 o1.
  apply seq_cong; [reflexivity|]. intros h2 o2. unfold ite at 1. destruct (ord =? 8).
  - apply unless_eq.
  - apply seq_cong; [apply mark2_eq | intros; apply unless_eq].
Qed.

(* ---- delete_bond *)
Theorem gen_delete_bond_eq : forall n m h o, gen_delete_bond false n m h o = delete_bond n m h o.
Proof.
  intros n m h o. unfold gen_delete_bond, delete_bond. unfold seq at 1. unfold del_slot. unfold pop_slot at 1.
  destruct (zget (o_adj o) n) as [rn|]; [|reflexivity]. destruct (zget rn m); [|reflexivity]. cbv zeta.
  unfold ok at 1. unfold pop_slot.
  destruct (zget (o_adj (set_adj o (zset (o_adj o) n (zdel rn m)))) m) as [rm|]; [|reflexivity].
  destruct (zget rm n) as [rf|]; [|reflexivity]. unfold with_bond. destruct (hget h rf) as [cl|]; [|reflexivity].
  apply seq_cong.
  - intros h1 o1. unfold ite at 1. destruct (b_ord cl =? 8); simpl; [reflexivity|apply mark2_eq].
  - intros h1 o1. apply seq_cong; [reflexivity|intros; apply unless_eq].
Qed.

(* ---- delete_atom *)
Lemma unlink_eq n : forall r h o,
  for_items (fun m bond => del_slot m n ;; with_bond bond (fun bond_c =>
      ite (fun h o => b_ord bond_c =? 8) ok
          (ite (fun h o => is_none (o_changed o)) (changed_assign (Some (set_lit [m]))) (changed_add m)))) r h o
  = unlink n r h o.
Proof.
  induction r as [|[m rf] t IH]; intros h o; simpl; [reflexivity|].
  unfold seq at 1. unfold seq at 1. unfold del_slot, pop_slot.
  destruct (zget (o_adj o) m) as [rm|]; [|reflexivity]. rewrite zmem_keys_zget.
  destruct (zget rm n); simpl; [|reflexivity]. unfold with_bond. destruct (hget h rf) as [cl|]; [|reflexivity].
  unfold ite at 1. destruct (b_ord cl =? 8); simpl; [apply IH|].
  unfold seq. rewrite mark1_eq. destruct (mark_changed [m] h _) as [[h1 o1] [e|]]; [reflexivity|apply IH].
Qed.
Lemma discard_eq n h o :
  ite (fun _ o => negb (is_none (o_changed o))) (changed_discard n) ok h o = discard_changed n h o.
Proof.
  unfold ite, changed_discard, discard_changed. destruct o as [a b c ch bk nm mt]. simpl. destruct ch; reflexivity.
Qed.
(* for every molecule in which n is an atom exactly if it has a row of bonds (keys(_bonds) = keys(_atoms), part of the invariant W);
   otherwise the real code has already deleted the atom when the KeyError of _bonds.pop(n) is raised, the hand-written action has not *)
Theorem gen_delete_atom_eq : forall n h o,
  zmem n (keys (o_atoms o)) = zmem n (keys (o_adj o)) -> gen_delete_atom false n h o = delete_atom n h o.
Proof.
  intros n h o H. rewrite !zmem_keys_zget in H. unfold gen_delete_atom, delete_atom.
  destruct (zget (o_atoms o) n) eqn:Ha; destruct (zget (o_adj o) n) as [r|] eqn:Hr; try discriminate.
  - rewrite <- seq_assoc. rewrite <- (seq_assoc (drop_atom n)). apply seq_cong1.
    + unfold seq, del_atom, drop_atom, pop_row, ok. rewrite Ha. simpl. rewrite Hr. apply unlink_eq.
    + intros h1 o1. apply seq_cong; [apply discard_eq|]. intros h2 o2. apply seq_cong; [reflexivity|intros; apply unless_eq].
  - unfold seq, del_atom. rewrite Ha. reflexivity.
Qed.

(* ---- add_atom (Graph.add_atom + MoleculeContainer.add_atom) *)
Lemma put_eq c n' (R : act) h o : ~ In n' (keys (o_atoms o)) -> keys (o_adj o) = keys (o_atoms o) ->
  (store_atom n' c ;; store_row n' [] ;; R) h o = (put_atom c n' ;; R) h o.
Proof.
  intros Hn Hk. unfold seq, store_atom, store_row, put_atom, ok. simpl.
  rewrite (zset_notin_app (o_atoms o)) by exact Hn. rewrite (zset_notin_app (o_adj o)) by (rewrite Hk; exact Hn). reflexivity.
Qed.
Lemma zmax_succ_notin l : ~ In (zmax l 0 + 1) l.
Proof. intros H. apply (zmax_ge l 0) in H. lia. Qed.
(* for every molecule with keys(_bonds) = keys(_atoms) (part of the invariant W) *)
Theorem gen_add_atom_eq : forall c n h o,
  keys (o_adj o) = keys (o_atoms o) -> gen_add_atom false c n h o = add_atom c n h o.
Proof.
  intros c n h o Hk. unfold gen_add_atom, add_atom. destruct n as [x|].
  - unfold ite at 1. simpl negb. cbv iota. unfold ite at 1. destruct (zmem x (keys (o_atoms o))) eqn:E; [reflexivity|].
    rewrite put_eq; [|apply zmem_false_notin; exact E|exact Hk].
    apply seq_cong; [reflexivity|]. intros h1 o1. apply seq_cong; [reflexivity|]. intros h2 o2.
    apply seq_cong; [apply mark1_eq|intros; apply unless_eq].
  - unfold let_state. rewrite put_eq; [|apply zmax_succ_notin|exact Hk].
    apply seq_cong; [reflexivity|]. intros h1 o1. apply seq_cong; [reflexivity|]. intros h2 o2.
    apply seq_cong; [apply mark1_eq|intros; apply unless_eq].
Qed.

(* ---- __enter__ / __exit__ *)
Theorem gen_enter_eq : forall h o, gen_enter h o = enter h o.
Proof.
  intros h o. unfold gen_enter, enter, ite, backup_assign_copy. destruct (o_backup o); simpl; [reflexivity|].
  destruct (copy_mol true true h o) as [[h1 b]|e]; reflexivity.
Qed.
Theorem gen_exit_exn_eq : forall h o, gen_exit true h o = exit_exn h o.
Proof.
  intros h o. unfold gen_exit, exit_exn, seq, ite, with_backup. destruct (o_backup o) as [b|]; reflexivity.
Qed.
Lemma diffs_eq o b :
  flat_map (fun na => let n := fst na in let a := snd na in
                      if negb (zmem n (keys (bk_atoms b))) || negb (c_chg (a_core a) =? c_chg (a_core (aget (bk_atoms b) n)))
                         || negb (Bool.eqb (c_rad (a_core a)) (c_rad (a_core (aget (bk_atoms b) n))))
                      then [n] else []) (o_atoms o) = txn_diffs o b.
Proof.
  unfold txn_diffs. induction (o_atoms o) as [|[n a] t IH]; simpl; [reflexivity|]. rewrite IH. f_equal.
  rewrite zmem_keys_zget. unfold aget. destruct (zget (bk_atoms b) n) as [a0|]; simpl; [|reflexivity].
  destruct (c_chg (a_core a) =? c_chg (a_core a0)); destruct (Bool.eqb (c_rad (a_core a)) (c_rad (a_core a0))); reflexivity.
Qed.
Theorem gen_exit_ok_eq : forall h o, gen_exit false h o = exit_ok h o.
Proof.
  intros h o. unfold gen_exit, exit_ok. unfold ite at 1. rewrite seq_assoc.
  apply seq_cong.
  - intros h1 o1. unfold ite, note_setters, with_backup, changed_update. destruct (o_changed o1) as [l|] eqn:E; simpl; [|reflexivity].
    destruct (o_backup o1) as [b|]; [|reflexivity]. try rewrite E. cbv zeta. rewrite <- (diffs_eq o1 b). reflexivity.
  - intros h1 o1. rewrite seq_assoc. apply seq_cong; [reflexivity|]. intros h2 o2. rewrite seq_assoc.
    apply seq_cong; [reflexivity|]. intros h3 o3. reflexivity.
Qed.

(* the hypotheses of gen_add_atom_eq / gen_delete_atom_eq hold in every reachable state: non-vacuity on a loaded molecule *)
Example gen_ops_example :
  let s := init [(1, mkCore 6 None 0 false); (2, mkCore 6 None 0 false); (3, mkCore 8 None 0 false)]
                [(1, [(2, 1)]); (2, [(1, 1); (3, 1)]); (3, [(2, 1)])] [] [] in
  keys (o_adj (s_cur s)) = keys (o_atoms (s_cur s)) /\
  gen_add_atom false (mkCore 7 None 0 false) None (s_heap s) (s_cur s) = add_atom (mkCore 7 None 0 false) None (s_heap s) (s_cur s) /\
  snd (gen_delete_atom false 2 (s_heap s) (s_cur s)) = None /\
  keys (o_atoms (snd (fst (gen_delete_atom false 2 (s_heap s) (s_cur s))))) = [1; 3].
Proof. vm_compute. repeat split; reflexivity. Qed.

(* ---- the state machine all C13 theorems quantify over executes the translated bodies: in every state satisfying the world
   invariant W, one step of an edit / of the transaction protocol IS the action generated from the source *)
From Proofs Require Import CacheCopy CacheCoh CacheWorld.
Lemma lift_ext (a b : act) s : a (s_heap s) (s_cur s) = b (s_heap s) (s_cur s) -> lift a s = lift b s.
Proof. intros H. unfold lift. rewrite H. reflexivity. Qed.
Theorem step_runs_translated_source : forall s, W s ->
  (forall c n, step s (OAddAtom c n) = lift (gen_add_atom false c n) s) /\
  (forall n m ord, step s (OAddBond n m ord) = lift (gen_add_bond false n m ord) s) /\
  (forall n, step s (ODelAtom n) = lift (gen_delete_atom false n) s) /\
  (forall n m, step s (ODelBond n m) = lift (gen_delete_bond false n m) s) /\
  step s OEnter = lift gen_enter s /\
  step s OExitOk = lift (gen_exit false) s /\
  step s OExitExn = lift (gen_exit true) s.
Proof.
  intros s HW. pose proof (W_cur s HW) as [[Hwf _] _]. pose proof (wf_keys _ _ _ Hwf) as Hk.
  repeat split; intros; simpl; apply lift_ext; symmetry.
  - apply gen_add_atom_eq. exact Hk.
  - apply gen_add_bond_eq.
  - apply gen_delete_atom_eq. rewrite Hk. reflexivity.
  - apply gen_delete_bond_eq.
  - apply gen_enter_eq.
  - apply gen_exit_ok_eq.
  - apply gen_exit_exn_eq.
Qed.
