(* C13 -- world level: in every live molecule and backup distinct bonds are distinct objects; kept by every operation. *)
From Coq Require Import ZArith List Bool Lia.
From Model Require Import PyBase Cache.
From Proofs Require Import CacheProofs CacheWf CacheCopy CacheCoh CacheWorld CacheUnion CacheTheorems CacheUsable CacheFresh CacheFreshOps
  CacheInj CacheInjOps.
Import ListNotations.
Open Scope Z_scope.

Definition WI (s : state) : Prop := Forall (fun u => inj (o_adj u)) (units s).

Lemma copy_mol_inj ks kc h o h1 b : wf h o -> copy_mol ks kc h o = Ok (h1, b) -> inj (o_adj b).
Proof.
  intros Wf H. unfold copy_mol in H. destruct (negb (forallb _ (o_atoms o))); [discriminate|].
  destruct (copy_rows h [] (o_adj o)) as [[h2 cb]|] eqn:R; [|discriminate]. inversion H; subst. cbn [o_adj].
  unfold copy_rows in R. eapply gcopy_inj; [|exact R]. apply (wf_nd _ _ _ Wf).
Qed.
Lemma sub_inj rh ats h o h2 o2 e : wf h o -> substructure_g rh ats h o = Ok (h2, o2, e) -> inj (o_adj o2).
Proof.
  intros Wf H. unfold substructure_g in H. destruct ats as [|a0 ats']; [discriminate|].
  destruct (negb (subset_z (a0 :: ats') (keys (o_atoms o)))); [discriminate|].
  set (sel := filter (fun n => zmem n (a0 :: ats')) (keys (o_atoms o))) in *.
  unfold sub_rows in H. destruct (rows_of (o_adj o) sel) as [rows|] eqn:Er; [|discriminate].
  destruct (gcopy_rows (fun m => zmem m sel) fsub h [] rows) as [[h1 sb]|] eqn:R; [|discriminate].
  destruct (rows_of_spec _ _ _ Er) as [Kr _].
  assert (inj sb) as J. { eapply gcopy_inj; [|exact R]. rewrite Kr. unfold sel. apply NoDup_filter. rewrite <- (wf_keys _ _ _ Wf). apply (wf_nd _ _ _ Wf). }
  inversion H as [E]. pose proof (ka_sub_finish rh h1 (mkM (map (fun n => (n, match zget (o_atoms o) n with
     | Some a => mkA (a_core a) (if rh then None else a_hyd a) None | None => mkA (mkCore 0 None 0 false) None None end)) sel) sb [] None None None None)) as K.
  rewrite E in K. cbn [o_adj] in K. now rewrite K.
Qed.

Lemma WI_cur s : WI s -> inj (o_adj (s_cur s)).
Proof. intros F. destruct s as [h o others]. unfold WI in F. rewrite units_cons in F. inversion F; assumption. Qed.

(* an action on the current molecule whose _backup is kept or dropped *)
Lemma WI_lift a s : WI s -> W s -> iact a ->
  (match a (s_heap s) (s_cur s) with (_, o', _) => o_backup o' = o_backup (s_cur s) \/ o_backup o' = None end) -> WI (fst (lift a s)).
Proof.
  intros F Ws Ia Bk. pose proof (W_cur s Ws) as Uc. pose proof (WI_cur s F) as Jc. unfold lift. specialize (Ia _ _ (proj1 Uc) Jc).
  destruct s as [h o others]. cbn [s_heap s_cur s_others] in *. destruct (a h o) as [[h1 o1] e]. cbn [fst]. unfold WI in *. rewrite units_cons in *.
  inversion F as [|? ? _ FR]; subst. constructor; [exact Ia|]. apply Forall_app in FR. destruct FR as [F1 F2]. apply Forall_app. split; [|exact F2].
  unfold shadow in *. destruct Bk as [-> | ->]; [exact F1 | constructor].
Qed.
Lemma same_backup (a : act) h o : good1 a -> inv1 h o -> match a h o with (_, o', _) => o_backup o' = o_backup o \/ o_backup o' = None end.
Proof. intros G I. pose proof (good1_backup a h o G I) as B. destruct (a h o) as [[h1 o1] e]. now left. Qed.

Lemma WI_add h h2 o others b : WI (mkS h o others) -> inj (o_adj b) -> o_backup b = None -> WI (mkS h2 o (b :: others)).
Proof.
  unfold WI. rewrite units_others, units_split. intros F J B. apply Forall_app in F. destruct F as [F1 F2]. apply Forall_app. split; [exact F1|].
  apply Forall_app. split; [|exact F2]. unfold shadow. rewrite B. constructor; [exact J | constructor].
Qed.
Lemma WI_heap h h2 o others : WI (mkS h o others) -> WI (mkS h2 o others).
Proof. unfold WI. now rewrite !units_split. Qed.

Lemma WI_sub_step_g rh ats s : WI s -> W s -> WI (fst (sub_step_g rh ats s)).
Proof.
  intros F Ws. pose proof (W_cur s Ws) as Uc. unfold sub_step_g. destruct s as [h o others]. cbn [s_heap s_cur s_others] in *.
  destruct (substructure_g rh ats h o) as [[[h2 o2] e]|err] eqn:E; [|exact F].
  pose proof (sub_inj rh ats h o h2 o2 e (proj1 (proj1 Uc)) E) as J.
  destruct (sub_spec_g _ _ _ _ _ _ _ (proj1 (proj1 Uc)) E) as [h1 [sub0 [_ [I0 [_ [B0 [_ [_ R]]]]]]]].
  pose proof (good1_backup _ _ _ (sub_finish_good rh) I0) as Bk. rewrite R in Bk.
  destruct e as [e|]; cbn [fst]; [now apply (WI_heap h) | apply (WI_add h); [exact F | exact J | congruence]].
Qed.
Lemma WI_sub_step ats s : WI s -> W s -> WI (fst (sub_step ats s)).
Proof. apply WI_sub_step_g. Qed.

Lemma WI_split_loop cs : forall s old, WI s -> W s -> WI (mkS (s_heap s) (s_cur s) old) -> WI (fst (split_loop cs s old)).
Proof.
  induction cs as [|c t IH]; intros [h o others] old F Ws Fo; cbn [split_loop fst s_heap s_cur s_others] in *; [exact F|].
  destruct (substructure_g false c h o) as [[[h2 o2] e]|err] eqn:E; [|exact Fo].
  pose proof (W_cur _ Ws) as Uc. cbn [s_heap s_cur] in Uc.
  pose proof (sub_inj false c h o h2 o2 e (proj1 (proj1 Uc)) E) as J.
  destruct (W_sub_g false c h o others h2 o2 e Ws E) as [X K].
  destruct (sub_spec_g _ _ _ _ _ _ _ (proj1 (proj1 Uc)) E) as [h1 [sub0 [_ [I0 [_ [B0 [_ [_ R]]]]]]]].
  pose proof (good1_backup _ _ _ (sub_finish_good false) I0) as Bk. rewrite R in Bk.
  destruct e as [e|]; [cbn [fst]; now apply (WI_heap h)|].
  apply IH; cbn [s_heap s_cur]; [apply (WI_add h); [exact F | exact J | congruence] | now apply K | now apply (WI_heap h)].
Qed.

(* ---- union *)
Lemma inj_app a b : inj a -> inj b -> (forall r, In r (arefs a) -> ~ In r (arefs b)) -> inj (a ++ b).
Proof.
  intros Ia Ib D.
  assert (forall x y r, aslot (a ++ b) x y = Some r -> aslot a x y = Some r \/ aslot b x y = Some r) as Sp.
  { intros x y r. unfold aslot. rewrite zget_app. destruct (zget a x); auto. }
  intros x y x' y' r H1 H2. apply Sp in H1, H2. destruct H1 as [H1|H1], H2 as [H2|H2].
  - eapply Ia; eauto.
  - exfalso. apply (D r); eapply aslot_arefs; eauto.
  - exfalso. apply (D r); eapply aslot_arefs; eauto.
  - eapply Ib; eauto.
Qed.

Theorem WI_union rmp cp s : WI s -> W s -> WI (fst (union rmp cp s)).
Proof.
  intros F Ws. pose proof (W_cur s Ws) as Uc. pose proof (WI_cur s F) as Jc. unfold union. destruct s as [h self others]. cbn [s_heap s_cur s_others] in *.
  destruct others as [|other rest]; [exact F|].
  assert (U h other /\ inj (o_adj other)) as [Uot Jot].
  { destruct Ws as [Fw _]. unfold WI in F. rewrite Forall_forall in Fw, F. split; [apply Fw | apply F]; apply in_flat_map; exists other; (split; [right; now left | now left]). }
  set (collide := existsb (fun n => zmem n (keys (o_atoms other))) (keys (o_atoms self))).
  destruct (collide && negb rmp) eqn:Ecn; [exact F|].
  destruct (copy_mol false false h other) as [[h1 oc]|e] eqn:Ec; [|exact F].
  pose proof (copy_mol_inj _ _ _ _ _ _ (proj1 (proj1 Uot)) Ec) as Joc.
  destruct (copy_mol_spec _ _ _ _ _ _ (proj1 (proj1 Uot)) Ec) as [cb [Eoc [Woc [X1 [Fr1 _]]]]].
  assert (inv1 h1 oc) as Ioc.
  { split; [exact Woc|]. subst oc. intros l Hl x Hx. cbn [o_changed o_atoms] in *. destruct Uot as [[_ Cw] _]. eapply Cw; eauto. }
  assert (forall r, In r (arefs (o_adj oc)) -> h_next h <= r) as Froc by (subst oc; exact Fr1).
  assert (exists h2 oc' e2, (if collide then remap (combine (keys (o_atoms oc)) (zrange_from (zmax (keys (o_atoms self)) 0 + 1) (length (o_atoms oc)))) h1 oc
                             else ok h1 oc) = (h2, oc', e2) /\ h2 = h1 /\ inv1 h1 oc' /\ inj (o_adj oc') /\
                            (forall r, In r (arefs (o_adj oc')) -> h_next h <= r) /\
                            (e2 = None -> forall k, In k (keys (o_atoms oc')) -> ~ In k (keys (o_atoms self)))) as [h2 [oc' [e2 [Er [Eh [Ioc' [Joc' [Froc' Dk]]]]]]]].
  { destruct collide eqn:Ecol.
    - set (mp := combine _ _). pose proof (remap_good mp h1 oc Ioc) as G. pose proof (remap_spec mp h1 oc) as Sp. pose proof (remap_iact mp h1 oc Ioc Joc) as Ji.
      destruct (remap mp h1 oc) as [[h2 oc'] e2]. exists h2, oc', e2. destruct Sp as [-> Sp]. destruct G as [I2 [_ [_ [Rf _]]]].
      split; [reflexivity|]. split; [reflexivity|]. split; [exact I2|]. split; [exact Ji|]. split.
      + intros r Hr. apply Rf in Hr. destruct Hr as [Hr|Hr]; [now apply Froc | destruct X1; lia].
      + intros E2. destruct Sp as [[Ee _]|[_ [Ea _]]]; [congruence|]. rewrite Ea, keys_rn_atoms. intros k Hk Hs.
        apply in_map_iff in Hk. destruct Hk as [n [<- Hn]].
        destruct (zget_combine (keys (o_atoms oc)) (zrange_from (zmax (keys (o_atoms self)) 0 + 1) (length (o_atoms oc))) n) as [v [Hv Iv]];
          [rewrite zrange_from_length; unfold keys; now rewrite map_length | exact Hn|].
        unfold mg, mp in Hs. rewrite Hv in Hs. apply zrange_from_In in Iv. apply (zmax_ge _ 0) in Hs. lia.
    - exists h1, oc, None. split; [reflexivity|]. split; [reflexivity|]. split; [exact Ioc|]. split; [exact Joc|]. split; [exact Froc|]. intros _.
      subst oc. cbn [o_atoms]. apply keys_other_disj. exact Ecol. }
  rewrite Er. subst h2. destruct e2 as [e2|]; [cbn [fst]; now apply (WI_heap h)|]. specialize (Dk eq_refl).
  destruct Ioc' as [Woc' Cwoc'].
  assert (NoDup (keys (o_atoms oc'))) as Ndoc by (rewrite <- (wf_keys _ _ _ Woc'); apply (wf_nd _ _ _ Woc')).
  assert (NoDup (keys (o_adj oc'))) as Ndad by (apply (wf_nd _ _ _ Woc')).
  assert (U h1 self) as Us1 by (eapply hext_U; eauto).
  destruct cp.
  - destruct (copy_mol false false h1 self) as [[h3 u]|e] eqn:Eu; [|cbn [fst]; now apply (WI_heap h)].
    pose proof (copy_mol_inj _ _ _ _ _ _ (proj1 (proj1 Us1)) Eu) as Ju.
    destruct (copy_mol_spec _ _ _ _ _ _ (proj1 (proj1 Us1)) Eu) as [cbu [Eub [Wu [X3 [Fr3 _]]]]]. cbn [fst].
    assert (forall k, In k (keys (o_adj oc')) -> ~ In k (keys cbu)) as DAu.
    { intros k Hk. rewrite (wf_keys _ _ _ Woc') in Hk. subst u. unfold wf in Wu. cbn [o_atoms o_adj] in Wu. rewrite (wf_keys _ _ _ Wu). now apply Dk. }
    apply (WI_add h); [exact F | | subst u; reflexivity]. subst u. simpo. rewrite (zupdate_app (o_adj oc') _ Ndad DAu).
    apply inj_app; [exact Ju | exact Joc'|]. intros r H1 H2. apply Fr3 in H1. apply (wf_lt _ _ _ Woc') in H2. lia.
  - unfold lift, flush, ok. cbn [s_heap s_cur s_others fst]. simpo. destruct Us1 as [[Ws1 _] _].
    assert (forall k, In k (keys (o_adj oc')) -> ~ In k (keys (o_adj self))) as DAs.
    { intros k Hk. rewrite (wf_keys _ _ _ Woc') in Hk. rewrite (wf_keys _ _ _ Ws1). now apply Dk. }
    rewrite (zupdate_app (o_adj oc') _ Ndad DAs). unfold WI in *. rewrite units_cons in *. inversion F as [|? ? _ FR]; subst.
    constructor; [|exact FR]. simpo. apply inj_app; [exact Jc | exact Joc'|]. intros r H1 H2. apply Froc' in H2.
    pose proof (U_lt _ _ _ Uc H1). lia.
Qed.

Lemma exit_ok_backup h o : inv1 h o -> match exit_ok h o with (_, o', _) => o_backup o' = o_backup o \/ o_backup o' = None end.
Proof.
  intros I. rewrite exit_ok_split. unfold seq. pose proof (good1_backup _ _ _ exit_body_good I) as B.
  destruct (exit_body h o) as [[h1 o1] [e|]]; [now left | right; reflexivity].
Qed.
Lemma iact_setter (a : act) : ka a -> iact a.
Proof. apply iact_ka. Qed.
Lemma ka_set_charge n v : ka (set_charge n v).
Proof. intros h o. unfold set_charge. destruct (zget (o_atoms o) n); [|reflexivity]. destruct (_ || _); reflexivity. Qed.
Lemma ka_set_radical n v : ka (set_radical n v).
Proof. intros h o. unfold set_radical. destruct (zget (o_atoms o) n); reflexivity. Qed.

Theorem step_WI s p : WI s -> W s -> op_ok s p -> WI (fst (step s p)).
Proof.
  intros F Ws Ok. pose proof (W_cur s Ws) as Uc. destruct p; cbn [step op_ok] in *.
  - apply WI_lift; auto; [apply iact_ka, ka_read | apply same_backup; [apply read_good | apply Uc]].
  - apply WI_lift; auto; [apply add_atom_iact | apply same_backup; [apply add_atom_good | apply Uc]].
  - apply WI_lift; auto; [apply add_bond_iact | apply same_backup; [apply add_bond_good | apply Uc]].
  - apply WI_lift; auto; [apply delete_atom_iact | apply same_backup; [apply delete_atom_good | apply Uc]].
  - apply WI_lift; auto; [apply delete_bond_iact | apply same_backup; [apply delete_bond_good | apply Uc]].
  - apply WI_lift; auto; [apply remap_iact | apply same_backup; [apply remap_good | apply Uc]].
  - now apply WI_union.
  - (* copy *) destruct s as [h o others]. cbn [s_heap s_cur s_others] in *.
    destruct (copy_mol false false h o) as [[h1 b]|e] eqn:E; [|exact F]. cbn [fst].
    pose proof (copy_mol_inj _ _ _ _ _ _ (proj1 (proj1 Uc)) E) as J.
    destruct (copy_mol_spec _ _ _ _ _ _ (proj1 (proj1 Uc)) E) as [cb [Eb _]]. apply (WI_add h); [exact F | exact J | subst b; reflexivity].
  - now apply WI_sub_step.
  - now apply WI_sub_step.
  - destruct (negb (subset_z ats (keys (o_atoms (s_cur s))))); [exact F|].
    destruct (filter (fun n => negb (zmem n ats)) (keys (o_atoms (s_cur s)))); [exact F | now apply WI_sub_step].
  - destruct (negb (subset_z ats (keys (o_adj (s_cur s))))); [exact F|].
    destruct (aug_grow (o_adj (s_cur s)) ats deep); [now apply WI_sub_step | exact F].
  - (* split *)
    assert (WI (fst (lift (read Kcc) s))) as F1 by (apply WI_lift; auto; [apply iact_ka, ka_read | apply same_backup; [apply read_good | apply Uc]]).
    assert (W (fst (lift (read Kcc) s))) as W1 by (apply W_lift; [exact Ws | apply read_good | now apply read_HC]).
    apply WI_split_loop; [exact F1 | exact W1 | destruct (fst (lift (read Kcc) s)); exact F1].
  - now apply WI_sub_step_g.
  - (* swap *) destruct s as [h o [|a t]]; [exact F|]. cbn [fst]. unfold WI in *. rewrite units_others in *.
    apply Forall_app in F. destruct F as [F1 F2]. apply Forall_app in F2. destruct F2 as [F2 F3].
    apply Forall_app. split; [exact F2|]. apply Forall_app. split; assumption.
  - apply WI_lift; auto; [apply iact_ka, ka_flush | apply same_backup; [apply flush_good | apply Uc]].
  - (* enter *) destruct s as [h o others]. unfold lift, enter. cbn [s_heap s_cur s_others] in *.
    destruct (o_backup o) as [b0|] eqn:Eb0; [exact F|].
    destruct (copy_mol true true h o) as [[h1 b]|e] eqn:E; [|exact F]. cbn [ok fst].
    pose proof (copy_mol_inj _ _ _ _ _ _ (proj1 (proj1 Uc)) E) as J.
    unfold WI in *. rewrite units_cons in *. inversion F as [|? ? Jo FR]; subst. constructor; [exact Jo|].
    unfold shadow in *. simpo. rewrite Eb0 in FR. cbn [app] in *. constructor; [exact J | exact FR].
  - apply WI_lift; auto; [apply iact_ka, ka_exit_ok | apply exit_ok_backup; apply Uc].
  - (* exit_exn *) destruct s as [h o others]. unfold lift, exit_exn. cbn [s_heap s_cur s_others] in *.
    destruct (o_backup o) as [b|] eqn:Eb; [|exact F]. cbn [ok fst]. unfold WI in *. rewrite units_cons in *. unfold shadow in F. rewrite Eb in F.
    inversion F as [|? ? _ F']; subst. exact F'.
  - apply WI_lift; auto; [apply iact_ka, ka_set_charge | apply same_backup; [apply set_charge_good | apply Uc]].
  - apply WI_lift; auto; [apply iact_ka, ka_set_radical | apply same_backup; [apply set_radical_good | apply Uc]].
  - apply WI_lift; auto; [apply patch_iact | apply same_backup; [apply patch_good | apply Uc]].
  - apply WI_lift; auto; [apply iact_ka; intros h o; reflexivity | now left].
  - apply WI_lift; auto; [apply iact_ka; intros h o; reflexivity | now left].
Qed.
Lemma WI_empty : WI empty_state.
Proof. constructor; [apply inj_nil | constructor]. Qed.
