(* C10: round trip at the level of MoleculeContainer.pack / unpack: the cis/trans labels come back on the same bonds
   exactly when the atom-keyed terminals / centers dicts name, for every labelled bond, that bond (ct_consistent_b);
   the witness of the finding shows that the condition is not implied by the format limits. *)
From Coq Require Import ZArith List Bool Lia ZifyBool.
From Model Require Import PyBase Pack PackSpec PackStereo.
From Proofs Require Import PackBits PackRoundtrip PackRoundtripGraph PackRoundtripMol.
Import ListNotations.
Open Scope Z_scope.

(* labelled adjacency as a function of a label assignment *)
Definition relabel (f : Z -> Z -> option bool) (atoms : list patom) : ladj :=
  map (fun a => (pa_n a, map (fun x : nbr => (nb_m x, (nb_ord x, f (pa_n a) (nb_m x)))) (pa_nbrs a))) atoms.

Definition upd (f : Z -> Z -> option bool) (c1 c2 : Z) (s : bool) : Z -> Z -> option bool :=
  fun n m => if bond_hit c1 c2 n m then Some s else f n m.

Lemma relabel_ext f g atoms :
  (forall a x, In a atoms -> In x (pa_nbrs a) -> f (pa_n a) (nb_m x) = g (pa_n a) (nb_m x)) -> relabel f atoms = relabel g atoms.
Proof.
  intros H. unfold relabel. apply map_ext_in. intros a Ha. f_equal. apply map_ext_in. intros x Hx. rewrite (H a x Ha Hx). reflexivity.
Qed.

Lemma relabel_id f atoms :
  (forall a x, In a atoms -> In x (pa_nbrs a) -> f (pa_n a) (nb_m x) = nb_st x) -> relabel f atoms = ladj_of_atoms atoms.
Proof.
  intros H. unfold relabel, ladj_of_atoms. apply map_ext_in. intros a Ha. f_equal.
  rewrite <- (map_id (pa_nbrs a)) at 2. apply map_ext_in. intros x Hx. rewrite (H a x Ha Hx).
  destruct x as [m [o l]]. reflexivity.
Qed.

Lemma set_lab_relabel f atoms c1 c2 s : set_lab (relabel f atoms) c1 c2 s = relabel (upd f c1 c2 s) atoms.
Proof.
  unfold set_lab, relabel. rewrite map_map. apply map_ext. intros a. cbn [fst snd]. f_equal. rewrite map_map.
  apply map_ext. intros x. reflexivity.
Qed.

Lemma ladj_of_unpacked_of m size : ladj_of_unpacked (unpacked_of m size) = relabel (fun _ _ => None) (pm_atoms m).
Proof.
  unfold ladj_of_unpacked, unpacked_of, relabel. cbn [up_adj]. rewrite map_map. apply map_ext. intros a.
  unfold adj_entry. cbn [fst snd]. f_equal. rewrite map_map. reflexivity.
Qed.

Lemma bond_hit_pair c1 c2 n m : bond_hit c1 c2 n m = true -> forall p q, bond_hit c1 c2 p q = bond_hit n m p q.
Proof. unfold bond_hit. intros H p q. lia. Qed.

Lemma bond_hit_refl n m : bond_hit n m n m = true.
Proof. unfold bond_hit. lia. Qed.

(* the label assignment produced by the records of a list of forward bonds *)
Definition lab_step (f : Z -> Z -> option bool) (nx : Z * nbr) : Z -> Z -> option bool :=
  match nb_st (snd nx) with Some s => upd f (fst nx) (nb_m (snd nx)) s | None => f end.
Definition lab_fold (F : list (Z * nbr)) (f : Z -> Z -> option bool) := fold_left lab_step F f.

Lemma lab_fold_none p q : forall F f,
  (forall nx s, In nx F -> nb_st (snd nx) = Some s -> bond_hit (fst nx) (nb_m (snd nx)) p q = false) ->
  lab_fold F f p q = f p q.
Proof.
  induction F as [|nx F IH]; intros f H; [reflexivity|]. unfold lab_fold. cbn [fold_left]. fold (lab_fold F (lab_step f nx)).
  rewrite IH by (intros nx' s Hin; apply H; right; exact Hin). unfold lab_step.
  destruct (nb_st (snd nx)) as [s|] eqn:E; [|reflexivity]. unfold upd. rewrite (H nx s (or_introl eq_refl) E). reflexivity.
Qed.

Lemma lab_fold_some p q s : forall F f,
  (forall nx s', In nx F -> nb_st (snd nx) = Some s' -> bond_hit (fst nx) (nb_m (snd nx)) p q = true -> s' = s) ->
  (f p q = Some s \/ exists nx, In nx F /\ nb_st (snd nx) = Some s /\ bond_hit (fst nx) (nb_m (snd nx)) p q = true) ->
  lab_fold F f p q = Some s.
Proof.
  induction F as [|nx F IH]; intros f H D.
  - destruct D as [D|[nx [[] _]]]. exact D.
  - unfold lab_fold. cbn [fold_left]. fold (lab_fold F (lab_step f nx)). apply IH; [intros nx' s' Hin; apply H; right; exact Hin|].
    unfold lab_step. destruct (nb_st (snd nx)) as [s'|] eqn:E.
    + unfold upd. destruct (bond_hit (fst nx) (nb_m (snd nx)) p q) eqn:Eh.
      * left. f_equal. apply (H nx s' (or_introl eq_refl) E Eh).
      * destruct D as [D|[nx' [[Hin|Hin] [E' Eh']]]]; [left; exact D | subst nx'; congruence | right; exists nx'; auto].
    + destruct D as [D|[nx' [[Hin|Hin] [E' Eh']]]]; [left; exact D | subst nx'; congruence | right; exists nx'; auto].
Qed.

(* every bond is met forward from one of its two atoms *)
Lemma NoDup_split_unique {A} (x : A) : forall l1 r1 l2 r2, NoDup (l1 ++ x :: r1) -> l1 ++ x :: r1 = l2 ++ x :: r2 -> l1 = l2.
Proof.
  induction l1 as [|y l1 IH]; intros r1 l2 r2 Hnd E.
  - destruct l2 as [|z l2]; [reflexivity|]. cbn [app] in *. injection E as E1 E2. subst z.
    inversion Hnd as [|? ? Hni _]. exfalso. apply Hni. rewrite E2. apply in_or_app. right. left. reflexivity.
  - destruct l2 as [|z l2]; cbn [app] in *.
    + injection E as E1 E2. subst y. inversion Hnd as [|? ? Hni _]. exfalso. apply Hni. apply in_or_app. right. left. reflexivity.
    + injection E as E1 E2. subst z. f_equal. inversion Hnd as [|? ? _ Hnd']. apply (IH r1 l2 r2 Hnd' E2).
Qed.

Lemma fwd_complete_aux : forall atoms seen a (x : nbr), In a atoms -> In x (pa_nbrs a) -> ~ In (nb_m x) seen -> nb_m x <> pa_n a ->
  In (pa_n a, x) (mol_fwd seen atoms) \/ exists pre post, atoms = pre ++ a :: post /\ In (nb_m x) (map pa_n pre).
Proof.
  induction atoms as [|a0 r IH]; intros seen a x Ha Hx Hs Hl; [contradiction|].
  cbn [mol_fwd]. destruct Ha as [Ha|Ha].
  - subst a0. left. apply in_or_app. left. apply in_map. unfold fwd_nbrs. apply filter_In. split; [exact Hx|].
    apply negb_true_iff. apply zmem_false_not_In. intros [H|H]; [apply Hl; symmetry; exact H | apply Hs; exact H].
  - destruct (Z.eq_dec (nb_m x) (pa_n a0)) as [E|E].
    + right. destruct (in_split _ _ Ha) as [pre [post Hr]]. exists (a0 :: pre), post. split; [rewrite Hr; reflexivity|].
      left. symmetry. exact E.
    + destruct (IH (pa_n a0 :: seen) a x Ha Hx) as [H|[pre [post [Hr Hin]]]].
      * intros [H|H]; [apply E; symmetry; exact H | apply Hs; exact H].
      * exact Hl.
      * left. apply in_or_app. right. exact H.
      * right. exists (a0 :: pre), post. split; [rewrite Hr; reflexivity | right; exact Hin].
Qed.

Section Reattach.
  Variable atoms : list patom.
  Hypothesis W : graph_wf atoms.
  Hypothesis Hsym : forall a x, In a atoms -> In x (pa_nbrs a) ->
    exists b, In b atoms /\ pa_n b = nb_m x /\ In (pa_n a, (nb_ord x, nb_st x)) (pa_nbrs b).
  Variable terminals centers : list (Z * (Z * Z)).

  Lemma entry_unique a (x y : nbr) : In a atoms -> In x (pa_nbrs a) -> In y (pa_nbrs a) -> nb_m x = nb_m y -> x = y.
  Proof. intros Ha Hx Hy E. apply (NoDup_map_inj nb_m (pa_nbrs a)); [apply (gw_nbr_nodup _ W a Ha) | | |]; assumption. Qed.

  Lemma atom_unique a b : In a atoms -> In b atoms -> pa_n a = pa_n b -> a = b.
  Proof. intros Ha Hb E. apply (NoDup_map_inj pa_n atoms); [apply (gw_nodup _ W) | | |]; assumption. Qed.

  (* an entry that hits the bond of (a, x) carries the label of x *)
  Lemma hit_same_label a x a' x' : In a atoms -> In x (pa_nbrs a) -> In a' atoms -> In x' (pa_nbrs a') ->
    bond_hit (pa_n a') (nb_m x') (pa_n a) (nb_m x) = true -> nb_st x' = nb_st x.
  Proof.
    intros Ha Hx Ha' Hx' Hh. unfold bond_hit in Hh.
    assert (D : (pa_n a = pa_n a' /\ nb_m x = nb_m x') \/ (pa_n a = nb_m x' /\ nb_m x = pa_n a')) by lia.
    destruct D as [[E1 E2]|[E1 E2]].
    - pose proof (atom_unique a a' Ha Ha' E1). subst a'. rewrite (entry_unique a x x' Ha Hx Hx' E2). reflexivity.
    - destruct (Hsym a x Ha Hx) as [b [Hb [Hbn Hin]]].
      assert (b = a') by (apply atom_unique; [exact Hb | exact Ha' | congruence]). subst b.
      assert (Ex : x' = (pa_n a, (nb_ord x, nb_st x))) by (apply (entry_unique a' _ _ Ha' Hx' Hin); cbn; congruence).
      rewrite Ex. reflexivity.
  Qed.

  Lemma fwd_complete a x : In a atoms -> In x (pa_nbrs a) ->
    exists a' x', In a' atoms /\ In x' (pa_nbrs a') /\ In (pa_n a', x') (mol_fwd [] atoms) /\
                  bond_hit (pa_n a') (nb_m x') (pa_n a) (nb_m x) = true.
  Proof.
    intros Ha Hx. pose proof (gw_noloop _ W a x Ha Hx) as Hl.
    destruct (fwd_complete_aux atoms [] a x Ha Hx ltac:(intros []) Hl) as [H|[pre [post [Hat Hin]]]].
    - exists a, x. repeat split; try assumption. apply bond_hit_refl.
    - destruct (Hsym a x Ha Hx) as [b [Hb [Hbn Hbx]]]. set (x' := (pa_n a, (nb_ord x, nb_st x)) : nbr) in *.
      assert (Hl' : nb_m x' <> pa_n b) by (cbn; rewrite Hbn; intros E; apply Hl; symmetry; exact E).
      destruct (fwd_complete_aux atoms [] b x' Hb Hbx ltac:(intros []) Hl') as [H|[pre2 [post2 [Hat2 Hin2]]]].
      + exists b, x'. repeat split; try assumption. unfold bond_hit. cbn [x' nb_m fst]. rewrite Hbn. lia.
      + exfalso. pose proof (gw_nodup _ W) as Hnd.
        (* a comes after b and b after a *)
        rewrite <- Hbn in Hin. apply in_split in Hin. destruct Hin as [l1 [l2 Hpre]].
        assert (E1 : map pa_n atoms = l1 ++ pa_n b :: (l2 ++ pa_n a :: map pa_n post)).
        { rewrite Hat, map_app, Hpre, <- app_assoc. reflexivity. }
        assert (E2 : map pa_n atoms = map pa_n pre2 ++ pa_n b :: map pa_n post2) by (rewrite Hat2, map_app; reflexivity).
        assert (El : l1 = map pa_n pre2).
        { apply (NoDup_split_unique (pa_n b) l1 (l2 ++ pa_n a :: map pa_n post) (map pa_n pre2) (map pa_n post2)); [rewrite <- E1; exact Hnd | congruence]. }
        cbn [x' nb_m fst] in Hin2. rewrite <- El in Hin2. rewrite E1 in Hnd. apply in_split in Hin2.
        destruct Hin2 as [k1 [k2 Hk]]. rewrite Hk in Hnd. rewrite <- app_assoc in Hnd. cbn [app] in Hnd.
        apply NoDup_remove_2 in Hnd. apply Hnd. apply in_or_app. right. apply in_or_app. right. right.
        apply in_or_app. right. left. reflexivity.
  Qed.

  Lemma has_bond_relabel f a (x : nbr) : In a atoms -> In x (pa_nbrs a) -> has_bond (relabel f atoms) (pa_n a) (nb_m x) = true.
  Proof.
    intros Ha Hx. unfold has_bond.
    rewrite (zget_NoDup (relabel f atoms) (pa_n a) (map (fun y : nbr => (nb_m y, (nb_ord y, f (pa_n a) (nb_m y)))) (pa_nbrs a))).
    - rewrite (zget_NoDup _ (nb_m x) (nb_ord x, f (pa_n a) (nb_m x))); [reflexivity | |].
      + rewrite map_map. apply (gw_nbr_nodup _ W a Ha).
      + apply in_map_iff. exists x. split; [reflexivity | exact Hx].
    - unfold relabel. rewrite map_map. apply (gw_nodup _ W).
    - unfold relabel. apply in_map_iff. exists a. split; [reflexivity | exact Ha].
  Qed.

  Lemma has_bond_hit f c1 c2 a (x : nbr) : In a atoms -> In x (pa_nbrs a) -> bond_hit c1 c2 (pa_n a) (nb_m x) = true ->
    has_bond (relabel f atoms) c1 c2 = true.
  Proof.
    intros Ha Hx Hh. unfold bond_hit in Hh.
    assert (D : (c1 = pa_n a /\ c2 = nb_m x) \/ (c1 = nb_m x /\ c2 = pa_n a)) by lia.
    destruct D as [[E1 E2]|[E1 E2]]; subst c1 c2.
    - apply has_bond_relabel; assumption.
    - destruct (Hsym a x Ha Hx) as [b [Hb [Hbn Hin]]]. rewrite <- Hbn.
      apply (has_bond_relabel f b (pa_n a, (nb_ord x, nb_st x)) Hb Hin).
  Qed.

  Definition fwd_consistent (F : list (Z * nbr)) : Prop :=
    forall nx s, In nx F -> nb_st (snd nx) = Some s ->
      exists tn tm c1 c2, zget terminals (fst nx) = Some (tn, tm) /\ zget centers tn = Some (c1, c2) /\
                          bond_hit c1 c2 (fst nx) (nb_m (snd nx)) = true.

  Lemma reattach_fwd : forall F f,
    (forall nx, In nx F -> exists a, In a atoms /\ fst nx = pa_n a /\ In (snd nx) (pa_nbrs a)) ->
    fwd_consistent F ->
    reattach centers (fwd_ct terminals F) (relabel f atoms) = Ok (relabel (lab_fold F f) atoms).
  Proof.
    induction F as [|[n x] F IH]; intros f Hin Hc; [reflexivity|].
    assert (Hin' : forall nx, In nx F -> exists a, In a atoms /\ fst nx = pa_n a /\ In (snd nx) (pa_nbrs a))
      by (intros nx H; apply Hin; right; exact H).
    assert (Hc' : fwd_consistent F) by (intros nx s H; apply Hc; right; exact H).
    unfold fwd_ct. cbn [flat_map fst snd]. fold (fwd_ct terminals F).
    unfold lab_fold. cbn [fold_left]. fold (lab_fold F (lab_step f (n, x))). unfold lab_step. cbn [fst snd].
    destruct (nb_st x) as [s|] eqn:E.
    - destruct (Hc (n, x) s (or_introl eq_refl) E) as [tn [tm [c1 [c2 [Ht [Hcn Hh]]]]]]. cbn [fst snd] in Ht, Hh.
      rewrite Ht. cbn [app reattach]. rewrite Hcn.
      destruct (Hin (n, x) (or_introl eq_refl)) as [a [Ha [Hn Hx]]]. cbn [fst snd] in Hn, Hx. subst n.
      rewrite (has_bond_hit f c1 c2 a x Ha Hx Hh). rewrite set_lab_relabel.
      rewrite (relabel_ext (upd f c1 c2 s) (upd f (pa_n a) (nb_m x) s)).
      + apply IH; assumption.
      + intros a' x' _ _. unfold upd. rewrite (bond_hit_pair c1 c2 _ _ Hh). reflexivity.
    - cbn [app]. apply IH; assumption.
  Qed.

  Lemma fwd_elements : forall nx, In nx (mol_fwd [] atoms) -> exists a, In a atoms /\ fst nx = pa_n a /\ In (snd nx) (pa_nbrs a).
  Proof. intros [n x] H. destruct (mol_fwd_In _ _ _ _ H) as [a [Ha [Hn Hx]]]. exists a. auto. Qed.

  (* the labels produced by the records of all forward bonds are the original labels *)
  Lemma lab_fold_all a x : In a atoms -> In x (pa_nbrs a) ->
    lab_fold (mol_fwd [] atoms) (fun _ _ => None) (pa_n a) (nb_m x) = nb_st x.
  Proof.
    intros Ha Hx.
    assert (Hall : forall nx s', In nx (mol_fwd [] atoms) -> nb_st (snd nx) = Some s' ->
                     bond_hit (fst nx) (nb_m (snd nx)) (pa_n a) (nb_m x) = true -> Some s' = nb_st x).
    { intros nx s' Hin E Hh. destruct (fwd_elements nx Hin) as [a' [Ha' [Hn' Hx']]]. rewrite Hn' in Hh.
      rewrite <- E. apply (hit_same_label a x a' (snd nx) Ha Hx Ha' Hx' Hh). }
    destruct (nb_st x) as [s|] eqn:E.
    - apply lab_fold_some.
      + intros nx s' Hin E' Hh. pose proof (Hall nx s' Hin E' Hh). congruence.
      + right. destruct (fwd_complete a x Ha Hx) as [a' [x' [Ha' [Hx' [Hin Hh]]]]]. exists (pa_n a', x'). cbn [fst snd].
        repeat split; try assumption. rewrite (hit_same_label a x a' x' Ha Hx Ha' Hx' Hh). exact E.
    - rewrite lab_fold_none; [reflexivity|]. intros nx s' Hin E'.
      destruct (bond_hit (fst nx) (nb_m (snd nx)) (pa_n a) (nb_m x)) eqn:Hh; [|reflexivity].
      pose proof (Hall nx s' Hin E' Hh). discriminate.
  Qed.

  Theorem reattach_all : fwd_consistent (mol_fwd [] atoms) ->
    reattach centers (fwd_ct terminals (mol_fwd [] atoms)) (relabel (fun _ _ => None) atoms) = Ok (ladj_of_atoms atoms).
  Proof.
    intros Hc. rewrite (reattach_fwd _ _ fwd_elements Hc). f_equal. apply relabel_id. intros a x Ha Hx. apply lab_fold_all; assumption.
  Qed.
End Reattach.

(* ------------------------------------------------------------------------------------------------ *)
(* from the boolean conditions *)

Lemma labels_sym_prop atoms : graph_wf atoms -> labels_sym_b atoms = true ->
  forall a x, In a atoms -> In x (pa_nbrs a) ->
    exists b, In b atoms /\ pa_n b = nb_m x /\ In (pa_n a, (nb_ord x, nb_st x)) (pa_nbrs b).
Proof.
  unfold labels_sym_b. intros W H a x Ha Hx. rewrite forallb_forall in H. specialize (H a Ha). rewrite forallb_forall in H.
  specialize (H x Hx). destruct (find_atom atoms (nb_m x)) as [b|] eqn:Ef; [|discriminate].
  apply find_atom_spec in Ef. destruct Ef as [Hb Hbn]. exists b. split; [exact Hb|]. split; [exact Hbn|].
  destruct (zget (pa_nbrs b) (pa_n a)) as [[o l]|] eqn:Eg; [|discriminate]. apply zget_In in Eg.
  assert (El : l = nb_st x) by (destruct l as [[|]|], (nb_st x) as [[|]|]; cbn in H; congruence).
  subst l. destruct (gw_sym _ W a x Ha Hx) as [b' [s [Hb' [Hbn' Hin']]]].
  assert (b' = b) by (apply (NoDup_map_inj pa_n atoms); [apply (gw_nodup _ W) | exact Hb' | exact Hb | congruence]). subst b'.
  assert (E : (pa_n a, (nb_ord x, s)) = (pa_n a, (o, nb_st x))).
  { apply (NoDup_map_inj nb_m (pa_nbrs b)); [apply (gw_nbr_nodup _ W b Hb) | exact Hin' | exact Eg | reflexivity]. }
  injection E as E1 E2. subst o. exact Eg.
Qed.

Lemma ct_consistent_prop atoms paths : ct_consistent_b atoms paths = true ->
  fwd_consistent (terminals_of paths) (centers_of paths) (mol_fwd [] atoms).
Proof.
  unfold ct_consistent_b, fwd_consistent. intros H nx s Hin E. rewrite forallb_forall in H. specialize (H nx Hin). rewrite E in H.
  destruct (zget (terminals_of paths) (fst nx)) as [[tn tm]|] eqn:E1; [|discriminate].
  destruct (zget (centers_of paths) tn) as [[c1 c2]|] eqn:E2; [|discriminate]. exists tn, tm, c1, c2. repeat split; assumption.
Qed.

(* ROUND TRIP at the level of MoleculeContainer.pack / unpack, under the consistency condition: the atoms, the neighbour
   tables with orders AND bond stereo labels come back *)
Theorem api_roundtrip_partial atoms paths suf :
  pack_ok (api_pmol atoms paths) = true -> labels_sym_b atoms = true -> ct_consistent_b atoms paths = true ->
  exists bytes, api_pack atoms paths = Ok bytes /\
    api_unpack paths (bytes ++ suf) = Ok (map uatom_of atoms, ladj_of_atoms atoms, Z.of_nat (length bytes)).
Proof.
  intros H Hs Hc. pose proof (pack_ok_graph_wf _ H) as W. cbn [pm_atoms api_pmol] in W.
  exists (pack_layout (api_pmol atoms paths)). split; [apply pack_blocks; exact H|].
  unfold api_unpack.
  assert (G0 : getb (pack_layout (api_pmol atoms paths) ++ suf) 0 = Some 2) by reflexivity.
  rewrite G0. cbn [Z.eqb Pos.eqb orb negb].
  rewrite (unpack_layout _ suf H). unfold unpack_expected. cbn [up_ct up_atoms up_size pm_atoms pm_terminals api_pmol].
  change (mkUnpacked (map uatom_of atoms) (map adj_entry atoms) (fwd_ct (terminals_of paths) (mol_fwd [] atoms))
                     (Z.of_nat (length (pack_layout (api_pmol atoms paths)))))
    with (unpacked_of (api_pmol atoms paths) (Z.of_nat (length (pack_layout (api_pmol atoms paths))))).
  rewrite ladj_of_unpacked_of. cbn [pm_atoms api_pmol].
  rewrite (reattach_all atoms W (labels_sym_prop atoms W Hs) _ _ (ct_consistent_prop atoms paths Hc)). reflexivity.
Qed.

(* the FINDING: within the format limits and with symmetric labels the condition can fail, and then the label comes
   back on another bond: 2=4 is labelled, after the round trip 2=7 is *)
Theorem api_roundtrip_refuted :
  pack_ok (api_pmol ct_shared_atoms ct_shared_paths) = true /\ labels_sym_b ct_shared_atoms = true /\
  ct_consistent_b ct_shared_atoms ct_shared_paths = false /\
  exists bytes adj size,
    api_pack ct_shared_atoms ct_shared_paths = Ok bytes /\
    api_unpack ct_shared_paths bytes = Ok (map uatom_of ct_shared_atoms, adj, size) /\
    adj <> ladj_of_atoms ct_shared_atoms /\
    zget (ladj_of_atoms ct_shared_atoms) 2 = Some [(1, (1, None)); (3, (1, None)); (4, (2, Some false)); (7, (2, None))] /\
    zget adj 2 = Some [(1, (1, None)); (3, (1, None)); (4, (2, None)); (7, (2, Some false))].
Proof.
  split; [vm_compute; reflexivity|]. split; [vm_compute; reflexivity|]. split; [vm_compute; reflexivity|].
  eexists. eexists. eexists. split; [vm_compute; reflexivity|]. split; [vm_compute; reflexivity|].
  split; [|split; vm_compute; reflexivity].
  intros E. apply (f_equal (fun d => zget d 2)) in E. vm_compute in E. discriminate.
Qed.
