(* C01: the fuel of the model of MoleculeStereo.__differentiation (Model.ChiralMorgan.differentiation, the `while True` loop) is
   SUFFICIENT: a pass that produces a non-empty morgan_update has discarded a whole non-empty group of stereo elements from its set,
   so |atoms_stereo| + |cis_trans_stereo| + |allenes_stereo| strictly decreases from one iteration to the next.  Hence the result of
   differentiation is the same for every fuel above that measure (the out-of-fuel value is never reached), and _chiral_morgan's model
   gives the same result for every inner fuel >= diff_fuel. *)
From Coq Require Import ZArith List Bool Lia Permutation Arith.
From Model Require Import PyBase PyHash Graph Morgan Stereo ChiralMorgan.
From Proofs Require Import MorganProofs ChiralOrderExt.
Import ListNotations.
Open Scope Z_scope.

(* ---------- lists ---------- *)
Lemma filter_length_le {A} (f : A -> bool) (l : list A) : (List.length (filter f l) <= List.length l)%nat.
Proof. induction l as [|x l IH]; cbn [filter List.length]; [lia|]. destruct (f x); cbn [List.length]; lia. Qed.

Lemma filter_length_lt {A} (f : A -> bool) (l : list A) (a : A) :
  In a l -> f a = false -> (List.length (filter f l) < List.length l)%nat.
Proof.
  induction l as [|x l IH]; intros Hi Hf; [contradiction|]. cbn [filter List.length]. destruct Hi as [->|Hi].
  - rewrite Hf. pose proof (filter_length_le f l). lia.
  - specialize (IH Hi Hf). destruct (f x); cbn [List.length]; lia.
Qed.

Lemma filter_all_true {A} (f : A -> bool) (l : list A) : (forall a, In a l -> f a = true) -> filter f l = l.
Proof.
  induction l as [|x l IH]; intros H; [reflexivity|]. cbn [filter]. rewrite (H x (or_introl eq_refl)). f_equal.
  apply IH. intros a Ha. apply H. right. exact Ha.
Qed.

Lemma filter_filter {A} (f g : A -> bool) (l : list A) : filter f (filter g l) = filter (fun a => g a && f a) l.
Proof.
  induction l as [|x l IH]; [reflexivity|]. cbn [filter]. destruct (g x); cbn [filter andb]; [|exact IH].
  destruct (f x); [f_equal|]; exact IH.
Qed.

(* ---------- group_by as the list of the classes of its keys ---------- *)
Lemma gacc_entry {A} (key : A -> Z) (l : list A) (k : Z) (L : list A) :
  In (k, L) (gacc key l) -> L = cls key k l /\ L <> [].
Proof.
  intros Hi. pose proof (zget_In (gacc key l) k L (nodup_gacc key l) Hi) as Hz. rewrite zget_gacc in Hz.
  destruct (cls key k l) eqn:Hc; [discriminate|]. inversion Hz. split; [reflexivity | discriminate].
Qed.

Lemma group_by_classes {A} (key : A -> Z) (l : list A) :
  group_by key l = map (fun k => cls key k l) (keys (gacc key l)) /\
  NoDup (keys (gacc key l)) /\ (forall k, In k (keys (gacc key l)) -> cls key k l <> []).
Proof.
  split; [|split].
  - unfold group_by. fold (gacc key l). unfold keys. rewrite map_map. apply map_ext_in. intros [k L] Hi.
    cbn [fst snd]. apply (gacc_entry key l k L Hi).
  - apply nodup_gacc.
  - intros k Hk. unfold keys in Hk. apply in_map_iff in Hk. destruct Hk as [[k' L] [E Hi]]. cbn [fst] in E. subst k'.
    destruct (gacc_entry key l k L Hi) as [E Hn]. rewrite <- E. exact Hn.
Qed.

(* ---------- one pass over the groups of one kind, abstractly ---------- *)
Section Pass.
  Context {A G : Type}.
  Variable step : pyres (pstate A G) -> list G -> pyres (pstate A G).
  Variable hit : list G -> A -> bool.
  Hypothesis step_err : forall e grp, step (Err e) grp = Err e.
  Hypothesis step_ok : forall u rest gs grp u' rest' gs', step (Ok (u, rest, gs)) grp = Ok (u', rest', gs') ->
    (u' = u /\ rest' = rest) \/ rest' = filter (fun a => negb (hit grp a)) rest.
  Variable keyA : A -> Z.
  Variable keyG : G -> Z.
  Variable L : list G.
  Variable sa0 : list A.
  Hypothesis hit_spec : forall k a, In a sa0 -> hit (cls keyG k L) a = (keyA a =? k).
  Hypothesis witness : forall k, cls keyG k L <> [] -> exists a, In a sa0 /\ keyA a = k.

  Lemma fold_step_err e gl : fold_left step gl (Err e) = Err e.
  Proof. induction gl as [|x gl IH]; [reflexivity|]. cbn [fold_left]. rewrite step_err. exact IH. Qed.

  Definition live (D : list Z) : list A := filter (fun a => negb (zmem (keyA a) D)) sa0.

  Lemma live_cons k D : filter (fun a => negb (hit (cls keyG k L) a)) (live D) = live (k :: D).
  Proof.
    unfold live. rewrite filter_filter. apply filter_ext_in. intros a Ha. rewrite (hit_spec k a Ha).
    unfold zmem. cbn [existsb]. rewrite negb_orb. apply andb_comm.
  Qed.

  Lemma pass_measure : forall ks D u gs u' rest' gs',
    NoDup ks -> (forall k, In k ks -> ~ In k D) -> (forall k, In k ks -> cls keyG k L <> []) ->
    fold_left step (map (fun k => cls keyG k L) ks) (Ok (u, live D, gs)) = Ok (u', rest', gs') ->
    (List.length rest' <= List.length (live D))%nat /\ (u' = u \/ (List.length rest' < List.length (live D))%nat).
  Proof.
    induction ks as [|k ks IH]; intros D u gs u' rest' gs' Hnd HD Hne Hf.
    - cbn [map fold_left] in Hf. inversion Hf. subst. split; [lia | left; reflexivity].
    - cbn [map fold_left] in Hf. inversion Hnd as [|? ? Hk Hnd']. subst.
      destruct (step (Ok (u, live D, gs)) (cls keyG k L)) as [[[u1 rest1] gs1]|e] eqn:Hs; [|rewrite fold_step_err in Hf; discriminate].
      destruct (step_ok _ _ _ _ _ _ _ Hs) as [[-> ->]|Hr].
      + apply (IH D u gs1 u' rest' gs' Hnd'); [| |exact Hf].
        * intros k' Hk'. apply HD. right. exact Hk'.
        * intros k' Hk'. apply Hne. right. exact Hk'.
      + rewrite live_cons in Hr. subst rest1.
        assert ((List.length (live (k :: D)) < List.length (live D))%nat) as Hlt.
        { destruct (witness k (Hne k (or_introl eq_refl))) as [a [Ha Hka]].
          rewrite <- live_cons. apply (filter_length_lt _ _ a).
          - unfold live. apply filter_In. split; [exact Ha|]. apply negb_true_iff. apply not_true_iff_false. intros Hm.
            apply zmem_In in Hm. rewrite Hka in Hm. exact (HD k (or_introl eq_refl) Hm).
          - rewrite (hit_spec k a Ha), Hka, Z.eqb_refl. reflexivity. }
        destruct (IH (k :: D) u1 gs1 u' rest' gs' Hnd') as [Hle _]; [| |exact Hf|].
        * intros k' Hk' [E|Hi]; [subst k'; exact (Hk Hk') | exact (HD k' (or_intror Hk') Hi)].
        * intros k' Hk'. apply Hne. right. exact Hk'.
        * split; [lia | right; lia].
  Qed.

  Lemma live_nil : live [] = sa0.
  Proof. unfold live. apply filter_all_true. intros a _. reflexivity. Qed.

  Lemma pass_measure0 u gs u' rest' gs' :
    fold_left step (group_by keyG L) (Ok (u, sa0, gs)) = Ok (u', rest', gs') ->
    (List.length rest' <= List.length sa0)%nat /\ (u' = u \/ (List.length rest' < List.length sa0)%nat).
  Proof.
    destruct (group_by_classes keyG L) as [E [Hnd Hne]]. rewrite E. rewrite <- live_nil at 1. intros Hf.
    pose proof (pass_measure _ [] u gs u' rest' gs' Hnd (fun _ _ H => H) Hne Hf) as H. rewrite live_nil in H. exact H.
  Qed.
End Pass.

(* ---------- the three kinds ---------- *)
Section Kinds.
  Variable g : mol.
  Variable tabs : cmtabs.
  Variable morgan : labels.

  Lemma cls_hit_z (l : list Z) k a : In a l -> zmem a (cls (lbl morgan) k l) = (lbl morgan a =? k).
  Proof.
    intros Ha. apply eq_iff_eq_true. rewrite zmem_In. unfold cls. rewrite filter_In. split; [intros [_ H]; exact H | intros H; split; assumption].
  Qed.
  Lemma cls_witness_z (l : list Z) k : cls (lbl morgan) k l <> [] -> exists a, In a l /\ lbl morgan a = k.
  Proof.
    destruct (cls (lbl morgan) k l) as [|a r] eqn:E; [intros H; contradiction H; reflexivity|]. intros _.
    assert (In a (cls (lbl morgan) k l)) as Hi by (rewrite E; left; reflexivity). unfold cls in Hi. apply filter_In in Hi.
    destruct Hi as [Hi Hk]. exists a. split; [exact Hi | apply Z.eqb_eq; exact Hk].
  Qed.

  Lemma th_pass sa u gs u' sa' ga :
    fold_left (th_group g tabs morgan) (group_by (lbl morgan) sa) (Ok (u, sa, gs)) = Ok (u', sa', ga) ->
    (List.length sa' <= List.length sa)%nat /\ (u' = u \/ (List.length sa' < List.length sa)%nat).
  Proof.
    apply (pass_measure0 (th_group g tabs morgan) (fun grp a => zmem a grp)) with (keyA := lbl morgan).
    - reflexivity.
    - intros u0 rest gs0 grp u1 rest1 gs1. unfold th_group.
      destruct (negb (even_len grp)); [intros H; inversion H; left; split; reflexivity|].
      destruct grp as [|n0 grp']; [intros H; inversion H; left; split; reflexivity|].
      destruct (zget (c_tetra tabs) n0); [|discriminate].
      destruct (Nat.eqb _ _).
      + destruct (filter_res _ _); [|discriminate]. intros H. inversion H. right. reflexivity.
      + intros H. inversion H. left. split; reflexivity.
    - intros k a Ha. apply cls_hit_z. exact Ha.
    - apply cls_witness_z.
  Qed.

  Lemma al_pass sal u gs u' sal' gal :
    fold_left (al_group g tabs morgan) (group_by (lbl morgan) sal) (Ok (u, sal, gs)) = Ok (u', sal', gal) ->
    (List.length sal' <= List.length sal)%nat /\ (u' = u \/ (List.length sal' < List.length sal)%nat).
  Proof.
    apply (pass_measure0 (al_group g tabs morgan) (fun grp a => zmem a grp)) with (keyA := lbl morgan).
    - reflexivity.
    - intros u0 rest gs0 grp u1 rest1 gs1. unfold al_group.
      destruct (negb (even_len grp)); [intros H; inversion H; left; split; reflexivity|].
      destruct grp as [|n0 grp']; [intros H; inversion H; left; split; reflexivity|].
      destruct (zget (c_allenes tabs) n0); [|discriminate].
      destruct (discrete_env _ _).
      + destruct (filter_res _ _); [|discriminate]. destruct (proper_part _ _); intros H; inversion H; [right | left; split]; reflexivity.
      + intros H. inversion H. left. split; reflexivity.
    - intros k a Ha. apply cls_hit_z. exact Ha.
    - apply cls_witness_z.
  Qed.

  Definition ctk (x : Z * (Z * Z)) : Z := lbl morgan (fst x).
  Lemma snd_ct_key nm : snd (ct_key morgan nm) = nm.
  Proof. unfold ct_key. destruct (_ <=? _); reflexivity. Qed.
  Lemma cpair_eqb_true p q : cpair_eqb p q = true <-> p = q.
  Proof.
    unfold cpair_eqb. destruct p as [a b], q as [c d]. cbn [fst snd]. rewrite andb_true_iff, !Z.eqb_eq.
    split; [intros [-> ->]; reflexivity | intros H; inversion H; split; reflexivity].
  Qed.

  Lemma ct_pass sct u gs u' sct' gct :
    fold_left (ct_group g tabs morgan) (group_by ctk (map (ct_key morgan) sct)) (Ok (u, sct, gs)) = Ok (u', sct', gct) ->
    (List.length sct' <= List.length sct)%nat /\ (u' = u \/ (List.length sct' < List.length sct)%nat).
  Proof.
    apply (pass_measure0 (ct_group g tabs morgan) (fun grp nm => existsb (fun x => cpair_eqb nm (snd x)) grp))
      with (keyA := fun nm => ctk (ct_key morgan nm)).
    - reflexivity.
    - intros u0 rest gs0 grp u1 rest1 gs1. unfold ct_group.
      destruct (negb (even_len grp)); [intros H; inversion H; left; split; reflexivity|].
      destruct grp as [|x0 grp']; [intros H; inversion H; left; split; reflexivity|].
      destruct (cpget (c_sct tabs) (snd x0)); [|discriminate].
      destruct (discrete_env _ _).
      + destruct (filter_res _ _); [|discriminate]. destruct (proper_part _ _); intros H; inversion H; [right | left; split]; reflexivity.
      + intros H. inversion H. left. split; reflexivity.
    - intros k nm Hnm. apply eq_iff_eq_true. rewrite existsb_exists. split.
      + intros [x [Hx Hc]]. apply cpair_eqb_true in Hc. unfold cls in Hx. apply filter_In in Hx. destruct Hx as [Hx Hk].
        apply in_map_iff in Hx. destruct Hx as [nm' [E _]]. subst x. rewrite snd_ct_key in Hc. subst nm'. exact Hk.
      + intros Hk. exists (ct_key morgan nm). split.
        * unfold cls. apply filter_In. split; [apply in_map; exact Hnm | exact Hk].
        * rewrite snd_ct_key. apply cpair_eqb_true. reflexivity.
    - intros k Hne. destruct (cls ctk k (map (ct_key morgan) sct)) as [|x r] eqn:E; [contradiction Hne; reflexivity|].
      assert (In x (cls ctk k (map (ct_key morgan) sct))) as Hi by (rewrite E; left; reflexivity).
      unfold cls in Hi. apply filter_In in Hi. destruct Hi as [Hi Hk]. apply in_map_iff in Hi. destruct Hi as [nm [Ex Hnm]].
      exists nm. split; [exact Hnm|]. rewrite Ex. apply Z.eqb_eq. exact Hk.
  Qed.
End Kinds.

(* ---------- __differentiation ---------- *)
Section Diff.
  Variable h : list Z -> Z.
  Variable g : mol.
  Variable tabs : cmtabs.

  Definition mu (sa : list Z) (sct : list (Z * Z)) (sal : list Z) : nat := (List.length sa + List.length sct + List.length sal)%nat.

  (* one unfolding of the loop body, shared by the lemmas below *)
  Definition pass1 (morgan : labels) (sa : list Z) : pyres (pstate Z Z) :=
    if negb (Nat.eqb (List.length sa) 0) then fold_left (th_group g tabs morgan) (group_by (lbl morgan) sa) (Ok ([], sa, [])) else Ok ([], sa, []).
  Definition pass2 (morgan : labels) (u1 : labels) (sct : list (Z * Z)) : pyres (pstate (Z * Z) (Z * (Z * Z))) :=
    if negb (Nat.eqb (List.length sct) 0)
    then fold_left (ct_group g tabs morgan) (group_by (fun x => lbl morgan (fst x)) (map (ct_key morgan) sct)) (Ok (u1, sct, []))
    else Ok (u1, sct, []).
  Definition pass3 (morgan : labels) (u2 : labels) (sal : list Z) : pyres (pstate Z Z) :=
    if negb (Nat.eqb (List.length sal) 0) then fold_left (al_group g tabs morgan) (group_by (lbl morgan) sal) (Ok (u2, sal, [])) else Ok (u2, sal, []).

  Lemma pass1_measure morgan sa u1 sa' ga : pass1 morgan sa = Ok (u1, sa', ga) ->
    (List.length sa' <= List.length sa)%nat /\ (u1 = [] \/ (List.length sa' < List.length sa)%nat).
  Proof.
    unfold pass1. destruct (negb _); [apply th_pass|]. intros H. inversion H. split; [lia | left; reflexivity].
  Qed.
  Lemma pass2_measure morgan u1 sct u2 sct' gct : pass2 morgan u1 sct = Ok (u2, sct', gct) ->
    (List.length sct' <= List.length sct)%nat /\ (u2 = u1 \/ (List.length sct' < List.length sct)%nat).
  Proof.
    unfold pass2. destruct (negb _); [apply (ct_pass g tabs morgan)|]. intros H. inversion H. split; [lia | left; reflexivity].
  Qed.
  Lemma pass3_measure morgan u2 sal u3 sal' gal : pass3 morgan u2 sal = Ok (u3, sal', gal) ->
    (List.length sal' <= List.length sal)%nat /\ (u3 = u2 \/ (List.length sal' < List.length sal)%nat).
  Proof.
    unfold pass3. destruct (negb _); [apply al_pass|]. intros H. inversion H. split; [lia | left; reflexivity].
  Qed.

  Lemma differentiation_unfold fuel morgan sa sct sal trace :
    differentiation h g tabs (S fuel) morgan sa sct sal trace =
    match pass1 morgan sa with
    | Err e => Err e
    | Ok (u1, sa', ga) =>
        match pass2 morgan u1 sct with
        | Err e => Err e
        | Ok (u2, sct', gct) =>
            match pass3 morgan u2 sal with
            | Err e => Err e
            | Ok (u3, sal', gal) =>
                match u3 with
                | [] => Ok (mkD morgan sa' sct' sal' ga gct gal trace)
                | _ => let inp := merge_update morgan u3 in
                       match Morgan.morgan h inp (int_adjacency g) with
                       | Err e => Err e
                       | Ok morgan' => differentiation h g tabs fuel morgan' sa' sct' sal' (trace ++ [inp])
                       end
                end
            end
        end
    end.
  Proof. reflexivity. Qed.

  (* the measure: never grows; strictly decreases whenever the loop goes round again *)
  Lemma passes_measure morgan sa sct sal u1 sa' ga u2 sct' gct u3 sal' gal :
    pass1 morgan sa = Ok (u1, sa', ga) -> pass2 morgan u1 sct = Ok (u2, sct', gct) -> pass3 morgan u2 sal = Ok (u3, sal', gal) ->
    (mu sa' sct' sal' <= mu sa sct sal)%nat /\ (u3 <> [] -> (mu sa' sct' sal' < mu sa sct sal)%nat).
  Proof.
    intros H1 H2 H3. destruct (pass1_measure _ _ _ _ _ H1) as [L1 S1]. destruct (pass2_measure _ _ _ _ _ _ H2) as [L2 S2].
    destruct (pass3_measure _ _ _ _ _ _ H3) as [L3 S3]. unfold mu. split; [lia|]. intros Hne.
    destruct S3 as [E3|S3]; [|lia]. destruct S2 as [E2|S2]; [|lia]. destruct S1 as [E1|S1]; [|lia].
    subst. contradiction Hne. reflexivity.
  Qed.

  Theorem differentiation_fuel_irrelevant : forall fuel1 fuel2 morgan sa sct sal trace,
    (mu sa sct sal < fuel1)%nat -> (mu sa sct sal < fuel2)%nat ->
    differentiation h g tabs fuel1 morgan sa sct sal trace = differentiation h g tabs fuel2 morgan sa sct sal trace.
  Proof.
    induction fuel1 as [|f1 IH]; intros fuel2 morgan sa sct sal trace H1 H2; [lia|].
    destruct fuel2 as [|f2]; [lia|]. rewrite !differentiation_unfold.
    destruct (pass1 morgan sa) as [[[u1 sa'] ga]|e] eqn:P1; [|reflexivity].
    destruct (pass2 morgan u1 sct) as [[[u2 sct'] gct]|e] eqn:P2; [|reflexivity].
    destruct (pass3 morgan u2 sal) as [[[u3 sal'] gal]|e] eqn:P3; [|reflexivity].
    destruct (passes_measure _ _ _ _ _ _ _ _ _ _ _ _ _ P1 P2 P3) as [_ Hlt].
    destruct u3 as [|x u3]; [reflexivity|]. cbv zeta.
    destruct (Morgan.morgan h _ _); [|reflexivity].
    assert ((mu sa' sct' sal' < mu sa sct sal)%nat) as Hm by (apply Hlt; discriminate).
    apply IH; lia.
  Qed.

  (* what differentiation returns: the sets have not grown *)
  Theorem differentiation_sets_le : forall fuel morgan sa sct sal trace d,
    differentiation h g tabs fuel morgan sa sct sal trace = Ok d -> (mu (d_atoms d) (d_ct d) (d_al d) <= mu sa sct sal)%nat.
  Proof.
    induction fuel as [|f IH]; intros morgan sa sct sal trace d; [discriminate|]. rewrite differentiation_unfold.
    destruct (pass1 morgan sa) as [[[u1 sa'] ga]|e] eqn:P1; [|discriminate].
    destruct (pass2 morgan u1 sct) as [[[u2 sct'] gct]|e] eqn:P2; [|discriminate].
    destruct (pass3 morgan u2 sal) as [[[u3 sal'] gal]|e] eqn:P3; [|discriminate].
    destruct (passes_measure _ _ _ _ _ _ _ _ _ _ _ _ _ P1 P2 P3) as [Hle _].
    destruct u3 as [|x u3].
    - intros H. inversion H. cbn. exact Hle.
    - cbv zeta. destruct (Morgan.morgan h _ _); [|discriminate]. intros H. apply IH in H. lia.
  Qed.

  (* the outer loop of _chiral_morgan calls __differentiation again on the returned (smaller) sets: any inner fuel above the first
     measure is enough for every call *)
  Theorem chiral_loop_inner_fuel_irrelevant : forall fuel d1 d2 morgan sa sct sal trace,
    (mu sa sct sal < d1)%nat -> (mu sa sct sal < d2)%nat ->
    chiral_loop h g tabs fuel d1 morgan sa sct sal trace = chiral_loop h g tabs fuel d2 morgan sa sct sal trace.
  Proof.
    induction fuel as [|f IH]; intros d1 d2 morgan sa sct sal trace H1 H2; [reflexivity|].
    cbn [chiral_loop]. rewrite (differentiation_fuel_irrelevant d1 d2 morgan sa sct sal trace H1 H2).
    destruct (differentiation h g tabs d2 morgan sa sct sal trace) as [d|e] eqn:Hd; [|reflexivity].
    pose proof (differentiation_sets_le _ _ _ _ _ _ _ Hd) as Hle.
    destruct (d_ga d), (d_gct d), (d_gal d); try reflexivity;
      (destruct (Morgan.morgan h _ _); [|reflexivity]; apply IH; lia).
  Qed.

  Theorem chiral_morgan_inner_fuel_sufficient (ao : labels) (ord : cmorders) (extra : nat) :
    chiral_morgan h g tabs ao ord =
    if negb (has_stereo_labels g) then Ok (ao, [])
    else chiral_loop h g tabs (S (S (List.length (m_atoms g)))) (diff_fuel ord + extra) ao (o_atoms ord) (o_ct ord) (o_al ord) [].
  Proof.
    unfold chiral_morgan. destruct (negb (has_stereo_labels g)); [reflexivity|].
    apply chiral_loop_inner_fuel_irrelevant; unfold diff_fuel, mu; lia.
  Qed.
End Diff.
