(* C11: writer sessions (IO.__init__ / _RDFWrite.__init__): an RD file built over several sessions - created by path, then reopened
   by path with append=True any number of times - is the header once, followed by all the records in order; so the file theorems
   (which speak about header ++ records) apply to files with such a history. *)
From Coq Require Import ZArith List String Ascii Bool Lia.
From Model Require Import PyBase Mdl.
From Proofs Require Import MdlProofs.
Import ListNotations.
Open Scope Z_scope.
Local Notation length := List.length.
Local Notation concat := List.concat.

Lemma nonempty_true (s : str) : s <> [] -> nonempty s = true.
Proof. destruct s; [contradiction | reflexivity]. Qed.

(* appending by path to a non-empty file never writes a header *)
Lemma rdf_session_append stamp file s : file <> [] -> ss_buffer s = false -> ss_append s = true ->
  rdf_session stamp file s = file ++ concat (ss_records s).
Proof.
  intros Hf Hb Ha. unfold rdf_session, session_start, rdf_writes_header. rewrite Hb, Ha. cbv iota. rewrite (nonempty_true file Hf).
  cbn [negb orb]. destruct (ss_records s); reflexivity.
Qed.
(* creating the file by path (append or not: it is empty) writes the header before the first record *)
Lemma rdf_session_create stamp s : ss_buffer s = false -> ss_records s <> [] ->
  rdf_session stamp [] s = rdf_header_text stamp ++ concat (ss_records s).
Proof.
  intros Hb Hr. unfold rdf_session, session_start, rdf_writes_header. rewrite Hb.
  destruct (ss_append s); cbn [nonempty orb negb app]; destruct (ss_records s); try contradiction; reflexivity.
Qed.

Lemma rdf_appends stamp rest : forall file, file <> [] ->
  Forall (fun s => ss_buffer s = false /\ ss_append s = true) rest ->
  fold_left (rdf_session stamp) rest file = file ++ concat (concat (map ss_records rest)).
Proof.
  induction rest as [|s rest IH]; intros file Hf H; [cbn; rewrite app_nil_r; reflexivity|].
  inversion H as [|? ? [Hb Ha] H']; subst. cbn [fold_left map concat]. rewrite rdf_session_append by assumption.
  rewrite IH; [| intros E; apply app_eq_nil in E; destruct E; contradiction | exact H'].
  rewrite concat_app, app_assoc. reflexivity.
Qed.

Theorem rdf_append_history stamp first rest :
  ss_buffer first = false -> ss_records first <> [] ->
  Forall (fun s => ss_buffer s = false /\ ss_append s = true) rest ->
  rdf_sessions stamp (first :: rest) = rdf_header_text stamp ++ concat (concat (map ss_records (first :: rest))).
Proof.
  intros Hb Hr H. unfold rdf_sessions. cbn [fold_left]. rewrite rdf_session_create by assumption.
  rewrite rdf_appends; [| | exact H].
  - cbn [map concat]. rewrite concat_app, app_assoc. reflexivity.
  - unfold rdf_header_text. intros E. apply app_eq_nil in E. destruct E as [E _]. discriminate E.
Qed.

(* non-vacuity and the decision table of the header *)
Example rdf_header_table :
  (* (is_buffer, append, tell != 0) -> header? *)
  map (fun x => rdf_writes_header (fst (fst x)) (snd (fst x)) (snd x))
      [(false, false, false); (false, false, true); (false, true, false); (false, true, true);
       (true, false, false); (true, false, true); (true, true, false); (true, true, true)] =
      [true; true; true; false; true; true; false; false].
Proof. reflexivity. Qed.
Example rdf_append_history_example :
  rdf_sessions (L "01/01/01 00:00") [mk_session false false [L "A"; L "B"]; mk_session false true [L "C"]; mk_session false true []; mk_session false true [L "D"]] =
  L "$RDFILE 1" ++ [nl] ++ L "$DATM    01/01/01 00:00" ++ [nl] ++ L "ABCD".
Proof. reflexivity. Qed.
