(* C11: the key escapes of SDFWrite / ESDFWrite and SDFRead, for ALL keys without '&' (the bounded sweep sdf_key_escape_bounded made general) *)
From Coq Require Import ZArith List String Ascii Bool Lia.
From Model Require Import PyBase Mdl.
From Gen Require Import MdlTables.
From Proofs Require Import MdlProofs MdlMeta.
Import ListNotations.
Open Scope Z_scope.
Local Notation length := List.length.
Local Notation concat := List.concat.

Definition amp : ascii := "&"%char.
Definition gt : ascii := ">"%char.
Definition lt : ascii := "<"%char.

(* character-wise description of the two writer replacements and of the state after the first reader replacement *)
Definition esc_c (c : ascii) : str := if Ascii.eqb c gt then L "&gt;" else if Ascii.eqb c lt then L "&lt;" else [c].
Definition esc1_c (c : ascii) : str := if Ascii.eqb c lt then L "&lt;" else [c].
Definition E (s : str) : str := flat_map esc_c s.
Definition E1 (s : str) : str := flat_map esc1_c s.

(* ---- replace with a one-character pattern is a flat_map ---- *)
Lemma replace_fuel_char c new : forall s f, (length s < f)%nat ->
  replace_fuel f [c] new s = flat_map (fun d => if Ascii.eqb c d then new else [d]) s.
Proof.
  induction s as [|d s IH]; intros f Hf; destruct f as [|f]; try (cbn [length] in Hf; lia); [reflexivity|].
  cbn [replace_fuel startswith flat_map length skipn]. rewrite andb_true_r. destruct (Ascii.eqb c d).
  - rewrite IH by (cbn [length] in Hf; lia). reflexivity.
  - rewrite IH by (cbn [length] in Hf; lia). reflexivity.
Qed.
Lemma replace_char c new s : replace [c] new s = flat_map (fun d => if Ascii.eqb c d then new else [d]) s.
Proof. unfold replace. apply replace_fuel_char. lia. Qed.

Lemma flat_map_flat_map {X Y Z} (f : X -> list Y) (g : Y -> list Z) l : flat_map g (flat_map f l) = flat_map (fun x => flat_map g (f x)) l.
Proof. induction l as [|x l IH]; [reflexivity|]. cbn [flat_map]. rewrite flat_map_app, IH. reflexivity. Qed.

(* what the writers do to a key *)
Lemma write_escape_E k : fold_replace sdf_write_escape k = E k.
Proof.
  unfold fold_replace, sdf_write_escape. cbn [fold_left fst snd].
  change (L ">"%string) with [gt]. change (L "<"%string) with [lt]. rewrite !replace_char, flat_map_flat_map.
  unfold E. apply flat_map_ext. intros c. unfold esc_c.
  destruct (Ascii.eqb gt c) eqn:E1c.
  - apply Ascii.eqb_eq in E1c. subst c. reflexivity.
  - rewrite Ascii.eqb_sym, E1c. cbn [flat_map app]. rewrite app_nil_r. rewrite (Ascii.eqb_sym c lt). reflexivity.
Qed.
Lemma ewrite_escape_E k : fold_replace esdf_write_escape k = E k.
Proof.
  unfold fold_replace, esdf_write_escape. cbn [fold_left fst snd].
  change (L ">"%string) with [gt]. change (L "<"%string) with [lt]. rewrite !replace_char, flat_map_flat_map.
  unfold E. apply flat_map_ext. intros c. unfold esc_c.
  destruct (Ascii.eqb gt c) eqn:E1c.
  - apply Ascii.eqb_eq in E1c. subst c. reflexivity.
  - rewrite Ascii.eqb_sym, E1c. cbn [flat_map app]. rewrite app_nil_r. rewrite (Ascii.eqb_sym c lt). reflexivity.
Qed.

(* ---- the reader's replacements undo them when the key has no '&' ---- *)
Lemma E_length_cons c r : (length (E r) < length (E (c :: r)))%nat.
Proof. unfold E. cbn [flat_map]. rewrite app_length. unfold esc_c. destruct (Ascii.eqb c gt); [cbn; lia|]. destruct (Ascii.eqb c lt); cbn; lia. Qed.

Lemma unescape_gt : forall t f, ~ In amp t -> (length (E t) < f)%nat -> replace_fuel f (L "&gt;") [gt] (E t) = E1 t.
Proof.
  induction t as [|c r IH]; intros f Hn Hf; [destruct f; reflexivity|].
  assert (Hc : c <> amp) by (intros X; apply Hn; left; exact X).
  assert (Hr : ~ In amp r) by (intros X; apply Hn; right; exact X).
  unfold E, E1 in *. cbn [flat_map] in *. unfold esc_c at 1, esc1_c at 1. unfold esc_c at 1 in Hf. rewrite app_length in Hf.
  destruct (Ascii.eqb c gt) eqn:Eg.
  - apply Ascii.eqb_eq in Eg. subst c. change (Ascii.eqb gt lt) with false. cbv iota.
    change (length (L "&gt;")) with 4%nat in Hf. destruct f as [|f]; [lia|].
    change (replace_fuel (S f) (L "&gt;") [gt] (L "&gt;" ++ flat_map esc_c r)) with ([gt] ++ replace_fuel f (L "&gt;") [gt] (flat_map esc_c r)).
    rewrite IH by (try assumption; lia). reflexivity.
  - destruct (Ascii.eqb c lt) eqn:El.
    + apply Ascii.eqb_eq in El. subst c. change (length (L "&lt;")) with 4%nat in Hf.
      destruct f as [|[|[|[|f]]]]; try lia.
      change (replace_fuel (S (S (S (S f)))) (L "&gt;") [gt] (L "&lt;" ++ flat_map esc_c r))
        with (L "&lt;" ++ replace_fuel f (L "&gt;") [gt] (flat_map esc_c r)).
      rewrite IH by (try assumption; lia). reflexivity.
    + destruct f as [|f]; [lia|]. cbn [length app] in *.
      assert (S : startswith (L "&gt;") (c :: flat_map esc_c r) = false).
      { cbn [startswith L list_ascii_of_string]. destruct (Ascii.eqb "&" c) eqn:X; [apply Ascii.eqb_eq in X; subst c; exfalso; apply Hc; reflexivity | reflexivity]. }
      cbn [replace_fuel]. rewrite S. rewrite IH by (try assumption; lia). reflexivity.
Qed.

Lemma E1_length_cons c r : (length (E1 r) < length (E1 (c :: r)))%nat.
Proof. unfold E1. cbn [flat_map]. rewrite app_length. unfold esc1_c. destruct (Ascii.eqb c lt); cbn; lia. Qed.

Lemma unescape_lt : forall t f, ~ In amp t -> (length (E1 t) < f)%nat -> replace_fuel f (L "&lt;") [lt] (E1 t) = t.
Proof.
  induction t as [|c r IH]; intros f Hn Hf; [destruct f; reflexivity|].
  assert (Hc : c <> amp) by (intros X; apply Hn; left; exact X).
  assert (Hr : ~ In amp r) by (intros X; apply Hn; right; exact X).
  unfold E1 in *. cbn [flat_map] in *. unfold esc1_c at 1. unfold esc1_c at 1 in Hf. rewrite app_length in Hf.
  destruct (Ascii.eqb c lt) eqn:El.
  - apply Ascii.eqb_eq in El. subst c. change (length (L "&lt;")) with 4%nat in Hf. destruct f as [|f]; [lia|].
    change (replace_fuel (S f) (L "&lt;") [lt] (L "&lt;" ++ flat_map esc1_c r)) with ([lt] ++ replace_fuel f (L "&lt;") [lt] (flat_map esc1_c r)).
    rewrite IH by (try assumption; lia). reflexivity.
  - destruct f as [|f]; [lia|]. cbn [length app] in *.
    assert (S : startswith (L "&lt;") (c :: flat_map esc1_c r) = false).
    { cbn [startswith L list_ascii_of_string]. destruct (Ascii.eqb "&" c) eqn:X; [apply Ascii.eqb_eq in X; subst c; exfalso; apply Hc; reflexivity | reflexivity]. }
    cbn [replace_fuel]. rewrite S. rewrite IH by (try assumption; lia). reflexivity.
Qed.

Lemma read_escape_E t : ~ In amp t -> fold_replace sdf_read_escape (E t) = t.
Proof.
  intros Hn. unfold fold_replace, sdf_read_escape. cbn [fold_left fst snd].
  change (L ">"%string) with [gt]. change (L "<"%string) with [lt].
  unfold replace at 2. change (L "&gt;"%string) with ("&"%char :: L "gt;"). cbv iota. change ("&"%char :: L "gt;") with (L "&gt;").
  rewrite unescape_gt by (try assumption; lia).
  unfold replace. change (L "&lt;"%string) with ("&"%char :: L "lt;"). cbv iota. change ("&"%char :: L "lt;") with (L "&lt;").
  apply unescape_lt; [exact Hn | lia].
Qed.

(* ---- strip commutes with the escaping (blanks are not escaped; an escape neither starts nor ends with a blank) ---- *)
Lemma space_not_escaped c : is_space c = true -> esc_c c = [c].
Proof.
  intros H. unfold esc_c. destruct (Ascii.eqb c gt) eqn:A; [apply Ascii.eqb_eq in A; subst c; discriminate H|].
  destruct (Ascii.eqb c lt) eqn:B; [apply Ascii.eqb_eq in B; subst c; discriminate H | reflexivity].
Qed.
Lemma lstrip_flat (g : ascii -> str) :
  (forall c, is_space c = true -> g c = [c]) ->
  (forall c, is_space c = false -> exists d r, g c = d :: r /\ is_space d = false) ->
  forall s, lstrip_by is_space (flat_map g s) = flat_map g (lstrip_by is_space s).
Proof.
  intros G1 G2. induction s as [|c r IH]; [reflexivity|]. cbn [flat_map lstrip_by]. destruct (is_space c) eqn:Sc.
  - rewrite (G1 c Sc). cbn [app lstrip_by]. rewrite Sc. exact IH.
  - destruct (G2 c Sc) as [d [r' [Eg Sd]]]. rewrite Eg. cbn [app lstrip_by flat_map]. rewrite Sd. rewrite Eg. reflexivity.
Qed.
Lemma rev_flat_map {X Y} (f : X -> list Y) l : rev (flat_map f l) = flat_map (fun x => rev (f x)) (rev l).
Proof.
  induction l as [|x l IH]; [reflexivity|]. cbn [flat_map rev]. rewrite rev_app_distr, IH, flat_map_app. cbn [flat_map]. rewrite app_nil_r. reflexivity.
Qed.
Lemma esc_c_head c : is_space c = false -> exists d r, esc_c c = d :: r /\ is_space d = false.
Proof.
  intros H. unfold esc_c. destruct (Ascii.eqb c gt); [eexists; eexists; split; reflexivity|].
  destruct (Ascii.eqb c lt); [eexists; eexists; split; reflexivity|]. exists c, []. split; [reflexivity | exact H].
Qed.
Lemma esc_c_last c : is_space c = false -> exists d r, rev (esc_c c) = d :: r /\ is_space d = false.
Proof.
  intros H. unfold esc_c. destruct (Ascii.eqb c gt); [eexists; eexists; split; reflexivity|].
  destruct (Ascii.eqb c lt); [eexists; eexists; split; reflexivity|]. exists c, []. split; [reflexivity | exact H].
Qed.
Lemma strip_E s : strip (E s) = E (strip s).
Proof.
  unfold strip, strip_by, rstrip_by, E.
  rewrite (lstrip_flat esc_c space_not_escaped esc_c_head).
  rewrite rev_flat_map.
  rewrite (lstrip_flat (fun x => rev (esc_c x))); [| intros c H; rewrite (space_not_escaped c H); reflexivity | exact esc_c_last].
  rewrite rev_flat_map. apply flat_map_ext. intros c. apply rev_involutive.
Qed.

Lemma strip_sublist s : forall c, In c (strip s) -> In c s.
Proof.
  assert (L1 : forall f t c, In c (lstrip_by f t) -> In c t).
  { intros f. induction t as [|d t IH]; intros c H; [exact H|]. cbn [lstrip_by] in H. destruct (f d); [right; apply IH; exact H | exact H]. }
  intros c H. unfold strip, strip_by, rstrip_by in H. apply in_rev in H. apply L1 in H. apply in_rev in H. apply L1 in H. exact H.
Qed.

(* sdf_key_escape: for EVERY key without '&' the reader reconstructs the stripped key from what SDFWrite / ESDFWrite wrote *)
Theorem sdf_key_escape_no_amp k : ~ In amp k -> sdf_key_back sdf_write_escape k = strip k /\ sdf_key_back esdf_write_escape k = strip k.
Proof.
  intros H. unfold sdf_key_back. rewrite write_escape_E, ewrite_escape_E, strip_E.
  assert (Hs : ~ In amp (strip k)) by (intros X; apply H; apply strip_sublist; exact X).
  rewrite (read_escape_E _ Hs). split; reflexivity.
Qed.

(* and the escaped key line is well formed: no '>' / '<' survive in it *)
Lemma E_no_angle k : ~ In gt (E k) /\ ~ In lt (E k).
Proof.
  unfold E. split; intros H; apply in_flat_map in H; destruct H as [c [_ H]]; unfold esc_c in H;
    destruct (Ascii.eqb c gt) eqn:A; try (cbn in H; repeat (destruct H as [H|H]; [discriminate H|]); exact H);
    destruct (Ascii.eqb c lt) eqn:B; try (cbn in H; repeat (destruct H as [H|H]; [discriminate H|]); exact H);
    cbn in H; destruct H as [H|H]; try exact H; subst c; (rewrite ascii_eqb_refl in A || rewrite ascii_eqb_refl in B); discriminate.
Qed.

Example sdf_key_escape_example :
  ~ In amp (L " a>b <c> ") /\ sdf_key_back sdf_write_escape (L " a>b <c> ") = L "a>b <c>".
Proof. split; [cbn; intros X; repeat (destruct X as [X|X]; [discriminate|]); exact X | vm_compute; reflexivity]. Qed.

(* ---- consequence for the metadata theorem: with keys free of '&' and newline the conditions are on the RAW key and the
        dictionary comes back under the stripped keys (the same specification as for RDF) ---- *)
Lemma E_no_nl k : ~ In nl k -> ~ In nl (E k).
Proof.
  intros Hk H. unfold E in H. apply in_flat_map in H. destruct H as [c [Hc H]]. unfold esc_c in H.
  destruct (Ascii.eqb c gt); [cbn in H; repeat (destruct H as [H|H]; [discriminate H|]); exact H|].
  destruct (Ascii.eqb c lt); [cbn in H; repeat (destruct H as [H|H]; [discriminate H|]); exact H|].
  cbn in H. destruct H as [H|H]; [subst c; exact (Hk Hc) | exact H].
Qed.

Definition sdf_entry_plain (e : str * list str) : Prop :=
  ~ In amp (fst e) /\ ~ In nl (fst e) /\ strip (fst e) <> [] /\
  snd e <> [] /\ Forall (fun l => ~ In nl l) (snd e) /\ Forall (fun l => meta_match (add_nl l) = None) (snd e).

Lemma sdf_entry_plain_ok e : sdf_entry_plain e -> sdf_entry_ok sdf_write_escape e /\ sdf_key_back sdf_write_escape (fst e) = strip (fst e).
Proof.
  intros [H1 [H2 [H3 [H4 [H5 H6]]]]]. destruct (sdf_key_escape_no_amp (fst e) H1) as [K _]. split; [|exact K].
  unfold sdf_entry_ok. cbv zeta. rewrite write_escape_E. destruct (E_no_angle (fst e)) as [A B].
  repeat split; try assumption.
  - apply E_no_nl. exact H2.
  - rewrite K. exact H3.
Qed.

Theorem sdf_meta_roundtrip_plain entries : Forall sdf_entry_plain entries ->
  sdf_read_metadata (readlines (sdf_meta_text sdf_write_escape (meta_of entries))) = meta_spec entries.
Proof.
  intros H. rewrite sdf_meta_roundtrip_normalised.
  - unfold sdf_meta_spec, meta_spec. f_equal. generalize (@nil (str * list str)).
    induction H as [|e entries He _ IH]; intros d; [reflexivity|]. cbn [fold_left].
    rewrite (proj2 (sdf_entry_plain_ok e He)). apply IH.
  - eapply Forall_impl; [|exact H]. intros e He. apply (proj1 (sdf_entry_plain_ok e He)).
Qed.
