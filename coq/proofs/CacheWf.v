(* C13 -- every primitive of Model.Cache keeps one molecule well formed (symmetric aliased adjacency over the atoms,
   _changed within the atoms) and touches only its own bond objects (frame). *)
From Coq Require Import ZArith List Bool Lia.
From Model Require Import PyBase Cache.
From Proofs Require Import CacheProofs.
Import ListNotations.
Open Scope Z_scope.

(* _changed names existing atoms only *)
Definition cw (o : mobj) : Prop := forall l, o_changed o = Some l -> forall x, In x l -> In x (keys (o_atoms o)).
Definition inv1 (h : hp) (o : mobj) : Prop := wf h o /\ cw o.

(* what an action on molecule o may do to the heap: allocate, and write cells o refers to *)
Definition fine (h : hp) (o : mobj) (h' : hp) (o' : mobj) : Prop :=
  heap_le h h' /\
  (forall r, r < h_next h -> ~ In r (arefs (o_adj o)) -> hget h' r = hget h r) /\
  (forall r, In r (arefs (o_adj o')) -> In r (arefs (o_adj o)) \/ h_next h <= r) /\
  o_backup o' = o_backup o.

Lemma fine_refl h o : fine h o h o.
Proof. repeat split; auto using heap_le_refl. lia. Qed.
Lemma fine_same h o o' : o_adj o' = o_adj o -> o_backup o' = o_backup o -> fine h o h o'.
Proof. intros A B. repeat split; auto; try lia. rewrite A. auto. Qed.
Lemma fine_trans h o h1 o1 h2 o2 : fine h o h1 o1 -> fine h1 o1 h2 o2 -> fine h o h2 o2.
Proof.
  intros [L1 [U1 [R1 B1]]] [L2 [U2 [R2 B2]]]. split; [eapply heap_le_trans; eauto|]. split; [|split].
  - intros r Hr Hn. rewrite U2, U1; auto.
    + destruct L1. lia.
    + intros Hi. apply R1 in Hi. destruct Hi; [contradiction | lia].
  - intros r Hi. apply R2 in Hi. destruct Hi as [Hi|Hi]; [auto|]. right. destruct L1. lia.
  - congruence.
Qed.

Definition good (P : hp -> mobj -> Prop) (a : act) (Q : hp -> mobj -> Prop) : Prop :=
  forall h o, P h o -> match a h o with (h', o', _) => Q h' o' /\ fine h o h' o' end.
Definition good1 (a : act) : Prop := good inv1 a inv1.

Lemma good_seq (P Q R : hp -> mobj -> Prop) a b :
  good P a Q -> good Q b R -> (forall h o, Q h o -> R h o) -> good P (a ;; b) R.
Proof.
  intros A B QR h o HP. unfold seq. specialize (A h o HP). destruct (a h o) as [[h1 o1] [e|]].
  - destruct A. split; auto.
  - destruct A as [HQ F1]. specialize (B h1 o1 HQ). destruct (b h1 o1) as [[h2 o2] e2]. destruct B. split; [assumption|].
    eapply fine_trans; eauto.
Qed.
Lemma good1_seq a b : good1 a -> good1 b -> good1 (a ;; b).
Proof. intros. eapply good_seq; eauto. Qed.
Lemma good_weaken (P P' Q Q' : hp -> mobj -> Prop) a :
  good P a Q -> (forall h o, P' h o -> P h o) -> (forall h o, Q h o -> Q' h o) -> good P' a Q'.
Proof. intros A PP QQ h o H. specialize (A h o (PP _ _ H)). destruct (a h o) as [[h1 o1] e]. destruct A. split; auto. Qed.
Lemma good1_ok : good1 ok.
Proof. intros h o H. cbn. split; [assumption | apply fine_refl]. Qed.
Lemma good1_raise e : good1 (raise e).
Proof. intros h o H. cbn. split; [assumption | apply fine_refl]. Qed.

(* ---- actions that change neither atoms' keys, nor the adjacency, nor the heap *)
Lemma inv1_same h o o' :
  inv1 h o -> o_adj o' = o_adj o -> keys (o_atoms o') = keys (o_atoms o) -> o_changed o' = o_changed o -> inv1 h o'.
Proof.
  intros [W C] A K Ch. split.
  - unfold wf in *. rewrite A. eapply wfa_atoms; eauto.
  - intros l Hl x Hx. rewrite K. rewrite Ch in Hl. eapply C; eauto.
Qed.

Lemma flush_good ks kc : good1 (flush ks kc).
Proof. intros h o H. cbn. split; [eapply inv1_same; eauto | now apply fine_same]. Qed.
Lemma read_good k : good1 (read k).
Proof. intros h o H. cbn. split; [eapply inv1_same; eauto | now apply fine_same]. Qed.
Lemma fix_stereo_good : good1 fix_stereo.
Proof. apply read_good. Qed.

Lemma In_sadd x y l : In x (sadd y l) <-> x = y \/ In x l.
Proof.
  induction l as [|z r IH]; cbn; [intuition|].
  destruct (y <? z); [cbn; intuition|]. destruct (Z.eqb_spec y z); cbn; [subst; intuition|].
  rewrite IH. intuition.
Qed.
Lemma In_fold_sadd x ns l : In x (fold_right sadd l ns) <-> In x ns \/ In x l.
Proof. induction ns as [|y r IH]; cbn; [intuition|]. rewrite In_sadd, IH. intuition. Qed.

Lemma mark_changed_good ns :
  good (fun h o => inv1 h o /\ forall x, In x ns -> In x (keys (o_atoms o))) (mark_changed ns) inv1.
Proof.
  intros h o [[W C] N]. unfold mark_changed. destruct (o_changed o) eqn:E; cbn.
  - split; [|now apply fine_same]. split; [exact W|]. intros l' Hl x Hx. cbn in Hl. inversion Hl; subst.
    apply In_fold_sadd in Hx. destruct Hx; [auto | eapply C; eauto].
  - split; [|now apply fine_same]. split; [exact W|]. intros l' Hl x Hx. cbn in Hl. inversion Hl; subst.
    apply In_fold_sadd in Hx. destruct Hx as [Hx|[]]; auto.
Qed.
Lemma discard_changed_good n : good1 (discard_changed n).
Proof.
  intros h o [W C]. cbn. split; [|now apply fine_same]. split; [exact W|]. intros l Hl x Hx. cbn in *.
  destruct (o_changed o) eqn:E; [|discriminate]. inversion Hl; subst. apply filter_In in Hx. eapply C; eauto. tauto.
Qed.
Lemma set_changed_none_good : good1 (fun h o => ok h (set_changed o None)).
Proof. intros h o [W C]. cbn. split; [|now apply fine_same]. split; [exact W|]. intros l Hl. discriminate. Qed.
Lemma unless_transaction_good a : good1 a -> good1 (unless_transaction a).
Proof.
  intros A h o H. unfold unless_transaction. destruct (o_backup o); [|apply A; assumption].
  cbn. split; [assumption | apply fine_refl].
Qed.

(* ---- calc_labels / calc_implicit: atoms' values and bond labels only *)
Lemma mark_row_spec r : forall h,
  heap_le h (mark_row h r) /\ h_next (mark_row h r) = h_next h /\
  (forall x, ~ In x (map snd r) -> hget (mark_row h r) x = hget h x) /\
  (forall x, option_map b_ord (hget (mark_row h r) x) = option_map b_ord (hget h x)).
Proof.
  induction r as [|[m rf] t IH]; intros h; cbn.
  - repeat split; auto using heap_le_refl.
  - destruct (hget h rf) as [c|] eqn:E.
    + destruct (IH (hset h rf (mkB (b_ord c) true))) as [L [N [U O]]]. split; [|split; [|split]].
      * eapply heap_le_trans; [eapply heap_le_hset; eauto | exact L].
      * rewrite N. apply hnext_hset.
      * intros x Hx. rewrite U by tauto. rewrite hget_hset. destruct (Z.eqb_spec x rf); [subst; tauto | reflexivity].
      * intros x. rewrite O, hget_hset. destruct (Z.eqb_spec x rf); [subst; now rewrite E | reflexivity].
    + destruct (IH h) as [L [N [U O]]]. repeat split; auto. intros x Hx. apply U. tauto.
Qed.

(* nothing but atoms' values (same keys) and the cells of this molecule's bonds changed *)
Definition same_struct (o o' : mobj) : Prop :=
  o_adj o' = o_adj o /\ keys (o_atoms o') = keys (o_atoms o) /\ o_backup o' = o_backup o /\ o_changed o' = o_changed o /\
  o_cache o' = o_cache o /\ o_name o' = o_name o /\ o_meta o' = o_meta o.
Lemma same_struct_refl o : same_struct o o.
Proof. repeat split. Qed.
Lemma same_struct_trans a b c : same_struct a b -> same_struct b c -> same_struct a c.
Proof. unfold same_struct. intuition congruence. Qed.

Definition relabel (h : hp) (o : mobj) (h' : hp) (o' : mobj) : Prop :=
  same_struct o o' /\ heap_le h h' /\ h_next h' = h_next h /\
  (forall x, ~ In x (arefs (o_adj o)) -> hget h' x = hget h x) /\
  (forall x, option_map b_ord (hget h' x) = option_map b_ord (hget h x)).
Lemma relabel_refl h o : relabel h o h o.
Proof. split; [apply same_struct_refl|]. repeat split; auto using heap_le_refl. Qed.
Lemma relabel_trans h o h1 o1 h2 o2 : relabel h o h1 o1 -> relabel h1 o1 h2 o2 -> relabel h o h2 o2.
Proof.
  intros [S1 [L1 [N1 [U1 O1]]]] [S2 [L2 [N2 [U2 O2]]]]. split; [eapply same_struct_trans; eauto|].
  split; [eapply heap_le_trans; eauto|]. split; [congruence|]. split.
  - intros x Hx. rewrite U2, U1; auto. destruct S1 as [A _]. now rewrite A.
  - intros x. now rewrite O2, O1.
Qed.
Lemma relabel_inv1 h o h' o' : relabel h o h' o' -> inv1 h o -> inv1 h' o' /\ fine h o h' o'.
Proof.
  intros [[A [K [B [C _]]]] [L [N [U O]]]] H. split.
  - assert (inv1 h o') as [W Cw] by (eapply inv1_same; eauto). split; [|exact Cw]. eapply wfa_heap; eauto.
  - split; [exact L|]. split; [intros; now apply U|]. split; [rewrite A; auto | exact B].
Qed.
Definition relabels (a : act) : Prop := forall h o, match a h o with (h', o', _) => relabel h o h' o' end.
Lemma relabels_seq a b : relabels a -> relabels b -> relabels (a ;; b).
Proof.
  intros A B h o. unfold seq. specialize (A h o). destruct (a h o) as [[h1 o1] [e|]]; [assumption|].
  specialize (B h1 o1). destruct (b h1 o1) as [[h2 o2] e2]. eapply relabel_trans; eauto.
Qed.
Lemma relabels_good a : relabels a -> good1 a.
Proof. intros A h o H. specialize (A h o). destruct (a h o) as [[h1 o1] e]. eapply relabel_inv1; eauto. Qed.

Lemma keys_zset_same {V} (d : list (Z * V)) k v v0 : zget d k = Some v0 -> keys (zset d k v) = keys d.
Proof. intros H. apply keys_zset_in. eapply zget_In_keys; eauto. Qed.

Lemma label_rows_relabels rows : forall h o, incl (arefs rows) (arefs (o_adj o)) ->
  match label_rows rows h o with (h', o', _) => relabel h o h' o' end.
Proof.
  induction rows as [|[n r] t IH]; intros h o I; cbn.
  - apply relabel_refl.
  - destruct (lenv_of_row h (o_atoms o) r) as [l|e]; [|apply relabel_refl].
    destruct (zget (o_atoms o) n) as [a|] eqn:E; [|apply relabel_refl].
    set (o1 := set_atoms o _). set (h1 := mark_row h r).
    assert (relabel h o h1 o1) as R1.
    { destruct (mark_row_spec r h) as [L [N [U O]]]. split.
      - unfold o1, same_struct; cbn. repeat split. eapply keys_zset_same; eauto.
      - repeat split; auto. intros x Hx. apply U. intros Hi. apply Hx. apply I. rewrite (arefs_app [(n, r)] t).
        apply in_or_app. left. unfold arefs, refs_of_adj. cbn. now rewrite app_nil_r. }
    specialize (IH h1 o1). assert (incl (arefs t) (arefs (o_adj o1))) as I1.
    { intros x Hx. apply I. rewrite (arefs_app [(n, r)] t). apply in_or_app. now right. }
    specialize (IH I1). destruct (label_rows t h1 o1) as [[h2 o2] e2]. eapply relabel_trans; eauto.
Qed.
Lemma read_relabels_not k : forall h o, match read k h o with (h', o', _) => h' = h /\ o_adj o' = o_adj o /\ o_atoms o' = o_atoms o /\
  o_backup o' = o_backup o /\ o_changed o' = o_changed o /\ o_name o' = o_name o /\ o_meta o' = o_meta o end.
Proof. intros h o. cbn. repeat split. Qed.

Lemma calc_labels_good : good1 calc_labels.
Proof.
  unfold calc_labels. apply good1_seq; [apply read_good|]. apply good1_seq; [apply read_good|].
  apply relabels_good. intros h o. apply label_rows_relabels. apply incl_refl.
Qed.
Lemma calc_implicit_relabels n : relabels (calc_implicit n).
Proof.
  intros h o. unfold calc_implicit. destruct (zget (o_atoms o) n) as [a|] eqn:E; [|apply relabel_refl].
  destruct (zget (o_adj o) n); [|apply relabel_refl]. destruct (lenv_of_row h (o_atoms o) l); [|apply relabel_refl].
  cbn. split; [|repeat split; auto using heap_le_refl]. unfold same_struct; cbn. repeat split. eapply keys_zset_same; eauto.
Qed.
Lemma calc_implicit_all_relabels ns : relabels (calc_implicit_all ns).
Proof.
  induction ns as [|n t IH]; cbn; [intros h o; apply relabel_refl|]. apply relabels_seq; [apply calc_implicit_relabels | exact IH].
Qed.
Lemma fix_structure_good : good1 fix_structure.
Proof.
  unfold fix_structure. apply good1_seq; [apply calc_labels_good|]. apply good1_seq; [|apply set_changed_none_good].
  apply relabels_good. intros h o. destruct (o_changed o) as [[|x l]|]; apply calc_implicit_all_relabels.
Qed.
Lemma fix_both_good : good1 (fix_structure ;; fix_stereo).
Proof. apply good1_seq; [apply fix_structure_good | apply fix_stereo_good]. Qed.
