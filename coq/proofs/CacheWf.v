(* C13 -- every primitive of Model.Cache keeps one molecule well formed (symmetric aliased adjacency over the atoms,
   _changed within the atoms) and touches only its own bond objects (frame). *)
From Coq Require Import ZArith List Bool Lia.
From Model Require Import PyBase Cache.
From Proofs Require Import CacheProofs.
Import ListNotations.
Open Scope Z_scope.

Ltac simpo := cbn [o_atoms o_adj o_cache o_changed o_backup o_name o_meta set_adj set_atoms set_cache set_changed set_backup
                    set_name set_meta] in *.

(* _changed names existing atoms only *)
Definition cw (o : mobj) : Prop := forall l, o_changed o = Some l -> forall x, In x l -> In x (keys (o_atoms o)).
Definition inv1 (h : hp) (o : mobj) : Prop := wf h o /\ cw o.

(* what an action on molecule o may do to the heap: allocate, and write cells o refers to *)
Definition fine (h : hp) (o : mobj) (h' : hp) (o' : mobj) : Prop :=
  heap_le h h' /\
  (forall r, r < h_next h -> ~ In r (arefs (o_adj o)) -> hget h' r = hget h r) /\
  (forall r, In r (arefs (o_adj o')) -> In r (arefs (o_adj o)) \/ h_next h <= r) /\
  o_backup o' = o_backup o.

Lemma fine_refl h o : fine h o h o.
Proof. split; [apply heap_le_refl|]. split; [reflexivity|]. split; [auto | reflexivity]. Qed.
Lemma fine_same h o o' : o_adj o' = o_adj o -> o_backup o' = o_backup o -> fine h o h o'.
Proof. intros A B. split; [apply heap_le_refl|]. split; [reflexivity|]. split; [rewrite A; auto | exact B]. Qed.
Lemma fine_trans h o h1 o1 h2 o2 : fine h o h1 o1 -> fine h1 o1 h2 o2 -> fine h o h2 o2.
Proof.
  intros [L1 [U1 [R1 B1]]] [L2 [U2 [R2 B2]]]. split; [eapply heap_le_trans; eauto|]. split; [|split].
  - intros r Hr Hn. rewrite U2, U1; auto.
    + destruct L1. lia.
    + intros Hi. apply R1 in Hi. destruct Hi; [contradiction | lia].
  - intros r Hi. apply R2 in Hi. destruct Hi as [Hi|Hi]; [auto|]. right. destruct L1. lia.
  - congruence.
Qed.

Definition good (P : hp -> mobj -> Prop) (a : act) (Q : hp -> mobj -> Prop) : Prop :=
  forall h o, P h o -> match a h o with (h', o', _) => Q h' o' /\ fine h o h' o' end.
Definition good1 (a : act) : Prop := good inv1 a inv1.

Lemma good_seq (P Q R : hp -> mobj -> Prop) a b :
  good P a Q -> good Q b R -> (forall h o, Q h o -> R h o) -> good P (a ;; b) R.
Proof.
  intros A B QR h o HP. unfold seq. specialize (A h o HP). destruct (a h o) as [[h1 o1] [e|]].
  - destruct A. split; auto.
  - destruct A as [HQ F1]. specialize (B h1 o1 HQ). destruct (b h1 o1) as [[h2 o2] e2]. destruct B. split; [assumption|].
    eapply fine_trans; eauto.
Qed.
Lemma good1_seq a b : good1 a -> good1 b -> good1 (a ;; b).
Proof. intros. eapply good_seq; eauto. Qed.
Lemma good_weaken (P P' Q Q' : hp -> mobj -> Prop) a :
  good P a Q -> (forall h o, P' h o -> P h o) -> (forall h o, Q h o -> Q' h o) -> good P' a Q'.
Proof. intros A PP QQ h o H. specialize (A h o (PP _ _ H)). destruct (a h o) as [[h1 o1] e]. destruct A. split; auto. Qed.
Lemma good1_ok : good1 ok.
Proof. intros h o H. cbn. split; [assumption | apply fine_refl]. Qed.
Lemma good1_raise e : good1 (raise e).
Proof. intros h o H. cbn. split; [assumption | apply fine_refl]. Qed.

(* ---- actions that change neither atoms' keys, nor the adjacency, nor the heap *)
Lemma inv1_same h o o' :
  inv1 h o -> o_adj o' = o_adj o -> keys (o_atoms o') = keys (o_atoms o) -> o_changed o' = o_changed o -> inv1 h o'.
Proof.
  intros [W C] A K Ch. split.
  - unfold wf in *. rewrite A. eapply wfa_atoms; eauto.
  - intros l Hl x Hx. rewrite K. rewrite Ch in Hl. eapply C; eauto.
Qed.

Lemma flush_good ks kc : good1 (flush ks kc).
Proof. intros h o H. cbn. split; [eapply inv1_same; eauto | now apply fine_same]. Qed.
Lemma read_good k : good1 (read k).
Proof. intros h o H. cbn. split; [eapply inv1_same; eauto | now apply fine_same]. Qed.
Lemma fix_stereo_good : good1 fix_stereo.
Proof. apply read_good. Qed.

Lemma In_sadd x y l : In x (sadd y l) <-> x = y \/ In x l.
Proof.
  induction l as [|z r IH]; cbn; [intuition|].
  destruct (y <? z); [cbn; intuition|]. destruct (Z.eqb_spec y z); cbn; [subst; intuition|].
  rewrite IH. intuition.
Qed.
Lemma In_fold_sadd x ns l : In x (fold_right sadd l ns) <-> In x ns \/ In x l.
Proof. induction ns as [|y r IH]; cbn; [intuition|]. rewrite In_sadd, IH. intuition. Qed.

Lemma mark_changed_good ns :
  good (fun h o => inv1 h o /\ forall x, In x ns -> In x (keys (o_atoms o))) (mark_changed ns) inv1.
Proof.
  intros h o [[W C] N]. unfold mark_changed. destruct (o_changed o) eqn:E; cbn.
  - split; [|now apply fine_same]. split; [exact W|]. intros l' Hl x Hx. cbn in Hl. inversion Hl; subst.
    apply In_fold_sadd in Hx. cbn. destruct Hx as [Hx|Hx]; [now apply N | eapply C; eauto].
  - split; [|now apply fine_same]. split; [exact W|]. intros l' Hl x Hx. cbn in Hl. inversion Hl; subst.
    apply In_fold_sadd in Hx. cbn. destruct Hx as [Hx|[]]. now apply N.
Qed.
Lemma discard_changed_good n : good1 (discard_changed n).
Proof.
  intros h o [W C]. cbn. split; [|now apply fine_same]. split; [exact W|]. intros l Hl x Hx. cbn in *.
  destruct (o_changed o) eqn:E; [|discriminate]. inversion Hl; subst. apply filter_In in Hx. eapply C; eauto. tauto.
Qed.
Lemma set_changed_none_good : good1 (fun h o => ok h (set_changed o None)).
Proof. intros h o [W C]. cbn. split; [|now apply fine_same]. split; [exact W|]. intros l Hl. discriminate. Qed.
Lemma unless_transaction_good a : good1 a -> good1 (unless_transaction a).
Proof.
  intros A h o H. unfold unless_transaction. destruct (o_backup o); [|apply A; assumption].
  cbn. split; [assumption | apply fine_refl].
Qed.

(* ---- calc_labels / calc_implicit: atoms' values and bond labels only *)
Lemma mark_row_spec r : forall h,
  heap_le h (mark_row h r) /\ h_next (mark_row h r) = h_next h /\
  (forall x, ~ In x (map snd r) -> hget (mark_row h r) x = hget h x) /\
  (forall x, option_map b_ord (hget (mark_row h r) x) = option_map b_ord (hget h x)).
Proof.
  induction r as [|[m rf] t IH]; intros h; cbn.
  - split; [apply heap_le_refl | auto].
  - destruct (hget h rf) as [c|] eqn:E.
    + destruct (IH (hset h rf (mkB (b_ord c) true))) as [L [N [U O]]]. split; [|split; [|split]].
      * eapply heap_le_trans; [eapply heap_le_hset; eauto | exact L].
      * rewrite N. apply hnext_hset.
      * intros x Hx. rewrite U by tauto. rewrite hget_hset. destruct (Z.eqb_spec x rf); [subst; tauto | reflexivity].
      * intros x. rewrite O, hget_hset. destruct (Z.eqb_spec x rf); [subst; now rewrite E | reflexivity].
    + destruct (IH h) as [L [N [U O]]]. split; [exact L|]. split; [exact N|]. split; [|exact O]. intros x Hx. apply U. tauto.
Qed.

(* nothing but atoms' values (same keys) and the cells of this molecule's bonds changed *)
Definition same_struct (o o' : mobj) : Prop :=
  o_adj o' = o_adj o /\ keys (o_atoms o') = keys (o_atoms o) /\ o_backup o' = o_backup o /\ o_changed o' = o_changed o /\
  o_cache o' = o_cache o /\ o_name o' = o_name o /\ o_meta o' = o_meta o.
Lemma same_struct_refl o : same_struct o o.
Proof. repeat split. Qed.
Lemma same_struct_trans a b c : same_struct a b -> same_struct b c -> same_struct a c.
Proof. unfold same_struct. intuition congruence. Qed.

Definition relabel (h : hp) (o : mobj) (h' : hp) (o' : mobj) : Prop :=
  same_struct o o' /\ heap_le h h' /\ h_next h' = h_next h /\
  (forall x, ~ In x (arefs (o_adj o)) -> hget h' x = hget h x) /\
  (forall x, option_map b_ord (hget h' x) = option_map b_ord (hget h x)).
Lemma relabel_refl h o : relabel h o h o.
Proof. split; [apply same_struct_refl|]. split; [apply heap_le_refl | auto]. Qed.
Lemma relabel_trans h o h1 o1 h2 o2 : relabel h o h1 o1 -> relabel h1 o1 h2 o2 -> relabel h o h2 o2.
Proof.
  intros [S1 [L1 [N1 [U1 O1]]]] [S2 [L2 [N2 [U2 O2]]]]. split; [eapply same_struct_trans; eauto|].
  split; [eapply heap_le_trans; eauto|]. split; [congruence|]. split.
  - intros x Hx. rewrite U2, U1; auto. destruct S1 as [A _]. now rewrite A.
  - intros x. now rewrite O2, O1.
Qed.
Lemma relabel_inv1 h o h' o' : relabel h o h' o' -> inv1 h o -> inv1 h' o' /\ fine h o h' o'.
Proof.
  intros [[A [K [B [C _]]]] [L [N [U O]]]] H. split.
  - assert (inv1 h o') as [W Cw] by (eapply inv1_same; eauto). split; [|exact Cw]. eapply wfa_heap; eauto.
  - split; [exact L|]. split; [intros; now apply U|]. split; [rewrite A; auto | exact B].
Qed.
Definition relabels (a : act) : Prop := forall h o, match a h o with (h', o', _) => relabel h o h' o' end.
Lemma relabels_seq a b : relabels a -> relabels b -> relabels (a ;; b).
Proof.
  intros A B h o. unfold seq. specialize (A h o). destruct (a h o) as [[h1 o1] [e|]]; [assumption|].
  specialize (B h1 o1). destruct (b h1 o1) as [[h2 o2] e2]. eapply relabel_trans; eauto.
Qed.
Lemma relabels_good a : relabels a -> good1 a.
Proof. intros A h o H. specialize (A h o). destruct (a h o) as [[h1 o1] e]. eapply relabel_inv1; eauto. Qed.

Lemma keys_zset_same {V} (d : list (Z * V)) k v v0 : zget d k = Some v0 -> keys (zset d k v) = keys d.
Proof. intros H. apply keys_zset_in. eapply zget_In_keys; eauto. Qed.

Lemma arefs_cons n (r : list (Z * ref)) t : arefs ((n, r) :: t) = map snd r ++ arefs t.
Proof. reflexivity. Qed.
Lemma label_rows_relabels rows : forall h o, incl (arefs rows) (arefs (o_adj o)) ->
  match label_rows rows h o with (h', o', _) => relabel h o h' o' end.
Proof.
  induction rows as [|[n r] t IH]; intros h o I; cbn.
  - apply relabel_refl.
  - destruct (lenv_of_row h (o_atoms o) r) as [l|e]; [|apply relabel_refl].
    destruct (zget (o_atoms o) n) as [a|] eqn:E; [|apply relabel_refl].
    set (o1 := set_atoms o _). set (h1 := mark_row h r).
    assert (relabel h o h1 o1) as R1.
    { destruct (mark_row_spec r h) as [L [N [U O]]]. split.
      - unfold o1, same_struct; cbn. repeat split. eapply keys_zset_same; eauto.
      - split; [exact L|]. split; [exact N|]. split; [|exact O]. intros x Hx. apply U. intros Hi. apply Hx. apply I. rewrite arefs_cons.
        apply in_or_app. now left. }
    specialize (IH h1 o1). assert (incl (arefs t) (arefs (o_adj o1))) as I1.
    { intros x Hx. apply I. rewrite arefs_cons. apply in_or_app. now right. }
    specialize (IH I1). destruct (label_rows t h1 o1) as [[h2 o2] e2]. eapply relabel_trans; eauto.
Qed.
Lemma read_relabels_not k : forall h o, match read k h o with (h', o', _) => h' = h /\ o_adj o' = o_adj o /\ o_atoms o' = o_atoms o /\
  o_backup o' = o_backup o /\ o_changed o' = o_changed o /\ o_name o' = o_name o /\ o_meta o' = o_meta o end.
Proof. intros h o. cbn. repeat split. Qed.

Lemma calc_labels_good : good1 calc_labels.
Proof.
  unfold calc_labels. apply good1_seq; [apply read_good|]. apply good1_seq; [apply read_good|].
  apply relabels_good. intros h o. apply label_rows_relabels. apply incl_refl.
Qed.
Lemma calc_implicit_relabels n : relabels (calc_implicit n).
Proof.
  intros h o. unfold calc_implicit. destruct (zget (o_atoms o) n) as [a|] eqn:E; [|apply relabel_refl].
  destruct (zget (o_adj o) n); [|apply relabel_refl]. destruct (lenv_of_row h (o_atoms o) l); [|apply relabel_refl].
  cbn. split; [|split; [apply heap_le_refl | auto]]. unfold same_struct; cbn. repeat split. eapply keys_zset_same; eauto.
Qed.
Lemma calc_implicit_all_relabels ns : relabels (calc_implicit_all ns).
Proof.
  induction ns as [|n t IH]; cbn; [intros h o; apply relabel_refl|]. apply relabels_seq; [apply calc_implicit_relabels | exact IH].
Qed.
Lemma fix_structure_good : good1 fix_structure.
Proof.
  unfold fix_structure. apply good1_seq; [apply calc_labels_good|]. apply good1_seq; [|apply set_changed_none_good].
  apply relabels_good. intros h o. destruct (o_changed o) as [[|x l]|]; apply calc_implicit_all_relabels.
Qed.
Lemma fix_both_good : good1 (fix_structure ;; fix_stereo).
Proof. apply good1_seq; [apply fix_structure_good | apply fix_stereo_good]. Qed.

(* ================================================================================================ *)
(* structural primitives *)
Lemma zmax_ge l d x : In x l -> x <= zmax l d.
Proof.
  unfold zmax. destruct l as [|y r]; [intros []|].
  assert (forall r a, a <= fold_left Z.max r a) as A.
  { induction r0 as [|z t IH]; cbn; intros a; [lia|]. specialize (IH (Z.max a z)). lia. }
  assert (forall r a x, In x r -> x <= fold_left Z.max r a) as B.
  { induction r0 as [|z t IH]; cbn; intros a x0 []; [subst|auto]. specialize (A t (Z.max a x0)). lia. }
  intros [E|E]; [subst; apply A | now apply B].
Qed.

Lemma put_atom_good c n' :
  good (fun h o => inv1 h o /\ ~ In n' (keys (o_atoms o))) (put_atom c n')
       (fun h o => inv1 h o /\ In n' (keys (o_atoms o))).
Proof.
  intros h o [[W C] N]. unfold put_atom, ok. cbn beta iota. destruct W as [Wk Wnd Wsym Wloop Wval Wlt]. assert (~ In n' (keys (o_adj o))) as N' by (now rewrite Wk).
  split; [split; [split|]|].
  - constructor; simpo.
    + rewrite !keys_app. cbn. now rewrite Wk.
    + now apply nd_app.
    + intros n m r. rewrite !aslot_app by assumption. apply Wsym.
    + intros n. rewrite aslot_app by assumption. apply Wloop.
    + intros r. rewrite arefs_app. cbn. rewrite app_nil_r. apply Wval.
    + intros r. rewrite arefs_app. cbn. rewrite app_nil_r. apply Wlt.
  - intros l Hl x Hx. simpo. rewrite keys_app. apply in_or_app. left. eapply C; eauto.
  - simpo. rewrite keys_app. apply in_or_app. right. now left.
  - split; [apply heap_le_refl|]. split; [reflexivity|]. split; [|reflexivity]. simpo. intros r. rewrite arefs_app. cbn.
    rewrite app_nil_r. auto.
Qed.

Lemma aslot_put adj n m rn rm rf x y :
  zget adj n = Some rn -> zget adj m = Some rm -> n <> m ->
  aslot (zset (zset adj n (zset rn m rf)) m (zset rm n rf)) x y =
  if ((x =? n) && (y =? m)) || ((x =? m) && (y =? n)) then Some rf else aslot adj x y.
Proof.
  intros Hn Hm D. rewrite !aslot_zset, !zget_zset. unfold aslot.
  destruct (Z.eqb_spec x m), (Z.eqb_spec x n); subst; try congruence; cbn.
  - rewrite Hm. destruct (y =? n); reflexivity.
  - rewrite Hn. destruct (y =? m); reflexivity.
  - reflexivity.
Qed.

Lemma put_bond_good n m ord rn rm :
  good (fun h o => inv1 h o /\ n <> m /\ zget (o_adj o) n = Some rn /\ zget (o_adj o) m = Some rm /\ ~ In n (keys rm))
       (put_bond n m ord rn rm)
       (fun h o => inv1 h o /\ forall x, In x [m; n] -> In x (keys (o_atoms o))).
Proof.
  intros h o [[W C] [D [Hn [Hm Nn]]]]. unfold put_bond, halloc, ok. cbn beta iota.
  set (rf := h_next h). set (h1 := mkH ((rf, mkB ord false) :: h_cells h) (rf + 1)).
  assert (heap_le h h1) as L by (apply (heap_le_halloc h (mkB ord false))).
  assert (forall x y, aslot (zset (zset (o_adj o) n (zset rn m rf)) m (zset rm n rf)) x y =
                      if ((x =? n) && (y =? m)) || ((x =? m) && (y =? n)) then Some rf else aslot (o_adj o) x y) as A
    by (intros; now apply aslot_put).
  destruct W as [Wk Wnd Wsym Wloop Wval Wlt].
  assert (forall r, In r (arefs (zset (zset (o_adj o) n (zset rn m rf)) m (zset rm n rf))) -> r = rf \/ In r (arefs (o_adj o))) as R.
  { intros r H. apply In_arefs_zset in H. destruct H as [H|H].
    - apply In_snd_zset in H. destruct H; [now left | right; now apply (In_arefs_row _ m rm)].
    - apply In_arefs_zset in H. destruct H as [H|H]; [|now right].
      apply In_snd_zset in H. destruct H; [now left | right; now apply (In_arefs_row _ n rn)]. }
  split; [split; [split|]|].
  - constructor; simpo.
    + rewrite keys_zset_in, keys_zset_in; [assumption | eapply zget_In_keys; eauto |].
      rewrite keys_zset_in; eapply zget_In_keys; eauto.
    + apply nd_zset; [apply nd_zset; [assumption|] |]; apply NoDup_keys_zset; destruct Wnd as [_ Rw]; eapply Rw; eauto.
    + intros x y r. rewrite !A.
      destruct (Z.eqb_spec x n), (Z.eqb_spec y m), (Z.eqb_spec x m), (Z.eqb_spec y n); subst; cbn; try congruence; auto.
    + intros x. rewrite A. destruct (Z.eqb_spec x n), (Z.eqb_spec x m); subst; cbn; try congruence; auto.
    + intros r H. apply R in H. destruct H as [H|H].
      * subst. exists (mkB ord false). unfold h1, hget. cbn. now rewrite Z.eqb_refl.
      * apply Wval in H. destruct H as [c0 H]. destruct L as [_ V]. eapply V; eauto.
    + intros r H. apply R in H. unfold h1; cbn. destruct H as [H|H]; [subst; lia | apply Wlt in H; unfold rf; lia].
  - exact C.
  - simpo. rewrite <- Wk. intros x [E|[E|[]]]; subst; eapply zget_In_keys; eauto.
  - split; [exact L|]. split; [|split; [|reflexivity]].
    + intros r Hr _. unfold h1, hget. cbn. destruct (Z.eqb_spec r rf); [unfold rf in *; lia | reflexivity].
    + simpo. intros r H. apply R in H. destruct H; [right; subst; unfold rf; lia | now left].
Qed.

Lemma flush_good' (A : list (Z * acell) -> Prop) ks kc :
  good (fun h o => inv1 h o /\ A (o_atoms o)) (flush ks kc) (fun h o => inv1 h o /\ A (o_atoms o)).
Proof. intros h o [H HA]. cbn. split; [split; [eapply inv1_same; eauto | exact HA] | now apply fine_same]. Qed.

Lemma add_atom_good c n : good1 (add_atom c n).
Proof.
  intros h o H. unfold add_atom.
  set (n' := match n with None => zmax (keys (o_atoms o)) 0 + 1 | Some x => x end).
  destruct (match n with Some x => zmem x (keys (o_atoms o)) | None => false end) eqn:E.
  - apply good1_raise; assumption.
  - assert (~ In n' (keys (o_atoms o))) as N.
    { unfold n'. destruct n as [x|]; [now apply zmem_false_notin|]. intros Hi. apply (zmax_ge _ 0) in Hi. lia. }
    assert (good (fun h o => inv1 h o /\ ~ In n' (keys (o_atoms o)))
                 (put_atom c n' ;; flush false false ;; mark_changed [n'] ;; unless_transaction fix_structure) inv1) as G.
    { eapply good_seq; [apply put_atom_good | | intros ? ? []; assumption].
      eapply good_seq; [apply (flush_good' (fun a => In n' (keys a))) | | intros ? ? []; assumption].
      eapply good_seq; [| apply unless_transaction_good, fix_structure_good | auto].
      eapply good_weaken; [apply mark_changed_good | | auto]. intros h0 o0 [I Hn]. split; [exact I|].
      intros x [E'|[]]. now subst. }
    apply G. split; assumption.
Qed.

Lemma add_bond_good n m ord : good1 (add_bond n m ord).
Proof.
  intros h o H. unfold add_bond.
  destruct (negb (valid_order ord)); [apply good1_raise; assumption|].
  destruct (Z.eqb_spec n m) as [E|D]; [apply good1_raise; assumption|].
  destruct (zget (o_adj o) n) as [rn|] eqn:Hn; [|apply good1_raise; assumption].
  destruct (zget (o_adj o) m) as [rm|] eqn:Hm; [|apply good1_raise; assumption].
  destruct (zmem n (keys rm)) eqn:Z; [apply good1_raise; assumption|]. apply zmem_false_notin in Z.
  assert (good (fun h o => inv1 h o /\ n <> m /\ zget (o_adj o) n = Some rn /\ zget (o_adj o) m = Some rm /\ ~ In n (keys rm))
               (put_bond n m ord rn rm ;; flush false false ;;
                (if ord =? 8 then unless_transaction calc_labels
                 else mark_changed [m; n] ;; unless_transaction (fix_structure ;; fix_stereo))) inv1) as G.
  { eapply good_seq; [apply put_bond_good | | intros ? ? []; assumption].
    eapply good_seq; [apply (flush_good' (fun a => forall x, In x [m; n] -> In x (keys a))) | | intros ? ? []; assumption].
    destruct (ord =? 8).
    - eapply good_weaken; [apply unless_transaction_good, calc_labels_good | intros ? ? []; assumption | auto].
    - eapply good_seq; [apply mark_changed_good | apply unless_transaction_good, fix_both_good | auto]. }
  apply G. auto.
Qed.

(* ---- delete_atom: the loop over the popped row *)
Lemma unlink_spec n : forall t h o,
  NoDup (keys t) ->
  (forall m rf, In (m, rf) t -> exists rm, zget (o_adj o) m = Some rm /\ In n (keys rm) /\ exists c, hget h rf = Some c) ->
  exists o', unlink n t h o = (h, o', None) /\
    o_atoms o' = o_atoms o /\ o_backup o' = o_backup o /\ o_cache o' = o_cache o /\
    keys (o_adj o') = keys (o_adj o) /\
    (forall x y, aslot (o_adj o') x y = if (y =? n) && zmem x (keys t) then None else aslot (o_adj o) x y) /\
    (nd (o_adj o) -> nd (o_adj o')) /\
    (forall r, In r (arefs (o_adj o')) -> In r (arefs (o_adj o))) /\
    (forall l', o_changed o' = Some l' -> forall x, In x l' -> In x (keys t) \/ exists l, o_changed o = Some l /\ In x l).
Proof.
  induction t as [|[m rf] t IH]; intros h o ND Pre.
  - exists o. cbn [unlink ok]. split; [reflexivity|]. split; [reflexivity|]. split; [reflexivity|]. split; [reflexivity|].
    split; [reflexivity|]. split; [|split; [auto|split; [auto|]]].
    + intros x y. cbn. now rewrite andb_false_r.
    + intros l' Hl x Hx. right. eauto.
  - destruct (Pre m rf (or_introl eq_refl)) as [rm [Hrm [Hin [c Hc]]]].
    cbn [unlink]. rewrite Hrm. apply zmem_In in Hin. rewrite Hin. cbn [negb]. rewrite Hc.
    set (o1 := set_adj o (zset (o_adj o) m (zdel rm n))).
    cbn [keys map fst] in ND. inversion ND as [|? ? Hm ND']; subst.
    assert (forall oX, o_adj oX = o_adj o1 -> o_atoms oX = o_atoms o -> o_backup oX = o_backup o -> o_cache oX = o_cache o ->
              (forall l', o_changed oX = Some l' -> forall x, In x l' -> x = m \/ exists l, o_changed o = Some l /\ In x l) ->
              exists o', unlink n t h oX = (h, o', None) /\
                o_atoms o' = o_atoms o /\ o_backup o' = o_backup o /\ o_cache o' = o_cache o /\
                keys (o_adj o') = keys (o_adj o) /\
                (forall x y, aslot (o_adj o') x y = if (y =? n) && zmem x (keys ((m, rf) :: t)) then None else aslot (o_adj o) x y) /\
                (nd (o_adj o) -> nd (o_adj o')) /\
                (forall r, In r (arefs (o_adj o')) -> In r (arefs (o_adj o))) /\
                (forall l', o_changed o' = Some l' -> forall x, In x l' ->
                    In x (keys ((m, rf) :: t)) \/ exists l, o_changed o = Some l /\ In x l)) as K.
    { intros oX EA EAt EB EC ECh.
      destruct (IH h oX ND') as [o' [R [A1 [A2 [A2' [A3 [A4 [A5 [A6 A7]]]]]]]]].
      { intros m' rf' Hi. destruct (Pre m' rf' (or_intror Hi)) as [rm' [H1 H2]]. exists rm'. split; [|exact H2].
        rewrite EA. unfold o1. simpo. rewrite zget_zset. destruct (Z.eqb_spec m' m); [|assumption].
        subst. exfalso. apply Hm. change m with (fst (m, rf')). now apply in_map. }
      exists o'. split; [exact R|]. split; [congruence|]. split; [congruence|]. split; [congruence|]. split; [|split; [|split; [|split]]].
      - rewrite A3, EA. unfold o1. simpo. apply keys_zset_in. eapply zget_In_keys; eauto.
      - intros x y. rewrite A4, EA. unfold o1. simpo. rewrite aslot_zset, zget_zdel.
        replace (zmem x (keys ((m, rf) :: t))) with ((x =? m) || zmem x (keys t)) by reflexivity.
        destruct (Z.eqb_spec x m) as [->|]; cbn [orb andb]; [|reflexivity].
        assert (aslot (o_adj o) m y = zget rm y) as -> by (unfold aslot; now rewrite Hrm).
        destruct (y =? n), (zmem m (keys t)); reflexivity.
      - intros N. apply A5. rewrite EA. unfold o1. simpo. apply nd_zset; [assumption|]. apply NoDup_keys_zdel.
        destruct N as [_ Rw]. eapply Rw; eauto.
      - intros r Hi. apply A6 in Hi. rewrite EA in Hi. unfold o1 in Hi. simpo. apply In_arefs_zset in Hi. destruct Hi as [Hi|Hi]; [|assumption].
        apply In_snd_zdel in Hi. eapply In_arefs_row; eauto.
      - intros l' Hl x Hx. destruct (A7 l' Hl x Hx) as [Hk|[l [Hl2 Hx2]]].
        + left. cbn. now right.
        + destruct (ECh l Hl2 x Hx2) as [E|E]; [left; cbn; now left | now right]. }
    destruct (b_ord c =? 8).
    + apply K; try reflexivity. intros l' Hl x Hx. right. exists l'. split; assumption.
    + unfold seq, mark_changed. destruct (o_changed o1) as [l0|] eqn:E0; cbn [ok]; apply K; try reflexivity; simpo.
      * intros l' Hl x Hx. inversion Hl; subst. cbn [fold_right] in Hx. apply In_sadd in Hx. destruct Hx as [Hx|Hx]; [now left|]. right. exists l0.
        split; [exact E0 | exact Hx].
      * intros l' Hl x Hx. inversion Hl; subst. destruct Hx as [Hx|[]]. now left.
Qed.

Definition cwmod (n : Z) (o : mobj) : Prop :=
  forall l, o_changed o = Some l -> forall x, In x l -> x = n \/ In x (keys (o_atoms o)).

Lemma delete_struct n h o a r :
  inv1 h o -> zget (o_atoms o) n = Some a -> zget (o_adj o) n = Some r ->
  exists o1, (drop_atom n ;; unlink n r) h o = (h, o1, None) /\ wf h o1 /\ cwmod n o1 /\ fine h o h o1 /\ o_cache o1 = o_cache o.
Proof.
  intros [W C] Ha Hr. destruct W as [Wk Wnd Wsym Wloop Wval Wlt].
  set (o0 := set_adj (set_atoms o (zdel (o_atoms o) n)) (zdel (o_adj o) n)).
  assert (forall m rf, In (m, rf) r -> aslot (o_adj o) n m = Some rf) as Sl.
  { intros m rf Hi. unfold aslot. rewrite Hr. apply In_zget_nodup; [|assumption]. destruct Wnd as [_ Rw]. eapply Rw; eauto. }
  destruct (unlink_spec n r h o0) as [o1 [R [A1 [A2 [A2' [A3 [A4 [A5 [A6 A7]]]]]]]]].
  { destruct Wnd as [_ Rw]. eapply Rw; eauto. }
  { intros m rf Hi. pose proof (Sl _ _ Hi) as S1. pose proof (Wsym _ _ _ S1) as S2.
    apply aslot_row in S2. destruct S2 as [rm [H1 H2]]. exists rm. split; [|split].
    - unfold o0. simpo. rewrite zget_zdel. destruct (Z.eqb_spec m n); [|assumption]. subst. rewrite Wloop in S1. discriminate.
    - eapply zget_In_keys; eauto.
    - apply Wval. eapply aslot_arefs; eauto. }
  exists o1. unfold o0 in *. simpo.
  assert (forall x y, aslot (o_adj o1) x y = if (y =? n) && zmem x (keys r) then None else if x =? n then None else aslot (o_adj o) x y) as AS
    by (intros; now rewrite A4, aslot_zdel).
  split; [unfold seq, drop_atom, ok; exact R|]. split; [|split; [|split]].
  - constructor.
    + rewrite A3, A1, !keys_zdel. now rewrite Wk.
    + apply A5. now apply nd_zdel.
    + intros x y rf. rewrite !AS. destruct ((y =? n) && zmem x (keys r)) eqn:E1; [discriminate|].
      destruct (Z.eqb_spec x n) as [|Dx]; [discriminate|]. intros H. pose proof (Wsym _ _ _ H) as S.
      destruct (Z.eqb_spec y n) as [->|Dy].
      * exfalso. assert (In x (keys r)) as Hi.
        { unfold aslot in S. rewrite Hr in S. eapply zget_In_keys; eauto. }
        apply zmem_In in Hi. rewrite Hi in E1. discriminate.
      * replace (x =? n) with false by (symmetry; now apply Z.eqb_neq). cbn. exact S.
    + intros x. rewrite AS. destruct ((x =? n) && zmem x (keys r)); [reflexivity|]. destruct (x =? n); [reflexivity | apply Wloop].
    + intros rf Hi. apply Wval. apply A6 in Hi. now apply In_arefs_zdel in Hi.
    + intros rf Hi. apply Wlt. apply A6 in Hi. now apply In_arefs_zdel in Hi.
  - intros l' Hl x Hx. rewrite A1. destruct (A7 l' Hl x Hx) as [Hk|[l [Hl2 Hx2]]].
    + right. apply In_keys_zdel. apply keys_In_zget in Hk. destruct Hk as [rf Hk]. apply zget_In in Hk. apply Sl in Hk.
      split.
      * intros ->. rewrite Wloop in Hk. discriminate.
      * eapply wfa_nbr_atom; [constructor; eauto | eauto].
    + destruct (Z.eq_dec x n); [now left|]. right. apply In_keys_zdel. split; [assumption|]. eapply C; eauto.
  - split; [apply heap_le_refl|]. split; [reflexivity|]. split; [|exact A2].
    intros rf Hi. left. apply A6 in Hi. now apply In_arefs_zdel in Hi.
  - exact A2'.
Qed.

Lemma discard_changed_mod n : good (fun h o => wf h o /\ cwmod n o) (discard_changed n) inv1.
Proof.
  intros h o [W C]. cbn. split; [|now apply fine_same]. split; [exact W|]. intros l Hl x Hx. simpo.
  destruct (o_changed o) eqn:E; [|discriminate]. inversion Hl; subst. apply filter_In in Hx. destruct Hx as [Hx Hn].
  destruct (C _ E _ Hx) as [->|]; [|assumption]. rewrite Z.eqb_refl in Hn. discriminate.
Qed.

Lemma delete_atom_good n : good1 (delete_atom n).
Proof.
  intros h o H. unfold delete_atom.
  destruct (zget (o_atoms o) n) as [a|] eqn:Ha; [|apply good1_raise; assumption].
  destruct (zget (o_adj o) n) as [r|] eqn:Hr; [|apply good1_raise; assumption].
  destruct (delete_struct n h o a r H Ha Hr) as [o1 [R [W1 [C1 [F1 _]]]]].
  assert (good (fun h o => wf h o /\ cwmod n o)
               (discard_changed n ;; flush false false ;; unless_transaction (fix_structure ;; fix_stereo)) inv1) as G.
  { eapply good_seq; [apply discard_changed_mod | | auto].
    apply good1_seq; [apply flush_good | apply unless_transaction_good, fix_both_good]. }
  specialize (G h o1 (conj W1 C1)).
  unfold seq in *. unfold drop_atom, ok in *. rewrite R.
  match goal with |- context [match ?X with _ => _ end] => destruct X as [[h2 o2] e2] end.
  destruct G as [I2 F2]. split; [exact I2 | eapply fine_trans; eauto].
Qed.

(* ---- delete_bond *)
Lemma aslot_cut adj n m rn rm x y :
  zget adj n = Some rn -> zget adj m = Some rm -> n <> m ->
  aslot (zset (zset adj n (zdel rn m)) m (zdel rm n)) x y =
  if ((x =? n) && (y =? m)) || ((x =? m) && (y =? n)) then None else aslot adj x y.
Proof.
  intros Hn Hm D. rewrite !aslot_zset, !zget_zdel. unfold aslot.
  destruct (Z.eqb_spec x m), (Z.eqb_spec x n); subst; try congruence; cbn.
  - rewrite Hm. destruct (y =? n); reflexivity.
  - rewrite Hn. destruct (y =? m); reflexivity.
  - reflexivity.
Qed.

Lemma delete_bond_struct n m h o rn rf0 :
  inv1 h o -> zget (o_adj o) n = Some rn -> zget rn m = Some rf0 ->
  exists rm cl, zget (o_adj o) m = Some rm /\ zget rm n = Some rf0 /\ n <> m /\ hget h rf0 = Some cl /\
    let o2 := set_adj o (zset (zset (o_adj o) n (zdel rn m)) m (zdel rm n)) in
    inv1 h o2 /\ fine h o h o2 /\ (forall x, In x [m; n] -> In x (keys (o_atoms o2))).
Proof.
  intros [W C] Hn Hnm. pose proof W as W0. destruct W as [Wk Wnd Wsym Wloop Wval Wlt].
  assert (aslot (o_adj o) n m = Some rf0) as S1 by (unfold aslot; now rewrite Hn).
  pose proof (Wsym _ _ _ S1) as S2. pose proof (wfa_neq _ _ _ _ _ _ W0 S1) as D.
  apply aslot_row in S2. destruct S2 as [rm [Hm Hmn]]. destruct (Wval rf0 (aslot_arefs _ _ _ _ S1)) as [cl Hc].
  exists rm, cl. split; [exact Hm|]. split; [exact Hmn|]. split; [exact D|]. split; [exact Hc|]. intros o2.
  assert (forall x y, aslot (o_adj o2) x y = if ((x =? n) && (y =? m)) || ((x =? m) && (y =? n)) then None else aslot (o_adj o) x y) as A
    by (intros; unfold o2; simpo; now apply aslot_cut).
  assert (forall r, In r (arefs (o_adj o2)) -> In r (arefs (o_adj o))) as R.
  { unfold o2; simpo. intros r H. apply In_arefs_zset in H. destruct H as [H|H].
    - apply In_snd_zdel in H. now apply (In_arefs_row _ m rm).
    - apply In_arefs_zset in H. destruct H as [H|H]; [|assumption]. apply In_snd_zdel in H. now apply (In_arefs_row _ n rn). }
  split; [split|split].
  - constructor.
    + unfold o2; simpo. rewrite keys_zset_in, keys_zset_in; [assumption | eapply zget_In_keys; eauto |].
      rewrite keys_zset_in; eapply zget_In_keys; eauto.
    + unfold o2; simpo. destruct Wnd as [N Rw]. apply nd_zset; [apply nd_zset; [split; assumption|] |]; apply NoDup_keys_zdel; eapply Rw; eauto.
    + intros x y r. rewrite !A.
      destruct (Z.eqb_spec x n), (Z.eqb_spec y m), (Z.eqb_spec x m), (Z.eqb_spec y n); subst; cbn; try congruence; auto.
    + intros x. rewrite A. destruct (Z.eqb_spec x n), (Z.eqb_spec x m); subst; cbn; try congruence; auto.
    + intros r H. apply Wval. now apply R.
    + intros r H. apply Wlt. now apply R.
  - exact C.
  - split; [apply heap_le_refl|]. split; [reflexivity|]. split; [|reflexivity]. intros r H. left. now apply R.
  - unfold o2; simpo. rewrite <- Wk. intros x [E|[E|[]]]; subst; eapply zget_In_keys; eauto.
Qed.

Lemma delete_bond_good n m : good1 (delete_bond n m).
Proof.
  intros h o H. unfold delete_bond.
  destruct (zget (o_adj o) n) as [rn|] eqn:Hn; [|apply good1_raise; assumption].
  destruct (zget rn m) as [rf0|] eqn:Hnm; [|apply good1_raise; assumption].
  destruct (delete_bond_struct n m h o rn rf0 H Hn Hnm) as [rm [cl [Hm [Hmn [D [Hc K]]]]]].
  simpo. rewrite zget_zset. replace (m =? n) with false by (symmetry; apply Z.eqb_neq; congruence).
  rewrite Hm, Hmn, Hc. cbn zeta in K. destruct K as [I2 [F2 N2]].
  assert (good (fun h o => inv1 h o /\ forall x, In x [m; n] -> In x (keys (o_atoms o)))
               ((if b_ord cl =? 8 then ok else mark_changed [m; n]) ;; flush false false ;;
                unless_transaction (fix_structure ;; fix_stereo)) inv1) as G.
  { eapply good_seq with (Q := inv1); [| apply good1_seq; [apply flush_good | apply unless_transaction_good, fix_both_good] | auto].
    destruct (b_ord cl =? 8); [|apply mark_changed_good]. eapply good_weaken; [apply good1_ok | intros ? ? []; assumption | auto]. }
  match goal with |- context [?A ?H ?O] => match A with seq _ _ => specialize (G H O (conj I2 N2)); destruct (A H O) as [[h3 o3] e3] end end.
  destruct G as [I3 F3]. split; [exact I3 | eapply fine_trans; eauto].
Qed.

(* ---- remap *)
Definition inj_on (f : Z -> Z) (l : list Z) : Prop := forall x y, In x l -> In y l -> f x = f y -> x = y.
Lemma NoDup_map_inj f l : inj_on f l -> NoDup l -> NoDup (map f l).
Proof.
  induction l as [|a r IH]; cbn; intros I N; [constructor|]. inversion N; subst. constructor.
  - intros H. apply in_map_iff in H. destruct H as [b [E Hb]]. assert (b = a) by (apply I; cbn; auto). subst. contradiction.
  - apply IH; [|assumption]. intros x y Hx Hy. apply I; cbn; auto.
Qed.
Lemma nodup_z_NoDup l : nodup_z l = true -> NoDup l.
Proof.
  induction l as [|a r IH]; cbn; [constructor|]. intros H. apply andb_true_iff in H. destruct H as [H1 H2].
  constructor; [|auto]. apply zmem_false_notin. now destruct (zmem a r).
Qed.
Lemma zget_val_inj (mp : list (Z * Z)) x y v : NoDup (map snd mp) -> zget mp x = Some v -> zget mp y = Some v -> x = y.
Proof.
  induction mp as [|[k w] t IH]; cbn; [discriminate|]. intros N. inversion N; subst.
  assert (forall z, zget t z = Some w -> False) as F.
  { intros z Hz. apply zget_In in Hz. apply H1. change w with (snd (z, w)). now apply in_map. }
  destruct (Z.eqb_spec x k), (Z.eqb_spec y k); subst; intros A B.
  - reflexivity.
  - inversion A; subst. exfalso. eapply F; eauto.
  - inversion B; subst. exfalso. eapply F; eauto.
  - eapply IH; eauto.
Qed.
Lemma zget_val_In (mp : list (Z * Z)) x v : zget mp x = Some v -> In v (map snd mp).
Proof. intros H. apply zget_In in H. change v with (snd (x, v)). now apply in_map. Qed.
Lemma mg_inj mp ks :
  nodup_z (map snd mp) = true -> existsb (fun n => negb (zmem n (keys mp)) && zmem n (map snd mp)) ks = false -> inj_on (mg mp) ks.
Proof.
  intros N E x y Hx Hy. apply nodup_z_NoDup in N.
  assert (forall z v, In z ks -> zget mp z = None -> In v (map snd mp) -> z <> v) as F.
  { intros z v Hz Hn Hv ->. assert (existsb (fun n => negb (zmem n (keys mp)) && zmem n (map snd mp)) ks = true); [|congruence].
    apply existsb_exists. exists v. split; [assumption|]. apply zget_None_keys in Hn. apply zmem_false_notin in Hn. rewrite Hn.
    apply zmem_In in Hv. now rewrite Hv. }
  unfold mg. destruct (zget mp x) as [v|] eqn:Ex, (zget mp y) as [v'|] eqn:Ey; intros H.
  - rewrite <- H in Ey. eapply zget_val_inj; eauto.
  - exfalso. apply (F y v Hy Ey); [eapply zget_val_In; eauto | congruence].
  - exfalso. apply (F x v' Hx Ex); [eapply zget_val_In; eauto | congruence].
  - exact H.
Qed.

Definition rn_atoms (f : Z -> Z) (atoms : list (Z * acell)) := map (fun na => (f (fst na), snd na)) atoms.
Definition rn_row (f : Z -> Z) (rw : list (Z * ref)) := map (fun mr => (f (fst mr), snd mr)) rw.
Definition rn_adj (f : Z -> Z) (adj : adjacency) : adjacency := map (fun nr => (f (fst nr), rn_row f (snd nr))) adj.
Lemma keys_rn_atoms f a : keys (rn_atoms f a) = map f (keys a).
Proof. unfold keys, rn_atoms. rewrite !map_map. reflexivity. Qed.
Lemma keys_rn_row f a : keys (rn_row f a) = map f (keys a).
Proof. unfold keys, rn_row. rewrite !map_map. reflexivity. Qed.
Lemma keys_rn_adj f a : keys (rn_adj f a) = map f (keys a).
Proof. unfold keys, rn_adj. rewrite !map_map. reflexivity. Qed.
Lemma arefs_rn_adj f a : arefs (rn_adj f a) = arefs a.
Proof.
  unfold arefs, refs_of_adj, rn_adj. induction a as [|[n rw] t IH]; cbn; [reflexivity|]. rewrite IH. f_equal.
  unfold rn_row. rewrite map_map. reflexivity.
Qed.

Lemma wfa_rename f h atoms adj : wfa h atoms adj -> inj_on f (keys atoms) -> wfa h (rn_atoms f atoms) (rn_adj f adj).
Proof.
  intros W I. pose proof W as W0. destruct W as [Wk Wnd Wsym Wloop Wval Wlt]. destruct Wnd as [N Rw].
  assert (nd (rn_adj f adj)) as ND.
  { split.
    - rewrite keys_rn_adj. apply NoDup_map_inj; [now rewrite Wk | assumption].
    - intros x' rw' H. apply zget_In in H. unfold rn_adj in H. apply in_map_iff in H. destruct H as [[x rw] [E H]]. cbn [fst snd] in E.
      inversion E; subst. rewrite keys_rn_row. assert (zget adj x = Some rw) as Hz by now apply In_zget_nodup.
      apply NoDup_map_inj; [|eapply Rw; eauto]. intros a b Ha Hb. apply I.
      + apply keys_In_zget in Ha. destruct Ha as [r Ha]. eapply (wfa_nbr_atom _ _ _ x a r W0). unfold aslot. now rewrite Hz.
      + apply keys_In_zget in Hb. destruct Hb as [r Hb]. eapply (wfa_nbr_atom _ _ _ x b r W0). unfold aslot. now rewrite Hz. }
  assert (forall x' y' r, aslot (rn_adj f adj) x' y' = Some r -> exists x y, x' = f x /\ y' = f y /\ aslot adj x y = Some r) as Fw.
  { intros x' y' r H. apply aslot_In in H. destruct H as [rw' [H1 H2]]. unfold rn_adj in H1. apply in_map_iff in H1.
    destruct H1 as [[x rw] [E H1]]. cbn [fst snd] in E. inversion E; subst. unfold rn_row in H2. apply in_map_iff in H2.
    destruct H2 as [[y r0] [E2 H2]]. cbn [fst snd] in E2. inversion E2; subst. exists x, y. repeat split. eapply nd_In_aslot; eauto. split; assumption. }
  assert (forall x y r, aslot adj x y = Some r -> aslot (rn_adj f adj) (f x) (f y) = Some r) as Bw.
  { intros x y r H. apply aslot_In in H. destruct H as [rw [H1 H2]]. eapply (nd_In_aslot _ (f x) (rn_row f rw)); [exact ND | |].
    - unfold rn_adj. apply in_map_iff. exists (x, rw). split; [reflexivity | assumption].
    - unfold rn_row. apply in_map_iff. exists (y, r). split; [reflexivity | assumption]. }
  constructor.
  - rewrite keys_rn_adj, keys_rn_atoms. now rewrite Wk.
  - exact ND.
  - intros x' y' r H. apply Fw in H. destruct H as [x [y [-> [-> H]]]]. apply Bw. now apply Wsym.
  - intros x'. destruct (aslot (rn_adj f adj) x' x') as [r|] eqn:E; [|reflexivity]. exfalso.
    apply Fw in E. destruct E as [x [y [E1 [E2 H]]]]. assert (x = y).
    { apply I; [eapply wfa_self_atom; eauto | eapply wfa_nbr_atom; eauto | congruence]. }
    subst. rewrite Wloop in H. discriminate.
  - intros r. rewrite arefs_rn_adj. apply Wval.
  - intros r. rewrite arefs_rn_adj. apply Wlt.
Qed.

Lemma remap_good mp : good1 (remap mp).
Proof.
  intros h o [W C]. unfold remap.
  destruct (nodup_z (map snd mp)) eqn:E1; cbn [negb orb]; [|apply good1_raise; split; assumption].
  destruct (existsb _ (keys (o_atoms o))) eqn:E2; [apply good1_raise; split; assumption|].
  pose proof (mg_inj mp _ E1 E2) as I. unfold flush, ok. cbn beta iota. simpo.
  fold (rn_atoms (mg mp) (o_atoms o)). fold (rn_adj (mg mp) (o_adj o)).
  split; [split|].
  - unfold wf. simpo. now apply wfa_rename.
  - intros l Hl x Hx. simpo. rewrite keys_rn_atoms. destruct (o_backup o) as [bk0|].
    + inversion Hl; subst. apply In_fold_sadd in Hx. destruct Hx as [Hx|[]]. exact Hx.
    + destruct (o_changed o) as [l0|] eqn:E; [|discriminate]. inversion Hl; subst.
      apply In_fold_sadd in Hx. destruct Hx as [Hx|[]]. apply in_map_iff in Hx. destruct Hx as [y [<- Hy]]. apply in_map. eapply C; eauto.
  - split; [apply heap_le_refl|]. split; [reflexivity|]. split; [|reflexivity]. simpo.
    intros r Hr. left. rewrite <- (arefs_rn_adj (mg mp)). exact Hr.
Qed.

(* ---- attribute setters, name, meta *)
Lemma set_charge_good n v : good1 (set_charge n v).
Proof.
  intros h o H. unfold set_charge. destruct (zget (o_atoms o) n) as [a|] eqn:E; [|apply good1_raise; assumption].
  destruct ((v >? 4) || (v <? -4)); [apply good1_raise; assumption|]. cbn.
  split; [|now apply fine_same]. eapply inv1_same; eauto. simpo. eapply keys_zset_same; eauto.
Qed.
Lemma set_radical_good n v : good1 (set_radical n v).
Proof.
  intros h o H. unfold set_radical. destruct (zget (o_atoms o) n) as [a|] eqn:E; [|apply good1_raise; assumption]. cbn.
  split; [|now apply fine_same]. eapply inv1_same; eauto. simpo. eapply keys_zset_same; eauto.
Qed.
Lemma set_name_good x : good1 (fun h o => ok h (set_name o x)).
Proof. intros h o H. cbn. split; [eapply inv1_same; eauto | now apply fine_same]. Qed.
Lemma set_meta_good x : good1 (fun h o => ok h (set_meta o x)).
Proof. intros h o H. cbn. split; [eapply inv1_same; eauto | now apply fine_same]. Qed.

(* ---- the patch step of Standardize *)
Lemma calc_implicit_good n : good1 (calc_implicit n).
Proof. apply relabels_good, calc_implicit_relabels. Qed.

Lemma patch_good n m bo dch : good1 (patch n m bo dch).
Proof.
  intros h o H. unfold patch.
  destruct (Z.eqb_spec n m) as [|D]; [apply good1_raise; assumption|].
  destruct (zget (o_atoms o) n) as [an|] eqn:Ean; [|apply good1_raise; assumption].
  destruct (zget (o_atoms o) m) as [am|] eqn:Eam; [|apply good1_raise; assumption].
  destruct (zget (o_adj o) n) as [rn|] eqn:Ern; [|apply good1_raise; assumption].
  destruct (zget (o_adj o) m) as [rm|] eqn:Erm; [|apply good1_raise; assumption].
  assert (good1 (calc_labels ;; calc_implicit n ;; calc_implicit m ;; fix_stereo)) as G2.
  { apply good1_seq; [apply calc_labels_good|]. apply good1_seq; [apply calc_implicit_good|].
    apply good1_seq; [apply calc_implicit_good | apply fix_stereo_good]. }
  destruct (c_chg (a_core an) + dch >? 4).
  { assert (good1 (flush true true ;; calc_labels ;; calc_implicit n ;; fix_stereo)) as G.
    { apply good1_seq; [apply flush_good|]. apply good1_seq; [apply calc_labels_good|].
      apply good1_seq; [apply calc_implicit_good | apply fix_stereo_good]. }
    apply G; assumption. }
  set (o1 := set_atoms o _).
  assert (inv1 h o1) as I1. { eapply inv1_same; eauto. unfold o1; simpo. eapply keys_zset_same; eauto. }
  assert (fine h o h o1) as F1 by (now apply fine_same).
  destruct (zget rn m) as [rf|] eqn:Enm.
  - destruct (hget h rf) as [cl|] eqn:Ec; [|cbn; split; assumption].
    set (h1 := hset h rf (mkB bo (b_lab cl))).
    assert (In rf (arefs (o_adj o))) as Rf.
    { apply (In_arefs_row _ n rn); [assumption|]. apply zget_In in Enm. change rf with (snd (m, rf)). now apply in_map. }
    assert (inv1 h1 o1) as I2. { destruct I1 as [W C]. split; [|exact C]. eapply wfa_heap; [exact W|]. eapply heap_le_hset; eauto. }
    assert (fine h o1 h1 o1) as F2.
    { split; [eapply heap_le_hset; eauto|]. split; [|split; [auto | reflexivity]].
      intros r _ Hn. unfold h1. rewrite hget_hset. destruct (Z.eqb_spec r rf); [subst; contradiction | reflexivity]. }
    assert (good1 (flush (negb ((b_ord cl =? 8) || (bo =? 8))) true ;; calc_labels ;; calc_implicit n ;; calc_implicit m ;; fix_stereo)) as G
      by (apply good1_seq; [apply flush_good | exact G2]).
    specialize (G h1 o1 I2).
    match goal with |- context [?A h1 o1] => destruct (A h1 o1) as [[h3 o3] e3] end.
    destruct G as [I3 F3]. split; [exact I3|]. eapply fine_trans; [exact F1|]. eapply fine_trans; [exact F2 | exact F3].
  - assert (good (fun h o => inv1 h o /\ n <> m /\ zget (o_adj o) n = Some rn /\ zget (o_adj o) m = Some rm /\ ~ In n (keys rm))
                 (put_bond n m bo rn rm ;; flush false false ;; calc_labels ;; calc_implicit n ;; calc_implicit m ;; fix_stereo) inv1) as G.
    { eapply good_seq; [apply put_bond_good | | intros ? ? []; assumption].
      eapply good_weaken; [apply good1_seq; [apply flush_good | exact G2] | intros ? ? []; assumption | auto]. }
    assert (~ In n (keys rm)) as Nn.
    { intros Hi. apply keys_In_zget in Hi. destruct Hi as [r Hr]. destruct H as [W _].
      assert (aslot (o_adj o) m n = Some r) as S by (unfold aslot; now rewrite Erm).
      apply (wf_sym _ _ _ W) in S. unfold aslot in S. rewrite Ern in S. congruence. }
    specialize (G h o1). unfold o1 in G at 1. simpo. specialize (G (conj I1 (conj D (conj Ern (conj Erm Nn))))).
    match goal with |- context [?A h o1] => destruct (A h o1) as [[h3 o3] e3] end.
    destruct G as [I3 F3]. split; [exact I3|]. eapply fine_trans; [exact F1 | exact F3].
Qed.
