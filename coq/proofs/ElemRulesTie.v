(* C18: the valence-table compilers of chython/periodictable/base/element.py as translated from the source (Gen.ElemRules,
   regenerated on every run by tools/gen_elemrules.py) are the hand model of Model.Valence for EVERY element record, and the
   clause "valence rule tables compile" of C18 stated on the translated code. *)
From Coq Require Import ZArith List String Bool Lia.
From Model Require Import PyBase PeriodicTable Valence.
From Gen Require Import Elements ElemRules.
Import ListNotations.
Open Scope string_scope.
Open Scope Z_scope.

(* ---- a fold over a pyres state is the loop that stops at the first exception ---- *)
Fixpoint loop_res {A X : Type} (step : A -> X -> pyres A) (xs : list X) (a : A) : pyres A :=
  match xs with
  | [] => Ok a
  | x :: r => match step a x with Err e => Err e | Ok a' => loop_res step r a' end
  end.

Lemma fold_err {A X : Type} (F : pyres A -> X -> pyres A) :
  (forall e x, F (Err e) x = Err e) -> forall xs e, fold_left F xs (Err e) = Err e.
Proof. intros H xs. induction xs as [|x r IH]; intros e; simpl; [reflexivity|]. rewrite H. apply IH. Qed.

Lemma fold_pyres_loop {A X : Type} (step : A -> X -> pyres A) (F : pyres A -> X -> pyres A) :
  (forall a x, F (Ok a) x = step a x) -> (forall e x, F (Err e) x = Err e) ->
  forall xs a, fold_left F xs (Ok a) = loop_res step xs a.
Proof.
  intros H1 H2 xs. induction xs as [|x r IH]; intros a; simpl; [reflexivity|].
  rewrite H1. destruct (step a x) as [a'|e]; [apply IH | apply fold_err; exact H2].
Qed.

(* ---- the hand model's two loops in that form ---- *)
Definition step_env (classes : list (string * Z)) (sd : list ekey * edict) (be : Z * string) : pyres (list ekey * edict) :=
  match sget_last classes (snd be) with
  | None => Err KeyError
  | Some z => Ok (eadd (fst sd) (fst be, z), eincr (snd sd) (fst be, z))
  end.

Lemma env_compile_loop : forall classes env s d, env_compile classes env s d = loop_res (step_env classes) env (s, d).
Proof.
  intros classes env. induction env as [|[b e] r IH]; intros s d; simpl; [reflexivity|].
  unfold step_env; simpl. destruct (sget_last classes e) as [z|]; [apply IH | reflexivity].
Qed.

Lemma exceptions_loop_loop : forall classes xs t, exceptions_loop classes t xs = loop_res (exception_rules classes) xs t.
Proof.
  intros classes xs. induction xs as [|x r IH]; intros t; simpl; [reflexivity|].
  destruct (exception_rules classes t x); [apply IH | reflexivity].
Qed.

(* ---- Element._compiled_valence_rules ---- *)
Lemma py_index_0 : forall l, py_index l 0 = match l with [] => Err IndexError | v :: _ => Ok v end.
Proof. intros [|v l]; reflexivity. Qed.

Lemma match_res_ext {A B : Type} (x y : pyres A) (f g : A -> pyres B) :
  x = y -> (forall a, f a = g a) ->
  match x with Ok a => f a | Err e => Err e end = match y with Ok a => g a | Err e => Err e end.
Proof. intros H1 H2. subst. destruct y; [apply H2 | reflexivity]. Qed.

Ltac res_id_match :=
  match goal with |- match ?X with Ok _ => _ | Err _ => _ end = ?Y => transitivity X; [destruct X; reflexivity | reflexivity] end.

Lemma g_compiled_valence_rules_eq : forall e, g_compiled_valence_rules e = compiled_rules e.
Proof.
  Opaque elements.
  intros e. unfold g_compiled_valence_rules, compiled_rules, compiled_rules_with, common_rules.
  rewrite !py_index_0. destruct (e_common e) as [|v0 rest]; [reflexivity|].
  cbv beta iota zeta.
  match goal with |- context [fold_left ?F (e_exc e) _] => set (FF := F) end.
  assert (H2 : forall ex x, FF (Err ex) x = Err ex) by (intros; reflexivity).
  assert (H1 : forall a x, FF (Ok a) x = exception_rules elements_classes a x).
  { intros a [[[c r] i] env]. unfold FF. cbv beta iota zeta. unfold exception_rules. rewrite env_compile_loop.
    match goal with |- context [fold_left ?G env (Ok _)] => rewrite (fold_pyres_loop (step_env elements_classes) G) end.
    - apply match_res_ext; [reflexivity|]. intros [s d]. destruct (negb (i =? 0)); reflexivity.
    - intros [s d] [b s0]. unfold step_env, py_sgetitem, elements_classes. cbv beta iota zeta. simpl fst. simpl snd.
      destruct (sget_last (map (fun x : elem => (e_sym x, e_num x)) elements) s0); reflexivity.
    - intros ex x. reflexivity. }
  assert (L : forall t : rtable, match fold_left FF (e_exc e) (Ok t) with Ok rules => Ok rules | Err ex => Err ex end
                                 = exceptions_loop elements_classes t (e_exc e)).
  { intros t. rewrite exceptions_loop_loop, (fold_pyres_loop (exception_rules elements_classes) FF H1 H2).
    destruct (loop_res (exception_rules elements_classes) (e_exc e) t); reflexivity. }
  destruct (negb (v0 =? 0) && negb (e_num e =? 1)); simpl skipn; cbv beta iota zeta; apply L.
  Transparent elements.
Qed.

Lemma g_valence_rules_eq : forall e c r v, g_valence_rules e c r v = valence_rules e c r v.
Proof. intros. unfold g_valence_rules, valence_rules, lookup_rules. rewrite g_compiled_valence_rules_eq. reflexivity. Qed.

(* ---- C18: "valence rule tables compile", on the translated compilers, for all 118 elements ----
   both compilers return (no IndexError of an empty _common_valences, no KeyError of an unknown environment symbol); every rule
   key has a charge in -4..4 and a non-negative valence, every hydrogen count a rule can assign is 0..4 (the matcher field and
   the pack field can hold it); the (charge, radical) set is the set of exception states *)
Definition rule_table_ok (t : rtable) : bool :=
  forallb (fun kv => let '(c, _, v) := fst kv in
                     (-4 <=? c) && (c <=? 4) && (0 <=? v) &&
                     negb (match snd kv with [] => true | _ => false end) &&
                     forallb (fun r => (0 <=? r_h r) && (r_h r <=? 4) &&
                                       forallb (fun k => (1 <=? fst k) && (fst k <=? 3) && (1 <=? snd k) && (snd k <=? 118)) (r_set r) &&
                                       list_eqb ekey_eqb (r_set r) (map fst (r_dict r)) &&
                                       forallb (fun kc => 1 <=? snd kc) (r_dict r)) (snd kv)) t.

Definition compiles_ok (e : elem) : bool :=
  match g_compiled_valence_rules e with Ok t => rule_table_ok t && negb (match t with [] => true | _ => false end) | Err _ => false end &&
  match g_compiled_saturation_rules e with
  | Ok l => (List.length l =? List.length (e_common e) + List.length (e_exc e))%nat &&
            forallb (fun r => let '(c, _, v, i, _) := r in (-4 <=? c) && (c <=? 4) && (0 <=? i) && (i <=? v)) l
  | Err _ => false
  end &&
  forallb (fun x => let '(c, r, _, _) := x in existsb (fun k => (fst k =? c) && Bool.eqb (snd k) r) (g_compiled_charge_radical e)) (e_exc e).

Lemma compiles_ok_all : forallb compiles_ok elements = true.
Proof. vm_compute. reflexivity. Qed.

Lemma source_valence_tables_compile : forall e, In e elements ->
  exists t l, g_compiled_valence_rules e = Ok t /\ g_compiled_saturation_rules e = Ok l /\ t <> [] /\ rule_table_ok t = true.
Proof.
  intros e He. pose proof (proj1 (forallb_forall _ _) compiles_ok_all e He) as H. unfold compiles_ok in H.
  apply andb_prop in H. destruct H as [H _]. apply andb_prop in H. destruct H as [H1 H2].
  destruct (g_compiled_valence_rules e) as [t|]; [|discriminate].
  destruct (g_compiled_saturation_rules e) as [l|]; [|discriminate].
  apply andb_prop in H1. destruct H1 as [Ha Hb].
  exists t, l. repeat split; try assumption. intros E. subst. discriminate.
Qed.

(* every hydrogen count the translated valence_rules can hand to calc_implicit, for any element of the table and any
   charge / radical / valence, is 0..4 *)
Lemma source_rule_hydrogens : forall e c r v l x, In e elements ->
  g_valence_rules e c r v = Ok l -> In x l -> 0 <= r_h x <= 4.
Proof.
  intros e c r v l x He Hl Hx. destruct (source_valence_tables_compile e He) as [t [_ [Ht [_ [_ Hok]]]]].
  unfold g_valence_rules in Hl. rewrite Ht in Hl.
  destruct (rt_get t (c, r, v)) as [l'|] eqn:G; [|discriminate]. inversion Hl; subst l'.
  assert (Hin : exists k, In (k, l) t).
  { clear - G. induction t as [|[k' l'] t IH]; [discriminate|]. cbn [rt_get] in G.
    destruct (rkey_eqb (c, r, v) k'); [inversion G; subst; exists k'; left; reflexivity|].
    destruct (IH G) as [k Hk]. exists k. right. exact Hk. }
  destruct Hin as [k Hk]. unfold rule_table_ok in Hok. rewrite forallb_forall in Hok. specialize (Hok _ Hk).
  destruct k as [[kc kr] kv]. simpl in Hok.
  apply andb_prop in Hok. destruct Hok as [_ Hok]. rewrite forallb_forall in Hok. specialize (Hok x Hx).
  apply andb_prop in Hok. destruct Hok as [Hok _]. apply andb_prop in Hok. destruct Hok as [Hok _]. apply andb_prop in Hok. destruct Hok as [Hok _].
  apply andb_prop in Hok. destruct Hok as [A B]. apply Z.leb_le in A, B. lia.
Qed.

(* the two ways the compilation can fail, for ANY element record: exactly the IndexError of an empty _common_valences *)
Lemma source_compile_empty_common : forall e, e_common e = [] -> g_compiled_valence_rules e = Err IndexError.
Proof. intros e H. rewrite g_compiled_valence_rules_eq. unfold compiled_rules, compiled_rules_with. rewrite H. reflexivity. Qed.

Lemma source_rules_examples :
  g_valence_rules el_C 0 false 4 = Ok [mkRule [] [] 0] /\
  g_valence_rules el_C 0 false 1 = Ok [mkRule [] [] 3] /\
  g_valence_rules el_C 0 false 5 = Err ValenceError /\
  g_valence_rules el_N 1 false 4 = Ok [mkRule [] [] 0] /\
  g_compiled_charge_radical el_H = [(1, false); (0, true); (-1, false)] /\
  g_compiled_valence_rules (mkElem "X" 119 8 1 [] [] [] [] (0, 0%nat) 0 false false) = Err IndexError /\
  g_compiled_valence_rules (mkElem "X" 119 8 1 [] [] [1] [(0, true, 0, [(1, "Xx")])] (0, 0%nat) 0 false false) = Err KeyError.
Proof. vm_compute. repeat split; reflexivity. Qed.
