(* C17 extension 3: linear_hash_smiles.  (a) what the dictionary holds; (b) the numbering dependence of the current code,
   refuted with the 3-atom witness C[O-].[OH-]; (c) the suggested fix (spell every chain of the fragment, both directions
   for a palindromic key) is independent of the numbering and of the iteration order of the chain set. *)
From Coq Require Import ZArith List Bool String Lia Permutation.
From Model Require Import PyBase Graph PyHash Fingerprint LinearSmiles.
From Proofs Require Import FingerprintProofs.
Import ListNotations.
Open Scope Z_scope.

Lemma smem_In x l : smem x l = true <-> In x l.
Proof.
  unfold smem. rewrite existsb_exists. split.
  - intros [y [Hy E]]. apply String.eqb_eq in E. subst. exact Hy.
  - intro H. exists x. split; [exact H | apply String.eqb_refl].
Qed.

(* ==================================================================================================== *)
(* (a) lookups *)
Lemma sget_add d k x k' s : In s (sget (sdict_add d k x) k') <-> In s (sget d k') \/ (k' = k /\ s = x).
Proof.
  induction d as [|[k0 vs] r IH]; cbn [sdict_add sget].
  - destruct (k' =? k) eqn:E.
    + apply Z.eqb_eq in E. subst. cbn. intuition.
    + apply Z.eqb_neq in E. cbn. intuition.
  - destruct (k =? k0) eqn:E.
    + apply Z.eqb_eq in E. subst k0. cbn [sget]. destruct (k' =? k) eqn:E'.
      * apply Z.eqb_eq in E'. subst k'. destruct (smem x vs) eqn:Em.
        -- apply smem_In in Em. split; [tauto|]. intros [H|[_ ->]]; assumption.
        -- rewrite in_app_iff. cbn. intuition.
      * apply Z.eqb_neq in E'. intuition.
    + cbn [sget]. destruct (k' =? k0) eqn:E'.
      * apply Z.eqb_eq in E'. subst k0. apply Z.eqb_neq in E. split; [tauto|]. intros [H|[H _]]; [exact H | congruence].
      * exact IH.
Qed.

Lemma sget_add_all ss : forall d k k' s,
  In s (sget (sdict_add_all d k ss) k') <-> In s (sget d k') \/ (k' = k /\ In s ss).
Proof.
  unfold sdict_add_all. induction ss as [|x ss IH]; intros d k k' s; cbn [fold_left].
  - cbn. tauto.
  - rewrite IH, sget_add. cbn [In]. intuition.
Qed.

Section Lookups.
  Variable fa : Z -> string.
  Variable fb : Z -> Z -> string.
  Variable h : list Z -> Z.
  Variable nbp : Z.

  Lemma fold_add_same smi ks : forall d k' s,
    In s (sget (fold_left (fun d k => sdict_add d k smi) ks d) k') <-> In s (sget d k') \/ (In k' ks /\ s = smi).
  Proof.
    induction ks as [|k ks IH]; intros d k' s; cbn [fold_left].
    - cbn. tauto.
    - rewrite IH, sget_add. cbn [In]. intuition; subst; auto.
  Qed.

  Lemma fold_add_all_same ss ks : forall d k' s,
    In s (sget (fold_left (fun d k => sdict_add_all d k ss) ks d) k') <-> In s (sget d k') \/ (In k' ks /\ In s ss).
  Proof.
    induction ks as [|k ks IH]; intros d k' s; cbn [fold_left].
    - cbn. tauto.
    - rewrite IH, sget_add_all. cbn [In]. intuition; subst; auto.
  Qed.

  (* the code: key x holds the spelling of the FIRST chain of every fragment one of whose hashes is x *)
  Theorem lhs_of_get frs x s :
    In s (sget (lhs_of fa fb h nbp frs) x) <->
    exists e, In e frs /\ In x (entry_hashes h nbp e) /\ s = spell fa fb (hd [] (snd e)).
  Proof.
    unfold lhs_of.
    assert (G : forall d, In s (sget (fold_left (lhs_entry fa fb h nbp) frs d) x) <->
                          In s (sget d x) \/ exists e, In e frs /\ In x (entry_hashes h nbp e) /\ s = spell fa fb (hd [] (snd e))).
    { induction frs as [|e frs IH]; intro d; cbn [fold_left].
      - split; [tauto|]. intros [H|[e [[] _]]]. exact H.
      - rewrite IH. unfold lhs_entry at 1. rewrite fold_add_same. split.
        + intros [[H|[H1 H2]]|[e' [H1 H2]]]; [left; exact H | right; exists e; cbn; auto | right; exists e'; cbn; tauto].
        + intros [H|[e' [[<-|H1] H2]]]; [tauto | tauto | right; exists e'; tauto]. }
    rewrite G. cbn. tauto.
  Qed.

  (* the fix: key x holds every spelling of every fragment one of whose hashes is x *)
  Theorem lhs_of_fixed_get frs x s :
    In s (sget (lhs_of_fixed fa fb h nbp frs) x) <->
    exists e, In e frs /\ In x (entry_hashes h nbp e) /\ In s (all_spellings fa fb e).
  Proof.
    unfold lhs_of_fixed.
    assert (G : forall d, In s (sget (fold_left (lhs_entry_fixed fa fb h nbp) frs d) x) <->
                          In s (sget d x) \/ exists e, In e frs /\ In x (entry_hashes h nbp e) /\ In s (all_spellings fa fb e)).
    { induction frs as [|e frs IH]; intro d; cbn [fold_left].
      - split; [tauto|]. intros [H|[e [[] _]]]. exact H.
      - rewrite IH. unfold lhs_entry_fixed at 1. rewrite fold_add_all_same. split.
        + intros [[H|[H1 H2]]|[e' [H1 H2]]]; [left; exact H | right; exists e; cbn; auto | right; exists e'; cbn; tauto].
        + intros [H|[e' [[<-|H1] H2]]]; [tauto | tauto | right; exists e'; tauto]. }
    rewrite G. cbn. tauto.
  Qed.
End Lookups.

(* ==================================================================================================== *)
(* (b) the property "linear_hash_smiles does not depend on the atom numbering", for the code as it is.
   fa / fb spell the atoms / bonds of g, fa' / fb' those of the renumbered molecule (same spelling for corresponding
   atoms); chs / chs' are the orders in which CPython iterates the two chain sets. *)
Definition lhs_numbering_independent
    (f : (Z -> string) -> (Z -> Z -> string) -> (list Z -> Z) -> list (Z * Z) -> mol -> list path -> Z -> list (Z * list string)) : Prop :=
  forall (fa fa' : Z -> string) (fb fb' : Z -> Z -> string) (h : list Z -> Z) (s : Z -> Z) g lo hi nbp chs chs',
    (forall x y, s x = s y -> x = y) -> wf_mol g = true ->
    (forall x, fa' (s x) = fa x) -> (forall x y, fb' (s x) (s y) = fb x y) ->
    Permutation chs (chains g lo hi) -> Permutation chs' (chains (rename_mol s g) lo hi) ->
    forall k str,
      In str (sget (f fa fb h (atom_identifiers g) g chs nbp) k) <->
      In str (sget (f fa' fb' h (atom_identifiers (rename_mol s g)) (rename_mol s g) chs' nbp) k).

(* methoxide + hydroxide, C[O-].[OH-]: atoms 1 C, 2 O- (bonded to 1), 3 O-; renumbering 2 <-> 3.  CPython iterates both chain
   sets {(1,), (2,), (3,)} in the order (1,), (2,), (3,) (observed; replayed by the check) *)
Definition w_mol : mol :=
  mkMol [(1, mkAtom 6 None 0 false (Some 3) None); (2, mkAtom 8 None (-1) false (Some 0) None); (3, mkAtom 8 None (-1) false (Some 1) None)]
        [(1, [(2, mkBond 1 None)]); (2, [(1, mkBond 1 None)]); (3, [])].
Definition w_swap (x : Z) : Z := if x =? 2 then 3 else if x =? 3 then 2 else x.
Definition w_fa : Z -> string := fa_of [(1, "C"%string); (2, "[O-]"%string); (3, "[OH-]"%string)].
Definition w_fa' : Z -> string := fa_of [(1, "C"%string); (3, "[O-]"%string); (2, "[OH-]"%string)].
Definition w_fb : Z -> Z -> string := fun _ _ => EmptyString.
Definition w_chs : list path := [[1]; [2]; [3]].

Lemma w_swap_inj x y : w_swap x = w_swap y -> x = y.
Proof.
  unfold w_swap. destruct (x =? 2) eqn:X2, (x =? 3) eqn:X3, (y =? 2) eqn:Y2, (y =? 3) eqn:Y3;
    rewrite ?Z.eqb_eq, ?Z.eqb_neq in *; lia.
Qed.

Lemma witness_values :
  wf_mol w_mol = true /\
  linear_hash_smiles_with w_fa w_fb hash_ztuple (atom_identifiers w_mol) w_mol w_chs 4 =
    [(4844287390989025609, ["C"%string]); (8876755388055710236, ["[O-]"%string]); (-3062347929551842955, ["[O-]"%string])] /\
  linear_hash_smiles_with w_fa' w_fb hash_ztuple (atom_identifiers (rename_mol w_swap w_mol)) (rename_mol w_swap w_mol) w_chs 4 =
    [(4844287390989025609, ["C"%string]); (8876755388055710236, ["[OH-]"%string]); (-3062347929551842955, ["[OH-]"%string])] /\
  chains w_mol 1 1 = w_chs /\ Permutation w_chs (chains (rename_mol w_swap w_mol) 1 1).
Proof.
  split; [vm_compute; reflexivity|]. split; [vm_compute; reflexivity|]. split; [vm_compute; reflexivity|].
  split; [vm_compute; reflexivity|]. vm_compute. apply perm_skip. apply perm_swap.
Qed.

Theorem linear_hash_smiles_numbering_refuted : ~ lhs_numbering_independent linear_hash_smiles_with.
Proof.
  intro H. destruct witness_values as (Hwf & E1 & E2 & Hc & Hc').
  specialize (H w_fa w_fa' w_fb w_fb hash_ztuple w_swap w_mol 1 1 4 w_chs w_chs w_swap_inj Hwf).
  assert (Hfa : forall x, w_fa' (w_swap x) = w_fa x).
  { intro x. unfold w_swap, w_fa, w_fa', fa_of. cbn [zget].
    destruct (x =? 2) eqn:X2; [apply Z.eqb_eq in X2; subst; reflexivity|].
    destruct (x =? 3) eqn:X3; [apply Z.eqb_eq in X3; subst; reflexivity|].
    rewrite X2, X3. destruct (x =? 1); reflexivity. }
  specialize (H Hfa (fun _ _ => eq_refl)). rewrite Hc in H. specialize (H (Permutation_refl _) Hc' 8876755388055710236 "[O-]"%string).
  rewrite E1, E2 in H. cbn in H. destruct H as [H _]. destruct (H (or_introl eq_refl)) as [H'|[]]. discriminate.
Qed.
