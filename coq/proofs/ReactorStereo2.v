(* C16 (extension 2): cis/trans bonds and allenes the template does not touch *)
From Coq Require Import ZArith List Bool Lia.
From Model Require Import PyBase Graph Reactor ReactorStage Stereo.
From Proofs Require Import ReactorProofs StereoProofs ReactorStereo.
Import ListNotations.
Open Scope Z_scope.

(* ---------- the sign algebra (C12 model translate_env = tail of _translate_cis_trans_sign / _translate_allene_sign) ---------- *)
(* reading an entry through its own first two neighbours is the identity *)
Lemma translate_env_same (isH : Z -> bool) n0 n1 o2 o3 s : translate_env isH (n0, n1, o2, o3) n0 n1 s = Ok s.
Proof.
  unfold translate_env. rewrite !Z.eqb_refl. cbn [option_map].
  change (ct_lookup 0 1) with (Some false). reflexivity.
Qed.

(* the entry of the product holds the same four atoms in another arrangement (nn on one end, nm on the other): the label
   the loop stores, read again through the old opposite neighbours, is the old label -- in both orientations of the path *)
Theorem translate_env_roundtrip4 (isH : Z -> bool) m0 m1 m2 m3 a b s r :
  NoDup [m0; m1; m2; m3] -> In a [0; 2] -> In b [1; 3] ->
  let nn := StereoProofs.pick (m0, m1, m2, m3) a in let nm := StereoProofs.pick (m0, m1, m2, m3) b in
  (translate_env isH (m0, m1, Some m2, Some m3) nn nm s = Ok r -> translate_env isH (m0, m1, Some m2, Some m3) nn nm r = Ok s) /\
  (translate_env isH (m0, m1, Some m2, Some m3) nm nn s = Ok r -> translate_env isH (m0, m1, Some m2, Some m3) nm nn r = Ok s).
Proof.
  intros Hn Ha Hb nn nm. destruct (translate_env_law4 isH m0 m1 m2 m3 a b s Hn Ha Hb) as [L1 L2].
  destruct (translate_env_law4 isH m0 m1 m2 m3 a b r Hn Ha Hb) as [R1 R2]. fold nn nm in L1, L2, R1, R2.
  split; intros H.
  - rewrite L1 in H. inversion H; subst r. rewrite R1. f_equal. destruct s, (ct_parity a b); reflexivity.
  - rewrite L2 in H. inversion H; subst r. rewrite R2. f_equal. destruct s, (ct_parity a b); reflexivity.
Qed.

(* the same with missing substituents addressed by hydrogens *)
Theorem translate_env_roundtripH (isH : Z -> bool) m0 m1 hA hB a b s r :
  m0 <> m1 -> isH m0 = false -> isH m1 = false -> isH hA = true -> isH hB = true -> In a [0; 2] -> In b [1; 3] ->
  let nn := StereoProofs.pick (m0, m1, hA, hB) a in let nm := StereoProofs.pick (m0, m1, hA, hB) b in
  translate_env isH (m0, m1, None, None) nn nm s = Ok r -> translate_env isH (m0, m1, None, None) nn nm r = Ok s.
Proof.
  intros Hne H0 H1 HA HB Ha Hb nn nm H.
  pose proof (translate_env_lawH isH m0 m1 hA hB a b s Hne H0 H1 HA HB Ha Hb) as L.
  pose proof (translate_env_lawH isH m0 m1 hA hB a b r Hne H0 H1 HA HB Ha Hb) as R. fold nn nm in L, R.
  rewrite L in H. inversion H; subst r. rewrite R. f_equal. destruct s, (ct_parity a b); reflexivity.
Qed.

(* ---------- structure: the ends of an untouched cumulene ---------- *)
Lemma subset_z_refl l : subset_z l l = true.
Proof. unfold subset_z. apply forallb_forall. intros x Hx. apply zmem_In. exact Hx. Qed.
Lemma same_keys_z_refl l : same_keys_z l l = true.
Proof. unfold same_keys_z. rewrite subset_z_refl. reflexivity. Qed.

Section Untouched.
  Variables (g : mol) (mapping : list (Z * Z)) (tpl : template) (del : list Z) (new : mol) (mp' : list (Z * Z)).
  Hypothesis Hrun : patcher g mapping tpl del = Ok (new, mp').
  Hypothesis Hwf : wf_mol g = true.
  Hypothesis Hpos : forall y, In y (ids g) -> 0 < y.
  Variables (isH isH' : Z -> bool).

  (* t is an atom the template does not touch and all of whose neighbours survive, hydrogens staying hydrogens *)
  Definition intact (t : Z) : Prop :=
    In t (ids g) /\ ~ named tpl mp' t /\ ~ In t del /\
    (forall m, In m (nbr_ids g t) -> ~ In m del) /\ (forall m, In m (nbr_ids g t) -> isH' m = isH m).

  Lemma intact_nbrs t : intact t -> nbr_ids new t = nbr_ids g t.
  Proof.
    intros (Ht & Hn & Hd & Hnb & _).
    rewrite (patcher_untouched_neighbours g mapping tpl del new mp' t Hrun Hwf Hpos Ht Hn Hd).
    apply filter_all. intros m Hm. apply negb_true_iff. apply zmem_false. apply Hnb. exact Hm.
  Qed.

  Lemma intact_order8 t x : intact t -> In x (nbr_ids g t) -> order8 new t x = order8 g t x.
  Proof.
    intros (Ht & Hn & Hd & Hnb & _) Hx. unfold order8.
    destruct (patcher_frame _ _ _ _ _ _ Hrun Hwf Hpos) as (_ & F2 & _).
    assert (Hxi : In x (ids g)).
    { destruct (wf_mol_facts g Hwf) as (_ & _ & Hadj). unfold nbr_ids, nbrs in Hx.
      destruct (zget (m_adj g) t) as [bs|] eqn:Ebs; [|destruct Hx].
      unfold keys in Hx. apply in_map_iff in Hx. destruct Hx as ([x' b] & <- & Hb).
      apply (proj2 (Hadj t bs (zget_Some_In _ _ _ Ebs)) x' b Hb). }
    rewrite (F2 t x Ht Hxi Hd (Hnb x Hx) (fun H => Hn (proj1 H))).
    destruct (bond_of g t x); reflexivity.
  Qed.

  Lemma intact_end_nbrs t i : intact t -> end_nbrs isH' new t i = end_nbrs isH g t i.
  Proof.
    intros Hi. unfold end_nbrs. rewrite (intact_nbrs t Hi). apply filter_ext_in. intros x Hx.
    rewrite (intact_order8 t x Hi Hx). destruct Hi as (_ & _ & _ & _ & HH). rewrite (HH x Hx). reflexivity.
  Qed.

  (* a cis/trans bond or allene with both terminal atoms intact: the registry entry of the product is the entry of the
     input, and the label the translation loop computes from the old label s is s *)
  Theorem untouched_cumulene_same_configuration : forall t1 i1 t2 i2,
    intact t1 -> intact t2 ->
    cum_env isH' new t1 i1 t2 i2 = cum_env isH g t1 i1 t2 i2 /\
    forall e s, cum_env isH g t1 i1 t2 i2 = Some e ->
      patched_cum_label isH isH' g new t1 i1 t2 i2 s = Ok (Some s) /\
      translate_env isH' e (fst (fst (fst e))) (snd (fst (fst e))) s = Ok s.
  Proof.
    intros t1 i1 t2 i2 H1 H2.
    assert (E : cum_env isH' new t1 i1 t2 i2 = cum_env isH g t1 i1 t2 i2).
    { unfold cum_env. rewrite (intact_end_nbrs t1 i1 H1), (intact_end_nbrs t2 i2 H2). reflexivity. }
    split; [exact E|]. intros [[[n0 n1] o2] o3] s He. cbn [fst snd]. split; [|apply translate_env_same].
    unfold patched_cum_label. rewrite E, He. rewrite same_keys_z_refl, translate_env_same. reflexivity.
  Qed.
End Untouched.

(* non-vacuity: (E)-CC=C(C)... : 1-2=3-4 with substituents 1 on 2 and 4 on 3; a far atom 5 (on 4) is edited *)
Definition ct_mol : mol :=
  mkMol [(1, mkAtom 6 None 0 false (Some 3) None); (2, mkAtom 6 None 0 false (Some 1) None); (3, mkAtom 6 None 0 false (Some 1) None);
         (4, mkAtom 6 None 0 false (Some 2) None); (5, mkAtom 6 None 0 false (Some 2) None); (6, mkAtom 8 None 0 false (Some 1) None)]
        [(1, [(2, mkBond 1 None)]); (2, [(1, mkBond 1 None); (3, mkBond 2 (Some true))]); (3, [(2, mkBond 2 (Some true)); (4, mkBond 1 None)]);
         (4, [(3, mkBond 1 None); (5, mkBond 1 None)]); (5, [(4, mkBond 1 None); (6, mkBond 1 None)]); (6, [(5, mkBond 1 None)])].

Example untouched_cumulene_example :
  wf_mol ct_mol = true /\
  exists new mp', patcher ct_mol [(1, 5); (2, 6)] st_tpl [] = Ok (new, mp') /\
    cum_env (is_H_atom ct_mol) ct_mol 2 3 3 2 = Some (1, 4, None, None) /\
    cum_env (is_H_atom new) new 2 3 3 2 = Some (1, 4, None, None) /\
    patched_cum_label (is_H_atom ct_mol) (is_H_atom new) ct_mol new 2 3 3 2 true = Ok (Some true).
Proof.
  split; [vm_compute; reflexivity|]. eexists _, _. split; [vm_compute; reflexivity|]. repeat split; vm_compute; reflexivity.
Qed.
