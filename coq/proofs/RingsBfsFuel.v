(* C06 -- round 4: the fuel of the _bfs model is SUFFICIENT (from observation to theorem).
   bfs_levels is structurally recursive on a fuel argument and returns Err OtherError when it runs out; bfs_paths starts it with
   2 * (number of atoms) + 2.  Proved here for every graph, every oracle (right or wrong) and every front: a run with that much fuel
   never reaches the out-of-fuel case, so the error value of the model always comes from the oracle / the dictionaries and never from
   the artificial bound; and any larger fuel gives the same result.
   Measure: 2 * |atoms| + (0 if a key of the current front is still in atoms, else 1).  A level whose front contains an atom of
   [atoms] removes it; a level whose front does not (keys re-entered by `next_stack[n] = [n]` for atoms of the previous front) is
   followed by a front made only of atoms that are still in [atoms] -- or by a restart, which pops one. *)
From Coq Require Import ZArith List Bool Lia.
From Model Require Import PyBase Graph Rings RingsFilter RingsGen RingsGenSpec.
From Proofs Require Import RingsProofs RingsGenWalks.
Import ListNotations.
Open Scope Z_scope.

(* true iff the run reaches the [O] case of bfs_levels *)
Fixpoint bfs_exhausts (fuel : nat) (g : graph) (atoms : list Z) (term : list path) (stack : list (Z * path)) (o : oracle) : bool :=
  match fuel with
  | O => true
  | S f =>
      match bfs_entries g atoms (keys stack) (mkBst term [] [], o) stack with
      | Err _ => false
      | Ok (s, o1) =>
          let atoms' := minus atoms (keys stack) in
          match atoms' with
          | [] => false
          | _ =>
              match b_next s with
              | [] => match bfs_start g atoms' o1 with
                      | Err _ => false
                      | Ok (atoms'', st, o2) => bfs_exhausts f g atoms'' (b_term s) st o2
                      end
              | st => bfs_exhausts f g atoms' (b_term s) st o1
              end
          end
      end
  end.

Definition bfs_paths_fuel (fuel : nat) (g : graph) (o : oracle) : pyres (list path) :=
  match bfs_start g (keys g) o with
  | Err x => Err x
  | Ok (atoms, st, o1) => bfs_levels fuel g atoms [] st o1
  end.
Definition bfs_paths_exhausts (g : graph) (o : oracle) : bool :=
  match bfs_start g (keys g) o with
  | Err x => false
  | Ok (atoms, st, o1) => bfs_exhausts (2 * length g + 2) g atoms [] st o1
  end.

(* a run that does not exhaust its fuel is not changed by more fuel *)
Lemma bfs_levels_more_fuel g : forall fuel atoms term stack o k, bfs_exhausts fuel g atoms term stack o = false ->
  bfs_levels (fuel + k) g atoms term stack o = bfs_levels fuel g atoms term stack o.
Proof.
  induction fuel as [|f IH]; intros atoms term stack o k H; [discriminate|].
  cbn [bfs_exhausts] in H. cbn [Nat.add bfs_levels].
  destruct (bfs_entries g atoms (keys stack) (mkBst term [] [], o) stack) as [[s o1]|x]; [|reflexivity].
  cbv zeta in H. destruct (minus atoms (keys stack)) as [|a1 at1]; [reflexivity|].
  destruct (b_next s) as [|n0 nrest].
  - destruct (bfs_start g (a1 :: at1) o1) as [[[atoms2 st] o2]|x]; [|reflexivity]. apply IH. exact H.
  - apply IH. exact H.
Qed.

(* ---------- the keys of the next front are atoms of the current atom set ---------- *)
Section Keys.
Variable g : graph.
Variable atoms : list Z.
Definition inA (e : Z * path) : Prop := zmem (fst e) atoms = true.
Definition KA (s : bst) : Prop := Forall inA (b_next s).

Lemma meet_next_keys s n p : KA s -> zmem n atoms = true -> KA (meet_next s n p).
Proof.
  intros K Hn. unfold meet_next, KA in *. destruct (dget Z.eqb (b_next s) n) as [q|].
  - destruct (len1 q); cbn [b_next]; [exact K | apply Forall_dput; [exact K | exact Hn]].
  - cbn [b_next]. apply Forall_dput; [exact K | exact Hn].
Qed.

Lemma bfs_branch_keys sk tail s n : KA s -> zmem n atoms = true -> KA (bfs_branch sk tail s n).
Proof.
  intros K Hn. unfold bfs_branch. destruct (zmem n (b_odd s)).
  - destruct (zmem n sk).
    + destruct (dhas Z.eqb (b_next s) n); [|exact K]. unfold KA. cbn [b_next]. apply Forall_forall. intros e He.
      apply In_ddel in He. unfold KA in K. rewrite Forall_forall in K. apply K. exact He.
    + unfold KA. cbn [b_next]. apply Forall_dput; [exact K | exact Hn].
  - destruct (zmem n sk); [exact K | apply meet_next_keys; assumption].
Qed.

Lemma bfs_entry_keys sk s o e s' o' : KA s -> bfs_entry g atoms sk (s, o) e = Ok (s', o') -> KA s'.
Proof.
  intros K H. destruct e as [tail p]. unfold bfs_entry in H.
  set (nb := filter (fun x => zmem x atoms) (set_of_z (gnbrs g tail))) in *.
  assert (NB : forall x, In x nb -> zmem x atoms = true) by (intros x Hx; apply filter_In in Hx; apply Hx).
  destruct nb as [|n [|n2 rest]] eqn:En.
  - inversion H; subst. exact K.
  - assert (Hn : zmem n atoms = true) by (apply NB; left; reflexivity).
    destruct (zmem n (b_odd s)).
    + inversion H; subst. unfold KA. cbn [b_next]. apply Forall_dput; [exact K | exact Hn].
    + destruct (zmem n sk); inversion H; subst; [exact K | apply meet_next_keys; assumption].
  - destruct (ask o (n :: n2 :: rest)) as [[order o1]|x] eqn:A; [|discriminate]. inversion H; subst.
    assert (Ord : forall x, In x order -> zmem x atoms = true) by (intros x Hx; apply NB; apply (ask_In _ _ _ _ x A Hx)).
    assert (K0 : KA (mkBst (if len1 p then b_term s else b_term s ++ [p]) (b_next s) (b_odd s))) by exact K.
    clear - Ord K0. revert K0. generalize (mkBst (if len1 p then b_term s else b_term s ++ [p]) (b_next s) (b_odd s)).
    induction order as [|x order IH]; intros s0 K0; [exact K0|]. cbn [fold_left].
    apply IH; [intros y Hy; apply Ord; right; exact Hy|]. apply bfs_branch_keys; [exact K0 | apply Ord; left; reflexivity].
Qed.

Lemma bfs_entries_keys sk es : forall s o s' o', KA s -> bfs_entries g atoms sk (s, o) es = Ok (s', o') -> KA s'.
Proof.
  induction es as [|e es IH]; intros s o s' o' K H; cbn [bfs_entries] in H; [inversion H; subst; exact K|].
  destruct (bfs_entry g atoms sk (s, o) e) as [[s1 o1]|x] eqn:E; [|discriminate].
  apply (IH s1 o1 s' o' (bfs_entry_keys _ _ _ _ _ _ K E) H).
Qed.
End Keys.

(* ---------- the measure ---------- *)
Lemma minus_length_le a b : (length (minus a b) <= length a)%nat.
Proof. unfold minus. induction a as [|x a IH]; cbn [filter length]; [lia|]. destruct (negb (zmem x b)); cbn [length]; lia. Qed.

Lemma minus_length_lt a b x : In x a -> In x b -> (length (minus a b) < length a)%nat.
Proof.
  unfold minus. induction a as [|y a IH]; intros Ha Hb; [destruct Ha|]. cbn [filter length].
  destruct Ha as [E|Ha].
  - subst y. assert (zmem x b = true) as -> by (apply zmem_In; exact Hb). cbn [negb].
    pose proof (minus_length_le a b) as L. unfold minus in L. lia.
  - specialize (IH Ha Hb). destruct (negb (zmem y b)); cbn [length]; lia.
Qed.

Lemma bfs_start_length g atoms o atoms' st o' : bfs_start g atoms o = Ok (atoms', st, o') -> (length atoms' < length atoms)%nat.
Proof.
  unfold bfs_start. destruct atoms as [|a0 at0]; [discriminate|]. destruct o as [|[|tail [|x l]] o1]; try discriminate.
  destruct (zmem tail (a0 :: at0)) eqn:M; [|discriminate]. apply zmem_In in M.
  assert (L : (length (minus (a0 :: at0) [tail]) < length (a0 :: at0))%nat) by (apply (minus_length_lt _ _ tail M); left; reflexivity).
  destruct (filter (fun x => zmem x (minus (a0 :: at0) [tail])) (set_of_z (gnbrs g tail))) as [|n rest].
  - intros H. inversion H; subst. exact L.
  - destruct (ask o1 (n :: rest)) as [[order o2]|x]; [|discriminate]. intros H. inversion H; subst. exact L.
Qed.

Definition hit (atoms : list Z) (stack : list (Z * path)) : bool := existsb (fun k => zmem k atoms) (keys stack).
Definition phi (atoms : list Z) (stack : list (Z * path)) : nat := (2 * length atoms + (if hit atoms stack then 0 else 1))%nat.

Lemma phi_le atoms stack : (phi atoms stack <= 2 * length atoms + 1)%nat.
Proof. unfold phi. destruct (hit atoms stack); lia. Qed.

Theorem bfs_levels_fuel_sufficient g : forall fuel atoms term stack o, (phi atoms stack < fuel)%nat ->
  bfs_exhausts fuel g atoms term stack o = false.
Proof.
  induction fuel as [|f IH]; intros atoms term stack o P; [lia|]. cbn [bfs_exhausts].
  destruct (bfs_entries g atoms (keys stack) (mkBst term [] [], o) stack) as [[s o1]|x] eqn:E; [|reflexivity].
  assert (K : KA atoms s) by (apply (bfs_entries_keys g atoms (keys stack) stack (mkBst term [] []) o s o1 (Forall_nil _) E)).
  cbv zeta. destruct (minus atoms (keys stack)) as [|a1 at1] eqn:Ea; [reflexivity|].
  pose proof (minus_length_le atoms (keys stack)) as Lle. rewrite Ea in Lle.
  destruct (b_next s) as [|[n0 q0] nrest] eqn:En.
  - destruct (bfs_start g (a1 :: at1) o1) as [[[atoms2 st] o2]|x] eqn:S; [|reflexivity].
    apply IH. pose proof (bfs_start_length _ _ _ _ _ _ S) as L2. pose proof (phi_le atoms2 st). unfold phi in P.
    destruct (hit atoms stack); lia.
  - apply IH. unfold phi in P. destruct (hit atoms stack) eqn:H.
    + (* an atom of the front is removed *)
      unfold hit in H. apply existsb_exists in H. destruct H as [k [Hk Mk]]. apply zmem_In in Mk.
      pose proof (minus_length_lt atoms (keys stack) k Mk Hk) as Llt. rewrite Ea in Llt.
      pose proof (phi_le (a1 :: at1) ((n0, q0) :: nrest)). lia.
    + (* no atom removed: the new front consists of atoms that stay *)
      assert (H' : hit (a1 :: at1) ((n0, q0) :: nrest) = true).
      { unfold hit. cbn [keys map fst existsb]. apply orb_true_iff. left. rewrite <- Ea. apply zmem_In. unfold minus. apply filter_In.
        unfold KA in K. rewrite En in K. inversion K as [|? ? K0 _]; subst. unfold inA in K0. cbn [fst] in K0. split; [apply zmem_In; exact K0|].
        destruct (zmem n0 (keys stack)) eqn:M; [|reflexivity]. exfalso. apply zmem_In in M.
        assert (X : hit atoms stack = true) by (unfold hit; apply existsb_exists; exists n0; split; [exact M | exact K0]).
        rewrite H in X. discriminate. }
      unfold phi. rewrite H'. lia.
Qed.

(* the fuel bfs_paths starts with is enough, for every graph and every oracle *)
Theorem bfs_paths_never_out_of_fuel : forall g o, bfs_paths_exhausts g o = false.
Proof.
  intros g o. unfold bfs_paths_exhausts. destruct (bfs_start g (keys g) o) as [[[atoms st] o1]|x] eqn:S; [|reflexivity].
  apply bfs_levels_fuel_sufficient. pose proof (bfs_start_length _ _ _ _ _ _ S) as L. pose proof (phi_le atoms st).
  unfold keys in L. rewrite map_length in L. lia.
Qed.

(* hence the result does not depend on the bound: any larger fuel computes the same *)
Theorem bfs_paths_fuel_independent : forall g o k, bfs_paths_fuel (2 * length g + 2 + k) g o = bfs_paths g o.
Proof.
  intros g o k. pose proof (bfs_paths_never_out_of_fuel g o) as H. unfold bfs_paths_fuel, bfs_paths, bfs_paths_exhausts in *.
  destruct (bfs_start g (keys g) o) as [[[atoms st] o1]|x]; [|reflexivity]. apply bfs_levels_more_fuel. exact H.
Qed.

Lemma bfs_paths_fuel_default : forall g o, bfs_paths_fuel (2 * length g + 2) g o = bfs_paths g o.
Proof. reflexivity. Qed.

(* non-vacuity: a triangle with the pop order 1, then neighbours 2, 3: two chains, the run does not exhaust the fuel; with no fuel
   left the same front does (the predicate is not constantly false) *)
Example bfs_fuel_example :
  bfs_paths [(1, [2; 3]); (2, [1; 3]); (3, [1; 2])] [[1]; [2; 3]] = Ok [[1; 2; 3]; [1; 3]] /\
  bfs_paths_exhausts [(1, [2; 3]); (2, [1; 3]); (3, [1; 2])] [[1]; [2; 3]] = false /\
  bfs_exhausts 0 [(1, [2; 3]); (2, [1; 3]); (3, [1; 2])] [2; 3] [] [(2, [1; 2]); (3, [1; 3])] [] = true.
Proof. repeat split; vm_compute; reflexivity. Qed.
