(* C18: finite theorems over the generated element tables.  Every statement is a boolean sweep over
   the complete generated table, checked by the kernel's evaluator and lifted to a forall-statement. *)
From Coq Require Import ZArith List String Bool Lia.
From Model Require Import PyBase PeriodicTable.
From Gen Require Import Elements RuntimeDump.
Import ListNotations.
Open Scope string_scope.
Open Scope Z_scope.

(* The standard periodic table, written here independently of the code. *)
Definition std_symbols : list string :=
  ["H"; "He"; "Li"; "Be"; "B"; "C"; "N"; "O"; "F"; "Ne"; "Na"; "Mg"; "Al"; "Si"; "P"; "S"; "Cl"; "Ar";
   "K"; "Ca"; "Sc"; "Ti"; "V"; "Cr"; "Mn"; "Fe"; "Co"; "Ni"; "Cu"; "Zn"; "Ga"; "Ge"; "As"; "Se"; "Br"; "Kr";
   "Rb"; "Sr"; "Y"; "Zr"; "Nb"; "Mo"; "Tc"; "Ru"; "Rh"; "Pd"; "Ag"; "Cd"; "In"; "Sn"; "Sb"; "Te"; "I"; "Xe";
   "Cs"; "Ba"; "La"; "Ce"; "Pr"; "Nd"; "Pm"; "Sm"; "Eu"; "Gd"; "Tb"; "Dy"; "Ho"; "Er"; "Tm"; "Yb"; "Lu";
   "Hf"; "Ta"; "W"; "Re"; "Os"; "Ir"; "Pt"; "Au"; "Hg"; "Tl"; "Pb"; "Bi"; "Po"; "At"; "Rn";
   "Fr"; "Ra"; "Ac"; "Th"; "Pa"; "U"; "Np"; "Pu"; "Am"; "Cm"; "Bk"; "Cf"; "Es"; "Fm"; "Md"; "No"; "Lr";
   "Rf"; "Db"; "Sg"; "Bh"; "Hs"; "Mt"; "Ds"; "Rg"; "Cn"; "Nh"; "Fl"; "Mc"; "Lv"; "Ts"; "Og"].

(* standard (period, group) of element number n, written independently: used to pin the Period/Group bases *)
Definition std_period (n : Z) : Z :=
  if n <=? 2 then 1 else if n <=? 10 then 2 else if n <=? 18 then 3 else if n <=? 36 then 4
  else if n <=? 54 then 5 else if n <=? 86 then 6 else 7.
Definition std_group (n : Z) : Z :=
  if n =? 1 then 1 else if n =? 2 then 18
  else if n <=? 18 then (let k := (n - 2) mod 8 in if k =? 0 then 18 else if k <=? 2 then k else k + 10)
  else if n <=? 54 then (let k := (n - 18) mod 18 in if k =? 0 then 18 else k)
  else if n <=? 86 then (if n <=? 56 then n - 54 else if n <=? 71 then 3 else n - 68)
  else (if n <=? 88 then n - 86 else if n <=? 103 then 3 else n - 100).

Definition std_symbol (n : Z) : string := znth std_symbols (n - 1) "".

Definition all_numbers : list Z := zrange 1 119.

(* ---- 1. symbol / number lookups are mutually inverse and equal the standard table ---- *)
Definition lookup_ok (n : Z) : bool :=
  match from_number n with
  | Some e => (e_num e =? n) && String.eqb (e_sym e) (std_symbol n) &&
              match from_symbol (e_sym e) with
              | Some e' => (e_num e' =? n) && String.eqb (e_sym e') (e_sym e)
              | None => false
              end
  | None => false
  end.

Lemma lookups_ok_all : forallb lookup_ok all_numbers = true.
Proof. vm_compute. reflexivity. Qed.

Lemma lookups_inverse_std :
  forall n, 1 <= n <= 118 ->
    exists e, from_number n = Some e /\ e_num e = n /\ e_sym e = std_symbol n /\
              exists e', from_symbol (e_sym e) = Some e' /\ e_num e' = n /\ e_sym e' = e_sym e.
Proof.
  intros n Hn.
  assert (Hin : In n all_numbers) by (apply zrange_In; lia).
  pose proof (proj1 (forallb_forall _ _) lookups_ok_all n Hin) as H.
  unfold lookup_ok in H.
  destruct (from_number n) as [e|]; [|discriminate].
  destruct (from_symbol (e_sym e)) as [e'|] eqn:E'; [|rewrite andb_false_r in H; discriminate].
  apply andb_prop in H. destruct H as [H H3]. apply andb_prop in H. destruct H as [H1 H2].
  apply andb_prop in H3. destruct H3 as [H3 H4].
  exists e. split; [reflexivity|]. split; [apply Z.eqb_eq; exact H1|]. split; [apply String.eqb_eq; exact H2|].
  exists e'. split; [exact E'|]. split; [apply Z.eqb_eq; exact H3 | apply String.eqb_eq; exact H4].
Qed.

(* exactly 118 element classes, numbers and symbols pairwise distinct, nothing outside 1..118 *)
Lemma table_shape :
  List.length elements = 118%nat /\ nodup_z (map e_num elements) = true /\ nodup_s (map e_sym elements) = true /\
  forallb (fun e => (1 <=? e_num e) && (e_num e <=? 118)) elements = true.
Proof. vm_compute. repeat split; reflexivity. Qed.

Lemma out_of_range_rejected : from_number 0 = None /\ from_number 119 = None /\ from_number (-1) = None.
Proof. vm_compute. repeat split; reflexivity. Qed.

Lemma period_group_std :
  forallb (fun e => (e_period e =? std_period (e_num e)) && (e_group e =? std_group (e_num e))) elements = true.
Proof. vm_compute. reflexivity. Qed.

(* ---- 2. isotope tables ---- *)
Lemma isotope_tables_same_keys :
  forallb (fun e => same_keys_z (keys (e_dist e)) (keys (e_mass e)) &&
                    nodup_z (keys (e_dist e)) && nodup_z (keys (e_mass e)) &&
                    negb (match e_dist e with [] => true | _ => false end)) elements = true.
Proof. vm_compute. reflexivity. Qed.

Lemma mass_computable_all : forallb mass_computable elements = true.
Proof. vm_compute. reflexivity. Qed.

Lemma avg_mass_defined_positive :
  forallb (fun e => match avg_mass_e24 e with Some m => 0 <? m | None => false end) elements = true.
Proof. vm_compute. reflexivity. Qed.

(* abundances are non-negative and sum to 1 within 1e-3 (exact decimals; the tables are rounded) *)
Definition dist_sum_e12 (e : elem) : Z := fold_left (fun a kv => a + dec_scale (snd kv) 12) (e_dist e) 0.
Lemma abundances_normalised :
  forallb (fun e => forallb (fun kv => 0 <=? fst (snd kv)) (e_dist e) &&
                    (Z.abs (dist_sum_e12 e - 10 ^ 12) <=? 10 ^ 9)) elements = true.
Proof. vm_compute. reflexivity. Qed.

(* reference (MDL) isotope among the tabulated keys: FALSE on the unchanged tree for the 19 elements below
   (known findings: the MDL reference mass number is the rounded atomic weight, which is not a tabulated
   isotope for them). *)
Definition mdl_isotope_exceptions : list string :=
  ["Pu"; "Cm"; "Bk"; "Cf"; "Lr"; "Rf"; "Db"; "Ni"; "Ag"; "Rg"; "Zn"; "Ga"; "Tl"; "Nh"; "Sb"; "Se"; "Po"; "Br"; "Ts"].

Definition mdl_in_keys (e : elem) : bool := zmem (e_mdl e) (keys (e_dist e)).

Lemma reference_isotope_tabulated_partial :
  forallb (fun e => mdl_in_keys e || smem (e_sym e) mdl_isotope_exceptions) elements = true.
Proof. vm_compute. reflexivity. Qed.

(* the exception list is exact: each listed element really lacks its reference isotope *)
Lemma reference_isotope_tabulated_refuted :
  forallb (fun e => negb (smem (e_sym e) mdl_isotope_exceptions) || negb (mdl_in_keys e)) elements = true /\
  existsb (fun e => String.eqb (e_sym e) "Br" && (e_mdl e =? 80) && negb (mdl_in_keys e)) elements = true.
Proof. vm_compute. split; reflexivity. Qed.

(* the reference isotope is always within the window both codecs can express around the tabulated ones *)
Lemma reference_isotope_near :
  forallb (fun e => forallb (fun k => (-8 <=? k - e_mdl e) && (k - e_mdl e <=? 8)) (keys (e_dist e))) elements = true.
Proof. vm_compute. reflexivity. Qed.

(* ---- 3. representability in the pack format and in the matcher bit layout ---- *)
Lemma pack_isotope_representable :
  forallb (fun e => forallb (fun k => let f := pack_isotope_field e k in
                                      (1 <=? f) && (f <=? 31) && (unpack_isotope e f =? k))
                            (keys (e_dist e))) elements = true.
Proof. vm_compute. reflexivity. Qed.

Lemma matcher_isotope_representable :
  forallb (fun e => forallb (fun k => let b := matcher_isotope_bit e k in (46 <=? b) && (b <=? 62))
                            (keys (e_dist e))) elements = true.
Proof. vm_compute. reflexivity. Qed.

(* the two duplicated .pyx tables equal mdl_isotope - 16, index 0 is a filler, and they equal each other *)
Lemma pyx_isotope_tables :
  pack_common_isotopes = unpack_common_isotopes /\ List.length pack_common_isotopes = 119%nat /\
  forallb (fun e => znth pack_common_isotopes (e_num e) (-1000) =? e_mdl e - 16) elements = true.
Proof. vm_compute. repeat split; reflexivity. Qed.

(* the unpacker's element list is the symbol table ("None" at index 0) *)
Lemma unpack_elements_table : unpack_elements = "None" :: std_symbols.
Proof. vm_compute. reflexivity. Qed.

(* charge -4..4 fits 4 bits as charge+4 (pack) and bits 35..43 (matcher); hydrogens: tables never produce more
   than 4 (matcher field 30..34) hence never more than 6 (pack: 7 = unknown) *)
Lemma charge_fields : forallb (fun c => (0 <=? c + 4) && (c + 4 <=? 15) && (35 <=? c + 39) && (c + 39 <=? 43))
                              (zrange (-4) 5) = true.
Proof. vm_compute. reflexivity. Qed.

Lemma hydrogens_representable :
  forallb (fun e => forallb (fun h => (0 <=? h) && (h <=? 4)) (tabulated_h e)) elements = true.
Proof. vm_compute. reflexivity. Qed.

(* atomic number fits the 7-bit pack field and the one-hot element bits of the matcher:
   H..Ba -> bit 57-n of long I (1..56), La..Lv -> bit 120-n of long II (4..63), Ts/Og folded onto Lv *)
Lemma number_fields :
  forallb (fun n => (n <=? 127) &&
                    (if n <=? 56 then (1 <=? 57 - n) && (57 - n <=? 56)
                     else let m := if 116 <? n then 116 else n in (4 <=? 120 - m) && (120 - m <=? 63)))
          all_numbers = true.
Proof. vm_compute. reflexivity. Qed.

(* ---- 4. valence tables compile: every environment symbol resolves, rules are well formed ---- *)
Lemma valence_tables_compile :
  forallb (fun e => forallb (fun s => match from_symbol s with Some _ => true | None => false end) (env_symbols e) &&
                    negb (match e_common e with [] => true | _ => false end) &&
                    forallb (fun v => 0 <=? v) (e_common e) &&
                    forallb (fun r => let '(c, _, h, env) := r in
                                      (-4 <=? c) && (c <=? 4) && (0 <=? h) &&
                                      forallb (fun be => (1 <=? fst be) && (fst be <=? 3)) env) (e_exc e))
          elements = true.
Proof. vm_compute. reflexivity. Qed.

(* ---- 5. tie of the lookup model to the running code (runtime dump), checked by the kernel ---- *)
Lemma runtime_subclasses_are_elements : rt_subclasses = map e_sym elements.
Proof. vm_compute. reflexivity. Qed.

Lemma runtime_lookups_agree :
  forallb (fun r => let '(s, n, s') := r in
                    match from_symbol s with Some e => (e_num e =? n) && String.eqb (e_sym e) s' | None => false end)
          rt_by_symbol = true /\
  forallb (fun r => match from_number (fst r) with
                    | Some e => String.eqb (e_sym e) (snd r)
                    | None => String.eqb (snd r) ""
                    end) rt_by_number = true /\
  map fst rt_by_number = zrange 0 121.
Proof. vm_compute. repeat split; reflexivity. Qed.

Lemma runtime_mass_and_rules_agree :
  rt_mass_ok = map (fun e => (e_sym e, mass_computable e)) elements /\
  forallb (fun r => snd r) rt_rules_ok = true /\ map fst rt_rules_ok = map e_sym elements.
Proof. vm_compute. repeat split; reflexivity. Qed.

(* query and dynamic variants exist for every element, with the same number (and reference isotope) *)
Lemma variants_exist :
  forallb (fun e => existsb (fun r => String.eqb (fst r) ("Dynamic" ++ e_sym e) && (snd r =? e_num e)) rt_dynamic &&
                    existsb (fun r => let '(s, n, m) := r in
                                      String.eqb s ("Query" ++ e_sym e) && (n =? e_num e) && (m =? e_mdl e)) rt_query)
          elements = true /\
  List.length rt_dynamic = 118%nat /\ List.length rt_query = 118%nat.
Proof. vm_compute. repeat split; reflexivity. Qed.

(* ---- lifted (forall) forms of the sweeps above ---- *)
Lemma isotopes_consistent :
  forall e, In e elements ->
    (forall k, In k (keys (e_dist e)) <-> In k (keys (e_mass e))) /\ mass_computable e = true /\ e_dist e <> [].
Proof.
  intros e He.
  pose proof (proj1 (forallb_forall _ _) isotope_tables_same_keys e He) as H.
  pose proof (proj1 (forallb_forall _ _) mass_computable_all e He) as Hm.
  apply andb_prop in H. destruct H as [H Hne]. apply andb_prop in H. destruct H as [H _].
  apply andb_prop in H. destruct H as [H _]. unfold same_keys_z in H. apply andb_prop in H. destruct H as [Ha Hb].
  split; [|split; [exact Hm|]].
  - intros k. unfold subset_z in Ha, Hb. rewrite forallb_forall in Ha, Hb. split; intros Hk.
    + apply zmem_In. apply Ha. exact Hk.
    + apply zmem_In. apply Hb. exact Hk.
  - intros E. rewrite E in Hne. discriminate.
Qed.

Lemma isotopes_representable :
  forall e i, In e elements -> isotope_accepted e i = true ->
    1 <= pack_isotope_field e i <= 31 /\ unpack_isotope e (pack_isotope_field e i) = i /\
    46 <= matcher_isotope_bit e i <= 62.
Proof.
  intros e i He Hi. unfold isotope_accepted in Hi. apply zmem_In in Hi.
  pose proof (proj1 (forallb_forall _ _) pack_isotope_representable e He) as H1.
  pose proof (proj1 (forallb_forall _ _) matcher_isotope_representable e He) as H2.
  rewrite forallb_forall in H1, H2. specialize (H1 i Hi). specialize (H2 i Hi). cbv zeta in H1, H2.
  apply andb_prop in H1. destruct H1 as [H1 H1c]. apply andb_prop in H1. destruct H1 as [H1a H1b].
  apply andb_prop in H2. destruct H2 as [H2a H2b].
  apply Z.leb_le in H1a, H1b, H2a, H2b. apply Z.eqb_eq in H1c. repeat split; assumption.
Qed.

Lemma reference_isotope_or_known :
  forall e, In e elements -> In (e_mdl e) (keys (e_dist e)) \/ In (e_sym e) mdl_isotope_exceptions.
Proof.
  intros e He. pose proof (proj1 (forallb_forall _ _) reference_isotope_tabulated_partial e He) as H.
  apply orb_prop in H. destruct H as [H|H]; [left; apply zmem_In; exact H|right].
  unfold smem in H. apply existsb_exists in H. destruct H as [s [Hs E]]. apply String.eqb_eq in E. subst. exact Hs.
Qed.
