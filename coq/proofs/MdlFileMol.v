(* C11: whole SD / RD files of molecules: the block theorems (MdlV2000, MdlTail) plugged into the generic file theorems (MdlFile). *)
From Coq Require Import ZArith List String Ascii Bool Lia.
From Model Require Import PyBase Mdl.
From Gen Require Import MdlTables.
From Proofs Require Import MdlProofs MdlV2000 MdlV3000 MdlTail MdlFraming MdlFramingExt MdlMeta MdlFile.
Import ListNotations.
Open Scope Z_scope.
Local Notation length := List.length.
Local Notation concat := List.concat.

(* ------------------------------------------------------------------------------------------------ *)
(** * no written line contains a newline *)

Definition nonl (s : str) : bool := forallb (fun c => negb (Ascii.eqb c nl)) s.
Lemma nonl_iff s : nonl s = true <-> ~ In nl s.
Proof.
  unfold nonl. split.
  - apply nl_not_in_lit.
  - intros H. apply forallb_forall. intros c Hc. destruct (Ascii.eqb c nl) eqn:E; [|reflexivity].
    apply Ascii.eqb_eq in E. subst. contradiction.
Qed.
Lemma nonl_app a b : nonl (a ++ b) = nonl a && nonl b.
Proof. apply forallb_app. Qed.
Lemma nonl_field s : Forall field_char s -> nonl s = true.
Proof.
  intros H. apply nonl_iff. intros Hin. rewrite Forall_forall in H. apply (field_char_not_nl nl (H nl Hin)). reflexivity.
Qed.
Lemma nonl_fmt_d w n : nonl (fmt_d w n) = true.
Proof. apply nonl_field. apply fmt_d_chars. Qed.
Lemma nonl_zstr n : nonl (zstr n) = true.
Proof. apply nonl_field. eapply Forall_impl; [|apply zstr_chars]. intros c H. left. exact H. Qed.
Lemma nonl_nospace s : Forall (fun c => is_space c = false) s -> nonl s = true.
Proof.
  intros H. apply nonl_iff. intros Hin. rewrite Forall_forall in H. specialize (H nl Hin). discriminate.
Qed.
Lemma nonl_fmt_s w s : nonl s = true -> nonl (fmt_s w s) = true.
Proof.
  intros H. unfold fmt_s, ljust. rewrite nonl_app, H. cbn [andb]. generalize (w - length s)%nat. intros n. induction n; [reflexivity|]. cbn. exact IHn.
Qed.

Local Opaque fmt_d fmt_s zstr.
Lemma Ok_inj {X} (a b : X) : Ok a = Ok b -> a = b.
Proof. intros H. injection H. auto. Qed.

Lemma v2_counts_line_nonl a b : nonl (v2_counts_line a b) = true.
Proof. unfold v2_counts_line. rewrite !nonl_app, !nonl_fmt_d. reflexivity. Qed.
Lemma v2_bond_line_nonl i j o st : nonl st = true -> nonl (v2_bond_line i j o st) = true.
Proof. intros H. unfold v2_bond_line. rewrite !nonl_app, !nonl_fmt_d, nonl_zstr, H. reflexivity. Qed.
Lemma v2_atom_line_nonl mapping a fx fy fz line :
  wf_watom a fx fy fz -> nonl (wa_x a) = true -> nonl (wa_y a) = true -> nonl (wa_z a) = true ->
  v2_atom_line mapping a = Ok line -> nonl line = true.
Proof.
  intros W Hx Hy Hz. unfold v2_atom_line.
  destruct (w_charge_spec (wa_chg a) (wf_chg _ _ _ _ W)) as [c [Hc [_ [_ Hcn]]]]. rewrite Hc. cbn [bind]. intros H. apply Ok_inj in H. subst line.
  rewrite !nonl_app, Hx, Hy, Hz, nonl_fmt_d. rewrite (nonl_fmt_s 3 (wa_sym a)) by (apply nonl_nospace; apply (wf_sym_ns _ _ _ _ W)).
  apply nonl_iff in Hcn. rewrite Hcn. reflexivity.
Qed.
Lemma v2_wedge_line_nonl im bonds w line : v2_wedge_line im bonds w = Ok line -> nonl line = true.
Proof.
  destruct w as [[n m] s]. unfold v2_wedge_line.
  destruct (idx im n) as [i|e]; cbn [bind]; [|discriminate]. destruct (idx im m) as [j|e]; cbn [bind]; [|discriminate].
  destruct (bond_order bonds n m) as [o|e]; cbn [bind]; [|discriminate].
  intros H. apply Ok_inj in H. subst line. apply v2_bond_line_nonl. destruct (s =? 1); reflexivity.
Qed.
Lemma v2_plain_line_nonl im b line : v2_plain_line im b = Ok line -> nonl line = true.
Proof.
  destruct b as [[n m] o]. unfold v2_plain_line.
  destruct (idx im n) as [i|e]; cbn [bind]; [|discriminate]. destruct (idx im m) as [j|e]; cbn [bind]; [|discriminate].
  intros H. apply Ok_inj in H. subst line. apply v2_bond_line_nonl. reflexivity.
Qed.
Lemma v2_prop_lines_nonl n a : Forall (fun l => nonl l = true) (v2_prop_lines n a).
Proof.
  unfold v2_prop_lines. repeat (apply Forall_app; split).
  - destruct (iso_truthy (wa_iso a)); constructor; [|constructor]. rewrite !nonl_app, !nonl_fmt_d. reflexivity.
  - destruct (wa_rad a); constructor; [|constructor]. rewrite !nonl_app, !nonl_fmt_d. reflexivity.
  - destruct ((wa_chg a =? -4) || (wa_chg a =? 4)); constructor; [|constructor]. rewrite !nonl_app, !nonl_fmt_d. reflexivity.
Qed.
Lemma prop_lines_of_nonl atoms : forall s, Forall (fun l => nonl l = true) (prop_lines_of s atoms).
Proof.
  induction atoms as [|a atoms IH]; intros s; [constructor|].
  unfold prop_lines_of. cbn [length zrange_from combine map concat fst snd]. apply Forall_app. split; [apply v2_prop_lines_nonl | apply IH].
Qed.

Local Transparent fmt_d fmt_s zstr.

Definition coords_nonl (a : watom) : Prop := nonl (wa_x a) = true /\ nonl (wa_y a) = true /\ nonl (wa_z a) = true.

Lemma mapM_Forall_in {X Y} (f : X -> pyres Y) (P : Y -> Prop) l r :
  mapM f l = Ok r -> (forall x y, In x l -> f x = Ok y -> P y) -> Forall P r.
Proof.
  intros H. apply mapM_Forall2 in H. induction H as [|x y l r Hxy _ IH]; intros HP; constructor.
  - apply (HP x y); [left; reflexivity | exact Hxy].
  - apply IH. intros x' y' Hin. apply HP. right. exact Hin.
Qed.

Lemma write_mol_v2000_nonl mapping g fs lines :
  Forall2 wf_atom (wm_atoms g) fs -> Forall coords_nonl (wm_atoms g) -> nonl (wm_name g) = true ->
  write_mol_v2000 mapping g = Ok lines -> Forall (fun l => nonl l = true) lines.
Proof.
  intros Hwf Hc Hn H.
  assert (Hne : wm_atoms g <> []) by (intros E; unfold write_mol_v2000 in H; rewrite E in H; discriminate H).
  assert (Hex : existsb (fun a => 999 <? wa_num a) (wm_atoms g) = false).
  { destruct (existsb (fun a => 999 <? wa_num a) (wm_atoms g)) eqn:E; [|reflexivity].
    unfold write_mol_v2000 in H. rewrite E in H. destruct (wm_atoms g); discriminate H. }
  rewrite write_mol_v2000_unfold in H by assumption.
  destruct (mapM (v2_atom_line mapping) (wm_atoms g)) as [al|e] eqn:Hal; cbn [bind] in H; [|discriminate].
  destruct (mapM (v2_wedge_line (index_map (wm_atoms g)) (wm_bonds g)) (wm_wedge g)) as [wl|e] eqn:Hwl; cbn [bind] in H; [|discriminate].
  destruct (mapM (v2_plain_line (index_map (wm_atoms g))) (plain_bonds g)) as [bl|e] eqn:Hbl; cbn [bind] in H; [|discriminate].
  apply Ok_inj in H. subst lines.
  repeat (apply Forall_app; split).
  - constructor; [exact Hn|]. constructor; [reflexivity|]. constructor; [reflexivity|]. constructor; [apply v2_counts_line_nonl | constructor].
  - eapply mapM_Forall_in; [exact Hal|]. intros a line Hin Hl.
    destruct (Forall2_in_l _ _ _ _ Hwf Hin) as [f [W _]]. rewrite Forall_forall in Hc. destruct (Hc a Hin) as [Hx [Hy Hz]].
    eapply v2_atom_line_nonl; eassumption.
  - eapply mapM_Forall; [exact Hwl|]. intros x y. apply v2_wedge_line_nonl.
  - eapply mapM_Forall; [exact Hbl|]. intros x y. apply v2_plain_line_nonl.
  - apply prop_lines_of_nonl.
  - repeat constructor.
Qed.

(* ------------------------------------------------------------------------------------------------ *)
(** * no written MOL line looks like a record delimiter, a format line, a "$DTYPE" line or - before the last - "M  END" *)

Definition marker_dollar_or_M (p : str) : Prop := exists c p', p = c :: p' /\ (c = "$"%char \/ c = "M"%char).

Lemma fmt_d_head w n : exists c r, fmt_d w n = c :: r /\ field_char c.
Proof.
  pose proof (fmt_d_chars w n) as H. destruct (fmt_d w n) as [|c r] eqn:E.
  - exfalso. unfold fmt_d, rjust in E. apply app_eq_nil in E. destruct E as [_ E]. exact (zstr_nonempty n E).
  - inversion H; subst. exists c, r. split; [reflexivity | assumption].
Qed.
Lemma field_char_not_marker c : field_char c -> c <> "$"%char /\ c <> "M"%char.
Proof.
  intros [[[d [Hd ->]] | ->] | ->]; try (split; discriminate).
  split; intros E; apply (f_equal code) in E; unfold digit_chr in E; rewrite code_chr in E by lia;
    [change (code "$"%char) with 36 in E | change (code "M"%char) with 77 in E]; lia.
Qed.
Lemma startswith_first_ne c p d r : c <> d -> startswith (c :: p) (d :: r) = false.
Proof. intros H. cbn [startswith]. destruct (Ascii.eqb c d) eqn:E; [apply Ascii.eqb_eq in E; contradiction | reflexivity]. Qed.
Lemma starts_fmt3_not_marker p line : marker_dollar_or_M p -> starts_fmt3 line -> startswith p line = false.
Proof.
  intros [c [p' [-> Hc]]] [i [r ->]]. destruct (fmt_d_head 3 i) as [d [r' [E Hd]]]. rewrite E. cbn [app].
  apply startswith_first_ne. destruct (field_char_not_marker d Hd) as [H1 H2]. destruct Hc as [-> | ->]; intros X; subst; contradiction.
Qed.
Lemma starts_x_not_marker p a line f : marker_dollar_or_M p -> py_float (wa_x a) = Ok f -> starts_x a line -> startswith p line = false.
Proof.
  intros [c [p' [-> Hc]]] Hf [r ->]. destruct Hc as [-> | ->]; [eapply py_float_not_dollar_p | eapply py_float_not_M_p]; exact Hf.
Qed.

(* the shape of the written block, as needed by the file theorems *)
Record mol_lines_ok (lines : list str) : Prop := {
  ml_split : exists ml, lines = ml ++ [L "M  END"] /\
             Forall (fun l => is_mend l = false) ml /\ (4 < length ml)%nat /\
             (exists l4, nth_error lines 4 = Some l4 /\ startswith (L "M  V30 BEGIN CTAB") l4 = false);
  ml_delim : Forall (fun l => is_delim l = false) lines;
  ml_fmt : Forall (fun l => is_fmt l = false) lines;
  ml_dtype : Forall (fun l => is_dtype l = false) lines;
  ml_rxn : Forall (fun l => startswith (L "$RXN") l = false) lines }.

Definition name_ok (name : str) : Prop :=
  nonl name = true /\ is_delim name = false /\ is_mend name = false /\ is_fmt name = false /\ is_dtype name = false /\
  startswith (L "$RXN") name = false.

Lemma marker_lit c p : (c = "$"%char \/ c = "M"%char) -> marker_dollar_or_M (c :: p).
Proof. intros H. exists c, p. split; [reflexivity | exact H]. Qed.

Lemma starts_prop_heads line : starts_prop line ->
  is_mend line = false /\ is_delim line = false /\ is_fmt line = false /\ is_dtype line = false /\ startswith (L "$RXN") line = false.
Proof. intros [r [-> | [-> | ->]]]; repeat split; reflexivity. Qed.

Lemma write_mol_v2000_lines_ok mapping g fs lines :
  Forall2 wf_atom (wm_atoms g) fs -> name_ok (wm_name g) ->
  write_mol_v2000 mapping g = Ok lines -> mol_lines_ok lines.
Proof.
  intros Hwf [_ [Hn1 [Hn2 [Hn3 [Hn4 Hn5]]]]] H.
  destruct (write_mol_v2000_shape mapping g lines H) as [Hne [al [bl [pl [E [Hlen [Hal [Hbl Hpl]]]]]]]].
  (* every line class against every marker *)
  assert (Hcnt : forall p, marker_dollar_or_M p ->
            startswith p (v2_counts_line (Z.of_nat (length (wm_atoms g))) (Z.of_nat (length (wm_bonds g)))) = false).
  { intros p Hp. apply starts_fmt3_not_marker; [exact Hp|]. unfold v2_counts_line. eexists. eexists. reflexivity. }
  assert (Hatoms : forall p, marker_dollar_or_M p -> Forall (fun l => startswith p l = false) al).
  { intros p Hp. clear - Hal Hwf Hp. revert fs Hwf. induction Hal as [|a l atoms al Hs _ IH]; intros fs Hwf; [constructor|].
    inversion Hwf as [|? f ? fs' [W _] Hwf']; subst. constructor; [|apply (IH fs' Hwf')].
    eapply starts_x_not_marker; [exact Hp | apply (wf_fx _ _ _ _ W) | exact Hs]. }
  assert (Hbonds : forall p, marker_dollar_or_M p -> Forall (fun l => startswith p l = false) bl).
  { intros p Hp. eapply Forall_impl; [|exact Hbl]. intros l. apply starts_fmt3_not_marker. exact Hp. }
  assert (Hall : forall p, marker_dollar_or_M p -> startswith p (wm_name g) = false -> startswith p (@nil ascii) = false ->
                 Forall (fun l => startswith p l = false) pl -> startswith p (L "M  END") = false ->
                 Forall (fun l => startswith p l = false) lines).
  { intros p Hp H1 H2 H3 H4. rewrite E. repeat (apply Forall_app; split); try (apply Hatoms; exact Hp); try (apply Hbonds; exact Hp); try exact H3.
    - repeat constructor; try assumption. apply Hcnt. exact Hp.
    - repeat constructor. exact H4. }
  assert (Hprops : forall (P : str -> Prop), (forall l, starts_prop l -> P l) -> Forall P pl).
  { intros P HP. eapply Forall_impl; [|exact Hpl]. exact HP. }
  constructor.
  - exists ([wm_name g; []; []; v2_counts_line (Z.of_nat (length (wm_atoms g))) (Z.of_nat (length (wm_bonds g)))] ++ al ++ bl ++ pl).
    split; [rewrite E; rewrite <- !app_assoc; reflexivity|]. split; [|split].
    + unfold is_mend. repeat (apply Forall_app; split).
      * repeat constructor; [exact Hn2 | apply Hcnt; apply marker_lit; right; reflexivity].
      * apply Hatoms. apply marker_lit. right. reflexivity.
      * apply Hbonds. apply marker_lit. right. reflexivity.
      * apply Hprops. intros l Hl. apply (starts_prop_heads l Hl).
    + rewrite !app_length. cbn [length]. destruct (wm_atoms g); [contradiction|]. cbn [length] in Hlen. lia.
    + destruct al as [|l4 al']; [destruct (wm_atoms g); [contradiction | discriminate]|].
      exists l4. split; [rewrite E; reflexivity|].
      pose proof (Hatoms (L "M  V30 BEGIN CTAB") (marker_lit _ _ (or_intror eq_refl))) as X. inversion X; assumption.
  - unfold is_delim. apply Hall; try reflexivity; [apply marker_lit; left; reflexivity | exact Hn1 |].
    apply Hprops. intros l Hl. apply (starts_prop_heads l Hl).
  - unfold is_fmt in *. apply orb_false_elim in Hn3. destruct Hn3 as [Ha Hb].
    assert (X1 : Forall (fun l => startswith (L "$RFMT") l = false) lines).
    { apply Hall; try reflexivity; [apply marker_lit; left; reflexivity | exact Ha |]. apply Hprops. intros l [r [-> | [-> | ->]]]; reflexivity. }
    assert (X2 : Forall (fun l => startswith (L "$MFMT") l = false) lines).
    { apply Hall; try reflexivity; [apply marker_lit; left; reflexivity | exact Hb |]. apply Hprops. intros l [r [-> | [-> | ->]]]; reflexivity. }
    rewrite Forall_forall in *. intros l Hl. rewrite (X1 l Hl), (X2 l Hl). reflexivity.
  - unfold is_dtype. apply Hall; try reflexivity; [apply marker_lit; left; reflexivity | exact Hn4 |].
    apply Hprops. intros l Hl. apply (starts_prop_heads l Hl).
  - apply Hall; try reflexivity; [apply marker_lit; left; reflexivity | exact Hn5 |].
    apply Hprops. intros l Hl. apply (starts_prop_heads l Hl).
Qed.

(* ------------------------------------------------------------------------------------------------ *)
(** * SD files of V2000 molecules: SDFWrite then SDFRead *)

(* the hypotheses of the block theorem v2000_fields_roundtrip *)
Definition mol_wf2 (g : wmol) (fs : list (fval * fval * fval)) : Prop :=
  Forall2 wf_atom (wm_atoms g) fs /\ wm_atoms g <> [] /\ (length (wm_atoms g) <= 999)%nat /\ (length (wm_bonds g) <= 999)%nat /\
  NoDup (map wa_num (wm_atoms g)) /\ Forall (bond_ok (wm_atoms g)) (wm_bonds g) /\
  Forall (wedge_ok (wm_atoms g) (wm_bonds g)) (wm_wedge g) /\
  (length (wm_wedge g) + length (plain_bonds g) = length (wm_bonds g))%nat.
(* what parse_mol_v2000 returns for the written block *)
Definition mol_expected2 (mapping : bool) (g : wmol) (fs : list (fval * fval * fval)) : parsed3 :=
  mk_parsed3 (mk_parsed (title_of (wm_name g)) (map2 (expected_atom mapping) (wm_atoms g) fs)
                (map (exp_wedge_bond (wm_atoms g) (wm_bonds g)) (wm_wedge g) ++ map (exp_plain_bond (wm_atoms g)) (plain_bonds g))
                (map (exp_wedge_stereo (wm_atoms g)) (wm_wedge g)) []) [].

Definition sdf_in := (wmol * list (fval * fval * fval) * list (str * list str))%type.
Definition si_mol (r : sdf_in) := fst (fst r).
Definition si_fs (r : sdf_in) := snd (fst r).
Definition si_entries (r : sdf_in) := snd r.

(* a record SDFWrite can write and SDFRead can frame: the molecule is within the V2000 limits; title and coordinate fields are
   single lines; the title does not look like a delimiter; the dictionary obeys the format-inherent conditions; the record fits the
   read-ahead buffer *)
Definition sdf_rec_wf (buffer_size : nat) (mapping : bool) (r : sdf_in) : Prop :=
  mol_wf2 (si_mol r) (si_fs r) /\ name_ok (wm_name (si_mol r)) /\ Forall coords_nonl (wm_atoms (si_mol r)) /\
  Forall (sdf_entry_ok sdf_write_escape) (si_entries r) /\
  Forall (fun e => Forall (fun l => is_delim l = false) (snd e)) (si_entries r) /\
  (forall lines, write_mol_v2000 mapping (si_mol r) = Ok lines ->
     (length lines + length (concat (map (sdf_entry_lines sdf_write_escape) (si_entries r))) <= buffer_size)%nat).

Definition built {A} (build : parsed3 -> pyres A) (p : parsed3) (meta : list (str * str)) : record_result A :=
  match build p with Ok x => inl (x, meta) | Err e => inr (Py e) end.

Lemma dispatch_mol_v2000 A (build : parsed3 -> pyres A) lines p :
  mol_lines_ok lines -> parse_mol_v2000 (map add_nl lines) = Ok p ->
  dispatch_mol A build (map add_nl lines) = build (mk_parsed3 p []).
Proof.
  intros Hok Hp. destruct (ml_split _ Hok) as [ml [E [_ [_ [l4 [H4 Hv]]]]]].
  unfold dispatch_mol. rewrite nth_error_map, H4. cbn [option_map of_opt bind].
  rewrite startswith_add_nl by reflexivity. rewrite Hv. unfold lift2. rewrite Hp. cbn [bind]. reflexivity.
Qed.

Lemma sdf_record_frec buffer_size mapping r : sdf_rec_wf buffer_size mapping r ->
  exists fr, frec_ok buffer_size sdf_write_escape fr /\
    sdf_record_text mapping (si_mol r) (meta_of (si_entries r)) = Ok (frec_text sdf_write_escape fr) /\
    forall A (build : parsed3 -> pyres A),
      frec_result A build sdf_write_escape fr =
      built build (mol_expected2 mapping (si_mol r) (si_fs r)) (sdf_meta_spec sdf_write_escape (si_entries r)).
Proof.
  intros [[H1 [H2 [H3 [H4 [H5 [H6 [H7 H8]]]]]]] [Hname [Hco [Hent [Hval Hsize]]]]].
  destruct (v2000_fields_roundtrip_tail mapping (si_mol r) (si_fs r) H1 H2 H3 H4 H5 H6 H7 H8) as [lines [Hw Hp]].
  pose proof (write_mol_v2000_lines_ok mapping _ _ lines H1 Hname Hw) as Hok.
  pose proof (write_mol_v2000_nonl mapping _ _ lines H1 Hco (proj1 Hname) Hw) as Hnl.
  destruct (ml_split _ Hok) as [ml [E [Hmend [Hlen _]]]].
  exists (mk_frec ml (L "M  END") (si_entries r)). split; [|split].
  - constructor; cbn [fr_mol fr_end fr_entries].
    + exact Hmend.
    + reflexivity.
    + pose proof (ml_delim _ Hok) as Hd. rewrite E in Hd. apply Forall_app in Hd. apply Hd.
    + exact Hent.
    + exact Hval.
    + unfold frec_lines. cbn [fr_mol fr_end fr_entries]. specialize (Hsize lines Hw). rewrite E in Hsize.
      rewrite !app_length in *. cbn [length] in *. lia.
    + rewrite <- E. eapply Forall_impl; [|exact Hnl]. intros l. apply nonl_iff.
  - unfold sdf_record_text. rewrite Hw. cbn [bind]. unfold frec_text. cbn [fr_mol fr_end fr_entries]. rewrite <- E. reflexivity.
  - intros A build. unfold frec_result, built. cbn [fr_mol fr_end fr_entries]. rewrite <- E.
    specialize (Hp []). rewrite app_nil_r in Hp. rewrite (dispatch_mol_v2000 A build lines _ Hok Hp). reflexivity.
Qed.

(* sdf_file_roundtrip: reading the concatenation of what SDFWrite wrote for a list of records returns, record by record, what the
   builder makes of the expected parse result, with the normalised dictionary; then the end of the file *)
Theorem sdf_v2000_file_roundtrip A (build : parsed3 -> pyres A) buffer_size mapping (recs : list sdf_in) :
  Forall (sdf_rec_wf buffer_size mapping) recs ->
  exists texts, mapM (fun r => sdf_record_text mapping (si_mol r) (meta_of (si_entries r))) recs = Ok texts /\
    sdf_read A build buffer_size (readlines (concat texts)) =
    collect A (map (fun r => built build (mol_expected2 mapping (si_mol r) (si_fs r)) (sdf_meta_spec sdf_write_escape (si_entries r))) recs
               ++ [inr EOFError]).
Proof.
  intros H.
  assert (G : exists frs, Forall (frec_ok buffer_size sdf_write_escape) frs /\
              mapM (fun r => sdf_record_text mapping (si_mol r) (meta_of (si_entries r))) recs = Ok (map (frec_text sdf_write_escape) frs) /\
              map (frec_result A build sdf_write_escape) frs =
              map (fun r => built build (mol_expected2 mapping (si_mol r) (si_fs r)) (sdf_meta_spec sdf_write_escape (si_entries r))) recs).
  { induction H as [|r recs Hr _ [frs [F1 [F2 F3]]]].
    - exists []. repeat split; constructor.
    - destruct (sdf_record_frec _ _ _ Hr) as [fr [Ha [Hb Hc]]]. exists (fr :: frs). split; [constructor; assumption|]. split.
      + cbn [mapM map]. rewrite Hb. cbn [bind]. rewrite F2. cbn [bind]. reflexivity.
      + cbn [map]. rewrite Hc, F3. reflexivity. }
  destruct G as [frs [F1 [F2 F3]]]. exists (map (frec_text sdf_write_escape) frs). split; [exact F2|].
  change (concat (map (frec_text sdf_write_escape) frs)) with (file_text sdf_write_escape frs).
  rewrite sdf_file_roundtrip_generic by exact F1. rewrite F3. reflexivity.
Qed.

(* ------------------------------------------------------------------------------------------------ *)
(** * RD files of V2000 molecules: RDFWrite then RDFRead *)

Definition rdf_mol_wf (buffer_size hlen : nat) (mapping : bool) (r : sdf_in) : Prop :=
  mol_wf2 (si_mol r) (si_fs r) /\ name_ok (wm_name (si_mol r)) /\ Forall coords_nonl (wm_atoms (si_mol r)) /\
  Forall rdf_entry_ok (si_entries r) /\
  Forall (fun e => Forall (fun l => is_fmt l = false) (tl (snd e))) (si_entries r) /\
  (forall lines, write_mol_v2000 mapping (si_mol r) = Ok lines ->
     (S hlen + (length lines + length (concat (map rdf_entry_lines (si_entries r)))) < buffer_size)%nat).

Lemma rdf_dispatch_mol_v2000 A (build : parsed3 -> pyres A) build_rxn lines tail p :
  mol_lines_ok lines -> (forall t, parse_mol_v2000 (map add_nl lines ++ t) = Ok p) ->
  rdf_dispatch A build build_rxn (map add_nl lines ++ tail) = build (mk_parsed3 p []).
Proof.
  intros Hok Hp. destruct (ml_split _ Hok) as [ml [E [_ [Hlen [l4 [H4 Hv]]]]]].
  assert (H0 : exists l0, nth_error lines 0 = Some l0 /\ startswith (L "$RXN") l0 = false).
  { pose proof (ml_rxn _ Hok) as Hr. destruct lines as [|l0 ls]; [destruct ml; discriminate|]. exists l0. split; [reflexivity|]. inversion Hr; assumption. }
  destruct H0 as [l0 [H0 Hx]].
  assert (N : forall k l, nth_error lines k = Some l -> nth_error (map add_nl lines ++ tail) k = Some (add_nl l)).
  { intros k l Hk. rewrite nth_error_app1 by (rewrite map_length; apply nth_error_Some; rewrite Hk; discriminate). rewrite nth_error_map, Hk. reflexivity. }
  unfold rdf_dispatch. rewrite (N _ _ H0). cbn [of_opt bind]. rewrite startswith_add_nl by reflexivity. rewrite Hx.
  unfold dispatch_mol. rewrite (N _ _ H4). cbn [of_opt bind]. rewrite startswith_add_nl by reflexivity. rewrite Hv.
  unfold lift2. rewrite Hp. cbn [bind]. reflexivity.
Qed.

Lemma rdf_mol_rrec buffer_size hlen mapping r : rdf_mol_wf buffer_size hlen mapping r ->
  exists rr, rrec_ok buffer_size hlen rr /\
    rdf_mol_text mapping (si_mol r) (meta_of (si_entries r)) = Ok (rrec_text rr) /\
    forall A (build : parsed3 -> pyres A) build_rxn,
      rrec_result A build build_rxn rr = built build (mol_expected2 mapping (si_mol r) (si_fs r)) (meta_spec (si_entries r)).
Proof.
  intros [[H1 [H2 [H3 [H4 [H5 [H6 [H7 H8]]]]]]] [Hname [Hco [Hent [Hval Hsize]]]]].
  destruct (v2000_fields_roundtrip_tail mapping (si_mol r) (si_fs r) H1 H2 H3 H4 H5 H6 H7 H8) as [lines [Hw Hp]].
  pose proof (write_mol_v2000_lines_ok mapping _ _ lines H1 Hname Hw) as Hok.
  pose proof (write_mol_v2000_nonl mapping _ _ lines H1 Hco (proj1 Hname) Hw) as Hnl.
  exists (mk_rrec (L "$MFMT") lines (si_entries r)). split; [|split].
  - constructor; cbn [rr_fmt rr_struct rr_entries].
    + reflexivity.
    + apply nl_not_in_lit. reflexivity.
    + apply (ml_fmt _ Hok).
    + apply (ml_dtype _ Hok).
    + destruct (ml_split _ Hok) as [ml [E _]]. rewrite E. destruct ml; discriminate.
    + eapply Forall_impl; [|exact Hnl]. intros l. apply nonl_iff.
    + exact Hent.
    + exact Hval.
    + unfold rrec_lines. cbn [rr_struct rr_entries]. rewrite app_length. apply Hsize. exact Hw.
  - unfold rdf_mol_text. rewrite Hw. cbn [bind]. unfold rrec_text. cbn [rr_fmt rr_struct rr_entries]. reflexivity.
  - intros A build build_rxn. unfold rrec_result, built, rrec_lines. cbn [rr_struct rr_entries]. rewrite map_app.
    rewrite (rdf_dispatch_mol_v2000 A build build_rxn lines _ _ Hok Hp). reflexivity.
Qed.

(* rdf_file_roundtrip (molecule records): header lines (RDFWrite: "$RDFILE 1", "$DATM ..."), then what RDFWrite wrote *)
Theorem rdf_v2000_mol_file_roundtrip A (build : parsed3 -> pyres A) build_rxn buffer_size mapping header (recs : list sdf_in) :
  Forall (fun l => ~ In nl l /\ is_fmt l = false /\ startswith (L "$RXN") l = false) header ->
  Forall (rdf_mol_wf buffer_size (length header) mapping) recs ->
  exists texts, mapM (fun r => rdf_mol_text mapping (si_mol r) (meta_of (si_entries r))) recs = Ok texts /\
    rdf_read A build build_rxn buffer_size (readlines (text_of_lines header ++ concat texts)) =
    collect A (map (fun r => built build (mol_expected2 mapping (si_mol r) (si_fs r)) (meta_spec (si_entries r))) recs).
Proof.
  intros Hh H.
  assert (G : exists rrs, Forall (rrec_ok buffer_size (length header)) rrs /\
              mapM (fun r => rdf_mol_text mapping (si_mol r) (meta_of (si_entries r))) recs = Ok (map rrec_text rrs) /\
              map (rrec_result A build build_rxn) rrs =
              map (fun r => built build (mol_expected2 mapping (si_mol r) (si_fs r)) (meta_spec (si_entries r))) recs).
  { induction H as [|r recs Hr _ [rrs [F1 [F2 F3]]]].
    - exists []. repeat split; constructor.
    - destruct (rdf_mol_rrec _ _ _ _ Hr) as [rr [Ha [Hb Hc]]]. exists (rr :: rrs). split; [constructor; assumption|]. split.
      + cbn [mapM map]. rewrite Hb. cbn [bind]. rewrite F2. cbn [bind]. reflexivity.
      + cbn [map]. rewrite Hc, F3. reflexivity. }
  destruct G as [rrs [F1 [F2 F3]]]. exists (map rrec_text rrs). split; [exact F2|].
  change (text_of_lines header ++ concat (map rrec_text rrs)) with (rdfile_text header rrs).
  rewrite rdf_file_roundtrip_generic by assumption. rewrite F3. reflexivity.
Qed.

(* ------------------------------------------------------------------------------------------------ *)
(** * non-vacuity: a two-record file of the example molecule of MdlV2000 (charge +4, isotope, radical, wedge, order-8 bond,
      numbers 7 3 12) with dictionaries, the second one with a two-line value and a key that needs escaping *)
Definition ex_file_recs : list sdf_in :=
  [ (ex_mol, ex_fs, [(L "k", [L "v"])]);
    (ex_mol, ex_fs, [(L "a>b", [L " two "; L "lines"]); (L "n", [L "1"])]) ].

Lemma ex_mol_written : exists lines, write_mol_v2000 true ex_mol = Ok lines /\ length lines = 13%nat.
Proof. eexists. split; [vm_compute; reflexivity | reflexivity]. Qed.

Lemma ex_file_recs_wf : Forall (sdf_rec_wf 100 true) ex_file_recs /\ Forall (rdf_mol_wf 100 2 true) (firstn 1 ex_file_recs).
Proof.
  assert (Hm : mol_wf2 ex_mol ex_fs) by exact ex_hypotheses.
  assert (Hn : name_ok (wm_name ex_mol)) by (repeat split; reflexivity).
  assert (Hc : Forall coords_nonl (wm_atoms ex_mol)) by (repeat constructor).
  assert (Hsz : forall k, (13 + k <= 100)%nat -> forall lines, write_mol_v2000 true ex_mol = Ok lines -> (length lines + k <= 100)%nat).
  { intros k Hk lines Hw. destruct ex_mol_written as [l0 [H0 Hl]]. rewrite H0 in Hw. apply Ok_inj in Hw. subst l0. lia. }
  split.
  - constructor; [|constructor; [|constructor]].
    + split; [exact Hm|]. split; [exact Hn|]. split; [exact Hc|]. split; [|split].
      * repeat constructor; cbn; try discriminate; intros X; repeat (destruct X as [X|X]; [discriminate|]); exact X.
      * repeat constructor.
      * cbn [si_mol si_entries fst snd]. apply Hsz. cbn. lia.
    + split; [exact Hm|]. split; [exact Hn|]. split; [exact Hc|]. split; [|split].
      * repeat constructor; cbn; try discriminate; intros X; repeat (destruct X as [X|X]; [discriminate|]); exact X.
      * repeat constructor.
      * cbn [si_mol si_entries fst snd]. apply Hsz. cbn. lia.
  - constructor; [|constructor].
    split; [exact Hm|]. split; [exact Hn|]. split; [exact Hc|]. split; [|split].
    + repeat constructor; cbn; try discriminate; intros X; repeat (destruct X as [X|X]; [discriminate|]); exact X.
    + repeat constructor.
    + cbn [si_mol si_entries fst snd]. intros lines Hw. specialize (Hsz 10%nat ltac:(lia) lines Hw). cbn. lia.
Qed.

Example sdf_file_example :
  exists texts, mapM (fun r => sdf_record_text true (si_mol r) (meta_of (si_entries r))) ex_file_recs = Ok texts /\
    sdf_read (option str) ex_build 100 (readlines (concat texts)) =
    ([(Some (L "test mol"), [(L "k", L "v")]); (Some (L "test mol"), [(L "a>b", L "two" ++ [nl] ++ L "lines"); (L "n", L "1")])], Exhausted).
Proof.
  destruct (sdf_v2000_file_roundtrip (option str) ex_build 100 true ex_file_recs (proj1 ex_file_recs_wf)) as [texts [H1 H2]].
  exists texts. split; [exact H1|]. rewrite H2. vm_compute. reflexivity.
Qed.
