(* C11: the reading side of allene configuration (add_wedge, allene branch; model Model.StereoWedge.wedge_al shared with C12).
   Gen.MdlFn.src_allene_wedge is regenerated on every run from the `if w == 0 / 1 / 2 / else` chain of add_wedge.  Here:
   (a) the model's selection IS the translated chain; (b) the chain does not depend on which end of the allene is called the first one
   (exchanging the end atoms, hence the roles of the substituent positions 0 <-> 1 and 2 <-> 3, selects the same three points and the
   same inversion flag); (c) an up wedge and a down wedge give opposite labels. *)
From Coq Require Import ZArith List Bool Lia.
From Model Require Import PyBase Stereo StereoSmiles StereoWedge.
From Gen Require Import MdlFn.
Import ListNotations.
Open Scope Z_scope.

Definition allene_label (r : bool) (s : Z) : option bool := if s =? 0 then None else Some (if r then s <? 0 else 0 <? s).

Theorem tie_allene_wedge : forall isH n0 n1 n2 n3 t1 t2 n m c mark w,
  isH m = false -> env_index (n0, n1, n2, n3) m = Some w ->
  wedge_al isH (n0, n1, n2, n3) t1 t2 n m c mark =
    let '(m1, a, b, r) := src_allene_wedge w t1 t2 n0 n1 in
    Ok (allene_label r (allene_sign mark (xy_of c a) (xy_of c b) (xy_of c m1))).
Proof.
  intros isH n0 n1 n2 n3 t1 t2 n m c mark w Hh He. unfold wedge_al. rewrite Hh, He.
  unfold env_index in He.
  destruct (m =? n0); [inversion He; subst w; reflexivity|].
  destruct (m =? n1); [inversion He; subst w; reflexivity|].
  destruct (match n2 with Some y => m =? y | None => false end); [inversion He; subst w; reflexivity|].
  destruct (match n3 with Some y => m =? y | None => false end); [inversion He; subst w; reflexivity | discriminate].
Qed.

Definition other_end_position (w : Z) : Z := if w =? 0 then 1 else if w =? 1 then 0 else if w =? 2 then 3 else 2.
Theorem allene_wedge_end_symmetry : forall w t1 t2 o0 o1, 0 <= w <= 3 ->
  src_allene_wedge (other_end_position w) t2 t1 o1 o0 = src_allene_wedge w t1 t2 o0 o1.
Proof.
  intros w t1 t2 o0 o1 H. assert (C : w = 0 \/ w = 1 \/ w = 2 \/ w = 3) by lia.
  destruct C as [-> | [-> | [-> | ->]]]; reflexivity.
Qed.

Lemma sgn_opp x : sgn (- x) = - sgn x.
Proof. unfold sgn. destruct (0 <? x) eqn:A; destruct (x <? 0) eqn:B; destruct (0 <? - x) eqn:C; destruct (- x <? 0) eqn:D; try reflexivity;
  rewrite ?Z.ltb_lt, ?Z.ltb_ge in *; lia. Qed.
Lemma allene_sign_flip mark u v w : allene_sign (- mark) u v w = - allene_sign mark u v w.
Proof. unfold allene_sign, allene_dot. destruct u, v, w. rewrite <- sgn_opp. f_equal. ring. Qed.
Theorem allene_label_flip : forall r mark u v w,
  allene_label r (allene_sign (- mark) u v w) = option_map negb (allene_label r (allene_sign mark u v w)).
Proof.
  intros r mark u v w. rewrite allene_sign_flip. unfold allene_label.
  set (s := allene_sign mark u v w). assert (Hs : s = 1 \/ s = -1 \/ s = 0).
  { subst s. unfold allene_sign, sgn. destruct (0 <? _); [auto|]. destruct (_ <? 0); auto. }
  destruct Hs as [-> | [-> | ->]]; destruct r; reflexivity.
Qed.
