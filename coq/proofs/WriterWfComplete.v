(* C02, writer_wellformed, part 9: completeness of the DFS of Smiles._smiles.  When the loop `while stack:` ends, every
   neighbour of a visited atom is visited (the visited atoms are a whole connected component) and every bond between them
   is recorded: as a tree edge or as a ring-closure pair.  The depth limit `depth_now > 1` (inherited from networkx) never
   cuts anything: the stack holds a path of distinct atoms of atoms_set, so depth_now >= 2 whenever an unvisited atom is met.
   Invariant of dfs_step for any sort key; atoms_set only has to be closed under neighbours. *)
From Coq Require Import ZArith List Bool Lia Permutation.
From Model Require Import PyBase Graph Writer.
From Proofs Require Import WriterProofsClosures WriterWfAtoms WriterWfStream WriterWfDfs WriterWfTree.
Import ListNotations.
Open Scope Z_scope.

Definition vis (st : dfs_st) (n : Z) : Prop := zhas (ds_visited st) n = true.

(* the bond v - m is recorded *)
Definition Rec (st : dfs_st) (v m : Z) : Prop :=
  In m (zgetl (ds_edges st) v) \/ In v (zgetl (ds_edges st) m) \/
  (exists c, In (m, c) (zgetl (ds_tokens st) v)) \/ (exists c, In (v, c) (zgetl (ds_tokens st) m)).

Definition stack_atoms (st : dfs_st) : list Z := map (fun e : Z * Z * list Z => fst (fst e)) (ds_stack st).

Lemma pair_mem_In p l : pair_mem p l = true <-> In p l.
Proof.
  unfold pair_mem. rewrite existsb_exists. split.
  - intros [q [Hq E]]. unfold pair_eqbZ in E. apply andb_true_iff in E. destruct E as [E1 E2].
    apply Z.eqb_eq in E1. apply Z.eqb_eq in E2. destruct p, q. cbn in *. subst. exact Hq.
  - intros H. exists p. split; [exact H|]. unfold pair_eqbZ. rewrite !Z.eqb_refl. reflexivity.
Qed.

Section Complete.
  Variable g : mol.
  Variable key : Z -> Z -> list Z.
  Variable aset : list Z.
  Hypothesis Hclosed : forall n m, In n aset -> In m (nbr_ids g n) -> In m aset.
  Let N := Z.of_nat (List.length aset).

  Fixpoint depth_ok (stack : list (Z * Z * list Z)) : Prop :=
    match stack with
    | [] => True
    | (_, d, _) :: r => d = N - Z.of_nat (List.length r) /\ depth_ok r
    end.

  Record DC (st : dfs_st) : Prop := mkDC {
    dc_vis_in : forall n, vis st n -> In n aset;
    dc_stack_vis : forall n, In n (stack_atoms st) -> vis st n;
    dc_stack_nodup : NoDup (stack_atoms st);
    dc_depth : depth_ok (ds_stack st);
    dc_pending : forall p d ch, In (p, d, ch) (ds_stack st) -> forall m, In m (nbr_ids g p) -> In m ch \/ (vis st m /\ Rec st p m);
    dc_done : forall v, vis st v -> ~ In v (stack_atoms st) -> forall m, In m (nbr_ids g v) -> vis st m /\ Rec st v m;
    dc_disc : forall a b, In (a, b) (ds_disc st) -> exists c, In (b, c) (zgetl (ds_tokens st) a);
    dc_children : forall p d ch, In (p, d, ch) (ds_stack st) -> forall c, In c ch -> In c (nbr_ids g p)
  }.

  Lemma zhas_app' {V} (d : list (Z * V)) k v x : zhas d x = true -> zhas (d ++ [(k, v)]) x = true.
  Proof. unfold zhas. rewrite zget_app_last. destruct (zget d x); [reflexivity | discriminate]. Qed.
  Lemma zhas_app_new {V} (d : list (Z * V)) k v : zhas (d ++ [(k, v)]) k = true.
  Proof. unfold zhas. rewrite zget_app_last. destruct (zget d k); [reflexivity | rewrite Z.eqb_refl; reflexivity]. Qed.

  Lemma In_zapp {V} (d : list (Z * list V)) k x k' y : In y (zgetl d k') -> In y (zgetl (zapp d k x) k').
  Proof. intros H. rewrite zgetl_zapp. destruct (k' =? k) eqn:E; [apply Z.eqb_eq in E; subst; apply in_or_app; left|]; exact H. Qed.
  Lemma In_zapp_new {V} (d : list (Z * list V)) k x : In x (zgetl (zapp d k x) k).
  Proof. rewrite zgetl_zapp, Z.eqb_refl. apply in_or_app. right. left. reflexivity. Qed.

  Lemma Rec_mono st st' v m :
    (forall p x, In x (zgetl (ds_edges st) p) -> In x (zgetl (ds_edges st') p)) ->
    (forall p x, In x (zgetl (ds_tokens st) p) -> In x (zgetl (ds_tokens st') p)) ->
    Rec st v m -> Rec st' v m.
  Proof.
    intros He Ht [H | [H | [[c H] | [c H]]]]; unfold Rec.
    - left. apply He. exact H.
    - right. left. apply He. exact H.
    - right. right. left. exists c. apply Ht. exact H.
    - right. right. right. exists c. apply Ht. exact H.
  Qed.

  Lemma dfs_step_DC st st' : DC st -> dfs_step g key st = Some st' -> DC st'.
  Proof.
    intros I H. unfold dfs_step in H. destruct (ds_stack st) as [|[[parent depth] children] rest] eqn:Es; [discriminate|].
    assert (Hsa : stack_atoms st = parent :: map (fun e : Z * Z * list Z => fst (fst e)) rest) by (unfold stack_atoms; rewrite Es; reflexivity).
    destruct I as [I1 I2 I3 I4 I5 I6 I7 I8].
    rewrite Hsa in I2, I3, I6. rewrite Es in I4, I5, I8. cbn [depth_ok] in I4. destruct I4 as [Hdepth I4].
    assert (Hp : ~ In parent (map (fun e : Z * Z * list Z => fst (fst e)) rest)) by (inversion I3; assumption).
    assert (Hr : NoDup (map (fun e : Z * Z * list Z => fst (fst e)) rest)) by (inversion I3; assumption).
    assert (Hpar_vis : vis st parent) by (apply I2; left; reflexivity).
    destruct children as [|child children'].
    - (* the atom is finished *)
      inversion H. subst st'. clear H.
      constructor; unfold vis, stack_atoms in *; cbn [ds_stack ds_visited ds_edges ds_tokens ds_disc] in *.
      + exact I1.
      + intros n Hn. apply I2. right. exact Hn.
      + exact Hr.
      + exact I4.
      + intros p d ch Hin m Hm. destruct (I5 p d ch (or_intror Hin) m Hm) as [A | [A B]]; [left; exact A | right; split; [exact A | exact B]].
      + intros v Hv Hns m Hm. destruct (Z.eq_dec v parent) as [-> | Hne].
        * destruct (I5 parent depth [] (or_introl eq_refl) m Hm) as [[] | Hd]. exact Hd.
        * apply (I6 v Hv); [|exact Hm]. intros [E | Hin]; [apply Hne; symmetry; exact E | exact (Hns Hin)].
      + exact I7.
      + intros p d ch Hin. apply (I8 p d ch). right. exact Hin.
    - assert (Hchild_nbr : In child (nbr_ids g parent)) by (apply (I8 parent depth (child :: children')); left; reflexivity).
      assert (Hpend1 : forall st1, (forall n, vis st n -> vis st1 n) ->
                (forall v m, Rec st v m -> Rec st1 v m) -> (vis st1 child /\ Rec st1 parent child) ->
                forall p d ch, In (p, d, ch) ((parent, depth, children') :: rest) -> forall m, In m (nbr_ids g p) -> In m ch \/ (vis st1 m /\ Rec st1 p m)).
      { intros st1 Hv Hrc Hch p d ch [E | Hin] m Hm.
        - injection E as E1 E2 E3. subst p d ch. destruct (I5 parent depth (child :: children') (or_introl eq_refl) m Hm) as [[<- | A] | [A B]].
          + right. exact Hch.
          + left. exact A.
          + right. split; [apply Hv; exact A | apply Hrc; exact B].
        - destruct (I5 p d ch (or_intror Hin) m Hm) as [A | [A B]]; [left; exact A | right; split; [apply Hv; exact A | apply Hrc; exact B]]. }
      assert (Hchildren1 : forall p d ch, In (p, d, ch) ((parent, depth, children') :: rest) -> forall c, In c ch -> In c (nbr_ids g p)).
      { intros p d ch [E | Hin] c Hc.
        - injection E as E1 E2 E3. subst p d ch. apply (I8 parent depth (child :: children') (or_introl eq_refl)). right. exact Hc.
        - apply (I8 p d ch (or_intror Hin) c Hc). }
      destruct (negb (zhas (ds_visited st) child)) eqn:Ev.
      + (* tree edge to an unvisited atom *)
        apply negb_true_iff in Ev.
        assert (Hchild_in : In child aset) by (apply (Hclosed parent child); [apply I1; exact Hpar_vis | exact Hchild_nbr]).
        assert (Hchild_nostack : ~ In child (parent :: map (fun e : Z * Z * list Z => fst (fst e)) rest)).
        { intros Hin. specialize (I2 child Hin). unfold vis in I2. rewrite I2 in Ev. discriminate. }
        (* the depth limit does not cut *)
        assert (Hguard : (1 <? depth) = true).
        { apply Z.ltb_lt.
          assert (Hl : (List.length (child :: parent :: map (fun e : Z * Z * list Z => fst (fst e)) rest) <= List.length aset)%nat).
          { apply NoDup_incl_length; [constructor; [exact Hchild_nostack | exact I3]|].
            intros x [<- | Hx]; [exact Hchild_in | apply I1; apply I2; exact Hx]. }
          cbn [List.length] in Hl. rewrite map_length in Hl. unfold N in Hdepth. lia. }
        rewrite Hguard in H.
        set (vis1 := ds_visited st ++ [(child, [parent])]) in *.
        set (edges1 := zapp (ds_edges st) parent child) in *.
        assert (Hvm : forall n, zhas (ds_visited st) n = true -> zhas vis1 n = true) by (intros n Hn; apply zhas_app'; exact Hn).
        assert (Hcv : zhas vis1 child = true) by apply zhas_app_new.
        assert (Hem : forall p x, In x (zgetl (ds_edges st) p) -> In x (zgetl edges1 p)) by (intros p x Hx; apply In_zapp; exact Hx).
        assert (Hce : In child (zgetl edges1 parent)) by apply In_zapp_new.
        destruct (filter (fun m => negb (m =? parent)) (nbr_ids g child)) as [|f0 front] eqn:Ef.
        * (* no other neighbour: the child is finished at once *)
          inversion H. subst st'. clear H.
          assert (Hrm : forall v m, Rec st v m -> Rec (mkDfs ((parent, depth, children') :: rest) vis1 (ds_disc st) edges1 (ds_tokens st) (ds_cycle st)) v m)
            by (intros v m; apply Rec_mono; cbn; auto).
          constructor; unfold vis, stack_atoms in *; cbn [ds_stack ds_visited ds_edges ds_tokens ds_disc map fst] in *.
          -- intros n Hn. unfold vis1, zhas in Hn. rewrite zget_app_last in Hn. destruct (zget (ds_visited st) n) eqn:E.
             ++ apply I1. unfold zhas. rewrite E. reflexivity.
             ++ destruct (n =? child) eqn:E2; [apply Z.eqb_eq in E2; subst; exact Hchild_in | discriminate].
          -- intros n Hn. apply Hvm. apply I2. exact Hn.
          -- exact I3.
          -- split; [exact Hdepth | exact I4].
          -- apply (Hpend1 (mkDfs ((parent, depth, children') :: rest) vis1 (ds_disc st) edges1 (ds_tokens st) (ds_cycle st))); [exact Hvm | exact Hrm |]. split; [exact Hcv | left; exact Hce].
          -- intros v Hv Hns m Hm. destruct (Z.eq_dec v child) as [-> | Hne].
             ++ assert (m = parent).
                { destruct (Z.eq_dec m parent) as [E | Hnm]; [exact E|]. exfalso.
                  assert (Hin : In m (filter (fun m0 => negb (m0 =? parent)) (nbr_ids g child))).
                  { apply filter_In. split; [exact Hm|]. apply negb_true_iff. apply Z.eqb_neq. exact Hnm. }
                  rewrite Ef in Hin. exact Hin. }
                subst m. split; [apply Hvm; exact Hpar_vis | right; left; exact Hce].
             ++ assert (Hv0 : zhas (ds_visited st) v = true).
                { unfold vis1, zhas in Hv. rewrite zget_app_last in Hv. unfold zhas. destruct (zget (ds_visited st) v); [reflexivity|].
                  destruct (v =? child) eqn:E2; [apply Z.eqb_eq in E2; contradiction | discriminate]. }
                destruct (I6 v Hv0 Hns m Hm) as [A B]. split; [apply Hvm; exact A | apply Hrm; exact B].
          -- exact I7.
          -- exact Hchildren1.
        * (* the child goes on the stack *)
          inversion H. subst st'. clear H.
          set (chs := sort_by (key child) (f0 :: front)) in *.
          assert (Hrm : forall v m, Rec st v m -> Rec (mkDfs ((child, depth - 1, chs) :: (parent, depth, children') :: rest) vis1 (ds_disc st) edges1 (ds_tokens st) (ds_cycle st)) v m)
            by (intros v m; apply Rec_mono; cbn; auto).
          assert (Hchs : forall m, In m chs <-> In m (nbr_ids g child) /\ m <> parent).
          { intros m. unfold chs. rewrite In_sort_by. rewrite <- Ef. rewrite filter_In. rewrite negb_true_iff, Z.eqb_neq. tauto. }
          constructor; unfold vis, stack_atoms in *; cbn [ds_stack ds_visited ds_edges ds_tokens ds_disc map fst] in *.
          -- intros n Hn. unfold vis1, zhas in Hn. rewrite zget_app_last in Hn. destruct (zget (ds_visited st) n) eqn:E.
             ++ apply I1. unfold zhas. rewrite E. reflexivity.
             ++ destruct (n =? child) eqn:E2; [apply Z.eqb_eq in E2; subst; exact Hchild_in | discriminate].
          -- intros n [<- | Hn]; [exact Hcv | apply Hvm; apply I2; exact Hn].
          -- constructor; [exact Hchild_nostack | exact I3].
          -- split; [cbn [List.length]; lia | split; [exact Hdepth | exact I4]].
          -- intros p d ch [E | Hin] m Hm.
             ++ injection E as E1 E2 E3. subst p d ch. destruct (Z.eq_dec m parent) as [-> | Hnm].
                ** right. split; [apply Hvm; exact Hpar_vis | right; left; exact Hce].
                ** left. apply Hchs. split; assumption.
             ++ apply (Hpend1 (mkDfs ((child, depth - 1, chs) :: (parent, depth, children') :: rest) vis1 (ds_disc st) edges1 (ds_tokens st) (ds_cycle st)) Hvm Hrm (conj Hcv (or_introl Hce)) p d ch Hin m Hm).
          -- intros v Hv Hns m Hm.
             assert (Hne : v <> child) by (intros ->; apply Hns; left; reflexivity).
             assert (Hv0 : zhas (ds_visited st) v = true).
             { unfold vis1, zhas in Hv. rewrite zget_app_last in Hv. unfold zhas. destruct (zget (ds_visited st) v); [reflexivity|].
               destruct (v =? child) eqn:E2; [apply Z.eqb_eq in E2; contradiction | discriminate]. }
             destruct (I6 v Hv0 (fun Hin => Hns (or_intror Hin)) m Hm) as [A B]. split; [apply Hvm; exact A | apply Hrm; exact B].
          -- exact I7.
          -- intros p d ch [E | Hin] c Hc; [|apply (Hchildren1 p d ch Hin c Hc)].
             injection E as E1 E2 E3. subst p d ch. apply Hchs in Hc. apply Hc.
      + apply negb_false_iff in Ev.
        destruct (negb (pair_mem (child, parent) (ds_disc st))) eqn:Ed.
        * (* ring closure *)
          inversion H. subst st'. clear H.
          set (c := ds_cycle st + 1) in *.
          set (tok1 := zapp (zapp (ds_tokens st) parent (child, c)) child (parent, c)) in *.
          assert (Htm : forall p x, In x (zgetl (ds_tokens st) p) -> In x (zgetl tok1 p)) by (intros p x Hx; unfold tok1; apply In_zapp; apply In_zapp; exact Hx).
          assert (Hrm : forall v m, Rec st v m -> Rec (mkDfs ((parent, depth, children') :: rest) (ds_visited st) ((child, parent) :: (parent, child) :: ds_disc st) (ds_edges st) tok1 c) v m)
            by (intros v m; apply Rec_mono; cbn; auto).
          assert (Ht1 : In (child, c) (zgetl tok1 parent)) by (unfold tok1; apply In_zapp; apply In_zapp_new).
          assert (Ht2 : In (parent, c) (zgetl tok1 child)) by (unfold tok1; apply In_zapp_new).
          constructor; unfold vis, stack_atoms in *; cbn [ds_stack ds_visited ds_edges ds_tokens ds_disc map fst] in *.
          -- exact I1.
          -- exact I2.
          -- exact I3.
          -- split; [exact Hdepth | exact I4].
          -- apply (Hpend1 (mkDfs ((parent, depth, children') :: rest) (ds_visited st) ((child, parent) :: (parent, child) :: ds_disc st) (ds_edges st) tok1 c)); [auto | exact Hrm |]. split; [exact Ev | right; right; left; exists c; exact Ht1].
          -- intros v Hv Hns m Hm. destruct (I6 v Hv Hns m Hm) as [A B]. split; [exact A | apply Hrm; exact B].
          -- intros a b [E | [E | Hin]].
             ++ injection E as E1 E2. subst a b. exists c. exact Ht2.
             ++ injection E as E1 E2. subst a b. exists c. exact Ht1.
             ++ destruct (I7 a b Hin) as [c0 Hc0]. exists c0. apply Htm. exact Hc0.
          -- exact Hchildren1.
        * (* the closure was already recorded from the other side *)
          apply negb_false_iff in Ed. apply pair_mem_In in Ed. destruct (I7 child parent Ed) as [c0 Hc0].
          inversion H. subst st'. clear H.
          assert (Hrm : forall v m, Rec st v m -> Rec (mkDfs ((parent, depth, children') :: rest) (ds_visited st) (ds_disc st) (ds_edges st) (ds_tokens st) (ds_cycle st)) v m)
            by (intros v m; apply Rec_mono; cbn; auto).
          constructor; unfold vis, stack_atoms in *; cbn [ds_stack ds_visited ds_edges ds_tokens ds_disc map fst] in *.
          -- exact I1.
          -- exact I2.
          -- exact I3.
          -- split; [exact Hdepth | exact I4].
          -- apply (Hpend1 (mkDfs ((parent, depth, children') :: rest) (ds_visited st) (ds_disc st) (ds_edges st) (ds_tokens st) (ds_cycle st))); [auto | exact Hrm |]. split; [exact Ev | right; right; right; exists c0; exact Hc0].
          -- intros v Hv Hns m Hm. destruct (I6 v Hv Hns m Hm) as [A B]. split; [exact A | apply Hrm; exact B].
          -- exact I7.
          -- exact Hchildren1.
  Qed.
End Complete.

(* ------------------------------------------------------------------------------------------------ any traversal *)
Theorem traverse_complete : forall g w tb o all st t,
  (forall n m, In n (ws_atoms st) -> In m (nbr_ids g n) -> In m (ws_atoms st)) ->
  traverse g w tb o all st = Ok t ->
  let d := tr_dfs t in
  ds_stack d = [] /\ vis d (tr_start t) /\ In (tr_start t) (ws_atoms st) /\
  (forall n, vis d n -> In n (ws_atoms st)) /\
  (forall v, vis d v -> forall m, In m (nbr_ids g v) -> vis d m /\ Rec d v m).
Proof.
  intros g w tb o all st t Hcl H d. unfold traverse in H.
  destruct (min_by (key_start w tb o all) (ws_atoms st)) as [start|] eqn:Emin; [|discriminate].
  match type of H with context [iter_opt ?f ?step ?s0] => destruct (iter_opt f step s0) as [d0|] eqn:Ed; [|discriminate] end.
  inversion H. subst t. cbn [tr_dfs tr_start] in *. subst d.
  assert (Hstart : In start (ws_atoms st)).
  { unfold min_by in Emin. destruct (sort_by (key_start w tb o all) (ws_atoms st)) as [|x l] eqn:Es; [discriminate|].
    inversion Emin. subst x. apply (In_sort_by (key_start w tb o all)). rewrite Es. left. reflexivity. }
  match type of Ed with iter_opt _ ?step ?init = _ => set (s0 := init) in *; set (stp := step) in * end.
  assert (I0 : DC g (ws_atoms st) s0).
  { constructor; unfold vis, stack_atoms, s0; cbn [ds_stack ds_visited ds_edges ds_tokens ds_disc map fst].
    - intros n Hn. unfold zhas in Hn. cbn [zget] in Hn. destruct (n =? start) eqn:E; [apply Z.eqb_eq in E; subst; exact Hstart | discriminate].
    - intros n [<- | []]. unfold zhas. cbn [zget]. rewrite Z.eqb_refl. reflexivity.
    - constructor; [intros [] | constructor].
    - cbn [depth_ok List.length]. split; [lia | exact I].
    - intros p d ch [E | []] m Hm. injection E as E1 E2 E3. subst p d ch. left. apply In_sort_by. exact Hm.
    - intros v Hv Hns. exfalso. apply Hns. left. unfold zhas in Hv. cbn [zget] in Hv. destruct (v =? start) eqn:E; [apply Z.eqb_eq in E; symmetry; exact E | discriminate].
    - intros a b [].
    - intros p d ch [E | []] c Hc. injection E as E1 E2 E3. subst p d ch. apply In_sort_by in Hc. exact Hc. }
  pose proof (iter_opt_inv (DC g (ws_atoms st)) stp (dfs_step_DC g _ (ws_atoms st) Hcl) _ _ _ I0 Ed) as Id.
  (* the loop ended: the stack is empty *)
  assert (Hempty : ds_stack d0 = []).
  { clear - Ed. revert Ed. generalize s0. unfold stp. induction (dfs_fuel g) as [|f IH]; intros s Ed; cbn [iter_opt] in Ed; [discriminate|].
    destruct (dfs_step g _ s) as [s'|] eqn:E; [apply (IH s' Ed)|]. inversion Ed. subst. unfold dfs_step in E.
    destruct (ds_stack d0) as [|[[p dd] [|c ch]] r]; [reflexivity | discriminate |].
    destruct (negb (zhas (ds_visited d0) c)); [discriminate|]. destruct (negb (pair_mem (c, p) (ds_disc d0))); discriminate. }
  split; [exact Hempty|].
  assert (Hvs : vis d0 start).
  { assert (P : forall s s', zhas (ds_visited s) start = true -> stp s = Some s' -> zhas (ds_visited s') start = true).
    { intros s s' Hs E. unfold stp, dfs_step in E. destruct (ds_stack s) as [|[[p dd] [|c ch]] r]; [discriminate | inversion E; exact Hs |].
      destruct (negb (zhas (ds_visited s) c)); [inversion E; cbn; apply zhas_app'; exact Hs|].
      destruct (negb (pair_mem (c, p) (ds_disc s))); inversion E; exact Hs. }
    assert (H0 : zhas (ds_visited s0) start = true) by (unfold s0, zhas; cbn [ds_visited zget]; rewrite Z.eqb_refl; reflexivity).
    apply (iter_opt_inv (fun s => zhas (ds_visited s) start = true) stp P _ _ _ H0 Ed). }
  split; [exact Hvs|]. split; [exact Hstart|]. split; [apply (dc_vis_in _ _ _ Id)|].
  intros v Hv m Hm. apply (dc_done _ _ _ Id v Hv); [|exact Hm]. unfold stack_atoms. rewrite Hempty. intros [].
Qed.
