(* C11: FUEL SUFFICIENCY of the record iterators.  sdf_iter / rdf_iter (MDLRead.__iter__ over SDFRead / RDFRead.read_structure) are
   fuelled; sdf_read / rdf_read give them S (length file).  Here: for EVERY file -- well-formed or not --, every buffer size and every
   behaviour of the parsers' builders, that fuel is enough: the out-of-fuel outcome is impossible, because every call of
   read_structure that does not report the end of the file consumes at least one line.  (The framing theorems showed `Exhausted` for
   files of well-formed records; this excludes the artificial outcome for all inputs.) *)
From Coq Require Import ZArith List String Ascii Bool Lia.
From Model Require Import PyBase Mdl.
Import ListNotations.
Local Notation length := List.length.

Section Fuel.
  Variable A : Type.
  Variable build_mol : parsed3 -> pyres A.
  Variable build_rxn : rparsed -> pyres A.
  Variable buffer_size : nat.

  (* a block read either consumes a line or stands at the end of the file with the buffer it started with *)
  Lemma sdf_block_progress file : forall n buf m r rest, sdf_block buffer_size file n buf m = (r, rest) ->
    (length rest < length file)%nat \/ (file = [] /\ rest = [] /\ r = Some (buf, m, false)).
  Proof.
    induction file as [|line file IH]; intros n buf m r rest H; cbn [sdf_block] in H.
    - right. inversion H; subst. auto.
    - left. cbn [length]. destruct (startswith (L "$$$$") line); [inversion H; subst; lia|].
      destruct (Nat.eqb n buffer_size); [inversion H; subst; lia|].
      apply IH in H. destruct H as [H | [H1 [H2 _]]]; [lia | subst; cbn; lia].
  Qed.
  Lemma sdf_read_structure_progress file x rest : sdf_read_structure A build_mol buffer_size file = (x, rest) ->
    x <> inr EOFError -> (length rest < length file)%nat.
  Proof.
    unfold sdf_read_structure. destruct (sdf_block buffer_size file 0 [] None) as [r rest'] eqn:E. intros H Hx.
    apply sdf_block_progress in E. destruct E as [E | [_ [E2 E3]]].
    - assert (rest = rest'); [| subst; exact E].
      destruct r as [[[buf m] fl]|]; [| inversion H; reflexivity].
      destruct buf as [|b buf]; destruct m as [k|]; destruct fl; try (destruct (dispatch_mol A build_mol (firstn k (b :: buf)))); inversion H; reflexivity.
    - subst r. inversion H; subst. contradiction.
  Qed.
  Lemma sdf_iter_fuel : forall fuel file, (length file < fuel)%nat -> snd (sdf_iter A build_mol buffer_size fuel file) <> OutOfFuel.
  Proof.
    induction fuel as [|f IH]; intros file Hf; [lia|]. cbn [sdf_iter].
    destruct (sdf_read_structure A build_mol buffer_size file) as [x rest] eqn:E.
    destruct x as [x | e].
    - assert (Hp : (length rest < length file)%nat) by (apply (sdf_read_structure_progress _ _ _ E); discriminate).
      specialize (IH rest ltac:(lia)). destruct (sdf_iter A build_mol buffer_size f rest) as [l o]. cbn [snd] in *. exact IH.
    - destruct e as [e | |]; [| cbn; discriminate | cbn; discriminate].
      destruct (is_skipped e); [| cbn; discriminate].
      assert (Hp : (length rest < length file)%nat) by (apply (sdf_read_structure_progress _ _ _ E); discriminate).
      apply IH. lia.
  Qed.
  Theorem sdf_read_never_out_of_fuel : forall file, snd (sdf_read A build_mol buffer_size file) <> OutOfFuel.
  Proof. intros file. unfold sdf_read. apply sdf_iter_fuel. lia. Qed.

  Lemma rdf_block_progress file : forall n drop buf m r rest, rdf_block buffer_size file n drop buf m = (r, rest) ->
    (length rest < length file)%nat \/ (file = [] /\ rest = [] /\ r = Some (buf, m)).
  Proof.
    induction file as [|line file IH]; intros n drop buf m r rest H; cbn [rdf_block] in H.
    - right. inversion H; subst. auto.
    - left. cbn [length].
      assert (K : forall n drop buf m, rdf_block buffer_size file n drop buf m = (r, rest) -> (length rest < S (length file))%nat).
      { intros n' d' b' m' H'. apply IH in H'. destruct H' as [H' | [H1 [H2 _]]]; [lia | subst; cbn; lia]. }
      destruct drop.
      + destruct (startswith (L "$RXN") line); [exact (K _ _ _ _ H)|]. destruct (is_fmt line); exact (K _ _ _ _ H).
      + destruct (Nat.eqb n buffer_size); [inversion H; subst; lia|].
        destruct (falsy m && startswith (L "$DTYPE") line); [exact (K _ _ _ _ H)|].
        destruct (is_fmt line); [| exact (K _ _ _ _ H)].
        destruct buf; [exact (K _ _ _ _ H) | inversion H; subst; lia].
  Qed.
  Lemma rdf_read_structure_progress tell file x rest : rdf_read_structure A build_mol build_rxn buffer_size tell file = (x, rest) ->
    x <> inr EOFError -> (length rest < length file)%nat.
  Proof.
    unfold rdf_read_structure. destruct (rdf_block buffer_size file 0 (Nat.eqb tell 0) [] None) as [r rest'] eqn:E. intros H Hx.
    apply rdf_block_progress in E. destruct E as [E | [_ [E2 E3]]].
    - assert (rest = rest'); [| subst; exact E].
      destruct r as [[buf m]|]; [| inversion H; reflexivity].
      destruct buf as [|b buf]; [inversion H; reflexivity|].
      destruct (rdf_dispatch A build_mol build_rxn (b :: buf)); inversion H; reflexivity.
    - subst r. inversion H; subst. contradiction.
  Qed.
  Lemma rdf_iter_fuel : forall fuel tell file, (length file < fuel)%nat -> snd (rdf_iter A build_mol build_rxn buffer_size fuel tell file) <> OutOfFuel.
  Proof.
    induction fuel as [|f IH]; intros tell file Hf; [lia|]. cbn [rdf_iter].
    destruct (rdf_read_structure A build_mol build_rxn buffer_size tell file) as [x rest] eqn:E.
    destruct x as [x | e].
    - assert (Hp : (length rest < length file)%nat) by (apply (rdf_read_structure_progress _ _ _ _ E); discriminate).
      specialize (IH (S tell) rest ltac:(lia)). destruct (rdf_iter A build_mol build_rxn buffer_size f (S tell) rest) as [l o]. cbn [snd] in *. exact IH.
    - destruct e as [e | |]; [| cbn; discriminate | cbn; discriminate].
      destruct (is_skipped e); [| cbn; discriminate].
      assert (Hp : (length rest < length file)%nat) by (apply (rdf_read_structure_progress _ _ _ _ E); discriminate).
      apply IH. lia.
  Qed.
  Theorem rdf_read_never_out_of_fuel : forall file, snd (rdf_read A build_mol build_rxn buffer_size file) <> OutOfFuel.
  Proof. intros file. unfold rdf_read. apply rdf_iter_fuel. lia. Qed.
End Fuel.
