(* C06 -- round 4: why flush_cache(keep_sssr=True) must NOT keep the component list when atoms leave or join (remove_metals,
   implicify_hydrogens / explicify_hydrogens): on the model graph, a component list that is right before such an edit is never right
   after it.  Together with flush_cache_drops_components (the translated flush_cache does drop it) this is the model-level statement of
   the clause "connected components agree with the graph" across these methods. *)
From Coq Require Import ZArith List Bool Lia.
From Model Require Import PyBase Graph Rings.
From Proofs Require Import RingsProofs RingsMcb RingsRank RingsExt.
Import ListNotations.
Open Scope Z_scope.

(* an atom (with whatever neighbours) leaves: the old partition still lists it *)
Theorem components_stale_after_atom_removal : forall g n ms cs, In (n, ms) g -> is_partition g cs -> ~ is_partition (prune g n ms) cs.
Proof.
  intros g n ms cs I [Cov _] [_ [_ Mem]].
  assert (Hn : In n (keys g)) by (apply in_map_iff; exists (n, ms); split; [reflexivity | exact I]).
  destruct (Cov n Hn) as [c [Hc Hnc]]. destruct (Mem c Hc) as [_ M]. destruct (M n Hnc) as [K _].
  rewrite prune_keys in K. apply filter_In in K. destruct K as [_ K]. rewrite Z.eqb_refl in K. discriminate.
Qed.

(* an atom joins (the inverse edit): the old partition does not cover it *)
Theorem components_stale_after_atom_addition : forall g n ms cs, In (n, ms) g -> is_partition (prune g n ms) cs -> ~ is_partition g cs.
Proof. intros g n ms cs I P P'. exact (components_stale_after_atom_removal g n ms cs I P' P). Qed.

(* non-vacuity: sodium next to a bonded pair *)
Example components_stale_example :
  is_partition [(1, []); (2, [3]); (3, [2])] [[1]; [2; 3]] /\ ~ is_partition (prune [(1, []); (2, [3]); (3, [2])] 1 []) [[1]; [2; 3]].
Proof.
  assert (P : is_partition [(1, []); (2, [3]); (3, [2])] [[1]; [2; 3]]).
  { assert (W : gwf [(1, []); (2, [3]); (3, [2])]) by (apply gwf_b_sound; vm_compute; reflexivity).
    destruct (components_partition [(1, []); (2, [3]); (3, [2])] [1; 2; 3] W) as [cs [E P]].
    - intro x. cbn. tauto.
    - vm_compute in E. inversion E; subst. exact P. }
  split; [exact P|]. apply components_stale_after_atom_removal; [left; reflexivity | exact P].
Qed.
