(* C01, refuted: with CPython's hash, Element.__hash__ (Morgan.atom_invariant) does NOT tell apart two atoms that differ only in
   formal charge -1 / -2, because hash(-1) = hash(-2) = -2; atoms_order then ties two different atoms.  Genuine defect of the pinned
   code (known finding canon-differs:hash-collision-charge--1--2). *)
From Coq Require Import ZArith List Bool.
From Model Require Import PyBase PyHash Graph Morgan.
Import ListNotations.
Open Scope Z_scope.

Lemma hash_int_m1_m2 : hash_int (-1) = -2 /\ hash_int (-2) = -2.
Proof. split; vm_compute; reflexivity. Qed.

(* every pair of atoms that differ only in charge -1 / -2 collides, whatever the other fields and the ring flag *)
Theorem atom_invariant_charge_collision (num : Z) (iso : option Z) (rad : bool) (hy : option Z) (st : option bool) (r : bool) :
  py_atom_hash (mkAtom num iso (-1) rad hy st) r = py_atom_hash (mkAtom num iso (-2) rad hy st) r.
Proof.
  unfold py_atom_hash, atom_invariant, hash_ztuple. cbn [a_iso a_num a_chg a_rad a_h map].
  destruct hash_int_m1_m2 as [-> ->]. reflexivity.
Qed.

(* so the invariant is not injective on the charge *)
Theorem atom_invariant_injective_refuted :
  ~ (forall (a a' : atom) (r : bool), py_atom_hash a r = py_atom_hash a' r -> a_chg a = a_chg a').
Proof.
  intros H. specialize (H (mkAtom 17 None (-1) false (Some 0) None) (mkAtom 17 None (-2) false (Some 0) None) false
                          (atom_invariant_charge_collision 17 None false (Some 0) None false)). discriminate H.
Qed.

(* the witness molecule [Cl-2].[Cl-]: atoms_order gives both atoms the class 1 *)
Definition chg_g : mol :=
  mkMol [(1, mkAtom 17 None (-2) false (Some 0) None); (2, mkAtom 17 None (-1) false (Some 0) None)] [(1, []); (2, [])].
Theorem atoms_order_charge_tie : atoms_order hash_ztuple (fun _ => false) chg_g = Ok [(1, 1); (2, 1)].
Proof. vm_compute. reflexivity. Qed.
