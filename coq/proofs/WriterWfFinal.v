(* C02, writer_wellformed: the assembled statement.  For EVERY traversal of Smiles._smiles on a well-formed molecule (any weight
   function, tie-break and option set): the token list of a component contains every atom of one connected component of the
   remaining atoms exactly once, every bond between them exactly once - as a tree bond token (parent, child) or as ONE
   ring-closure pair recorded on both atoms with one cycle number - and nothing else. *)
From Coq Require Import ZArith List Bool Lia Permutation.
From Model Require Import PyBase Graph Writer.
From Proofs Require Import WriterProofsClosures WriterWfAtoms WriterWfStream WriterWfDfs WriterWfEvents WriterWfTree
                           WriterWfFlatten WriterWfParens WriterWfComplete WriterWfFlatten2 WriterWfDistinct.
Import ListNotations.
Open Scope Z_scope.

Lemma traverse_invariants : forall g w tb o all st t, nbr_nodup g -> loop_free g ->
  (forall n m, In n (ws_atoms st) -> In m (nbr_ids g n) -> In m (ws_atoms st)) ->
  traverse g w tb o all st = Ok t ->
  let d := tr_dfs t in
  DC g (ws_atoms st) d /\ DD d /\ anc_ok (tr_start t) (ds_visited d) (ds_edges d) /\ ds_stack d = [] /\ vis d (tr_start t).
Proof.
  intros g w tb o all st t Hnn Hloop Hcl H d. unfold traverse in H.
  destruct (min_by (key_start w tb o all) (ws_atoms st)) as [start|] eqn:Emin; [|discriminate].
  match type of H with context [iter_opt ?f ?step ?s0] => destruct (iter_opt f step s0) as [d0|] eqn:Ed; [|discriminate] end.
  inversion H. subst t. cbn [tr_dfs tr_start] in *. subst d.
  assert (Hstart : In start (ws_atoms st)).
  { unfold min_by in Emin. destruct (sort_by (key_start w tb o all) (ws_atoms st)) as [|x l] eqn:Es; [discriminate|].
    inversion Emin. subst x. apply (In_sort_by (key_start w tb o all)). rewrite Es. left. reflexivity. }
  match type of Ed with iter_opt _ ?step ?init = _ => set (s0 := init) in *; set (stp := step) in * end.
  set (P := fun s => DC g (ws_atoms st) s /\ DD s /\ anc_ok start (ds_visited s) (ds_edges s) /\ zhas (ds_visited s) start = true).
  assert (Hstep : forall s s', P s -> stp s = Some s' -> P s').
  { intros s s' [C [D [A V]]] E. unfold stp in E. split; [eapply dfs_step_DC; [exact Hcl | exact C | exact E]|].
    split; [eapply dfs_step_DD; [exact Hnn | exact Hloop | exact C | exact D | exact E]|].
    edestruct (dfs_step_DR g) as [A' _]; [| exact A | exact E |].
    - intros p dd ch Hin. apply (dc_stack_vis _ _ _ C). unfold stack_atoms. apply in_map_iff. exists (p, dd, ch). split; [reflexivity | exact Hin].
    - split; [exact A'|]. unfold dfs_step in E. destruct (ds_stack s) as [|[[p dd] [|c ch]] r]; [discriminate | inversion E; exact V |].
      destruct (negb (zhas (ds_visited s) c)); [inversion E; cbn; apply zhas_app'; exact V|].
      destruct (negb (pair_mem (c, p) (ds_disc s))); inversion E; exact V. }
  assert (P0 : P s0).
  { unfold P, s0. split; [|split; [|split]].
    - constructor; unfold vis, stack_atoms; cbn [ds_stack ds_visited ds_edges ds_tokens ds_disc map fst].
      + intros n Hn. unfold zhas in Hn. cbn [zget] in Hn. destruct (n =? start) eqn:E; [apply Z.eqb_eq in E; subst; exact Hstart | discriminate].
      + intros n [<- | []]. unfold zhas. cbn [zget]. rewrite Z.eqb_refl. reflexivity.
      + constructor; [intros [] | constructor].
      + cbn [depth_ok List.length]. split; [lia | exact I].
      + intros p d ch [E | []] m Hm. injection E as E1 E2 E3. subst p d ch. left. apply In_sort_by. exact Hm.
      + intros v Hv Hns. exfalso. apply Hns. left. unfold zhas in Hv. cbn [zget] in Hv. destruct (v =? start) eqn:E; [apply Z.eqb_eq in E; symmetry; exact E | discriminate].
      + intros a b [].
      + intros p d ch [E | []] c Hc. injection E as E1 E2 E3. subst p d ch. apply In_sort_by in Hc. exact Hc.
    - constructor; unfold tk, ed, vis; cbn [ds_stack ds_visited ds_edges ds_tokens ds_disc]; try (intros; match goal with H : In _ (zgetl [] _) |- _ => destruct H end).
      intros p d ch [E | []]. injection E as E1 E2 E3. subst p d ch. split; [|split; [|split]].
      + apply (Permutation_NoDup (Permutation_sym (sort_by_perm _ (nbr_ids g start)))). apply Hnn.
      + intros c _ [].
      + intros q [].
      + unfold zhas. cbn [zget]. rewrite Z.eqb_refl. reflexivity.
    - intros l1 v x l2 E. cbn [ds_visited] in E. destruct l1 as [|y l1]; [injection E as E1 _; inversion E1; left; reflexivity|].
      injection E as _ E. destruct l1; discriminate E.
    - unfold zhas. cbn [ds_visited zget]. rewrite Z.eqb_refl. reflexivity. }
  destruct (iter_opt_inv P stp Hstep _ _ _ P0 Ed) as [C [D [A V]]].
  split; [exact C|]. split; [exact D|]. split; [exact A|]. split; [|exact V].
  clear - Ed. revert Ed. generalize s0. unfold stp. induction (dfs_fuel g) as [|f IH]; intros s Ed; cbn [iter_opt] in Ed; [discriminate|].
  destruct (dfs_step g _ s) as [s'|] eqn:E; [apply (IH s' Ed)|]. inversion Ed. subst. unfold dfs_step in E.
  destruct (ds_stack d0) as [|[[p dd] [|c ch]] r]; [reflexivity | discriminate |].
  destruct (negb (zhas (ds_visited d0) c)); [discriminate|]. destruct (negb (pair_mem (c, p) (ds_disc d0))); discriminate.
Qed.

Record component_wf (g : mol) (aset : list Z) (t : traversal) (smi : list tok) : Prop := mkCW {
  cw_nodup : NoDup (atoms_of smi);
  cw_start : In (tr_start t) (atoms_of smi);
  cw_in : forall v, In v (atoms_of smi) -> In v aset;
  cw_vis : forall v, In v (atoms_of smi) <-> vis (tr_dfs t) v;
  (* a whole connected component *)
  cw_closed : forall v m, In v (atoms_of smi) -> In m (nbr_ids g v) -> In m (atoms_of smi);
  (* tree bond tokens: distinct, each a bond of the molecule between written atoms *)
  cw_tree_nodup : NoDup (pairs_of smi);
  cw_tree : forall p c, In (p, c) (pairs_of smi) -> In c (nbr_ids g p) /\ In p (atoms_of smi) /\ In c (atoms_of smi);
  (* ring closures: a bond of the molecule, recorded on both atoms with the same cycle number, one number per pair *)
  cw_ring : forall a m c, In (m, c) (zgetl (ds_tokens (tr_dfs t)) a) ->
              In m (nbr_ids g a) /\ a <> m /\ In (a, c) (zgetl (ds_tokens (tr_dfs t)) m) /\ In a (atoms_of smi) /\ In m (atoms_of smi);
  cw_ring_uniq : forall a m c c', In (m, c) (zgetl (ds_tokens (tr_dfs t)) a) -> In (m, c') (zgetl (ds_tokens (tr_dfs t)) a) -> c = c';
  (* every bond between written atoms is written: as a tree bond in one direction, or as a ring closure - exactly one of the three *)
  cw_cover : forall v m, In v (atoms_of smi) -> In m (nbr_ids g v) ->
               In (v, m) (pairs_of smi) \/ In (m, v) (pairs_of smi) \/ exists c, In (m, c) (zgetl (ds_tokens (tr_dfs t)) v);
  cw_excl : forall v m, ~ (In (v, m) (pairs_of smi) /\ In (m, v) (pairs_of smi)) /\
                        (forall c, In (m, c) (zgetl (ds_tokens (tr_dfs t)) v) -> ~ In (v, m) (pairs_of smi) /\ ~ In (m, v) (pairs_of smi))
}.

Theorem writer_wellformed : forall g w tb o all st t smi, wf_mol g = true ->
  (forall n m, In n (ws_atoms st) -> In m (nbr_ids g n) -> In m (ws_atoms st)) ->
  traverse g w tb o all st = Ok t -> flatten g t = Ok smi ->
  component_wf g (ws_atoms st) t smi.
Proof.
  intros g w tb o all st t smi Hwf Hcl Ht Hf.
  destruct (wf_mol_graph g Hwf) as [Hloop Hsym]. pose proof (wf_mol_nbr_nodup g Hwf) as Hnn.
  destruct (traverse_invariants g w tb o all st t Hnn Hloop Hcl Ht) as [C [D [A [Hempty Hvs]]]].
  pose proof (traverse_DI g w tb o all st t Hloop Hsym Ht) as DIt.
  pose proof (flatten_nodup g w tb o all st t smi Ht Hf) as Hnd.
  destruct (flatten_full g w tb o all st t smi Ht Hf) as [R1 [R2 R3]].
  set (d := tr_dfs t) in *. set (V := atoms_of smi) in *. set (T := pairs_of smi) in *.
  assert (Hstart : In (tr_start t) V) by (apply (Permutation_in _ (Permutation_sym R1)); left; reflexivity).
  assert (Hchild : forall p c, In (p, c) T -> In c V).
  { intros p c Hin. apply (Permutation_in _ (Permutation_sym R1)). right. apply in_map_iff. exists (p, c). split; [reflexivity | exact Hin]. }
  assert (HVvis : forall v, In v V -> vis d v).
  { intros v Hv. apply (Permutation_in _ R1) in Hv. destruct Hv as [<- | Hv]; [exact Hvs|].
    apply in_map_iff in Hv. destruct Hv as [[p c] [E Hin]]. cbn in E. subst c. apply (dd_edges_vis _ D p v). apply (R2 p v Hin). }
  assert (HvisV : forall v, vis d v -> In v V).
  { intros v Hv. apply (anc_closed (tr_start t) V (ds_edges d) Hstart) with (vs := ds_visited d); [|exact A | apply zhas_keys; exact Hv].
    intros n c Hn Hc. apply (Hchild n c). apply (R3 n c Hn Hc). }
  assert (Hdone : forall v, In v V -> forall m, In m (nbr_ids g v) -> vis d m /\ Rec d v m).
  { intros v Hv m Hm. apply (dc_done _ _ _ C v (HVvis v Hv)); [|exact Hm]. unfold stack_atoms. rewrite Hempty. intros []. }
  constructor.
  - exact Hnd.
  - exact Hstart.
  - intros v Hv. apply (dc_vis_in _ _ _ C). apply HVvis. exact Hv.
  - intros v. split; [apply HVvis | apply HvisV].
  - intros v m Hv Hm. apply HvisV. apply (Hdone v Hv m Hm).
  - assert (Hn : NoDup (map snd T)).
    { pose proof (Permutation_NoDup R1 Hnd) as H0. inversion H0. assumption. }
    apply (NoDup_map_inv snd). exact Hn.
  - intros p c Hin. pose proof (R2 p c Hin) as He. split; [apply (di_edges _ _ _ DIt p c He)|]. split; [|apply (Hchild p c Hin)].
    apply HvisV. apply (dd_edges_vis _ D p c He).
  - intros a m c Hin. destruct (di_tok _ _ _ DIt a m c Hin) as [Hnb _]. destruct (dd_tok_vis _ D a m c Hin) as [Va Vm].
    split; [exact Hnb|]. split; [intros ->; exact (Hloop m Hnb)|]. split; [apply (dd_sym _ D a m c Hin)|]. split; apply HvisV; assumption.
  - intros a m c c'. apply (dd_uniq _ D a m c c').
  - intros v m Hv Hm. destruct (Hdone v Hv m Hm) as [Vm [H | [H | [[c H] | [c H]]]]].
    + left. apply (R3 v m Hv H).
    + right. left. apply (R3 m v (HvisV m Vm) H).
    + right. right. exists c. exact H.
    + right. right. exists c. apply (dd_sym _ D m v c H).
  - intros v m. split.
    + intros [H1 H2]. apply (dd_anti _ D v m (R2 v m H1)). apply (R2 m v H2).
    + intros c Hc. split; intros Hp.
      * apply (dd_not_tree _ D v m c Hc). apply (R2 v m Hp).
      * apply (dd_not_tree _ D m v c (dd_sym _ D v m c Hc)). apply (R2 m v Hp).
Qed.
