(* Proofs about Model.Reader (smiles.py : smiles(), _mapping.py, structural part of _convert.py).
   reader_total: for EVERY text and both values of `ignore` and `remap`, smiles() returns a molecule / reaction or raises
   a ValueError-class exception (ValueError, IncorrectSmiles, IncorrectSmarts; MappingError / EmptyReaction /
   AtomNotFound-free) - never IndexError, KeyError, TypeError, AttributeError.
   mapping_numbers: the numbers postprocess_parsed_molecule assigns are pairwise distinct, keep every first occurrence of
   an atom map, and number all other atoms above the largest map. *)
From Coq Require Import ZArith List String Ascii Bool Lia.
From Model Require Import PyBase Tokenize Parser Reader.
From Gen Require Import TokenTables Elements.
From Proofs Require Import TokenizeProofs ParserProofs.
Import ListNotations.
Open Scope Z_scope.

Lemma vee_is_ve e : is_ve e = vee e.
Proof. destruct e; reflexivity. Qed.

(* ------------------------------------------------------------------------------------------------ plumbing *)
Lemma good_bind {A B} (P : A -> Prop) (r : pyres A) (k : A -> pyres B) :
  GoodR P r -> (forall a, P a -> total (k a)) -> total (match r with Ok a => k a | Err e => Err e end).
Proof. intros G K. destruct r as [a|e]; [apply K; exact G | exact G]. Qed.

Lemma goodr_bind {A B} (P : A -> Prop) (Q : B -> Prop) (r : pyres A) (k : A -> pyres B) :
  GoodR P r -> (forall a, P a -> GoodR Q (k a)) -> GoodR Q (match r with Ok a => k a | Err e => Err e end).
Proof. intros G K. destruct r as [a|e]; [apply K; exact G | exact G]. Qed.

Lemma goodr_weaken {A} (P Q : A -> Prop) (r : pyres A) : (forall a, P a -> Q a) -> GoodR P r -> GoodR Q r.
Proof. intros H G. destruct r; [apply H; exact G | exact G]. Qed.

Lemma map_res_good {A B} (f : A -> pyres B) (P : A -> Prop) (Q : B -> Prop) l :
  (forall x, P x -> GoodR Q (f x)) -> Forall P l -> GoodR (fun l' => Forall Q l' /\ List.length l' = List.length l) (map_res f l).
Proof.
  intros Hf. induction l as [|x r IH]; intros H; cbn.
  - split; [constructor | reflexivity].
  - inversion H; subst. specialize (IH H3). pose proof (Hf x H2) as G.
    destruct (f x) as [y|e]; [|exact G]. destruct (map_res f r) as [r'|e]; [|exact IH].
    destruct IH as [I1 I2]. split; [constructor; assumption | cbn; rewrite I2; reflexivity].
Qed.

Lemma Forall_True {A} (l : list A) : Forall (fun _ => True) l.
Proof. induction l; constructor; auto. Qed.

Lemma py_int_good l : GoodR (fun _ => True) (py_int l).
Proof. destruct (py_int l) eqn:E; [exact I | apply py_int_vee in E; exact E]. Qed.

(* ------------------------------------------------------------------------------------------------ the CXSMILES block *)
Lemma frag_group_nonnil l g r : frag_group l = Some (g, r) -> g <> [].
Proof.
  unfold frag_group. destruct (span is_digit l) as [d0 r0]. destruct d0; [discriminate|].
  destruct (dot_nums _ r0) as [ds r']. destruct ds; [discriminate|]. intros H. inversion H. discriminate.
Qed.

Lemma more_groups_nonnil fuel : forall l, Forall (fun g => g <> []) (more_groups fuel l).
Proof.
  induction fuel as [|k IH]; intros l; cbn; [constructor|].
  destruct l as [|c r]; [constructor|]. destruct (Ascii.eqb_spec c ","%char) as [->|Hc].
  - destruct (frag_group r) as [[g r']|] eqn:E; [|constructor]. constructor; [eapply frag_group_nonnil; exact E | apply IH].
  - destruct c as [[] [] [] [] [] [] [] []]; try constructor. contradiction Hc. reflexivity.
Qed.

Lemma frag_at_nonnil l gs : frag_at l = Some gs -> Forall (fun g => g <> []) gs.
Proof.
  unfold frag_at. destruct l as [|c1 [|c2 r]]; try discriminate.
  - destruct c1 as [[] [] [] [] [] [] [] []]; discriminate.
  - destruct c1 as [[] [] [] [] [] [] [] []]; try discriminate.
    destruct c2 as [[] [] [] [] [] [] [] []]; try discriminate.
    destruct (frag_group r) as [[g r']|] eqn:E; [|discriminate]. intros H. inversion H; subst.
    constructor; [eapply frag_group_nonnil; exact E | apply more_groups_nonnil].
Qed.

Lemma frag_search_nonnil l gs : frag_search l = Some gs -> Forall (fun g => g <> []) gs.
Proof.
  induction l as [|c r IH]; cbn [frag_search].
  - destruct (frag_at []) eqn:E; [intros H; inversion H; subst; eapply frag_at_nonnil; exact E | discriminate].
  - destruct (frag_at (c :: r)) eqn:E; [intros H; inversion H; subst; eapply frag_at_nonnil; exact E | exact IH].
Qed.

Lemma zsort_insert_nonnil x l : zsort_insert x l <> [].
Proof. destruct l; cbn; [discriminate|]. destruct (_ <=? _); discriminate. Qed.

Lemma zsort_nonnil l : l <> [] -> zsort l <> [].
Proof. destruct l; [contradiction|]. intros _. cbn. apply zsort_insert_nonnil. Qed.

Definition cx_ok (r : list Z * option (list (list Z))) : Prop :=
  match snd r with Some c => Forall (fun g => g <> []) c | None => True end.

Lemma cx_block_good cxs : GoodR cx_ok (cx_block cxs).
Proof.
  unfold cx_block.
  assert (R : GoodR (fun _ => True) (match map_res py_int (rad_findall (S (List.length cxs)) cxs) with
                                     | Err e => Err e | Ok r => Ok (if nodup_z r then r else []) end)).
  { pose proof (map_res_good py_int (fun _ => True) (fun _ => True) (rad_findall (S (List.length cxs)) cxs)
                  (fun x _ => py_int_good x) (Forall_True _)) as G.
    destruct (map_res py_int _); [exact I | exact G]. }
  destruct (frag_search cxs) as [groups|] eqn:E.
  - apply frag_search_nonnil in E.
    pose proof (map_res_good (fun g => match map_res py_int g with Ok l => Ok (zsort l) | Err e => Err e end)
                  (fun g => g <> []) (fun g => g <> []) groups) as G.
    match type of G with ?X -> _ => assert (Hx : X) end.
    { intros g Hg.
      pose proof (map_res_good py_int (fun _ => True) (fun _ => True) g (fun x _ => py_int_good x) (Forall_True _)) as G2.
      destruct (map_res py_int g) as [l|e]; [|exact G2]. cbn. apply zsort_nonnil. destruct G2 as [_ G2].
      destruct l; [destruct g; [contradiction | discriminate] | discriminate]. }
    specialize (G Hx E). destruct (map_res _ groups) as [contract|e]; [|exact G]. destruct G as [G _].
    destruct (match map_res py_int _ with Err e => Err e | Ok r => _ end) as [r|e]; [|exact R].
    unfold cx_ok. cbn. destruct (nodup_z _); [exact G | exact I].
  - destruct (match map_res py_int _ with Err e => Err e | Ok r => _ end) as [r|e]; [exact I | exact R].
Qed.

(* ------------------------------------------------------------------------------------------------ numbering (_mapping.py) *)
Lemma number_loop_good ignore maps : forall next used,
  GoodR (fun r => List.length (fst r) = List.length maps) (number_loop ignore maps next used).
Proof.
  induction maps as [|m r IH]; intros next used; cbn [number_loop]; [reflexivity|].
  destruct (m =? 0).
  - specialize (IH (next + 1) used). destruct (number_loop ignore r (next + 1) used) as [[o n]|e]; [cbn in *; lia | exact IH].
  - destruct (zmem m used).
    + destruct (negb ignore); [reflexivity|].
      specialize (IH (next + 1) used). destruct (number_loop ignore r (next + 1) used) as [[o n]|e]; [cbn in *; lia | exact IH].
    + specialize (IH next (m :: used)). destruct (number_loop ignore r next (m :: used)) as [[o n]|e]; [cbn in *; lia | exact IH].
Qed.

Lemma zrange_from_length s n : List.length (zrange_from s n) = n.
Proof. revert s. induction n; intros s; cbn; [reflexivity | rewrite IHn; reflexivity]. Qed.

Lemma pp_molecule_good remap ignore maps :
  GoodR (fun m => List.length m = List.length maps) (pp_molecule remap ignore maps).
Proof.
  unfold pp_molecule. destruct remap.
  - cbn. unfold zrange. rewrite zrange_from_length. lia.
  - destruct maps as [|m r] eqn:E; [reflexivity|]. rewrite <- E.
    pose proof (number_loop_good ignore maps (zmax_list maps 0 + 1) []) as G.
    destruct (number_loop ignore maps _ []) as [[o n]|e]; [exact G | exact G].
Qed.

(* ---- mapping_numbers *)
Lemma zmax_list_ge l : forall acc, acc <= zmax_list l acc /\ forall x, In x l -> x <= zmax_list l acc.
Proof.
  induction l as [|y r IH]; intros acc; cbn [zmax_list]; [split; [lia | intros x []]|].
  destruct (IH (Z.max acc y)) as [H1 H2]. split; [lia|]. intros x [<- | Hx]; [lia | apply H2; exact Hx].
Qed.

(* out = the numbers given by the loop started with the counter at `next` and the set `used` *)
Lemma number_loop_spec ignore maps : forall next used out n,
  (forall m, In m maps -> m < next) -> (forall u, In u used -> u < next) ->
  number_loop ignore maps next used = Ok (out, n) ->
  next <= n /\ NoDup out /\ (forall x, In x out -> ~ In x used /\ x < n) /\
  (forall i m, nth_error maps i = Some m -> m <> 0 -> ~ In m used -> ~ In m (firstn i maps) -> nth_error out i = Some m) /\
  (forall i m x, nth_error maps i = Some m -> nth_error out i = Some x -> x = m \/ next <= x).
Proof.
  induction maps as [|m r IH]; intros next used out n Hm Hu H; cbn [number_loop] in H.
  - inversion H; subst. split; [lia|]. split; [constructor|]. split; [intros x []|]. split.
    + intros i m' E. destruct i; discriminate.
    + intros i m' x E. destruct i; discriminate.
  - assert (Hm' : forall k, next <= k -> forall m0, In m0 r -> m0 < k) by (intros k Hk m0 H0; specialize (Hm m0 (or_intror H0)); lia).
    assert (Fresh : forall used', (forall u, In u used' -> u < next) -> (forall u, In u used -> In u used') ->
              forall o, number_loop ignore r (next + 1) used' = Ok (o, n) ->
              next <= n /\ NoDup (next :: o) /\ (forall x, In x (next :: o) -> ~ In x used /\ x < n) /\
              (forall i m0 x, nth_error r i = Some m0 -> nth_error o i = Some x -> x = m0 \/ next <= x) /\
              (forall i m0, nth_error r i = Some m0 -> m0 <> 0 -> ~ In m0 used' -> ~ In m0 (firstn i r) -> nth_error o i = Some m0)).
    { intros used' Hu' Hsub o E.
      destruct (IH (next + 1) used' o n (Hm' (next + 1) ltac:(lia)) (fun u Hx => ltac:(specialize (Hu' u Hx); lia)) E) as [I1 [I2 [I3 [I4 I5]]]].
      split; [lia|]. split.
      { constructor; [|exact I2]. intros Hin. assert (Hlt : next < next + 1) by lia.
        (* every element of o is a kept map (< next) or a fresh number (>= next + 1) *)
        destruct (In_nth_error _ _ Hin) as [i Hi].
        destruct (nth_error r i) as [m0|] eqn:Er.
        - destruct (I5 i m0 next Er Hi) as [-> | Hge]; [|lia].
          specialize (Hm m0 (or_intror (nth_error_In _ _ Er))). lia.
        - apply nth_error_None in Er. pose proof (number_loop_good ignore r (next + 1) used') as G. rewrite E in G. cbn in G.
          assert (i < List.length o)%nat by (apply nth_error_Some; rewrite Hi; discriminate). lia. }
      split.
      { intros x [<- | Hx]; [split; [intros Hin; specialize (Hu _ Hin); lia | lia]|].
        destruct (I3 x Hx) as [J1 J2]. split; [intros Hin; apply J1; apply Hsub; exact Hin | exact J2]. }
      split.
      { intros i m0 x E1 E2. destruct (I5 i m0 x E1 E2); [left; assumption | right; lia]. }
      exact I4. }
    destruct (m =? 0) eqn:E0.
    + apply Z.eqb_eq in E0. subst m.
      destruct (number_loop ignore r (next + 1) used) as [[o n']|e] eqn:E; [|discriminate]. inversion H; subst.
      destruct (Fresh used Hu (fun u Hx => Hx) o E) as [F1 [F2 [F3 [F4 F5]]]].
      repeat split; try assumption; try (apply F3; assumption).
      * intros [|i] m0 E1 Hn0 Hnu Hnf; cbn in E1 |- *; [inversion E1; subst; contradiction|].
        apply F5; try assumption. intros Hin. apply Hnf. cbn. right. exact Hin.
      * intros [|i] m0 x E1 E2; cbn in E1, E2; [inversion E2; subst; right; lia | eapply F4; eassumption].
    + apply Z.eqb_neq in E0. destruct (zmem m used) eqn:Emem.
      * destruct (negb ignore); [discriminate|].
        destruct (number_loop ignore r (next + 1) used) as [[o n']|e] eqn:E; [|discriminate]. inversion H; subst.
        destruct (Fresh used Hu (fun u Hx => Hx) o E) as [F1 [F2 [F3 [F4 F5]]]].
        repeat split; try assumption; try (apply F3; assumption).
        -- intros [|i] m0 E1 Hn0 Hnu Hnf; cbn in E1 |- *.
           ++ inversion E1; subst. apply zmem_In in Emem. contradiction.
           ++ apply F5; try assumption. intros Hin. apply Hnf. cbn. right. exact Hin.
        -- intros [|i] m0 x E1 E2; cbn in E1, E2; [inversion E2; subst; right; lia | eapply F4; eassumption].
      * assert (Hnm : ~ In m used) by (intros Hin; apply zmem_In in Hin; rewrite Hin in Emem; discriminate).
        destruct (number_loop ignore r next (m :: used)) as [[o n']|e] eqn:E; [|discriminate]. inversion H; subst.
        assert (Hu2 : forall u, In u (m :: used) -> u < next) by (intros u [<- | Hx]; [apply Hm; left; reflexivity | apply Hu; exact Hx]).
        destruct (IH next (m :: used) o n (Hm' next ltac:(lia)) Hu2 E) as [I1 [I2 [I3 [I4 I5]]]].
        split; [exact I1|]. split.
        { constructor; [|exact I2]. intros Hin. destruct (I3 m Hin) as [J _]. apply J. left. reflexivity. }
        split.
        { intros x [<- | Hx]; [split; [exact Hnm | specialize (Hm m (or_introl eq_refl)); lia]|].
          destruct (I3 x Hx) as [J1 J2]. split; [intros Hin; apply J1; right; exact Hin | exact J2]. }
        split.
        { intros [|i] m0 E1 Hn0 Hnu Hnf; cbn in E1 |- *; [exact E1|].
          apply I4; try assumption.
          - intros [<- | Hin]; [apply Hnf; cbn; left; reflexivity | contradiction].
          - intros Hin. apply Hnf. cbn. right. exact Hin. }
        { intros [|i] m0 x E1 E2; cbn in E1, E2; [inversion E1; inversion E2; subst; left; reflexivity | eapply I5; eassumption]. }
Qed.

(* postprocess_parsed_molecule(remap=False): numbers pairwise distinct, one per atom; the first atom carrying a
   (non-zero) map keeps it; every number is an atom's own map or larger than all maps *)
Theorem mapping_numbers ignore maps out :
  pp_molecule false ignore maps = Ok out ->
  NoDup out /\ List.length out = List.length maps /\
  (forall i m, nth_error maps i = Some m -> m <> 0 -> ~ In m (firstn i maps) -> nth_error out i = Some m) /\
  (forall i m x, nth_error maps i = Some m -> nth_error out i = Some x -> x = m \/ forall m', In m' maps -> m' < x).
Proof.
  unfold pp_molecule. destruct maps as [|m0 r] eqn:E; [discriminate|]. rewrite <- E. clear E m0 r.
  destruct (number_loop ignore maps (zmax_list maps 0 + 1) []) as [[o n]|e] eqn:EL; [|discriminate].
  intros H. inversion H; subst.
  pose proof (zmax_list_ge maps 0) as [_ Hmax].
  destruct (number_loop_spec ignore maps (zmax_list maps 0 + 1) [] out n) as [I1 [I2 [I3 [I4 I5]]]].
  - intros m Hm. specialize (Hmax m Hm). lia.
  - intros u [].
  - exact EL.
  - split; [exact I2|]. split.
    { pose proof (number_loop_good ignore maps (zmax_list maps 0 + 1) []) as G. rewrite EL in G. exact G. }
    split.
    { intros i m E1 Hn0 Hnf. apply I4; try assumption. intros []. }
    { intros i m x E1 E2. destruct (I5 i m x E1 E2) as [-> | Hge]; [left; reflexivity|].
      right. intros m' Hm'. specialize (Hmax m' Hm'). lia. }
Qed.

(* postprocess_parsed_molecule(remap=True): 1..n *)
Theorem mapping_numbers_remap ignore maps : pp_molecule true ignore maps = Ok (zrange 1 (Z.of_nat (List.length maps) + 1)).
Proof. reflexivity. Qed.

Example mapping_numbers_example :
  pp_molecule false true [0; 5; 0; 5; 2] = Ok [6; 5; 7; 8; 2] /\ pp_molecule false false [0; 5; 0; 5; 2] = Err ValueError.
Proof. split; vm_compute; reflexivity. Qed.

(* ------------------------------------------------------------------------------------------------ create_molecule (structure) *)
Lemma keys_zset {V} (d : list (Z * V)) k v x : In x (keys (zset d k v)) <-> x = k \/ In x (keys d).
Proof.
  induction d as [|[k0 v0] r IH]; cbn.
  - intuition.
  - destruct (k =? k0) eqn:E; cbn.
    + apply Z.eqb_eq in E. subst. intuition.
    + rewrite IH. intuition.
Qed.

Lemma make_atoms_good mapping : forall atoms acc, (List.length mapping <= List.length atoms)%nat ->
  GoodR (fun ats => forall x, In x mapping \/ In x (keys acc) -> In x (keys ats)) (make_atoms mapping atoms acc).
Proof.
  induction mapping as [|n mr IH]; intros atoms acc Hl; cbn [make_atoms].
  - cbn. intros x [[] | H]; exact H.
  - destruct atoms as [|a ar]; [cbn in Hl; lia|]. destruct (atom_ok (fst a)); [|reflexivity].
    cbn in Hl. eapply goodr_weaken; [|apply IH; lia]. cbn. intros ats H x Hx. apply H.
    rewrite keys_zset. destruct Hx as [[<- | Hx] | Hx]; tauto.
Qed.

Lemma map_at_ok mapping i : 0 <= i < Z.of_nat (List.length mapping) -> exists x, map_at mapping i = Ok x /\ In x mapping.
Proof.
  intros H. unfold map_at. destruct (i <? 0) eqn:E; [apply Z.ltb_lt in E; lia|].
  destruct (nth_error mapping (Z.to_nat i)) eqn:E2.
  - eexists. split; [reflexivity | eapply nth_error_In; exact E2].
  - apply nth_error_None in E2. lia.
Qed.

Lemma make_bonds_good mapping nums bs : forall done,
  Forall (bwf (Z.of_nat (List.length mapping))) bs -> (forall x, In x mapping -> zmem x nums = true) ->
  total (make_bonds mapping nums bs done).
Proof.
  induction bs as [|[[i j] b] r IH]; intros done Hb Hn; cbn [make_bonds]; [exact I|].
  inversion Hb as [|? ? Hh Hr]; subst. unfold bwf in Hh. destruct Hh as [Hi [Hj [o ->]]].
  destruct (map_at_ok mapping i Hi) as [n [-> Hnin]]. destruct (map_at_ok mapping j Hj) as [m [-> Hmin]].
  destruct (n =? m); [reflexivity|]. rewrite (Hn n Hnin), (Hn m Hmin). cbn [andb negb].
  destruct (existsb _ done); [reflexivity|]. cbn [bond_order]. destruct (valid_order o); [|reflexivity].
  apply IH; assumption.
Qed.

Lemma create_molecule_total mapping atoms bonds :
  List.length mapping = List.length atoms -> Forall (bwf (Z.of_nat (List.length atoms))) bonds ->
  total (create_molecule mapping atoms bonds).
Proof.
  intros Hl Hb. unfold create_molecule.
  pose proof (make_atoms_good mapping atoms [] ltac:(lia)) as G.
  destruct (make_atoms mapping atoms []) as [ats|e]; [|exact G]. cbn in G.
  pose proof (make_bonds_good mapping (keys ats) bonds [] ltac:(rewrite Hl; exact Hb)
                (fun x Hx => proj2 (zmem_In x (keys ats)) (G x (or_introl Hx)))) as T.
  destruct (make_bonds mapping (keys ats) bonds []); [exact I | exact T].
Qed.

(* ------------------------------------------------------------------------------------------------ smiles(): molecule branch *)
Lemma set_radicals_good crash rads : forall atoms,
  GoodR (fun a' => List.length a' = List.length atoms) (set_radicals true crash atoms rads).
Proof.
  induction rads as [|x r IH]; intros atoms; cbn [set_radicals]; [reflexivity|].
  destruct (x <? 0); [reflexivity|].
  destruct (nth_error atoms (Z.to_nat x)) as [[a b]|] eqn:E; [|reflexivity].
  assert (Hlt : (Z.to_nat x < List.length atoms)%nat) by (apply nth_error_Some; rewrite E; discriminate).
  destruct (list_set_some atoms (Z.to_nat x) (a, true) Hlt) as [atoms' [-> Hl']].
  eapply goodr_weaken; [|apply IH]. cbn. intros a' H. lia.
Qed.

Lemma string_nonnil l : l <> [] -> string_of_list_ascii l <> ""%string.
Proof. destruct l; [contradiction | discriminate]. Qed.

Lemma parse_text_good ignore x : x <> [] -> GoodR parsed_wf (parse_text tokenize parse ignore x).
Proof.
  intros Hx. unfold parse_text. pose proof (tokenize_good (string_of_list_ascii x)) as T.
  destruct (tokenize (string_of_list_ascii x)) as [ts|e]; [|exact T]. destruct T as [T1 T2].
  apply parse_good; [exact T1 | apply T2; apply string_nonnil; exact Hx].
Qed.

Lemma read_molecule_total ignore remap smi rads : smi <> [] -> total (read_molecule tokenize parse true ignore remap smi rads).
Proof.
  intros Hs. unfold read_molecule.
  apply (good_bind parsed_wf); [apply parse_text_good; exact Hs|]. intros p [Hp1 Hp2].
  apply (good_bind (fun a' => List.length a' = List.length (no_rad p))); [apply set_radicals_good|]. intros atoms Ha.
  apply (good_bind (fun m => List.length m = List.length (map map_of (p_atoms p)))); [apply pp_molecule_good|]. intros mapping Hm.
  assert (Hlen : List.length atoms = List.length (p_atoms p)) by (rewrite Ha; unfold no_rad; rewrite map_length; reflexivity).
  pose proof (create_molecule_total mapping atoms (p_bonds p)) as T.
  rewrite map_length in Hm. rewrite Hlen in T. specialize (T Hm Hp2).
  destruct (create_molecule mapping atoms (p_bonds p)); [exact I | exact T].
Qed.

(* ------------------------------------------------------------------------------------------------ smiles(): reaction branch *)
Definition nonnil_l (x : list ascii) : Prop := x <> [].

Lemma filter_nonnil (l : list (list ascii)) :
  Forall nonnil_l (filter (fun x => match x with [] => false | _ => true end) l).
Proof.
  induction l as [|y l' IH]; cbn; [constructor|]. destruct y; [exact IH | constructor; [discriminate | exact IH]].
Qed.

Lemma role_pieces_good ignore d : GoodR (Forall nonnil_l) (role_pieces ignore d).
Proof.
  unfold role_pieces. destruct d as [|c r]; [constructor|].
  destruct (_ && _); [reflexivity|]. apply filter_nonnil.
Qed.

Lemma py_nth_ok {A} (l : list A) i : - Z.of_nat (List.length l) <= i < Z.of_nat (List.length l) ->
  exists x, py_nth l i = Ok x /\ In x l.
Proof.
  intros H. unfold py_nth.
  set (j := if i <? 0 then i + Z.of_nat (List.length l) else i).
  assert (Hj : 0 <= j < Z.of_nat (List.length l)) by (unfold j; destruct (i <? 0) eqn:E; [apply Z.ltb_lt in E | apply Z.ltb_ge in E]; lia).
  destruct (j <? 0) eqn:E; [apply Z.ltb_lt in E; lia|].
  destruct (nth_error l (Z.to_nat j)) eqn:E2.
  - eexists. split; [reflexivity | eapply nth_error_In; exact E2].
  - apply nth_error_None in E2. lia.
Qed.

Lemma join_with_nonnil sep l : l <> [] -> Forall nonnil_l l -> join_with sep l <> [].
Proof.
  destruct l as [|x r]; [contradiction|]. intros _ H. inversion H; subst. cbn.
  destruct r; [assumption|]. destruct x; [contradiction | discriminate].
Qed.

Definition optnn (o : option (list ascii)) : Prop := match o with Some v => v <> [] | None => True end.

Lemma list_set_Forall {A} (P : A -> Prop) l : forall i v l', list_set l i v = Some l' -> Forall P l -> P v -> Forall P l'.
Proof.
  induction l as [|x r IH]; intros i v l' H HF Hv; cbn in H; [discriminate|].
  inversion HF; subst. destruct i.
  - inversion H; subst. constructor; assumption.
  - destruct (list_set r i v) eqn:E; [|discriminate]. inversion H; subst. constructor; [assumption | eapply IH; eassumption].
Qed.

Lemma cr_set_new_good nm i v : 0 <= i < Z.of_nat (List.length nm) -> v <> [] -> Forall optnn nm ->
  exists nm', cr_set_new nm i v = Ok nm' /\ List.length nm' = List.length nm /\ Forall optnn nm'.
Proof.
  intros Hi Hv HF. unfold cr_set_new. destruct (i <? 0) eqn:E; [apply Z.ltb_lt in E; lia|].
  destruct (list_set_some nm (Z.to_nat i) (Some v)) as [nm' [H1 H2]]; [lia|]. rewrite H1.
  exists nm'. split; [reflexivity|]. split; [exact H2|]. eapply list_set_Forall; [exact H1 | exact HF | exact Hv].
Qed.

Lemma cr_joined_good src shift c : c <> [] -> Forall nonnil_l src ->
  (forall x, In x c -> - Z.of_nat (List.length src) <= x - shift < Z.of_nat (List.length src)) ->
  exists v, cr_joined src shift c = Ok v /\ v <> [].
Proof.
  intros Hc Hs Hr. unfold cr_joined.
  assert (G : GoodR (fun l => Forall nonnil_l l /\ List.length l = List.length c) (map_res (fun x => py_nth src (x - shift)) c)).
  { apply (map_res_good _ (fun x => In x c)).
    - intros x Hx. destruct (py_nth_ok src (x - shift) (Hr x Hx)) as [y [-> Hy]]. cbn.
      rewrite Forall_forall in Hs. apply Hs. exact Hy.
    - apply Forall_forall. auto. }
  destruct (map_res _ c) as [l|e] eqn:E.
  - destruct G as [G1 G2]. eexists. split; [reflexivity|]. apply join_with_nonnil; [|exact G1].
    destruct l; [destruct c; [contradiction | discriminate] | discriminate].
  - (* no element fails *)
    exfalso. clear G Hc. revert e E. induction c as [|x r IH]; intros e E; cbn in E; [discriminate|].
    destruct (py_nth_ok src (x - shift) (Hr x (or_introl eq_refl))) as [y [Hy _]]. rewrite Hy in E.
    destruct (map_res _ r) eqn:E2; [discriminate|]. eapply IH; [intros z Hz; apply Hr; right; exact Hz | reflexivity].
Qed.

Lemma zdiff_sub a b x : In x (zdiff a b) -> In x a.
Proof. unfold zdiff. rewrite filter_In. tauto. Qed.

Lemma subset_z_In a b : subset_z a b = true -> forall x, In x a -> In x b.
Proof. unfold subset_z. rewrite forallb_forall. intros H x Hx. apply zmem_In. apply H. exact Hx. Qed.

Section CONTRACT.
Variables (R P G : list (list ascii)).
Hypothesis (HR : Forall nonnil_l R) (HP : Forall nonnil_l P) (HG : Forall nonnil_l G).
Let lr := Z.of_nat (List.length R).
Let lp := Z.of_nat (List.length P).
Let mc := lr + lp + Z.of_nat (List.length G).

Definition cr_inv (st : cr_state) : Prop :=
  let '(sr, sg, sp, nm) := st in
  (forall x, In x sr -> 0 <= x < lr) /\ (forall x, In x sg -> lr <= x < mc - lp) /\ (forall x, In x sp -> mc - lp <= x < mc) /\
  Z.of_nat (List.length nm) = mc /\ Forall optnn nm.

Lemma cr_go_good cs : Forall (fun g => g <> []) cs -> forall st, cr_inv st -> GoodR cr_inv (cr_go R P G lr mc cs st).
Proof.
  assert (Hnn : 0 <= lr /\ 0 <= lp /\ 0 <= Z.of_nat (List.length G)) by (unfold lr, lp; lia).
  induction cs as [|c r IH]; intros Hcs st Hst; cbn [cr_go]; [exact Hst|].
  inversion Hcs as [|? ? Hc Hr]; subst. destruct st as [[[sr sg] sp] nm]. destruct Hst as [I1 [I2 [I3 [I4 I5]]]].
  assert (Hc0 : forall s, subset_z c s = true -> In (match c with x :: _ => x | [] => 0 end) s).
  { intros s Hs. destruct c as [|x c']; [contradiction|]. apply (subset_z_In _ _ Hs). left. reflexivity. }
  set (c0 := match c with x :: _ => x | [] => 0 end) in *.
  destruct (subset_z c sr) eqn:E1.
  { destruct (cr_joined_good R 0 c Hc HR) as [v [-> Hv]].
    { intros x Hx. specialize (I1 x (subset_z_In _ _ E1 x Hx)). unfold lr in I1. lia. }
    destruct (cr_set_new_good nm c0 v ltac:(specialize (I1 _ (Hc0 sr E1)); unfold mc in *; lia) Hv I5) as [nm' [-> [L1 L2]]].
    apply IH; [exact Hr|].
    split; [intros x Hx; apply I1; try (apply zdiff_sub in Hx); exact Hx |
    split; [intros x Hx; apply I2; try (apply zdiff_sub in Hx); exact Hx |
    split; [intros x Hx; apply I3; try (apply zdiff_sub in Hx); exact Hx |
    split; [rewrite L1; exact I4 | exact L2]]]]. }
  destruct (subset_z c sp) eqn:E2.
  { destruct (cr_joined_good P mc c Hc HP) as [v [-> Hv]].
    { intros x Hx. specialize (I3 x (subset_z_In _ _ E2 x Hx)). unfold lp in I3. lia. }
    destruct (cr_set_new_good nm c0 v ltac:(specialize (I3 _ (Hc0 sp E2)); unfold mc in *; lia) Hv I5) as [nm' [-> [L1 L2]]].
    apply IH; [exact Hr|].
    split; [intros x Hx; apply I1; try (apply zdiff_sub in Hx); exact Hx |
    split; [intros x Hx; apply I2; try (apply zdiff_sub in Hx); exact Hx |
    split; [intros x Hx; apply I3; try (apply zdiff_sub in Hx); exact Hx |
    split; [rewrite L1; exact I4 | exact L2]]]]. }
  destruct (subset_z c sg) eqn:E3.
  { destruct (cr_joined_good G lr c Hc HG) as [v [-> Hv]].
    { intros x Hx. specialize (I2 x (subset_z_In _ _ E3 x Hx)). unfold mc in I2. lia. }
    destruct (cr_set_new_good nm c0 v ltac:(specialize (I2 _ (Hc0 sg E3)); unfold mc in *; lia) Hv I5) as [nm' [-> [L1 L2]]].
    apply IH; [exact Hr|].
    split; [intros x Hx; apply I1; try (apply zdiff_sub in Hx); exact Hx |
    split; [intros x Hx; apply I2; try (apply zdiff_sub in Hx); exact Hx |
    split; [intros x Hx; apply I3; try (apply zdiff_sub in Hx); exact Hx |
    split; [rewrite L1; exact I4 | exact L2]]]]. }
  apply IH; [exact Hr|]. split; [exact I1 | split; [exact I2 | split; [exact I3 | split; [exact I4 | exact I5]]]].
Qed.

Lemma cr_fill_good src shift xs : Forall nonnil_l src ->
  forall nm, (forall x, In x xs -> - Z.of_nat (List.length src) <= x - shift < Z.of_nat (List.length src) /\ 0 <= x < Z.of_nat (List.length nm)) ->
  Forall optnn nm ->
  GoodR (fun nm' => List.length nm' = List.length nm /\ Forall optnn nm') (cr_fill src shift xs nm).
Proof.
  intros Hs. induction xs as [|x r IH]; intros nm Hx HF; cbn [cr_fill]; [split; [reflexivity | exact HF]|].
  destruct (Hx x (or_introl eq_refl)) as [H1 H2].
  destruct (py_nth_ok src (x - shift) H1) as [v [-> Hv]].
  rewrite Forall_forall in Hs. specialize (Hs v Hv).
  destruct (cr_set_new_good nm x v H2 Hs HF) as [nm' [-> [L1 L2]]].
  eapply goodr_weaken; [|apply IH; [|exact L2]].
  - cbn. intros a [A1 A2]. split; [lia | exact A2].
  - intros y Hy. rewrite L1. apply Hx. right. exact Hy.
Qed.

Lemma Forall_firstn {A} (Q : A -> Prop) n l : Forall Q l -> Forall Q (firstn n l).
Proof. intros H. rewrite <- (firstn_skipn n l) in H. apply Forall_app in H. tauto. Qed.
Lemma Forall_skipn {A} (Q : A -> Prop) n l : Forall Q l -> Forall Q (skipn n l).
Proof. intros H. rewrite <- (firstn_skipn n l) in H. apply Forall_app in H. tauto. Qed.

Lemma cr_some_good l : Forall optnn l -> Forall nonnil_l (cr_some l).
Proof.
  unfold cr_some. induction l as [|o r IH]; intros H; cbn; [constructor|]. inversion H; subst.
  destruct o; cbn; [constructor; [assumption | apply IH; assumption] | apply IH; assumption].
Qed.

Definition roles_nn (t : list (list ascii) * list (list ascii) * list (list ascii)) : Prop :=
  let '(a, b, c) := t in Forall nonnil_l a /\ Forall nonnil_l b /\ Forall nonnil_l c.

Lemma repeat_Forall {A} (Q : A -> Prop) x n : Q x -> Forall Q (repeat x n).
Proof. intros H. induction n; cbn; constructor; assumption. Qed.

Lemma contract_roles_good contract : Forall (fun g => g <> []) contract -> GoodR roles_nn (contract_roles contract R P G).
Proof.
  intros Hc. unfold contract_roles. fold lr. fold lp. fold mc.
  assert (Hmc : 0 <= mc) by (unfold mc, lr, lp; lia).
  pose proof (cr_go_good contract Hc (zrange 0 lr, zrange lr (mc - lp), zrange (mc - lp) mc, repeat None (Z.to_nat mc))) as G0.
  match type of G0 with ?X -> _ => assert (Hx : X) end.
  { split; [intros x Hx; apply zrange_In in Hx; lia |
    split; [intros x Hx; apply zrange_In in Hx; lia |
    split; [intros x Hx; apply zrange_In in Hx; lia |
    split; [rewrite repeat_length; lia | apply repeat_Forall; exact I]]]]. }
  specialize (G0 Hx). clear Hx.
  destruct (cr_go R P G lr mc contract _) as [[[[sr sg] sp] nm]|e]; [|exact G0].
  destruct G0 as [I1 [I2 [I3 [I4 I5]]]].
  pose proof (cr_fill_good R 0 sr HR nm) as F1.
  match type of F1 with ?X -> _ => assert (Hx : X) end.
  { intros x Hx. specialize (I1 x Hx). unfold lr, mc in *. lia. }
  specialize (F1 Hx I5). clear Hx.
  destruct (cr_fill R 0 sr nm) as [nm1|e]; [|exact F1]. destruct F1 as [L1 F1].
  pose proof (cr_fill_good P mc sp HP nm1) as F2.
  match type of F2 with ?X -> _ => assert (Hx : X) end.
  { intros x Hx. specialize (I3 x Hx). unfold lr, lp, mc in *. lia. }
  specialize (F2 Hx F1). clear Hx.
  destruct (cr_fill P mc sp nm1) as [nm2|e]; [|exact F2]. destruct F2 as [L2 F2].
  pose proof (cr_fill_good G lr sg HG nm2) as F3.
  match type of F3 with ?X -> _ => assert (Hx : X) end.
  { intros x Hx. specialize (I2 x Hx). unfold lr, lp, mc in *. lia. }
  specialize (F3 Hx F2). clear Hx.
  destruct (cr_fill G lr sg nm2) as [nm3|e]; [|exact F3]. destruct F3 as [L3 F3].
  cbn. repeat split; apply cr_some_good; repeat first [apply Forall_firstn | apply Forall_skipn]; exact F3.
Qed.
End CONTRACT.

(* ---- postprocess_parsed_reaction: only MappingError (a ValueError); one number per atom of every molecule *)
Definition len_eq {A B} (a : list A) (b : list B) : Prop := List.length a = List.length b.

Lemma chunk_good {B} (xs : list (list B)) : forall l : list Z, List.length l = List.length (List.concat xs) ->
  Forall2 len_eq (chunk l (map (@List.length B) xs)) xs.
Proof.
  induction xs as [|x r IH]; intros l Hl; cbn [map chunk]; [constructor|].
  cbn [List.concat] in Hl. rewrite app_length in Hl. constructor.
  - unfold len_eq. rewrite firstn_length. lia.
  - apply IH. rewrite skipn_length. lia.
Qed.

Lemma squeeze_length (lose l : list Z) :
  List.length (fold_left (fun acc j => map (fun x => if x <? j then x else x - 1) acc) lose l) = List.length l.
Proof. revert l. induction lose as [|j r IH]; intros l; cbn; [reflexivity|]. rewrite IH, map_length. reflexivity. Qed.

Lemma refresh_length (common : list Z) g1 : forall acc : list Z * Z,
  List.length (fst (fold_left (fun (acc : list Z * Z) x =>
                                 if zmem x common then (fst acc ++ [snd acc], snd acc + 1) else (fst acc ++ [x], snd acc)) g1 acc))
  = (List.length (fst acc) + List.length g1)%nat.
Proof.
  induction g1 as [|x r IH]; intros acc; cbn [fold_left]; [cbn; lia|].
  rewrite IH. destruct (zmem x common); cbn [fst]; rewrite app_length; cbn; lia.
Qed.

Definition maps_ok {B} (rs ps gs : list (list B)) (t : list (list Z) * list (list Z) * list (list Z)) : Prop :=
  let '(a, b, c) := t in Forall2 len_eq a rs /\ Forall2 len_eq b ps /\ Forall2 len_eq c gs.

Lemma pp_reaction_good remap ignore rs ps gs : GoodR (maps_ok rs ps gs) (pp_reaction remap ignore rs ps gs).
Proof.
  unfold pp_reaction. destruct (negb _); [reflexivity|].
  set (start := _ + 1).
  pose proof (number_loop_good ignore (List.concat rs) start []) as G1.
  destruct (number_loop ignore (List.concat rs) start []) as [[r1 n1]|e]; [|exact G1]. cbn in G1.
  pose proof (number_loop_good ignore (List.concat ps) n1 []) as G2.
  destruct (number_loop ignore (List.concat ps) n1 []) as [[p1 n2]|e]; [|exact G2]. cbn in G2.
  pose proof (number_loop_good ignore (List.concat gs) n2 []) as G3.
  destruct (number_loop ignore (List.concat gs) n2 []) as [[g1 n3]|e]; [|exact G3]. cbn in G3.
  assert (K : forall g2 n4, List.length g2 = List.length g1 ->
     GoodR (maps_ok rs ps gs)
       (let '(r3, p3, g3) :=
          if remap
          then
           (fold_left (fun acc j => map (fun x => if x <? j then x else x - 1) acc)
              (rev (filter (fun x => negb (zmem x r1 || zmem x p1 || zmem x g2)) (zrange 1 n4))) r1,
            fold_left (fun acc j => map (fun x => if x <? j then x else x - 1) acc)
              (rev (filter (fun x => negb (zmem x r1 || zmem x p1 || zmem x g2)) (zrange 1 n4))) p1,
            fold_left (fun acc j => map (fun x => if x <? j then x else x - 1) acc)
              (rev (filter (fun x => negb (zmem x r1 || zmem x p1 || zmem x g2)) (zrange 1 n4))) g2)
          else (r1, p1, g2) in
        Ok (chunk r3 (map (@List.length Z) rs), chunk p3 (map (@List.length Z) ps), chunk g3 (map (@List.length Z) gs)))).
  { intros g2 n4 Hg2. destruct remap; cbn.
    - repeat split; apply chunk_good; rewrite squeeze_length; lia.
    - repeat split; apply chunk_good; lia. }
  destruct g1 as [|x g1'] eqn:Eg; [apply K; reflexivity|]. rewrite <- Eg in *.
  destruct (filter _ g1) as [|y cm] eqn:Ec; [apply K; reflexivity|].
  destruct (negb ignore); [reflexivity|].
  match goal with |- context [fold_left ?f g1 ([], n3)] => pose proof (refresh_length (y :: cm) g1 ([], n3)) as L;
    destruct (fold_left f g1 ([], n3)) as [g2 n4] eqn:Ef end.
  cbn [fst List.length] in L. apply K. lia.
Qed.

(* ---- assembling create_reaction *)
Lemma create_role_total ignore ms : Forall total ms -> total (create_role ignore ms).
Proof.
  induction ms as [|m r IH]; intros H; cbn [create_role]; [exact I|]. inversion H; subst. specialize (IH H3).
  destruct m as [m|e].
  - destruct (create_role ignore r); [exact I | exact IH].
  - destruct (is_ve e && ignore); [exact IH|]. cbn in H2. exact H2.
Qed.

Definition atoms_eq (a : list (atomtok * bool)) (p : parsed) : Prop := List.length a = List.length (p_atoms p).
Definition maps_eq (m : list Z) (p : parsed) : Prop := List.length m = List.length (p_atoms p).

Lemma mk_total : forall ps ms as_,
  Forall2 maps_eq ms ps -> Forall2 atoms_eq as_ ps -> Forall parsed_wf ps ->
  Forall total (map (fun t : list Z * list (atomtok * bool) * parsed => let '(m, a, p) := t in create_molecule m a (p_bonds p))
                    (combine (combine ms as_) ps)).
Proof.
  induction ps as [|p r IH]; intros ms as_ Hm Ha Hp; inversion Hm; inversion Ha; inversion Hp; subst; cbn; constructor.
  - match goal with H : parsed_wf p |- _ => destruct H as [_ Hb] end.
    apply create_molecule_total.
    + unfold maps_eq, atoms_eq in *. lia.
    + match goal with H : atoms_eq _ p |- _ => unfold atoms_eq in H; rewrite H end. exact Hb.
  - apply IH; assumption.
Qed.

Lemma radicals_roles_good (all : list (list (atomtok * bool))) : forall flat,
  List.length flat = List.length (List.concat all) -> Forall2 len_eq (radicals_roles all flat) all.
Proof.
  induction all as [|a r IH]; intros flat H; cbn [radicals_roles]; [constructor|].
  cbn [List.concat] in H. rewrite app_length in H. constructor.
  - unfold len_eq. rewrite firstn_length. lia.
  - apply IH. rewrite skipn_length. lia.
Qed.

Lemma Forall2_map_r {A B C} (Q : A -> C -> Prop) (f : B -> C) l l' : Forall2 Q l (map f l') <-> Forall2 (fun a b => Q a (f b)) l l'.
Proof.
  revert l. induction l' as [|y r IH]; intros l; cbn; split; intros H; inversion H; subst; constructor; try assumption; apply IH; assumption.
Qed.

Lemma Forall2_impl' {A B} (Q Q' : A -> B -> Prop) l l' : (forall a b, Q a b -> Q' a b) -> Forall2 Q l l' -> Forall2 Q' l l'.
Proof. intros H F. induction F; constructor; auto. Qed.

Lemma Forall2_split {A B} (Q : A -> B -> Prop) l l1 l2 : Forall2 Q l (l1 ++ l2) ->
  Forall2 Q (firstn (List.length l1) l) l1 /\ Forall2 Q (skipn (List.length l1) l) l2.
Proof.
  revert l. induction l1 as [|y r IH]; intros l H; cbn in *; [split; [constructor | exact H]|].
  inversion H; subst. destruct (IH _ H4) as [I1 I2]. cbn. split; [constructor; assumption | exact I2].
Qed.

Lemma skipn_skipn' {A} b : forall a (l : list A), skipn a (skipn b l) = skipn (b + a) l.
Proof.
  induction b as [|b IH]; intros a l; [reflexivity|]. destruct l as [|x r]; cbn [skipn plus].
  - destruct a; reflexivity.
  - apply IH.
Qed.

Lemma read_reaction_total ignore remap smi rads contract :
  match contract with Some c => Forall (fun g => g <> []) c | None => True end ->
  total (read_reaction tokenize parse true ignore remap smi rads contract).
Proof.
  intros Hc. unfold read_reaction.
  destruct (split_on ">" smi) as [|t_r [|t_g [|t_p [|]]]]; try reflexivity.
  apply (good_bind (Forall nonnil_l)); [apply role_pieces_good|]. intros R0 HR0.
  apply (good_bind (Forall nonnil_l)); [apply role_pieces_good|]. intros P0 HP0.
  apply (good_bind (Forall nonnil_l)); [apply role_pieces_good|]. intros G0 HG0.
  apply (good_bind roles_nn).
  { destruct contract as [c|]; [apply contract_roles_good; assumption | cbn; tauto]. }
  intros [[R P] G] [HR [HP HG]].
  assert (PT : forall X, Forall nonnil_l X -> GoodR (fun l => Forall parsed_wf l /\ List.length l = List.length X)
                                                  (map_res (parse_text tokenize parse ignore) X)).
  { intros X HX. apply (map_res_good _ nonnil_l); [|exact HX]. intros x Hx. apply parse_text_good. exact Hx. }
  apply (good_bind (fun l => Forall parsed_wf l /\ List.length l = List.length R)); [apply PT; exact HR|]. intros pR [WR _].
  apply (good_bind (fun l => Forall parsed_wf l /\ List.length l = List.length P)); [apply PT; exact HP|]. intros pP [WP _].
  apply (good_bind (fun l => Forall parsed_wf l /\ List.length l = List.length G)); [apply PT; exact HG|]. intros pG [WG _].
  cbv zeta.
  set (all := map no_rad (pR ++ pG ++ pP)).
  apply (good_bind (fun a' => List.length a' = List.length (List.concat all))); [apply set_radicals_good|]. intros flat Hflat.
  pose proof (radicals_roles_good all flat Hflat) as RR.
  assert (RR' : Forall2 atoms_eq (radicals_roles all flat) (pR ++ pG ++ pP)).
  { unfold all in RR. apply (proj1 (Forall2_map_r len_eq no_rad _ _)) in RR. eapply Forall2_impl'; [|exact RR].
    intros a p H. unfold atoms_eq, len_eq, no_rad in *. rewrite map_length in H. exact H. }
  destruct (Forall2_split _ _ _ _ RR') as [AR RR2].
  destruct (Forall2_split _ _ _ _ RR2) as [AG AP].
  rewrite skipn_skipn' in AP.
  apply (good_bind (maps_ok (map (fun p => map map_of (p_atoms p)) pR) (map (fun p => map map_of (p_atoms p)) pP)
                            (map (fun p => map map_of (p_atoms p)) pG))); [apply pp_reaction_good|].
  intros [[mR mP] mG] [MR [MP MG]].
  assert (ME : forall ms ps, Forall2 len_eq ms (map (fun p => map map_of (p_atoms p)) ps) -> Forall2 maps_eq ms ps).
  { intros ms ps H. apply (proj1 (Forall2_map_r len_eq (fun p => map map_of (p_atoms p)) _ _)) in H. eapply Forall2_impl'; [|exact H].
    intros m p Hm. unfold maps_eq, len_eq in *. rewrite map_length in Hm. exact Hm. }
  apply (good_bind (fun _ => True)).
  { pose proof (create_role_total ignore _ (mk_total pR mR _ (ME _ _ MR) AR WR)) as T. destruct (create_role ignore _); [exact I | exact T]. }
  intros rc _.
  apply (good_bind (fun _ => True)).
  { pose proof (create_role_total ignore _ (mk_total pP mP _ (ME _ _ MP) AP WP)) as T. destruct (create_role ignore _); [exact I | exact T]. }
  intros prd _.
  apply (good_bind (fun _ => True)).
  { pose proof (create_role_total ignore _ (mk_total pG mG _ (ME _ _ MG) AG WG)) as T. destruct (create_role ignore _); [exact I | exact T]. }
  intros rgt _.
  destruct rc, prd, rgt; cbn; first [exact I | reflexivity].
Qed.

(* ---- str.split() *)
Lemma split_ws_aux_nonnil l : forall cur, Forall nonnil_l (split_ws_aux l cur).
Proof.
  induction l as [|c r IH]; intros cur; cbn [split_ws_aux].
  - destruct cur; [constructor|]. constructor; [|constructor]. apply rev_nonnil.
  - destruct (is_space c).
    + destruct cur; [apply IH|]. constructor; [apply rev_nonnil | apply IH].
    + apply IH.
Qed.

(* ------------------------------------------------------------------------------------------------ the theorem *)
(* smiles(text, ignore=.., remap=..): a molecule / reaction, or a ValueError-class exception. For every text. *)
Theorem reader_total ignore remap s : total (read ignore remap s).
Proof.
  unfold read, read_with.
  destruct (list_ascii_of_string s) as [|c0 data'] eqn:Ed; [reflexivity|]. rewrite <- Ed. clear Ed.
  pose proof (split_ws_aux_nonnil (list_ascii_of_string s) []) as SW. fold (split_ws (list_ascii_of_string s)) in SW.
  destruct (split_ws (list_ascii_of_string s)) as [|smi rest]; [reflexivity|]. inversion SW as [|? ? Hsmi _]; subst.
  apply (good_bind cx_ok).
  { destruct rest as [|cxs rest']; [exact I|]. destruct (_ && _); [apply cx_block_good | exact I]. }
  intros [rads contract] Hcx. unfold cx_ok in Hcx. cbn [snd] in Hcx.
  destruct (existsb (Ascii.eqb ">") smi).
  - apply read_reaction_total. exact Hcx.
  - apply read_molecule_total. exact Hsmi.
Qed.

(* the same in the vocabulary of the model (is_ve) *)
Corollary reader_total_is_ve ignore remap s e : read ignore remap s = Err e -> is_ve e = true.
Proof. intros H. pose proof (reader_total ignore remap s) as T. rewrite H in T. rewrite vee_is_ve. exact T. Qed.

(* non-vacuity: accepted and rejected texts of every kind *)
Example reader_examples :
  (exists m, read true false "C1CC1[13CH3:7] |^1:0|" = Ok (RMol m)) /\
  (exists a b c, read true false "C.[Na+]>O>CC.[Cl-] |f:0.1|" = Ok (RRxn a b c)) /\
  read true false "C(" = Err IncorrectSmiles /\ read true false "C-;@C" = Err IncorrectSmiles /\
  read true false ";" = Err IncorrectSmarts /\ read true false "C!~C" = Err IncorrectSmarts /\
  read true false "C |^1:5|" = Err IncorrectSmiles /\ read true false "C11" = Err ValueError /\
  read true false ">>" = Err ValueError /\ read false false "[CH3:1][CH3:1]" = Err ValueError.
Proof. repeat split; try (eexists; vm_compute; reflexivity); try (do 3 eexists; vm_compute; reflexivity); vm_compute; reflexivity. Qed.

(* ------------------------------------------------------------------------------------------------ mapping_numbers for reactions (partial) *)
Lemma concat_chunk {B} (xs : list (list B)) : forall l : list Z, List.length l = List.length (List.concat xs) ->
  List.concat (chunk l (map (@List.length B) xs)) = l.
Proof.
  induction xs as [|x r IH]; intros l Hl; cbn [map chunk List.concat] in *.
  - destruct l; [reflexivity | discriminate].
  - rewrite app_length in Hl. rewrite IH; [apply firstn_skipn | rewrite skipn_length; lia].
Qed.

(* postprocess_parsed_reaction(remap=False): one number per atom in every role; the numbers of the reactant side are pairwise
   distinct, and so are those of the product side.
   PARTIAL: not proved here - distinctness of the reagent numbers after the re-numbering of reagent atoms that collide with
   reactants / products, their disjointness from both sides, and the remap=True squeeze (all tied by correspondence only). *)
Theorem mapping_numbers_reaction_partial ignore rs ps gs mR mP mG :
  pp_reaction false ignore rs ps gs = Ok (mR, mP, mG) ->
  NoDup (List.concat mR) /\ NoDup (List.concat mP) /\
  List.length (List.concat mR) = List.length (List.concat rs) /\ List.length (List.concat mP) = List.length (List.concat ps) /\
  List.length (List.concat mG) = List.length (List.concat gs).
Proof.
  unfold pp_reaction. destruct (negb _); [discriminate|].
  set (start := _ + 1).
  assert (Hs : forall m, (In m (List.concat rs) \/ In m (List.concat ps)) \/ In m (List.concat gs) -> m < start).
  { intros m Hm. unfold start.
    pose proof (zmax_list_ge (List.concat rs) 0) as [_ A]. pose proof (zmax_list_ge (List.concat ps) 0) as [_ B].
    pose proof (zmax_list_ge (List.concat gs) 0) as [_ C].
    destruct Hm as [[Hm | Hm] | Hm]; [specialize (A m Hm) | specialize (B m Hm) | specialize (C m Hm)]; lia. }
  destruct (number_loop ignore (List.concat rs) start []) as [[r1 n1]|e] eqn:E1; [|discriminate].
  destruct (number_loop_spec ignore _ start [] r1 n1 (fun m Hm => Hs m (or_introl (or_introl Hm))) (fun u Hu => match Hu with end) E1)
    as [R1 [R2 _]].
  pose proof (number_loop_good ignore (List.concat rs) start []) as L1. rewrite E1 in L1. cbn in L1.
  destruct (number_loop ignore (List.concat ps) n1 []) as [[p1 n2]|e] eqn:E2; [|discriminate].
  destruct (number_loop_spec ignore _ n1 [] p1 n2 (fun m Hm => ltac:(specialize (Hs m (or_introl (or_intror Hm))); lia))
              (fun u Hu => match Hu with end) E2) as [P1 [P2 _]].
  pose proof (number_loop_good ignore (List.concat ps) n1 []) as L2. rewrite E2 in L2. cbn in L2.
  pose proof (number_loop_good ignore (List.concat gs) n2 []) as L3.
  destruct (number_loop ignore (List.concat gs) n2 []) as [[g1 n3]|e]; [|discriminate]. cbn in L3.
  assert (K : forall (g2 : list Z) (n4 : Z), List.length g2 = List.length g1 ->
     Ok (chunk r1 (map (@List.length Z) rs), chunk p1 (map (@List.length Z) ps), chunk g2 (map (@List.length Z) gs)) = Ok (mR, mP, mG) ->
     NoDup (List.concat mR) /\ NoDup (List.concat mP) /\
     List.length (List.concat mR) = List.length (List.concat rs) /\ List.length (List.concat mP) = List.length (List.concat ps) /\
     List.length (List.concat mG) = List.length (List.concat gs)).
  { intros g2 n4 Hg H. inversion H; subst. rewrite !concat_chunk by lia. repeat split; try assumption; lia. }
  destruct g1 as [|x g1'] eqn:Eg; [apply (K [] n3); reflexivity|]. rewrite <- Eg in *.
  destruct (filter _ g1) as [|y cm] eqn:Ec; [apply (K g1 n3); reflexivity|].
  destruct (negb ignore); [discriminate|].
  match goal with |- context [fold_left ?f g1 ([], n3)] => pose proof (refresh_length (y :: cm) g1 ([], n3)) as L;
    destruct (fold_left f g1 ([], n3)) as [g2 n4] eqn:Ef end.
  cbn [fst List.length] in L. apply (K g2 n4). lia.
Qed.
