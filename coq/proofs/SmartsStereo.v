(* C08 -- the cis/trans flag of a query bond (smarts.py after fixes f821fac, 18f2b99), stated exactly, and the theorem behind the
   suggested repair of known finding smarts-stereo-branch-mark-inverted. *)
From Coq Require Import ZArith List String Ascii Bool Lia.
From Model Require Import PyBase Graph Tokenize Smarts Query SmartsFull.
From Model Require Parser.
From Proofs Require Import SmartsFullProofs.
Import ListNotations.
Open Scope Z_scope.

Lemma popitem_last {V} (d : list (Z * V)) (dflt : Z * V) : d <> [] -> popitem d = Some (removelast d, snd (last d dflt)).
Proof.
  intros H. destruct (exists_last H) as [l [[k v] ->]]. unfold popitem. rewrite rev_app_distr. cbn [rev app].
  rewrite rev_involutive, removelast_last, last_last. reflexivity.
Qed.

(* stereo_flag_spec: for ANY table of direction marks and ANY bond (n, m, b): the flag is set exactly when the two ends are
   different atoms, both have marks left, the bond can be double and m is not itself a marked neighbour of n; it is then the
   equality of the LAST written mark of n and the LAST written mark of m, and exactly these two marks are consumed *)
Theorem stereo_flag_spec sb n m b dn dm :
  zget sb n = Some dn -> zget sb m = Some dm ->
  (n <> m /\ dn <> [] /\ dm <> [] /\ can_double b = true /\ ~ In m (keys dn) ->
     stereo_of sb n m b = Ok (Some (Bool.eqb (snd (last dn (0, false))) (snd (last dm (0, false)))),
                              Parser.zset (Parser.zset sb n (removelast dn)) m (removelast dm))) /\
  (~ (n <> m /\ dn <> [] /\ dm <> [] /\ can_double b = true /\ ~ In m (keys dn)) -> stereo_of sb n m b = Ok (None, sb)).
Proof.
  intros En Em. unfold stereo_of. rewrite En, Em. split.
  - intros [H1 [H2 [H3 [H4 H5]]]].
    assert (C : negb (n =? m) && nonempty dn && nonempty dm && can_double b = true).
    { rewrite H4. destruct (n =? m) eqn:E; [apply Z.eqb_eq in E; congruence|]. destruct dn; [congruence|]. destruct dm; [congruence|]. reflexivity. }
    rewrite C. cbn [negb].
    destruct (zmem m (keys dn)) eqn:Z; [apply zmem_In in Z; contradiction|].
    rewrite (popitem_last dn (0, false) H2). rewrite zget_zset_other by congruence. rewrite Em.
    rewrite (popitem_last dm (0, false) H3). reflexivity.
  - intros H.
    destruct (negb (n =? m) && nonempty dn && nonempty dm && can_double b) eqn:C; cbn [negb]; [|reflexivity].
    destruct (zmem m (keys dn)) eqn:Z; [reflexivity|]. exfalso. apply H.
    apply andb_true_iff in C. destruct C as [C C4]. apply andb_true_iff in C. destruct C as [C C3]. apply andb_true_iff in C. destruct C as [C1 C2].
    apply negb_true_iff in C1. apply Z.eqb_neq in C1. repeat split; try assumption.
    + intros ->. discriminate.
    + intros ->. discriminate.
    + intros Hin. apply zmem_In in Hin. congruence.
Qed.
(* an end without marks: never a flag *)
Theorem stereo_flag_unmarked sb n m b : zget sb n = None \/ zget sb m = None -> stereo_of sb n m b = Ok (None, sb).
Proof. intros [H|H]; unfold stereo_of; rewrite H; [reflexivity | destruct (zget sb n); reflexivity]. Qed.

(* ---------------------------------------------------------------- why the last written mark is the wrong reference.
   Geometry of one end t of a double bond: its (at most two) substituents r, r' lie on opposite sides: g r' = negb (g r).
   A spelling writes marks for some of them: a table of (substituent, side).  get_mapping reads the flag relative to the first
   bonded substituent r.  Translating ANY written mark to r (keep it if it is r's, invert it otherwise) gives g r: the result
   does not depend on which substituents were marked nor on the order they were written in. *)
Definition translate (r : Z) (xs : Z * bool) : bool := if fst xs =? r then snd xs else negb (snd xs).
Definition spelling_of (g : Z -> bool) (r r' : Z) (marks : list (Z * bool)) : Prop :=
  forall x s, In (x, s) marks -> (x = r \/ x = r') /\ s = g x.

Theorem translated_mark_is_geometry g r r' marks xs :
  g r' = negb (g r) -> spelling_of g r r' marks -> In xs marks -> translate r xs = g r.
Proof.
  intros Hg Hs Hin. destruct xs as [x s]. destruct (Hs x s Hin) as [[->| ->] ->]; unfold translate; cbn [fst snd].
  - rewrite Z.eqb_refl. reflexivity.
  - destruct (r' =? r) eqn:E; [apply Z.eqb_eq in E; rewrite E; reflexivity|]. rewrite Hg. apply negb_involutive.
Qed.

(* the flag the suggested repair computes: translate one mark of each end to the first bonded substituent, compare *)
Definition repaired_flag (rn rm : Z) (xn xm : Z * bool) : bool := Bool.eqb (translate rn xn) (translate rm xm).

(* it is spelling independent: two spellings of the same geometry, whichever marks are picked, give the same flag *)
Theorem repaired_flag_spelling_independent gn gm rn rn' rm rm' marksn marksn' marksm marksm' xn xn' xm xm' :
  gn rn' = negb (gn rn) -> gm rm' = negb (gm rm) ->
  spelling_of gn rn rn' marksn -> spelling_of gn rn rn' marksn' -> spelling_of gm rm rm' marksm -> spelling_of gm rm rm' marksm' ->
  In xn marksn -> In xn' marksn' -> In xm marksm -> In xm' marksm' ->
  repaired_flag rn rm xn xm = repaired_flag rn rm xn' xm' /\ repaired_flag rn rm xn xm = Bool.eqb (gn rn) (gm rm).
Proof.
  intros Hn Hm S1 S2 S3 S4 I1 I2 I3 I4. unfold repaired_flag.
  rewrite (translated_mark_is_geometry gn rn rn' marksn xn Hn S1 I1), (translated_mark_is_geometry gn rn rn' marksn' xn' Hn S2 I2),
          (translated_mark_is_geometry gm rm rm' marksm xm Hm S3 I3), (translated_mark_is_geometry gm rm rm' marksm' xm' Hm S4 I4).
  split; reflexivity.
Qed.

(* the code's flag (last written marks) is NOT: one geometry (substituent 1 down, substituent 2 up on end n; substituent 5 up on end m),
   two spellings of end n - only substituent 1 marked, or 1 and then 2 marked - give different flags, while the repaired flag is the
   same for both.  (On the text level: 'F/C(Cl)=C/F' versus 'F/C(/Cl)=C/F', C08_stereo_flag_spelling_independent_refuted.) *)
Theorem last_mark_flag_spelling_dependent :
  let g := fun x : Z => if x =? 1 then false else true in
  spelling_of g 1 2 [(1, false)] /\ spelling_of g 1 2 [(1, false); (2, true)] /\
  Bool.eqb (snd (last [(1, false)] (0, false))) true <> Bool.eqb (snd (last [(1, false); (2, true)] (0, false))) true /\
  repaired_flag 1 5 (1, false) (5, true) = repaired_flag 1 5 (2, true) (5, true).
Proof.
  cbv zeta. split; [|split; [|split; [cbn; discriminate | reflexivity]]].
  - intros x s [H|[]]. inversion H; subst. split; [left; reflexivity | reflexivity].
  - intros x s [H|[H|[]]]; inversion H; subst; (split; [tauto | reflexivity]).
Qed.
