(* C10 x C12: the disjoint-paths hypothesis of the API level round trip is discharged from the model of the registry
   construction (Model.StereoRegistry, theorem sg_cumulenes_disjoint of Proofs.StereoRegistryDisjoint, property C12):
   when the path list handed to Model.PackStereo is the key list of stereogenic_cumulenes of a well-formed molecule
   graph, the registered paths never share an atom.  Optional dependency: props/C10.v restates this file only. *)
From Coq Require Import ZArith List Bool Lia ZifyBool.
From Model Require Import PyBase Graph Pack PackSpec PackStereo PackStereoSpec StereoRegistry.
From Proofs Require Import PackBits PackRoundtrip PackRoundtripGraph PackRoundtripMol PackStereoProofs PackStereoDisjoint
                           StereoRegistryDisjoint.
Import ListNotations.
Open Scope Z_scope.

Lemma last_In {A} (d : A) : forall l, l <> [] -> In (last l d) l.
Proof.
  induction l as [|x l IH]; intros H; [contradiction|]. destruct l as [|y l]; [left; reflexivity|].
  right. change (last (x :: y :: l) d) with (last (y :: l) d). apply IH. discriminate.
Qed.

(* the four dict keys of an active path are atoms of the path *)
Lemma tinfo_keys_in p ks e c : tinfo p = Some (ks, e, c) -> forall k, In k ks -> In k p.
Proof.
  unfold tinfo. destruct (Nat.even (length p)); [|discriminate].
  destruct (path_ends p) as [[n m]|] eqn:Ee; [|discriminate]. destruct (path_mid p) as [[c1 c2]|] eqn:Em; [|discriminate].
  intros H. injection H as H1 H2 H3. subst ks e c. cbn [fst snd].
  assert (Hn : In n p /\ In m p).
  { unfold path_ends in Ee. destruct p as [|x r]; [discriminate|]. injection Ee as E1 E2. subst n m. split; [left; reflexivity|].
    change (In (last (x :: r) x) (x :: r)). apply last_In. discriminate. }
  assert (Hc : In c1 p /\ In c2 p).
  { unfold path_mid in Em. destruct (Nat.div2 (length p)) as [|j]; [discriminate|].
    destruct (nth_error p j) eqn:E1; [|discriminate]. destruct (nth_error p (S j)) eqn:E2; [|discriminate].
    injection Em as ? ?. subst. split; eapply nth_error_In; eassumption. }
  intros k [H|[H|[H|[H|[]]]]]; subst k; tauto.
Qed.

Lemma keys_apart_of_disjoint p q : (forall v, In v p -> In v q -> False) -> keys_apart p q = true.
Proof.
  intros H. unfold keys_apart. destruct (tinfo p) as [[[ks e] c]|] eqn:Tp; [|reflexivity].
  destruct (tinfo q) as [[[ks' e'] c']|] eqn:Tq; [|reflexivity].
  apply forallb_forall. intros k Hk. apply negb_true_iff. apply zmem_false_not_In. intros Hk'.
  apply (H k); [apply (tinfo_keys_in p ks e c Tp k Hk) | apply (tinfo_keys_in q ks' e' c' Tq k Hk')].
Qed.

Lemma paths_disjoint_of_pairs {E} (sc : list (list Z * E)) :
  ForallOrdPairs (fun e1 e2 => forall v, In v (fst e1) -> In v (fst e2) -> False) sc -> paths_disjoint_b (map fst sc) = true.
Proof.
  induction 1 as [|x l Hx Hl IH]; [reflexivity|]. cbn [map paths_disjoint_b]. rewrite IH, andb_true_r.
  apply forallb_forall. intros q Hq. apply in_map_iff in Hq. destruct Hq as [y [Hy Hin]]. subst q.
  apply keys_apart_of_disjoint. rewrite Forall_forall in Hx. apply (Hx y Hin).
Qed.

(* the registry invariant, proved from the model of the registry construction *)
Theorem registry_paths_disjoint (fs fd : Z -> bool) (g : mol) ps : wf_mol g = true -> cumulenes fd g = Ok ps ->
  paths_disjoint_b (map fst (sg_cumulenes_of fs g ps)) = true.
Proof. intros W C. apply paths_disjoint_of_pairs. apply (sg_cumulenes_disjoint fs fd g W ps C). Qed.

(* ROUND TRIP at the level of MoleculeContainer.pack / unpack incl. the bond stereo labels with the path list COMPUTED by
   the registry model: no disjointness hypothesis is left *)
Theorem api_roundtrip_registry (fs fd : Z -> bool) (g : mol) ps (atoms : list patom) suf :
  wf_mol g = true -> cumulenes fd g = Ok ps ->
  let paths := map fst (sg_cumulenes_of fs g ps) in
  pack_ok (api_pmol atoms paths) = true -> labels_sym_b atoms = true -> labelled_registered_b atoms paths = true ->
  exists bytes, api_pack atoms paths = Ok bytes /\
    api_unpack paths (bytes ++ suf) = Ok (map uatom_of atoms, ladj_of_atoms atoms, Z.of_nat (length bytes)).
Proof.
  intros W C paths H Hs Hl. apply (api_roundtrip atoms paths suf H Hs (registry_paths_disjoint fs fd g ps W C) Hl).
Qed.

(* the same molecule as a Graph.mol and as the record the packer reads *)
Definition patom_bonds (nb : list (Z * bond)) : list nbr := map (fun mb => (fst mb, (b_ord (snd mb), b_stereo (snd mb)))) nb.
Definition nbr_eqb (x y : nbr) : bool :=
  (fst x =? fst y) && (fst (snd x) =? fst (snd y)) && option_eqb Bool.eqb (snd (snd x)) (snd (snd y)).
Definition same_molecule (g : mol) (atoms : list patom) : bool :=
  list_eqb (fun x y => (fst (fst x) =? fst (fst y)) && (snd (fst x) =? snd (fst y)) && list_eqb nbr_eqb (snd x) (snd y))
           (map (fun na => (fst na, a_num (snd na), patom_bonds (nbrs g (fst na)))) (m_atoms g))
           (map (fun a => (pa_n a, pa_an a, pa_nbrs a)) atoms).
