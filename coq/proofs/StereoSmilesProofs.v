(* C12 extension: the SMILES stereo marks round-trip.  What the writer emits is read back as the stored sign, for EVERY written
   neighbour order (no hypothesis on the order lists: the translation only ever flips the sign by an amount that does not
   depend on the sign). *)
From Coq Require Import ZArith List Bool Lia.
From Model Require Import PyBase Stereo StereoSmiles.
From Gen Require Import StereoTables.
From Proofs Require Import StereoProofs.
Import ListNotations.
Open Scope Z_scope.

(* ---------- the translations are sign-independent flips ---------- *)
Lemma translate_th_flip isH order adj : forall s r, translate_th isH order adj s = Ok r ->
  forall s', translate_th isH order adj s' = Ok (xorb s' (xorb s r)).
Proof.
  intros s r H s'. unfold translate_th in *.
  destruct (if Z.of_nat (List.length order) =? 3 then _ else _) as [o|e]; [|discriminate].
  destruct (map (index_of o) (firstn 3 adj)) as [|[a|] [|[b|] [|[c|] [|? ?]]]]; try discriminate.
  destruct (th_lookup a b c) as [[|]|]; try discriminate; injection H as <-; f_equal; destruct s, s'; reflexivity.
Qed.

(* involution, for every order and every neighbour list *)
Theorem translate_th_involutive_any isH order adj s r :
  translate_th isH order adj s = Ok r -> translate_th isH order adj r = Ok s.
Proof. intros H. rewrite (translate_th_flip isH order adj s r H r). f_equal. destruct s, r; reflexivity. Qed.

Lemma translate_env_flip isH e nn nm : forall s r, translate_env isH e nn nm s = Ok r ->
  forall s', translate_env isH e nn nm s' = Ok (xorb s' (xorb s r)).
Proof.
  intros s r H s'. destruct e as [[[n0 n1] n2] n3]. unfold translate_env in *.
  match goal with |- match ?t with _ => _ end = _ => destruct t as [[t0 t1]|] end; [|discriminate].
  destruct (ct_lookup t0 t1) as [[|]|]; try discriminate; injection H as <-; f_equal; destruct s, s'; reflexivity.
Qed.

Theorem translate_env_involutive_any isH e nn nm s r :
  translate_env isH e nn nm s = Ok r -> translate_env isH e nn nm r = Ok s.
Proof. intros H. rewrite (translate_env_flip isH e nn nm s r H r). f_equal. destruct s, r; reflexivity. Qed.

Lemma translate_env_negb isH e nn nm s r :
  translate_env isH e nn nm s = Ok r -> translate_env isH e nn nm (negb s) = Ok (negb r).
Proof. intros H. rewrite (translate_env_flip isH e nn nm s r H (negb s)). f_equal. destruct s, r; reflexivity. Qed.

(* ---------- tetrahedral marks ---------- *)
(* the mark written for a neighbour order is read back, through the same order, as the stored sign -- whatever the order is
   (preceding atom / ring-closure digits / branches, explicit hydrogen anywhere, implicit hydrogen) and whether or not the
   atom is inverted as a first atom, PROVIDED writer and reader agree on "first" *)
Theorem smiles_th_roundtrip isH order adj s hasH first w :
  write_th isH order adj s hasH first = Ok w -> read_th isH order adj w hasH first = Ok s.
Proof.
  unfold write_th, read_th. destruct (translate_th isH order adj s) as [t|e] eqn:E; [|discriminate]. intros H. injection H as <-.
  destruct (hasH && first); [rewrite negb_involutive|]; apply (translate_th_involutive_any isH order adj s t E).
Qed.

(* if they disagree on "first" for an atom with implicit hydrogen the enantiomer is read (the defect fixed by 2fd6cc9) *)
Theorem smiles_th_first_mismatch isH order adj s w :
  write_th isH order adj s true true = Ok w -> read_th isH order adj w true false = Ok (negb s).
Proof.
  unfold write_th, read_th. destruct (translate_th isH order adj s) as [t|e] eqn:E; [|discriminate]. intros H. injection H as <-.
  cbn [andb]. rewrite (translate_th_flip isH order adj s t E (negb t)). f_equal. destruct s, t; reflexivity.
Qed.

(* writer and reader agree on "first": in the string of one DFS traversal the start atom precedes all its neighbours, every
   other atom has its parent as first entry of its written neighbour list and the parent precedes it *)
Theorem first_atom_inversion_coherent (pos : Z -> Z) n adj (is_start : bool) :
  (is_start = true -> forall m, In m adj -> pos n < pos m) ->
  (is_start = false -> exists parent rest, adj = parent :: rest /\ pos parent < pos n) ->
  nopred pos n adj = is_start.
Proof.
  intros H1 H2. unfold nopred. destruct is_start.
  - apply forallb_forall. intros m Hm. apply Z.ltb_lt. apply H1; [reflexivity | exact Hm].
  - destruct (H2 eq_refl) as (p & rest & -> & Hp). cbn [forallb]. assert (E : (pos n <? pos p) = false) by (apply Z.ltb_ge; lia).
    rewrite E. reflexivity.
Qed.

Corollary smiles_stereo_roundtrip_th isH order (pos : Z -> Z) n adj s hasH (is_start : bool) w :
  (is_start = true -> forall m, In m adj -> pos n < pos m) ->
  (is_start = false -> exists parent rest, adj = parent :: rest /\ pos parent < pos n) ->
  write_th isH order adj s hasH is_start = Ok w -> read_th isH order adj w hasH (nopred pos n adj) = Ok s.
Proof. intros H1 H2 Hw. rewrite (first_atom_inversion_coherent pos n adj is_start H1 H2). apply smiles_th_roundtrip. exact Hw. Qed.

(* what the written mark is, in the words of OpenSMILES: stored sign xor parity of the written arrangement (xor the
   first-atom inversion) -- four explicit neighbours, or three and the implicit hydrogen *)
Theorem write_th_parity4 isH a b c d p s hasH first : NoDup [a; b; c; d] -> In p perms4 ->
  write_th isH [a; b; c; d] (sel [a; b; c; d] p) s hasH first = Ok (xorb (xorb s (odd_perm p)) (hasH && first)).
Proof.
  intros Hn Hp. unfold write_th. rewrite (proj1 (translate_th_parity4 isH a b c d p s Hn Hp)).
  f_equal. destruct (hasH && first), (xorb s (odd_perm p)); reflexivity.
Qed.

Theorem write_th_parity3 isH a b c q s hasH first : NoDup [a; b; c] -> In q perms3 ->
  write_th isH [a; b; c] (sel [a; b; c] q) s hasH first = Ok (xorb (xorb s (odd_perm (q ++ [3]))) (hasH && first)).
Proof.
  intros Hn Hq. unfold write_th. rewrite (translate_th_parity3 isH a b c q s Hn Hq).
  f_equal. destruct (hasH && first), (xorb s (odd_perm (q ++ [3]))); reflexivity.
Qed.

(* ---------- allenes ---------- *)
Theorem smiles_al_roundtrip isH e adj1 adj2 s np w :
  write_al isH e adj1 adj2 s = Ok w -> read_al isH e adj1 adj2 w false np = Ok s.
Proof.
  unfold write_al, read_al. destruct (first_ref isH e adj1) as [a|]; [|discriminate]. destruct (first_ref isH e adj2) as [b|]; [|discriminate].
  cbn [andb]. unfold translate_al. apply translate_env_involutive_any.
Qed.

(* the reference of a terminal is its first written substituent, an explicit hydrogen included (fix e4fb73d) *)
Theorem first_ref_spec isH e l x : first_ref isH e l = Some x <->
  exists l1 l2, l = l1 ++ x :: l2 /\ (in_env x e || isH x) = true /\ forall y, In y l1 -> (in_env y e || isH y) = false.
Proof.
  unfold first_ref. split.
  - induction l as [|y l IH]; cbn [find]; [discriminate|]. destruct (in_env y e || isH y) eqn:E.
    + intros H. injection H as <-. exists [], l. split; [reflexivity|]. split; [exact E | intros ? []].
    + intros H. destruct (IH H) as (l1 & l2 & -> & Hx & Hl). exists (y :: l1), l2. split; [reflexivity|]. split; [exact Hx|].
      intros z [<-|Hz]; [exact E | apply Hl; exact Hz].
  - intros (l1 & l2 & -> & Hx & Hl). induction l1 as [|y l1 IH]; cbn [app find]; [rewrite Hx; reflexivity|].
    rewrite (Hl y (or_introl eq_refl)). apply IH. intros z Hz. apply Hl. right. exact Hz.
Qed.

(* ---------- cis/trans ---------- *)
Lemma tr_ct_swap isH e f a b s : tr_ct isH e (negb f) a b s = tr_ct isH e f b a s.
Proof. unfold tr_ct. destruct f; reflexivity. Qed.

(* the two marks written for a double bond are read back as the stored sign, from whichever end the reader starts and
   whatever the inherited mark `base` of the first end is (fresh entry: down; conjugated systems: shared with the previous bond) *)
Theorem smiles_ct_roundtrip isH e kf v on base s mo mk :
  write_ct isH e kf v on base s = Ok (mo, mk) ->
  read_ct isH e (negb kf) on v mo mk = Ok s /\ read_ct isH e kf v on mk mo = Ok s.
Proof.
  unfold write_ct, read_ct. destruct (tr_ct isH e kf v on s) as [t|x] eqn:E; [|discriminate]. intros H. injection H as <- <-.
  rewrite tr_ct_swap.
  assert (E1 : Bool.eqb base (if t then base else negb base) = t) by (destruct t, base; reflexivity).
  assert (E2 : Bool.eqb (if t then base else negb base) base = t) by (destruct t, base; reflexivity).
  rewrite E1, E2. unfold tr_ct in *. destruct kf; split; apply translate_env_involutive_any; exact E.
Qed.

(* popitem may return either marked substituent of an end: the second substituent carries the opposite mark (writer:
   ct_map[(k, x')] = not ct_map[(k, x)]) and yields the same stored sign *)
Theorem smiles_ct_popitem_independent isH n0 n1 n2 n3 b m mb r :
  NoDup [n0; n1; n2; n3] -> In b [1; 3] ->
  translate_env isH (n0, n1, Some n2, Some n3) (pick (n0, n1, n2, n3) 0) (pick (n0, n1, n2, n3) b) (Bool.eqb m mb) = Ok r ->
  translate_env isH (n0, n1, Some n2, Some n3) (pick (n0, n1, n2, n3) 2) (pick (n0, n1, n2, n3) b) (Bool.eqb (negb m) mb) = Ok r.
Proof.
  intros Hn Hb H. destruct (exchange_at_one_end_flips isH n0 n1 n2 n3 b (Bool.eqb m mb) Hn Hb) as (r' & H1 & H2).
  rewrite H in H1. injection H1 as <-.
  replace (Bool.eqb (negb m) mb) with (negb (Bool.eqb m mb)) by (destruct m, mb; reflexivity).
  rewrite (translate_env_negb isH _ _ _ _ _ H2). rewrite negb_involutive. reflexivity.
Qed.

(* non-vacuity: concrete marks. [C@H](F)(Cl)Br written as first atom; F/C=C/Cl *)
Theorem smiles_marks_example :
  write_th (fun _ => false) [2; 3; 4] [2; 3; 4] true true true = Ok false /\
  read_th (fun _ => false) [2; 3; 4] [2; 3; 4] false true true = Ok true /\
  write_th (fun _ => false) [2; 3; 4] [3; 2; 4] true true false = Ok false /\
  write_ct (fun _ => false) (1, 4, None, None) false 4 1 false false = Ok (false, true) /\
  read_ct (fun _ => false) (1, 4, None, None) true 1 4 false true = Ok false /\
  write_al (fun x => x =? 9) (1, 6, Some 3, None) [1; 3; 4] [4; 9; 6] true = Ok false /\
  read_al (fun x => x =? 9) (1, 6, Some 3, None) [1; 3; 4] [4; 9; 6] false false true = Ok true.
Proof. repeat split; vm_compute; reflexivity. Qed.
