(* C13 -- the constants and name lists that Model.Cache copies from the source, checked against coq/gen/CacheTables.v, which
   tools/gen_cache.py regenerates from /repo on every run: an edit of one of them in the source breaks a named obligation. *)
From Coq Require Import ZArith List Bool String.
From Model Require Import PyBase Cache.
From Gen Require Import CacheTables.
From Proofs Require Import CacheProofs CacheWf CacheCopy CacheCoh CacheWorld CacheUnion CacheExamples.
Import ListNotations.
Open Scope Z_scope.

Definition tracked_names : list string :=
  ["not_special_connectivity"; "rings_count"; "sssr"; "atoms_rings"; "atoms_rings_sizes"; "connected_components"]%string.
Definition key_of_name (n : string) : key :=
  if String.eqb n "not_special_connectivity" then Knsc else if String.eqb n "rings_count" then Krc else if String.eqb n "sssr" then Ksssr
  else if String.eqb n "atoms_rings" then Kar else if String.eqb n "atoms_rings_sizes" then Kars
  else if String.eqb n "connected_components" then Kcc else Kplain 0.
Definition name_of_key (k : key) : string :=
  match k with Knsc => "not_special_connectivity" | Krc => "rings_count" | Ksssr => "sssr" | Kar => "atoms_rings" | Kars => "atoms_rings_sizes"
             | Kcc => "connected_components" | Kplain _ => "" end%string.
Fixpoint ancestors (fuel : nat) (k : key) : list string :=
  match fuel with O => [] | S f => match parent k with Some p => name_of_key p :: ancestors f p | None => [] end end.
Definition slist_eqb (a b : list string) : bool := list_eqb String.eqb a b.

(* Bond(order): the orders the model accepts are those of Bond.__init__ *)
Definition tie_orders : bool := forallb (fun x => Bool.eqb (valid_order x) (zmem x gen_bond_orders)) (zrange (-3) 13).
(* atom.charge = v: ValueError exactly outside the bounds of the setter (run on a one-atom molecule) *)
Definition one_atom : state := run [OAddAtom carbon None] empty_state.
Definition tie_charge : bool :=
  forallb (fun v => option_eqb pyexn_eqb (snd (step one_atom (OSetCharge 1 v)))
                               (if (v >? gen_charge_hi) || (v <? gen_charge_lo) then Some ValueError else None)) (zrange (-9) 10).
(* flush_cache / copy(keep_sssr, keep_components): the ring family and the components entry, the same names in both functions,
   no name the model does not know *)
Definition tie_kept : bool :=
  forallb (fun n => Bool.eqb (fam (key_of_name n)) (smem n gen_flush_sssr_names) &&
                    Bool.eqb (is_cc (key_of_name n)) (String.eqb n gen_flush_components_name)) (("brutto"%string) :: tracked_names) &&
  forallb (fun n => smem n tracked_names) (gen_flush_components_name :: gen_flush_sssr_names) &&
  slist_eqb gen_copy_sssr_names gen_flush_sssr_names && String.eqb gen_copy_components_name gen_flush_components_name.
(* the special bond order of add_bond / delete_atom / delete_bond, the flags of the backup copy, the patch step *)
Definition tie_special : bool :=
  forallb (Z.eqb 8) (gen_special_add_bond ++ gen_special_delete_atom ++ gen_special_delete_bond ++ [gen_patch_drop_old; gen_patch_drop_new]) &&
  negb (Nat.eqb (List.length gen_special_add_bond) 0) && negb (Nat.eqb (List.length gen_special_delete_atom) 0) &&
  negb (Nat.eqb (List.length gen_special_delete_bond) 0) &&
  gen_enter_keep_sssr && gen_enter_keep_components && (gen_patch_charge_hi =? 4).
(* which cached property reads which: the first one read is the model's parent, all of them are ancestors *)
Definition tie_reads : bool :=
  slist_eqb (map fst gen_reads) tracked_names &&
  forallb (fun nr => let k := key_of_name (fst nr) in
                     match parent k, snd nr with
                     | Some p, r :: _ => String.eqb r (name_of_key p)
                     | None, [] => true
                     | _, _ => false
                     end && forallb (fun r => smem r (ancestors 6 k)) (snd nr)) gen_reads.

Theorem source_constants_tie : tie_orders && tie_charge && tie_kept && tie_special && tie_reads = true.
Proof. vm_compute. reflexivity. Qed.
