(* C20 round 4: the whole-molecule label functions of Model.Rdkit (to_tags, from_tags, from_bond_labels) are the translated loop bodies
   of Gen.RdkitBody iterated over the atoms / the collected entries (to_mol, to_bond_labels, from_mol, from_stereo_final: RdkitBodyTie). *)
From Coq Require Import ZArith List String Bool Lia.
From Model Require Import PyBase PeriodicTable Stereo Rdkit RdkitApi.
From Gen Require Import Elements RdkitTables RdkitConsts RdkitBody.
From Proofs Require Import RdkitBodyTie.
Import ListNotations.
Open Scope Z_scope.

(* to_rdkit_molecule, second loop over the atoms, all atoms: env = [inverted[x.GetIdx()] for x in ra.GetNeighbors()] *)
Fixpoint to_tags_g (isH : Z -> bool) (th : list (Z * list Z)) (mapping : Z -> pyres Z) (nums : list Z) (nb : Z -> list Z) (k : Z)
         (atoms : list (Z * option bool)) : pyres (list (option string)) :=
  match atoms with
  | [] => Ok []
  | (n, s) :: r =>
      pbind (g_to_tag isH th mapping n s (map (fun j => znth nums j 0) (nb k))) (fun t =>
      pbind (to_tags_g isH th mapping nums nb (k + 1) r) (fun ts => Ok (t :: ts)))
  end.

Theorem tie_to_tags : forall isH th (mapping : Z -> pyres Z) nums nb atoms k,
  (forall n s, In (n, s) atoms -> exists i, mapping n = Ok i) ->
  to_tags isH th nums nb k atoms = to_tags_g isH th mapping nums nb k atoms.
Proof.
  intros isH th mapping nums nb atoms. induction atoms as [|[n s] r IH]; intros k Hm; [reflexivity|].
  cbn [to_tags to_tags_g]. destruct (Hm n s (or_introl eq_refl)) as [i Hi].
  rewrite (tie_to_tag isH th mapping n s _ i Hi), (IH (k + 1)) by (intros n' s' H; apply (Hm n' s'); right; exact H).
  destruct (to_chiral_tag isH (zget th n) (map (fun j => znth nums j 0) (nb k)) s); cbn [pbind]; [|reflexivity].
  destruct (to_tags_g isH th mapping nums nb (k + 1) r); reflexivity.
Qed.

(* from_rdkit_molecule: the entries (idx, neighbours, sign) collected in the first loop, then the tetrahedron label loop; an atom
   without CW / CCW tag has no entry and gets no label *)
Fixpoint from_tags_g (isH : Z -> bool) (th : list (Z * list Z)) (nb : Z -> list Z) (k : Z) (tags : list string)
  : pyres (list (Z * option bool)) :=
  match tags with
  | [] => Ok []
  | t :: r =>
      pbind (match th_entry k (nb k) t with
             | None => Ok None
             | Some (idx, env, s) => g_from_label_th isH th (fun i => Ok (i + 1)) idx env s
             end) (fun l =>
      pbind (from_tags_g isH th nb (k + 1) r) (fun ls => Ok ((k + 1, l) :: ls)))
  end.

Theorem tie_from_tags : forall isH th nb tags k, from_tags isH th nb k tags = from_tags_g isH th nb k tags.
Proof.
  intros isH th nb tags. induction tags as [|t r IH]; intros k; [reflexivity|].
  cbn [from_tags from_tags_g]. rewrite IH. unfold th_entry.
  destruct (sign_of_tag t) as [s|] eqn:Es.
  - rewrite (tie_from_label_th isH th k (nb k) s t Es).
    destruct (from_chiral_tag isH (zget th (k + 1)) (map (fun j => j + 1) (nb k)) t); cbn [pbind]; [|reflexivity].
    destruct (from_tags_g isH th nb (k + 1) r); reflexivity.
  - rewrite (tie_no_tag_no_entry isH _ _ t Es). cbn [pbind]. destruct (from_tags_g isH th nb (k + 1) r); reflexivity.
Qed.

(* from_rdkit_molecule: the entries collected in the bond loop, then the cis-trans label loop *)
Definition from_bond_label_g (isH : Z -> bool) (ct : list (Z * Z * ctenv)) (b : Z * Z * string * Z * Z) : pyres (Z * Z * option bool) :=
  let '(bi, ei, label, sb, se) := b in
  match ct_entry (bi + 1) (ei + 1) (sb + 1) (se + 1) label with
  | None => Ok (bi + 1, ei + 1, None)
  | Some (n, m, nn, nm, s) => pbind (g_from_label_ct isH ct n m nn nm s) (fun l => Ok (n, m, l))
  end.

Theorem tie_from_bond_labels : forall isH ct rbonds, from_bond_labels isH ct rbonds = mapM (from_bond_label_g isH ct) rbonds.
Proof.
  intros isH ct rbonds. unfold from_bond_labels. apply mapM_ext. intros [[[[bi ei] label] sb] se]. unfold from_bond_label_g, ct_entry.
  destruct (sign_of_bs label) as [s|] eqn:Es.
  - rewrite (tie_from_label_ct isH ct (bi + 1) (ei + 1) (sb + 1) (se + 1) s label Es). cbv delta [ctenv].
    destruct (from_bond_stereo isH (pget ct (bi + 1, ei + 1)) (pget ct (ei + 1, bi + 1)) (sb + 1) (se + 1) label); reflexivity.
  - unfold from_bond_stereo. rewrite Es. reflexivity.
Qed.
