(* C08 -- query atoms and bonds against MOLECULE atoms and bonds: the labels are no longer a parameter.  For a molecule graph g
   (Model.Graph.mol: atoms with element, isotope, charge, radical state, hydrogen count; bonds with orders) and its ring set, the
   comparison method applied to the atom as calc_labels labels it is equivalent to a statement about the graph itself. *)
From Coq Require Import ZArith List String Ascii Bool Lia.
From Gen Require Import Elements.
From Model Require Import PyBase Graph PeriodicTable Query Smarts.
From Proofs Require Import QueryProofs SmartsProofs.
Import ListNotations.
Open Scope Z_scope.

(* the neighbourhood of atom n in the graph: (element number of the neighbour, bond order), in bond-table order *)
Definition nbr_count (g : mol) (n : Z) (p : Z * Z -> bool) : Z := count_if p (atom_env g n).

(* ring condition of a query in terms of the ring set itself *)
Definition rings_ok_mol (q : list Z) (sssr : list (list Z)) (n : Z) : Prop :=
  match q with
  | [] => True
  | r0 :: _ => if r0 =? 0 then (forall r, In r sssr -> ~ In n r)
               else exists r, In r sssr /\ In n r /\ In (Z.of_nat (List.length r)) q
  end.

Lemma rings_ok_mol_iff q sssr n : rings_ok q (ring_sizes_of sssr n) <-> rings_ok_mol q sssr n.
Proof.
  unfold rings_ok, rings_ok_mol. destruct q as [|r0 r]; [tauto|]. destruct (r0 =? 0).
  - rewrite ring_sizes_empty_iff. split.
    + intros H x Hx Hn. assert (atom_in_ring sssr n = true) by (apply atom_in_ring_spec; eauto). congruence.
    + intros H. destruct (atom_in_ring sssr n) eqn:E; [|reflexivity]. apply atom_in_ring_spec in E. destruct E as [x [Hx Hn]]. exfalso. exact (H x Hx Hn).
  - split.
    + intros [s [Hs Hr]]. apply ring_sizes_spec in Hr. destruct Hr as [x [Hx [Hn ->]]]. eauto.
    + intros [x [Hx [Hn Hs]]]. exists (Z.of_nat (List.length x)). split; [exact Hs|]. apply ring_sizes_spec. eauto.
Qed.

(* the documented condition of a query atom on atom n of the graph, stated on the graph *)
Definition tail_spec_mol (x : qx) (g : mol) (sssr : list (list Z)) (n : Z) (a : atom) : Prop :=
  tuple_ok (x_nb x) (nbr_count g n not_special) /\
  tuple_ok (x_hyb x) (hyb_spec (atom_env g n)) /\
  rings_ok_mol (x_rings x) sssr n /\
  hyd_ok (x_h x) (a_h a) /\
  tuple_ok (x_het x) (nbr_count g n (fun mb => not_special mb && negb (fst mb =? 1) && negb (fst mb =? 6))).
Definition atom_spec_mol (q : qatom) (g : mol) (sssr : list (list Z)) (n : Z) (a : atom) : Prop :=
  match q with
  | QElem num iso x => num = a_num a /\ x_chg x = a_chg a /\ x_rad x = a_rad a /\ iso_ok iso (a_iso a) /\ tail_spec_mol x g sssr n a
  | QAny x => x_chg x = a_chg a /\ x_rad x = a_rad a /\ tail_spec_mol x g sssr n a
  | QList nums x => In (a_num a) nums /\ x_chg x = a_chg a /\ x_rad x = a_rad a /\ tail_spec_mol x g sssr n a
  | QMetal nb hyb => non_metal (a_num a) = false /\ tuple_ok nb (nbr_count g n not_special) /\ tuple_ok hyb (hyb_spec (atom_env g n))
  end.

Lemma labelled_fields g sssr n a : atom_of g n = Some a ->
  exists la, labelled g sssr n = Some la /\
    la_num la = a_num a /\ la_iso la = a_iso a /\ la_chg la = a_chg a /\ la_rad la = a_rad a /\ la_h la = a_h a /\
    la_nb la = nbr_count g n not_special /\ la_hyb la = hyb_spec (atom_env g n) /\
    la_het la = nbr_count g n (fun mb => not_special mb && negb (fst mb =? 1) && negb (fst mb =? 6)) /\
    la_rings la = ring_sizes_of sssr n.
Proof.
  intros Ha. unfold labelled. rewrite Ha. rewrite labels_spec. unfold labels_spec_of.
  eexists. split; [reflexivity|]. cbn. repeat split; reflexivity.
Qed.

(* match_in_mol: the comparison of a (tuple-valued) query atom with atom n of the molecule, labelled by calc_labels from the
   graph and the ring set, is total and true exactly when the graph satisfies the documented condition *)
Theorem match_in_mol q g sssr n a : tuple_rings q = true -> atom_of g n = Some a ->
  exists la b, labelled g sssr n = Some la /\ match_atom q la = Ok b /\ (b = true <-> atom_spec_mol q g sssr n a).
Proof.
  intros Hq Ha. destruct (labelled_fields g sssr n a Ha) as [la [El [F1 [F2 [F3 [F4 [F5 [F6 [F7 [F8 F9]]]]]]]]]].
  destruct (match_spec q la Hq) as [b [Em Hs]]. exists la, b. split; [exact El|]. split; [exact Em|]. rewrite Hs.
  destruct q as [num iso x|x|nums x|nb hyb]; cbn [atom_spec atom_spec_mol]; unfold tail_spec, tail_spec_mol;
    rewrite ?F1, ?F2, ?F3, ?F4, ?F5, ?F6, ?F7, ?F8, ?F9, ?rings_ok_mol_iff; tauto.
Qed.

(* ... in particular for every query atom smarts() builds from a bracket body *)
Theorem smarts_match_in_mol body q g sssr n a : smarts_atom body = Ok q -> atom_of g n = Some a ->
  exists la b, labelled g sssr n = Some la /\ match_atom q la = Ok b /\ (b = true <-> atom_spec_mol q g sssr n a).
Proof.
  intros Hs Ha. apply match_in_mol; [|exact Ha].
  unfold smarts_atom, bind in Hs. destruct (query_parse body) as [p|]; [|discriminate]. eapply build_atom_tuple; eauto.
Qed.

(* bonds: the query bond of a documented spelling against the bond n-m of the molecule, whose ring mark calc_labels derives from
   the ring set (a special, order 8, bond is never a ring bond) *)
Definition mol_bond_in_ring (b : bond) (sssr : list (list Z)) (n m : Z) : Prop :=
  b_ord b <> 8 /\ exists r, In r sssr /\ In n r /\ In m r.
Theorem qbond_in_mol q g sssr n m b : bond_of g n m = Some b ->
  exists ring, bond_ring_label g sssr n m = Some ring /\ (ring = true <-> mol_bond_in_ring b sssr n m) /\
    (qbond_match q (mkLB (b_ord b) ring) = true <->
       In (b_ord b) (qb_ord q) /\ (qb_ring q = None \/ (qb_ring q = Some true /\ mol_bond_in_ring b sssr n m) \/
                                    (qb_ring q = Some false /\ ~ mol_bond_in_ring b sssr n m))).
Proof.
  intros Hb. unfold bond_ring_label. rewrite Hb. eexists. split; [reflexivity|].
  assert (R : (if b_ord b =? 8 then false else bond_in_ring sssr n m) = true <-> mol_bond_in_ring b sssr n m).
  { unfold mol_bond_in_ring. destruct (b_ord b =? 8) eqn:E.
    - apply Z.eqb_eq in E. split; [discriminate | intros [H _]; congruence].
    - apply Z.eqb_neq in E. rewrite bond_in_ring_spec. tauto. }
  split; [exact R|]. rewrite qbond_match_spec. cbn [lb_ord lb_ring].
  destruct (if b_ord b =? 8 then false else bond_in_ring sssr n m) eqn:Er.
  - assert (Hm : mol_bond_in_ring b sssr n m) by (apply R; reflexivity).
    split; [intros [H1 [H2|H2]]; (split; [exact H1|]); [left; exact H2 | right; left; split; [exact H2 | exact Hm]]
           |intros [H1 [H2|[[H2 _]|[_ H2]]]]; [split; [exact H1 | left; exact H2] | split; [exact H1 | right; exact H2] | contradiction]].
  - assert (Hm : ~ mol_bond_in_ring b sssr n m) by (intros H; apply R in H; discriminate).
    split; [intros [H1 [H2|H2]]; (split; [exact H1|]); [left; exact H2 | right; right; split; [exact H2 | exact Hm]]
           |intros [H1 [H2|[[_ H2]|[H2 _]]]]; [split; [exact H1 | left; exact H2] | contradiction | split; [exact H1 | right; exact H2]]].
Qed.

(* non-vacuity: pyridine N (atom 1) against [N;D2;a;r6] and [N;h1]; a ring bond against -,:;@ *)
Definition pyridine : mol :=
  let a z := mkAtom z None 0 false (Some (if z =? 7 then 0 else 1)) None in
  let ar := mkBond 4 None in
  mkMol [(1, a 7); (2, a 6); (3, a 6); (4, a 6); (5, a 6); (6, a 6)]
        [(1, [(2, ar); (6, ar)]); (2, [(1, ar); (3, ar)]); (3, [(2, ar); (4, ar)]); (4, [(3, ar); (5, ar)]); (5, [(4, ar); (6, ar)]);
         (6, [(5, ar); (1, ar)])].
Theorem match_in_mol_example :
  (exists q la, smarts_atom (s2l "N;D2;a;r6") = Ok q /\ labelled pyridine [[1; 2; 3; 4; 5; 6]] 1 = Some la /\ match_atom q la = Ok true) /\
  (exists q la, smarts_atom (s2l "N;h1") = Ok q /\ labelled pyridine [[1; 2; 3; 4; 5; 6]] 1 = Some la /\ match_atom q la = Ok false) /\
  (exists q, bond_of_spelling "-,:;@" = Ok q /\ bond_ring_label pyridine [[1; 2; 3; 4; 5; 6]] 1 2 = Some true /\
             qbond_match q (mkLB 4 true) = true).
Proof. repeat split; repeat eexists; vm_compute; reflexivity. Qed.
