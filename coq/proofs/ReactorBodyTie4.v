(* C16 (round 4): TIE BY TRANSLATION, fourth piece.  Gen.ReactorBody.g_patcher_rbonds is the loop of BaseReactor._patcher over
   the bonds of the replacement (`for n, bs in self._replacement._bonds.items()`), translated statement by statement from /repo
   on every run.  For ALL inputs it agrees with the second fold of the hand-written Model.Reactor.patcher (fold_res
   patch_bonds_of): same exception, same adjacency up to the bond labels (which the hand model does not carry). *)
From Coq Require Import ZArith List Bool Lia.
From Model Require Import PyBase Graph Reactor ReactorStage.
From Gen Require Import ReactorBody.
From Proofs Require Import ReactorProofs ReactorBodyTie ReactorBodyTie2.
Import ListNotations.
Open Scope Z_scope.

Definition mapsnd {V W} (f : V -> W) (d : list (Z * V)) : list (Z * W) := map (fun kv => (fst kv, f (snd kv))) d.
Definition erase_nb (l : list (Z * bond)) : list (Z * bond) := mapsnd plain l.
Definition erase_adj (a : list (Z * list (Z * bond))) : list (Z * list (Z * bond)) := mapsnd erase_nb a.

Lemma mapsnd_zset {V W} (f : V -> W) d k v : mapsnd f (zset d k v) = zset (mapsnd f d) k (f v).
Proof.
  induction d as [|[k' v'] r IH]; [reflexivity|]. cbn [zset]. unfold mapsnd at 2. cbn [map fst snd zset].
  destruct (k =? k'); [reflexivity|]. unfold mapsnd at 1. cbn [map fst snd]. f_equal. exact IH.
Qed.

Lemma zget_mapsnd {V W} (f : V -> W) d k : zget (mapsnd f d) k = option_map f (zget d k).
Proof. apply zget_map_snd. Qed.

Lemma keys_mapsnd {V W} (f : V -> W) d : keys (mapsnd f d) = keys d.
Proof. unfold keys, mapsnd. rewrite map_map. apply map_ext. intros [k v]; reflexivity. Qed.

Lemma plain_plain b : plain (plain b) = plain b.
Proof. reflexivity. Qed.

(* what the relation erase_adj ag = erase_adj ah gives for look-ups *)
Lemma rel_zget ag ah k : erase_adj ag = erase_adj ah ->
  match zget ag k, zget ah k with
  | Some lg, Some lh => erase_nb lg = erase_nb lh
  | None, None => True
  | _, _ => False
  end.
Proof.
  intros R. pose proof (f_equal (fun a => zget a k) R) as H. cbn beta in H. unfold erase_adj in H. rewrite !zget_mapsnd in H.
  destruct (zget ag k) as [lg|], (zget ah k) as [lh|]; cbn [option_map] in H; try discriminate; [|exact I].
  injection H as H. exact H.
Qed.

Lemma rel_nb_zget lg lh k : erase_nb lg = erase_nb lh ->
  match zget lg k, zget lh k with
  | Some bg, Some bh => plain bg = plain bh
  | None, None => True
  | _, _ => False
  end.
Proof.
  intros R. pose proof (f_equal (fun a => zget a k) R) as H. cbn beta in H. unfold erase_nb in H. rewrite !zget_mapsnd in H.
  destruct (zget lg k) as [bg|], (zget lh k) as [bh|]; cbn [option_map] in H; try discriminate; [|exact I].
  injection H as H. unfold plain. rewrite H. reflexivity.
Qed.

Lemma rel_store ag ah lg lh n m bg bh : erase_adj ag = erase_adj ah -> erase_nb lg = erase_nb lh -> plain bg = plain bh ->
  erase_adj (zset ag n (zset lg m bg)) = erase_adj (zset ah n (zset lh m bh)).
Proof.
  intros R Rl Rb. unfold erase_adj in *. rewrite !mapsnd_zset, R. f_equal.
  unfold erase_nb in *. rewrite !mapsnd_zset, Rl, Rb. reflexivity.
Qed.

Definition agrees_adj (r : pyres (list (Z * list (Z * bond)) * list (Z * Z))) (h : pyres (list (Z * list (Z * bond)))) : Prop :=
  match r with
  | Ok (ag, _) => exists ah, h = Ok ah /\ erase_adj ag = erase_adj ah
  | Err e => h = Err e
  end.

Lemma rel_loop_gen {X} (F : list (Z * list (Z * bond)) * list (Z * Z) -> X -> pyres (list (Z * list (Z * bond)) * list (Z * Z)))
      (H : list (Z * list (Z * bond)) -> X -> pyres (list (Z * list (Z * bond)))) :
  (forall ag ah sb x, erase_adj ag = erase_adj ah -> agrees_adj (F (ag, sb) x) (H ah x)) ->
  forall l ag ah sb, erase_adj ag = erase_adj ah -> agrees_adj (fold_res F l (ag, sb)) (fold_res H l ah).
Proof.
  intros Hstep. induction l as [|x r IH]; intros ag ah sb R; cbn [fold_res].
  - exists ah. split; [reflexivity|assumption].
  - specialize (Hstep ag ah sb x R). unfold agrees_adj in Hstep.
    destruct (F (ag, sb) x) as [[ag1 sb1]|e].
    + destruct Hstep as (ah1 & -> & R1). apply IH. assumption.
    + rewrite Hstep. reflexivity.
Qed.

Theorem g_patcher_rbonds_is_model : forall tb sbonds mapping ag ah stb,
  erase_adj ag = erase_adj ah ->
  agrees_adj (g_patcher_rbonds tb sbonds mapping ag stb) (fold_res (patch_bonds_of mapping) tb ah).
Proof.
  intros tb sbonds mapping ag ah stb R. unfold g_patcher_rbonds, py_for.
  match goal with |- context [fold_res ?F tb (ag, stb)] => pose proof (rel_loop_gen F (patch_bonds_of mapping)) as HL end.
  match type of HL with ?Hyp -> _ => assert (Hs : Hyp) end.
  { clear HL R ag ah stb. intros ag ah sb [n0 bs] R. unfold patch_bonds_of. cbn [fst snd].
    destruct (zget mapping n0) as [n|]; [|reflexivity]. cbv zeta.
    match goal with |- context [fold_res ?F bs (ag, sb)] =>
      pose proof (rel_loop_gen F (fun adj mrb => match zget mapping (fst mrb) with
                                                 | None => Err KeyError
                                                 | Some m => link adj n m (plain (snd mrb))
                                                 end)) as HI end.
    match type of HI with ?Hyp -> _ => assert (Hi : Hyp) end.
    { clear HI R ag ah sb. intros ag ah sb [m0 rb] R. cbn [fst snd].
      destruct (zget mapping m0) as [m|]; [|reflexivity]. unfold link.
      pose proof (rel_zget ag ah m R) as Rm. pose proof (rel_zget ag ah n R) as Rn.
      destruct (zget ag m) as [lgm|], (zget ah m) as [lhm|]; try contradiction; [|reflexivity].
      rewrite zmem_keys_zget. pose proof (rel_nb_zget lgm lhm n Rm) as Rb.
      destruct (zget lgm n) as [bg|], (zget lhm n) as [bh|]; try contradiction.
      - destruct (zget ag n) as [lgn|], (zget ah n) as [lhn|]; try contradiction; [|reflexivity].
        eexists; split; [reflexivity|]. apply rel_store; assumption.
      - destruct (zget ag n) as [lgn|] eqn:Egn, (zget ah n) as [lhn|]; try contradiction; [|reflexivity].
        destruct (py_is_some (b_stereo rb)).
        + rewrite zget_zset_same.
          eexists; split; [reflexivity|]. rewrite zset_zset.
          replace (zset (zset lgn m (mkBond (b_ord rb) None)) m (set_b_stereo (mkBond (b_ord rb) None) (b_stereo rb)))
            with (zset lgn m (set_b_stereo (mkBond (b_ord rb) None) (b_stereo rb))) by (rewrite zset_zset; reflexivity).
          apply rel_store; [assumption|assumption|reflexivity].
        + assert (Hgoal : erase_adj (zset ag n (zset lgn m (mkBond (b_ord rb) None))) = erase_adj (zset ah n (zset lhn m (plain rb))))
            by (apply rel_store; [assumption|assumption|reflexivity]).
          destruct (zget sbonds n) as [sbn|]; [destruct (zget sbn m) as [sb0|];
            [destruct (negb (py_is_some (b_stereo sb0)) || negb (b_ord sb0 =? b_ord (mkBond (b_ord rb) None)))|]|];
            (eexists; split; [reflexivity|exact Hgoal]). }
    specialize (HI Hi bs ag ah sb R). unfold agrees_adj in HI |- *.
    destruct (fold_res _ bs (ag, sb)) as [[ag1 sb1]|e]; exact HI. }
  specialize (HL Hs tb ag ah stb R). unfold agrees_adj in HL |- *.
  destruct (fold_res _ tb (ag, stb)) as [[ag1 sb1]|e]; exact HL.
Qed.

(* non-vacuity: replacement bond 1=2 on the images 5, 6: with a label in the patch (stored, shared by the back-link); without
   one where the structure has a labelled double bond 5=6 (queued in stereo_bonds) or a single bond (not queued); a
   replacement atom without image in the mapping -> KeyError *)
Lemma g_patcher_rbonds_example :
  g_patcher_rbonds [(1, [(2, mkBond 2 (Some true))]); (2, [(1, mkBond 2 (Some true))])] [] [(1, 5); (2, 6)] [(5, []); (6, [])] [] =
    Ok ([(5, [(6, mkBond 2 (Some true))]); (6, [(5, mkBond 2 (Some true))])], []) /\
  g_patcher_rbonds [(1, [(2, mkBond 2 None)]); (2, [(1, mkBond 2 None)])]
                   [(5, [(6, mkBond 2 (Some false))]); (6, [(5, mkBond 2 (Some false))])] [(1, 5); (2, 6)] [(5, []); (6, [])] [] =
    Ok ([(5, [(6, mkBond 2 None)]); (6, [(5, mkBond 2 None)])], [(5, 6)]) /\
  g_patcher_rbonds [(1, [(2, mkBond 2 None)]); (2, [(1, mkBond 2 None)])]
                   [(5, [(6, mkBond 1 (Some false))]); (6, [(5, mkBond 1 (Some false))])] [(1, 5); (2, 6)] [(5, []); (6, [])] [] =
    Ok ([(5, [(6, mkBond 2 None)]); (6, [(5, mkBond 2 None)])], []) /\
  g_patcher_rbonds [(1, [(2, mkBond 2 None)])] [] [(1, 5)] [(5, [])] [] = Err KeyError.
Proof. vm_compute. repeat split; reflexivity. Qed.
