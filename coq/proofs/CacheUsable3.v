(* C13 -- copy() and `with mol:` succeed on every settled molecule (the labels they read are there: freshness invariant). *)
From Coq Require Import ZArith List Bool Lia.
From Model Require Import PyBase Cache.
From Proofs Require Import CacheProofs CacheWf CacheCopy CacheCopyTotal CacheCoh CacheWorld CacheUnion CacheTheorems CacheUsable CacheExamples CacheTxn
  CacheFresh CacheFreshOps CacheFreshWorld CacheUsable2.
Import ListNotations.
Open Scope Z_scope.

Lemma copy_mol_total ks kc h o : wf h o -> (forall n a, zget (o_atoms o) n = Some a -> a_lab a <> None) -> bondsOK h o ->
  exists h1 b, copy_mol ks kc h o = Ok (h1, b).
Proof.
  intros Wf La Bo. unfold copy_mol. pose proof Wf as [Wk Wnd Wsym Wloop Wval Wlt].
  assert (forallb (fun na => labelled (snd na)) (o_atoms o) = true) as ->.
  { apply forallb_forall. intros [n a] Hi. cbn. unfold labelled. assert (zget (o_atoms o) n = Some a) as Hz.
    { apply In_zget_nodup; [rewrite <- Wk; apply Wnd | exact Hi]. }
    specialize (La n a Hz). destruct (a_lab a); [reflexivity | contradiction]. }
  cbn [negb]. unfold copy_rows.
  destruct (gcopy_rows_total (fun _ => true) fcopy h (o_adj o) Wnd Wsym Wlt Wloop) with (rows := o_adj o) (done := @nil (Z * list (Z * ref))) (h := h) (cb := @nil (Z * list (Z * ref)))
    as [h1 [cb E]].
  - intros r Hr. destruct (Bo r Hr) as [c [Hc Hl]]. exists c, c. split; [exact Hc|]. unfold fcopy. now rewrite Hl.
  - intros n r Hi. apply In_zget_nodup; [apply Wnd | exact Hi].
  - apply Wnd.
  - reflexivity.
  - split; [apply hext_refl|]. split; [constructor|]. intros x y r1 r2 H. discriminate.
  - rewrite E. eauto.
Qed.

Theorem copy_enter_total s : FW s -> o_backup (s_cur s) = None ->
  snd (step s OCopy) = None /\ snd (step s OEnter) = None.
Proof.
  intros Fs B. pose proof (W_cur s (proj1 Fs)) as [[Wf _] _]. destruct (Fr_settled _ _ (FW_cur s Fs) B) as [_ [Bo OK]].
  assert (forall n a, zget (o_atoms (s_cur s)) n = Some a -> a_lab a <> None) as La.
  { intros n a Ha. destruct (OK n a Ha) as [_ [l [_ E]]]. congruence. }
  split; cbn [step].
  - destruct (copy_mol_total false false _ _ Wf La Bo) as [h1 [b E]]. now rewrite E.
  - unfold lift, enter. rewrite B. destruct (copy_mol_total true true _ _ Wf La Bo) as [h1 [b E]]. now rewrite E.
Qed.
