(* C08 -- theorems about Model.SmartsFull.smarts_full (the whole of smarts() for a text without white space): which exceptions
   it can raise, for every string. *)
From Coq Require Import ZArith List String Ascii Bool Lia.
From Gen Require Import Elements TokenTables SmartsTables.
From Model Require Import PyBase Graph PeriodicTable Tokenize Smarts Query SmartsFull.
From Model Require Parser.
From Proofs Require Import QueryProofs TokenizeProofs SmartsProofs SmartsParser.
Import ListNotations.
Open Scope Z_scope.

(* ---- smarts_tokenize keeps the token shapes; bracket bodies and plain atoms become atom tokens of type 0 *)
Lemma smarts_token_shape t st : rawwfb t = true -> smarts_token t = Ok st ->
  match st with SAtom p => True | STok t' => t' = t /\ qwfb t' = true end.
Proof.
  destruct t as [ty pl]. unfold smarts_token. destruct pl; cbn [rawwfb snd fst]; intros Hw H; try discriminate Hw;
    try (inversion H; subst; split; [reflexivity | exact Hw]).
  destruct ((ty =? 0) || (ty =? 8)) eqn:E1; [inversion H; exact I|].
  destruct (ty =? 5) eqn:E2; [destruct (query_parse _); inversion H; exact I|].
  exfalso. apply orb_false_iff in E1. destruct E1 as [E0 E8]. cbn in Hw. rewrite E0, E8, E2 in Hw. discriminate.
Qed.

Lemma split_tokens_good ts : forallb rawwfb ts = true ->
  match split_tokens ts with
  | Ok (toks, ps) => forallb qwfb toks = true /\ List.length toks = List.length ts
  | Err e => vee e = true
  end.
Proof.
  induction ts as [|t r IH]; intros H; cbn [split_tokens]; [split; reflexivity|].
  cbn [forallb] in H. apply andb_prop in H. destruct H as [H1 H2]. specialize (IH H2).
  destruct (smarts_token t) as [st|e] eqn:E; [|eapply smarts_token_total; exact E].
  destruct (split_tokens r) as [[toks ps]|e']; [|exact IH]. destruct IH as [I1 I2].
  pose proof (smarts_token_shape t st H1 E) as S. destruct st as [p|t'].
  - split; [cbn; exact I1 | cbn; rewrite I2; reflexivity].
  - destruct S as [-> S]. split; [cbn [forallb]; rewrite S, I1; reflexivity | cbn; rewrite I2; reflexivity].
Qed.

Lemma atoms_loop_errors ps : forall seen e, atoms_loop ps seen = Err e -> vee e = true.
Proof.
  induction ps as [|p r IH]; intros seen e; cbn [atoms_loop]; [discriminate|].
  destruct (build_atom p) as [q|e'] eqn:E.
  - cbv zeta. destruct (p_mapping p) as [k|]; [destruct (zmem k seen); [intros H; inversion H; reflexivity|]|];
      (destruct (atoms_loop r _) as [qs|e''] eqn:E2; [discriminate|]; intros H; inversion H; subst; eapply IH; exact E2).
  - intros H; inversion H; subst. destruct (build_atom_errors _ _ E) as [->|[-> _]]; reflexivity.
Qed.

Lemma qbond_of_payload_errors p e : SmartsParser.is_int p -> qbond_of_payload p = Err e -> e = ValueError.
Proof.
  intros [[o ->]|[[l ->]|[l [r ->]]]]; cbn [qbond_of_payload].
  - destruct (zmem o qbond_orders); [discriminate|]. intros H; inversion H; reflexivity.
  - destruct (forallb _ l); [discriminate|]. intros H; inversion H; reflexivity.
  - discriminate.
Qed.

Lemma popitem_nonempty {V} (d : list (Z * V)) : nonempty d = true -> exists d' v, popitem d = Some (d', v).
Proof.
  unfold popitem. intros H. destruct (rev d) as [|[k v] r] eqn:E.
  - assert (d = []) by (rewrite <- (rev_involutive d), E; reflexivity). subst. discriminate.
  - eexists; eexists; reflexivity.
Qed.
Lemma zget_zset_other {V} (d : list (Z * V)) k k' v : k' <> k -> zget (Parser.zset d k v) k' = zget d k'.
Proof.
  intros H. induction d as [|[k0 v0] r IH]; cbn.
  - destruct (k' =? k) eqn:E; [apply Z.eqb_eq in E; congruence | reflexivity].
  - destruct (k =? k0) eqn:E; cbn.
    + apply Z.eqb_eq in E. subst. destruct (k' =? k0) eqn:E2; [apply Z.eqb_eq in E2; congruence | reflexivity].
    + destruct (k' =? k0); [reflexivity | exact IH].
Qed.

(* the cis/trans handling never raises (code after the fixes: both mark dictionaries are non-empty and distinct) *)
Lemma stereo_of_total sb n m b : exists r, stereo_of sb n m b = Ok r.
Proof.
  unfold stereo_of. destruct (zget sb n) as [dn|] eqn:En; [|eexists; reflexivity].
  destruct (zget sb m) as [dm0|] eqn:Em; [|eexists; reflexivity].
  destruct (negb (n =? m) && nonempty dn && nonempty dm0 && can_double b) eqn:C; cbn [negb]; [|eexists; reflexivity].
  apply andb_true_iff in C. destruct C as [C _]. apply andb_true_iff in C. destruct C as [C C3].
  apply andb_true_iff in C. destruct C as [C1 C2]. apply negb_true_iff in C1. apply Z.eqb_neq in C1.
  destruct (zmem m (keys dn)); [eexists; reflexivity|].
  destruct (popitem_nonempty dn C2) as [dn' [s1 ->]].
  rewrite zget_zset_other by congruence. rewrite Em.
  destruct (popitem_nonempty dm0 C3) as [dm' [s2 ->]]. eexists; reflexivity.
Qed.

Lemma bonds_loop_errors bs : forall sb seen e n0, Forall (SmartsParser.bwf n0) bs -> bonds_loop sb bs seen = Err e -> vee e = true.
Proof.
  induction bs as [|[[n m] b] r IH]; intros sb seen e n0 Hb; cbn [bonds_loop]; [discriminate|].
  inversion Hb as [|? ? H1 H2]; subst. destruct H1 as [_ [_ Hi]].
  destruct (stereo_of_total sb n m b) as [[st sb'] ->].
  destruct (qbond_of_payload b) as [q|e2] eqn:E2; [|intros H; inversion H; subst; rewrite (qbond_of_payload_errors _ _ Hi E2); reflexivity].
  destruct (n =? m); [intros H; inversion H; reflexivity|].
  destruct (existsb _ seen); [intros H; inversion H; reflexivity|].
  destruct (bonds_loop sb' r _) as [l|e3] eqn:E3; [discriminate|]. intros H; inversion H; subst. eapply IH; eassumption.
Qed.

(* smarts_total for the WHOLE of smarts(): for EVERY text a query, or IncorrectSmiles / IncorrectSmarts / ValueError *)
Theorem smarts_full_total s e : smarts_full s = Err e -> vee e = true.
Proof.
  unfold smarts_full, full_of_tokens. destruct (String.eqb s "") eqn:Es; [intros H; inversion H; reflexivity|].
  apply String.eqb_neq in Es.
  pose proof (tokenize_raw_good s) as G. destruct (tokenize_raw s) as [ts|e0]; [|intros H; inversion H; subst; exact G].
  destruct G as [G1 G2]. pose proof (split_tokens_good ts G1) as S.
  destruct (split_tokens ts) as [[toks ps]|e1]; [|intros H; inversion H; subst; exact S].
  destruct S as [S1 S2].
  assert (Hne : toks <> []). { intros ->. specialize (G2 Es). destruct ts; [congruence | discriminate]. }
  pose proof (SmartsParser.parse_good toks false S1 Hne) as P.
  destruct (Parser.parse toks false) as [pr|e2]; [|intros H; inversion H; subst; exact P].
  destruct P as [_ P2].
  destruct (atoms_loop ps []) as [atoms|e3] eqn:E3; [|intros H; inversion H; subst; eapply atoms_loop_errors; exact E3].
  destruct (bonds_loop _ _ []) as [bonds|e4] eqn:E4; [discriminate|]. intros H; inversion H; subst.
  eapply bonds_loop_errors; eassumption.
Qed.

(* the texts that crashed in earlier trees are rejected with a ValueError-class exception or read *)
Theorem smarts_full_examples :
  smarts_full "F/C=1=1" = Err ValueError /\ smarts_full "F/C1=1" = Err ValueError /\
  (exists r, smarts_full "C/C=C(/C)C(/C)=C/C" = Ok r) /\ (exists r, smarts_full "F/C(=C/F)=C/F" = Ok r) /\
  smarts_full "" = Err ValueError /\ smarts_full "C/C=,#C/C" =
    Ok ([(QElem 6 None (mkQX 0 false [] [] [] [] [] false), None); (QElem 6 None (mkQX 0 false [] [] [] [] [] false), None);
         (QElem 6 None (mkQX 0 false [] [] [] [] [] false), None); (QElem 6 None (mkQX 0 false [] [] [] [] [] false), None)],
        [mkSB 1 0 (mkQB [1] None) None; mkSB 2 1 (mkQB [2; 3] None) (Some false); mkSB 3 2 (mkQB [1] None) None]).
Proof. vm_compute. repeat split; try reflexivity; eexists; reflexivity. Qed.

(* ---------------------------------------------------------------------------------------------------------------- *)
(* CXSMARTS radicals *)
Lemma atoms_loop_rad_none ps : forall i seen, atoms_loop_rad ps i [] seen = atoms_loop ps seen.
Proof.
  induction ps as [|p r IH]; intros i seen; cbn [atoms_loop_rad atoms_loop]; [reflexivity|].
  unfold build_atom_rad. cbn [zmem existsb andb]. destruct (build_atom p); [|reflexivity].
  cbv zeta. destruct (match p_mapping p with Some k => zmem k seen | None => false end); [reflexivity|].
  rewrite IH. reflexivity.
Qed.

(* without a CX block the function is smarts_full *)
Theorem smarts_cx_none s : smarts_cx s None = smarts_full s.
Proof.
  unfold smarts_cx, smarts_full, full_of_tokens. destruct (String.eqb s ""); [reflexivity|].
  destruct (tokenize_raw s) as [ts|]; [|reflexivity]. destruct (split_tokens ts) as [[toks ps]|]; [|reflexivity].
  destruct (Parser.parse toks false); [|reflexivity]. cbn [cx_indices existsb]. rewrite atoms_loop_rad_none. reflexivity.
Qed.

Lemma atoms_loop_rad_errors ps : forall i rads seen e, atoms_loop_rad ps i rads seen = Err e -> vee e = true.
Proof.
  induction ps as [|p r IH]; intros i rads seen e; cbn [atoms_loop_rad]; [discriminate|].
  destruct (build_atom_rad p (zmem i rads)) as [q|e'] eqn:E.
  - cbv zeta. destruct (p_mapping p) as [k|]; [destruct (zmem k seen); [intros H; inversion H; reflexivity|]|];
      (destruct (atoms_loop_rad r _ _ _) as [qs|e''] eqn:E2; [discriminate|]; intros H; inversion H; subst; eapply IH; exact E2).
  - intros H; inversion H; subst. unfold build_atom_rad in E. destruct (zmem i rads && is_metal_p p); [inversion E; reflexivity|].
    destruct (build_atom p) eqn:Eb; [discriminate|]. inversion E; subst.
    destruct (build_atom_errors _ _ Eb) as [->|[-> _]]; reflexivity.
Qed.

Lemma map_res_py_int_errors l e : map_res Tokenize.py_int l = Err e -> vee e = true.
Proof.
  intros H. apply map_res_err in H. destruct H as [x [_ Hx]]. apply TokenizeProofs.py_int_err in Hx. subst. reflexivity.
Qed.

(* smarts(smr + ' ' + cx): for EVERY text and EVERY CX block - a query or a ValueError-class exception *)
Theorem smarts_cx_total s cx e : smarts_cx s cx = Err e -> vee e = true.
Proof.
  unfold smarts_cx. destruct (String.eqb s "") eqn:Es; [intros H; inversion H; reflexivity|].
  apply String.eqb_neq in Es.
  pose proof (tokenize_raw_good s) as G. destruct (tokenize_raw s) as [ts|e0]; [|intros H; inversion H; subst; exact G].
  destruct G as [G1 G2]. pose proof (split_tokens_good ts G1) as S.
  destruct (split_tokens ts) as [[toks ps]|e1]; [|intros H; inversion H; subst; exact S].
  destruct S as [S1 S2].
  assert (Hne : toks <> []). { intros ->. specialize (G2 Es). destruct ts; [congruence | discriminate]. }
  pose proof (SmartsParser.parse_good toks false S1 Hne) as P.
  destruct (Parser.parse toks false) as [pr|e2]; [|intros H; inversion H; subst; exact P].
  destruct P as [_ P2].
  destruct (cx_indices cx) as [rads|e5] eqn:E5.
  2:{ intros H; inversion H; subst. unfold cx_indices in E5. destruct cx as [c|]; [|discriminate].
      destruct (list_ascii_of_string c) as [|a l]; [discriminate|]. 
      destruct a as [[] [] [] [] [] [] [] []]; try discriminate. destruct (rev _) as [|b l']; [discriminate|].
      destruct b as [[] [] [] [] [] [] [] []]; try discriminate. eapply map_res_py_int_errors; exact E5. }
  destruct (existsb _ rads); [intros H; inversion H; reflexivity|].
  destruct (atoms_loop_rad ps 0 rads []) as [atoms|e3] eqn:E3; [|intros H; inversion H; subst; eapply atoms_loop_rad_errors; exact E3].
  destruct (bonds_loop _ _ []) as [bonds|e4] eqn:E4; [discriminate|]. intros H; inversion H; subst.
  eapply bonds_loop_errors; eassumption.
Qed.

(* examples: radicals are set on the indexed atoms; an index beyond the atoms, and a radical on an any-metal atom, are rejected *)
Theorem smarts_cx_examples :
  smarts_cx "[C;D2]C"%string (Some "|^1:1|"%string) =
    Ok ([(QElem 6 None (mkQX 0 false [2] [] [] [] [] false), None); (QElem 6 None (mkQX 0 true [] [] [] [] [] false), None)],
        [mkSB 1 0 (mkQB [1] None) None]) /\
  smarts_cx "CN"%string (Some "|^1:0,1|"%string) =
    Ok ([(QElem 6 None (mkQX 0 true [] [] [] [] [] false), None); (QElem 7 None (mkQX 0 true [] [] [] [] [] false), None)],
        [mkSB 1 0 (mkQB [1] None) None]) /\
  smarts_cx "C"%string (Some "|^1:5|"%string) = Err IncorrectSmarts /\ smarts_cx "[M]"%string (Some "|^1:0|"%string) = Err IncorrectSmarts /\
  smarts_cx "C"%string (Some "^1:0"%string) = smarts_full "C"%string.
Proof. vm_compute. repeat split; reflexivity. Qed.

(* ---------------------------------------------------------------------------------------------------------------- *)
(* add_atom normalisation, from_atom without flags, copy *)

(* g.add_atom('X') / g.add_atom(6) build the atom that smarts('[X]') / smarts('[#6]') builds *)
Theorem add_atom_sym_is_smarts s :
  add_atom_norm (ASym s) = build_atom (mkParsed None None None None [ESym s] None None None None None false).
Proof.
  unfold add_atom_norm, build_atom. cbn [p_element]. destruct (str_eqb s ["A"%char]); [reflexivity|]. destruct (str_eqb s ["M"%char]); [reflexivity|].
  destruct (sym_number s); reflexivity.
Qed.
Theorem add_atom_num_is_smarts n :
  add_atom_norm (ANum n) = build_atom (mkParsed None None None None [ENum n] None None None None None false).
Proof. unfold add_atom_norm, build_atom. cbn [p_element]. destruct (valid_number n); reflexivity. Qed.

(* g.add_atom(element atom): the query keeps element, charge, radical state and isotope (None / 0 = any) and nothing else *)
Theorem add_atom_elem_spec a b :
  exists r, (match add_atom_norm (AElem a) with Ok q => match_atom q b | Err e => Err e end) = Ok r /\
    (r = true <-> la_num a = la_num b /\ la_chg a = la_chg b /\ la_rad a = la_rad b /\ iso_ok (la_iso a) (la_iso b)).
Proof.
  cbn [add_atom_norm]. unfold from_atom. cbn [match_atom].
  destruct (match_q_spec (la_num a) (la_iso a) (mkQX (la_chg a) (la_rad a) [] [] [] [] [] false) b eq_refl) as [r [E S]].
  exists r. split; [exact E|]. rewrite S. cbn [x_chg x_rad]. unfold tail_spec, tuple_ok, rings_ok, hyd_ok. cbn [x_nb x_hyb x_h x_het x_rings].
  tauto.
Qed.

(* copy(): the comparison data are kept; the stereo mark and the masked flag survive a full copy only; copying is idempotent *)
Theorem qcopy_spec full x :
  fst (fst (qcopy full x)) = fst (fst x) /\
  qcopy false x = (fst (fst x), None, false) /\
  qcopy full (qcopy full x) = qcopy full x /\ qcopy false (qcopy true x) = qcopy false x.
Proof. destruct x as [[q st] mk]. destruct full, q, st as [[]|], mk; repeat split; reflexivity. Qed.

(* ---------------------------------------------------------------------------------------------------------------- *)
(* known finding smarts-stereo-branch-mark-inverted.  QueryIsomorphism.get_mapping reads QueryBond.stereo relative to the FIRST
   bonded neighbour of each end of the double bond, so two spellings of one configuration must get one flag.  They do not:
   'F/C(Cl)=C/F' and 'F/C(/Cl)=C/F' both say "F and F on opposite sides" (the mark on the Cl branch is implied by the one on F),
   yet the second gets the flag of the LAST written mark (Cl), i.e. the opposite one *)
Definition double_bond_flag (s : string) : option (option bool) :=
  match smarts_full s with
  | Ok (_, bonds) => match filter (fun x => zmem 2 (qb_ord (sb_q x))) bonds with [x] => Some (sb_stereo x) | _ => None end
  | Err _ => None
  end.
Theorem stereo_flag_spelling_independent_refuted :
  double_bond_flag "F/C(Cl)=C/F" = Some (Some false) /\ double_bond_flag "F/C(/Cl)=C/F" = Some (Some true) /\
  double_bond_flag "F/C=C/F" = Some (Some false) /\ double_bond_flag "F/C=C\F" = Some (Some true).
Proof. vm_compute. repeat split; reflexivity. Qed.
