(* C08 -- theorems about Model.SmartsFull.smarts_full (the whole of smarts() for a text without white space): which exceptions
   it can raise, for every string. *)
From Coq Require Import ZArith List String Ascii Bool Lia.
From Gen Require Import Elements TokenTables SmartsTables.
From Model Require Import PyBase Graph PeriodicTable Tokenize Smarts Query SmartsFull.
From Model Require Parser.
From Proofs Require Import QueryProofs TokenizeProofs SmartsProofs SmartsParser.
Import ListNotations.
Open Scope Z_scope.

(* ---- smarts_tokenize keeps the token shapes; bracket bodies and plain atoms become atom tokens of type 0 *)
Lemma smarts_token_shape t st : rawwfb t = true -> smarts_token t = Ok st ->
  match st with SAtom p => True | STok t' => t' = t /\ qwfb t' = true end.
Proof.
  destruct t as [ty pl]. unfold smarts_token. destruct pl; cbn [rawwfb snd fst]; intros Hw H; try discriminate Hw;
    try (inversion H; subst; split; [reflexivity | exact Hw]).
  destruct ((ty =? 0) || (ty =? 8)) eqn:E1; [inversion H; exact I|].
  destruct (ty =? 5) eqn:E2; [destruct (query_parse _); inversion H; exact I|].
  exfalso. apply orb_false_iff in E1. destruct E1 as [E0 E8]. cbn in Hw. rewrite E0, E8, E2 in Hw. discriminate.
Qed.

Lemma split_tokens_good ts : forallb rawwfb ts = true ->
  match split_tokens ts with
  | Ok (toks, ps) => forallb qwfb toks = true /\ List.length toks = List.length ts
  | Err e => vee e = true
  end.
Proof.
  induction ts as [|t r IH]; intros H; cbn [split_tokens]; [split; reflexivity|].
  cbn [forallb] in H. apply andb_prop in H. destruct H as [H1 H2]. specialize (IH H2).
  destruct (smarts_token t) as [st|e] eqn:E; [|eapply smarts_token_total; exact E].
  destruct (split_tokens r) as [[toks ps]|e']; [|exact IH]. destruct IH as [I1 I2].
  pose proof (smarts_token_shape t st H1 E) as S. destruct st as [p|t'].
  - split; [cbn; exact I1 | cbn; rewrite I2; reflexivity].
  - destruct S as [-> S]. split; [cbn [forallb]; rewrite S, I1; reflexivity | cbn; rewrite I2; reflexivity].
Qed.

Lemma atoms_loop_errors ps : forall seen e, atoms_loop ps seen = Err e -> vee e = true.
Proof.
  induction ps as [|p r IH]; intros seen e; cbn [atoms_loop]; [discriminate|].
  destruct (build_atom p) as [q|e'] eqn:E.
  - cbv zeta. destruct (p_mapping p) as [k|]; [destruct (zmem k seen); [intros H; inversion H; reflexivity|]|];
      (destruct (atoms_loop r _) as [qs|e''] eqn:E2; [discriminate|]; intros H; inversion H; subst; eapply IH; exact E2).
  - intros H; inversion H; subst. destruct (build_atom_errors _ _ E) as [->|[-> _]]; reflexivity.
Qed.

Lemma qbond_of_payload_errors p e : SmartsParser.is_int p -> qbond_of_payload p = Err e -> e = ValueError.
Proof.
  intros [[o ->]|[[l ->]|[l [r ->]]]]; cbn [qbond_of_payload].
  - destruct (zmem o qbond_orders); [discriminate|]. intros H; inversion H; reflexivity.
  - destruct (forallb _ l); [discriminate|]. intros H; inversion H; reflexivity.
  - discriminate.
Qed.

Lemma stereo_of_errors sb n m b e : stereo_of sb n m b = Err e -> e = KeyError.
Proof.
  unfold stereo_of. destruct (zget sb n) as [dn|]; [|discriminate]. destruct (zget sb m) as [dm0|]; [|discriminate].
  destruct (negb _); [discriminate|].
  destruct (zmem m (keys dn)); [discriminate|]. destruct (popitem dn) as [[dn' s1]|]; [|intros H; inversion H; reflexivity].
  destruct (zget _ m) as [dm|]; [|intros H; inversion H; reflexivity].
  destruct (popitem dm) as [[dm' s2]|]; [discriminate|intros H; inversion H; reflexivity].
Qed.

Lemma bonds_loop_errors bs : forall sb seen e n0, Forall (SmartsParser.bwf n0) bs -> bonds_loop sb bs seen = Err e ->
  vee e = true \/ e = KeyError.
Proof.
  induction bs as [|[[n m] b] r IH]; intros sb seen e n0 Hb; cbn [bonds_loop]; [discriminate|].
  inversion Hb as [|? ? H1 H2]; subst. destruct H1 as [_ [_ Hi]].
  destruct (stereo_of sb n m b) as [[st sb']|e1] eqn:E1; [|intros H; inversion H; subst; right; eapply stereo_of_errors; exact E1].
  destruct (qbond_of_payload b) as [q|e2] eqn:E2; [|intros H; inversion H; subst; left; rewrite (qbond_of_payload_errors _ _ Hi E2); reflexivity].
  destruct (n =? m); [intros H; inversion H; left; reflexivity|].
  destruct (existsb _ seen); [intros H; inversion H; left; reflexivity|].
  destruct (bonds_loop sb' r _) as [l|e3] eqn:E3; [discriminate|]. intros H; inversion H; subst. eapply IH; eassumption.
Qed.

(* smarts(): for EVERY text, a query, or IncorrectSmiles / IncorrectSmarts / ValueError, or - only out of the cis/trans
   handling (popitem on a mark dictionary that an earlier bond emptied) - KeyError *)
Theorem smarts_full_errors s e : smarts_full s = Err e -> vee e = true \/ e = KeyError.
Proof.
  unfold smarts_full, full_of_tokens. destruct (String.eqb s "") eqn:Es; [intros H; inversion H; left; reflexivity|].
  apply String.eqb_neq in Es.
  pose proof (tokenize_raw_good s) as G. destruct (tokenize_raw s) as [ts|e0]; [|intros H; inversion H; subst; left; exact G].
  destruct G as [G1 G2]. pose proof (split_tokens_good ts G1) as S.
  destruct (split_tokens ts) as [[toks ps]|e1]; [|intros H; inversion H; subst; left; exact S].
  destruct S as [S1 S2].
  assert (Hne : toks <> []). { intros ->. specialize (G2 Es). destruct ts; [congruence | discriminate]. }
  pose proof (SmartsParser.parse_good toks false S1 Hne) as P.
  destruct (Parser.parse toks false) as [pr|e2]; [|intros H; inversion H; subst; left; exact P].
  destruct P as [_ P2].
  destruct (atoms_loop ps []) as [atoms|e3] eqn:E3; [|intros H; inversion H; subst; left; eapply atoms_loop_errors; exact E3].
  destruct (bonds_loop _ _ []) as [bonds|e4] eqn:E4; [discriminate|]. intros H; inversion H; subst.
  eapply bonds_loop_errors; eassumption.
Qed.

(* the full statement (never anything but a ValueError-class exception) is FALSE for the unchanged code (after fix f821fac
   only for a ring closure that closes on its own atom next to one direction mark: both popitem() hit the same dictionary) *)
Theorem smarts_full_total_refuted :
  smarts_full "F/C=1=1" = Err KeyError /\ smarts_full "F/C1=1" = Err KeyError.
Proof. vm_compute. split; reflexivity. Qed.

(* it holds for every text whose parse has no direction marks left to consume *)
Theorem smarts_full_total_partial s e :
  (forall ts toks ps pr, tokenize_raw s = Ok ts -> split_tokens ts = Ok (toks, ps) -> Parser.parse toks false = Ok pr ->
     Parser.p_stereo_bonds pr = []) ->
  smarts_full s = Err e -> vee e = true.
Proof.
  intros Hn H. destruct (smarts_full_errors s e H) as [V| ->]; [exact V|]. exfalso. revert H.
  unfold smarts_full, full_of_tokens. destruct (String.eqb s ""); [discriminate|].
  pose proof (tokenize_raw_good s) as G.
  destruct (tokenize_raw s) as [ts|e0]; [|intros X; inversion X; subst; discriminate G].
  destruct G as [G1 _]. pose proof (split_tokens_good ts G1) as S.
  destruct (split_tokens ts) as [[toks ps]|e1] eqn:Es; [|intros X; inversion X; subst; discriminate S].
  destruct (Parser.parse toks false) as [pr|e2] eqn:Ep.
  2:{ intros X; inversion X; subst. destruct S as [S1 S2]. destruct toks as [|t0 tr]; [cbn in Ep; discriminate|].
      pose proof (SmartsParser.parse_good (t0 :: tr) false S1 ltac:(discriminate)) as P. rewrite Ep in P. discriminate P. }
  rewrite (Hn ts toks ps pr eq_refl Es Ep).
  destruct (atoms_loop ps []) as [atoms|e3] eqn:E3; [|intros X; inversion X; subst; apply atoms_loop_errors in E3; discriminate].
  assert (K : forall bs seen, bonds_loop [] bs seen <> Err KeyError).
  { induction bs as [|[[n m] b] r IH]; intros seen; cbn [bonds_loop]; [discriminate|].
    cbn [stereo_of zget]. destruct (qbond_of_payload b) as [q|e2] eqn:E2.
    - destruct (n =? m); [discriminate|]. destruct (existsb _ seen); [discriminate|].
      specialize (IH ((n, m) :: seen)). destruct (bonds_loop [] r _) as [l|e']; [discriminate|]. intros X; inversion X; subst. congruence.
    - intros X; inversion X; subst. destruct b; cbn in E2; try discriminate;
        repeat match goal with H : context [if ?c then _ else _] |- _ => destruct c end; discriminate. }
  destruct (bonds_loop [] _ []) as [bonds|e4] eqn:E4; [discriminate|]. intros X; inversion X; subst. exact (K _ _ E4).
Qed.

(* ---------------------------------------------------------------------------------------------------------------- *)
(* CXSMARTS radicals *)
Lemma atoms_loop_rad_none ps : forall i seen, atoms_loop_rad ps i [] seen = atoms_loop ps seen.
Proof.
  induction ps as [|p r IH]; intros i seen; cbn [atoms_loop_rad atoms_loop]; [reflexivity|].
  unfold build_atom_rad. cbn [zmem existsb andb]. destruct (build_atom p); [|reflexivity].
  cbv zeta. destruct (match p_mapping p with Some k => zmem k seen | None => false end); [reflexivity|].
  rewrite IH. reflexivity.
Qed.

(* without a CX block the function is smarts_full *)
Theorem smarts_cx_none s : smarts_cx s None = smarts_full s.
Proof.
  unfold smarts_cx, smarts_full, full_of_tokens. destruct (String.eqb s ""); [reflexivity|].
  destruct (tokenize_raw s) as [ts|]; [|reflexivity]. destruct (split_tokens ts) as [[toks ps]|]; [|reflexivity].
  destruct (Parser.parse toks false); [|reflexivity]. cbn [cx_indices existsb]. rewrite atoms_loop_rad_none. reflexivity.
Qed.

Lemma atoms_loop_rad_errors ps : forall i rads seen e, atoms_loop_rad ps i rads seen = Err e -> vee e = true.
Proof.
  induction ps as [|p r IH]; intros i rads seen e; cbn [atoms_loop_rad]; [discriminate|].
  destruct (build_atom_rad p (zmem i rads)) as [q|e'] eqn:E.
  - cbv zeta. destruct (p_mapping p) as [k|]; [destruct (zmem k seen); [intros H; inversion H; reflexivity|]|];
      (destruct (atoms_loop_rad r _ _ _) as [qs|e''] eqn:E2; [discriminate|]; intros H; inversion H; subst; eapply IH; exact E2).
  - intros H; inversion H; subst. unfold build_atom_rad in E. destruct (zmem i rads && is_metal_p p); [inversion E; reflexivity|].
    destruct (build_atom p) eqn:Eb; [discriminate|]. inversion E; subst.
    destruct (build_atom_errors _ _ Eb) as [->|[-> _]]; reflexivity.
Qed.

Lemma map_res_py_int_errors l e : map_res Tokenize.py_int l = Err e -> vee e = true.
Proof.
  intros H. apply map_res_err in H. destruct H as [x [_ Hx]]. apply TokenizeProofs.py_int_err in Hx. subst. reflexivity.
Qed.

(* smarts(smr + ' ' + cx): for EVERY text and EVERY CX block - a query, a ValueError-class exception, or the KeyError of the
   cis/trans popitem *)
Theorem smarts_cx_errors s cx e : smarts_cx s cx = Err e -> vee e = true \/ e = KeyError.
Proof.
  unfold smarts_cx. destruct (String.eqb s "") eqn:Es; [intros H; inversion H; left; reflexivity|].
  apply String.eqb_neq in Es.
  pose proof (tokenize_raw_good s) as G. destruct (tokenize_raw s) as [ts|e0]; [|intros H; inversion H; subst; left; exact G].
  destruct G as [G1 G2]. pose proof (split_tokens_good ts G1) as S.
  destruct (split_tokens ts) as [[toks ps]|e1]; [|intros H; inversion H; subst; left; exact S].
  destruct S as [S1 S2].
  assert (Hne : toks <> []). { intros ->. specialize (G2 Es). destruct ts; [congruence | discriminate]. }
  pose proof (SmartsParser.parse_good toks false S1 Hne) as P.
  destruct (Parser.parse toks false) as [pr|e2]; [|intros H; inversion H; subst; left; exact P].
  destruct P as [_ P2].
  destruct (cx_indices cx) as [rads|e5] eqn:E5.
  2:{ intros H; inversion H; subst. left. unfold cx_indices in E5. destruct cx as [c|]; [|discriminate].
      destruct (list_ascii_of_string c) as [|a l]; [discriminate|]. 
      destruct a as [[] [] [] [] [] [] [] []]; try discriminate. destruct (rev _) as [|b l']; [discriminate|].
      destruct b as [[] [] [] [] [] [] [] []]; try discriminate. eapply map_res_py_int_errors; exact E5. }
  destruct (existsb _ rads); [intros H; inversion H; left; reflexivity|].
  destruct (atoms_loop_rad ps 0 rads []) as [atoms|e3] eqn:E3; [|intros H; inversion H; subst; left; eapply atoms_loop_rad_errors; exact E3].
  destruct (bonds_loop _ _ []) as [bonds|e4] eqn:E4; [discriminate|]. intros H; inversion H; subst.
  eapply bonds_loop_errors; eassumption.
Qed.

(* examples: radicals are set on the indexed atoms; an index beyond the atoms, and a radical on an any-metal atom, are rejected *)
Theorem smarts_cx_examples :
  smarts_cx "[C;D2]C"%string (Some "|^1:1|"%string) =
    Ok ([(QElem 6 None (mkQX 0 false [2] [] [] [] [] false), None); (QElem 6 None (mkQX 0 true [] [] [] [] [] false), None)],
        [mkSB 1 0 (mkQB [1] None) None]) /\
  smarts_cx "CN"%string (Some "|^1:0,1|"%string) =
    Ok ([(QElem 6 None (mkQX 0 true [] [] [] [] [] false), None); (QElem 7 None (mkQX 0 true [] [] [] [] [] false), None)],
        [mkSB 1 0 (mkQB [1] None) None]) /\
  smarts_cx "C"%string (Some "|^1:5|"%string) = Err IncorrectSmarts /\ smarts_cx "[M]"%string (Some "|^1:0|"%string) = Err IncorrectSmarts /\
  smarts_cx "C"%string (Some "^1:0"%string) = smarts_full "C"%string.
Proof. vm_compute. repeat split; reflexivity. Qed.
