(* C13 -- add_atom in full: with or without an explicit number, inside or outside a transaction, add_atom raises ValueError exactly when
   the number is already an atom and nothing otherwise (C13_editable / C13_usable state the case n=None outside a transaction only). *)
From Coq Require Import ZArith List Bool Lia.
From Model Require Import PyBase Cache.
From Proofs Require Import CacheProofs CacheWf CacheCopy CacheCopyTotal CacheCoh CacheWorld CacheUnion CacheTheorems CacheUsable.
Import ListNotations.
Open Scope Z_scope.

Lemma add_atom_fresh_total c (n : option Z) n' h o : inv1 h o -> ~ In n' (keys (o_atoms o)) ->
  exists h' o', (put_atom c n' ;; flush false false ;; mark_changed [n'] ;; unless_transaction fix_structure) h o = (h', o', None).
Proof.
  intros I N.
  pose proof (put_atom_good c n' h o (conj I N)) as G. unfold put_atom, ok in G. cbn beta iota in G. destruct G as [[I1 Hn] _].
  unfold seq, put_atom, flush, ok. cbn beta iota.
  set (o1 := set_cache _ _). assert (inv1 h o1) as I1' by (eapply inv1_same; eauto).
  destruct (mark_changed_ok [n'] h o1) as [o2 E2]. rewrite E2.
  assert (inv1 h o2) as I2.
  { pose proof (mark_changed_good [n'] h o1) as G2. rewrite E2 in G2. destruct G2 as [I2 _]; [|exact I2].
    split; [exact I1'|]. intros x [<-|[]]. exact Hn. }
  unfold unless_transaction. destruct (o_backup o2); [unfold ok; eauto|].
  destruct (fix_structure_total h o2 I2) as [h3 [o3 [E3 _]]]. rewrite E3. eauto.
Qed.

Theorem add_atom_exact s c n : W s ->
  snd (step s (OAddAtom c n)) =
  match n with Some x => if zmem x (keys (o_atoms (s_cur s))) then Some ValueError else None | None => None end.
Proof.
  intros Ws. pose proof (W_cur s Ws) as [I _]. cbn [step]. unfold lift, add_atom. cbv zeta. destruct n as [x|].
  - destruct (zmem x (keys (o_atoms (s_cur s)))) eqn:E; [reflexivity|]. apply zmem_false_notin in E.
    destruct (add_atom_fresh_total c (Some x) x _ _ I E) as [h' [o' Eq]]. rewrite Eq. reflexivity.
  - assert (~ In (zmax (keys (o_atoms (s_cur s))) 0 + 1) (keys (o_atoms (s_cur s)))) as N.
    { intros Hi. apply (zmax_ge _ 0) in Hi. lia. }
    destruct (add_atom_fresh_total c None _ _ _ I N) as [h' [o' Eq]]. rewrite Eq. reflexivity.
Qed.

Example add_atom_exact_example :
  let s := init [(1, mkCore 6 None 0 false); (2, mkCore 8 None 0 false)] [(1, [(2, 1)]); (2, [(1, 1)])] [] [] in
  snd (step s (OAddAtom (mkCore 7 None 0 false) (Some 2))) = Some ValueError /\
  snd (step s (OAddAtom (mkCore 7 None 0 false) (Some 7))) = None /\
  snd (step (fst (step s OEnter)) (OAddAtom (mkCore 7 None 0 false) None)) = None /\
  o_changed (s_cur (fst (step (fst (step s OEnter)) (OAddAtom (mkCore 7 None 0 false) None)))) = Some [3].
Proof. vm_compute. repeat split; reflexivity. Qed.

(* ---- the other three mutators: which exception, exactly, in every state satisfying W (inside and outside a transaction) *)
From Proofs Require Import CacheUsable2 CacheOpsTie.
Definition bonded (o : mobj) (n m : Z) : bool := match slot_of o m n with Some _ => true | None => false end.
Theorem add_bond_exact s n m ord : W s ->
  snd (step s (OAddBond n m ord)) =
  if negb (valid_order ord) then Some ValueError
  else if n =? m then Some ValueError
  else if negb (zmem n (keys (o_atoms (s_cur s)))) || negb (zmem m (keys (o_atoms (s_cur s)))) then Some KeyError
  else if bonded (s_cur s) n m then Some ValueError else None.
Proof.
  intros Ws. pose proof (W_cur s Ws) as [I _]. pose proof I as [Wf _]. pose proof (wf_keys _ _ _ Wf) as Wk.
  destruct (valid_order ord) eqn:V; cbn [negb]; [|cbn [step]; unfold lift, add_bond; rewrite V; reflexivity].
  destruct (Z.eqb_spec n m) as [->|D]; [cbn [step]; unfold lift, add_bond; rewrite V, Z.eqb_refl; reflexivity|].
  rewrite <- Wk, !zmem_keys_zget. unfold bonded, slot_of, row.
  destruct (zget (o_adj (s_cur s)) n) as [rn|] eqn:Hn; destruct (zget (o_adj (s_cur s)) m) as [rm|] eqn:Hm; cbn [negb orb];
    try (cbn [step]; unfold lift, add_bond; rewrite V, Hn, ?Hm; cbn [negb]; destruct (Z.eqb_spec n m); [contradiction | reflexivity]).
  destruct (zget rm n) as [rf|] eqn:Hs.
  - cbn [step]. unfold lift, add_bond. rewrite V, Hn, Hm. cbn [negb]. destruct (Z.eqb_spec n m); [contradiction|].
    rewrite zmem_keys_zget, Hs. reflexivity.
  - assert (In n (keys (o_atoms (s_cur s)))) as In1 by (rewrite <- Wk; eapply zget_In_keys; eauto).
    assert (In m (keys (o_atoms (s_cur s)))) as In2 by (rewrite <- Wk; eapply zget_In_keys; eauto).
    assert (aslot (o_adj (s_cur s)) m n = None) as Nb by (unfold aslot; rewrite Hm; exact Hs).
    destruct (add_bond_total n m ord _ _ I V D In1 In2 Nb) as [h' [o' E]]. cbn [step]. unfold lift. rewrite E. reflexivity.
Qed.
Theorem delete_atom_exact s n : W s ->
  snd (step s (ODelAtom n)) = if zmem n (keys (o_atoms (s_cur s))) then None else Some KeyError.
Proof.
  intros Ws. pose proof (W_cur s Ws) as [I _]. pose proof I as [Wf _]. pose proof (wf_keys _ _ _ Wf) as Wk.
  destruct (zmem n (keys (o_atoms (s_cur s)))) eqn:E.
  - apply zmem_In in E. destruct (delete_atom_total n _ _ I E) as [h' [o' Eq]]. cbn [step]. unfold lift. rewrite Eq. reflexivity.
  - rewrite zmem_keys_zget in E. cbn [step]. unfold lift, delete_atom. destruct (zget (o_atoms (s_cur s)) n); [discriminate|]. reflexivity.
Qed.
Theorem delete_bond_exact s n m : W s ->
  snd (step s (ODelBond n m)) = match slot_of (s_cur s) n m with Some _ => None | None => Some KeyError end.
Proof.
  intros Ws. pose proof (W_cur s Ws) as [I _]. rewrite slot_of_aslot. destruct (aslot (o_adj (s_cur s)) n m) as [rf|] eqn:E.
  - assert (aslot (o_adj (s_cur s)) n m <> None) as Ne by congruence.
    destruct (delete_bond_total n m _ _ I Ne) as [h' [o' Eq]]. cbn [step]. unfold lift. rewrite Eq. reflexivity.
  - cbn [step]. unfold lift, delete_bond. unfold aslot in E. destruct (zget (o_adj (s_cur s)) n) as [rn|]; [|reflexivity].
    rewrite E. reflexivity.
Qed.
Example mutators_exact_example :
  let s := init [(1, mkCore 6 None 0 false); (2, mkCore 8 None 0 false); (3, mkCore 6 None 0 false)] [(1, [(2, 1)]); (2, [(1, 1)]); (3, [])] [] [] in
  map (fun p => snd (step s p)) [OAddBond 1 3 1; OAddBond 1 2 1; OAddBond 1 1 1; OAddBond 1 9 1; OAddBond 1 3 5;
                                 ODelAtom 3; ODelAtom 9; ODelBond 1 2; ODelBond 1 3]
  = [None; Some ValueError; Some ValueError; Some KeyError; Some ValueError; None; Some KeyError; None; Some KeyError].
Proof. vm_compute. reflexivity. Qed.
