(* C04 extension 3 -- Standardize.implicify_hydrogens (Model.ValenceArom.implicify) is sound for the valence rules:
   on a well-formed molecule it removes hydrogen atoms only, leaves every other atom in place, and every hydrogen count it
   stores is accepted by check_implicit in the RESULT molecule (atoms without aromatic bonds), with room for the removed
   hydrogens.  Sections A-G. *)
From Coq Require Import ZArith List String Bool Lia Permutation.
From Model Require Import PyBase Graph PeriodicTable Valence ValenceArom.
From Gen Require Import Elements.
From Proofs Require Import ValenceProofs ValenceExt.
Import ListNotations.
Open Scope Z_scope.


(* ---- A. one atom: what try_remove returns ---- *)
Lemma first_rule_ge_spec rs d i h : first_rule_ge rs d i = Some h -> some_rule rs d h = true /\ i <= h.
Proof.
  unfold some_rule. induction rs as [|r rest IH]; cbn [first_rule_ge existsb]; [discriminate|].
  destruct (rule_matches r d && (i <=? r_h r)) eqn:E.
  - intros H. inversion H. subst. apply andb_prop in E. destruct E as [M L]. rewrite M, Z.eqb_refl. split; [reflexivity | apply Z.leb_le; exact L].
  - intros H. destruct (IH H) as [S L]. rewrite S. split; [apply orb_true_r | exact L].
Qed.

Lemma try_remove_spec g a nb hs : forall i h hi, try_remove g a nb hs i = Ok (Some (h, hi)) ->
  exists j sum d rules, (1 <= j <= i)%nat /\ hi = firstn j hs /\ scan_rest g hi nb 0 [] = Ok (sum, d) /\
    lookup_rules (rules_of_atom a) (a_chg a) (a_rad a) sum = Ok rules /\ some_rule rules d h = true /\ Z.of_nat j <= h.
Proof.
  induction i as [|i IH]; intros h hi; cbn [try_remove]; [discriminate|].
  destruct (scan_rest g (firstn (S i) hs) nb 0 []) as [[sum d]|] eqn:Sc; [|discriminate].
  destruct (lookup_rules (rules_of_atom a) (a_chg a) (a_rad a) sum) as [rules|e] eqn:L; [|destruct e; discriminate].
  destruct (first_rule_ge rules d (Z.of_nat (S i))) as [h'|] eqn:F.
  - intros H. inversion H. subst h' hi. destruct (first_rule_ge_spec _ _ _ _ F) as [A B].
    exists (S i), sum, d, rules. repeat split; try assumption; lia.
  - intros H. destruct (IH _ _ H) as [j [s' [d' [r' [J R]]]]]. exists j, s', d', r'. split; [lia | exact R].
Qed.

(* ---- B. all atoms ---- *)
Definition decided (g : mol) (n : Z) (hs : list Z) (h : Z) (hi : list Z) : Prop :=
  exists a nb, atom_of g n = Some a /\ zget (m_adj g) n = Some nb /\ try_remove g a nb hs (List.length hs) = Ok (Some (h, hi)).

Lemma decide_all_spec g ex : forall rem0 fixed0 rem fixed, decide_all g ex rem0 fixed0 = Ok (rem, fixed) ->
  (forall k, In k rem0 -> In k rem) /\
  forall n h, In (n, h) fixed -> In (n, h) fixed0 \/
    exists hs hi, In (n, hs) ex /\ decided g n hs h hi /\ forall k, In k hi -> In k rem.
Proof.
  induction ex as [|[n0 hs0] r IH]; intros rem0 fixed0 rem fixed; cbn [decide_all].
  - intros H. inversion H. subst. split; [auto|]. intros n h Hin. left. exact Hin.
  - destruct (atom_of g n0) as [a|] eqn:Ea; [|discriminate]. destruct (zget (m_adj g) n0) as [nb|] eqn:En; [|discriminate].
    destruct (try_remove g a nb hs0 (List.length hs0)) as [[[h0 hi0]|]|] eqn:T; [| |discriminate].
    + intros H. destruct (IH _ _ _ _ H) as [R F]. split.
      * intros k Hk. apply R. apply in_or_app. left. exact Hk.
      * intros n h Hin. destruct (F n h Hin) as [Hf | [hs [hi [Hex Rest]]]].
        -- apply in_app_or in Hf. destruct Hf as [Hf | [Hf | []]]; [left; exact Hf|]. inversion Hf. subst n0 h0. right.
           exists hs0, hi0. split; [left; reflexivity|]. split; [exists a, nb; auto|].
           intros k Hk. apply R. apply in_or_app. right. exact Hk.
        -- right. exists hs, hi. split; [right; exact Hex | exact Rest].
    + intros H. destruct (IH _ _ _ _ H) as [R F]. split; [exact R|].
      intros n h Hin. destruct (F n h Hin) as [Hf | [hs [hi [Hex Rest]]]]; [left; exact Hf|].
      right. exists hs, hi. split; [right; exact Hex | exact Rest].
Qed.


(* ---- C. the molecule implicify builds ---- *)
Definition kept (rem : list Z) {V} (kv : Z * V) : bool := negb (zmem (fst kv) rem).
Definition impl_result (g : mol) (rem : list Z) (fixed : list (Z * Z)) : mol :=
  mkMol (map (fun na => match zget fixed (fst na) with
                        | Some h => (fst na, mkAtom (a_num (snd na)) (a_iso (snd na)) (a_chg (snd na)) (a_rad (snd na)) (Some h) (a_stereo (snd na)))
                        | None => na
                        end) (filter (fun na => negb (zmem (fst na) rem)) (m_atoms g)))
        (map (fun nl => (fst nl, filter (fun mb => negb (zmem (fst mb) rem)) (snd nl)))
             (filter (fun nl => negb (zmem (fst nl) rem)) (m_adj g))).

Lemma implicify_spec g g' : implicify g = Ok g' ->
  exists ex rem fixed, collect_explicit g (m_atoms g) [] = Ok ex /\ decide_all g ex [] [] = Ok (rem, fixed) /\ g' = impl_result g rem fixed.
Proof.
  unfold implicify. destruct (collect_explicit g (m_atoms g) []) as [ex|] eqn:C; [|discriminate].
  destruct (decide_all g ex [] []) as [[rem fixed]|] eqn:D; [|discriminate].
  intros H. inversion H. exists ex, rem, fixed. auto.
Qed.

Definition fix_h (fixed : list (Z * Z)) (k : Z) (a : atom) : atom :=
  match zget fixed k with Some h => with_h a (Some h) | None => a end.

Lemma atom_of_result g rem fixed k : zmem k rem = false ->
  atom_of (impl_result g rem fixed) k = option_map (fix_h fixed k) (atom_of g k).
Proof.
  intros K. unfold atom_of, impl_result. cbn [m_atoms]. induction (m_atoms g) as [|[k0 a0] r IH]; [reflexivity|].
  cbn [filter fst zget]. destruct (k =? k0) eqn:E.
  - apply Z.eqb_eq in E. subst k0. rewrite K. cbn [negb map fst snd]. unfold fix_h.
    destruct (zget fixed k); cbn [zget fst snd]; rewrite Z.eqb_refl; reflexivity.
  - destruct (negb (zmem k0 rem)); [|exact IH]. cbn [map fst snd].
    destruct (zget fixed k0); cbn [zget fst]; rewrite E; exact IH.
Qed.

Lemma adj_of_result g rem fixed n : zmem n rem = false ->
  zget (m_adj (impl_result g rem fixed)) n = option_map (filter (fun mb => negb (zmem (fst mb) rem))) (zget (m_adj g) n).
Proof.
  intros K. unfold impl_result. cbn [m_adj]. induction (m_adj g) as [|[k0 l0] r IH]; [reflexivity|].
  cbn [filter fst zget]. destruct (n =? k0) eqn:E.
  - apply Z.eqb_eq in E. subst k0. rewrite K. cbn [negb map fst snd zget]. rewrite Z.eqb_refl. reflexivity.
  - destruct (negb (zmem k0 rem)); [|exact IH]. cbn [map fst snd zget]. rewrite E. exact IH.
Qed.

Lemma fix_h_core fixed k a : a_num (fix_h fixed k a) = a_num a /\ a_chg (fix_h fixed k a) = a_chg a /\ a_rad (fix_h fixed k a) = a_rad a.
Proof. unfold fix_h. destruct (zget fixed k); repeat split; reflexivity. Qed.

(* ---- D. the bonds implicify counted are the bonds check_implicit sees in the result ---- *)
Lemma scan_rest_check g g' hi rem nb :
  (forall m, zmem m rem = false -> option_map a_num (atom_of g' m) = option_map a_num (atom_of g m)) ->
  (forall mb, In mb nb -> b_ord (snd mb) <> 4) ->
  (forall mb, In mb nb -> zmem (fst mb) rem = true -> zmem (fst mb) hi = true \/ b_ord (snd mb) = 8) ->
  (forall m, zmem m hi = true -> zmem m rem = true) ->
  forall sum d sum' d', scan_rest g hi nb sum d = Ok (sum', d') ->
  scan_check (nview_of g' (filter (fun mb => negb (zmem (fst mb) rem)) nb)) sum d = SDone sum' d' 0.
Proof.
  intros Hat. induction nb as [|[m b] r IH]; intros H4 Hc Hsub sum d sum' d'.
  - cbn. intros H. inversion H. reflexivity.
  - assert (H4r : forall mb, In mb r -> b_ord (snd mb) <> 4) by (intros mb Hin; apply H4; right; exact Hin).
    assert (Hcr : forall mb, In mb r -> zmem (fst mb) rem = true -> zmem (fst mb) hi = true \/ b_ord (snd mb) = 8)
      by (intros mb Hin; apply Hc; right; exact Hin).
    specialize (IH H4r Hcr Hsub). pose proof (H4 (m, b) (or_introl eq_refl)) as H4m. cbn [snd] in H4m.
    cbn [scan_rest filter fst]. destruct (zmem m rem) eqn:R; cbn [negb].
    + destruct (Hc (m, b) (or_introl eq_refl) R) as [Hi | H8]; cbn [fst snd] in *.
      * rewrite Hi. cbn [negb andb]. apply IH.
      * rewrite H8. cbn [Z.eqb Pos.eqb negb]. rewrite andb_false_r. apply IH.
    + assert (Hi : zmem m hi = false) by (destruct (zmem m hi) eqn:E; [rewrite (Hsub m E) in R; discriminate | reflexivity]).
      rewrite Hi. cbn [negb andb]. unfold nview_of. cbn [map fst snd scan_check]. fold (nview_of g' (filter (fun mb => negb (zmem (fst mb) rem)) r)).
      assert (E4 : (b_ord b =? 4) = false) by (apply Z.eqb_neq; exact H4m). rewrite E4.
      destruct (negb (b_ord b =? 8)); [|apply IH].
      rewrite (Hat m R). destruct (atom_of g m) as [am|]; [|discriminate]. cbn [option_map]. apply IH.
Qed.


(* ---- E. the stored count is accepted, given that the other removed hydrogens do not touch the atom ---- *)
Lemma stored_accepted_core g rem fixed n hs h hi a nb :
  atom_of g n = Some a -> zget (m_adj g) n = Some nb -> try_remove g a nb hs (List.length hs) = Ok (Some (h, hi)) ->
  zmem n rem = false -> (forall k, In k hi -> In k rem) -> a_num a <> 1 ->
  (forall mb, In mb nb -> b_ord (snd mb) <> 4) ->
  (forall mb, In mb nb -> zmem (fst mb) rem = true -> zmem (fst mb) hi = true \/ b_ord (snd mb) = 8) ->
  check_implicit (impl_result g rem fixed) n h = Ok true.
Proof.
  intros Ha Hn T Kn Hsub H1 H4 Hc.
  destruct (try_remove_spec _ _ _ _ _ _ _ T) as [j [sum [d [rules [_ [_ [Sc [L [Sr _]]]]]]]]].
  unfold check_implicit. rewrite (atom_of_result _ _ _ _ Kn), Ha. cbn [option_map].
  destruct (fix_h_core fixed n a) as [En [Ec Er]]. rewrite En, Ec, Er.
  apply Z.eqb_neq in H1. rewrite H1. rewrite (adj_of_result _ _ _ _ Kn), Hn. cbn [option_map].
  unfold check_atom. rewrite H1.
  assert (Hat : forall m, zmem m rem = false ->
                option_map a_num (atom_of (impl_result g rem fixed) m) = option_map a_num (atom_of g m)).
  { intros m Km. rewrite (atom_of_result _ _ _ _ Km). destruct (atom_of g m) as [am|]; [|reflexivity]. cbn [option_map].
    rewrite (proj1 (fix_h_core fixed m am)). reflexivity. }
  assert (Hs : forall m, zmem m hi = true -> zmem m rem = true).
  { intros m Hm. apply zmem_In. apply Hsub. apply zmem_In. exact Hm. }
  rewrite (scan_rest_check g _ hi rem nb Hat H4 Hc Hs _ _ _ _ Sc).
  assert (R : rules_of_atom (fix_h fixed n a) = rules_of_atom a) by (unfold rules_of_atom; rewrite En; reflexivity).
  rewrite R, L, Sr. reflexivity.
Qed.


(* ---- F. on a well-formed molecule the removed hydrogens of other atoms never touch the atom ---- *)
Lemma nodup_z_nodup l : nodup_z l = true -> NoDup l.
Proof.
  induction l as [|x r IH]; cbn [nodup_z]; [constructor|]. intros H. apply andb_prop in H. destruct H as [A B].
  constructor; [|apply IH; exact B]. intros Hin. apply zmem_In in Hin. rewrite Hin in A. discriminate.
Qed.

Definition non8b (mb : Z * bond) : bool := negb (b_ord (snd mb) =? 8).

(* what is known of every recorded hydrogen k of heavy atom p *)
Definition h_of (g : mol) (p k : Z) : Prop :=
  exists ak nbk b, atom_of g k = Some ak /\ a_num ak = 1 /\ zget (m_adj g) k = Some nbk /\
    (List.length (filter non8b nbk) <= 1)%nat /\ In (p, b) nbk /\ b_ord b = 1.
Definition ex_inv (g : mol) (ex : list (Z * list Z)) : Prop :=
  NoDup (keys ex) /\
  forall p hs, In (p, hs) ex -> (exists ap, atom_of g p = Some ap /\ a_num ap <> 1) /\ forall k, In k hs -> h_of g p k.

Lemma keys_lappend ex m n : keys (lappend ex m n) = if zmem m (keys ex) then keys ex else keys ex ++ [m].
Proof.
  unfold keys. induction ex as [|[k l] r IH]; [reflexivity|]. cbn [lappend map fst zmem existsb].
  destruct (m =? k) eqn:E; cbn [map fst orb]; [reflexivity|]. rewrite IH. fold (zmem m (map fst r)).
  destruct (zmem m (map fst r)); reflexivity.
Qed.

Lemma In_lappend ex m n p hs : In (p, hs) (lappend ex m n) ->
  In (p, hs) ex \/ (p = m /\ forall k, In k hs -> k = n \/ exists hs0, In (m, hs0) ex /\ In k hs0).
Proof.
  induction ex as [|[k l] r IH]; cbn [lappend].
  - intros [H | []]. inversion H. subst. right. split; [reflexivity|]. intros k [Hk | []]. left. auto.
  - destruct (m =? k) eqn:E.
    + apply Z.eqb_eq in E. subst k. intros [H | H].
      * inversion H. subst. right. split; [reflexivity|]. intros k Hk. apply in_app_or in Hk.
        destruct Hk as [Hk | [Hk | []]]; [right; exists l; split; [left; reflexivity | exact Hk] | left; auto].
      * left. right. exact H.
    + intros [H | H]; [left; left; exact H|]. destruct (IH H) as [A | [A B]]; [left; right; exact A|].
      right. split; [exact A|]. intros k0 Hk. destruct (B k0 Hk) as [C | [hs0 [C D]]]; [left; exact C|].
      right. exists hs0. split; [right; exact C | exact D].
Qed.

Lemma ex_inv_lappend g ex m n am : ex_inv g ex -> atom_of g m = Some am -> a_num am <> 1 -> h_of g m n -> ex_inv g (lappend ex m n).
Proof.
  intros [ND Inv] Ham Hnum Hh. split.
  - rewrite keys_lappend. destruct (zmem m (keys ex)) eqn:E; [exact ND|].
    apply nodup_app; [exact ND | constructor; [intros [] | constructor]|].
    intros x H1 [H2 | []]. subst x. apply zmem_In in H1. congruence.
  - intros p hs Hin. destruct (In_lappend _ _ _ _ _ Hin) as [A | [A B]]; [apply Inv; exact A|]. subst p. split.
    + exists am. auto.
    + intros k Hk. destruct (B k Hk) as [C | [hs0 [C D]]]; [subst k; exact Hh|]. exact (proj2 (Inv m hs0 C) k D).
Qed.

Lemma h_bonds_inv g n an nbk : atom_of g n = Some an -> a_num an = 1 -> zget (m_adj g) n = Some nbk ->
  (List.length (filter non8b nbk) <= 1)%nat ->
  forall nb ex ex', (forall mb, In mb nb -> In mb nbk) -> ex_inv g ex -> h_bonds g n nb ex = Ok ex' -> ex_inv g ex'.
Proof.
  intros Ha Hn Hz Hl. induction nb as [|[m b] r IH]; intros ex ex' Sub Inv; cbn [h_bonds].
  - intros H. inversion H. subst. exact Inv.
  - assert (Sr : forall mb, In mb r -> In mb nbk) by (intros mb Hin; apply Sub; right; exact Hin).
    destruct (b_ord b =? 1) eqn:E1.
    + destruct (atom_of g m) as [am|] eqn:Em; [|discriminate]. destruct (a_num am =? 1) eqn:Eh; [intros H; exact (IH ex ex' Sr Inv H)|].
      intros H. apply (IH _ ex' Sr) in H; [exact H|]. apply (ex_inv_lappend g ex m n am Inv Em); [apply Z.eqb_neq; exact Eh|].
      exists an, nbk, b. repeat split; try assumption; [apply Sub; left; reflexivity | apply Z.eqb_eq; exact E1].
    + destruct (negb (b_ord b =? 8)); [discriminate | intros H; exact (IH ex ex' Sr Inv H)].
Qed.

Lemma plain_h_num a : plain_h a = true -> a_num a = 1.
Proof. unfold plain_h. intros H. apply andb_prop in H. apply Z.eqb_eq. exact (proj1 H). Qed.

Lemma collect_explicit_inv g : NoDup (ids g) -> forall l ex ex', (forall na, In na l -> In na (m_atoms g)) -> ex_inv g ex ->
  collect_explicit g l ex = Ok ex' -> ex_inv g ex'.
Proof.
  intros ND. induction l as [|[n a] r IH]; intros ex ex' Sub Inv; cbn [collect_explicit].
  - intros H. inversion H. subst. exact Inv.
  - assert (Sr : forall na, In na r -> In na (m_atoms g)) by (intros na Hin; apply Sub; right; exact Hin).
    destruct (plain_h a) eqn:P; [|intros H; exact (IH ex ex' Sr Inv H)].
    destruct (zget (m_adj g) n) as [nb|] eqn:Z; [|discriminate].
    destruct (1 <? Z.of_nat (List.length (filter (fun mb => negb (b_ord (snd mb) =? 8)) nb))) eqn:C; [discriminate|].
    destruct (h_bonds g n nb ex) as [ex1|] eqn:Hb; [|discriminate]. intros H. apply (IH ex1 ex' Sr); [|exact H].
    apply (h_bonds_inv g n a nb) with (nb := nb) (ex := ex); try assumption.
    + apply In_zget_nodup; [exact ND | apply Sub; left; reflexivity].
    + apply plain_h_num. exact P.
    + apply Z.ltb_ge in C. unfold non8b. lia.
    + auto.
Qed.

Lemma filter_le1_unique {A} (f : A -> bool) l x y : (List.length (filter f l) <= 1)%nat ->
  In x l -> f x = true -> In y l -> f y = true -> x = y.
Proof.
  intros H Hx Fx Hy Fy. assert (Ix : In x (filter f l)) by (apply filter_In; auto). assert (Iy : In y (filter f l)) by (apply filter_In; auto).
  destruct (filter f l) as [|z [|w t]]; [destruct Ix | | cbn in H; lia].
  destruct Ix as [Ix | []], Iy as [Iy | []]. congruence.
Qed.

Lemma In_firstn {A} (x : A) l : forall j, In x (firstn j l) -> In x l.
Proof.
  induction l as [|y r IH]; intros j; destruct j as [|j]; cbn [firstn In]; try tauto.
  intros [H | H]; [left; exact H | right; exact (IH _ H)].
Qed.

Lemma nodup_keys_unique {V} (l : list (Z * V)) k v v' : NoDup (keys l) -> In (k, v) l -> In (k, v') l -> v = v'.
Proof. intros ND A B. pose proof (In_zget_nodup _ _ _ ND A). pose proof (In_zget_nodup _ _ _ ND B). congruence. Qed.

(* every removed atom is a hydrogen of some decided atom *)
Lemma decide_all_rem g ex : forall rem0 fixed0 rem fixed, decide_all g ex rem0 fixed0 = Ok (rem, fixed) ->
  forall k, In k rem -> In k rem0 \/ exists p hs h hi, In (p, hs) ex /\ decided g p hs h hi /\ In k hi.
Proof.
  induction ex as [|[n0 hs0] r IH]; intros rem0 fixed0 rem fixed; cbn [decide_all].
  - intros H. inversion H. subst. intros k Hk. left. exact Hk.
  - destruct (atom_of g n0) as [a|] eqn:Ea; [|discriminate]. destruct (zget (m_adj g) n0) as [nb|] eqn:En; [|discriminate].
    destruct (try_remove g a nb hs0 (List.length hs0)) as [[[h0 hi0]|]|] eqn:T; [| |discriminate].
    + intros H k Hk. destruct (IH _ _ _ _ H k Hk) as [A | [p [hs [h [hi [A B]]]]]].
      * apply in_app_or in A. destruct A as [A | A]; [left; exact A|]. right. exists n0, hs0, h0, hi0.
        split; [left; reflexivity|]. split; [exists a, nb; auto | exact A].
      * right. exists p, hs, h, hi. split; [right; exact A | exact B].
    + intros H k Hk. destruct (IH _ _ _ _ H k Hk) as [A | [p [hs [h [hi [A B]]]]]]; [left; exact A|].
      right. exists p, hs, h, hi. split; [right; exact A | exact B].
Qed.

Lemma decided_hi_sub g p hs h hi : decided g p hs h hi -> (forall k, In k hi -> In k hs) /\ Z.of_nat (List.length hi) <= h.
Proof.
  intros [a [nb [_ [_ T]]]]. destruct (try_remove_spec _ _ _ _ _ _ _ T) as [j [_ [_ [_ [J [E [_ [_ [_ L]]]]]]]]]. subst hi. split.
  - intros k. apply In_firstn.
  - rewrite firstn_length. lia.
Qed.
Lemma decided_fun g p hs h hi h' hi' : decided g p hs h hi -> decided g p hs h' hi' -> h = h' /\ hi = hi'.
Proof. intros [a [nb [A [B C]]]] [a' [nb' [A' [B' C']]]]. rewrite A in A'. rewrite B in B'. inversion A'. inversion B'. subst. rewrite C in C'. inversion C'. auto. Qed.

Lemma wf_bond_back g n nb m b : wf_mol g = true -> zget (m_adj g) n = Some nb -> In (m, b) nb ->
  exists b', In (n, b') (nbrs g m) /\ b_ord b' = b_ord b.
Proof.
  unfold wf_mol. intros W Z Hin. apply andb_prop in W. destruct W as [_ W]. apply zget_In in Z.
  pose proof (proj1 (forallb_forall _ _) W _ Z) as E. cbn [fst snd] in E. apply andb_prop in E. destruct E as [_ E].
  pose proof (proj1 (forallb_forall _ _) E _ Hin) as F. cbn [fst snd] in F. apply andb_prop in F. destruct F as [_ F].
  unfold bond_of in F. destruct (zget (nbrs g m) n) as [b'|] eqn:G; [|discriminate]. exists b'. split; [apply zget_In; exact G|].
  unfold bond_eqb in F. apply andb_prop in F. symmetry. apply Z.eqb_eq. exact (proj1 F).
Qed.

Lemma harmless g ex rem fixed n hs h hi nb : wf_mol g = true -> ex_inv g ex -> decide_all g ex [] [] = Ok (rem, fixed) ->
  In (n, hs) ex -> decided g n hs h hi -> zget (m_adj g) n = Some nb ->
  forall mb, In mb nb -> zmem (fst mb) rem = true -> zmem (fst mb) hi = true \/ b_ord (snd mb) = 8.
Proof.
  intros W [NDk Inv] D Hex Dec Z [m b] Hin Hr. cbn [fst snd] in *. apply zmem_In in Hr.
  destruct (decide_all_rem _ _ _ _ _ _ D m Hr) as [[] | [p [hsp [hp [hip [Hp [Decp Hm]]]]]]].
  destruct (Z.eq_dec (b_ord b) 8) as [E8 | E8]; [right; exact E8|]. left.
  destruct (proj2 (Inv p hsp Hp) m (proj1 (decided_hi_sub _ _ _ _ _ Decp) m Hm)) as [ak [nbk [b1 [Ak [Nk [Zk [Lk [Ik O1]]]]]]]].
  destruct (wf_bond_back g n nb m b W Z Hin) as [b' [Ib' Ob']]. unfold nbrs in Ib'. rewrite Zk in Ib'.
  assert (Eq : (n, b') = (p, b1)).
  { apply (filter_le1_unique non8b nbk); try assumption; unfold non8b; cbn [snd]; apply negb_true_iff; apply Z.eqb_neq; [rewrite Ob'; exact E8 | rewrite O1; discriminate]. }
  inversion Eq. subst p. rewrite (nodup_keys_unique _ _ _ _ NDk Hp Hex) in Decp.
  destruct (decided_fun _ _ _ _ _ _ _ Dec Decp) as [_ Eh]. subst hip. apply zmem_In. exact Hm.
Qed.


(* ---- G. implicify_hydrogens is sound for the valence rules ---- *)
Lemma wf_nodup g : wf_mol g = true -> NoDup (ids g).
Proof.
  unfold wf_mol. intros W. apply andb_prop in W. destruct W as [W _]. apply andb_prop in W. apply nodup_z_nodup. exact (proj2 W).
Qed.

Theorem implicify_sound g g' : wf_mol g = true -> implicify g = Ok g' ->
  exists rem fixed, g' = impl_result g rem fixed /\
    (* only hydrogen atoms are removed *)
    (forall k, In k rem -> exists ak, atom_of g k = Some ak /\ a_num ak = 1) /\
    (* every other atom stays, with a new hydrogen count exactly when it is in `fixed` *)
    (forall k a, zmem k rem = false -> atom_of g k = Some a -> atom_of g' k = Some (fix_h fixed k a)) /\
    (* an atom that gets a new count h: it is not a hydrogen, it stays, the hydrogens hi taken from it were bonded to it by
       single bonds, there is room for them (|hi| <= h: no hydrogen is lost), and - unless the atom has an aromatic bond - the
       stored count is a valence state of the atom in the RESULT: check_implicit accepts it *)
    (forall n h, zget fixed n = Some h ->
       exists a nb hi, atom_of g n = Some a /\ a_num a <> 1 /\ zmem n rem = false /\ zget (m_adj g) n = Some nb /\
         (forall k, In k hi -> In k rem /\ h_of g n k) /\ (1 <= List.length hi)%nat /\ Z.of_nat (List.length hi) <= h /\
         ((forall mb, In mb nb -> b_ord (snd mb) <> 4) -> check_implicit g' n h = Ok true)).
Proof.
  intros W H. destruct (implicify_spec _ _ H) as [ex [rem [fixed [C [D E]]]]]. exists rem, fixed. split; [exact E|].
  pose proof (wf_nodup g W) as ND.
  assert (Inv : ex_inv g ex).
  { apply (collect_explicit_inv g ND (m_atoms g) [] ex); [auto | split; [constructor | intros p hs []] | exact C]. }
  assert (RemH : forall k, In k rem -> exists p, h_of g p k).
  { intros k Hk. destruct (decide_all_rem _ _ _ _ _ _ D k Hk) as [[] | [p [hs [h [hi [Hp [Dec Hi]]]]]]].
    exists p. apply (proj2 (proj2 Inv p hs Hp)). apply (proj1 (decided_hi_sub _ _ _ _ _ Dec)). exact Hi. }
  split; [|split].
  - intros k Hk. destruct (RemH k Hk) as [p [ak [nbk [b [A [B _]]]]]]. exists ak. auto.
  - intros k a K A. subst g'. rewrite (atom_of_result _ _ _ _ K), A. reflexivity.
  - intros n h Z. apply zget_In in Z. destruct (proj2 (decide_all_spec _ _ _ _ _ _ D) n h Z) as [[] | [hs [hi [Hex [Dec Hsub]]]]].
    pose proof Dec as [a [nb [Ha [Hn T]]]]. destruct (proj1 (proj2 Inv n hs Hex)) as [ap [Hap Hnum]]. rewrite Ha in Hap. inversion Hap. subst ap.
    assert (Kn : zmem n rem = false).
    { destruct (zmem n rem) eqn:K; [|reflexivity]. apply zmem_In in K. destruct (RemH n K) as [p [ak [nbk [b [A [B _]]]]]]. rewrite Ha in A. inversion A. subst ak. contradiction. }
    destruct (decided_hi_sub _ _ _ _ _ Dec) as [Sub Le].
    destruct (try_remove_spec _ _ _ _ _ _ _ T) as [j [_ [_ [_ [J [Ehi _]]]]]].
    exists a, nb, hi. repeat split; try assumption.
    + apply Hsub. assumption.
    + apply (proj2 (proj2 Inv n hs Hex)). apply Sub. assumption.
    + subst hi. rewrite firstn_length. lia.
    + intros H4. subst g'. apply (stored_accepted_core g rem fixed n hs h hi a nb); try assumption.
      apply (harmless g ex rem fixed n hs h hi nb W Inv D Hex Dec Hn).
Qed.

(* (the restriction on aromatic bonds: implicify_hydrogens counts an aromatic bond as order 4 and asks the table, check_implicit
   refuses every atom with an aromatic bond - theorem check_env_aromatic; with the current tables no single aromatic bond + 1..3
   hydrogens finds a rule, but that is a fact of the tables, not of the algorithm) *)

(* non-vacuity: methanol written with all hydrogens explicit becomes methanol; PH5 written with explicit hydrogens keeps them
   (no count has room for them) *)
Definition methanol_explicit : mol :=
  mkMol [(1, mkAtom 6 None 0 false (Some 0) None); (2, mkAtom 8 None 0 false (Some 0) None);
         (3, mkAtom 1 None 0 false (Some 0) None); (4, mkAtom 1 None 0 false (Some 0) None); (5, mkAtom 1 None 0 false (Some 0) None);
         (6, mkAtom 1 None 0 false (Some 0) None)]
        [(1, [(2, mkBond 1 None); (3, mkBond 1 None); (4, mkBond 1 None); (5, mkBond 1 None)]); (2, [(1, mkBond 1 None); (6, mkBond 1 None)]);
         (3, [(1, mkBond 1 None)]); (4, [(1, mkBond 1 None)]); (5, [(1, mkBond 1 None)]); (6, [(2, mkBond 1 None)])].
Definition ph5_explicit : mol :=
  mkMol [(1, mkAtom 15 None 0 false (Some 0) None); (2, mkAtom 1 None 0 false (Some 0) None); (3, mkAtom 1 None 0 false (Some 0) None);
         (4, mkAtom 1 None 0 false (Some 0) None); (5, mkAtom 1 None 0 false (Some 0) None); (6, mkAtom 1 None 0 false (Some 0) None)]
        [(1, [(2, mkBond 1 None); (3, mkBond 1 None); (4, mkBond 1 None); (5, mkBond 1 None); (6, mkBond 1 None)]);
         (2, [(1, mkBond 1 None)]); (3, [(1, mkBond 1 None)]); (4, [(1, mkBond 1 None)]); (5, [(1, mkBond 1 None)]); (6, [(1, mkBond 1 None)])].
Example implicify_examples :
  wf_mol methanol_explicit = true /\ implicify methanol_explicit = Ok methanol /\
  wf_mol ph5_explicit = true /\ implicify ph5_explicit = Ok ph5_explicit.
Proof. vm_compute. repeat split; reflexivity. Qed.

(* ---- H. fix_structure leaves every recorded atom with the count calc_implicit gives it in the result ---- *)
Lemma option_eqb_refl_z (v : option Z) : option_eqb Z.eqb v v = true.
Proof. destruct v; cbn; [apply Z.eqb_refl | reflexivity]. Qed.

Theorem recalc_loop_fresh g ns g' : (forall k, In k ns -> In k (ids g)) -> recalc_loop g ns = Ok g' -> fresh_on g' ns = true.
Proof.
  intros Hin H. destruct (recalc_loop_spec _ _ _ H) as [S [I [Hok Hat]]]. unfold fresh_on. apply forallb_forall. intros k Hk.
  rewrite Hat. destruct (Hok k Hk) as [v Hv]. rewrite <- (proj1 (same_skel_calc _ _ k S)), Hv.
  pose proof (Hin k Hk) as Hi. unfold ids, keys in Hi. apply in_map_iff in Hi. destruct Hi as [[k0 a0] [E Hi0]]. cbn [fst] in E. subst k0.
  destruct (atom_of g k) as [a|] eqn:Ea.
  - rewrite (proj2 (zmem_In k ns) Hk). cbn [with_h a_h result_of]. apply option_eqb_refl_z.
  - exfalso. clear -Ea Hi0. unfold atom_of in Ea. induction (m_atoms g) as [|[k1 a1] r IH]; [destruct Hi0|].
    cbn [zget] in Ea. destruct (k =? k1) eqn:E; [discriminate|]. destruct Hi0 as [Hh | Hh]; [inversion Hh; subst; rewrite Z.eqb_refl in E; discriminate | exact (IH Hh Ea)].
Qed.

(* non-vacuity: C.C.C with the bonds 1-2 and 2-3 added and the counts still those of three methanes: recalculating {1, 2, 3}
   gives propane; recalculating only {1, 2} (a lost entry of the changed set) leaves atom 3 stale, and fresh_on sees it *)
Definition propane_stale : mol :=
  mkMol [(1, mkAtom 6 None 0 false (Some 4) None); (2, mkAtom 6 None 0 false (Some 4) None); (3, mkAtom 6 None 0 false (Some 4) None)]
        [(1, [(2, mkBond 1 None)]); (2, [(1, mkBond 1 None); (3, mkBond 1 None)]); (3, [(2, mkBond 1 None)])].
Example recalc_loop_fresh_example :
  (exists g', recalc_loop propane_stale [1; 2; 3] = Ok g' /\ map (fun na => a_h (snd na)) (m_atoms g') = [Some 3; Some 2; Some 3] /\
              fresh_on g' [1; 2; 3] = true /\ stored_ok g' = true) /\
  (exists g', recalc_loop propane_stale [1; 2] = Ok g' /\ fresh_on g' [1; 2] = true /\ fresh_on g' [1; 2; 3] = false /\ stored_ok g' = false).
Proof. split; eexists; vm_compute; repeat split; reflexivity. Qed.
