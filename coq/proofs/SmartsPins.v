(* C08 -- the branch order and the constants that the hand-written models of the comparison methods (Query.match_q, match_any,
   match_list, match_metal, match_tail, ring_step), of QueryBond.__eq__ (qbond_match), of QueryElement.from_symbol / from_atom
   (build_atom, from_atom) and of the label loop of calc_labels (label_step) follow, regenerated from the source on every run
   (tools/gen_smarts.py: the test of every if / elif in source order, as normalised source text).  A source edit that changes a
   test, its order, or a value assigned to `hybridization` stops the build here. *)
From Coq Require Import ZArith List String.
From Gen Require Import SmartsTables.
Import ListNotations.
Open Scope string_scope.

(* Query.match_q: element, charge, radical, isotope, then match_tail = neighbors, hybridization, ring_step, hydrogens, heteroatoms *)
Definition model_tail_tests : list string :=
  ["self.neighbors and other.neighbors not in self.neighbors"; "self.hybridization and other.hybridization not in self.hybridization";
   "self.ring_sizes"; "self.ring_sizes[0]"; "other.ring_sizes.isdisjoint(self.ring_sizes)"; "other.ring_sizes";
   "self.implicit_hydrogens and other.implicit_hydrogens not in self.implicit_hydrogens";
   "self.heteroatoms and other.heteroatoms not in self.heteroatoms"].
Definition model_head_q : list string :=
  ["not isinstance(other, Element)"; "self.atomic_number != other.atomic_number"; "self.charge != other.charge";
   "self.is_radical != other.is_radical"; "self.isotope and self.isotope != other.isotope"].
Definition model_head_any : list string := ["not isinstance(other, Element)"; "self.charge != other.charge"; "self.is_radical != other.is_radical"].
Definition model_head_list : list string :=
  ["not isinstance(other, Element)"; "other.atomic_number not in self.atomic_numbers"; "self.charge != other.charge";
   "self.is_radical != other.is_radical"].
Definition model_metal : list string :=
  ["not isinstance(other, Element)"; "other.is_forming_single_bonds or isinstance(other, GroupXVIII)";
   "self.neighbors and other.neighbors not in self.neighbors"; "self.hybridization and other.hybridization not in self.hybridization"].

(* the three extended classes share ONE tail, which is what Query.match_tail models once *)
Theorem eq_branches_pinned :
  eq_tests_QueryElement = (model_head_q ++ model_tail_tests)%list /\ eq_tests_AnyElement = (model_head_any ++ model_tail_tests)%list /\
  eq_tests_ListElement = (model_head_list ++ model_tail_tests)%list /\ eq_tests_AnyMetal = model_metal /\
  eq_tests_QueryBond = ["isinstance(other, Bond)"; "self.in_ring is not None"; "self.in_ring != other.in_ring";
                        "isinstance(other, QueryBond)"; "isinstance(other, int)"].
Proof. repeat split; reflexivity. Qed.

Theorem from_atom_pinned :
  from_symbol_tests = ["symbol == 'A'"; "symbol == 'M'"] /\
  from_atom_tests = ["not isinstance(atom, Element)"; "neighbors"; "hybridization"; "heteroatoms"; "ring_sizes";
                     "hydrogens and atom.implicit_hydrogens is not None"; "stereo"] /\
  from_atom_assigns = ["query._charge = atom.charge"; "query._heteroatoms = (atom.heteroatoms,)";
                       "query._hybridization = (atom.hybridization,)"; "query._implicit_hydrogens = (atom.implicit_hydrogens,)";
                       "query._is_radical = atom.is_radical"; "query._neighbors = (atom.neighbors,)";
                       "query._ring_sizes = tuple(sorted(atom.ring_sizes)) or (0,)"; "query._stereo = atom.stereo"].
Proof. repeat split; reflexivity. Qed.

(* Query.label_step: special bonds skipped first; aromatic; then (unless already aromatic) triple, double (1 -> 2, 2 -> 3);
   explicit hydrogen / heteroatom counts *)
Theorem calc_labels_pinned :
  calc_labels_tests = ["bond == 8"; "bond == 4"; "hybridization != 4"; "bond == 3"; "bond == 2"; "hybridization == 1";
                       "hybridization == 2"; "(a := atoms[m]) == H"; "a != C"] /\
  calc_labels_hyb_values = ["1"; "4"; "3"; "2"; "3"].
Proof. split; reflexivity. Qed.

(* SmartsFull.smarts_cx / atoms_loop_rad / stereo_of / bonds_loop: the input type test, the CX block test and index guard, the
   element dispatch (number, symbol, list), the mark-consuming condition (stereo_of: n <> m, both tables non-empty, can_double),
   the marked-towards-each-other test, the QueryBond construction with the flag passed as `stereo=` *)
Theorem smarts_fn_pinned :
  smarts_fn_tests =
    ["not isinstance(data, str)"; "cx and cx[0].startswith('|') and cx[0].endswith('|')"; "int(i) >= len(parsed['atoms'])";
     "isinstance(e, int)"; "isinstance(e, str)";
     "n != m and n in stereo_bonds and (m in stereo_bonds) and stereo_bonds[n] and stereo_bonds[m] and (b == 2 if isinstance(b, int) else 2 in (b if isinstance(b, list) else b.order))";
     "m not in stereo_bonds[n]"; "isinstance(b, (int, list))"] /\
  smarts_qb_calls = ["QueryBond(b, stereo=s1 == s2)"] /\ smarts_raises = ["IncorrectSmarts"; "TypeError"].
Proof. repeat split; reflexivity. Qed.
