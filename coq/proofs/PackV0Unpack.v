(* C10: unpack of a version 0 pack: for every molecule within the format limits, unpack of the bytes of the declarative
   version 0 layout (PackSpecV0.layout_v0) followed by anything returns the molecule. *)
From Coq Require Import ZArith List Bool Lia ZifyBool.
From Model Require Import PyBase Pack PackSpec PackSpecV0.
From Gen Require Import Elements.
From Proofs Require Import PackBits PackRoundtrip PackRoundtripGraph PackRoundtripMol PackLayout PackV0.
Import ListNotations.
Open Scope Z_scope.

(* the control flow of Pack.unpack for version 0 with the intermediate reads named *)
Lemma unpack_v0_eq data a b c atoms ac ctc bc adj ct os :
  getb data 0 = Some 0 -> getb data 1 = Some a -> getb data 2 = Some b -> getb data 3 = Some c ->
  u16 (Z.lor (Z.shiftl a 4) (Z.shiftr b 4)) = ac ->
  u16 (Z.lor (Z.shiftl (Z.land b 15) 8) c) = ctc ->
  read_atoms data (Z.to_nat ac) 4 = Some atoms ->
  u16 (fold_left (fun acc x => u16 (acc + ua_ngb x)) atoms 0) / 2 = bc ->
  let oc := 2 * (bc / 5 + (if bc mod 5 =? 0 then 0 else 1)) in
  (if bc =? 0 then Ok (fold_left (fun d x => dict_set d (ua_n x) []) atoms [])
   else match read_conns data (Z.to_nat bc) (4 + 9 * ac), slice data (4 + 9 * ac + 3 * bc) (Z.to_nat oc) with
        | Some conns, Some obytes =>
            match read_orders_v0 obytes with
            | Some os' => if list_eqb Z.eqb os' os then build_adj atoms conns os [] (fold_left (fun d x => dict_set d (ua_n x) []) atoms [])
                          else Err IndexError
            | None => Err IndexError
            end
        | _, _ => Err IndexError
        end) = Ok adj ->
  read_ct data (Z.to_nat ctc) (oc + (4 + 9 * ac + 3 * bc)) = Some ct ->
  unpack data = Ok (mkUnpacked atoms adj ct (oc + (4 + 9 * ac + 3 * bc) + 4 * ctc)).
Proof.
  intros G0 G1 G2 G3 Hac Hctc Hat Hbc oc Hadj Hct.
  unfold unpack. rewrite G0, G1, G2, G3. cbv zeta. rewrite Hac, Hctc, Hat, Hbc.
  change (0 =? 2) with false. cbv iota. fold oc.
  destruct (bc =? 0).
  - injection Hadj as Hadj. rewrite Hadj, Hct. reflexivity.
  - destruct (read_conns data (Z.to_nat bc) (4 + 9 * ac)) as [conns|]; [|discriminate].
    destruct (slice data (4 + 9 * ac + 3 * bc) (Z.to_nat oc)) as [obytes|]; [|discriminate].
    destruct (read_orders_v0 obytes) as [os'|]; [|discriminate].
    destruct (list_eqb Z.eqb os' os) eqn:E; [|discriminate]. apply list_eqb_Z_eq in E. subst os'.
    rewrite Hadj, Hct. reflexivity.
Qed.

Lemma list_eqb_Z_refl (l : list Z) : list_eqb Z.eqb l l = true.
Proof. induction l as [|x l IH]; [reflexivity|]. cbn [list_eqb]. rewrite Z.eqb_refl, IH. reflexivity. Qed.

(* ------------------------------------------------------------------------------------------------ *)
(* groups of five *)

Lemma groups5_spec : forall os, Forall ord_ok os ->
  Forall v0_group_ok (groups5 os) /\
  (exists junk, flat_map v0_group_orders (groups5 os) = os ++ junk) /\
  Z.of_nat (length (groups5 os)) = Z.of_nat (length os) / 5 + (if Z.of_nat (length os) mod 5 =? 0 then 0 else 1).
Proof.
  fix IH 1. intros os H.
  destruct os as [|a [|b [|c [|d [|e r]]]]].
  - repeat split; [constructor | exists []; reflexivity].
  - inversion H as [|? ? Ha _]; subst. unfold ord_ok in *.
    repeat split; [repeat constructor; lia | exists [0; 0; 0; 0]; reflexivity].
  - inversion H as [|? ? Ha H1]; subst. inversion H1 as [|? ? Hb _]; subst. unfold ord_ok in *.
    repeat split; [repeat constructor; lia | exists [0; 0; 0]; reflexivity].
  - inversion H as [|? ? Ha H1]; subst. inversion H1 as [|? ? Hb H2]; subst. inversion H2 as [|? ? Hc _]; subst. unfold ord_ok in *.
    repeat split; [repeat constructor; lia | exists [0; 0]; reflexivity].
  - inversion H as [|? ? Ha H1]; subst. inversion H1 as [|? ? Hb H2]; subst. inversion H2 as [|? ? Hc H3]; subst.
    inversion H3 as [|? ? Hd _]; subst. unfold ord_ok in *.
    repeat split; [repeat constructor; lia | exists [0]; reflexivity].
  - inversion H as [|? ? Ha H1]; subst. inversion H1 as [|? ? Hb H2]; subst. inversion H2 as [|? ? Hc H3]; subst.
    inversion H3 as [|? ? Hd H4]; subst. inversion H4 as [|? ? He H5]; subst.
    destruct (IH r H5) as [I1 [[junk I2] I3]].
    change (groups5 (a :: b :: c :: d :: e :: r)) with ((a, b, c, d, e) :: groups5 r).
    split; [constructor; [unfold ord_ok in *; cbn; repeat split; lia | exact I1]|]. split.
    + exists junk. cbn [flat_map v0_group_orders app]. rewrite I2. reflexivity.
    + cbn [length]. rewrite !Nat2Z.inj_succ. rewrite I3.
      replace (Z.succ (Z.succ (Z.succ (Z.succ (Z.succ (Z.of_nat (length r))))))) with (Z.of_nat (length r) + 1 * 5) by lia.
      rewrite Z.div_add, Z.mod_add by lia. lia.
Qed.

Definition v0_order_bytes (os : list Z) : list Z := flat_map v0_group_bytes (groups5 os).

Lemma v0_group_bytes_length g : v0_group_ok g -> length (v0_group_bytes g) = 2%nat.
Proof.
  destruct g as [[[[a b] c] d] e]. intros [Ha [Hb [Hc [Hd He]]]]. pose proof (v0_group a b c d e Ha Hb Hc Hd He) as K.
  unfold v0_chk in K. unfold v0_group_bytes.
  destruct (bytes_of_bits (v0_group_bits a b c d e)) as [|x [|y [|? ?]]]; try discriminate. reflexivity.
Qed.

Lemma v0_order_bytes_length gs : Forall v0_group_ok gs -> Z.of_nat (length (flat_map v0_group_bytes gs)) = 2 * Z.of_nat (length gs).
Proof.
  induction 1 as [|g r Hg Hr IH]; [reflexivity|]. cbn [flat_map length]. rewrite app_length, v0_group_bytes_length by exact Hg.
  rewrite Nat2Z.inj_add, IH. lia.
Qed.

(* the version 0 order bits are byte aligned groups: their bytes are the group bytes *)
Lemma v0_order_bits_bytes os :
  aligned (v0_order_bits os) /\ bytes_of_bits (v0_order_bits os) = v0_order_bytes os.
Proof.
  unfold v0_order_bits, v0_order_bytes. apply bob_flat_map. intros [[[[a b] c] d] e] _. split; [|reflexivity].
  apply (aligned_len _ 2). reflexivity.
Qed.

(* header with version byte 0 *)
Lemma header0_bits_bytes ac ct : 0 <= ac < 4096 -> 0 <= ct < 4096 ->
  aligned (bits_of 8 0 ++ bits_of 12 ac ++ bits_of 12 ct) /\
  bytes_of_bits (bits_of 8 0 ++ bits_of 12 ac ++ bits_of 12 ct) =
  [0; u8 (Z.shiftr ac 4); u8 (Z.lor (Z.shiftl ac 4) (Z.shiftr ct 8)); u8 ct].
Proof.
  intros H1 H2. split; [apply (aligned_len _ 4); rewrite !app_length, !bits_of_length; reflexivity|].
  rewrite bob_app by (apply (aligned_len _ 1); apply bits_of_length).
  rewrite byte_bits by lia. rewrite pair_bits by assumption. reflexivity.
Qed.

(* ------------------------------------------------------------------------------------------------ *)

Definition pack_layout_v0 (m : pmol) : list Z :=
  let atoms := pm_atoms m in
  let f := mol_fwd [] atoms in
  (0 :: tl (header_bytes (Z.of_nat (length atoms)) (pm_ct_count m))) ++ atoms_block atoms ++ conn_bytes (mol_conns atoms) ++
  v0_order_bytes (fwd_orders f) ++ flat_map ct_record (fwd_ct (pm_terminals m) f).

Lemma layout_v0_blocks m : pack_ok m = true -> bytes_of_bits (layout_v0 m) = pack_layout_v0 m.
Proof.
  intros H. pose proof (pack_ok_graph_wf m H) as W. pose proof (wf_atoms_count _ W) as Hcnt.
  destruct (pack_ok_ct m H) as [_ [Hctr Hrecs]]. cbv zeta in Hrecs.
  assert (Hatoms : forallb atom_ok (pm_atoms m) = true) by (unfold pack_ok in H; cbv zeta in H; split_andb; assumption).
  destruct (header0_bits_bytes (Z.of_nat (length (pm_atoms m))) (pm_ct_count m) ltac:(lia) Hctr) as [Ah Bh].
  destruct (atoms_bits_bytes (pm_atoms m) Hatoms) as [Aa Ba].
  destruct (conns_bits_bytes (mol_conns (pm_atoms m)) (wf_conns_num _ W) (wf_conns_even _ W)) as [Ac Bc].
  destruct (v0_order_bits_bytes (fwd_orders (mol_fwd [] (pm_atoms m)))) as [Ao Bo].
  destruct (bob_flat_map ct_bits ct_record (fwd_ct (pm_terminals m) (mol_fwd [] (pm_atoms m)))) as [_ Bt].
  { intros t Ht. apply ct_bits_bytes. rewrite Forall_forall in Hrecs. apply Hrecs. exact Ht. }
  unfold layout_v0, pack_layout_v0. cbv zeta.
  rewrite (app3_assoc (bits_of 8 0)).
  rewrite bob_app by exact Ah. rewrite Bh. rewrite bob_app by exact Aa. rewrite Ba.
  rewrite bob_app by exact Ac. rewrite Bc. rewrite bob_app by exact Ao. rewrite Bo, Bt.
  rewrite <- (conn_bytes_layout _ (wf_conns_num _ W) (wf_conns_even _ W)). reflexivity.
Qed.

Theorem unpack_layout_v0_blocks m suf : pack_ok m = true ->
  unpack (pack_layout_v0 m ++ suf) = Ok (unpacked_of m (Z.of_nat (length (pack_layout_v0 m)))).
Proof.
  intros H. pose proof (pack_ok_graph_wf m H) as W.
  pose proof (wf_atoms_count _ W) as Hcnt.
  destruct (pack_ok_ct m H) as [Hct [Hctr Hrecs]]. cbv zeta in Hct, Hrecs.
  assert (Hatoms : forallb atom_ok (pm_atoms m) = true) by (unfold pack_ok in H; cbv zeta in H; split_andb; assumption).
  set (atoms := pm_atoms m) in *. set (f := mol_fwd [] atoms) in *. set (k := Z.of_nat (length f)) in *.
  set (ac := Z.of_nat (length atoms)) in *.
  assert (Hconns : length (mol_conns atoms) = (2 * length f)%nat) by apply (conns_twice_fwd _ W).
  destruct (header_roundtrip ac (pm_ct_count m)) as [a [b [c [Hh [Hac [Hctc _]]]]]]; [unfold num_ok; lia | unfold num_ok; lia|].
  destruct (groups5_spec (fwd_orders f) (wf_fwd_orders _ W [])) as [Gok [[junk Gj] Gl]].
  assert (Lf : Z.of_nat (length (fwd_orders f)) = k) by (unfold fwd_orders; rewrite map_length; reflexivity).
  rewrite Lf in Gl.
  set (oc := 2 * (k / 5 + (if k mod 5 =? 0 then 0 else 1))).
  unfold unpacked_of. fold atoms f.
  unfold pack_layout_v0. cbv zeta. fold atoms f ac. rewrite Hh. cbn [tl].
  set (A := atoms_block atoms). set (C := conn_bytes (mol_conns atoms)). set (O := v0_order_bytes (fwd_orders f)).
  set (T := flat_map ct_record (fwd_ct (pm_terminals m) f)). set (hdr := [0; a; b; c]).
  assert (LA : Z.of_nat (length A) = 9 * ac) by (apply atoms_block_length; exact Hatoms).
  destruct (conn_roundtrip (mol_conns atoms) (hdr ++ A) (O ++ T ++ suf) (wf_conns_num _ W) (wf_conns_even _ W)) as [RC LC].
  fold C in RC, LC. rewrite Hconns in LC, RC. rewrite nat_div2_double in RC.
  replace (Z.of_nat (2 * length f) / 2) with k in LC by (subst k; rewrite Nat2Z.inj_mul, Z.mul_comm, Z.div_mul; lia).
  assert (LO : Z.of_nat (length O) = oc).
  { unfold O, v0_order_bytes. rewrite v0_order_bytes_length by exact Gok. rewrite Gl. reflexivity. }
  assert (LT : Z.of_nat (length T) = 4 * pm_ct_count m) by (unfold T; rewrite ct_block_length, <- Hct; reflexivity).
  assert (Hlen : Z.of_nat (length (hdr ++ A ++ C ++ O ++ T)) = oc + (4 + 9 * ac + 3 * k) + 4 * pm_ct_count m).
  { rewrite !app_length, !Nat2Z.inj_add, LA, LC, LO, LT. change (Z.of_nat (length hdr)) with 4. lia. }
  rewrite Hlen.
  assert (Hdata : (hdr ++ A ++ C ++ O ++ T) ++ suf = hdr ++ A ++ C ++ O ++ T ++ suf) by (rewrite <- !app_assoc; reflexivity).
  rewrite Hdata. clear Hdata.
  apply (unpack_v0_eq _ a b c (map uatom_of atoms) ac (pm_ct_count m) k _ _ (fwd_orders f ++ junk)); try reflexivity; try assumption.
  - unfold ac. rewrite Nat2Z.id. apply (read_atoms_roundtrip atoms hdr (C ++ O ++ T ++ suf) Hatoms).
  - rewrite ngb_sum_unpack; [| lia | pose proof (wf_conns_bound _ W); lia].
    pose proof (wf_conns_bound _ W). rewrite u16_small by lia. rewrite Z.add_0_l, Hconns.
    subst k. rewrite Nat2Z.inj_mul, Z.mul_comm, Z.div_mul; lia.
  - rewrite (adj0_fold atoms []) by (cbn [map app]; apply (gw_nodup _ W)). cbn [app].
    destruct (k =? 0) eqn:Ek.
    + apply Z.eqb_eq in Ek. f_equal. symmetry. apply mol_conns_nil_adj. apply length_zero_iff_nil. lia.
    + replace (4 + 9 * ac) with (Z.of_nat (length (hdr ++ A))) by (rewrite app_length, Nat2Z.inj_add, LA; reflexivity).
      replace (hdr ++ A ++ C ++ O ++ T ++ suf) with ((hdr ++ A) ++ C ++ O ++ T ++ suf) by (rewrite <- app_assoc; reflexivity).
      unfold k at 1. rewrite Nat2Z.id, RC.
      replace (Z.of_nat (length (hdr ++ A)) + 3 * k) with (Z.of_nat (length ((hdr ++ A) ++ C)) + 0)
        by (rewrite (app_length (hdr ++ A) C), Nat2Z.inj_add, LC; lia).
      replace ((hdr ++ A) ++ C ++ O ++ T ++ suf) with (((hdr ++ A) ++ C) ++ O ++ T ++ suf) by (rewrite <- (app_assoc (hdr ++ A)); reflexivity).
      rewrite slice_shift by lia. fold oc. rewrite <- LO, Nat2Z.id, slice_prefix.
      unfold O, v0_order_bytes. rewrite (read_orders_v0_layout _ Gok), Gj, list_eqb_Z_refl.
      pose proof (build_adj_spec atoms W atoms [] [] junk eq_refl) as B. cbn [map rev app] in B. rewrite app_nil_r in B.
      exact B.
  - fold oc.
    replace (oc + (4 + 9 * ac + 3 * k)) with (Z.of_nat (length (hdr ++ A ++ C ++ O)))
      by (rewrite !app_length, !Nat2Z.inj_add, LA, LC, LO; change (Z.of_nat (length hdr)) with 4; lia).
    replace (hdr ++ A ++ C ++ O ++ T ++ suf) with ((hdr ++ A ++ C ++ O) ++ T ++ suf) by (rewrite <- !app_assoc; reflexivity).
    rewrite Hct, Nat2Z.id. apply read_ct_roundtrip. exact Hrecs.
Qed.

(* VERSION 0: for every molecule within the format limits, unpack of the bytes of the declarative version 0 layout
   (followed by anything) returns the atoms in order with all fields, the neighbour tables in order with the bond orders,
   the cis/trans records, and the length of the pack *)
Theorem unpack_layout_v0 m suf : pack_ok m = true ->
  unpack (bytes_of_bits (layout_v0 m) ++ suf) = Ok (unpacked_of m (Z.of_nat (length (bytes_of_bits (layout_v0 m))))).
Proof. intros H. rewrite (layout_v0_blocks m H). apply (unpack_layout_v0_blocks m suf H). Qed.

(* non-vacuity, evaluated: the version 0 pack of the molecule at the format limits (19 bonds: 4 groups, the last one
   padded) decodes to it, and its first byte is 0 *)
Lemma unpack_v0_example :
  pack_ok pack_example = true /\ hd 1 (bytes_of_bits (layout_v0 pack_example)) = 0 /\
  length (v0_order_bytes (fwd_orders (mol_fwd [] (pm_atoms pack_example)))) = 8%nat /\
  pyres_eqb (fun u v => (up_size u =? up_size v) && list_eqb (fun x y => (fst x =? fst y)) (up_adj u) (up_adj v))
            (unpack (bytes_of_bits (layout_v0 pack_example)))
            (Ok (unpacked_of pack_example (Z.of_nat (length (bytes_of_bits (layout_v0 pack_example)))))) = true.
Proof. vm_compute. repeat split; reflexivity. Qed.
