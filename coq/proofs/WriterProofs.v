(* C02 -- finite facts that tie the tables of the writer (chython/algorithms/smiles.py) to the tables of the reader
   (chython/files/daylight/tokenize.py); both are regenerated from the source on every run (Gen.SmilesTables, Gen.Elements).
   Bigger layers: WriterProofsAtom.v (bracket atoms), WriterProofsTokens.v (token stream), WriterProofsClosures.v. *)
From Coq Require Import ZArith List String Ascii Bool Lia.
From Model Require Import PyBase Graph PeriodicTable Stereo Writer.
From Gen Require Import Elements SmilesTables.
Import ListNotations.
Open Scope Z_scope.

(* ---- charges: what _format_atom writes for a charge is what charge_dict reads ---- *)
Definition charge_entry_ok (cs : Z * string) : bool :=
  (fst cs =? 0) || option_eqb Z.eqb (sget1 charge_dict (snd cs)) (Some (fst cs)).

Lemma charge_tables_agree_b :
  forallb charge_entry_ok charge_str = true /\
  forallb (fun c => match zget charge_str c with Some _ => true | None => false end) (zrange (-4) 5) = true.
Proof. split; vm_compute; reflexivity. Qed.

Lemma charge_tables_agree : forall c, -4 <= c <= 4 -> c <> 0 ->
  exists s, zget charge_str c = Some s /\ sget1 charge_dict s = Some c.
Proof.
  intros c Hr Hn.
  assert (Hin : In c (zrange (-4) 5)) by (apply zrange_In; lia).
  destruct charge_tables_agree_b as [_ H2].
  rewrite forallb_forall in H2. specialize (H2 c Hin).
  (* nine values *)
  assert (Hc : c = -4 \/ c = -3 \/ c = -2 \/ c = -1 \/ c = 1 \/ c = 2 \/ c = 3 \/ c = 4) by lia.
  destruct Hc as [-> | [-> | [-> | [-> | [-> | [-> | [-> | ->]]]]]]]; eexists; split; vm_compute; reflexivity.
Qed.

(* ---- ring closure numbers: every number the heap can hand out is read back as that number ---- *)
Lemma closure_roundtrip_b :
  forallb (fun c => pyres_eqb (list_eqb rtok_eqb) (tokenize (format_closure c)) (Ok [RClosure c])) (zrange heap_lo heap_hi) = true.
Proof. vm_compute. reflexivity. Qed.

Lemma rtok_eqb_eq a b : rtok_eqb a b = true -> a = b.
Proof.
  destruct a, b; cbn; try discriminate; intros H; try reflexivity;
    try (apply String.eqb_eq in H; subst; reflexivity);
    try (apply Z.eqb_eq in H; subst; reflexivity).
  apply Bool.eqb_prop in H. subst. reflexivity.
Qed.

Lemma rtok_list_eqb_eq a b : list_eqb rtok_eqb a b = true -> a = b.
Proof.
  revert b. induction a as [|x a IH]; intros [|y b]; cbn; try discriminate; [reflexivity|].
  intros H. apply andb_true_iff in H. destruct H as [H1 H2].
  apply rtok_eqb_eq in H1. apply IH in H2. subst. reflexivity.
Qed.

Lemma closure_roundtrip : forall c, heap_lo <= c < heap_hi -> tokenize (format_closure c) = Ok [RClosure c].
Proof.
  intros c Hc. pose proof closure_roundtrip_b as H. rewrite forallb_forall in H.
  specialize (H c (proj2 (zrange_In _ _ _) Hc)).
  destruct (tokenize (format_closure c)) as [l|e]; cbn in H; [|discriminate].
  apply rtok_list_eqb_eq in H. subst. reflexivity.
Qed.

(* two closure numbers written one after the other are read as these two numbers (a one-digit number never merges with
   what follows, a two-digit one is always written with % and takes exactly two digits) *)
Lemma closure_pair_roundtrip_b :
  forallb (fun c => forallb (fun d =>
     pyres_eqb (list_eqb rtok_eqb) (tokenize (format_closure c ++ format_closure d)) (Ok [RClosure c; RClosure d]))
     (zrange heap_lo heap_hi)) (zrange heap_lo heap_hi) = true.
Proof. vm_compute. reflexivity. Qed.

Lemma closure_pair_roundtrip : forall c d, heap_lo <= c < heap_hi -> heap_lo <= d < heap_hi ->
  tokenize (format_closure c ++ format_closure d) = Ok [RClosure c; RClosure d].
Proof.
  intros c d Hc Hd. pose proof closure_pair_roundtrip_b as H. rewrite forallb_forall in H.
  specialize (H c (proj2 (zrange_In _ _ _) Hc)). rewrite forallb_forall in H.
  specialize (H d (proj2 (zrange_In _ _ _) Hd)).
  destruct (tokenize (format_closure c ++ format_closure d)) as [l|e]; cbn in H; [|discriminate].
  apply rtok_list_eqb_eq in H. subst. reflexivity.
Qed.

(* ---- bonds: the token _format_bond writes denotes the order of the bond ---- *)
Definition valid_order (x : Z) : Prop := x = 1 \/ x = 2 \/ x = 3 \/ x = 4 \/ x = 8.

Lemma format_bond_denotes : forall g o ctm n m b s,
  bond_of g n m = Some b -> valid_order (b_ord b) -> format_bond g o ctm n m = Ok s ->
  (* nothing written: bond tokens disabled, or a single bond, or an aromatic bond between aromatic atoms *)
  (s = EmptyString /\ (o_bonds o = false \/ b_ord b = 1 \/ (b_ord b = 4 /\ o_aromatic o = true))) \/
  (* a direction mark: only on single bonds, only when stereo marks are enabled *)
  ((s = "/"%string \/ s = "\"%string) /\ b_ord b = 1 /\ o_stereo o = true) \/
  (* a bond symbol the tokenizer maps back to the same order *)
  tokenize s = Ok [RBond (b_ord b)].
Proof.
  intros g o ctm n m b s Hb Hv Hf. unfold format_bond in Hf. rewrite Hb in Hf.
  destruct (o_bonds o) eqn:Eb; cbn [negb] in Hf.
  2:{ inversion Hf. left. split; [reflexivity|]. left. reflexivity. }
  destruct Hv as [Hv | [Hv | [Hv | [Hv | Hv]]]]; rewrite Hv in Hf; cbn in Hf.
  - (* single *)
    destruct (o_aromatic o && (hybridization g n =? 4) && (hybridization g m =? 4)).
    + inversion Hf. right. right. rewrite Hv. vm_compute. reflexivity.
    + destruct (o_stereo o) eqn:Es.
      * destruct ctm as [cm|e]; [|discriminate].
        destruct (pget cm (n, m)) as [[|]|]; inversion Hf.
        -- right. left. repeat split; auto.
        -- right. left. repeat split; auto.
        -- left. split; [reflexivity|]. right. left. exact Hv.
      * inversion Hf. left. split; [reflexivity|]. right. left. exact Hv.
  - inversion Hf. right. right. rewrite Hv. vm_compute. reflexivity.
  - inversion Hf. right. right. rewrite Hv. vm_compute. reflexivity.
  - destruct (o_aromatic o) eqn:Ea; inversion Hf.
    + left. split; [reflexivity|]. right. right. split; [exact Hv | reflexivity].
    + right. right. rewrite Hv. vm_compute. reflexivity.
  - inversion Hf. right. right. rewrite Hv. vm_compute. reflexivity.
Qed.

(* the direction marks are read as up / down tokens *)
Lemma updown_tokens : tokenize "/" = Ok [RUpDown true] /\ tokenize "\" = Ok [RUpDown false].
Proof. split; vm_compute; reflexivity. Qed.

(* ---- element symbols: every symbol of the periodic table, written alone in brackets, is read as that element; the
   lower-case spelling is read as the aromatic form exactly for the nine symbols _atom_parse lists ---- *)
Definition plain_parsed (ty : Z) (sym : string) : parsed := mkParsed ty sym None None 0 0 None.
Definition symbol_ok (e : elem) : bool :=
  pyres_eqb parsed_eqb (atom_parse (e_sym e)) (Ok (plain_parsed 0 (e_sym e))) &&
  (if smem (lower_string (e_sym e)) aromatic_bracket_symbols
   then pyres_eqb parsed_eqb (atom_parse (lower_string (e_sym e))) (Ok (plain_parsed 8 (e_sym e)))
   else true).

Lemma element_symbols_parse_b : forallb symbol_ok elements = true.
Proof. vm_compute. reflexivity. Qed.

Lemma parsed_eqb_eq a b : parsed_eqb a b = true -> a = b.
Proof.
  destruct a as [t1 e1 i1 m1 c1 h1 s1], b as [t2 e2 i2 m2 c2 h2 s2]. unfold parsed_eqb. cbn.
  intros H. repeat (apply andb_true_iff in H; destruct H as [H ?]).
  apply Z.eqb_eq in H. apply String.eqb_eq in H5. apply Z.eqb_eq in H2. apply Z.eqb_eq in H1.
  assert (i1 = i2) by (destruct i1, i2; cbn in H4; try discriminate; [apply Z.eqb_eq in H4; subst|]; reflexivity).
  assert (m1 = m2) by (destruct m1, m2; cbn in H3; try discriminate; [apply Z.eqb_eq in H3; subst|]; reflexivity).
  assert (s1 = s2) by (destruct s1, s2; cbn in H0; try discriminate; [apply Bool.eqb_prop in H0; subst|]; reflexivity).
  subst. reflexivity.
Qed.

Lemma element_symbols_parse : forall e, In e elements ->
  atom_parse (e_sym e) = Ok (plain_parsed 0 (e_sym e)) /\
  (smem (lower_string (e_sym e)) aromatic_bracket_symbols = true ->
   atom_parse (lower_string (e_sym e)) = Ok (plain_parsed 8 (e_sym e))).
Proof.
  intros e He. pose proof element_symbols_parse_b as H. rewrite forallb_forall in H. specialize (H e He).
  unfold symbol_ok in H. apply andb_true_iff in H. destruct H as [H1 H2]. split.
  - destruct (atom_parse (e_sym e)); cbn in H1; [|discriminate]. apply parsed_eqb_eq in H1. subst. reflexivity.
  - intros Hs. rewrite Hs in H2.
    destruct (atom_parse (lower_string (e_sym e))); cbn in H2; [|discriminate]. apply parsed_eqb_eq in H2. subst. reflexivity.
Qed.

(* the organic subset: the symbols _format_atom may write without brackets are exactly those the tokenizer reads as
   bare atoms, and the lower-case forms it may write are read as aromatic atoms *)
Lemma organic_symbols_tokenize :
  forallb (fun s => pyres_eqb (list_eqb rtok_eqb) (tokenize s) (Ok [RAtom s])) organic_set = true /\
  forallb (fun s => pyres_eqb (list_eqb rtok_eqb) (tokenize (lower_string s)) (Ok [RArom s])) ["B"; "C"; "N"; "O"; "P"; "S"]%string = true /\
  forallb (fun s => match from_symbol s with Some _ => true | None => false end) organic_set = true.
Proof. repeat split; vm_compute; reflexivity. Qed.
