(* C08 -- TIE BY TRANSLATION of the label loop of MoleculeContainer.calc_labels: the step function generated statement by
   statement from the source (Gen.LabelsBody, tools/gen_labels.py) equals the hand-written Query.label_step for every state and
   every (neighbour element, bond order), and labels_of is the fold of the generated step from the generated start value. *)
From Coq Require Import ZArith List Bool.
From Gen Require Import LabelsBody.
From Model Require Import PyBase Query.
Import ListNotations.
Open Scope Z_scope.

Theorem g_label_step_eq st mb : g_label_step st mb = label_step st mb.
Proof.
  destruct st as [[[nb het] hyb] eh]. destruct mb as [num ord]. unfold g_label_step, label_step.
  destruct (ord =? 8); [reflexivity|].
  destruct (ord =? 4), (negb (hyb =? 4)), (ord =? 3), (ord =? 2), (hyb =? 1), (hyb =? 2), (num =? 1), (negb (num =? 6)); reflexivity.
Qed.

Lemma fold_ext {A B} (f g : A -> B -> A) l : (forall a b, f a b = g a b) -> forall a, fold_left f l a = fold_left g l a.
Proof. intros H. induction l as [|x r IH]; intros a; [reflexivity|]. cbn. rewrite H. apply IH. Qed.

Theorem labels_of_translated env : labels_of env = fold_left g_label_step env g_label_init.
Proof. unfold labels_of. symmetry. apply fold_ext. exact g_label_step_eq. Qed.

Lemma g_label_example :
  fold_left g_label_step [(6, 4); (8, 2); (6, 4)] g_label_init = (3, 1, 4, 0) /\
  fold_left g_label_step [(8, 2); (6, 4); (6, 4)] g_label_init = (3, 1, 4, 0) /\
  fold_left g_label_step [(6, 2); (1, 1); (7, 2); (26, 8)] g_label_init = (3, 1, 3, 1).
Proof. vm_compute. repeat split; reflexivity. Qed.
