(* C02, read_write_graph, ring-closure clause: the writer's closure numbers obey the discipline that WriterSeqRings needs.
   (W) number_atoms (heap with delayed release) on well-formed closure lists: at every atom, the cycles open before it and the
       cycles opened at it carry pairwise different FINAL numbers (Disc_ev) - from atom_no_clash and the fact that a number once
       given is never changed;
   (P) Disc_ev implies disc_atoms for any order in which the closures of an atom are written (the writer sorts them by number),
       with the replay's open table and the event-level `open` list holding the same cycles. *)
From Coq Require Import ZArith List Bool Lia.
From Model Require Import PyBase Graph Writer Tokenize Parser SmilesAst.
From Proofs Require Import WriterProofsClosures WriterWfFlatten WriterWfTree WriterSeqTree WriterSeqRings.
Import ListNotations.
Open Scope Z_scope.

Lemma nodup_map_inj {A B} (f : A -> B) (l : list A) x y : NoDup (map f l) -> In x l -> In y l -> f x = f y -> x = y.
Proof.
  induction l as [|a l IH]; intros ND Hx Hy E; [destruct Hx|]. cbn [map] in ND. inversion ND as [|? ? Hn ND']; subst.
  destruct Hx as [-> | Hx]; destruct Hy as [-> | Hy]; [reflexivity | | | apply IH; assumption].
  - exfalso. apply Hn. rewrite E. apply in_map, Hy.
  - exfalso. apply Hn. rewrite <- E. apply in_map, Hx.
Qed.

Lemma filter_all {A} (l : list A) : filter (fun _ => true) l = l.
Proof. induction l as [|a l IH]; cbn; [reflexivity | rewrite IH; reflexivity]. Qed.

(* ---- (W) the writer's numbers *)
Section EventDisc.
  Variable num : Z -> Z.
  Fixpoint Disc_ev (open seen : list Z) (evs : list (list Z)) : Prop :=
    match evs with
    | [] => True
    | cs :: r => NoDup (map num (open ++ opening seen cs)) /\ Disc_ev (open_after open seen cs) (seen ++ opening seen cs) r
    end.
End EventDisc.

Lemma Disc_ev_eq (f g : Z -> Z) : forall evs open seen,
  (forall c, In c open \/ In c (concat evs) -> f c = g c) -> Disc_ev f open seen evs -> Disc_ev g open seen evs.
Proof.
  induction evs as [|cs r IH]; intros open seen H D; [exact I|]. cbn [Disc_ev] in *. destruct D as [D1 D2]. split.
  - rewrite <- (map_ext_in f g); [exact D1|]. intros c Hc. apply H. apply in_app_or in Hc. destruct Hc as [Hc | Hc]; [left; exact Hc|].
    right. cbn [concat]. apply in_or_app. left. unfold opening in Hc. apply filter_In in Hc. apply Hc.
  - apply IH; [|exact D2]. intros c [Hc | Hc].
    + apply H. unfold open_after in Hc. apply in_app_or in Hc. destruct Hc as [Hc | Hc].
      * left. apply filter_In in Hc. apply Hc.
      * right. cbn [concat]. apply in_or_app. left. unfold opening in Hc. apply filter_In in Hc. apply Hc.
    + apply H. right. cbn [concat]. apply in_or_app. right. exact Hc.
Qed.

Theorem numbers_disciplined : forall (good : Z -> Prop) tokens ro todo casted heap open seen casted' heap',
  Inv good casted heap open seen -> NoDup open ->
  wf_events open seen (map (fun a => map snd (atom_closures tokens ro (fst a))) todo) ->
  number_atoms tokens ro todo casted heap = Ok (casted', heap') ->
  Disc_ev (cnum casted') open seen (map (fun a => map snd (atom_closures tokens ro (fst a))) todo).
Proof.
  intros good tokens ro todo. induction todo as [|[a p] todo IH]; intros casted heap open seen casted' heap' HI Hno Hwf Hrun; [exact I|].
  cbn [number_atoms] in Hrun. cbn [map fst] in *. cbn [wf_events] in Hwf. destruct Hwf as [Hnd [Hcl Hwf]].
  fold (atom_closures tokens ro a) in Hrun.
  destruct (number_closures (atom_closures tokens ro a) casted heap []) as [[[c1 h1] rel]|e] eqn:En; [|discriminate].
  destruct (atom_no_clash good _ _ _ _ _ _ _ _ HI Hno Hnd Hcl En) as [Hkeep [Hnd2 [I1 Hno1]]].
  cbn [Disc_ev]. split; [|apply (IH _ _ _ _ _ _ I1 Hno1 Hwf Hrun)].
  rewrite (map_ext_in (cnum casted') (cnum c1)); [exact Hnd2|].
  intros c Hc. assert (Hd1 : zget c1 c <> None).
  { apply in_app_or in Hc. destruct Hc as [Hc | Hc].
    - pose proof (inv_dom _ _ _ _ _ HI c Hc) as Hd0. rewrite (number_closures_keeps c _ _ _ _ _ _ _ Hd0 En). exact Hd0.
    - apply (inv_dom _ _ _ _ _ I1). unfold open_after. apply in_or_app. right. exact Hc. }
  unfold cnum, casted_of. rewrite (number_atoms_keeps tokens ro c _ _ _ _ _ Hd1 Hrun). reflexivity.
Qed.

(* ---- (P) from the event discipline to the discipline of the replay *)
Section Replay.
  Variable cyc : Z -> list Z.
  Variable num : Z -> Z.

  Definition op_ids (op : list (Z * Z)) : list Z := map fst op.

  Lemma zget_some_ids (op : list (Z * Z)) c a : zget op c = Some a -> In c (op_ids op).
  Proof.
    induction op as [|[c' a'] r IH]; cbn [zget op_ids map fst]; [discriminate|].
    destruct (c =? c') eqn:E; [apply Z.eqb_eq in E; subst; intros _; left; reflexivity | intros H; right; apply IH, H].
  Qed.
  Lemma zget_none_ids (op : list (Z * Z)) c : zget op c = None -> ~ In c (op_ids op).
  Proof.
    induction op as [|[c' a'] r IH]; cbn [zget op_ids map fst]; [intros _ []|].
    destruct (c =? c') eqn:E; [discriminate|]. intros H [K | K]; [apply Z.eqb_neq in E; apply E; symmetry; exact K | apply (IH H K)].
  Qed.
  Lemma ids_zdel_sub (op : list (Z * Z)) c x : In x (op_ids (zdel op c)) -> In x (op_ids op).
  Proof.
    induction op as [|[c' a'] r IH]; cbn [zdel op_ids map fst]; [intros []|].
    destruct (c =? c'); [intros H; right; exact H | cbn [op_ids map fst]; intros [H | H]; [left; exact H | right; apply IH, H]].
  Qed.
  Lemma ids_zdel_other (op : list (Z * Z)) c c' : c' <> c -> In c' (op_ids op) -> In c' (op_ids (zdel op c)).
  Proof.
    intros Hne. induction op as [|[c0 a0] r IH]; cbn [zdel op_ids map fst]; [intros []|].
    destruct (c =? c0) eqn:E.
    - apply Z.eqb_eq in E. subst c0. intros [H | H]; [exfalso; apply Hne; symmetry; exact H | exact H].
    - cbn [op_ids map fst]. intros [H | H]; [left; exact H | right; apply IH, H].
  Qed.
  Lemma ids_zdel_nodup (op : list (Z * Z)) c : NoDup (op_ids op) -> NoDup (op_ids (zdel op c)).
  Proof.
    induction op as [|[c0 a0] r IH]; cbn [zdel op_ids map fst]; intros ND; [constructor|]. inversion ND as [|? ? Hn ND']; subst.
    destruct (c =? c0); [exact ND'|]. cbn [op_ids map fst]. constructor; [intros K; apply Hn; apply (ids_zdel_sub _ _ _ K) | apply IH, ND'].
  Qed.
  Lemma ids_zdel_self (op : list (Z * Z)) c : NoDup (op_ids op) -> ~ In c (op_ids (zdel op c)).
  Proof.
    induction op as [|[c0 a0] r IH]; cbn [zdel op_ids map fst]; intros ND; [intros []|]. inversion ND as [|? ? Hn ND']; subst.
    destruct (c =? c0) eqn:E; [apply Z.eqb_eq in E; subst; exact Hn|].
    cbn [op_ids map fst]. intros [K | K]; [apply Z.eqb_neq in E; apply E; symmetry; exact K | apply (IH ND' K)].
  Qed.
  Lemma ids_snoc (op : list (Z * Z)) c pos : op_ids (op ++ [(c, pos)]) = op_ids op ++ [c].
  Proof. unfold op_ids. rewrite map_app. reflexivity. Qed.

  (* one atom *)
  Lemma disc_cs_ok pos (L open : list Z) : NoDup (map num L) ->
    forall cs' op, NoDup cs' ->
      (forall c, In c cs' -> (In c (op_ids op) <-> In c open)) ->
      (forall c, In c (op_ids op) -> In c L) ->
      (forall c, In c cs' -> ~ In c open -> In c L) ->
      disc_cs num pos cs' op.
  Proof.
    intros HL. induction cs' as [|c r IH]; intros op ND H1 H2 H3; [exact I|].
    inversion ND as [|? ? Hc ND']; subst. cbn [disc_cs]. destruct (zget op c) as [a|] eqn:E.
    - apply IH; [exact ND' | | intros x Hx; apply H2, (ids_zdel_sub _ _ _ Hx) | intros x Hx; apply H3; right; exact Hx].
      intros x Hx. assert (Hne : x <> c) by (intros ->; exact (Hc Hx)). split.
      + intros K. apply (H1 x (or_intror Hx)). apply (ids_zdel_sub _ _ _ K).
      + intros K. apply ids_zdel_other; [exact Hne|]. apply (H1 x (or_intror Hx)). exact K.
    - pose proof (zget_none_ids _ _ E) as Hnin.
      assert (HcL : In c L).
      { apply H3; [left; reflexivity|]. intros K. apply Hnin. apply (H1 c (or_introl eq_refl)). exact K. }
      split.
      + intros Hin. unfold nums in Hin. apply in_map_iff in Hin. destruct Hin as [[c' a'] [Hq Hin]]. cbn [fst] in Hq.
        assert (Hc' : In c' (op_ids op)) by (unfold op_ids; apply in_map_iff; exists (c', a'); split; [reflexivity | exact Hin]).
        assert (c' = c) by (apply (nodup_map_inj num L); [exact HL | apply H2, Hc' | exact HcL | exact Hq]). subst c'. exact (Hnin Hc').
      + apply IH; [exact ND' | | |intros x Hx; apply H3; right; exact Hx].
        * intros x Hx. assert (Hne : x <> c) by (intros ->; exact (Hc Hx)). rewrite ids_snoc. split.
          -- intros K. apply in_app_or in K. destruct K as [K | [K | []]]; [apply (H1 x (or_intror Hx)), K | exfalso; apply Hne; symmetry; exact K].
          -- intros K. apply in_or_app. left. apply (H1 x (or_intror Hx)), K.
        * intros x Hx. rewrite ids_snoc in Hx. apply in_app_or in Hx. destruct Hx as [Hx | [<- | []]]; [apply H2, Hx | exact HcL].
  Qed.

  (* the cycles in the table after an atom *)
  Lemma op_cs_ids pos : forall cs' op, NoDup cs' -> NoDup (op_ids op) ->
    NoDup (op_ids (op_cs pos cs' op)) /\
    forall c, In c (op_ids (op_cs pos cs' op)) <-> (In c (op_ids op) /\ ~ In c cs') \/ (In c cs' /\ ~ In c (op_ids op)).
  Proof.
    induction cs' as [|c0 r IH]; intros op ND NO; cbn [op_cs].
    - split; [exact NO|]. intros c. split; [intros H; left; split; [exact H | intros []] | intros [[H _] | [[] _]]; exact H].
    - inversion ND as [|? ? Hc0 ND']; subst. destruct (zget op c0) as [a|] eqn:E.
      + pose proof (zget_some_ids _ _ _ E) as Hin0.
        destruct (IH (zdel op c0) ND' (ids_zdel_nodup _ _ NO)) as [N1 M1]. split; [exact N1|].
        intros c. rewrite M1. destruct (Z.eq_dec c c0) as [-> | Hne].
        * split.
          -- intros [[K _] | [K _]]; [exfalso; exact (ids_zdel_self _ _ NO K) | exfalso; exact (Hc0 K)].
          -- intros [[_ K] | [_ K]]; [exfalso; apply K; left; reflexivity | exfalso; exact (K Hin0)].
        * split.
          -- intros [[K1 K2] | [K1 K2]].
             ++ left. split; [apply (ids_zdel_sub _ _ _ K1) | intros [K | K]; [apply Hne; symmetry; exact K | exact (K2 K)]].
             ++ right. split; [right; exact K1 | intros K; apply K2; apply ids_zdel_other; assumption].
          -- intros [[K1 K2] | [K1 K2]].
             ++ left. split; [apply ids_zdel_other; assumption | intros K; apply K2; right; exact K].
             ++ right. destruct K1 as [K1 | K1]; [exfalso; apply Hne; symmetry; exact K1|].
                split; [exact K1 | intros K; apply K2, (ids_zdel_sub _ _ _ K)].
      + pose proof (zget_none_ids _ _ E) as Hnin0.
        assert (NO' : NoDup (op_ids (op ++ [(c0, pos)]))) by (rewrite ids_snoc; apply nodup_snoc; assumption).
        destruct (IH (op ++ [(c0, pos)]) ND' NO') as [N1 M1]. split; [exact N1|].
        intros c. rewrite M1, ids_snoc. destruct (Z.eq_dec c c0) as [-> | Hne].
        * split.
          -- intros _. right. split; [left; reflexivity | exact Hnin0].
          -- intros _. left. split; [apply in_or_app; right; left; reflexivity | exact Hc0].
        * split.
          -- intros [[K1 K2] | [K1 K2]].
             ++ apply in_app_or in K1. destruct K1 as [K1 | [K1 | []]]; [|exfalso; apply Hne; symmetry; exact K1].
                left. split; [exact K1 | intros [K | K]; [apply Hne; symmetry; exact K | exact (K2 K)]].
             ++ right. split; [right; exact K1 | intros K; apply K2; apply in_or_app; left; exact K].
          -- intros [[K1 K2] | [K1 K2]].
             ++ left. split; [apply in_or_app; left; exact K1 | intros K; apply K2; right; exact K].
             ++ right. destruct K1 as [K1 | K1]; [exfalso; apply Hne; symmetry; exact K1|].
                split; [exact K1 | intros K; apply in_app_or in K; destruct K as [K | [K | []]]; [exact (K2 K) | apply Hne; symmetry; exact K]].
  Qed.

  (* the written atoms against the closure lists of the ring atoms: atoms without closures are skipped; the closures of a ring atom
     are written in any order (the writer sorts them by number) *)
  Inductive Align : list Z -> list (list Z) -> Prop :=
  | Al_nil : Align [] []
  | Al_skip n ats evs : cyc n = [] -> Align ats evs -> Align (n :: ats) evs
  | Al_ev n ats cs evs : NoDup (cyc n) -> (forall c, In c (cyc n) <-> In c cs) -> Align ats evs -> Align (n :: ats) (cs :: evs).

  Theorem disc_atoms_of_events : forall ats evs, Align ats evs -> forall k op open seen,
    wf_events open seen evs -> Disc_ev num open seen evs ->
    NoDup (op_ids op) -> (forall c, In c (op_ids op) <-> In c open) -> (forall c, In c open -> In c seen) ->
    disc_atoms cyc num k ats op.
  Proof.
    induction 1 as [|n ats evs Hn A IH|n ats cs evs Hnd Hcs A IH]; intros k op open seen Hwf HD NO Hio Hos; [exact I| |].
    - cbn [disc_atoms]. rewrite Hn. cbn [disc_cs op_cs]. split; [exact I|]. apply (IH _ _ open seen); assumption.
    - cbn [wf_events] in Hwf. destruct Hwf as [Hndcs [Hcl Hwf]]. cbn [Disc_ev] in HD. destruct HD as [HD1 HD2].
      cbn [disc_atoms]. split.
      + apply (disc_cs_ok k (open ++ opening seen cs) open HD1); [exact Hnd | intros c _; apply Hio | |].
        * intros c Hc. apply in_or_app. left. apply Hio, Hc.
        * intros c Hc Hno. apply in_or_app. right. unfold opening. apply filter_In. apply Hcs in Hc. split; [exact Hc|].
          destruct (Hcl c Hc) as [K | K]; [contradiction|]. apply negb_true_iff. destruct (zmem c seen) eqn:Ez; [|reflexivity].
          exfalso. apply K. apply zmem_In. exact Ez.
      + destruct (op_cs_ids k (cyc n) op Hnd NO) as [N1 M1].
        apply (IH _ _ (open_after open seen cs) (seen ++ opening seen cs)); try assumption.
        * intros c. rewrite M1. unfold open_after, opening. rewrite in_app_iff, !filter_In. split.
          -- intros [[K1 K2] | [K1 K2]].
             ++ left. split; [apply Hio, K1|]. apply negb_true_iff. destruct (zmem c cs) eqn:Ez; [|reflexivity].
                exfalso. apply K2. apply Hcs. apply zmem_In. exact Ez.
             ++ right. apply Hcs in K1. split; [exact K1|]. apply negb_true_iff. destruct (zmem c seen) eqn:Ez; [|reflexivity].
                exfalso. apply zmem_In in Ez. destruct (Hcl c K1) as [K | K]; [apply K2, Hio, K | exact (K Ez)].
          -- intros [[K1 K2] | [K1 K2]].
             ++ left. split; [apply Hio, K1|]. intros K. apply Hcs in K. apply zmem_In in K. rewrite K in K2. discriminate.
             ++ right. split; [apply Hcs, K1|]. intros K. apply Hio, Hos in K. apply zmem_In in K. rewrite K in K2. discriminate.
        * intros c Hc. unfold open_after in Hc. apply in_app_or in Hc. apply in_or_app. destruct Hc as [Hc | Hc].
          -- left. apply filter_In in Hc. apply Hos, Hc.
          -- right. exact Hc.
  Qed.
End Replay.

(* ---- together: the numbers number_atoms gives (any component: nothing open at its start) and the parser's digit table *)
Theorem written_ring_bonds_of_numbering :
  forall (good : Z -> Prop) tokens ro todo casted heap seen casted' heap' aty atk rings bnd cyc rb smi strong rec,
  let evs := map (fun a : Z * Z => map snd (atom_closures tokens ro (fst a))) todo in
  let num := cnum casted' in
  Inv good casted heap [] seen -> wf_events [] seen evs -> number_atoms tokens ro todo casted heap = Ok (casted', heap') ->
  Align cyc (atoms_of smi) evs ->
  (forall n, zmem (aty n) [0; 8] = true) -> (forall p c, bond_ok (bnd p c) = true) ->
  (forall n, rings n = map (fun c => (rb n c, num c)) (cyc n)) -> (forall n c, bond_ok (rb n c) = true) ->
  parse (ctoks aty atk rings bnd smi) strong = Ok rec ->
  (forall x c, In x (atoms_of smi) -> In c (cyc x) -> exists a p, In (c, a, p) (cl_atoms cyc 0 (atoms_of smi) [])) /\
  (forall c a p, In (c, a, p) (cl_atoms cyc 0 (atoms_of smi) []) ->
     (exists x y, nth_error (atoms_of smi) (Z.to_nat a) = Some x /\ nth_error (atoms_of smi) (Z.to_nat p) = Some y /\
                  In c (cyc x) /\ In c (cyc y) /\ 0 <= a <= p) /\
     exists v, In (p, a, v) (p_bonds rec)).
Proof.
  intros good tokens ro todo casted heap seen casted' heap' aty atk rings bnd cyc rb smi strong rec evs num HI Hwf Hrun HA H1 H3 Hr Hrb Hp.
  pose proof (numbers_disciplined good tokens ro todo casted heap [] seen casted' heap' HI (NoDup_nil _) Hwf Hrun) as HD.
  assert (Hdisc : disc_atoms cyc num 0 (atoms_of smi) []).
  { apply (disc_atoms_of_events cyc num _ _ HA 0 [] [] seen Hwf HD); [constructor | intros c; split; intros [] | intros c []]. }
  apply (written_ring_bonds_parsed aty atk rings bnd H1 H3 cyc num rb Hr Hrb smi strong rec Hp Hdisc).
Qed.
