(* C01, extension: the stereo-free canonical string of a molecule that is written as ONE component is invariant under ANY
   renumbering and ANY insertion order (atoms, adjacency rows, neighbours), for injective weights and any tie-break priorities. *)
From Coq Require Import ZArith List String Bool Lia Permutation.
From Model Require Import PyBase PyHash Graph Morgan Writer.
From Proofs Require Import MorganProofs WriterInvProofs BfsExt TraverseOrderExt.
Import ListNotations.
Open Scope Z_scope.

(* ---- calc_labels: hybridization does not depend on the order of the bonds ---- *)
Lemma hyb_step_comm h a b : hyb_step (hyb_step h a) b = hyb_step (hyb_step h b) a.
Proof.
  unfold hyb_step.
  repeat match goal with |- context [?x =? ?y] => destruct (Z.eqb_spec x y); try (exfalso; lia); try reflexivity end.
  all: repeat match goal with H : context [?x =? ?y] |- _ => destruct (Z.eqb_spec x y); try (exfalso; lia) end.
Qed.

Lemma fold_hyb_perm (l l' : list (Z * bond)) : Permutation l l' -> forall h,
  fold_left (fun h mb => hyb_step h (b_ord (snd mb))) l h = fold_left (fun h mb => hyb_step h (b_ord (snd mb))) l' h.
Proof.
  induction 1 as [|x l l' _ IH|x y l|l l' l'' _ IH1 _ IH2]; intros h; cbn [fold_left].
  - reflexivity.
  - apply IH.
  - rewrite hyb_step_comm. reflexivity.
  - rewrite IH1. apply IH2.
Qed.

Lemma existsb_perm {A} (p : A -> bool) l l' : Permutation l l' -> existsb p l = existsb p l'.
Proof.
  induction 1 as [|x l l' _ IH|x y l|l l' l'' _ IH1 _ IH2]; cbn; [reflexivity | rewrite IH; reflexivity | | congruence].
  destruct (p x), (p y); reflexivity.
Qed.

Section PermFormat.
  Variable g g' : mol.
  Variable s : Z -> Z.
  Variable o : opts.
  Hypothesis Hwf : wf_mol g = true.
  Hypothesis s_inj : forall x y, s x = s y -> x = y.
  Hypothesis Hp : mol_perm (ren_mol s g) g'.
  Hypothesis Hst : o_stereo o = false.
  Hypothesis Hmp : o_mapping o = false.

  Lemma atom_of_perm n : atom_of g' (s n) = atom_of g n.
  Proof.
    rewrite <- (atom_of_renG g s s_inj). unfold atom_of. symmetry. apply zget_perm; [|apply Hp].
    change (keys (m_atoms (ren_mol s g))) with (ids (ren_mol s g)). rewrite ids_ren_mol.
    destruct (wf_mol_inv g Hwf) as [_ [H2 _]]. apply NoDup_map_inj; [intros x y _ _; apply s_inj | exact H2].
  Qed.

  Lemma nbrs_perm n : Permutation (nbrs (ren_mol s g) (s n)) (nbrs g' (s n)).
  Proof.
    destruct Hp as [_ Hadj]. unfold nbrs. destruct (zget (m_adj (ren_mol s g)) (s n)) as [row|] eqn:E.
    - destruct (zget_adj_perm _ _ (s n) row Hadj (keys_adj_ren_nodup s s_inj g Hwf) E) as [row' [E' P]]. rewrite E'. exact P.
    - replace (zget (m_adj g') (s n)) with (@None (list (Z * bond))); [apply Permutation_refl|]. symmetry.
      apply zget_None_iff. apply zget_None_iff in E. intros H. apply E.
      eapply Permutation_in; [apply Permutation_sym; apply (adj_perm_keys _ _ Hadj) | exact H].
  Qed.

  Lemma hybridization_perm n : hybridization g' (s n) = hybridization g n.
  Proof. rewrite <- (hybridization_renG g s s_inj). unfold hybridization. symmetry. apply fold_hyb_perm. apply nbrs_perm. Qed.

  Lemma no_plain_perm n : no_plain_neighbours g' (s n) = no_plain_neighbours g n.
  Proof. rewrite <- (no_plain_renG g s s_inj). unfold no_plain_neighbours. symmetry. apply forallb_perm. apply nbrs_perm. Qed.

  Lemma bond_of_perm n m : bond_of g' (s n) (s m) = bond_of g n m.
  Proof.
    rewrite <- (bond_of_renG g s s_inj). unfold bond_of. symmetry. apply zget_perm; [|apply nbrs_perm].
    change (keys (nbrs (ren_mol s g) (s n))) with (nbr_ids (ren_mol s g) (s n)). apply nbr_ids_ren_nodup; assumption.
  Qed.

  Lemma format_atom_perm tabs tabs' visited visited' n : format_atom g' o tabs' (s n) visited' = format_atom g o tabs n visited.
  Proof.
    unfold format_atom, atom_fields. rewrite atom_of_perm. destruct (atom_of g n) as [a|]; [|reflexivity].
    destruct (symbol_of_num (a_num a)) as [sym|]; [|reflexivity].
    rewrite !(stereo_mark_off o Hst), Hmp, hybridization_perm, no_plain_perm. reflexivity.
  Qed.

  Lemma format_bond_perm ctm ctm' n m : format_bond g' o ctm' (s n) (s m) = format_bond g o ctm n m.
  Proof. unfold format_bond. rewrite bond_of_perm, !hybridization_perm, Hst. reflexivity. Qed.

  Lemma format_cxsmiles_perm ord : format_cxsmiles g' (map s ord) = format_cxsmiles g ord.
  Proof.
    unfold format_cxsmiles.
    assert (forall i, radical_positions g' (map s ord) i = radical_positions g ord i) as ->.
    { induction ord as [|m r IH]; intros i; cbn [map radical_positions]; [reflexivity|]. rewrite atom_of_perm, !IH. reflexivity. }
    replace (existsb (fun na => a_rad (snd na)) (m_atoms g')) with (existsb (fun na => a_rad (snd na)) (m_atoms g)); [reflexivity|].
    rewrite <- (existsb_perm _ _ _ (proj1 Hp)). unfold ren_mol. cbn [m_atoms].
    induction (m_atoms g) as [|[k a] l IH]; cbn; [reflexivity|]. rewrite IH. reflexivity.
  Qed.
End PermFormat.

Definition wstate_rel0 (s : Z -> Z) (a b : wstate) : Prop :=
  Permutation (map s (ws_atoms a)) (ws_atoms b) /\ ws_cycle b = ws_cycle a /\
  ws_casted b = ws_casted a /\ ws_heap b = ws_heap a /\ ws_out b = map (ren_otok s) (ws_out a) /\
  ws_order b = map s (ws_order a) /\ ws_vb b = ren_pairs s (ws_vb a).
Definition wres_rel0 (s : Z -> Z) (a b : pyres wstate) : Prop :=
  match a, b with Ok x, Ok y => wstate_rel0 s x y | Err e, Err e' => e = e' | _, _ => False end.

Section SingleComponent.
  Variable g g' : mol.
  Variable s w w' tb tb' : Z -> Z.
  Variable o : opts.
  Variable tabs tabs' : stabs.
  Hypothesis Hwf : wf_mol g = true.
  Hypothesis Hwf' : wf_mol g' = true.
  Hypothesis s_inj : forall x y, s x = s y -> x = y.
  Hypothesis Hp : mol_perm (ren_mol s g) g'.
  Hypothesis w_inj : inj_on (ids g) w.
  Hypothesis w_ren : forall n, In n (ids g) -> w' (s n) = w n.
  Hypothesis Hst : o_stereo o = false.
  Hypothesis Hmp : o_mapping o = false.

  (* the first component (the BFS starts on an empty `seen`) *)
  Theorem component_first_perm st st' : incl (ws_atoms st) (ids g) -> ws_seen st = [] -> ws_seen st' = [] -> wstate_rel0 s st st' ->
    wres_rel0 s (component g w tb o tabs (ids g) st) (component g' w' tb' o tabs' (ids g') st').
  Proof.
    intros Hi Hs0 Hs0' [Hpa [Hcy [Hca [Hhe [Hout [Hord Hvb]]]]]]. unfold component.
    pose proof (traverse_first_perm g g' s w w' tb tb' o Hwf Hwf' s_inj Hp w_inj w_ren st st' Hi Hpa Hs0 Hs0' Hcy) as Ht.
    destruct (traverse g w tb o (ids g) st) as [t|e]; destruct (traverse g' w' tb' o (ids g') st') as [t'|e'];
      cbn [trav_rel] in Ht; try contradiction; [|subst e'; reflexivity].
    destruct Ht as [H1 [H2 _]].
    assert (flatten g' t' = ren_toks s (flatten g t)) as ->.
    { unfold flatten, fl_fuel. rewrite (n_atoms_g' g g' s Hp), H1, H2. unfold ren_dfs. cbn [ds_edges].
      apply (fl_run_ren s s_inj _ (ds_edges (tr_dfs t)) [(tr_start t, 0, [TAtom (tr_start t)])]). }
    destruct (flatten g t) as [smi|e]; cbn [ren_toks wres_rel0]; [|reflexivity].
    rewrite H2. unfold ren_dfs. cbn [ds_tokens ds_edges ds_visited ds_cycle].
    rewrite (ring_positions_ren s s_inj), Hca, Hhe, (number_atoms_ren s s_inj).
    destruct (number_atoms (ds_tokens (tr_dfs t)) _ _ (ws_casted st) (ws_heap st)) as [[casted heap]|e]; cbn [wres_rel0]; [|reflexivity].
    rewrite (order_neighbours_ren s s_inj).
    destruct (order_neighbours smi casted (ds_edges (tr_dfs t)) (ds_tokens (tr_dfs t)) (ds_visited (tr_dfs t))) as [tokens visited] eqn:E.
    cbn [fst snd]. rewrite Hvb.
    rewrite (emit_ren s s_inj o (format_bond g o (ct_map g tabs visited)) (format_bond g' o (ct_map g' tabs' (ren_vis s visited)))
                      (fun n => format_atom g o tabs n visited) (fun n => format_atom g' o tabs' n (ren_vis s visited)))
      by (intros; first [apply (format_atom_perm g g' s o Hwf s_inj Hp Hst Hmp) | apply (format_bond_perm g g' s o Hwf s_inj Hp Hst)]).
    destruct (emit o _ _ smi tokens casted (ws_vb st)) as [[[out ord] vb]|e]; cbn [ren_emit wres_rel0]; [|reflexivity].
    assert (Permutation (map s (filter (fun n => negb (zhas visited n)) (ws_atoms st)))
                        (filter (fun n => negb (zhas (ren_vis s visited) n)) (ws_atoms st'))) as Hrest.
    { rewrite <- (filter_not_visited s s_inj). apply filter_perm. exact Hpa. }
    unfold wstate_rel0. cbn [ws_atoms ws_seen ws_cycle ws_casted ws_heap ws_out ws_order ws_vb].
    repeat split; try reflexivity.
    - exact Hrest.
    - rewrite Hout, !map_app. f_equal. f_equal.
      destruct (filter (fun n => negb (zhas visited n)) (ws_atoms st)) as [|r0 rr];
        destruct (filter (fun n => negb (zhas (ren_vis s visited) n)) (ws_atoms st')) as [|q0 qq]; try reflexivity.
      + apply Permutation_nil in Hrest. discriminate.
      + apply Permutation_sym, Permutation_nil in Hrest. discriminate.
    - rewrite Hord, map_app. reflexivity.
  Qed.

  (* the molecule is written as one component: after the first component no atom is left *)
  Definition single_component : Prop :=
    forall st1, component g w tb o tabs (ids g) (init_state g) = Ok st1 -> ws_atoms st1 = [].

  Theorem smiles_text_single_component_perm : single_component ->
    smiles_text g' w' tb' o tabs' = map_order s (smiles_text g w tb o tabs).
  Proof.
    intros Hsingle.
    assert (wstate_rel0 s (init_state g) (init_state g')) as Hrel.
    { unfold init_state, wstate_rel0. cbn [ws_atoms ws_seen ws_cycle ws_casted ws_heap ws_out ws_order ws_vb].
      repeat split; try reflexivity. apply (ids_perm_g' g g' s Hp). }
    pose proof (component_first_perm (init_state g) (init_state g') (incl_refl _) eq_refl eq_refl Hrel) as Hc.
    pose proof (ids_perm_g' g g' s Hp) as Hids.
    unfold smiles_text, smiles_tokens. rewrite (n_atoms_g' g g' s Hp). cbn [components].
    destruct (component g w tb o tabs (ids g) (init_state g)) as [a|e] eqn:Ea;
      destruct (component g' w' tb' o tabs' (ids g') (init_state g')) as [b|e'] eqn:Eb; cbn [wres_rel0] in Hc; try contradiction.
    - destruct Hc as [Hpa [_ [_ [_ [Hout [Hord _]]]]]].
      rewrite (Hsingle a Ea) in Hpa. rewrite (Hsingle a Ea). cbn [map] in Hpa. apply Permutation_nil in Hpa. rewrite Hpa.
      destruct (ids g) as [|i0 ir]; destruct (ids g') as [|j0 jr]; cbn [map] in Hids.
      + reflexivity.
      + apply Permutation_nil in Hids. discriminate.
      + apply Permutation_sym, Permutation_nil in Hids. discriminate.
      + rewrite Hout, Hord, spell_ren, (format_cxsmiles_perm g g' s Hwf s_inj Hp).
        destruct (o_cx o); [destruct (format_cxsmiles g (ws_order a))|]; reflexivity.
    - subst e'. destruct (ids g) as [|i0 ir]; destruct (ids g') as [|j0 jr]; cbn [map] in Hids; try reflexivity.
      + apply Permutation_nil in Hids. discriminate.
      + apply Permutation_sym, Permutation_nil in Hids. discriminate.
  Qed.
End SingleComponent.

(* with the weights of the Morgan model, for every hash function: discrete classes of atoms_order make format(mol, '!s') of a
   molecule written as one component a function of the structure - any renumbering, any insertion order, any tie-breaks *)
Theorem canonical_nostereo_string_structure_only (h : list Z -> Z) (ring ring' : Z -> bool) (g g' : mol) (s tb tb' : Z -> Z) (o : opts)
  (tabs tabs' : stabs) (l : labels) :
  wf_mol g = true -> wf_mol g' = true -> (forall x y, s x = s y -> x = y) -> (forall n, In n (ids g) -> ring' (s n) = ring n) ->
  mol_perm (ren_mol s g) g' -> atoms_order h ring g = Ok l -> NoDup (map snd l) -> o_stereo o = false -> o_mapping o = false ->
  single_component g (lbl l) tb o tabs ->
  exists l', atoms_order h ring' g' = Ok l' /\
             smiles_text g' (lbl l') tb' o tabs' = map_order s (smiles_text g (lbl l) tb o tabs).
Proof.
  intros Hwf Hwf' Hs Hr Hp Hl Hd Hst Hmp Hsingle. exists (ren_labels s l).
  assert (inj_on (ids g) s) as Hs' by (intros x y _ _; apply Hs).
  split; [apply (canonical_weights_equivariant h ring ring' g g' s l Hwf Hs' Hr Hp Hl Hd)|].
  apply (smiles_text_single_component_perm g g' s (lbl l) (lbl (ren_labels s l)) tb tb' o tabs tabs' Hwf Hwf' Hs Hp
           (w_inj_ids h ring g l Hwf Hl Hd) (w_ren_ids h ring g s l Hwf Hs' Hl) Hst Hmp Hsingle).
Qed.

(* non-vacuity: the star graph of BfsExt renumbered n -> 10 - n and re-inserted in another order, option set '!s' *)
Theorem insertion_order_example :
  wf_mol exb_g1 = true /\ wf_mol ext_g' = true /\ (forall x y, ext_s x = ext_s y -> x = y) /\ mol_perm (ren_mol ext_s exb_g1) ext_g' /\
  inj_on (ids exb_g1) ext_w /\ (forall n, In n (ids exb_g1) -> ext_w' (ext_s n) = ext_w n) /\
  o_stereo exw_o = false /\ o_mapping exw_o = false /\ single_component exb_g1 ext_w (fun n => n) exw_o no_stabs /\
  smiles_text exb_g1 ext_w (fun n => n) exw_o no_stabs = Ok ("CC(C)O"%string, [1; 2; 3; 4]) /\
  smiles_text ext_g' ext_w' (fun n => n) exw_o no_stabs = Ok ("CC(C)O"%string, [9; 8; 7; 6]).
Proof.
  destruct first_component_example as [H1 [H2 [H3 [H4 [H5 [H6 _]]]]]].
  repeat (split; [assumption|]).
  split; [reflexivity|]. split; [reflexivity|].
  split; [intros st1 H; vm_compute in H; injection H as <-; reflexivity|].
  split; vm_compute; reflexivity.
Qed.
