(* C20 round 4: Model.Stereo.translate_th / translate_ct (the sign conventions every configuration theorem of props/C20.v rests on)
   ARE the bodies of MoleculeStereo._translate_tetrahedron_sign / _translate_cis_trans_sign as translated statement by statement
   from chython/algorithms/stereo.py on every run (Gen.RdkitSign, tools/gen_rdkit_sign.py; API meaning in Model.RdkitApi). *)
From Coq Require Import ZArith List String Bool Lia.
From Model Require Import PyBase PeriodicTable Stereo Rdkit RdkitApi.
From Gen Require Import StereoTables RdkitSign.
From Proofs Require Import RdkitBodyTie.
Import ListNotations.
Open Scope Z_scope.

Lemma py_next_filter (f : Z -> bool) l :
  py_next (filter f l) = match find f l with Some h => Ok h | None => Err StopIteration end.
Proof. induction l as [|x r IH]; simpl; [reflexivity|]. destruct (f x); simpl; [reflexivity|exact IH]. Qed.

Lemma len3 (l : list Z) : (Z.of_nat (List.length l) =? 3) = true -> exists a b c, l = [a; b; c].
Proof.
  intros H. apply Z.eqb_eq in H. destruct l as [|a [|b [|c [|d r]]]]; simpl in H; try lia; eauto.
Qed.
Lemma len4 (l : list Z) : (Z.of_nat (List.length l) =? 4) = true -> exists a b c d, l = [a; b; c; d].
Proof.
  intros H. apply Z.eqb_eq in H. destruct l as [|a [|b [|c [|d [|e r]]]]]; simpl in H; try lia; eauto.
Qed.

Local Opaque th_lookup ct_lookup index_of.

(* the statements from `translate = tuple(order.index(x) for x in env[:3])` on, for env of 3 or 4 atoms *)
Lemma th_core : forall o env (s : bool),
  (Z.of_nat (List.length env) =? 3) || (Z.of_nat (List.length env) =? 4) = true ->
  pbind (mapM (py_index o) (firstn 3 env)) (fun t =>
    pbind (py_getitem_th3 t) (fun v => if v then Ok (Some (py_not (Some s))) else Ok (Some s))) =
  pyres_map Some (match map (index_of o) (firstn 3 env) with
                  | [Some a; Some b; Some c] =>
                      match th_lookup a b c with
                      | Some true => Ok (negb s)
                      | Some false => Ok s
                      | None => Err KeyError
                      end
                  | _ => Err ValueError
                  end).
Proof.
  intros o env s H. apply orb_true_iff in H.
  assert (exists a b c r, env = a :: b :: c :: r) as (a & b & c & r & ->).
  { destruct H as [H|H]; [apply len3 in H as (a & b & c & ->)|apply len4 in H as (a & b & c & d & ->)]; eauto. }
  cbn [firstn map mapM]. unfold py_index.
  destruct (index_of o a) as [ia|]; [|reflexivity].
  destruct (index_of o b) as [ib|]; [|reflexivity].
  destruct (index_of o c) as [ic|]; [|reflexivity].
  cbn [pbind py_getitem_th3]. destruct (th_lookup ia ib ic) as [[|]|]; reflexivity.
Qed.

Lemma th_chain : forall isH o env (s : bool),
  (if Z.of_nat (List.length o) =? 3
   then if Z.of_nat (List.length env) =? 4
        then match pbind (py_next (filter isH env)) (fun t => Ok (o ++ [t])) with
             | Ok v => pbind (mapM (py_index v) (firstn 3 env)) (fun t =>
                         pbind (py_getitem_th3 t) (fun v => if v then Ok (Some (py_not (Some s))) else Ok (Some s)))
             | Err e => if pyexn_eqb e StopIteration then Err KeyError else Err e
             end
        else if negb (Z.of_nat (List.length env) =? 3) then Err ValueError
             else pbind (mapM (py_index o) (firstn 3 env)) (fun t =>
                    pbind (py_getitem_th3 t) (fun v => if v then Ok (Some (py_not (Some s))) else Ok (Some s)))
   else if negb ((Z.of_nat (List.length env) =? 3) || (Z.of_nat (List.length env) =? 4)) then Err ValueError
        else pbind (mapM (py_index o) (firstn 3 env)) (fun t =>
               pbind (py_getitem_th3 t) (fun v => if v then Ok (Some (py_not (Some s))) else Ok (Some s)))) =
  pyres_map Some (translate_th isH o env s).
Proof.
  intros isH o env s. unfold translate_th.
  destruct (Z.of_nat (List.length o) =? 3).
  - destruct (Z.of_nat (List.length env) =? 4) eqn:E4.
    + rewrite py_next_filter. destruct (find isH env) as [h|]; cbn [pbind pyexn_eqb]; [|reflexivity].
      apply th_core. rewrite E4. apply orb_true_r.
    + destruct (Z.of_nat (List.length env) =? 3) eqn:E3; cbn [negb]; [|reflexivity].
      apply th_core. rewrite E3. reflexivity.
  - destruct ((Z.of_nat (List.length env) =? 3) || (Z.of_nat (List.length env) =? 4)) eqn:E; cbn [negb]; [|reflexivity].
    apply th_core. exact E.
Qed.

(* _translate_tetrahedron_sign(n, env, s) with the sign given *)
Theorem tie_translate_th : forall isH th lab n env (s : bool),
  g_translate_th isH th lab n env (Some s) = pyres_map Some (py_translate_th isH th n env s).
Proof.
  intros isH th lab n env s. unfold g_translate_th, py_translate_th, py_getitem_zl.
  cbn [is_none]. cbv zeta. destruct (zget th n) as [o|]; cbn [pbind]; [|reflexivity].
  apply th_chain.
Qed.

(* _translate_tetrahedron_sign(n, env): the label of the atom itself is used, KeyError without one *)
Theorem tie_translate_th_self : forall isH th lab n env,
  g_translate_th isH th lab n env None = pyres_map Some (py_translate_th_self isH th lab n env).
Proof.
  intros isH th lab n env. unfold g_translate_th, py_translate_th_self, py_getitem_zl.
  cbn [is_none]. cbv zeta. destruct lab as [s|]; cbn [is_none]; [|reflexivity].
  destruct (zget th n) as [o|]; cbn [pbind]; [|reflexivity].
  apply th_chain.
Qed.

(* ---------------------------------------------------------------------------------------------------------------- *)
Local Transparent ct_lookup.

Ltac split_ifs :=
  repeat match goal with
         | |- context [if ?c then _ else _] => destruct c
         end.

(* the statements of _translate_cis_trans_sign after the registry look-up, for a given sign *)
Lemma ct_chain_tie : forall isH ct centers bl n m nn nm (s : bool) e,
  pget ct (n, m) = Some e ->
  g_translate_ct isH ct centers bl n m nn nm (Some s) = pyres_map Some (translate_env isH e nn nm s).
Proof.
  intros isH ct centers bl n m nn nm s [[[n0 n1] n2] n3] He.
  unfold g_translate_ct, py_getitem_ct. rewrite He. cbn [pbind is_none]. cbv zeta. cbn [is_none].
  unfold translate_env, opt_is, optz_eq, py_getitem_al, py_not, optb_truthy.
  destruct n2 as [n2|]; destruct n3 as [n3|]; cbn [is_none andb orb];
    destruct (nn =? n0); destruct (nn =? n1); destruct (nm =? n0); destruct (nm =? n1);
    try destruct (nn =? n2); try destruct (nn =? n3); try destruct (nm =? n2); try destruct (nm =? n3);
    destruct (isH nn); destruct (isH nm); destruct s; vm_compute; reflexivity.
Qed.

Theorem tie_translate_ct : forall isH ct centers bl n m nn nm (s : bool),
  g_translate_ct isH ct centers bl n m nn nm (Some s) = pyres_map Some (py_translate_ct isH ct n m nn nm s).
Proof.
  intros isH ct centers bl n m nn nm s. unfold py_translate_ct, translate_ct.
  destruct (pget ct (n, m)) as [e|] eqn:E1.
  - apply (ct_chain_tie isH ct centers bl n m nn nm s e E1).
  - destruct (pget ct (m, n)) as [e|] eqn:E2.
    + rewrite <- (ct_chain_tie isH ct centers bl m n nm nn s e E2).
      unfold g_translate_ct, py_getitem_ct. rewrite E1, E2. cbn [pbind pyexn_eqb]. cbv zeta.
      destruct e as [[[n0 n1] n2] n3]. reflexivity.
    + unfold g_translate_ct, py_getitem_ct. rewrite E1, E2. reflexivity.
Qed.

(* non-vacuity: the translated bodies compute.  [C@] with RDKit's neighbour order 3,1,2 of the registry order 1,2,3 (even: kept),
   an implicit-hydrogen centre given four neighbours, and an E/Z label re-expressed for the other substituent at one end *)
Example sign_examples :
  g_translate_th (fun x => x =? 9) [(5, [1; 2; 3])] None 5 [3; 1; 2] (Some true) = Ok (Some true) /\
  g_translate_th (fun x => x =? 9) [(5, [1; 2; 3])] None 5 [2; 1; 3] (Some true) = Ok (Some false) /\
  g_translate_th (fun x => x =? 9) [(5, [1; 2; 3])] None 5 [9; 1; 2; 3] (Some true) = Ok (Some false) /\
  g_translate_th (fun x => x =? 9) [(5, [1; 2; 3])] None 5 [8; 1; 2; 3] (Some true) = Err KeyError /\
  g_translate_ct (fun x => x =? 9) [(1, 2, (3, 4, Some 5, None))] [] (fun _ _ => Ok None) 1 2 3 4 (Some true) = Ok (Some true) /\
  g_translate_ct (fun x => x =? 9) [(1, 2, (3, 4, Some 5, None))] [] (fun _ _ => Ok None) 1 2 5 4 (Some true) = Ok (Some false) /\
  g_translate_ct (fun x => x =? 9) [(1, 2, (3, 4, Some 5, None))] [] (fun _ _ => Ok None) 2 1 9 5 (Some true) = Ok (Some true) /\
  g_translate_ct (fun x => x =? 9) [(1, 2, (3, 4, Some 5, None))] [] (fun _ _ => Ok None) 1 2 7 4 (Some true) = Err KeyError.
Proof. vm_compute. repeat split. Qed.
