(* C06 -- round 4: the STATE clause of the property (cached ring / component views kept across edits).
   coq/gen/RingsCacheKeys.v is regenerated on every check run from MoleculeContainer.flush_cache and the cache part of
   MoleculeContainer.copy (tools/gen_ringscache.py, ast, statement by statement, fail closed).  Proved about the TRANSLATED code:
   exactly the five ring views survive keep_sssr, the component list survives ONLY keep_components, nothing else survives, and the
   soundness contract of a partial flush: it leaves a valid cache exactly when the edit preserved the views that the flags keep. *)
From Coq Require Import String List Bool.
From Gen Require Import RingsCacheKeys.
Import ListNotations.
Open Scope string_scope.

Definition ring_keys : list string := ["sssr"; "atoms_rings"; "atoms_rings_sizes"; "not_special_connectivity"; "rings_count"].
Definition components_key : string := "connected_components".

Section Spec.
Variable V : Type.
Notation cache := (cache_t V).

Lemma cget_cput : forall (c : cache) k v k', cget V (cput V c k v) k' = if String.eqb k k' then Some v else cget V c k'.
Proof.
  induction c as [|[k0 v0] t IH]; intros k v k'; cbn [cput cget].
  - reflexivity.
  - destruct (String.eqb k0 k) eqn:E; cbn [cget].
    + apply String.eqb_eq in E. rewrite E. destruct (String.eqb k k'); reflexivity.
    + rewrite IH. destruct (String.eqb k0 k') eqn:E2; [|reflexivity].
      apply String.eqb_eq in E2. rewrite <- E2, String.eqb_sym, E. reflexivity.
Qed.

Definition keep_step (keys : list string) (acc : cache) (kv : string * V) : cache :=
  if smem (fst kv) keys then cput V acc (fst kv) (snd kv) else acc.

Lemma fold_keep_get : forall keys (c : cache) acc k, NoDup (map fst c) ->
  cget V (fold_left (keep_step keys) c acc) k =
  if smem k keys then match cget V c k with Some v => Some v | None => cget V acc k end else cget V acc k.
Proof.
  intros keys c. induction c as [|[k0 v0] t IH]; intros acc k ND; cbn [fold_left cget].
  - destruct (smem k keys); reflexivity.
  - inversion ND as [|? ? Hn ND']; subst. rewrite IH by exact ND'. unfold keep_step. cbn [fst snd].
    destruct (String.eqb k0 k) eqn:E.
    + apply String.eqb_eq in E. subst k0.
      assert (cget V t k = None) as ->.
      { clear -Hn. induction t as [|[a b] t IH]; [reflexivity|]. cbn [cget]. destruct (String.eqb a k) eqn:E.
        - apply String.eqb_eq in E. subst a. exfalso. apply Hn. left. reflexivity.
        - apply IH. intro H. apply Hn. right. exact H. }
      destruct (smem k keys) eqn:M; [rewrite cget_cput, String.eqb_refl|]; reflexivity.
    + destruct (smem k keys) eqn:M.
      * destruct (cget V t k); [reflexivity|]. destruct (smem k0 keys); [rewrite cget_cput, E|]; reflexivity.
      * destruct (smem k0 keys); [rewrite cget_cput, E|]; reflexivity.
Qed.

(* WHAT SURVIVES flush_cache(keep_sssr=ks, keep_components=kc): the value of k is kept exactly when (ks and k is one of the five
   ring views) or (kc and k is the component list); every other attribute is gone *)
Theorem flush_cache_keeps : forall ks kc (c : cache) k, NoDup (map fst c) ->
  cget V (gen_flush_cache V ks kc c) k =
  if (ks && smem k ring_keys) || (kc && String.eqb components_key k) then cget V c k else None.
Proof.
  intros ks kc c k ND. unfold gen_flush_cache.
  change (fun acc kv => if smem (fst kv) _ then cput V acc (fst kv) (snd kv) else acc) with (keep_step ring_keys).
  assert (R : forall acc, cget V (if ks then fold_left (keep_step ring_keys) c acc else acc) k =
                          if ks && smem k ring_keys then match cget V c k with Some v => Some v | None => cget V acc k end else cget V acc k).
  { intro acc. destruct ks; [|reflexivity]. cbn [andb]. apply fold_keep_get. exact ND. }
  destruct kc; cbn [andb orb].
  - destruct (cget V c "connected_components") as [v|] eqn:G.
    + rewrite cget_cput. fold components_key. destruct (String.eqb components_key k) eqn:E.
      * apply String.eqb_eq in E. subst k. rewrite orb_true_r. exact (eq_sym G).
      * rewrite orb_false_r, R. cbn [cget]. destruct (ks && smem k ring_keys); [destruct (cget V c k)|]; reflexivity.
    + rewrite R. cbn [cget]. destruct (String.eqb components_key k) eqn:E.
      * apply String.eqb_eq in E. subst k. rewrite orb_true_r. unfold components_key. rewrite G.
        destruct ks; reflexivity.
      * rewrite orb_false_r. destruct (ks && smem k ring_keys); [destruct (cget V c k)|]; reflexivity.
  - rewrite orb_false_r, R. cbn [cget]. destruct (ks && smem k ring_keys); [destruct (cget V c k)|]; reflexivity.
Qed.

(* the same for copy(keep_sssr=ks, keep_components=kc) *)
Theorem copy_cache_keeps : forall ks kc (c : cache) k, NoDup (map fst c) ->
  cget V (gen_copy_cache V ks kc c) k =
  if (ks && smem k ring_keys) || (kc && String.eqb components_key k) then cget V c k else None.
Proof. exact flush_cache_keeps. Qed.

(* the component list does NOT survive a flush that does not ask for it -- whatever keep_sssr says *)
Theorem flush_cache_drops_components : forall ks (c : cache), NoDup (map fst c) ->
  cget V (gen_flush_cache V ks false c) components_key = None.
Proof. intros ks c ND. rewrite flush_cache_keeps by exact ND. destruct ks; reflexivity. Qed.

(* and a full flush drops everything *)
Theorem flush_cache_full : forall (c : cache) k, NoDup (map fst c) -> cget V (gen_flush_cache V false false c) k = None.
Proof. intros c k ND. rewrite flush_cache_keeps by exact ND. reflexivity. Qed.

(* ---- the contract.  M = structures, view k m = what attribute k evaluates to on structure m. *)
Variable M : Type.
Variable view : string -> M -> V.
Definition cache_valid (m : M) (c : cache) : Prop := forall k v, cget V c k = Some v -> v = view k m.

(* SOUND: a cache that was valid for m, flushed with the flags (ks, kc), is valid for the edited structure m' whenever the edit
   preserved the five ring views (if ks) and the component list (if kc) *)
Theorem flush_cache_sound : forall ks kc m m' (c : cache), NoDup (map fst c) -> cache_valid m c ->
  (ks = true -> forall k, In k ring_keys -> view k m' = view k m) ->
  (kc = true -> view components_key m' = view components_key m) ->
  cache_valid m' (gen_flush_cache V ks kc c).
Proof.
  intros ks kc m m' c ND Val Hs Hc k v G. rewrite flush_cache_keeps in G by exact ND.
  destruct ((ks && smem k ring_keys) || (kc && String.eqb components_key k)) eqn:T; [|discriminate].
  rewrite (Val k v G). apply orb_true_iff in T. destruct T as [T|T]; apply andb_true_iff in T; destruct T as [T1 T2].
  - symmetry. apply Hs; [exact T1|]. unfold smem in T2. apply existsb_exists in T2. destruct T2 as [x [Hx E]].
    apply String.eqb_eq in E. subst x. exact Hx.
  - apply String.eqb_eq in T2. subst k. symmetry. apply Hc. exact T1.
Qed.

(* NECESSARY: if the edit changed a view that the flags keep and that was cached, the flushed cache is stale *)
Theorem flush_cache_stale : forall ks kc m m' (c : cache) k, NoDup (map fst c) -> cache_valid m c ->
  (ks && smem k ring_keys) || (kc && String.eqb components_key k) = true ->
  cget V c k <> None -> view k m' <> view k m ->
  ~ cache_valid m' (gen_flush_cache V ks kc c).
Proof.
  intros ks kc m m' c k ND Val T G D Val'. destruct (cget V c k) as [v|] eqn:E; [|apply G; reflexivity].
  assert (H : cget V (gen_flush_cache V ks kc c) k = Some v) by (rewrite flush_cache_keeps, T by exact ND; exact E).
  apply D. rewrite <- (Val' k v H). apply Val. exact E.
Qed.
End Spec.

(* non-vacuity: a cache with every view and one other attribute, flushed with keep_sssr only *)
Definition flush_cache_example_statement : Prop :=
  map fst (gen_flush_cache nat true false [("sssr", 1); ("connected_components", 2); ("rings_count", 3); ("atoms_order", 4);
                                           ("not_special_connectivity", 5)]) = ["sssr"; "rings_count"; "not_special_connectivity"] /\
  map fst (gen_flush_cache nat false true [("sssr", 1); ("connected_components", 2); ("rings_count", 3)]) = ["connected_components"] /\
  map fst (gen_copy_cache nat true true [("connected_components", 2); ("sssr", 1); ("skin_graph", 7)]) = ["sssr"; "connected_components"].
Example flush_cache_example : flush_cache_example_statement.
Proof. unfold flush_cache_example_statement. repeat split; vm_compute; reflexivity. Qed.
