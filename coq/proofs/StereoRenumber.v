(* C12, round 4: the MEANING OF A STORED SIGN DOES NOT DEPEND ON THE ATOM NUMBERS.  For every injective renumbering f (Graph.remap,
   atom-map numbers of a mapped SMILES) the sign translations, the SMILES reader and the SMILES writer give the same result on the
   renumbered arguments.  Together with C12_registries_equivariant (the registries, incl. their order, are renumbered) this is the
   numbering independence of stereo labels, which was only searched before. *)
From Coq Require Import ZArith List Bool Lia.
From Model Require Import PyBase Graph Stereo StereoRegistry StereoSmiles.
From Proofs Require Import StereoRegistryProofs.
Import ListNotations.
Open Scope Z_scope.

Section Renumber.
  Variable f : Z -> Z.
  Hypothesis f_inj : forall x y, f x = f y -> x = y.
  Variables isH isH' : Z -> bool.
  Hypothesis isH_f : forall x, isH' (f x) = isH x.

  Lemma f_eqb : forall x y, (f x =? f y) = (x =? y).
  Proof.
    intros x y. destruct (Z.eqb_spec x y) as [->|N]; [apply Z.eqb_refl|].
    apply Z.eqb_neq. intro E. apply N, f_inj, E.
  Qed.

  Lemma index_from_map : forall l x i, index_from (f x) (map f l) i = index_from x l i.
  Proof. induction l as [|y r IH]; intros x i; simpl; [reflexivity|]. rewrite f_eqb, IH. reflexivity. Qed.

  Lemma index_of_map : forall l x, index_of (map f l) (f x) = index_of l x.
  Proof. intros. apply index_from_map. Qed.

  Lemma find_map : forall l, find isH' (map f l) = option_map f (find isH l).
  Proof. induction l as [|y r IH]; simpl; [reflexivity|]. rewrite isH_f. destruct (isH y); [reflexivity | exact IH]. Qed.

  Lemma map_index_of_map : forall o l, map (index_of (map f o)) (map f l) = map (index_of o) l.
  Proof. intros o l. rewrite map_map. apply map_ext. intro x. apply index_of_map. Qed.

  Theorem translate_th_renumber : forall order env s,
    translate_th isH' (map f order) (map f env) s = translate_th isH order env s.
  Proof.
    intros order env s. unfold translate_th. rewrite !map_length, find_map.
    assert (T : forall o, map (index_of (map f o)) (firstn 3 (map f env)) = map (index_of o) (firstn 3 env)).
    { intro o. rewrite firstn_map. apply map_index_of_map. }
    destruct (Z.of_nat (length order) =? 3).
    - destruct (Z.of_nat (length env) =? 4).
      + destruct (find isH env) as [h|]; simpl; [|reflexivity].
        replace (map f order ++ [f h]) with (map f (order ++ [h])) by (rewrite map_app; reflexivity).
        rewrite T. reflexivity.
      + destruct (Z.of_nat (length env) =? 3); [|reflexivity]. rewrite T. reflexivity.
    - destruct ((Z.of_nat (length env) =? 3) || (Z.of_nat (length env) =? 4)); [|reflexivity]. rewrite T. reflexivity.
  Qed.

  Notation rn_env4 := (rn_env f).

  Lemma opt_is_map : forall o x, opt_is (option_map f o) (f x) isH' = opt_is o x isH.
  Proof. intros [y|] x; simpl; [apply f_eqb | apply isH_f]. Qed.

  Theorem translate_env_renumber : forall e nn nm s,
    translate_env isH' (rn_env4 e) (f nn) (f nm) s = translate_env isH e nn nm s.
  Proof.
    intros [[[n0 n1] n2] n3] nn nm s. unfold translate_env, rn_env. rewrite !f_eqb, !opt_is_map. reflexivity.
  Qed.

  Theorem translate_ct_renumber : forall e1 e2 nn nm s,
    translate_ct isH' (option_map rn_env4 e1) (option_map rn_env4 e2) (f nn) (f nm) s = translate_ct isH e1 e2 nn nm s.
  Proof.
    intros [e1|] [e2|] nn nm s; simpl; try apply translate_env_renumber; reflexivity.
  Qed.

  (* the SMILES reader / writer on a renumbered molecule (hasH, the written mark and the first-atom test are functions of the
     string, not of the numbers) *)
  Theorem read_th_renumber : forall order adj mark hasH np,
    read_th isH' (map f order) (map f adj) mark hasH np = read_th isH order adj mark hasH np.
  Proof. intros. unfold read_th. apply translate_th_renumber. Qed.

  Theorem write_th_renumber : forall order adj s hasH first,
    write_th isH' (map f order) (map f adj) s hasH first = write_th isH order adj s hasH first.
  Proof. intros. unfold write_th. rewrite translate_th_renumber. reflexivity. Qed.

  Lemma in_env_map : forall x e, in_env (f x) (rn_env4 e) = in_env x e.
  Proof.
    intros x [[[n0 n1] n2] n3]. unfold in_env, rn_env. rewrite !f_eqb.
    destruct n2, n3; simpl; rewrite ?f_eqb; reflexivity.
  Qed.

  Lemma first_ref_map : forall e l, first_ref isH' (rn_env4 e) (map f l) = option_map f (first_ref isH e l).
  Proof.
    intros e l. unfold first_ref. induction l as [|y r IH]; simpl; [reflexivity|].
    rewrite in_env_map, isH_f. destruct (in_env y e || isH y); [reflexivity | exact IH].
  Qed.

  Theorem read_al_renumber : forall e a1 a2 mark hasH np,
    read_al isH' (rn_env4 e) (map f a1) (map f a2) mark hasH np = read_al isH e a1 a2 mark hasH np.
  Proof.
    intros. unfold read_al. rewrite !first_ref_map.
    destruct (first_ref isH e a1), (first_ref isH e a2); simpl; try reflexivity.
    unfold translate_al. apply translate_env_renumber.
  Qed.

  Theorem write_al_renumber : forall e a1 a2 s,
    write_al isH' (rn_env4 e) (map f a1) (map f a2) s = write_al isH e a1 a2 s.
  Proof.
    intros. unfold write_al. rewrite !first_ref_map.
    destruct (first_ref isH e a1), (first_ref isH e a2); simpl; try reflexivity.
    unfold translate_al. apply translate_env_renumber.
  Qed.

  Theorem read_ct_renumber : forall e fwd n1 n2 s1 s2,
    read_ct isH' (rn_env4 e) fwd (f n1) (f n2) s1 s2 = read_ct isH e fwd n1 n2 s1 s2.
  Proof. intros. unfold read_ct, tr_ct. destruct fwd; apply translate_env_renumber. Qed.

  Theorem write_ct_renumber : forall e kf v on base s,
    write_ct isH' (rn_env4 e) kf (f v) (f on) base s = write_ct isH e kf v on base s.
  Proof. intros. unfold write_ct, tr_ct. destruct kf; rewrite translate_env_renumber; reflexivity. Qed.
End Renumber.

(* on molecules: Graph.remap with an injective map s turns g into rn_mol s g, whose registries are the renumbered registries
   (registries_rn); the sign stored on a centre then means the same arrangement: every translation on renumbered arguments, with the
   hydrogens of the renumbered molecule, gives the result of the original *)
Theorem stored_sign_renumber : forall (s : Z -> Z), (forall x y, s x = s y -> x = y) -> forall (g : mol),
  (forall order env sg, translate_th (is_h (rn_mol s g)) (map s order) (map s env) sg = translate_th (is_h g) order env sg) /\
  (forall e1 e2 nn nm sg, translate_ct (is_h (rn_mol s g)) (option_map (rn_env s) e1) (option_map (rn_env s) e2) (s nn) (s nm) sg =
                          translate_ct (is_h g) e1 e2 nn nm sg) /\
  (forall e nn nm sg, translate_al (is_h (rn_mol s g)) (rn_env s e) (s nn) (s nm) sg = translate_al (is_h g) e nn nm sg).
Proof.
  intros s inj g.
  assert (H : forall x, is_h (rn_mol s g) (s x) = is_h g x) by (intro x; apply is_h_rn; exact inj).
  repeat split; intros.
  - apply (translate_th_renumber s inj _ _ H).
  - apply (translate_ct_renumber s inj _ _ H).
  - apply (translate_env_renumber s inj _ _ H).
Qed.

(* non-vacuity: atom-map numbers 7, 2, 9, 10 on the string positions 1..4 ([CH3:7][C@H:2]([F:9])[Cl:10]) *)
Definition ex_map (x : Z) : Z := match x with 1 => 7 | 2 => 2 | 3 => 9 | 4 => 10 | _ => x + 100 end.
Theorem renumber_example :
  read_th (fun _ => false) [7; 9; 10] [7; 9; 10] true true false = Ok true /\
  read_th (fun _ => false) (map ex_map [1; 3; 4]) (map ex_map [1; 3; 4]) true true false =
  read_th (fun _ => false) [1; 3; 4] [1; 3; 4] true true false.
Proof. vm_compute. split; reflexivity. Qed.
