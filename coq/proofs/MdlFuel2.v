(* C11: FUEL SUFFICIENCY of the two fuelled text functions.  `replace` (str.replace, used for the SDF key escapes) runs replace_fuel with
   S (length s); `cook` / the start-tag scanner of the MRV model runs scan_attrs with S (length text).  Any larger fuel gives the same
   result: the value at the chosen fuel is THE value, the out-of-fuel branch (`s` unchanged resp. None) is never what decides it. *)
From Coq Require Import ZArith List String Ascii Bool Lia.
From Model Require Import PyBase Mdl Mrv.
Import ListNotations.
Local Notation length := List.length.

Lemma skipn_le {X} k (l : list X) : (length (skipn k l) <= length l)%nat.
Proof. rewrite skipn_length. lia. Qed.

Lemma replace_fuel_stable old new : old <> [] -> forall f1 f2 s, (length s < f1)%nat -> (length s < f2)%nat ->
  replace_fuel f1 old new s = replace_fuel f2 old new s.
Proof.
  intros Hold. induction f1 as [|f1 IH]; intros f2 s H1 H2; [lia|]. destruct f2 as [|f2]; [lia|].
  cbn [replace_fuel]. destruct s as [|c r]; [reflexivity|]. cbn [length] in H1, H2.
  destruct (startswith old (c :: r)).
  - f_equal. destruct old as [|o old']; [contradiction|]. cbn [length skipn].
    pose proof (skipn_le (length old') r). apply IH; lia.
  - f_equal. apply IH; lia.
Qed.
Theorem replace_fuel_enough : forall old new s f, (length s < f)%nat ->
  replace old new s = match old with [] => s | _ => replace_fuel f old new s end.
Proof.
  intros old new s f Hf. unfold replace. destruct old as [|o old']; [reflexivity|].
  apply replace_fuel_stable; [discriminate | lia | exact Hf].
Qed.

Lemma split1_aux_shorter c : forall s cur k rest, split1_aux c s cur = Some (k, rest) -> (length rest < length s)%nat.
Proof.
  induction s as [|d s IH]; intros cur k rest H; cbn [split1_aux] in H; [discriminate|].
  cbn [length]. destruct (Ascii.eqb d c); [inversion H; subst; lia | apply IH in H; lia].
Qed.
Lemma scan_attrs_stable : forall f1 f2 s, (length s < f1)%nat -> (length s < f2)%nat -> scan_attrs f1 s = scan_attrs f2 s.
Proof.
  induction f1 as [|f1 IH]; intros f2 s H1 H2; [lia|]. destruct f2 as [|f2]; [lia|].
  cbn [scan_attrs]. destruct s as [|c r]; [reflexivity|]. cbn [length] in H1, H2.
  destruct (Ascii.eqb c sp); [| reflexivity].
  destruct (split1 "="%char r) as [[k [|q r']]|] eqn:E1; try reflexivity.
  destruct (Ascii.eqb q dq); [| reflexivity].
  destruct (split1 dq r') as [[v r'']|] eqn:E2; [| reflexivity].
  apply split1_aux_shorter in E1. apply split1_aux_shorter in E2. cbn [length] in E1.
  f_equal. apply IH; lia.
Qed.
Theorem cook_fuel_enough : forall l f, (length (render_attrs l) < f)%nat -> cook l = scan_attrs f (render_attrs l).
Proof. intros l f Hf. unfold cook. apply scan_attrs_stable; [lia | exact Hf]. Qed.
