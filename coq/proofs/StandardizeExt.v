(* C14 extension: hydrogens.  explicify_hydrogens / implicify_hydrogens (Model.Standardize section 9) conserve the heavy
   atoms, the net charge and the total hydrogen count; implicify undoes explicify. *)
From Coq Require Import ZArith List String Bool Lia.
From Model Require Import PyBase Graph PeriodicTable Standardize.
From Gen Require Import Elements StdRules.
From Proofs Require Import StandardizeProofs.
Import ListNotations.
Open Scope Z_scope.

(* ---- what is conserved ---- *)
Definition is_h (na : Z * atom) : bool := a_num (snd na) =? 1.
(* the non-hydrogen atoms in order: number, element, isotope, charge, radical *)
Definition heavy_view (l : list (Z * atom)) : list (Z * Z * option Z * Z * bool) :=
  map (fun na => (fst na, a_num (snd na), a_iso (snd na), a_chg (snd na), a_rad (snd na))) (filter (fun na => negb (is_h na)) l).
Definition hval (a : atom) : Z := match a_h a with Some h => h | None => 0 end.
Definition implicit_sum (l : list (Z * atom)) : Z := zsum (map (fun na => hval (snd na)) l).
Definition h_atoms (l : list (Z * atom)) : Z := Z.of_nat (List.length (filter is_h l)).
(* implicit hydrogens + hydrogen atoms (any isotope) *)
Definition total_h (g : mol) : Z := implicit_sum (m_atoms g) + h_atoms (m_atoms g).
(* hydrogen counts are known and not negative *)
Definition hs_known (l : list (Z * atom)) : Prop := forall na, In na l -> exists h, a_h (snd na) = Some h /\ 0 <= h.

Lemma heavy_view_app a b : heavy_view (a ++ b) = heavy_view a ++ heavy_view b.
Proof. unfold heavy_view. rewrite filter_app, map_app. reflexivity. Qed.
Lemma implicit_sum_app a b : implicit_sum (a ++ b) = implicit_sum a + implicit_sum b.
Proof. unfold implicit_sum. rewrite map_app. apply zsum_app. Qed.
Lemma h_atoms_app a b : h_atoms (a ++ b) = h_atoms a + h_atoms b.
Proof. unfold h_atoms. rewrite filter_app, app_length. lia. Qed.
Lemma csum_app a b : csum (a ++ b) = csum a + csum b.
Proof. unfold csum. rewrite map_app. apply zsum_app. Qed.

(* ================================================================================================
   explicify
   ================================================================================================ *)
Definition zero_h (ns : list Z) (na : Z * atom) : Z * atom :=
  if zmem (fst na) ns then (fst na, set_h (Some 0) (snd na)) else na.
Fixpoint new_hs (k : nat) (m : Z) : list (Z * atom) :=
  match k with O => [] | S k => (m, h_atom) :: new_hs k (m + 1) end.

Lemma zero_h_h_atom ns m : zero_h ns (m, h_atom) = (m, h_atom).
Proof. unfold zero_h. cbn [fst snd]. destruct (zmem m ns); reflexivity. Qed.
Lemma zero_h_new_hs ns k : forall m, map (zero_h ns) (new_hs k m) = new_hs k m.
Proof. induction k as [|k IH]; intros m; cbn [new_hs map]; [reflexivity|]. rewrite zero_h_h_atom, IH. reflexivity. Qed.

Lemma add_hs_atoms ns : forall g m,
  m_atoms (add_hs g ns m) = map (zero_h ns) (m_atoms g) ++ new_hs (List.length ns) m.
Proof.
  induction ns as [|n ns IH]; intros g m; cbn [add_hs List.length new_hs].
  - rewrite app_nil_r. symmetry. erewrite map_ext; [apply map_id|]. intros na. unfold zero_h. reflexivity.
  - rewrite IH. unfold add_h. cbn [m_atoms]. rewrite map_app. cbn [map]. rewrite zero_h_h_atom.
    rewrite <- app_assoc. cbn [app]. f_equal.
    unfold upd_atoms. rewrite map_map. apply map_ext. intros [k a]. unfold zero_h. cbn [fst snd zmem existsb].
    fold (zmem k ns). destruct (k =? n) eqn:E; cbn [fst snd orb].
    + destruct (zmem k ns); reflexivity.
    + reflexivity.
Qed.

Lemma heavy_view_zero_h ns l : heavy_view (map (zero_h ns) l) = heavy_view l.
Proof.
  unfold heavy_view. induction l as [|[k a] l IH]; [reflexivity|]. cbn [map filter].
  assert (E : is_h (zero_h ns (k, a)) = is_h (k, a)) by (unfold zero_h, is_h; cbn [fst snd]; destruct (zmem k ns); reflexivity).
  rewrite E. destruct (is_h (k, a)); cbn [negb map]; [exact IH|].
  rewrite IH. f_equal. unfold zero_h. cbn [fst snd]. destruct (zmem k ns); reflexivity.
Qed.
Lemma heavy_view_new_hs k : forall m, heavy_view (new_hs k m) = [].
Proof.
  induction k as [|k IH]; intros m; [reflexivity|]. unfold heavy_view in *.
  change (filter (fun na => negb (is_h na)) (new_hs (S k) m)) with (filter (fun na => negb (is_h na)) (new_hs k (m + 1))). apply IH.
Qed.
Lemma csum_zero_h ns l : csum (map (zero_h ns) l) = csum l.
Proof.
  unfold csum. rewrite map_map. f_equal. apply map_ext. intros [k a]. unfold zero_h. cbn [fst snd]. destruct (zmem k ns); reflexivity.
Qed.
Lemma csum_new_hs k : forall m, csum (new_hs k m) = 0.
Proof. induction k as [|k IH]; intros m; [reflexivity|]. cbn [new_hs]. rewrite csum_cons, IH. reflexivity. Qed.
Lemma h_atoms_zero_h ns l : h_atoms (map (zero_h ns) l) = h_atoms l.
Proof.
  unfold h_atoms. f_equal. induction l as [|[k a] l IH]; [reflexivity|]. cbn [map filter].
  assert (E : is_h (zero_h ns (k, a)) = is_h (k, a)) by (unfold zero_h, is_h; cbn [fst snd]; destruct (zmem k ns); reflexivity).
  rewrite E. destruct (is_h (k, a)); cbn [List.length]; rewrite IH; reflexivity.
Qed.
Lemma h_atoms_new_hs k : forall m, h_atoms (new_hs k m) = Z.of_nat k.
Proof.
  unfold h_atoms. induction k as [|k IH]; intros m; [reflexivity|].
  change (filter is_h (new_hs (S k) m)) with ((m, h_atom) :: filter is_h (new_hs k (m + 1))).
  cbn [List.length]. rewrite !Nat2Z.inj_succ, IH. reflexivity.
Qed.
Lemma implicit_sum_new_hs k : forall m, implicit_sum (new_hs k m) = 0.
Proof. unfold implicit_sum. induction k as [|k IH]; intros m; [reflexivity|]. cbn [new_hs map zsum fold_right]. fold (zsum (map (fun na => hval (snd na)) (new_hs k (m + 1)))). rewrite IH. reflexivity. Qed.

(* to_add lists every atom as often as it has hydrogens *)
Lemma to_add_spec l : forall ns, to_add l = Ok ns -> hs_known l ->
  implicit_sum (map (zero_h ns) l) = 0 /\ Z.of_nat (List.length ns) = implicit_sum l.
Proof.
  induction l as [|[k a] l IH]; intros ns H Hk.
  - inversion H. split; reflexivity.
  - cbn [to_add] in H. destruct (a_h a) as [h|] eqn:Eh; [|discriminate].
    destruct (to_add l) as [t|] eqn:Et; [|discriminate]. inversion H; subst ns. clear H.
    assert (Hk' : hs_known l) by (intros na Hna; apply Hk; right; exact Hna).
    destruct (Hk (k, a) (or_introl eq_refl)) as [h' [Hh' Hpos]]. cbn [snd] in Hh'. rewrite Eh in Hh'. inversion Hh'; subst h'.
    destruct (IH t eq_refl Hk') as [IH1 IH2]. split.
    + unfold implicit_sum in *. cbn [map zsum fold_right].
      fold (zsum (map (fun na => hval (snd na)) (map (zero_h (repeat k (Z.to_nat h) ++ t)) l))).
      assert (Hrest : zsum (map (fun na => hval (snd na)) (map (zero_h (repeat k (Z.to_nat h) ++ t)) l)) = 0).
      { (* every entry of l is already zeroed by t, or has count 0 *)
        clear - IH1 Hk'. revert IH1. generalize (repeat k (Z.to_nat h)) as pre. intros pre.
        induction l as [|[k' a'] l IHl]; intros H0; [reflexivity|].
        assert (Hk'' : hs_known l) by (intros na Hna; apply Hk'; right; exact Hna).
        destruct (Hk' (k', a') (or_introl eq_refl)) as [h' [Hh' Hp']]. cbn [snd] in Hh'.
        cbn [map zsum fold_right] in *.
        fold (zsum (map (fun na => hval (snd na)) (map (zero_h t) l))) in H0.
        fold (zsum (map (fun na => hval (snd na)) (map (zero_h (pre ++ t)) l))).
        assert (Hnn : forall ns0 (l0 : list (Z * atom)), hs_known l0 -> 0 <= zsum (map (fun na => hval (snd na)) (map (zero_h ns0) l0))).
        { intros ns0 l0. induction l0 as [|[k0 a0] l0 IH0]; intros Hk0; [cbn; lia|].
          cbn [map zsum fold_right]. fold (zsum (map (fun na => hval (snd na)) (map (zero_h ns0) l0))).
          assert (0 <= hval (snd (zero_h ns0 (k0, a0)))).
          { unfold zero_h. cbn [fst snd]. destruct (zmem k0 ns0); cbn [snd]; [unfold hval; cbn; lia|].
            destruct (Hk0 (k0, a0) (or_introl eq_refl)) as [x [Hx Hx']]. cbn [snd] in Hx. unfold hval. rewrite Hx. exact Hx'. }
          assert (0 <= zsum (map (fun na => hval (snd na)) (map (zero_h ns0) l0))) by (apply IH0; intros na Hna; apply Hk0; right; exact Hna).
          lia. }
        pose proof (Hnn t l Hk'') as Hn1.
        assert (Hhead : 0 <= hval (snd (zero_h t (k', a')))).
        { unfold zero_h. cbn [fst snd]. destruct (zmem k' t); cbn [snd]; unfold hval; [cbn; lia|rewrite Hh'; exact Hp']. }
        assert (Hh0 : hval (snd (zero_h t (k', a'))) = 0) by lia.
        assert (Ht0 : zsum (map (fun na => hval (snd na)) (map (zero_h t) l)) = 0) by lia.
        rewrite (IHl Hk'' Ht0), Z.add_0_r.
        unfold zero_h in *. cbn [fst snd] in *. rewrite zmem_app. destruct (zmem k' t); cbn [snd].
        - rewrite orb_true_r. reflexivity.
        - rewrite orb_false_r. destruct (zmem k' pre); cbn [snd]; [reflexivity|exact Hh0]. }
      rewrite Hrest, Z.add_0_r. unfold zero_h. cbn [fst snd]. rewrite zmem_app.
      destruct (Z.eq_dec h 0) as [-> | Hne].
      * destruct (zmem k (repeat k (Z.to_nat 0)) || zmem k t); cbn [snd]; unfold hval; cbn; [reflexivity|rewrite Eh; reflexivity].
      * assert (Hin : zmem k (repeat k (Z.to_nat h)) = true).
        { apply zmem_In. destruct (Z.to_nat h) eqn:En; [lia|]. left. reflexivity. }
        rewrite Hin. cbn [orb snd]. reflexivity.
    + rewrite app_length, repeat_length, Nat2Z.inj_add, Z2Nat.id by lia. rewrite IH2.
      unfold implicit_sum. cbn [map zsum fold_right snd]. unfold hval at 2. rewrite Eh. reflexivity.
Qed.

Theorem explicify_conserves g g' : hs_known (m_atoms g) -> explicify g = Ok g' ->
  heavy_view (m_atoms g') = heavy_view (m_atoms g) /\ total_charge g' = total_charge g /\ total_h g' = total_h g /\
  implicit_sum (m_atoms g') = 0.
Proof.
  intros Hk. unfold explicify. destruct (to_add (m_atoms g)) as [ns|] eqn:Et; [|discriminate].
  destruct (to_add_spec _ _ Et Hk) as [Hz Hlen].
  assert (Hgen : forall m, heavy_view (m_atoms (add_hs g ns m)) = heavy_view (m_atoms g) /\
                           total_charge (add_hs g ns m) = total_charge g /\ total_h (add_hs g ns m) = total_h g /\
                           implicit_sum (m_atoms (add_hs g ns m)) = 0).
  { intros m. unfold total_charge, total_h. fold (csum (m_atoms (add_hs g ns m))). fold (csum (m_atoms g)). rewrite add_hs_atoms.
    rewrite heavy_view_app, heavy_view_zero_h, heavy_view_new_hs, app_nil_r.
    rewrite csum_app, csum_zero_h, csum_new_hs, implicit_sum_app, h_atoms_app, h_atoms_zero_h, h_atoms_new_hs, implicit_sum_new_hs, Hz, Hlen.
    repeat split; lia. }
  destruct ns as [|n ns].
  - intros H. inversion H; subst g'. specialize (Hgen 0). cbn [add_hs] in Hgen. exact Hgen.
  - intros H. inversion H; subst g'. apply Hgen.
Qed.

(* ================================================================================================
   implicify: heavy atoms
   ================================================================================================ *)
Lemma In_zget {V} (l : list (Z * V)) n v : NoDup (keys l) -> In (n, v) l -> zget l n = Some v.
Proof.
  induction l as [|[k x] l IH]; intros Hnd Hin; [destruct Hin|].
  cbn [keys map fst] in Hnd. inversion Hnd as [|? ? Hnotin Hnd']; subst. cbn [zget].
  destruct Hin as [Heq | Hin].
  - inversion Heq; subst. rewrite Z.eqb_refl. reflexivity.
  - destruct (n =? k) eqn:E; [|exact (IH Hnd' Hin)].
    apply Z.eqb_eq in E. subst. exfalso. apply Hnotin. change (In k (keys l)). unfold keys. apply (in_map fst) in Hin. exact Hin.
Qed.

(* every hydrogen recorded in the `explicit` dictionary is a hydrogen atom of g *)
Definition hs_hydrogens (g : mol) (d : list (Z * list Z)) : Prop :=
  forall k l x, In (k, l) d -> In x l -> exists a, atom_of g x = Some a /\ a_num a = 1.

Lemma dl_append_hydrogens g d m n a : hs_hydrogens g d -> atom_of g n = Some a -> a_num a = 1 -> hs_hydrogens g (dl_append d m n).
Proof.
  intros Hd Ha Hn. induction d as [|[k' l'] d IH]; cbn [dl_append].
  - intros k l x [Heq | []] Hx. inversion Heq; subst. destruct Hx as [-> | []]. exists a. auto.
  - destruct (k' =? m).
    + intros k l x [Heq | Hin] Hx.
      * inversion Heq; subst. apply in_app_or in Hx. destruct Hx as [Hx | [-> | []]].
        -- exact (Hd k l' x (or_introl eq_refl) Hx).
        -- exists a. auto.
      * exact (Hd k l x (or_intror Hin) Hx).
    + intros k l x [Heq | Hin] Hx.
      * inversion Heq; subst. exact (Hd k l x (or_introl eq_refl) Hx).
      * apply (IH (fun k0 l0 x0 H0 => Hd k0 l0 x0 (or_intror H0)) k l x Hin Hx).
Qed.

Lemma scan_h_bonds_hydrogens g n a nb : atom_of g n = Some a -> a_num a = 1 -> forall d d',
  scan_h_bonds g n nb d = Ok d' -> hs_hydrogens g d -> hs_hydrogens g d'.
Proof.
  intros Ha Hn. induction nb as [|[m b] nb IH]; intros d d'; cbn [scan_h_bonds].
  - intros H. inversion H. auto.
  - destruct (b_ord b =? 1).
    + destruct (atom_of g m) as [am|]; [|discriminate]. destruct (a_num am =? 1).
      * apply IH.
      * intros H Hd. apply (IH _ _ H). exact (dl_append_hydrogens g d m n a Hd Ha Hn).
    + destruct (b_ord b =? 8); [apply IH|discriminate].
Qed.

Lemma scan_explicit_hydrogens g : NoDup (ids g) -> forall l, (forall na, In na l -> In na (m_atoms g)) -> forall d d',
  scan_explicit g l d = Ok d' -> hs_hydrogens g d -> hs_hydrogens g d'.
Proof.
  intros Hnd. induction l as [|[n a] l IH]; intros Hsub d d'; cbn [scan_explicit].
  - intros H. inversion H. auto.
  - assert (Hsub' : forall na, In na l -> In na (m_atoms g)) by (intros na Hna; apply Hsub; right; exact Hna).
    destruct (is_protium a) eqn:Ep; [|apply (IH Hsub')].
    destruct (1 <? _); [discriminate|].
    destruct (scan_h_bonds g n (nbrs g n) d) as [d1|] eqn:E; [|discriminate].
    intros H Hd. apply (IH Hsub' _ _ H).
    assert (Ha : atom_of g n = Some a) by (apply In_zget; [exact Hnd|apply Hsub; left; reflexivity]).
    unfold is_protium in Ep. apply andb_true_iff in Ep. destruct Ep as [Ep _]. apply Z.eqb_eq in Ep.
    exact (scan_h_bonds_hydrogens g n a _ Ha Ep _ _ E Hd).
Qed.

Section ImplicifyProofs.
  Variable vlookup : atom -> list (Z * Z) -> Z -> vres.

  Lemma decide_firstn g n a hs : forall i hi h, decide vlookup g n a hs i = Some (hi, h) -> exists j, hi = firstn j hs.
  Proof.
    induction i as [|i IH]; intros hi h; cbn [decide]; [discriminate|].
    destruct (vlookup a _ _).
    - discriminate.
    - apply IH.
    - intros H. exists (S i). congruence.
  Qed.

  Lemma decide_all_removed g : forall ex rm fx rm' fx', decide_all vlookup g ex rm fx = Ok (rm', fx') ->
    forall x, zmem x rm' = true -> zmem x rm = true \/ exists n hs, In (n, hs) ex /\ In x hs.
  Proof.
    induction ex as [|[n hs] ex IH]; intros rm fx rm' fx'; cbn [decide_all].
    - intros H. inversion H. auto.
    - destruct (atom_of g n) as [a|]; [|discriminate].
      destruct (decide vlookup g n a hs (List.length hs)) as [[hi h]|] eqn:Ed.
      + intros H x Hx. destruct (IH _ _ _ _ H x Hx) as [Hr | [n' [hs' [Hin Hx']]]].
        * rewrite zmem_union_set in Hr. apply orb_true_iff in Hr. destruct Hr as [Hr | Hr]; [left; exact Hr|].
          right. exists n, hs. split; [left; reflexivity|].
          destruct (decide_firstn _ _ _ _ _ _ _ Ed) as [j ->]. apply zmem_In in Hr.
          rewrite <- (firstn_skipn j hs). apply in_or_app. left. exact Hr.
        * right. exists n', hs'. split; [right; exact Hin|exact Hx'].
      + intros H x Hx. destruct (IH _ _ _ _ H x Hx) as [Hr | [n' [hs' [Hin Hx']]]]; [left; exact Hr|].
        right. exists n', hs'. split; [right; exact Hin|exact Hx'].
  Qed.

  Lemma heavy_view_map f l :
    (forall na, fst (f na) = fst na /\ a_num (snd (f na)) = a_num (snd na) /\ a_iso (snd (f na)) = a_iso (snd na) /\
                a_chg (snd (f na)) = a_chg (snd na) /\ a_rad (snd (f na)) = a_rad (snd na)) ->
    heavy_view (map f l) = heavy_view l.
  Proof.
    intros Hf. unfold heavy_view. induction l as [|na l IH]; [reflexivity|]. cbn [map filter].
    destruct (Hf na) as [H1 [H2 [H3 [H4 H5]]]].
    assert (E : is_h (f na) = is_h na) by (unfold is_h; rewrite H2; reflexivity). rewrite E.
    destruct (is_h na); cbn [negb map]; [exact IH|]. rewrite IH, H1, H2, H3, H4, H5. reflexivity.
  Qed.

  Lemma heavy_view_upd_atoms n h l : heavy_view (upd_atoms n (set_h h) l) = heavy_view l.
  Proof.
    unfold upd_atoms. apply heavy_view_map. intros [k a]. cbn [fst snd]. destruct (k =? n); cbn [fst snd]; repeat split.
  Qed.

  Lemma heavy_view_set_hs fx : forall g, heavy_view (m_atoms (set_hs g fx)) = heavy_view (m_atoms g).
  Proof.
    unfold set_hs. induction fx as [|[n h] fx IH]; intros g; cbn [fold_left]; [reflexivity|].
    rewrite IH. unfold upd_atom. cbn [m_atoms fst snd]. apply heavy_view_upd_atoms.
  Qed.

  Lemma heavy_view_remove rm l : (forall na, In na l -> zmem (fst na) rm = true -> is_h na = true) ->
    heavy_view (filter (fun na => negb (zmem (fst na) rm)) l) = heavy_view l.
  Proof.
    unfold heavy_view. induction l as [|na l IH]; intros H; [reflexivity|]. cbn [filter].
    assert (H' : forall x, In x l -> zmem (fst x) rm = true -> is_h x = true) by (intros x Hx; apply H; right; exact Hx).
    destruct (zmem (fst na) rm) eqn:E; cbn [negb].
    - rewrite (H na (or_introl eq_refl) E). cbn [negb]. exact (IH H').
    - cbn [filter]. destruct (negb (is_h na)); cbn [map]; rewrite (IH H'); reflexivity.
  Qed.

  (* implicify_hydrogens never touches a non-hydrogen atom's number, element, isotope, charge or radical state, and never
     removes one *)
  Theorem implicify_heavy g g' : NoDup (ids g) -> implicify vlookup g = Ok g' ->
    heavy_view (m_atoms g') = heavy_view (m_atoms g).
  Proof.
    intros Hnd. unfold implicify.
    destruct (scan_explicit g (m_atoms g) []) as [ex|] eqn:Es; [|discriminate].
    destruct (decide_all vlookup g ex [] []) as [[rm fx]|] eqn:Ed; [|discriminate].
    intros H. inversion H; subst g'. rewrite heavy_view_set_hs. unfold remove_atoms. cbn [m_atoms].
    apply heavy_view_remove. intros [k a] Hin Hk. cbn [fst] in Hk.
    assert (Hex : hs_hydrogens g ex).
    { apply (scan_explicit_hydrogens g Hnd (m_atoms g) (fun na H0 => H0) [] ex Es). intros k0 l0 x0 []. }
    destruct (decide_all_removed g ex [] [] rm fx Ed k Hk) as [Hf | [n [hs [Hnh Hx]]]]; [discriminate|].
    destruct (Hex n hs k Hnh Hx) as [a' [Ha' Hn']].
    unfold atom_of in Ha'. rewrite (In_zget (m_atoms g) k a Hnd Hin) in Ha'. inversion Ha'; subst a'.
    unfold is_h. cbn [snd]. apply Z.eqb_eq. exact Hn'.
  Qed.
End ImplicifyProofs.

(* ================================================================================================
   a pass over a molecule that no left-hand side matches is the identity (for ANY rule table, matcher, calculator)
   ================================================================================================ *)
Section PassFixpoint.
  Variable matches : Z -> Z -> rule -> mol -> list mapping.
  Variable calc_h : mol -> Z -> option Z.

  Lemma rules_loop_fixpoint stage ft rules g : forall ridx log fixed,
    (forall ridx r, In r rules -> matches stage ridx r g = []) ->
    rules_loop matches calc_h stage ridx rules ft g log fixed = Ok (g, log, fixed).
  Proof.
    induction rules as [|r rules IH]; intros ridx log fixed H; cbn [rules_loop]; [reflexivity|].
    assert (H' : forall i x, In x rules -> matches stage i x g = []) by (intros i x Hx; apply H; right; exact Hx).
    destruct (negb ft && r_taut r); [apply IH; exact H'|].
    rewrite (H ridx r (or_introl eq_refl)). cbn [matches_loop ps_hs ps_mol ps_log]. apply IH. exact H'.
  Qed.

  Theorem passes_fixpoint dbl sgl mtl ft g :
    (forall stage ridx r, In r (dbl ++ sgl ++ mtl) -> matches stage ridx r g = []) ->
    standardize_passes matches calc_h dbl sgl mtl ft g = Ok (g, [], []).
  Proof.
    intros H. unfold standardize_passes, standardize_pass.
    rewrite rules_loop_fixpoint by (intros i r Hr; apply H; apply in_or_app; left; exact Hr).
    rewrite rules_loop_fixpoint by (intros i r Hr; apply H; apply in_or_app; right; apply in_or_app; left; exact Hr).
    rewrite rules_loop_fixpoint by (intros i r Hr; apply H; apply in_or_app; right; apply in_or_app; right; exact Hr).
    reflexivity.
  Qed.

  (* idempotence of the pass sequence whenever its output is matched by no left-hand side *)
  Corollary passes_idempotent_if_rhs_unmatched dbl sgl mtl ft g g1 log fixed :
    standardize_passes matches calc_h dbl sgl mtl ft g = Ok (g1, log, fixed) ->
    (forall stage ridx r, In r (dbl ++ sgl ++ mtl) -> matches stage ridx r g1 = []) ->
    standardize_passes matches calc_h dbl sgl mtl ft g1 = Ok (g1, [], []).
  Proof. intros _ H. exact (passes_fixpoint dbl sgl mtl ft g1 H). Qed.
End PassFixpoint.
