(* C02, fuel sufficiency, part 1: the DFS loop `while stack:` of Smiles._smiles ends within dfs_fuel = n_dbonds + 2 n_atoms + 2
   iterations.  Decreasing measure: (1 + pending children) summed over the stack entries, plus (1 + degree) summed over the
   atoms of atoms_set that are not yet visited. *)
From Coq Require Import ZArith List Bool Lia Permutation.
From Model Require Import PyBase Graph Writer.
From Proofs Require Import WriterProofsClosures WriterWfAtoms WriterWfStream WriterWfDfs WriterWfEvents WriterWfTree WriterWfComplete.
Import ListNotations.
Open Scope Z_scope.

Definition wsum (f : Z -> nat) (l : list Z) : nat := fold_right (fun v a => (f v + a)%nat) O l.

Lemma wsum_le f f' l : (forall v, (f' v <= f v)%nat) -> (wsum f' l <= wsum f l)%nat.
Proof. intros H. induction l as [|x l IH]; [cbn; lia|]. change (f' x + wsum f' l <= f x + wsum f l)%nat. specialize (H x). lia. Qed.

Lemma wsum_cons f x l : wsum f (x :: l) = (f x + wsum f l)%nat.
Proof. reflexivity. Qed.

Lemma wsum_dec f f' l c k : (forall v, (f' v <= f v)%nat) -> In c l -> (f' c + k <= f c)%nat -> (wsum f' l + k <= wsum f l)%nat.
Proof.
  intros H Hin Hc. induction l as [|x l IH]; [destruct Hin|]. rewrite !wsum_cons. destruct Hin as [E | Hin].
  - subst x. pose proof (wsum_le f f' l H). lia.
  - specialize (IH Hin). specialize (H x). lia.
Qed.

Lemma wsum_app f a b : wsum f (a ++ b) = (wsum f a + wsum f b)%nat.
Proof. induction a as [|x a IH]; [reflexivity|]. cbn [app]. rewrite !wsum_cons, IH. lia. Qed.

(* the degrees of distinct atoms add up to at most the number of adjacency entries *)
Lemma wsum_one (f : Z -> nat) k a : forall L, NoDup L ->
  (wsum (fun v => if (v =? k)%Z then a else f v) L <= a + wsum f L)%nat.
Proof.
  induction L as [|x L IH]; intros Hnd; [cbn; lia|]. rewrite !wsum_cons. inversion Hnd as [|? ? Hx Hnd']. subst.
  destruct (x =? k) eqn:E.
  - apply Z.eqb_eq in E. subst x.
    assert (Hrest : wsum (fun v => if v =? k then a else f v) L = wsum f L).
    { clear - Hx. induction L as [|y L IH]; [reflexivity|]. rewrite !wsum_cons.
      destruct (y =? k) eqn:E; [apply Z.eqb_eq in E; subst; exfalso; apply Hx; left; reflexivity|].
      rewrite IH; [reflexivity | intros H; apply Hx; right; exact H]. }
    rewrite Hrest. lia.
  - specialize (IH Hnd'). lia.
Qed.

Lemma wsum_ext f f' l : (forall v, f v = f' v) -> wsum f l = wsum f' l.
Proof. intros H. induction l as [|x l IH]; [reflexivity|]. rewrite !wsum_cons, H, IH. reflexivity. Qed.

Lemma degree_sum {V} (d : list (Z * list V)) : forall L, NoDup L ->
  (wsum (fun v => List.length (zgetl d v)) L <= List.length (flat_map (fun nl => snd nl) d))%nat.
Proof.
  induction d as [|[k l] d IH]; intros L Hnd.
  - rewrite (wsum_ext _ (fun _ => O)) by reflexivity. clear. induction L as [|x L IHL]; [cbn; lia|]. rewrite wsum_cons. cbn in *. lia.
  - cbn [flat_map snd]. rewrite app_length.
    rewrite (wsum_ext _ (fun v => if v =? k then List.length l else List.length (zgetl d v))).
    + pose proof (wsum_one (fun v => List.length (zgetl d v)) k (List.length l) L Hnd). specialize (IH L Hnd). lia.
    + intros v. unfold zgetl. cbn [zget]. destruct (v =? k); reflexivity.
Qed.

Lemma filter_length_le {A} (f : A -> bool) l : (List.length (filter f l) <= List.length l)%nat.
Proof. induction l as [|x l IH]; cbn; [lia|]. destruct (f x); cbn; lia. Qed.

Section Fuel.
  Variable g : mol.
  Variable key : Z -> Z -> list Z.
  Variable aset : list Z.
  Hypothesis Hclosed : forall n m, In n aset -> In m (nbr_ids g n) -> In m aset.

  Definition deg (v : Z) : nat := List.length (nbr_ids g v).
  Definition unv (vs : adjacency) : nat := wsum (fun v => if zhas vs v then O else S (deg v)) aset.
  Definition stk (stack : list (Z * Z * list Z)) : nat := fold_right (fun e a => (S (List.length (snd e)) + a)%nat) O stack.
  Definition mu (st : dfs_st) : nat := (stk (ds_stack st) + unv (ds_visited st))%nat.

  Lemma dfs_step_mu st st' : DC g aset st -> dfs_step g key st = Some st' -> (mu st' < mu st)%nat.
  Proof.
    intros C H. unfold dfs_step in H. destruct (ds_stack st) as [|[[parent depth] children] rest] eqn:Es; [discriminate|].
    unfold mu. rewrite Es. destruct children as [|child children'].
    - inversion H. subst st'. cbn [ds_stack ds_visited stk fold_right snd List.length]. lia.
    - destruct (negb (zhas (ds_visited st) child)) eqn:Ev.
      + apply negb_true_iff in Ev.
        assert (Hchild_in : In child aset).
        { apply (Hclosed parent child).
          - apply (dc_vis_in _ _ _ C). apply (dc_stack_vis _ _ _ C). unfold stack_atoms. rewrite Es. left. reflexivity.
          - apply (dc_children _ _ _ C parent depth (child :: children')); [rewrite Es; left; reflexivity | left; reflexivity]. }
        set (vis1 := ds_visited st ++ [(child, [parent])]) in *.
        assert (Hunv : (unv vis1 + S (deg child) <= unv (ds_visited st))%nat).
        { unfold unv. apply wsum_dec with (c := child); [| exact Hchild_in |].
          - intros v. unfold vis1. destruct (zhas (ds_visited st) v) eqn:E; [rewrite (zhas_app' _ _ _ _ E); lia | destruct (zhas (ds_visited st ++ [(child, [parent])]) v); lia].
          - unfold vis1. rewrite zhas_app_new, Ev. lia. }
        destruct (1 <? depth).
        * destruct (filter (fun m => negb (m =? parent)) (nbr_ids g child)) as [|f0 front] eqn:Ef.
          -- inversion H. subst st'. cbn [ds_stack ds_visited stk fold_right snd List.length]. lia.
          -- inversion H. subst st'. cbn [ds_stack ds_visited stk fold_right snd].
             assert (Hlen : (List.length (sort_by (key child) (f0 :: front)) <= deg child)%nat).
             { rewrite (Permutation_length (sort_by_perm (key child) (f0 :: front))). rewrite <- Ef. apply filter_length_le. }
             change (insert_first (key child) f0 (sort_by (key child) front)) with (sort_by (key child) (f0 :: front)).
             cbn [List.length] in *. lia.
        * inversion H. subst st'. cbn [ds_stack ds_visited stk fold_right snd List.length]. lia.
      + destruct (negb (pair_mem (child, parent) (ds_disc st))); inversion H; subst st'; cbn [ds_stack ds_visited stk fold_right snd List.length]; lia.
  Qed.

  Lemma iter_opt_total {S} (P : S -> Prop) (m : S -> nat) (step : S -> option S) :
    (forall s s', P s -> step s = Some s' -> P s' /\ (m s' < m s)%nat) ->
    forall fuel s, P s -> (m s < fuel)%nat -> exists r, iter_opt fuel step s = Some r.
  Proof.
    intros Hs. induction fuel as [|fuel IH]; intros s Ps Hm; [lia|]. cbn [iter_opt].
    destruct (step s) as [s'|] eqn:E; [|exists s; reflexivity].
    destruct (Hs s s' Ps E) as [Ps' Hd]. apply (IH s' Ps'). lia.
  Qed.
End Fuel.

(* the traversal of a component always returns: dfs_fuel suffices *)
Theorem traverse_total : forall g w tb o all st,
  NoDup (ws_atoms st) -> (forall n, In n (ws_atoms st) -> In n (ids g)) -> ws_atoms st <> [] ->
  (forall n m, In n (ws_atoms st) -> In m (nbr_ids g n) -> In m (ws_atoms st)) ->
  exists t, traverse g w tb o all st = Ok t.
Proof.
  intros g w tb o all st Hnd Hsub Hne Hcl. unfold traverse.
  destruct (min_by (key_start w tb o all) (ws_atoms st)) as [start|] eqn:Emin.
  2:{ exfalso. unfold min_by in Emin. destruct (sort_by (key_start w tb o all) (ws_atoms st)) as [|x l] eqn:Es; [|discriminate].
      destruct (ws_atoms st) as [|a r]; [contradiction|]. assert (Hin : In a (sort_by (key_start w tb o all) (a :: r))) by (apply In_sort_by; left; reflexivity).
      rewrite Es in Hin. exact Hin. }
  assert (Hstart : In start (ws_atoms st)).
  { unfold min_by in Emin. destruct (sort_by (key_start w tb o all) (ws_atoms st)) as [|x l] eqn:Es; [discriminate|].
    inversion Emin. subst x. apply (In_sort_by (key_start w tb o all)). rewrite Es. left. reflexivity. }
  match goal with |- context [iter_opt ?f ?step ?init] => set (s0 := init); set (stp := step) end.
  assert (I0 : DC g (ws_atoms st) s0).
  { constructor; unfold vis, stack_atoms, s0; cbn [ds_stack ds_visited ds_edges ds_tokens ds_disc map fst].
    - intros n Hn. unfold zhas in Hn. cbn [zget] in Hn. destruct (n =? start) eqn:E; [apply Z.eqb_eq in E; subst; exact Hstart | discriminate].
    - intros n [<- | []]. unfold zhas. cbn [zget]. rewrite Z.eqb_refl. reflexivity.
    - constructor; [intros [] | constructor].
    - cbn [depth_ok List.length]. split; [lia | exact I].
    - intros p d ch [E | []] m Hm. injection E as E1 E2 E3. subst p d ch. left. apply In_sort_by. exact Hm.
    - intros v Hv Hns. exfalso. apply Hns. left. unfold zhas in Hv. cbn [zget] in Hv. destruct (v =? start) eqn:E; [apply Z.eqb_eq in E; symmetry; exact E | discriminate].
    - intros a b [].
    - intros p d ch [E | []] c Hc. injection E as E1 E2 E3. subst p d ch. apply In_sort_by in Hc. exact Hc. }
  assert (Hmu : (mu g (ws_atoms st) s0 < dfs_fuel g)%nat).
  { unfold mu, s0. cbn [ds_stack ds_visited stk fold_right snd].
    assert (H1 : (unv g (ws_atoms st) [(start, [])] + S (deg g start) <= wsum (fun v => S (deg g v)) (ws_atoms st))%nat).
    { unfold unv. apply wsum_dec with (c := start); [| exact Hstart |].
      - intros v. destruct (zhas [(start, [])] v); lia.
      - unfold zhas. cbn [zget]. rewrite Z.eqb_refl. lia. }
    assert (H2 : wsum (fun v => S (deg g v)) (ws_atoms st) = (List.length (ws_atoms st) + wsum (deg g) (ws_atoms st))%nat).
    { clear. induction (ws_atoms st) as [|x l IH]; [reflexivity|]. rewrite !wsum_cons. cbn [List.length]. rewrite IH. lia. }
    assert (H3 : (List.length (ws_atoms st) <= n_atoms g)%nat) by (apply NoDup_incl_length; [exact Hnd | exact Hsub]).
    assert (H4 : (wsum (deg g) (ws_atoms st) <= n_dbonds g)%nat).
    { unfold deg, nbr_ids, nbrs, n_dbonds.
      rewrite (wsum_ext _ (fun v => List.length (zgetl (m_adj g) v))); [|intros v; unfold keys, zgetl; rewrite map_length; reflexivity].
      apply degree_sum. exact Hnd. }
    rewrite (Permutation_length (sort_by_perm _ (nbr_ids g start))). fold (deg g start). unfold dfs_fuel. lia. }
  destruct (iter_opt_total (DC g (ws_atoms st)) (mu g (ws_atoms st)) stp) with (fuel := dfs_fuel g) (s := s0) as [d Hd]; [| exact I0 | exact Hmu |].
  - intros s s' Ps E. split; [eapply dfs_step_DC; [exact Hcl | exact Ps | exact E] | eapply dfs_step_mu; [exact Hcl | exact Ps | exact E]].
  - rewrite Hd. eexists. reflexivity.
Qed.
