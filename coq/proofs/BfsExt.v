(* C01, extension: the BFS labels of the writer model (`seen`: "BFS nearest to starting" component of the sort key) do not
   depend on the order in which neighbours are listed.  The queue BFS of Model.Writer is shown to satisfy an order-free
   specification (start has label 0; every other labelled atom has label d >= 1 and a neighbour with label d - 1; the
   labelled set is closed under neighbours and labels grow by at most 1 along an edge), and two labelings that satisfy the
   specification over the same neighbour relation are equal. *)
From Coq Require Import ZArith List Bool Lia Permutation.
From Model Require Import PyBase Graph Morgan Writer.
From Proofs Require Import MorganProofs WriterInvProofs.
Import ListNotations.
Open Scope Z_scope.

(* ---- association lists with appended bindings ---- *)
Lemma zget_app {V} (a b : list (Z * V)) x : zget (a ++ b) x = match zget a x with Some v => Some v | None => zget b x end.
Proof. induction a as [|[k v] a IH]; cbn; [reflexivity|]. destruct (x =? k); [reflexivity | exact IH]. Qed.

Lemma zget_map_const (l : list Z) (d : Z) x : zget (map (fun m => (m, d)) l) x = if zmem x l then Some d else None.
Proof.
  induction l as [|y l IH]; cbn; [reflexivity|]. unfold zmem in *. cbn. destruct (x =? y); cbn; [reflexivity | exact IH].
Qed.

Lemma zhas_zget {V} (d : list (Z * V)) x : zhas d x = match zget d x with Some _ => true | None => false end.
Proof. reflexivity. Qed.

Lemma keys_app {V} (a b : list (Z * V)) : keys (a ++ b) = keys a ++ keys b.
Proof. unfold keys. apply map_app. Qed.
Lemma keys_map_const (l : list Z) (d : Z) : keys (map (fun m => (m, d)) l) = l.
Proof. unfold keys. rewrite map_map. cbn. apply map_id. Qed.
Lemma zget_in_keys {V} (d : list (Z * V)) x : (exists v, zget d x = Some v) <-> In x (keys d).
Proof.
  split.
  - intros [v H]. destruct (zget d x) eqn:E; [|discriminate]. apply zget_Some_In in E. unfold keys. change x with (fst (x, v0)). apply in_map. exact E.
  - intros H. destruct (zget d x) as [v|] eqn:E; [exists v; reflexivity|]. apply zget_None_iff in E. contradiction.
Qed.

Lemma nodup_app {A} (a b : list A) : NoDup a -> NoDup b -> (forall x, In x a -> ~ In x b) -> NoDup (a ++ b).
Proof.
  induction 1 as [|x a Hx Ha IH]; intros Hb Hd; cbn; [exact Hb|]. constructor.
  - intros H. apply in_app_or in H. destruct H as [H|H]; [contradiction | apply (Hd x (or_introl eq_refl)); exact H].
  - apply IH; [exact Hb | intros y Hy; apply Hd; right; exact Hy].
Qed.

Section BfsSpec.
  Variable g : mol.
  Variable start : Z.
  Hypothesis Hincl : forall n, incl (nbr_ids g n) (ids g).
  Hypothesis Hnd : forall n, NoDup (nbr_ids g n).
  Hypothesis Hstart : In start (ids g).

  Let nb := nbr_ids g.

  (* the order-free specification of a labeling over the neighbour relation of g *)
  Definition bfs_spec (R : list (Z * Z)) : Prop :=
    zget R start = Some 0 /\
    (forall x d, zget R x = Some d -> x <> start -> 1 <= d /\ exists y, In x (nb y) /\ zget R y = Some (d - 1)) /\
    (forall y dy, zget R y = Some dy -> forall x, In x (nb y) -> exists d, zget R x = Some d /\ d <= dy + 1).

  Definition mapd (d : Z) (l : list Z) : list (Z * Z) := map (fun m => (m, d)) l.

  (* invariant of the loop *)
  Definition binv (fuel : nat) (queue seen : list (Z * Z)) : Prop :=
    NoDup (keys seen) /\ incl (keys seen) (ids g) /\ NoDup (keys queue) /\
    zget seen start = Some 0 /\
    (forall x d, zget seen x = Some d -> x <> start -> 1 <= d /\ exists y, In x (nb y) /\ zget seen y = Some (d - 1)) /\
    (forall n dq, In (n, dq) queue -> zget seen n = Some (dq - 1)) /\
    (exists A B D, queue = mapd D A ++ mapd (D + 1) B /\ forall x d, zget seen x = Some d -> d <= D) /\
    (forall y dy, zget seen y = Some dy -> ~ In y (keys queue) -> forall x, In x (nb y) -> exists d, zget seen x = Some d /\ d <= dy + 1) /\
    (List.length (keys seen) + fuel >= S (List.length (ids g)) + List.length queue)%nat.

  Lemma nb_incl n : incl (nb n) (ids g).
  Proof. apply Hincl. Qed.
  Lemma nb_nodup n : NoDup (nb n).
  Proof. apply Hnd. Qed.

  Lemma filter_nodup {A} (p : A -> bool) l : NoDup l -> NoDup (filter p l).
  Proof.
    induction 1 as [|x l Hx Hl IH]; cbn; [constructor|]. destruct (p x); [|exact IH].
    constructor; [|exact IH]. intros H. apply filter_In in H. apply Hx. apply H.
  Qed.

  Lemma length_incl_nodup (a b : list Z) : NoDup a -> incl a b -> (List.length a <= List.length b)%nat.
  Proof. intros Hn Hi. apply NoDup_incl_length; assumption. Qed.

  (* one iteration keeps the invariant; with the invariant the fuel never runs out before the queue is empty *)
  Lemma bfs_inv : forall fuel queue seen, binv fuel queue seen -> bfs_spec (bfs g fuel queue seen).
  Proof.
    induction fuel as [|fuel IH]; intros queue seen Hinv.
    - (* no fuel: the queue must be empty *)
      destruct Hinv as [H1 [H2 [H3 [H4 [H5 [H6 [H7 [H8 H9]]]]]]]].
      assert (List.length (keys seen) <= List.length (ids g))%nat by (apply length_incl_nodup; assumption).
      destruct queue as [|q0 queue]; [|cbn [List.length] in H9; lia].
      cbn [bfs]. split; [exact H4|]. split; [exact H5|]. intros y dy Hy x Hx. apply (H8 y dy Hy); [intros []|exact Hx].
    - destruct queue as [|[n d] q].
      + destruct Hinv as [H1 [H2 [H3 [H4 [H5 [H6 [H7 [H8 H9]]]]]]]]. cbn [bfs].
        split; [exact H4|]. split; [exact H5|]. intros y dy Hy x Hx. apply (H8 y dy Hy); [intros []|exact Hx].
      + cbn [bfs]. apply IH. clear IH.
        destruct Hinv as [H1 [H2 [H3 [H4 [H5 [H6 [H7 [H8 H9]]]]]]]].
        set (fresh := filter (fun m => negb (zhas seen m)) (nbr_ids g n)).
        assert (forall m, In m fresh <-> In m (nb n) /\ zget seen m = None) as Hfresh.
        { intros m. unfold fresh. rewrite filter_In. unfold zhas. destruct (zget seen m); cbn; intuition congruence. }
        assert (NoDup fresh) as Hfn by (apply filter_nodup, nb_nodup).
        assert (zget seen n = Some (d - 1)) as Hn by (apply H6; left; reflexivity).
        (* the head has the smallest queue label D; all labels are <= D *)
        assert (forall x dx, zget seen x = Some dx -> dx <= d) as Hbound.
        { destruct H7 as [A [B [D [Hq Hb]]]]. intros x dx Hx. specialize (Hb x dx Hx).
          destruct A as [|a A]; cbn in Hq.
          - destruct B as [|b B]; cbn in Hq; [discriminate|]. injection Hq as _ Hd _. lia.
          - injection Hq as _ Hd _. lia. }
        assert (forall x, zget (seen ++ mapd d fresh) x = match zget seen x with Some v => Some v | None => if zmem x fresh then Some d else None end) as Hget.
        { intros x. rewrite zget_app. unfold mapd. rewrite zget_map_const. reflexivity. }
        assert (forall x v, zget seen x = Some v -> zget (seen ++ mapd d fresh) x = Some v) as Hold by (intros x v Hx; rewrite Hget, Hx; reflexivity).
        assert (forall m, In m fresh -> zget (seen ++ mapd d fresh) m = Some d) as Hnew.
        { intros m Hm. rewrite Hget. destruct (Hfresh m) as [Hf _]. destruct (Hf Hm) as [_ ->].
          replace (zmem m fresh) with true by (symmetry; apply zmem_In; exact Hm). reflexivity. }
        assert (1 <= d) as Hd1.
        { destruct (Z.eq_dec n start) as [->|Hne]; [rewrite H4 in Hn; injection Hn; lia|].
          destruct (H5 n (d - 1) Hn Hne) as [Hge _]. lia. }
        change (map (fun m : Z => (m, d + 1)) fresh) with (mapd (d + 1) fresh).
        change (map (fun m : Z => (m, d)) fresh) with (mapd d fresh).
        assert (forall x, In x (keys seen) -> ~ In x fresh) as Hsf.
        { intros x Hx Hf. apply zget_in_keys in Hx. destruct Hx as [v Hv]. apply Hfresh in Hf. destruct Hf as [_ Hf]. congruence. }
        assert (NoDup (keys q) /\ ~ In n (keys q)) as [Hq1 Hq2] by (cbn [keys map fst] in H3; inversion H3; subst; split; assumption).
        assert (forall x, In x (keys q) -> In x (keys seen)) as Hqs.
        { intros x Hx. unfold keys in Hx. apply in_map_iff in Hx. destruct Hx as [[x' dq] [<- Hx]]. cbn [fst].
          apply zget_in_keys. exists (dq - 1). apply H6. right. exact Hx. }
        unfold binv. rewrite !keys_app. unfold mapd at 1 2 3 4. rewrite !keys_map_const.
        split; [apply nodup_app; assumption|].
        split; [apply incl_app; [exact H2 | intros x Hx; apply Hfresh in Hx; apply (nb_incl n); apply Hx]|].
        split; [apply nodup_app; [exact Hq1 | exact Hfn | intros x Hx; apply Hsf, Hqs; exact Hx]|].
        split; [apply Hold; exact H4|].
        split.
        { intros x dx Hx Hne. rewrite Hget in Hx. destruct (zget seen x) as [v|] eqn:Ev.
          - injection Hx as <-. destruct (H5 x v Ev Hne) as [Hge [y [Hy1 Hy2]]]. split; [exact Hge|]. exists y. split; [exact Hy1 | apply Hold; exact Hy2].
          - destruct (zmem x fresh) eqn:Em; [|discriminate]. injection Hx as <-. split; [exact Hd1|]. exists n.
            apply zmem_In in Em. apply Hfresh in Em. split; [apply Em | apply Hold; exact Hn]. }
        split.
        { intros m dq Hm. apply in_app_or in Hm. destruct Hm as [Hm|Hm].
          - apply Hold. apply H6. right. exact Hm.
          - unfold mapd in Hm. apply in_map_iff in Hm. destruct Hm as [m' [E Hm]]. injection E as -> <-.
            replace (d + 1 - 1) with d by lia. apply Hnew. exact Hm. }
        split.
        { destruct H7 as [A [B [D [Hq Hb]]]].
          assert (forall x dx, zget (seen ++ mapd d fresh) x = Some dx -> dx <= d) as Hb'.
          { intros x dx Hx. rewrite Hget in Hx. destruct (zget seen x) as [v|] eqn:Ev; [injection Hx as <-; apply (Hbound x v Ev)|].
            destruct (zmem x fresh); [injection Hx as <-; lia | discriminate]. }
          destruct A as [|a A]; cbn [mapd map app] in Hq.
          - destruct B as [|b0 B]; cbn [mapd map app] in Hq; [discriminate|]. injection Hq as -> -> ->.
            exists B, fresh, (D + 1). split; [reflexivity | exact Hb'].
          - injection Hq as -> -> ->. exists A, (B ++ fresh), D. split; [|exact Hb'].
            unfold mapd. rewrite map_app, app_assoc. reflexivity. }
        split.
        { intros y dy Hy Hnq x Hx.
          assert (~ In y (keys q) /\ ~ In y fresh) as [Hy1 Hy2] by (split; intros H; apply Hnq; apply in_or_app; [left; exact H | right; unfold mapd; rewrite keys_map_const; exact H]).
          destruct (Z.eq_dec y n) as [->|Hne].
          - rewrite (Hold n (d - 1) Hn) in Hy. injection Hy as <-.
            destruct (zget seen x) as [v|] eqn:Ev.
            + exists v. split; [apply Hold; exact Ev | specialize (Hbound x v Ev); lia].
            + exists d. split; [apply Hnew; apply Hfresh; split; assumption | lia].
          - rewrite Hget in Hy. destruct (zget seen y) as [v|] eqn:Ev.
            + injection Hy as <-.
              destruct (H8 y v Ev) with (x := x) as [d0 [Hd0 Hle]]; [|exact Hx|].
              * cbn [keys map fst]. intros [H|H]; [apply Hne; symmetry; exact H | apply Hy1; exact H].
              * exists d0. split; [apply Hold; exact Hd0 | exact Hle].
            + destruct (zmem y fresh) eqn:Em; [|discriminate]. exfalso. apply Hy2. apply zmem_In. exact Em. }
        unfold mapd. rewrite ?keys_app, ?keys_map_const, !app_length, ?map_length. cbn [List.length] in H9. lia.
  Qed.

  (* the BFS of the first component *)
  Theorem bfs_first_component_spec : bfs_spec (bfs g (S (List.length (ids g))) [(start, 1)] [(start, 0)]).
  Proof.
    apply bfs_inv. unfold binv. cbn [keys map fst zget]. rewrite Z.eqb_refl.
    split; [constructor; [intros []|constructor]|].
    split; [intros x [<-|[]]; exact Hstart|].
    split; [constructor; [intros []|constructor]|].
    split; [reflexivity|].
    split; [intros x d Hx Hne; destruct (x =? start) eqn:E; [apply Z.eqb_eq in E; contradiction | discriminate]|].
    split; [intros n dq [H|[]]; injection H as <- <-; rewrite Z.eqb_refl; reflexivity|].
    split; [exists [start], [], 1; split; [reflexivity|]; intros x d Hx; destruct (x =? start); [injection Hx as <-; lia | discriminate]|].
    split; [intros y dy Hy Hnq; exfalso; apply Hnq; destruct (y =? start) eqn:E; [apply Z.eqb_eq in E; left; symmetry; exact E | discriminate]|].
    cbn [List.length]. lia.
  Qed.
End BfsSpec.

(* two labelings that satisfy the specification over the same neighbour relation are equal *)
Section Uniqueness.
  Variable g1 g2 : mol.
  Variable start : Z.
  Variable R1 R2 : list (Z * Z).
  Hypothesis Hnb : forall y x, In x (nbr_ids g1 y) <-> In x (nbr_ids g2 y).
  Hypothesis S1 : bfs_spec g1 start R1.
  Hypothesis S2 : bfs_spec g2 start R2.

  Lemma spec_le_aux (ga gb : mol) (Ra Rb : list (Z * Z)) :
    (forall y x, In x (nbr_ids ga y) -> In x (nbr_ids gb y)) -> bfs_spec ga start Ra -> bfs_spec gb start Rb ->
    forall d, 0 <= d -> forall x, zget Ra x = Some d -> exists d', zget Rb x = Some d' /\ d' <= d.
  Proof.
    intros Hsub [A1 [A2 A3]] [B1 [B2 B3]] d Hd. pattern d. apply natlike_ind; [| |exact Hd].
    - intros x Hx. destruct (Z.eq_dec x start) as [->|Hne]; [exists 0; split; [exact B1 | lia]|].
      destruct (A2 x 0 Hx Hne) as [Hge _]. lia.
    - intros k Hk IH x Hx. destruct (Z.eq_dec x start) as [->|Hne]; [exists 0; split; [exact B1 | lia]|].
      destruct (A2 x (Z.succ k) Hx Hne) as [_ [y [Hy1 Hy2]]]. replace (Z.succ k - 1) with k in Hy2 by lia.
      destruct (IH y Hy2) as [e [He Hle]].
      destruct (B3 y e He x (Hsub y x Hy1)) as [d2 [Hd2 Hle2]]. exists d2. split; [exact Hd2 | lia].
  Qed.

  Lemma spec_nonneg (ga : mol) (Ra : list (Z * Z)) : bfs_spec ga start Ra -> forall x d, zget Ra x = Some d -> 0 <= d.
  Proof.
    intros [A1 [A2 _]] x d Hx. destruct (Z.eq_dec x start) as [->|Hne]; [rewrite A1 in Hx; injection Hx as <-; lia|].
    destruct (A2 x d Hx Hne) as [Hge _]. lia.
  Qed.

  Theorem bfs_spec_unique x : zget R1 x = zget R2 x.
  Proof.
    assert (forall y z, In z (nbr_ids g1 y) -> In z (nbr_ids g2 y)) as H12 by (intros y z; apply Hnb).
    assert (forall y z, In z (nbr_ids g2 y) -> In z (nbr_ids g1 y)) as H21 by (intros y z; apply Hnb).
    destruct (zget R1 x) as [d|] eqn:E1; destruct (zget R2 x) as [d'|] eqn:E2.
    - destruct (spec_le_aux g1 g2 R1 R2 H12 S1 S2 d (spec_nonneg g1 R1 S1 x d E1) x E1) as [a [Ha Hla]].
      destruct (spec_le_aux g2 g1 R2 R1 H21 S2 S1 d' (spec_nonneg g2 R2 S2 x d' E2) x E2) as [b [Hb Hlb]].
      rewrite E2 in Ha. injection Ha as <-. rewrite E1 in Hb. injection Hb as <-. f_equal. lia.
    - destruct (spec_le_aux g1 g2 R1 R2 H12 S1 S2 d (spec_nonneg g1 R1 S1 x d E1) x E1) as [a [Ha _]]. congruence.
    - destruct (spec_le_aux g2 g1 R2 R1 H21 S2 S1 d' (spec_nonneg g2 R2 S2 x d' E2) x E2) as [b [Hb _]]. congruence.
    - reflexivity.
  Qed.
End Uniqueness.

(* BFS labels of the first component are independent of the order in which atoms, adjacency rows and neighbours are listed *)
Theorem bfs_order_independent (g1 g2 : mol) (start : Z) :
  (forall n, incl (nbr_ids g1 n) (ids g1)) -> (forall n, NoDup (nbr_ids g1 n)) -> In start (ids g1) ->
  (forall n, incl (nbr_ids g2 n) (ids g2)) -> (forall n, NoDup (nbr_ids g2 n)) -> In start (ids g2) ->
  (forall y x, In x (nbr_ids g1 y) <-> In x (nbr_ids g2 y)) ->
  forall x, zget (bfs g1 (S (List.length (ids g1))) [(start, 1)] [(start, 0)]) x =
            zget (bfs g2 (S (List.length (ids g2))) [(start, 1)] [(start, 0)]) x.
Proof.
  intros I1 N1 S1 I2 N2 S2 Hnb x.
  apply (bfs_spec_unique g1 g2 start _ _ Hnb); apply bfs_first_component_spec; assumption.
Qed.


(* ---- for well-formed molecules that differ by insertion order only ---- *)
Lemma nbr_ids_nodup_wf g n : wf_mol g = true -> NoDup (nbr_ids g n).
Proof.
  intros Hwf. unfold nbr_ids, nbrs. destruct (zget (m_adj g) n) as [row|] eqn:E; [|constructor].
  unfold wf_mol in Hwf. apply andb_prop in Hwf. destruct Hwf as [_ H3]. rewrite forallb_forall in H3.
  specialize (H3 _ (zget_Some_In _ _ _ E)). cbn [fst snd] in H3. apply andb_prop in H3. destruct H3 as [H3 _].
  apply nodup_z_NoDup. exact H3.
Qed.

Lemma nbr_ids_mol_perm g1 g2 y : wf_mol g1 = true -> mol_perm g1 g2 -> Permutation (nbr_ids g1 y) (nbr_ids g2 y).
Proof.
  intros Hwf [_ Hadj]. destruct (wf_mol_inv g1 Hwf) as [H1 [H2 _]].
  assert (NoDup (keys (m_adj g1))) as Hnd by (rewrite <- H1; exact H2).
  unfold nbr_ids, nbrs. destruct (zget (m_adj g1) y) as [row|] eqn:E.
  - destruct (zget_adj_perm _ _ y row Hadj Hnd E) as [row' [E' P]]. rewrite E'. unfold keys. apply Permutation_map. exact P.
  - replace (zget (m_adj g2) y) with (@None (list (Z * bond))); [apply Permutation_refl|]. symmetry.
    apply zget_None_iff. apply zget_None_iff in E. intros H. apply E.
    eapply Permutation_in; [apply Permutation_sym; apply (adj_perm_keys _ _ Hadj) | exact H].
Qed.

Theorem bfs_order_independent_wf (g1 g2 : mol) (start : Z) :
  wf_mol g1 = true -> wf_mol g2 = true -> mol_perm g1 g2 -> In start (ids g1) ->
  forall x, zget (bfs g1 (S (n_atoms g1)) [(start, 1)] [(start, 0)]) x = zget (bfs g2 (S (n_atoms g2)) [(start, 1)] [(start, 0)]) x.
Proof.
  intros W1 W2 Hp Hs x. unfold n_atoms. apply bfs_order_independent.
  - apply nbr_ids_incl. exact W1.
  - intros n. apply nbr_ids_nodup_wf. exact W1.
  - exact Hs.
  - apply nbr_ids_incl. exact W2.
  - intros n. apply nbr_ids_nodup_wf. exact W2.
  - destruct Hp as [Ha _]. eapply Permutation_in; [apply keys_perm; exact Ha | exact Hs].
  - intros y z. split; intros H; (eapply Permutation_in; [|exact H]); [|apply Permutation_sym]; apply nbr_ids_mol_perm; assumption.
Qed.

(* non-vacuity: 2-propanol-like star graph listed in two insertion orders (same numbers) *)
Definition exb_b : bond := mkBond 1 None.
Definition exb_a (z h : Z) : atom := mkAtom z None 0 false (Some h) None.
Definition exb_g1 : mol := mkMol [(1, exb_a 6 3); (2, exb_a 6 1); (3, exb_a 6 3); (4, exb_a 8 1)]
                                 [(1, [(2, exb_b)]); (2, [(1, exb_b); (3, exb_b); (4, exb_b)]); (3, [(2, exb_b)]); (4, [(2, exb_b)])].
Definition exb_g2 : mol := mkMol [(4, exb_a 8 1); (2, exb_a 6 1); (1, exb_a 6 3); (3, exb_a 6 3)]
                                 [(4, [(2, exb_b)]); (2, [(4, exb_b); (3, exb_b); (1, exb_b)]); (1, [(2, exb_b)]); (3, [(2, exb_b)])].
Theorem bfs_example :
  wf_mol exb_g1 = true /\ wf_mol exb_g2 = true /\ mol_perm exb_g1 exb_g2 /\ In 1 (ids exb_g1) /\
  bfs exb_g1 (S (n_atoms exb_g1)) [(1, 1)] [(1, 0)] = [(1, 0); (2, 1); (3, 2); (4, 2)] /\
  bfs exb_g2 (S (n_atoms exb_g2)) [(1, 1)] [(1, 0)] = [(1, 0); (2, 1); (4, 2); (3, 2)].
Proof.
  split; [vm_compute; reflexivity|]. split; [vm_compute; reflexivity|].
  split.
  { split.
    - cbn [exb_g1 exb_g2 m_atoms].
      apply (Permutation_cons_app [(4, exb_a 8 1); (2, exb_a 6 1)] [(3, exb_a 6 3)]).
      apply (Permutation_cons_app [(4, exb_a 8 1)] [(3, exb_a 6 3)]). apply perm_swap.
    - exists [(1, [(2, exb_b)]); (2, [(4, exb_b); (3, exb_b); (1, exb_b)]); (3, [(2, exb_b)]); (4, [(2, exb_b)])]. split.
      + cbn [exb_g1 m_adj]. repeat constructor; cbn [fst snd]; try apply Permutation_refl.
        apply (Permutation_cons_app [(4, exb_b); (3, exb_b)] []). apply perm_swap.
      + cbn [exb_g2 m_adj].
        apply (Permutation_cons_app [(4, [(2, exb_b)]); (2, [(4, exb_b); (3, exb_b); (1, exb_b)])] [(3, [(2, exb_b)])]).
        apply (Permutation_cons_app [(4, [(2, exb_b)])] [(3, [(2, exb_b)])]). apply perm_swap. }
  split; [cbn; auto|]. split; vm_compute; reflexivity.
Qed.
