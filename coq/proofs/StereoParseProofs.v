(* C12: direction marks of the SMILES parser are two views of one bond; the reference substituent of __differentiation depends on
   the Morgan classes only *)
From Coq Require Import ZArith List Bool Lia.
From Model Require Import PyBase StereoParse.
Import ListNotations.
Open Scope Z_scope.

Definition marked (t : option btok) : bool := match t with Some tk => is_mark tk | None => false end.

(* whenever the closure bond carries exactly one direction mark (at the opening or at the closing digit, the other digit bare or
   with an explicit '-'), the atom that carries the mark sees the mark and the other atom sees its reverse *)
Theorem closure_marks_single (v : Z) (plain : option btok) : plain = None \/ plain = Some (1, 1) ->
  closure_marks (Some (9, v)) plain = Ok (Some (mark_of (9, v)), Some (negb (mark_of (9, v)))) /\
  closure_marks plain (Some (9, v)) = Ok (Some (negb (mark_of (9, v))), Some (mark_of (9, v))).
Proof. intros [->| ->]; split; reflexivity. Qed.

(* the two views of a recorded closure bond are opposite unless BOTH digits carry a mark (then each atom keeps its own mark) *)
Theorem closure_marks_opposite ob cb x y : marked ob && marked cb = false ->
  closure_marks ob cb = Ok (Some x, Some y) -> y = negb x.
Proof.
  unfold closure_marks, marked. destruct ob as [o|], cb as [c|]; cbn [andb].
  - destruct (is_mark c) eqn:Ec, (is_mark o) eqn:Eo; cbn [andb]; try discriminate; intros _.
    + destruct (negb (snd o =? 1)); [discriminate|]. intros H. injection H as <- <-. rewrite negb_involutive. reflexivity.
    + destruct (negb (snd c =? 1)); [discriminate|]. intros H. injection H as <- <-. reflexivity.
    + destruct (negb (snd c =? snd o)); discriminate.
  - intros _. destruct (is_mark o); [|discriminate]. intros H. injection H as <- <-. reflexivity.
  - intros _. destruct (is_mark c); [|discriminate]. intros H. injection H as <- <-. rewrite negb_involutive. reflexivity.
  - discriminate.
Qed.

Theorem chain_marks_opposite t x y : chain_marks t = (Some x, Some y) -> y = negb x.
Proof. unfold chain_marks. destruct t as [tk|]; [|discriminate]. destruct (is_mark tk); [|discriminate]. intros H. injection H as <- <-. reflexivity. Qed.

(* the reference substituent: chosen by class only -- equivariant under renumbering, and independent of the order in which the two
   substituents are listed when their classes differ *)
Theorem ct_ref_equivariant (s : Z -> Z) (w w' : Z -> Z) n1 n2 :
  w' (s n1) = w n1 -> w' (s n2) = w n2 -> ct_ref w' (s n1) (s n2) = s (ct_ref w n1 n2).
Proof. intros H1 H2. unfold ct_ref. rewrite H1, H2. destruct (w n2 <? w n1); reflexivity. Qed.

Theorem ct_ref_order_independent w n1 n2 : w n1 <> w n2 -> ct_ref w n1 n2 = ct_ref w n2 n1.
Proof. intros H. unfold ct_ref. destruct (Z.ltb_spec (w n2) (w n1)), (Z.ltb_spec (w n1) (w n2)); try reflexivity; lia. Qed.

Theorem ct_ref_is_min w n1 n2 : (ct_ref w n1 n2 = n1 \/ ct_ref w n1 n2 = n2) /\ w (ct_ref w n1 n2) <= w n1 /\ w (ct_ref w n1 n2) <= w n2.
Proof. unfold ct_ref. destruct (Z.ltb_spec (w n2) (w n1)); repeat split; try tauto; lia. Qed.

Theorem parse_marks_example :
  closure_marks (Some (1, 1)) (Some (9, 1)) = Ok (Some false, Some true) /\      (* C-1 ... /1 : the seeded spelling *)
  closure_marks (Some (9, 1)) (Some (9, 0)) = Ok (Some true, Some false) /\
  closure_marks (Some (1, 2)) (Some (9, 1)) = Err IncorrectSmiles /\
  ct_ref (fun x => if x =? 7 then 1 else 5) 3 7 = 7 /\ ct_ref (fun _ => 2) 3 7 = 3.
Proof. repeat split; vm_compute; reflexivity. Qed.
